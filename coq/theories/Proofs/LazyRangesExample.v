(* C19, byte level: two concrete files on which the hypotheses of Props/C19_bytes.v hold and
   the model computes, read for read, what the recording stream of harness/c19.py logged when
   nptdms (/repo) served the same requests (the lists below are those logs, verbatim).

   ex_bytes (965 bytes, harness/lazygen.py): channels a (int32), b (string), c (timestamp) of group g;
     segment 0 at 0    contiguous   a(4) b(3) c(2) x 3 chunks, data at 148, 69 bytes per chunk
     segment 1 at 355  interleaved  a(4) c(4)      x 3 chunks, data at 459, 80 bytes per chunk
     segment 2 at 699  contiguous   a(4) c(3)      x 3 chunks, data at 803, 64 bytes per chunk,
                       the file is cut 30 bytes before the end of the third chunk
                       (final chunk: a 4 values, c 1 value)
   exq_bytes (401 bytes, harness/daqmxgen.py): DAQmx, two raw buffers (2 rows x 2 bytes, 4 rows x 4 bytes,
     20 bytes per chunk), segment 0 at 0 with 3 chunks (data at 279), segment 1 at 339 with
     1 chunk and a second one cut after 14 bytes (data at 367); channel c0 lives in buffer 0. *)
From Coq Require Import List ZArith Bool String.
From Coq Require Import Init.Byte.
Import ListNotations.
From NpTdms Require Import Base.Bytes Base.Res Base.PySlice Model.Tokens Model.SegState Model.Layout
     Model.Reader Model.LazyRead Model.LazyBytes Model.LazyRanges.
Local Open Scope Z_scope.

Definition ex_bytes : bytes := hex "5444536d0e000000691200004701000000000000780000000000000003000000080000002f2767272f276127140000000300000001000000040000000000000000000000080000002f2767272f2762271c00000020000000010000000300000000000000150000000000000000000000080000002f2767272f276327140000004400000001000000020000000000000000000000010000000200000003000000040000000300000006000000090000003030313030323030330000000000000000010000000000000000000000000000000200000000000000050000000600000007000000080000000300000006000000090000003030343030353030360000000000000000030000000000000000000000000000000400000000000000090000000a0000000b0000000c00000003000000060000000900000030303730303830303900000000000000000500000000000000000000000000000006000000000000005444536d2e000000691200003c010000000000004c0000000000000002000000080000002f2767272f276127140000000300000001000000040000000000000000000000080000002f2767272f2763271400000044000000010000000400000000000000000000000d000000000000000000000007000000000000000e000000000000000000000008000000000000000f000000000000000000000009000000000000001000000000000000000000000a000000000000001100000000000000000000000b000000000000001200000000000000000000000c000000000000001300000000000000000000000d000000000000001400000000000000000000000e000000000000001500000000000000000000000f000000000000001600000000000000000000001000000000000000170000000000000000000000110000000000000018000000000000000000000012000000000000005444536d0e000000691200000c010000000000004c0000000000000002000000080000002f2767272f276127140000000300000001000000040000000000000000000000080000002f2767272f276327140000004400000001000000030000000000000000000000190000001a0000001b0000001c0000000000000000000000130000000000000000000000000000001400000000000000000000000000000015000000000000001d0000001e0000001f0000002000000000000000000000001600000000000000000000000000000017000000000000000000000000000000180000000000000021000000220000002300000024000000000000000000000019000000000000000000".
Definition ex_path_a : bytes := hex "2f2767272f276127".   (* /'g'/'a' *)
Definition ex_path_b : bytes := hex "2f2767272f276227".   (* /'g'/'b' *)
Definition ex_path_c : bytes := hex "2f2767272f276327".   (* /'g'/'c' *)

Definition exq_bytes : bytes := hex "5444536dce00000000001269000000000000013700000000000000fb000000030000000a2f276471272f276330270000126affffffff00000001000000000000000200000002000000000000000000000000960000000a0000000000000000000000083700000001000000020000000200000004000000000000000a2f276471272f276331270000126affffffff0000000100000000000000040000000200000000000000010000001c880000000a00000000000000010000001e830000000b000000020000000200000004000000000000000a2f276471272f276332270000126affffffff0000000100000000000000040000000100000000000000010000000fc30000000000000002000000020000000400000000b3f545dd245898937832cbf12dd51108d602c140713ce167747b432dfaa98f6f60485b57b9a4925b143e6c207118343b36ebe8b6886840a25e97222c5444536dc800000000001269000000000000002800000000000000000d315f6ac24cff40ae4a6ce367a8ade5be1cf579ecae09c6278e6f01b50ebcd3742d".
Definition exq_path_c0 : bytes := hex "2f276471272f27633027".   (* /'dq'/'c0' *)
Definition exq_path_c1 : bytes := hex "2f276471272f27633127".   (* /'dq'/'c1' *)

(* the state the metadata pass leaves satisfies the structural invariants, for every channel *)
Definition inv_on (data : bytes) (paths : list bytes) : bool :=
  match open_state data with
  | Ok st => forallb (ranges_inv st data) paths
  | Err _ => false
  end.

Lemma ex_inv : inv_on ex_bytes [ex_path_a; ex_path_b; ex_path_c] = true.
Proof. vm_compute. reflexivity. Qed.

Lemma exq_inv : inv_on exq_bytes [exq_path_c0; exq_path_c1] = true.
Proof. vm_compute. reflexivity. Qed.

(* where the segments are *)
Lemma ex_segments :
  match open_state ex_bytes with
  | Ok st => map (fun g => (sg_pos g, sg_data g, sg_nchunks g)) (rs_segments st) = [(0, 148, 3); (355, 459, 3); (699, 803, 3)]
  | Err _ => False
  end.
Proof. vm_compute. reflexivity. Qed.

(* read_data(13, 14) on a: values 13..26 = all of the interleaved segment (ONE read of its three
   chunks) and the first chunk of segment 2 (a's 16 bytes of it); two tag checks *)
Lemma ex_a_13_14 :
  lz_ranges_bytes ex_bytes ex_path_a 13 (Some 14) = Ok [(355, 4); (459, 240); (699, 0); (699, 4); (803, 16); (819, 0)].
Proof. vm_compute. reflexivity. Qed.

(* the truncated final chunk holds all 4 values of a *)
Lemma ex_a_30_3 :
  lz_ranges_bytes ex_bytes ex_path_a 30 (Some 3) = Ok [(699, 4); (867, 16); (883, 0); (931, 16); (947, 0)].
Proof. vm_compute. reflexivity. Qed.

Lemma ex_a_all :
  lz_ranges_bytes ex_bytes ex_path_a 0 None =
  Ok [(0, 4); (148, 16); (164, 0); (217, 16); (233, 0); (286, 16); (302, 0); (355, 4); (459, 240); (699, 0);
      (699, 4); (803, 16); (819, 0); (867, 16); (883, 0); (931, 16); (947, 0)].
Proof. vm_compute. reflexivity. Qed.

(* c is the last object of the contiguous chunks: the reader seeks over a and b *)
Lemma ex_c_5_3 :
  lz_ranges_bytes ex_bytes ex_path_c 5 (Some 3) = Ok [(0, 4); (323, 32); (355, 0); (355, 4); (459, 80); (539, 0)].
Proof. vm_compute. reflexivity. Qed.

(* ... and of the truncated final chunk it has one value (16 bytes) *)
Lemma ex_c_13_14 :
  lz_ranges_bytes ex_bytes ex_path_c 13 (Some 14) =
  Ok [(355, 4); (539, 160); (699, 0); (699, 4); (819, 48); (867, 0); (883, 48); (931, 0); (947, 16); (963, 0)].
Proof. vm_compute. reflexivity. Qed.

(* strings: the implementation logged
     (0,4) (233,4) (237,4) (241,4) (245,3) (248,3) (251,3) (302,4) (306,4) (310,4) (314,3) (317,3) (320,3)
   -- three offsets and three bodies per chunk; merged: one block of the declared 21 bytes per chunk *)
Lemma ex_b_5_3 :
  lz_ranges_bytes ex_bytes ex_path_b 5 (Some 3) = Ok [(0, 4); (233, 21); (302, 21)] /\
  norm_reads [(0, 4); (233, 4); (237, 4); (241, 4); (245, 3); (248, 3); (251, 3);
              (302, 4); (306, 4); (310, 4); (314, 3); (317, 3); (320, 3)] = [(0, 4); (233, 21); (302, 21)].
Proof. split; vm_compute; reflexivity. Qed.

(* an empty window at a chunk boundary inside a segment: the segment is visited (tag check)
   but no chunk is planned *)
Lemma ex_a_4_0 :
  lz_ranges_bytes ex_bytes ex_path_a 4 (Some 0) = Ok [(0, 4)] /\
  match open_state ex_bytes with
  | Ok st => lz_plan_meta st ex_path_a 4 (Some 0) = Ok []
  | Err _ => False
  end.
Proof. split; vm_compute; reflexivity. Qed.

(* channel[13], channel[14] (cache hit), channel[-1] on one channel object *)
Lemma ex_a_index :
  match open_state ex_bytes with
  | Ok st =>
    match meta_views st ex_path_a with
    | Ok views =>
      match lz_index_ranges st ex_bytes ex_path_a views None 13 with
      | Ok (r1, c1) =>
        r1 = [(355, 4); (459, 80); (539, 0)] /\
        match lz_index_ranges st ex_bytes ex_path_a views c1 14 with
        | Ok (r2, c2) =>
          r2 = [] /\
          match lz_index_ranges st ex_bytes ex_path_a views c2 (-1) with
          | Ok (r3, _) => r3 = [(699, 4); (931, 16); (947, 0)]
          | Err _ => False
          end
        | Err _ => False
        end
      | Err _ => False
      end
    | Err _ => False
    end
  | Err _ => False
  end.
Proof. vm_compute. repeat split; reflexivity. Qed.

(* DAQmx: every chunk is read whole, buffer after buffer (4 + 16 bytes); the last chunk is
   cut, the second buffer's read returns 10 of 16 bytes *)
Lemma exq_c0_all :
  lz_ranges_bytes exq_bytes exq_path_c0 0 None =
  Ok [(0, 4); (279, 4); (283, 0); (283, 16); (299, 0); (299, 4); (303, 0); (303, 16); (319, 0); (319, 4); (323, 0);
      (323, 16); (339, 0); (339, 4); (367, 4); (371, 0); (371, 16); (387, 0); (387, 4); (391, 0); (391, 10); (401, 0)].
Proof. vm_compute. reflexivity. Qed.

Lemma exq_c0_1_2 :
  lz_ranges_bytes exq_bytes exq_path_c0 1 (Some 2) =
  Ok [(0, 4); (279, 4); (283, 0); (283, 16); (299, 0); (299, 4); (303, 0); (303, 16); (319, 0)].
Proof. vm_compute. reflexivity. Qed.

Lemma exq_c1_17_1 :
  lz_ranges_bytes exq_bytes exq_path_c1 17 (Some 1) = Ok [(339, 4); (387, 4); (391, 0); (391, 10); (401, 0)].
Proof. vm_compute. reflexivity. Qed.
