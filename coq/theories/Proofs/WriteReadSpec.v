(* C07, composed: the CONTENT a list of writer sessions describes, defined
   directly from the call list (neither through the writer model's bytes nor
   through the reader model), and rendered as the token list the reader model's
   [rd_all] produces.

   [sessions : list (Z * list (list wobj))]: per `with TdmsWriter(..., version)`
   block the format version and the write_segment calls; each call is a list of
   root / group / channel objects (Model/Writer.v [wobj]: typed properties,
   TDMS data type and value bytes).

   The content:
     - per call, the objects in the order the file lists them ([call_seq]): the
       root objects, the group objects (in call order), then one property-less
       group object for every group a channel of the call belongs to (sorted by
       name, sorted(set(..)) - these are no-ops when the group already exists),
       then the channel objects (in call order);  [obj_seq] is the
       concatenation over all calls of all sessions;
     - groups: order of first appearance in [obj_seq] ([group_names]);
       channels of a group: order of first appearance ([chan_names]);
     - per object path the properties of every object written under that path,
       concatenated in order, last value of a name wins and the name keeps the
       position of its first appearance ([props_at]; an insertion-ordered dict);
     - per channel the data type is the first non-Void type written for it
       ([dtype_at]; None when only untyped empty data was written), the values
       are the concatenation of all value lists written for it ([values_at]),
       the length is their number;
     - the version is the version of the first session that makes a call
       (the reader reports the first segment's version);
     - file_status: complete ([TZ 0; TZ 0]).

   Library functions used: SegState.aset / bytes_eqb (insertion-ordered
   dictionary update, byte string equality), Writer.sorted_set /
   groups_required / obj_path / obj_props / obj_values / is_root / is_group /
   is_chan (projections and sorted(set(..))), ByteStr.group_path / chan_path /
   ROOT_PATH (str(ObjectPath)), and the renderer Reader.obs_hierarchy /
   obs_cdata with the record types hierarchy / group / channel. *)
From Coq Require Import List ZArith Bool.
From Coq Require Import Init.Byte.
Import ListNotations.
From NpTdms Require Import Base.Bytes Base.Res Model.Tokens Model.ByteStr Model.StrictParse Model.Writer.
From NpTdms Require Import Model.SegState Model.Layout Model.Reader.
Local Open Scope Z_scope.

Definition wsessions := list (Z * list (list wobj)).

(* ---- the objects, in file order -------------------------------------------------- *)

Definition implied_groups (objs : list wobj) : list wobj :=
  map (fun g => WGroup g []) (sorted_set (groups_required objs)).

Definition call_seq (objs : list wobj) : list wobj :=
  filter is_root objs ++ filter is_group objs ++ implied_groups objs ++ filter is_chan objs.

Definition all_calls (ss : wsessions) : list (list wobj) := flat_map snd ss.

Definition obj_seq (ss : wsessions) : list wobj := flat_map call_seq (all_calls ss).

(* ---- order of first appearance ---------------------------------------------------- *)

Definition mem (x : bytes) (l : list bytes) : bool := existsb (bytes_eqb x) l.

Definition add_new (acc : list bytes) (x : bytes) : list bytes :=
  if mem x acc then acc else acc ++ [x].

Definition dedup (l : list bytes) : list bytes := fold_left add_new l [].

Definition group_name_of (o : wobj) : list bytes :=
  match o with WGroup g _ => [g] | _ => [] end.

Definition chan_name_of (g : bytes) (o : wobj) : list bytes :=
  match o with
  | WChan g' c _ _ _ => if bytes_eqb g g' then [c] else []
  | _ => []
  end.

Definition group_names (seq : list wobj) : list bytes := dedup (flat_map group_name_of seq).
Definition chan_names (g : bytes) (seq : list wobj) : list bytes := dedup (flat_map (chan_name_of g) seq).

(* ---- per path: properties, data type, values ------------------------------------ *)

Definition at_path {A} (p : bytes) (f : wobj -> list A) (o : wobj) : list A :=
  if bytes_eqb p (obj_path o) then f o else [].

Definition merge_props (ps : list prop) (acc : alist prop) : alist prop :=
  fold_left (fun acc p => aset (p_name p) p acc) ps acc.

Definition props_at (p : bytes) (seq : list wobj) : alist prop :=
  merge_props (flat_map (at_path p obj_props) seq) [].

Definition values_at (p : bytes) (seq : list wobj) : list bytes :=
  flat_map (at_path p obj_values) seq.

(* the non-Void data types written for a channel, in order *)
Definition obj_dtypes (o : wobj) : list Z :=
  match o with
  | WChan _ _ dt _ _ => if dt =? T_VOID then [] else [dt]
  | _ => []
  end.

Definition dtype_at (p : bytes) (seq : list wobj) : option Z :=
  hd_error (flat_map (at_path p obj_dtypes) seq).

(* ---- the content as a hierarchy ---------------------------------------------------- *)

Definition content_channel (seq : list wobj) (g c : bytes) : channel :=
  let p := chan_path g c in
  mkChan g c p (dtype_at p seq) None (Z.of_nat (length (values_at p seq))) (props_at p seq).

Definition content_group (seq : list wobj) (g : bytes) : group :=
  mkGroup g (props_at (group_path g) seq)
          (map (fun c => (c, content_channel seq g c)) (chan_names g seq)).

Definition content_hierarchy (seq : list wobj) : hierarchy :=
  mkHier (props_at ROOT_PATH seq) (map (fun g => (g, content_group seq g)) (group_names seq)).

Definition content_data (seq : list wobj) (c : channel) : option cdata :=
  match ch_dtype c with
  | None => None
  | Some _ => Some (CData (values_at (ch_path c) seq))
  end.

Fixpoint content_version (ss : wsessions) : Z :=
  match ss with
  | [] => 0
  | (v, calls) :: r => match calls with [] => content_version r | _ :: _ => v end
  end.

Definition content_tokens_of_seq (version : Z) (seq : list wobj) : list tok :=
  TZ version ::
  obs_hierarchy (content_hierarchy seq) (fun c => obs_cdata (content_data seq c)) ++ [TZ 0; TZ 0].

Definition content_tokens_of_calls (ss : wsessions) : list tok :=
  content_tokens_of_seq (content_version ss) (obj_seq ss).

(* ---- restrictions (what the reader, or read_correct, does not accept) ------------- *)

(* every channel is written with ONE data type (Void, i.e. empty data of no
   determinable type, aside): the reader refuses a file in which a channel
   changes its type ("Segment data doesn't have the same type as previous
   segments") *)
Definition dtypes_of (p : bytes) (seq : list wobj) : list Z := flat_map (at_path p obj_dtypes) seq.

Definition all_same (l : list Z) : bool :=
  match l with
  | [] => true
  | x :: r => forallb (Z.eqb x) r
  end.

Definition dtypes_consistent (ss : wsessions) : bool :=
  let seq := obj_seq ss in
  forallb (fun o => all_same (dtypes_of (obj_path o) seq)) (filter is_chan seq).
