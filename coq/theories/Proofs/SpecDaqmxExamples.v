(* Instances for Props/C11_spec.v: the specification Model/SpecDaqmx.v evaluated on
   concrete files, and the refinement theorem applied to them.
     dx_file  (ReadCorrectDaqmx.v)  two DAQmx segments (2 x 4 and 3 x 3 byte buffers; DaqMxRawData
              channel with two scalers, digital-line channel, typed int32 channel; the
              second segment without metadata) and an ordinary int32 segment;
     dm_file  (TruncDaqmxFileEx.v)  a channel with one scaler in each of two raw buffers;
     dz_file  dx_file's first segment, then an ordinary segment whose only channel
              declares ZERO values (chunk size 0, empty raw data block);
     rc_file  (ReadCorrect.v)       no DAQmx index: the specification is Model/Spec.v's;
   and three files the specification rejects, with the reader model's verdict. *)
From Coq Require Import List ZArith Bool.
From Coq Require Import Init.Byte.
Import ListNotations.
From NpTdms Require Import Base.Bytes Base.Res Model.Tokens Model.SegState Model.Layout Model.Reader
     Model.FileSyn Model.Spec Model.SpecDaqmx Proofs.FileSynProofs Proofs.ReadCorrect Proofs.ReadCorrectDaqmx
     Proofs.TruncDaqmxFileEx Proofs.SpecRefineExamples Proofs.SpecDaqmxRefine Proofs.SpecDaqmxConserv.
Local Open Scope Z_scope.

Definition dq_content (segs : list fseg) : dcontent :=
  match spec_meaning_dq segs with SOk c => c | SErr _ => mkDcontent 0 [] end.

Example dx_meaning : spec_meaning_dq dx_file = SOk (dq_content dx_file).
Proof. vm_compute. reflexivity. Qed.

Example dx_spec_hyps : wf_file dx_file /\ spec_ok_dq dx_file.
Proof. split; [exact dx_wf|unfold spec_ok_dq; vm_compute; reflexivity]. Qed.

Example dx_spec_read : rd_all (ser_file dx_file) = Ok (spec_tokens_dq (dq_content dx_file), true).
Proof. exact (reader_refines_spec_dq dx_file _ (proj1 dx_spec_hyps) (proj2 dx_spec_hyps) dx_meaning). Qed.

Definition dz_file : list fseg :=
  [ nth 0 dx_file (mkFseg 0 0 None []);
    mkFseg 14 4713 (Some [ mkEntry dx_px (IFull 20 3 1 0 None) [] ]) [] ].

Example dz_meaning : spec_meaning_dq dz_file = SOk (dq_content dz_file).
Proof. vm_compute. reflexivity. Qed.

Example dz_spec_hyps : wf_file dz_file /\ spec_ok_dq dz_file.
Proof. split; [unfold wf_file|unfold spec_ok_dq]; vm_compute; reflexivity. Qed.

Example dz_spec_read : rd_all (ser_file dz_file) = Ok (spec_tokens_dq (dq_content dz_file), true).
Proof. exact (reader_refines_spec_dq dz_file _ (proj1 dz_spec_hyps) (proj2 dz_spec_hyps) dz_meaning). Qed.

Example dm_meaning : spec_meaning_dq dm_file = SOk (dq_content dm_file).
Proof. vm_compute. reflexivity. Qed.

Example dm_spec_hyps : wf_file dm_file /\ spec_ok_dq dm_file.
Proof. split; [unfold wf_file|unfold spec_ok_dq]; vm_compute; reflexivity. Qed.

Example dm_spec_read : rd_all (ser_file dm_file) = Ok (spec_tokens_dq (dq_content dm_file), true).
Proof. exact (reader_refines_spec_dq dm_file _ (proj1 dm_spec_hyps) (proj2 dm_spec_hyps) dm_meaning). Qed.

(* no DAQmx index: Model/Spec.v's meaning, embedded *)
Example rc_conservative :
  no_daqmx_index rc_file = true /\
  spec_meaning_dq rc_file = SOk (embed rc_content) /\
  spec_tokens_dq (embed rc_content) = spec_tokens rc_content.
Proof.
  split; [vm_compute; reflexivity|]. split.
  - rewrite (spec_meaning_dq_conservative rc_file) by (vm_compute; reflexivity). rewrite rc_meaning. reflexivity.
  - exact (spec_tokens_dq_conservative rc_file rc_content rc_meaning).
Qed.

Section Explicit.
Import String.
Local Open Scope string_scope.

(* the content of dx_file: per object data type, scale id -> type map, len, scaler data, data *)
Example dx_content_explicit :
  map (fun po => (fst po, d_dtype (snd po), d_types (snd po), d_len (snd po), d_svals (snd po), d_vals (snd po)))
      (dc_objs (dq_content dx_file)) =
  [ (dx_p0, Some T_DAQMX, Some [(0, 2); (5, 5)], 6,
     [(0, [hex "0201"; hex "1211"; hex "2221"; hex "3231"; hex "4241"; hex "5251"]);
      (5, [hex "04"; hex "14"; hex "24"; hex "34"; hex "44"; hex "54"])], []);
    (dx_p1, Some T_DAQMX, Some [(0, 5)], 9,
     [(0, [hex "00"; hex "01"; hex "00"; hex "01"; hex "01"; hex "00"; hex "01"; hex "00"; hex "01"])], []);
    (dx_p2, Some 3, Some [(0, 3)], 6, [],
     [hex "04030201"; hex "14131211"; hex "24232221"; hex "34333231"; hex "44434241"; hex "54535251"]);
    (dx_px, Some 3, None, 2, [], [hex "07000000"; hex "08000000"]) ].
Proof. vm_compute. reflexivity. Qed.

(* the buffer dimensions, chunk size and some addressed values of dx_file's first segment,
   from the specification's definitions alone *)
Definition dx_qobjs : list (bytes * dqidx) :=
  [ (dx_p0, mkDqi FORMAT_CHANGING_SCALER T_DAQMX 2 [mkScaler 3 0 0 0 0; mkScaler 0 0 3 0 5] [4; 3]);
    (dx_p1, mkDqi DIGITAL_LINE_SCALER T_DAQMX 3 [mkScaler 0 1 10 0 0] [4; 3]);
    (dx_p2, mkDqi FORMAT_CHANGING_SCALER 3 2 [mkScaler 5 0 0 0 0] [4; 3]) ].

Example dx_spec_layout :
  q_dims dx_qobjs = [(2, 4); (3, 3)] /\ q_chunk (q_dims dx_qobjs) = 17 /\
  q_base (q_dims dx_qobjs) 1 = 8 /\ q_layout_ok dx_qobjs = true /\
  q_nchunks 17 34 = SOk 2%nat /\
  (* chunk 1, the digital-line scaler: bit 10 of rows 0..2 of buffer 1 = bytes 17+8+1, +3, +3 *)
  q_scaler_values BE DIGITAL_LINE_SCALER (q_dims dx_qobjs) (dx_data 0) 1 (mkScaler 0 1 10 0 0)
  = [hex "01"; hex "01"; hex "00"] /\
  (* chunk 1, the int16 scaler of c0: bytes 17+0 and 17+4, big-endian -> canonical little-endian *)
  q_scaler_values BE FORMAT_CHANGING_SCALER (q_dims dx_qobjs) (dx_data 0) 1 (mkScaler 3 0 0 0 0)
  = [hex "2221"; hex "3231"].
Proof. vm_compute. repeat split. Qed.

(* the tokens the specification gives dx_file are the observation npTDMS gives for its
   bytes (Props/C11_read.v c11_read_example_tokens) *)
Example dx_spec_tokens :
  spec_tokens_dq (dq_content dx_file) =
  [TZ 4713; TZ 0; TZ 2; TB (hex "6471"); TZ 0; TZ 3;
   TB (hex "6330"); TB (hex "6471"); TB dx_p0; TZ 4294967295; TZ 6; TZ 0;
   TZ 1; TZ 2; TZ 0; TZ 6; TB (hex "0201"); TB (hex "1211"); TB (hex "2221"); TB (hex "3231");
   TB (hex "4241"); TB (hex "5251");
   TZ 5; TZ 6; TB (hex "04"); TB (hex "14"); TB (hex "24"); TB (hex "34"); TB (hex "44"); TB (hex "54");
   TB (hex "6331"); TB (hex "6471"); TB dx_p1; TZ 4294967295; TZ 9; TZ 0;
   TZ 1; TZ 1; TZ 0; TZ 9; TB (hex "00"); TB (hex "01"); TB (hex "00"); TB (hex "01"); TB (hex "01");
   TB (hex "00"); TB (hex "01"); TB (hex "00"); TB (hex "01");
   TB (hex "6332"); TB (hex "6471"); TB dx_p2; TZ 3; TZ 6; TZ 0;
   TZ 0; TZ 6; TB (hex "04030201"); TB (hex "14131211"); TB (hex "24232221"); TB (hex "34333231");
   TB (hex "44434241"); TB (hex "54535251");
   TB (hex "67"); TZ 0; TZ 1;
   TB (hex "78"); TB (hex "67"); TB dx_px; TZ 3; TZ 2; TZ 0;
   TZ 0; TZ 2; TB (hex "07000000"); TB (hex "08000000");
   TZ 0; TZ 0].
Proof. vm_compute. reflexivity. Qed.

(* ---- files the specification rejects ---- *)

(* two DAQmx objects declaring different raw buffer widths *)
Definition dq_bad_widths : list fseg :=
  [ mkFseg 206 4713
      (Some [ mkEntry dx_p0 (IDaqmx FORMAT_CHANGING_SCALER T_DAQMX 1 2 [mkScaler 3 0 0 0 0] [4; 3]) [];
              mkEntry dx_p2 (IDaqmx FORMAT_CHANGING_SCALER 3 1 2 [mkScaler 5 0 0 0 0] [4]) [] ])
      (hex "0102030411121314") ].

(* a DAQmx object and an ordinary object with data in one segment *)
Definition dq_mixed : list fseg :=
  [ mkFseg 206 4713
      (Some [ mkEntry dx_p0 (IDaqmx FORMAT_CHANGING_SCALER T_DAQMX 1 2 [mkScaler 3 0 0 0 0] [4]) [];
              mkEntry dx_px (IFull 20 3 1 2 None) [] ])
      (hex "01020304111213140000000000000000") ].

(* a second DAQmx index with another scale id *)
Definition dq_scaler_change : list fseg :=
  [ mkFseg 206 4713
      (Some [ mkEntry dx_p0 (IDaqmx FORMAT_CHANGING_SCALER T_DAQMX 1 2 [mkScaler 3 0 0 0 0] [4]) [] ])
      (hex "0102030411121314");
    mkFseg 206 4713
      (Some [ mkEntry dx_p0 (IDaqmx FORMAT_CHANGING_SCALER T_DAQMX 1 2 [mkScaler 3 0 0 0 7] [4]) [] ])
      (hex "0102030411121314") ].

Example dq_rejected :
  (spec_meaning_dq dq_bad_widths = SErr BadLayout /\ rd_all (ser_file dq_bad_widths) = Err EValue) /\
  (spec_meaning_dq dq_mixed = SErr BadLayout /\ rd_all (ser_file dq_mixed) = Err EOther) /\
  (spec_meaning_dq dq_scaler_change = SErr TypeChange /\ rd_all (ser_file dq_scaler_change) = Err EValue).
Proof. vm_compute. repeat split. Qed.
End Explicit.
