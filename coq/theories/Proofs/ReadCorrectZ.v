(* C01, composed, extended to segments whose data objects all declare ZERO bytes
   per chunk (every channel of the segment has length 0).

   [seg_encodes] of Proofs/ReadCorrect.v has no case for such a segment;
   [seg_encodes_z] of Proofs/SegEncodesZ.v adds the two cases (contiguous: the
   reader reads no chunk; interleaved: the reader yields one chunk of empty
   columns; in both the raw data block is empty).  This file re-proves the
   chain of ReadCorrect.v that goes through [seg_encodes] / [segs_encode] for
   [seg_encodes_z] / [segs_encode_z]:

     per segment   seg_encodes_z_read, read_segment_encoded_z,
                   seg_encodes_z_only_cdata, seg_encodes_z_count,
                   seg_encodes_z_keys, seg_encodes_z_no_daqmx,
                   seg_encodes_z_nodup_keys
     per file      eager_loop_ser_z, rd_eager_ser_z, segs_total_count_z,
                   om_len_counts_values_z, lengths_consistent_ser_z,
                   segs_encode_z_chunk_origin, data_paths_are_channels_ser_z,
                   segs_encode_z_all, segs_encode_z_no_daqmx,
                   no_daqmx_channels_ser_z, read_correct_given_lengths_z,
                   read_correct_given_channels_z, read_correct_given_no_daqmx_z,
                   read_correct_z, read_correct_tokens_z

   Everything that does not mention [seg_encodes] (R1 sm_run_trace, R2
   read_segment_ser, R4 receive_chunks_concat, the hierarchy lemmas, the DAQmx
   invariants) is used from ReadCorrect.v unchanged.  [segs_encode_z_of] shows
   that [segs_encode_z] extends [segs_encode], so [read_correct_z] subsumes
   [read_correct]. *)
From Coq Require Import List ZArith Bool Lia ZifyBool.
From Coq Require Import Init.Byte.
Import ListNotations.
From NpTdms Require Import Base.Bytes Base.Res Model.Tokens Model.TokensWf Model.SegState
     Model.Layout Model.Reader Model.FileSyn Proofs.TokensRoundtrip Proofs.SegStateProofs
     Proofs.LayoutProofs Proofs.FileSynProofs Proofs.SegStateInherit Proofs.ReadCorrect Proofs.SegEncodesZ.
Local Open Scope Z_scope.
Ltac Zify.zify_post_hook ::= Z.to_euclidean_division_equations.

(* ---- segs_encode_z extends segs_encode ---- *)

Lemma segs_encode_z_of gs segs chunkss : segs_encode gs segs chunkss -> segs_encode_z gs segs chunkss.
Proof.
  induction 1 as [|g gs s r cs css Hcs _ IH]; constructor; [apply sez_enc; exact Hcs|exact IH].
Qed.

(* ---- the chunk count of a zero-chunk-size segment ---- *)

(* _calculate_chunks with chunk size 0 on an empty raw data block: no chunk, no override *)
Lemma calculate_chunks_zero toc incomplete objs n f :
  chunk_size objs = Ok 0 ->
  calculate_chunks toc incomplete objs 0 = Ok (n, f) ->
  n = 0 /\ f = None.
Proof.
  intros Hcs Hcc. unfold calculate_chunks in Hcc. rewrite Hcs in Hcc. cbn [bind] in Hcc.
  change ((0 <? 0) || (0 <? 0)) with false in Hcc.
  change (0 =? 0) with true in Hcc. cbn [negb] in Hcc.
  injection Hcc as <- <-. split; reflexivity.
Qed.

Lemma seg_zero_contig_nchunks g :
  seg_layout g = Ok LContig ->
  zsum (map so_dsize (data_objs (sg_objs g))) = 0 ->
  calculate_chunks (sg_toc g) (sg_incomplete g) (sg_objs g) 0 = Ok (sg_nchunks g, sg_final g) ->
  sg_nchunks g = 0 /\ sg_final g = None.
Proof.
  intros Hlay Hz Hcc. apply (calculate_chunks_zero _ _ _ _ _) with (2 := Hcc).
  rewrite (seg_layout_contig_chunk_size g Hlay), Hz. reflexivity.
Qed.

Lemma seg_zero_interleaved_nchunks g :
  seg_layout g = Ok LInterleaved ->
  zsum (map so_dsize (data_objs (sg_objs g))) = 0 ->
  calculate_chunks (sg_toc g) (sg_incomplete g) (sg_objs g) 0 = Ok (sg_nchunks g, sg_final g) ->
  sg_nchunks g = 0 /\ sg_final g = None.
Proof.
  intros Hlay Hz Hcc. apply (calculate_chunks_zero _ _ _ _ _) with (2 := Hcc).
  rewrite (seg_layout_interleaved_chunk_size g Hlay), Hz. reflexivity.
Qed.

(* ---- R3 for seg_encodes_z ---- *)

Lemma seg_encodes_z_read g data chunks rest :
  seg_encodes_z g data chunks ->
  calculate_chunks (sg_toc g) (sg_incomplete g) (sg_objs g) (blen data) = Ok (sg_nchunks g, sg_final g) ->
  read_segment_chunks g (data ++ rest) = Ok (chunks, rest).
Proof.
  intros Henc Hcc.
  destruct Henc as [cs Hcs | Hlay Hne Hz Hdata | Hlay Hne Hz Hnv Hsz Hnd Hdata].
  - exact (seg_encodes_read g data cs rest Hcs Hcc).
  - subst data. change (blen []) with 0 in Hcc. cbn [app].
    destruct (seg_zero_contig_nchunks g Hlay Hz Hcc) as [Hn _].
    unfold read_segment_chunks. rewrite Hlay. cbn [bind]. rewrite Hn.
    cbn [read_chunks_loop]. change (0 <=? 0) with true. cbv iota. reflexivity.
  - subst data. cbn [app].
    change rest with (enc_rows (toc_endian (sg_toc g)) (data_objs (sg_objs g)) [] ++ rest) at 1.
    apply (read_segment_chunks_interleaved_roundtrip g 0 [] rest); try assumption.
    + constructor.
    + cbn [length]. lia.
Qed.

Lemma read_segment_encoded_z pre s rest g chunks :
  wf_fseg s = true ->
  seg_at (blen pre) s g ->
  seg_encodes_z g (fs_data s) chunks ->
  read_segment (pre ++ ser_seg TAG_DATA true s ++ rest) g = Ok chunks.
Proof.
  intros Hwf Hat Henc. rewrite (read_segment_ser pre s rest g Hwf Hat).
  destruct Hat as (_ & _ & _ & _ & _ & Hcc).
  rewrite (seg_encodes_z_read g (fs_data s) chunks rest Henc Hcc). reflexivity.
Qed.

Lemma seg_encodes_z_only_cdata g data chunks : seg_encodes_z g data chunks -> Forall only_cdata chunks.
Proof.
  intros [cs Hcs | Hlay Hne Hz Hdata | Hlay Hne Hz Hnv Hsz Hnd Hdata].
  - exact (seg_encodes_only_cdata g data cs Hcs).
  - constructor.
  - constructor; [apply cols_of_only_cdata|constructor].
Qed.

(* ---- R5 for segs_encode_z ---- *)

Lemma eager_loop_ser_z data : forall segs gs chunkss pre recv,
    wf_file segs ->
    data = pre ++ ser_file segs ->
    segs_at (blen pre) segs gs ->
    segs_encode_z gs segs chunkss ->
    (forall c kv, In c (concat chunkss) -> In kv c -> is_data_receiver (alookup (fst kv) recv)) ->
    exists recv', fold_left (eager_step data) gs (Ok recv) = Ok recv' /\
                  forall p, alookup p recv' =
                            option_map (radd (chan_values p (concat chunkss))) (alookup p recv).
Proof.
  induction segs as [|s r IH]; intros gs chunkss pre recv Hwf Hdata Hat Henc Hbound.
  - inversion Hat; subst. inversion Henc; subst. exists recv. split; [reflexivity|].
    intros p. cbn [concat chan_values flat_map].
    destruct (alookup p recv) as [x|]; cbn [option_map]; [rewrite radd_nil|]; reflexivity.
  - inversion Hat as [|pos s' r' g gs' Hg Hat']; subst.
    inversion Henc as [|g' gs'' s' r' cs css Hcs Henc']; subst.
    unfold wf_file in Hwf. cbn [forallb] in Hwf. apply andb_prop in Hwf. destruct Hwf as [Hs Hr].
    cbn [fold_left]. unfold eager_step at 2. cbn [bind].
    rewrite ser_file_cons.
    rewrite (read_segment_encoded_z pre s (ser_file r) g cs Hs Hg Hcs). cbn [bind].
    cbn [concat] in Hbound.
    destruct (receive_chunks_concat cs recv (seg_encodes_z_only_cdata _ _ _ Hcs)) as (recv1 & H1 & Hlk1).
    { intros c kv Hc Hin. apply (Hbound c kv); [apply in_or_app; left; exact Hc|exact Hin]. }
    rewrite H1.
    destruct (IH gs' css (pre ++ ser_seg TAG_DATA true s) recv1 Hr) as (recv' & H2 & Hlk2).
    + rewrite <- app_assoc. reflexivity.
    + rewrite blen_app. change TAG_DATA with (tag_of false). change true with (negb false).
      rewrite (blen_ser_seg false s Hs). unfold fseg_len in Hat'.
      exact Hat'.
    + exact Henc'.
    + intros c kv Hc Hin. rewrite Hlk1. apply is_data_receiver_radd.
      apply (Hbound c kv); [apply in_or_app; right; exact Hc|exact Hin].
    + rewrite ser_file_cons in H2. exists recv'. split; [exact H2|].
      intros p. rewrite Hlk2, Hlk1. cbn [concat]. rewrite chan_values_app.
      destruct (alookup p recv) as [x|]; cbn [option_map]; [|reflexivity].
      rewrite radd_app. reflexivity.
Qed.

Theorem rd_eager_ser_z segs st h chunkss :
  wf_file segs ->
  sm_run segs false = Ok st ->
  segs_encode_z (rs_segments st) segs chunkss ->
  data_paths_are_channels h (concat chunkss) ->
  no_daqmx_channels h ->
  channel_paths_distinct h ->
  exists recv, rd_eager st h (ser_file segs) = Ok recv /\
               forall c, In c (all_channels h) ->
                         alookup (ch_path c) recv = Some (expected_data (concat chunkss) c).
Proof.
  intros Hwf Hrun Henc Hpaths Hnd Hdistinct.
  rewrite rd_eager_fold.
  destruct (recv0_fold (all_channels h) [] Hnd Hdistinct) as (recv0 & H0 & Hin0 & _).
  rewrite H0. cbn [bind].
  pose proof (sm_segment_positions segs false st Hrun) as Hat.
  destruct (eager_loop_ser_z (ser_file segs) segs (rs_segments st) chunkss [] recv0 Hwf eq_refl Hat Henc)
    as (recv & Hfold & Hlk).
  - intros c kv Hc Hkv. destruct (Hpaths c kv Hc Hkv) as (ch & Hch & Hp & Hty).
    rewrite <- Hp, (Hin0 ch Hch). unfold recv_init.
    destruct (ch_dtype ch); [|contradiction]. eexists. reflexivity.
  - exists recv. split; [exact Hfold|]. intros c Hc.
    rewrite Hlk, (Hin0 c Hc). cbn [option_map]. unfold recv_init, expected_data.
    destruct (ch_dtype c); reflexivity.
Qed.

(* ---- R6 given the hypotheses about the hierarchy ---- *)

Theorem read_correct_given_lengths_z segs st h chunkss :
  wf_file segs ->
  sm_run segs false = Ok st ->
  build_hierarchy (rs_om st) = Ok h ->
  segs_encode_z (rs_segments st) segs chunkss ->
  data_paths_are_channels h (concat chunkss) ->
  no_daqmx_channels h ->
  channel_paths_distinct h ->
  lengths_consistent h (concat chunkss) ->
  rd_all (ser_file segs) = Ok (expected_tokens st h (concat chunkss), true).
Proof.
  intros Hwf Hrun Hh Henc Hpaths Hnd Hdistinct Hlen.
  unfold rd_all, rd_all_from.
  rewrite (rd_metadata_ser segs false Hwf), Hrun. cbn [bind]. rewrite Hh. cbn [bind].
  destruct (rd_eager_ser_z segs st h chunkss Hwf Hrun Henc Hpaths Hnd Hdistinct) as (recv & Heager & Hlk).
  rewrite Heager. cbn [bind]. unfold expected_tokens. f_equal. f_equal.
  - f_equal. f_equal. apply obs_hierarchy_ext. intros c Hc. rewrite (Hlk c Hc). reflexivity.
  - apply forallb_forall. intros c Hc. rewrite (Hlk c Hc). unfold expected_data.
    destruct (ch_dtype c) as [dt|] eqn:Edt; [|reflexivity].
    cbn [cdata_consistent]. apply Z.eqb_eq. apply Hlen; [exact Hc|]. rewrite Edt. discriminate.
Qed.

(* ---- the encoded chunks hold exactly the credited number of values ---- *)

Lemma path_count_zero p objs : path_count p (fun _ => 0) objs = 0.
Proof.
  unfold path_count. induction objs as [|o objs IH]; cbn [map zsum fold_right]; [reflexivity|].
  unfold zsum in IH. rewrite IH. destruct (bytes_eqb p (so_path o)); reflexivity.
Qed.

Theorem seg_encodes_z_count g data chunks p :
  seg_encodes_z g data chunks ->
  calculate_chunks (sg_toc g) (sg_incomplete g) (sg_objs g) (blen data) = Ok (sg_nchunks g, sg_final g) ->
  Z.of_nat (length (chan_values p chunks)) = seg_total p g.
Proof.
  intros Henc Hcc.
  destruct Henc as [cs Hcs | Hlay Hne Hz Hdata | Hlay Hne Hz Hnv Hsz Hnd Hdata].
  - exact (seg_encodes_count g data cs p Hcs Hcc).
  - subst data. change (blen []) with 0 in Hcc.
    destruct (seg_zero_contig_nchunks g Hlay Hz Hcc) as [Hn Hf].
    unfold seg_total. rewrite obj_total_data_objs, Hn, Hf.
    rewrite (obj_total_no_final p _ _ (data_objs_have_data _)). reflexivity.
  - subst data. change (blen []) with 0 in Hcc.
    destruct (seg_zero_interleaved_nchunks g Hlay Hz Hcc) as [Hn Hf].
    unfold seg_total. rewrite obj_total_data_objs, Hn, Hf.
    rewrite (obj_total_no_final p _ _ (data_objs_have_data _)).
    cbn [chan_values flat_map]. rewrite app_nil_r, cols_of_count. cbn [length].
    change (Z.of_nat 0) with 0. rewrite path_count_zero. reflexivity.
Qed.

Lemma segs_total_count_z p : forall gs segs chunkss pos,
    segs_at pos segs gs ->
    segs_encode_z gs segs chunkss ->
    zsum (map (seg_total p) gs) = Z.of_nat (length (chan_values p (concat chunkss))).
Proof.
  induction gs as [|g gs IH]; intros segs chunkss pos Hat Henc.
  - inversion Henc; subst. reflexivity.
  - inversion Henc as [|g' gs' s r cs css Hcs Henc']; subst.
    inversion Hat as [|pos' s' r' g' gs' Hg Hat']; subst.
    cbn [map zsum fold_right concat]. rewrite chan_values_app, app_length, Nat2Z.inj_add.
    fold (zsum (map (seg_total p) gs)). rewrite (IH r css _ Hat' Henc').
    destruct Hg as (_ & _ & _ & _ & _ & Hcc).
    rewrite (seg_encodes_z_count g (fs_data s) cs p Hcs Hcc). reflexivity.
Qed.

(* the per-object value count of the metadata pass is the number of values the
   file's raw data encodes for that path *)
Theorem om_len_counts_values_z segs w st chunkss p :
  sm_run segs w = Ok st ->
  segs_encode_z (rs_segments st) segs chunkss ->
  om_len (get_ometa p (rs_om st)) = Z.of_nat (length (chan_values p (concat chunkss))).
Proof.
  intros Hrun Henc. destruct (sm_run_trace segs w st Hrun) as (Hat & Hlen & _).
  rewrite Hlen. exact (segs_total_count_z p _ _ _ _ Hat Henc).
Qed.

Theorem lengths_consistent_ser_z segs w st h chunkss :
  sm_run segs w = Ok st ->
  build_hierarchy (rs_om st) = Ok h ->
  segs_encode_z (rs_segments st) segs chunkss ->
  om_paths_canonical (rs_om st) ->
  lengths_consistent h (concat chunkss).
Proof.
  intros Hrun Hh Henc Hcanon c Hc Hty.
  destruct (chan_from_om_canonical _ c Hcanon (build_hierarchy_channels _ _ Hh c Hc))
    as (m & Hin & _ & _ & Hlen).
  destruct (sm_run_trace segs w st Hrun) as (_ & _ & Hnd & _).
  pose proof (alookup_in_nodup _ m (rs_om st) Hnd Hin) as Hlk.
  rewrite Hlen, <- (om_len_counts_values_z segs w st chunkss (ch_path c) Hrun Henc).
  unfold get_ometa. rewrite Hlk. reflexivity.
Qed.

(* R6 with length consistency and distinctness of channel paths discharged *)
Theorem read_correct_given_channels_z segs st h chunkss :
  wf_file segs ->
  sm_run segs false = Ok st ->
  build_hierarchy (rs_om st) = Ok h ->
  segs_encode_z (rs_segments st) segs chunkss ->
  data_paths_are_channels h (concat chunkss) ->
  no_daqmx_channels h ->
  om_paths_canonical (rs_om st) ->
  rd_all (ser_file segs) = Ok (expected_tokens st h (concat chunkss), true).
Proof.
  intros Hwf Hrun Hh Henc Hpaths Hnd Hcanon.
  apply read_correct_given_lengths_z; try assumption.
  - exact (channel_paths_distinct_ser _ h Hh Hcanon).
  - exact (lengths_consistent_ser_z segs false st h chunkss Hrun Hh Henc Hcanon).
Qed.

(* ---- every path with data is a typed channel of the hierarchy ---- *)

Theorem seg_encodes_z_keys g data chunks :
    seg_encodes_z g data chunks ->
    forall c kv, In c chunks -> In kv c ->
                 exists o, In o (sg_objs g) /\ so_path o = fst kv /\ so_dtype o <> None.
Proof.
  assert (Hsub : forall o, In o (data_objs (sg_objs g)) -> In o (sg_objs g)).
  { intros o Ho. unfold data_objs in Ho. apply filter_In in Ho. tauto. }
  intros Henc c kv Hc Hkv.
  destruct Henc as [cs Hcs | Hlay Hne Hz Hdata | Hlay Hne Hz Hnv Hsz Hnd Hdata].
  - exact (seg_encodes_keys g data cs Hcs c kv Hc Hkv).
  - contradiction.
  - destruct Hc as [<-|[]]. destruct (cols_of_keys _ _ _ Hkv) as (o & Ho & Hp).
    exists o. split; [exact (Hsub o Ho)|]. split; [exact Hp|].
    rewrite Forall_forall in Hsz. exact (sized_dtype o (Hsz o Ho)).
Qed.

Lemma segs_encode_z_chunk_origin : forall gs segs chunkss,
    segs_encode_z gs segs chunkss ->
    forall c, In c (concat chunkss) ->
              exists g s cs, In g gs /\ seg_encodes_z g (fs_data s) cs /\ In c cs.
Proof.
  induction 1 as [|g gs s r cs css Hcs _ IH]; intros c Hc; [contradiction|].
  cbn [concat] in Hc. apply in_app_or in Hc. destruct Hc as [Hc|Hc].
  - exists g, s, cs. split; [left; reflexivity|]. split; assumption.
  - destruct (IH c Hc) as (g' & s' & cs' & Hg' & Henc' & Hc').
    exists g', s', cs'. split; [right; exact Hg'|]. split; assumption.
Qed.

Theorem data_paths_are_channels_ser_z segs w st h chunkss :
  sm_run segs w = Ok st ->
  build_hierarchy (rs_om st) = Ok h ->
  segs_encode_z (rs_segments st) segs chunkss ->
  om_paths_canonical (rs_om st) ->
  typed_objects_are_channels (rs_om st) ->
  data_paths_are_channels h (concat chunkss).
Proof.
  intros Hrun Hh Henc Hcanon Hshape c kv Hc Hkv.
  destruct (segs_encode_z_chunk_origin _ _ _ Henc c Hc) as (g & s & cs & Hg & Hcs & Hccs).
  destruct (seg_encodes_z_keys g _ cs Hcs c kv Hccs Hkv) as (o & Ho & Hp & Hty).
  destruct (sm_run_trace segs w st Hrun) as (_ & _ & Hnd & Htyped & _).
  destruct (Htyped g o Hg Ho Hty) as (m & Hm & Hmty).
  apply alookup_In in Hm.
  destruct (Hshape _ m Hm Hmty) as (gn & cn & Hparse).
  exists (chan_of_om gn cn m). split; [|split].
  - exact (build_hierarchy_complete _ h _ m gn cn Hh Hnd Hcanon Hm Hparse).
  - change (path_to_string (Some gn) (Some cn) = fst kv).
    rewrite (Hcanon _ m gn cn Hm Hparse). exact Hp.
  - exact Hmty.
Qed.

(* R6 with the channel hypothesis discharged as well; no_daqmx_channels remains *)
Theorem read_correct_given_no_daqmx_z segs st h chunkss :
  wf_file segs ->
  sm_run segs false = Ok st ->
  build_hierarchy (rs_om st) = Ok h ->
  segs_encode_z (rs_segments st) segs chunkss ->
  no_daqmx_channels h ->
  om_paths_canonical (rs_om st) ->
  typed_objects_are_channels (rs_om st) ->
  rd_all (ser_file segs) = Ok (expected_tokens st h (concat chunkss), true).
Proof.
  intros Hwf Hrun Hh Henc Hnd Hcanon Hshape.
  apply read_correct_given_channels_z; try assumption.
  exact (data_paths_are_channels_ser_z segs false st h chunkss Hrun Hh Henc Hcanon Hshape).
Qed.

(* the decoded chunks are dictionaries: distinct keys *)
Lemma seg_encodes_z_nodup_keys g data chunks :
  seg_encodes_z g data chunks -> Forall (fun c : chunk => NoDup (map fst c)) chunks.
Proof.
  intros [cs Hcs | Hlay Hne Hz Hdata | Hlay Hne Hz Hnv Hsz Hnd Hdata].
  - exact (seg_encodes_nodup_keys g data cs Hcs).
  - constructor.
  - constructor; [|constructor]. rewrite cols_of_key_list. exact Hnd.
Qed.

(* ---- no DAQmx ---- *)

Lemma seg_encodes_z_no_daqmx g data chunks :
  seg_encodes_z g data chunks -> forall o, In o (data_objs (sg_objs g)) -> so_daqmx o = None.
Proof.
  intros [cs Hcs | Hlay Hne Hz Hdata | Hlay Hne Hz Hnv Hsz Hnd Hdata] o Ho.
  - exact (seg_encodes_no_daqmx g data cs Hcs o Ho).
  - apply (seg_layout_not_daqmx g LContig Hlay); [discriminate|exact Ho].
  - apply (seg_layout_not_daqmx g LInterleaved Hlay); [discriminate|exact Ho].
Qed.

Lemma segs_encode_z_all : forall gs segs chunkss,
    segs_encode_z gs segs chunkss ->
    forall g, In g gs -> exists s cs, seg_encodes_z g (fs_data s) cs.
Proof.
  induction 1 as [|g gs s r cs css Hcs _ IH]; intros g0 Hg0; [contradiction|].
  destruct Hg0 as [<-|Hg0]; [exists s, cs; exact Hcs|exact (IH g0 Hg0)].
Qed.

Lemma segs_encode_z_no_daqmx gs segs chunkss : segs_encode_z gs segs chunkss -> ~ daqmx_seen gs.
Proof.
  intros Henc (g & o & Hg & Ho & Hq).
  destruct (segs_encode_z_all _ _ _ Henc g Hg) as (s & cs & Hcs).
  apply Hq. exact (seg_encodes_z_no_daqmx g _ cs Hcs o Ho).
Qed.

Theorem no_daqmx_channels_ser_z segs w st h chunkss :
  sm_run segs w = Ok st ->
  build_hierarchy (rs_om st) = Ok h ->
  segs_encode_z (rs_segments st) segs chunkss ->
  no_daqmx_channels h.
Proof.
  intros Hrun Hh Henc ch Hch Hdt.
  destruct (build_hierarchy_channels _ _ Hh ch Hch) as (pstr & m & Hin & _ & Heq).
  assert (Hm : om_dtype m = Some T_DAQMX) by (rewrite <- Hdt, Heq; reflexivity).
  destruct (sm_run_trace segs w st Hrun) as (_ & _ & Hnd & _).
  pose proof (alookup_in_nodup pstr m (rs_om st) Hnd Hin) as Hlk.
  assert (Horigin : om_dtype_has_origin st).
  { unfold sm_run in Hrun. apply (sm_loop_om_dtype_origin _ _ _ _ _ _ _ Hrun).
    intros p m0 Hm0. discriminate. }
  destruct (Horigin pstr m Hlk) as (g & o & Hg & Ho & Hso); [rewrite Hm; discriminate|].
  destruct (sm_run_dq segs w st Hrun g o Hg Ho) as [H1 H2].
  apply (segs_encode_z_no_daqmx _ _ _ Henc). apply H2. apply H1. congruence.
Qed.

(* R6, final form, for files that may contain zero-length channels.
   Hypotheses as in [read_correct], with [segs_encode_z] for [segs_encode]. *)
Theorem read_correct_z segs st h chunkss :
    wf_file segs ->
    sm_run segs false = Ok st ->
    build_hierarchy (rs_om st) = Ok h ->
    segs_encode_z (rs_segments st) segs chunkss ->
    om_paths_canonical (rs_om st) ->
    typed_objects_are_channels (rs_om st) ->
    rd_all (ser_file segs) = Ok (expected_tokens st h (concat chunkss), true).
Proof.
  intros Hwf Hrun Hh Henc Hcanon Hshape.
  apply read_correct_given_no_daqmx_z; try assumption.
  exact (no_daqmx_channels_ser_z segs false st h chunkss Hrun Hh Henc).
Qed.

Corollary read_correct_tokens_z segs st h chunkss :
  wf_file segs ->
  sm_run segs false = Ok st ->
  build_hierarchy (rs_om st) = Ok h ->
  segs_encode_z (rs_segments st) segs chunkss ->
  om_paths_canonical (rs_om st) ->
  typed_objects_are_channels (rs_om st) ->
  rd_all (ser_file segs) =
  Ok (TZ (match segs with s :: _ => fs_version s | [] => 0 end) ::
      obs_hierarchy h (fun c => obs_cdata
                                  (match ch_dtype c with
                                   | None => None
                                   | Some _ => Some (CData (chan_values (ch_path c) (concat chunkss)))
                                   end))
      ++ obs_status st, true).
Proof.
  intros Hwf Hrun Hh Henc Hcanon Hshape.
  rewrite (read_correct_z segs st h chunkss Hwf Hrun Hh Henc Hcanon Hshape).
  unfold expected_tokens. rewrite (sm_run_version segs false st Hrun). reflexivity.
Qed.

(* ---- concrete instances: the zero cases are inhabited, and the hypotheses of
        read_correct_z hold on a file with a zero-length channel ---- *)
Section RczExample.
Import String.
Local Open Scope string_scope.

(* one int32 data object declaring 0 values / 0 bytes *)
Definition rcz_obj : sobj := mkSobj (hex "2f2767272f276127") true 0 0 (Some 3) None.

(* contiguous ToC (kTocMetaData + kTocNewObjList + kTocRawData), chunk count 0 *)
Definition rcz_seg_contig : segment := mkSeg 0 (2 + 4 + 8) 0 0 false [rcz_obj] [] 0 None.

Example rcz_zero_contig : seg_encodes_z rcz_seg_contig [] [].
Proof.
  apply sez_zero_contig.
  - vm_compute. reflexivity.
  - vm_compute. discriminate.
  - vm_compute. reflexivity.
  - reflexivity.
Qed.

(* the same with kTocInterleavedData: one chunk of empty columns *)
Definition rcz_seg_interleaved : segment := mkSeg 0 (2 + 4 + 8 + 32) 0 0 false [rcz_obj] [] 0 None.

Example rcz_zero_interleaved :
  seg_encodes_z rcz_seg_interleaved [] [[(hex "2f2767272f276127", CData [])]].
Proof.
  change [[(hex "2f2767272f276127", CData [])]]
    with [cols_of (data_objs (sg_objs rcz_seg_interleaved)) []].
  apply sez_zero_interleaved.
  - vm_compute. reflexivity.
  - vm_compute. discriminate.
  - vm_compute. reflexivity.
  - repeat constructor.
  - repeat constructor. vm_compute. discriminate.
  - repeat constructor. intros [].
  - reflexivity.
Qed.

(* neither is a [seg_encodes]: the original relation does not cover them *)
Example rcz_not_seg_encodes cs : ~ seg_encodes rcz_seg_contig [] cs.
Proof.
  intros [Hd Hdata | css Hlay Hpos Hnd Hok Hds Hdata
          | nv m rows Hlay Hne Hnv Hm Hobjs Hsz Hnd Hrows Hlen Hdata].
  - vm_compute in Hd. discriminate.
  - vm_compute in Hpos. discriminate.
  - vm_compute in Hlay. discriminate.
Qed.

(* A two-segment file: group "g", channel "a" (int32).  Segment 1 declares the
   channel with ZERO values and has no raw data; segment 2 re-declares it with 2
   values per chunk and holds one chunk. *)
Definition rcz_file : list fseg :=
  [ mkFseg 14 4713
      (Some [ mkEntry (hex "2f") INoData [];
              mkEntry (hex "2f276727") INoData [];
              mkEntry (hex "2f2767272f276127") (IFull 20 3 1 0 None) [] ])
      [];
    mkFseg 14 4713
      (Some [ mkEntry (hex "2f2767272f276127") (IFull 20 3 1 2 None) [] ])
      (hex "0100000002000000") ].

Definition rcz_st : rstate := match sm_run rcz_file false with Ok st => st | Err _ => rstate0 end.
Definition rcz_h : hierarchy :=
  match build_hierarchy (rs_om rcz_st) with Ok h => h | Err _ => mkHier [] [] end.

Definition rcz_path_a : bytes := hex "2f2767272f276127".
Definition rcz_chunks : list (list chunk) :=
  [ []; [ [(rcz_path_a, CData [hex "01000000"; hex "02000000"])] ] ].

Example rcz_wf : wf_file rcz_file.
Proof. unfold wf_file. vm_compute. reflexivity. Qed.

Example rcz_run : sm_run rcz_file false = Ok rcz_st.
Proof. vm_compute. reflexivity. Qed.

Example rcz_hier : build_hierarchy (rs_om rcz_st) = Ok rcz_h.
Proof. vm_compute. reflexivity. Qed.

Example rcz_encodes : segs_encode_z (rs_segments rcz_st) rcz_file rcz_chunks.
Proof.
  assert (Hsegs : rs_segments rcz_st = [nth 0 (rs_segments rcz_st) (mkSeg 0 0 0 0 false [] [] 0 None);
                                         nth 1 (rs_segments rcz_st) (mkSeg 0 0 0 0 false [] [] 0 None)])
    by (vm_compute; reflexivity).
  rewrite Hsegs. clear Hsegs.
  unfold rcz_file, rcz_chunks.
  constructor; [|constructor; [|constructor]].
  - cbn [fs_data]. apply sez_zero_contig.
    + vm_compute. reflexivity.
    + vm_compute. discriminate.
    + vm_compute. reflexivity.
    + reflexivity.
  - cbn [fs_data]. apply sez_enc.
    eapply (rc_seg_contig _ _ [mkSobj rcz_path_a true 2 8 (Some 3) None]
                          [ [ [hex "01000000"; hex "02000000"] ] ]).
    + vm_compute. reflexivity.
    + vm_compute. reflexivity.
    + vm_compute. reflexivity.
    + vm_compute. reflexivity.
    + repeat constructor.
    + repeat constructor.
    + vm_compute. reflexivity.
    + vm_compute. reflexivity.
Qed.

Example rcz_canonical : om_paths_canonical (rs_om rcz_st).
Proof. apply om_paths_canonical_b_sound. vm_compute. reflexivity. Qed.

Example rcz_shape : typed_objects_are_channels (rs_om rcz_st).
Proof. apply typed_objects_are_channels_b_sound. vm_compute. reflexivity. Qed.

(* the instance of the theorem, and what the expected observation computes to *)
Example rcz_read_correct :
  rd_all (ser_file rcz_file) = Ok (expected_tokens rcz_st rcz_h (List.concat rcz_chunks), true).
Proof.
  exact (read_correct_z rcz_file rcz_st rcz_h rcz_chunks rcz_wf rcz_run rcz_hier rcz_encodes
                        rcz_canonical rcz_shape).
Qed.

Example rcz_channel_values :
  chan_values rcz_path_a (List.concat rcz_chunks) = [hex "01000000"; hex "02000000"].
Proof. vm_compute. reflexivity. Qed.

End RczExample.

Print Assumptions read_correct_z.
Print Assumptions om_len_counts_values_z.
Print Assumptions seg_encodes_z_keys.
