(* Lemmas for C06 (truncation). *)
From Coq Require Import List ZArith Bool Lia ZifyBool.
From Coq Require Import Init.Byte.
Import ListNotations.
From NpTdms Require Import Base.Bytes Base.Res Model.Tokens Model.SegState Model.Reader
     Proofs.SegStateProofs.
Local Open Scope Z_scope.

Lemma firstn_skipn_firstn {A} (l : list A) (k p n : nat) :
  (p + n <= k)%nat -> firstn n (skipn p (firstn k l)) = firstn n (skipn p l).
Proof.
  revert k p n. induction l as [|x l IH]; intros k p n H.
  - rewrite firstn_nil. reflexivity.
  - destruct k as [|k].
    + assert (p = 0%nat) by lia. assert (n = 0%nat) by lia. subst. reflexivity.
    + cbn [firstn]. destruct p as [|p].
      * cbn [skipn]. destruct n as [|n]; [reflexivity|]. cbn [firstn]. f_equal.
        specialize (IH k 0%nat n). cbn [skipn] in IH. apply IH. lia.
      * cbn [skipn]. apply IH. lia.
Qed.

Lemma read_at_take (bs : bytes) (k pos n : Z) :
  0 <= pos -> 0 <= n -> pos + n <= k -> read_at pos n (take k bs) = read_at pos n bs.
Proof.
  intros Hp Hn Hk. unfold read_at. rewrite !take_firstn, !drop_skipn.
  apply firstn_skipn_firstn. lia.
Qed.

(* ---- where a cut falls decides what the lead-in analysis reports ---------- *)

(* A segment at [seg_pos] whose lead-in declares its end explicitly, in a file
   that has been cut to [k] bytes: nothing survives when the cut is before the
   end of the metadata, the segment is read to the cut and flagged incomplete
   when the cut is inside (or at the start of) its raw data, and it is complete
   otherwise. *)
Lemma lead_positions_cut seg_pos l k :
  l_next l <> 0xFFFFFFFFFFFFFFFF ->
  let dp := seg_pos + 28 + l_raw l in
  let np := seg_pos + l_next l + 28 in
  lead_positions seg_pos l (Some k) =
  Ok (if k <? np then (if k <? dp then LeadEof else LeadOk dp k true)
      else LeadOk dp np false).
Proof.
  intros Hn dp np. unfold lead_positions.
  destruct (l_next l =? 18446744073709551615) eqn:E.
  - apply Z.eqb_eq in E. contradiction.
  - fold dp. fold np. destruct (k <? np); [destruct (k <? dp)|]; reflexivity.
Qed.

(* With the length-unknown marker the segment always runs to the end of the file
   and is always flagged incomplete, provided its metadata survives. *)
Lemma lead_positions_unknown seg_pos l k :
  l_next l = 0xFFFFFFFFFFFFFFFF ->
  let dp := seg_pos + 28 + l_raw l in
  lead_positions seg_pos l (Some k) = Ok (if k <? dp then LeadEof else LeadOk dp k true).
Proof.
  intros Hn dp. unfold lead_positions. rewrite Hn. cbn [Z.eqb Pos.eqb]. fold dp.
  destruct (k <? dp); reflexivity.
Qed.


(* ======================================================================== *)
(* A1 -- number of chunks of a truncated segment                             *)
(* ======================================================================== *)

Ltac Zify.zify_post_hook ::= Z.to_euclidean_division_equations.

(* what _calculate_chunks computes for a positive chunk size *)
Definition nchunks_of (total csize : Z) : Z :=
  if total mod csize =? 0 then total / csize else 1 + total / csize.

(* A complete segment holds a whole number of chunks.  Cut anywhere inside its
   raw data, the number of chunks the reader counts (a partial one included)
   does not exceed the complete count, and the number of COMPLETE chunks is
   strictly smaller. *)
Lemma truncated_chunk_count csize total total' :
  forall (Hcsize : 0 < csize) (Hcut : 0 <= total' < total) (Hwhole : total mod csize = 0),
    nchunks_of total' csize <= total / csize /\
    0 <= total' / csize < total / csize /\
    (total' mod csize <> 0 -> nchunks_of total' csize = 1 + total' / csize) /\
    (total' mod csize = 0 -> nchunks_of total' csize = total' / csize).
Proof.
  intros.
  assert (Ht : total = csize * (total / csize)).
  { apply Z.div_exact; lia. }
  assert (Hlt : total' / csize < total / csize).
  { apply Z.div_lt_upper_bound; lia. }
  assert (H0 : 0 <= total' / csize) by (apply Z.div_pos; lia).
  unfold nchunks_of. destruct (total' mod csize =? 0) eqn:E.
  - apply Z.eqb_eq in E. repeat split; try lia.
  - apply Z.eqb_neq in E. repeat split; try lia.
Qed.

Example truncated_chunk_count_ex :
  nchunks_of 120 40 = 3 /\ nchunks_of 119 40 = 3 /\ nchunks_of 81 40 = 3 /\
  nchunks_of 80 40 = 2 /\ nchunks_of 79 40 = 2 /\ nchunks_of 1 40 = 1 /\ nchunks_of 0 40 = 0.
Proof. vm_compute. repeat split. Qed.

(* the model's [calculate_chunks] computes exactly [nchunks_of], and the
   override is present exactly when the data is not a whole number of chunks *)
Lemma calculate_chunks_count toc inc objs total csize n fin :
  forall (Hcs : chunk_size objs = Ok csize) (Hpos : 0 < csize) (Htot : 0 <= total)
         (Hcalc : calculate_chunks toc inc objs total = Ok (n, fin)),
    n = nchunks_of total csize /\
    (total mod csize = 0 -> fin = None) /\
    (total mod csize <> 0 ->
     exists f, fin = Some f /\ final_chunk_lengths toc inc objs csize (total mod csize) = Ok f).
Proof.
  intros. unfold calculate_chunks in Hcalc. rewrite Hcs in Hcalc. cbn [bind] in Hcalc.
  replace ((csize <? 0) || (total <? 0)) with false in Hcalc by lia.
  replace (csize =? 0) with false in Hcalc by lia.
  unfold nchunks_of. destruct (total mod csize =? 0) eqn:E.
  - injection Hcalc as <- <-. apply Z.eqb_eq in E. repeat split; try reflexivity. intros; contradiction.
  - apply Z.eqb_neq in E.
    destruct (final_chunk_lengths toc inc objs csize (total mod csize)) as [f|] eqn:Ef;
      cbn [bind] in Hcalc; [|discriminate].
    injection Hcalc as <- <-. repeat split; try reflexivity.
    + intros; contradiction.
    + intros _. exists f. split; reflexivity.
Qed.

(* ======================================================================== *)
(* A2 -- contiguous data: whole leading channels, a partial one, nothing     *)
(* ======================================================================== *)

(* the element size [contig_final] divides by, and a channel's bytes per chunk *)
Definition osz (o : sobj) : Z := match sized o with Some s => s | None => 1 end.
Definition obytes (o : sobj) : Z := so_nvals o * osz o.
(* reader._number_of_segment_values: final_chunk_lengths_override.get(path, 0) *)
Definition lookup0 (p : bytes) (f : alist Z) : Z :=
  match alookup p f with Some v => v | None => 0 end.

Lemma tds_size_pos ty s : tds_size ty = Some (Some s) -> 0 < s.
Proof.
  unfold tds_size. intros H.
  repeat match type of H with
         | (if ?c then _ else _) = _ => destruct c
         end; inversion H; lia.
Qed.

Lemma osz_pos o : 0 < osz o.
Proof.
  unfold osz, sized. destruct (so_dtype o) as [dt|]; [|lia].
  destruct (tds_size dt) as [[s|]|] eqn:E; try lia. exact (tds_size_pos dt s E).
Qed.

Lemma data_objs_cons o r :
  data_objs (o :: r) = if so_has_data o then o :: data_objs r else data_objs r.
Proof. reflexivity. Qed.

Lemma contig_final_cons o r rem acc :
  contig_final (o :: r) rem acc =
  if so_has_data o then
    if obytes o <? rem then contig_final r (rem - obytes o) (aset (so_path o) (so_nvals o) acc)
    else aset (so_path o) (rem / osz o) acc
  else contig_final r rem acc.
Proof. cbn [contig_final]. unfold obytes, osz. destruct (so_has_data o); reflexivity. Qed.

(* General form, for any accumulator: the data objects split into the channels
   kept whole ([pre], whose bytes are strictly fewer than [rem]), then the first
   channel that does not fit ([o], which gets the remaining bytes divided by its
   element size), then channels that are not assigned at all ([post]).  Paths
   of no data object keep their binding in [acc]. *)
Lemma contig_final_gen objs : forall rem acc,
  NoDup (map so_path (data_objs objs)) ->
  (forall o, In o (data_objs objs) -> 0 <= so_nvals o) ->
  0 <= rem ->
  exists pre rest,
    data_objs objs = pre ++ rest /\
    0 <= rem - zsum (map obytes pre) /\
    (pre <> [] -> zsum (map obytes pre) < rem) /\
    (forall p, ~ In p (map so_path (data_objs objs)) ->
               alookup p (contig_final objs rem acc) = alookup p acc) /\
    (forall o, In o pre -> alookup (so_path o) (contig_final objs rem acc) = Some (so_nvals o)) /\
    match rest with
    | [] => True
    | o :: post =>
      rem - zsum (map obytes pre) <= obytes o /\
      alookup (so_path o) (contig_final objs rem acc)
      = Some ((rem - zsum (map obytes pre)) / osz o) /\
      forall o', In o' post ->
                 alookup (so_path o') (contig_final objs rem acc) = alookup (so_path o') acc
    end.
Proof.
  induction objs as [|o r IH]; intros rem acc Hnd Hnv Hrem.
  - exists [], []. cbn. repeat split; try lia; try reflexivity; intros; contradiction.
  - rewrite contig_final_cons. rewrite data_objs_cons in *.
    destruct (so_has_data o) eqn:Ehd; [|apply IH; assumption].
    cbn [map] in Hnd. apply NoDup_cons_iff in Hnd. destruct Hnd as [Hnotin Hnd].
    assert (Hob : 0 <= obytes o).
    { unfold obytes. pose proof (osz_pos o). specialize (Hnv o (or_introl eq_refl)). nia. }
    destruct (obytes o <? rem) eqn:Elt.
    + destruct (IH (rem - obytes o) (aset (so_path o) (so_nvals o) acc) Hnd
                   (fun o' H => Hnv o' (or_intror H)) ltac:(lia))
        as (pre & rest & Hsplit & Hge & Hlt & Hout & Hpre & Hrest).
      exists (o :: pre), rest. cbn [map zsum fold_right app].
      fold (zsum (map obytes pre)).
      split; [rewrite Hsplit; reflexivity|].
      split; [lia|].
      split; [intros _; destruct pre as [|x pre]; [cbn in *; lia|specialize (Hlt ltac:(discriminate)); lia]|].
      split.
      { intros p Hp. cbn [In] in Hp.
        rewrite Hout by (intros Hin; apply Hp; right; exact Hin).
        rewrite alookup_aset. destruct (bytes_eqb p (so_path o)) eqn:Ep; [|reflexivity].
        apply bytes_eqb_eq in Ep. exfalso. apply Hp. left. symmetry. exact Ep. }
      split.
      { intros o' [Ho'|Ho'].
        - subst o'. rewrite Hout by exact Hnotin. rewrite alookup_aset, bytes_eqb_refl. reflexivity.
        - apply Hpre. exact Ho'. }
      destruct rest as [|x post]; [exact I|].
      destruct Hrest as (Hxle & Hx & Hpost).
      split; [lia|]. split.
      { rewrite Hx. f_equal. f_equal. lia. }
      intros o' Ho'. rewrite (Hpost o' Ho'). rewrite alookup_aset.
      destruct (bytes_eqb (so_path o') (so_path o)) eqn:Ep; [|reflexivity].
      apply bytes_eqb_eq in Ep. exfalso. apply Hnotin. rewrite <- Ep.
      apply in_map. rewrite Hsplit. apply in_or_app. right. right. exact Ho'.
    + exists [], (o :: data_objs r). cbn [map zsum fold_right app].
      split; [reflexivity|]. split; [lia|]. split; [intros H; contradiction|].
      split.
      { intros p Hp. rewrite alookup_aset.
        destruct (bytes_eqb p (so_path o)) eqn:Ep; [|reflexivity].
        apply bytes_eqb_eq in Ep. exfalso. apply Hp. left. symmetry. exact Ep. }
      split; [intros o' []|].
      split; [lia|]. split.
      { rewrite alookup_aset, bytes_eqb_refl. f_equal. f_equal. lia. }
      intros o' Ho'. rewrite alookup_aset.
      destruct (bytes_eqb (so_path o') (so_path o)) eqn:Ep; [|reflexivity].
      apply bytes_eqb_eq in Ep. exfalso. apply Hnotin. rewrite <- Ep. apply in_map. exact Ho'.
Qed.

Lemma zsum_cons x a : zsum (x :: a) = x + zsum a.
Proof. reflexivity. Qed.

Lemma zsum_app a b : zsum (a ++ b) = zsum a + zsum b.
Proof.
  induction a as [|x a IH]; [reflexivity|].
  rewrite <- app_comm_cons, !zsum_cons, IH. lia.
Qed.

Lemma zsum_map_zero {A} (g : A -> Z) l : (forall x, In x l -> g x = 0) -> zsum (map g l) = 0.
Proof.
  induction l as [|x l IH]; intros H; [reflexivity|]. cbn [map]. rewrite zsum_cons.
  rewrite (H x (or_introl eq_refl)), IH; [reflexivity|]. intros y Hy. apply H. right. exact Hy.
Qed.

(* A2, structure: the dictionary [contig_final] returns for an incomplete
   contiguous segment. *)
Theorem contig_final_structure objs rem :
  forall (Hnodup : NoDup (map so_path (data_objs objs)))
         (Hnvals : forall o, In o (data_objs objs) -> 0 <= so_nvals o)
         (Hrem : 0 <= rem),
  exists pre rest,
    data_objs objs = pre ++ rest /\
    0 <= rem - zsum (map obytes pre) /\
    (pre <> [] -> zsum (map obytes pre) < rem) /\
    (forall o, In o pre -> alookup (so_path o) (contig_final objs rem []) = Some (so_nvals o)) /\
    match rest with
    | [] => True
    | o :: post =>
      rem - zsum (map obytes pre) <= obytes o /\
      alookup (so_path o) (contig_final objs rem [])
      = Some ((rem - zsum (map obytes pre)) / osz o) /\
      forall o', In o' post -> alookup (so_path o') (contig_final objs rem []) = None
    end.
Proof.
  intros. destruct (contig_final_gen objs rem [] Hnodup Hnvals Hrem)
    as (pre & rest & Hsplit & Hge & Hlt & _ & Hpre & Hrest).
  exists pre, rest. repeat (split; [assumption|]).
  destruct rest as [|o post]; [exact I|]. exact Hrest.
Qed.

(* A2, bounds: no channel gets more values than a complete chunk holds, and the
   values assigned never need more bytes than are there. *)
Theorem contig_final_le objs rem :
  forall (Hnodup : NoDup (map so_path (data_objs objs)))
         (Hnvals : forall o, In o (data_objs objs) -> 0 <= so_nvals o)
         (Hrem : 0 <= rem),
    (forall o, In o (data_objs objs) ->
               0 <= lookup0 (so_path o) (contig_final objs rem []) <= so_nvals o) /\
    zsum (map (fun o => lookup0 (so_path o) (contig_final objs rem []) * osz o) (data_objs objs))
    <= rem.
Proof.
  intros. destruct (contig_final_structure objs rem Hnodup Hnvals Hrem)
    as (pre & rest & Hsplit & Hge & Hlt & Hpre & Hrest).
  set (f := contig_final objs rem []) in *.
  assert (Hpre0 : forall o, In o pre -> lookup0 (so_path o) f = so_nvals o).
  { intros o Ho. unfold lookup0. rewrite (Hpre o Ho). reflexivity. }
  split.
  - intros o Ho. rewrite Hsplit in Ho. apply in_app_or in Ho. destruct Ho as [Ho|Ho].
    + rewrite (Hpre0 o Ho). split; [|lia]. apply Hnvals. rewrite Hsplit. apply in_or_app. left. exact Ho.
    + destruct rest as [|x post]; [destruct Ho|].
      destruct Hrest as (Hxle & Hx & Hpost).
      assert (Hnv : 0 <= so_nvals o).
      { apply Hnvals. rewrite Hsplit. apply in_or_app. right. exact Ho. }
      destruct Ho as [Ho|Ho].
      * subst x. unfold lookup0. rewrite Hx. pose proof (osz_pos o) as Hsz.
        change (obytes o) with (so_nvals o * osz o) in Hxle.
        split; [apply Z.div_pos; lia|]. apply Z.div_le_upper_bound; lia.
      * unfold lookup0. rewrite (Hpost o Ho). lia.
  - rewrite Hsplit, map_app, zsum_app.
    rewrite (map_ext_in _ obytes) by (intros o Ho; rewrite (Hpre0 o Ho); reflexivity).
    destruct rest as [|x post]; [cbn; lia|].
    destruct Hrest as (Hxle & Hx & Hpost). cbn [map]. rewrite zsum_cons.
    rewrite (zsum_map_zero _ post) by (intros o Ho; unfold lookup0; rewrite (Hpost o Ho); reflexivity).
    unfold lookup0 at 1. rewrite Hx. pose proof (osz_pos x).
    assert ((rem - zsum (map obytes pre)) / osz x * osz x <= rem - zsum (map obytes pre)).
    { rewrite Z.mul_comm. apply Z.mul_div_le. lia. }
    lia.
Qed.

Example contig_final_ex :
  let o p n := mkSobj p true n (n * 4) (Some 3) None in
  let objs := [o [x61] 10; mkSobj [x78] false 10 40 (Some 3) None; o [x62] 10; o [x63] 10] in
  (* 120-byte chunks cut to 55 bytes: 10 values, then 3 (15 bytes / 4), then none *)
  contig_final objs 55 [] = [([x61], 10); ([x62], 3)] /\
  map (fun ob => lookup0 (so_path ob) (contig_final objs 55 [])) (data_objs objs) = [10; 3; 0].
Proof. vm_compute. split; reflexivity. Qed.

(* ======================================================================== *)
(* A3 -- interleaved data (and complete segments): the proportional rule      *)
(* ======================================================================== *)

Theorem interleaved_final_le nvals rem csize :
  forall (Hnvals : 0 <= nvals) (Hrem : 0 <= rem < csize),
    0 <= nvals * rem / csize <= nvals /\
    (0 < nvals -> nvals * rem / csize < nvals).
Proof.
  intros. assert (Hc : 0 < csize) by lia.
  split; [split|].
  - apply Z.div_pos; nia.
  - apply Z.div_le_upper_bound; nia.
  - intros Hp. apply Z.div_lt_upper_bound; nia.
Qed.

(* with [n] values of every channel per chunk and rows of [width] bytes, the
   rule gives the number of COMPLETE rows among the [rem] bytes *)
Theorem interleaved_whole_rows n width rem :
  forall (Hn : 0 < n) (Hwidth : 0 < width), n * rem / (n * width) = rem / width.
Proof. intros. apply Z.div_mul_cancel_l; lia. Qed.

(* the dictionary built by the proportional branch of _compute_final_chunk_lengths *)
Definition prop_final (objs : list sobj) (csize rem : Z) : alist Z :=
  fold_left (fun acc o => if so_has_data o then aset (so_path o) (so_nvals o * rem / csize) acc else acc)
            objs [].

Lemma prop_fold_other csize rem objs : forall acc p,
  ~ In p (map so_path (data_objs objs)) ->
  alookup p (fold_left (fun acc o => if so_has_data o
                                     then aset (so_path o) (so_nvals o * rem / csize) acc else acc)
                       objs acc) = alookup p acc.
Proof.
  induction objs as [|x r IH]; intros acc p Hp; [reflexivity|].
  cbn [fold_left]. rewrite data_objs_cons in Hp. destruct (so_has_data x) eqn:Ex.
  - cbn [map In] in Hp. rewrite IH by (intros H; apply Hp; right; exact H).
    rewrite alookup_aset. destruct (bytes_eqb p (so_path x)) eqn:Ep; [|reflexivity].
    apply bytes_eqb_eq in Ep. exfalso. apply Hp. left. symmetry. exact Ep.
  - apply IH. exact Hp.
Qed.

Lemma prop_fold_lookup csize rem objs : forall acc o,
  NoDup (map so_path (data_objs objs)) -> In o (data_objs objs) ->
  alookup (so_path o)
          (fold_left (fun acc o => if so_has_data o
                                   then aset (so_path o) (so_nvals o * rem / csize) acc else acc)
                     objs acc) = Some (so_nvals o * rem / csize).
Proof.
  induction objs as [|x r IH]; intros acc o Hnd Ho; [destruct Ho|].
  cbn [fold_left]. rewrite data_objs_cons in *. destruct (so_has_data x) eqn:Ex.
  - cbn [map] in Hnd. apply NoDup_cons_iff in Hnd. destruct Hnd as [Hnotin Hnd].
    destruct Ho as [Ho|Ho].
    + subst x. rewrite prop_fold_other by exact Hnotin.
      rewrite alookup_aset, bytes_eqb_refl. reflexivity.
    + apply IH; assumption.
  - apply IH; assumption.
Qed.

Theorem prop_final_lookup objs csize rem o :
  forall (Hnodup : NoDup (map so_path (data_objs objs))) (Hin : In o (data_objs objs)),
    alookup (so_path o) (prop_final objs csize rem) = Some (so_nvals o * rem / csize).
Proof. intros. apply prop_fold_lookup; assumption. Qed.

Lemma zsum_map_scale {A} (g : A -> Z) (n : Z) l :
  zsum (map (fun x => n * g x) l) = n * zsum (map g l).
Proof.
  induction l as [|x l IH]; [cbn; lia|]. cbn [map]. rewrite !zsum_cons, IH. lia.
Qed.

(* An interleaved segment in which every channel has [n] values per chunk:
   the chunk is [n] rows of [width] bytes (width = sum of the element sizes),
   and after a cut every channel keeps exactly the number of complete rows. *)
Theorem interleaved_keeps_whole_rows objs n rem o :
  forall (Hn : 0 < n)
         (Hnodup : NoDup (map so_path (data_objs objs)))
         (Hsame : forall o, In o (data_objs objs) -> so_nvals o = n /\ so_dsize o = n * osz o)
         (Hin : In o (data_objs objs)),
    let width := zsum (map osz (data_objs objs)) in
    zsum (map so_dsize (data_objs objs)) = n * width /\
    alookup (so_path o) (prop_final objs (n * width) rem) = Some (rem / width).
Proof.
  intros. split.
  - unfold width. rewrite <- zsum_map_scale. f_equal. apply map_ext_in.
    intros x Hx. apply (Hsame x Hx).
  - rewrite prop_final_lookup by assumption. destruct (Hsame o Hin) as [-> _].
    f_equal. apply interleaved_whole_rows; [exact Hn|].
    unfold width. clear - Hin. induction (data_objs objs) as [|x l IH]; [destruct Hin|].
    cbn [map]. rewrite zsum_cons. pose proof (osz_pos x).
    destruct Hin as [Hin|Hin].
    + assert (0 <= zsum (map osz l)); [|lia].
      clear. induction l as [|y l IH]; [cbn; lia|]. cbn [map]. rewrite zsum_cons. pose proof (osz_pos y). lia.
    + specialize (IH Hin). lia.
Qed.

Example interleaved_ex :
  let o p n dt := mkSobj p true n (n * match tds_size dt with Some (Some s) => s | _ => 1 end) (Some dt) None in
  (* rows of 4 + 8 + 2 = 14 bytes, 10 rows per chunk, 45 bytes left: 3 complete rows *)
  let objs := [o [x61] 10 3; o [x62] 10 10; o [x63] 10 2] in
  chunk_size objs = Ok 140 /\
  prop_final objs 140 45 = [([x61], 3); ([x62], 3); ([x63], 3)] /\
  final_chunk_lengths TOC_INTERLEAVED true objs 140 45 = Ok (prop_final objs 140 45).
Proof. vm_compute. repeat split. Qed.

(* ======================================================================== *)
(* A4 -- DAQmx: whole rows of each raw buffer, buffers in order               *)
(* ======================================================================== *)

Definition dbytes (d : Z * Z) : Z := fst d * snd d.

(* structure: buffers kept whole, then one cut to whole rows, then empty ones *)
Theorem daqmx_final_structure dims : forall rem,
  forall (Hdims : forall d, In d dims -> 0 <= dbytes d) (Hrem : 0 <= rem),
  exists pre rest,
    dims = pre ++ rest /\
    0 <= rem - zsum (map dbytes pre) /\
    (pre <> [] -> zsum (map dbytes pre) < rem) /\
    daqmx_buffer_lengths dims rem
    = map fst pre ++ match rest with
                     | [] => []
                     | d :: post => (rem - zsum (map dbytes pre)) / snd d :: map (fun _ => 0) post
                     end /\
    match rest with
    | [] => True
    | d :: post => rem - zsum (map dbytes pre) <= dbytes d
    end.
Proof.
  induction dims as [|[n w] r IH]; intros rem Hdims Hrem.
  - exists [], []. cbn. repeat split; try lia. intros H; contradiction.
  - cbn [daqmx_buffer_lengths].
    pose proof (Hdims (n, w) (or_introl eq_refl)) as Hnw. unfold dbytes in Hnw. cbn [fst snd] in Hnw.
    destruct (n * w <? rem) eqn:E.
    + destruct (IH (rem - n * w) (fun d H => Hdims d (or_intror H)) ltac:(lia))
        as (pre & rest & Hsplit & Hge & Hlt & Hlens & Hrest).
      exists ((n, w) :: pre), rest. cbn [map app]. rewrite zsum_cons. unfold dbytes at 1 3 5 7. cbn [fst snd].
      split; [rewrite Hsplit; reflexivity|].
      split; [lia|].
      split; [intros _; destruct pre as [|x pre]; [cbn in *; lia|specialize (Hlt ltac:(discriminate)); lia]|].
      split.
      * rewrite Hlens. f_equal. f_equal. destruct rest as [|d post]; [reflexivity|].
        f_equal. f_equal. lia.
      * destruct rest as [|d post]; [exact I|]. lia.
    + exists [], ((n, w) :: r). cbn [map app zsum fold_right]. unfold dbytes. cbn [fst snd].
      split; [reflexivity|]. split; [lia|]. split; [intros H; contradiction|].
      split; [|lia]. f_equal. f_equal. lia.
Qed.

Lemma zeros_le (r : list (Z * Z)) :
  (forall d, In d r -> 0 <= fst d) ->
  Forall2 (fun len d => 0 <= len <= fst d) (map (fun _ => 0) r) r /\
  zsum (map (fun p => fst p * snd (snd p)) (combine (map (fun _ => 0) r) r)) = 0.
Proof.
  induction r as [|d r IH]; intros H; [split; [constructor|reflexivity]|].
  destruct IH as [IH1 IH2]; [intros d' Hd'; apply H; right; exact Hd'|].
  split.
  - cbn [map]. constructor; [|exact IH1]. specialize (H d (or_introl eq_refl)). lia.
  - cbn [map combine]. rewrite zsum_cons, IH2. cbn [fst]. lia.
Qed.

(* bounds: every buffer keeps between 0 and its full number of rows, only whole
   rows, and the rows kept need no more bytes than are there *)
Theorem daqmx_final_le dims : forall rem,
  forall (Hdims : forall d, In d dims -> 0 <= fst d /\ 0 < snd d) (Hrem : 0 <= rem),
    Forall2 (fun len d => 0 <= len <= fst d) (daqmx_buffer_lengths dims rem) dims /\
    zsum (map (fun p => fst p * snd (snd p)) (combine (daqmx_buffer_lengths dims rem) dims)) <= rem.
Proof.
  induction dims as [|[n w] r IH]; intros rem Hdims Hrem.
  - cbn. split; [constructor|lia].
  - cbn [daqmx_buffer_lengths].
    destruct (Hdims (n, w) (or_introl eq_refl)) as [Hn Hw]. cbn [fst snd] in Hn, Hw.
    destruct (n * w <? rem) eqn:E.
    + destruct (IH (rem - n * w) (fun d H => Hdims d (or_intror H)) ltac:(lia)) as [IH1 IH2].
      split.
      * constructor; [cbn [fst]; lia|exact IH1].
      * cbn [combine map]. rewrite zsum_cons. cbn [fst snd]. lia.
    + destruct (zeros_le r) as [Z1 Z2]; [intros d Hd; apply (Hdims d (or_intror Hd))|].
      split.
      * constructor; [|exact Z1]. cbn [fst]. split; [apply Z.div_pos; lia|].
        apply Z.div_le_upper_bound; lia.
      * cbn [combine map]. rewrite zsum_cons, Z2. cbn [fst snd].
        assert (rem / w * w <= rem); [|lia]. rewrite Z.mul_comm. apply Z.mul_div_le. lia.
Qed.

Lemma daqmx_buffer_lengths_length dims : forall rem,
  length (daqmx_buffer_lengths dims rem) = length dims.
Proof.
  induction dims as [|[n w] r IH]; intros rem; [reflexivity|]. cbn [daqmx_buffer_lengths].
  destruct (n * w <? rem); cbn [length]; [rewrite IH|rewrite map_length]; reflexivity.
Qed.

Example daqmx_final_ex :
  (* buffers of 10 rows x 4 bytes, 10 x 6, 10 x 2; 75 bytes left: 10, 5 (35 / 6), 0 *)
  daqmx_buffer_lengths [(10, 4); (10, 6); (10, 2)] 75 = [10; 5; 0].
Proof. vm_compute. reflexivity. Qed.

(* ======================================================================== *)
(* A5 -- len(channel) of a truncated segment                                  *)
(* ======================================================================== *)

(* [total] bytes of raw data make a whole number of chunks; the file is cut so
   that [total'] of them are left.  Whatever final-chunk length [v] between 0
   and a full chunk's count the reader assigns to the object, it counts at least
   the values of all complete chunks that survive and no more than the complete
   segment holds. *)
Theorem seg_values_truncated_le o csize total total' n' fin' :
  forall (Hcsize : 0 < csize) (Hcut : 0 <= total' < total) (Hwhole : total mod csize = 0)
         (Hnvals : 0 <= so_nvals o)
         (Hn' : n' = nchunks_of total' csize)
         (Hnone : total' mod csize = 0 -> fin' = None)
         (Hsome : total' mod csize <> 0 ->
                  exists f, fin' = Some f /\ 0 <= lookup0 (so_path o) f <= so_nvals o),
    seg_values o n' fin' <= seg_values o (total / csize) None /\
    (so_has_data o = true -> so_nvals o * (total' / csize) <= seg_values o n' fin').
Proof.
  intros.
  destruct (truncated_chunk_count csize total total' Hcsize Hcut Hwhole)
    as (Hle & [Hq0 Hq] & Hnz & Hz).
  unfold seg_values. destruct (so_has_data o); cbn [negb]; [|split; [lia|discriminate]].
  destruct (Z.eq_dec (total' mod csize) 0) as [E|E].
  - rewrite (Hnone E), Hn', (Hz E). split; [nia|intros _; lia].
  - destruct (Hsome E) as (f & -> & Hf). rewrite Hn', (Hnz E).
    fold (lookup0 (so_path o) f).
    replace (1 + total' / csize - 1) with (total' / csize) by lia.
    split; [nia|intros _; lia].
Qed.

(* the final-chunk lengths of a segment without DAQmx data, whichever of the
   three rules applies (unsized data: empty dictionary; interleaved or complete:
   proportional; contiguous and incomplete: leading channels) *)
Theorem final_chunk_lengths_le toc inc objs csize rem f o :
  forall (Hnodaqmx : have_daqmx objs = Ok false)
         (Hfinal : final_chunk_lengths toc inc objs csize rem = Ok f)
         (Hnodup : NoDup (map so_path (data_objs objs)))
         (Hnvals : forall o, In o (data_objs objs) -> 0 <= so_nvals o)
         (Hrem : 0 <= rem < csize)
         (Hin : In o (data_objs objs)),
    0 <= lookup0 (so_path o) f <= so_nvals o.
Proof.
  intros. unfold final_chunk_lengths in Hfinal. rewrite Hnodaqmx in Hfinal. cbn [bind] in Hfinal.
  destruct (existsb _ objs) in Hfinal.
  - injection Hfinal as <-. unfold lookup0. cbn [alookup]. specialize (Hnvals o Hin). lia.
  - destruct (toc_has toc TOC_INTERLEAVED || negb inc).
    + injection Hfinal as <-. fold (prop_final objs csize rem).
      unfold lookup0. rewrite prop_final_lookup by assumption.
      apply interleaved_final_le; [apply Hnvals; exact Hin|exact Hrem].
    + injection Hfinal as <-.
      apply (contig_final_le objs rem Hnodup Hnvals ltac:(lia)). exact Hin.
Qed.

(* A5 composed on the model's own functions: the same object list read with the
   complete raw data ([total] bytes, a whole number of chunks) and with a cut
   ([total'] bytes). *)
Theorem calculate_chunks_truncated_le toc inc inc' objs csize total total' n fin n' fin' o :
  forall (Hnodaqmx : have_daqmx objs = Ok false)
         (Hcs : chunk_size objs = Ok csize) (Hcsize : 0 < csize)
         (Hcut : 0 <= total' < total) (Hwhole : total mod csize = 0)
         (Hnodup : NoDup (map so_path (data_objs objs)))
         (Hnvals : forall o, In o (data_objs objs) -> 0 <= so_nvals o)
         (Hfull : calculate_chunks toc inc objs total = Ok (n, fin))
         (Htrunc : calculate_chunks toc inc' objs total' = Ok (n', fin'))
         (Hin : In o (data_objs objs)),
    fin = None /\ n = total / csize /\
    so_nvals o * (total' / csize) <= seg_values o n' fin' <= seg_values o n fin.
Proof.
  intros.
  destruct (calculate_chunks_count toc inc objs total csize n fin Hcs Hcsize ltac:(lia) Hfull)
    as (Hn & Hfin & _).
  destruct (calculate_chunks_count toc inc' objs total' csize n' fin' Hcs Hcsize ltac:(lia) Htrunc)
    as (Hn' & Hfin' & Hfin'').
  rewrite (Hfin Hwhole). split; [reflexivity|].
  assert (En : n = total / csize).
  { rewrite Hn. unfold nchunks_of. rewrite Hwhole. reflexivity. }
  split; [exact En|]. rewrite En.
  assert (Hhd : so_has_data o = true).
  { unfold data_objs in Hin. apply filter_In in Hin. apply Hin. }
  destruct (seg_values_truncated_le o csize total total' n' fin' Hcsize Hcut Hwhole
              (Hnvals o Hin) Hn' Hfin') as [Hub Hlb].
  - intros E. destruct (Hfin'' E) as (f & Ef & Hf). exists f. split; [exact Ef|].
    apply (final_chunk_lengths_le toc inc' objs csize (total' mod csize) f o); try assumption.
    apply Z.mod_pos_bound. exact Hcsize.
  - split; [apply Hlb; exact Hhd|exact Hub].
Qed.

Example calculate_chunks_truncated_ex :
  let o p n := mkSobj p true n (n * 4) (Some 3) None in
  let objs := [o [x61] 10; o [x62] 5] in      (* 60-byte chunks, 3 of them = 180 bytes *)
  calculate_chunks TOC_RAW false objs 180 = Ok (3, None) /\
  calculate_chunks TOC_RAW true objs 170 = Ok (3, Some [([x61], 10); ([x62], 2)]) /\
  calculate_chunks TOC_RAW true objs 150 = Ok (3, Some [([x61], 7)]) /\
  map (fun ob => seg_values ob 3 None) objs = [30; 15] /\
  map (fun ob => seg_values ob 3 (Some [([x61], 10); ([x62], 2)])) objs = [30; 12] /\
  map (fun ob => seg_values ob 3 (Some [([x61], 7)])) objs = [27; 10].
Proof. vm_compute. repeat split. Qed.

(* ======================================================================== *)
(* One iteration of the metadata loop, factored                              *)
(* ======================================================================== *)

(* everything [md_loop] does with a segment once its lead-in positions and its
   metadata tokens are known: a function of the tokens and the reader state
   only, not of the byte source *)
Definition seg_step (want_index : bool) (seg_pos toc dp np : Z) (inc : bool)
           (md : option (list entry)) (prev_seg : option (list sobj)) (prev_index : alist nat)
           (st : rstate) : res (list sobj * alist nat * rstate) :=
  do '(objs, props) <- read_segment_objects toc md (rs_prev_objs st) prev_seg;
  let '(idx, cache) :=
      match md with
      | None => (prev_index, rs_cache st)
      | Some _ => if want_index then get_index (rs_cache st) objs else ([], rs_cache st)
      end in
  do '(nch, fin) <- calculate_chunks toc inc objs (np - dp);
  do '(po, om) <- update_object_metadata objs nch fin (rs_prev_objs st) (rs_om st);
  let om' := update_object_properties props om in
  let seg := mkSeg seg_pos toc np dp inc objs idx nch fin in
  Ok (objs, idx, mkRstate (rs_segments st ++ [seg]) po om' cache (rs_version st)).

Definition set_version (st : rstate) (v : Z) : rstate :=
  mkRstate (rs_segments st) (rs_prev_objs st) (rs_om st) (rs_cache st)
           (match rs_version st with Some v0 => Some v0 | None => Some v end).

Definition read_md (src : bytes) (src_pos toc : Z) : res (option (list entry)) :=
  if toc_has toc TOC_META
  then do '(es, _) <- parse_metadata (toc_endian toc) (drop (src_pos + 28) src); Ok (Some es)
  else Ok None.

Lemma md_loop_unfold f src is_index fs w src_pos seg_pos prev_seg prev_index st :
  md_loop (S f) src is_index fs w src_pos seg_pos prev_seg prev_index st =
  if blen (read_at src_pos 28 src) <? 28 then Ok st
  else
    do l <- parse_leadin (read_at src_pos 28 src);
    if negb (bytes_eqb (l_tag l) (if is_index then TAG_INDEX else TAG_DATA)) then Err EValue
    else
      let st1 := set_version st (l_version l) in
      do lr <- lead_positions seg_pos l fs;
      match lr with
      | LeadEof => Ok st1
      | LeadOk dp np inc =>
        do md <- read_md src src_pos (l_toc l);
        do '(objs, idx, st') <- seg_step w seg_pos (l_toc l) dp np inc md prev_seg prev_index st1;
        md_loop f src is_index fs w (if is_index then src_pos + (dp - seg_pos) else np) np
                (Some objs) idx st'
      end.
Proof.
  cbn [md_loop]. cbv zeta.
  destruct (blen (read_at src_pos 28 src) <? 28); [reflexivity|].
  destruct (parse_leadin (read_at src_pos 28 src)) as [l|e]; cbn [bind]; [|reflexivity].
  destruct (negb (bytes_eqb (l_tag l) (if is_index then TAG_INDEX else TAG_DATA))); [reflexivity|].
  fold (set_version st (l_version l)).
  destruct (lead_positions seg_pos l fs) as [[|dp np inc]|e]; cbn [bind]; try reflexivity.
  unfold read_md, seg_step.
  destruct (toc_has (l_toc l) TOC_META).
  - destruct (parse_metadata (toc_endian (l_toc l)) (drop (src_pos + 28) src)) as [[es r]|e];
      cbn [bind]; [|reflexivity].
    match goal with |- context [read_segment_objects ?a ?b ?c ?d] =>
                    destruct (read_segment_objects a b c d) as [[objs props]|e] end;
      cbn [bind]; [|reflexivity].
    match goal with |- context [if w then ?a else ?b] => destruct (if w then a else b) as [idx cache] end.
    match goal with |- context [calculate_chunks ?a ?b ?c ?d] =>
                    destruct (calculate_chunks a b c d) as [[nch fin]|e] end;
      cbn [bind]; [|reflexivity].
    match goal with |- context [update_object_metadata ?a ?b ?c ?d ?e] =>
                    destruct (update_object_metadata a b c d e) as [[po om]|e'] end;
      cbn [bind]; reflexivity.
  - cbn [bind].
    match goal with |- context [read_segment_objects ?a ?b ?c ?d] =>
                    destruct (read_segment_objects a b c d) as [[objs props]|e] end;
      cbn [bind]; [|reflexivity].
    match goal with |- context [calculate_chunks ?a ?b ?c ?d] =>
                    destruct (calculate_chunks a b c d) as [[nch fin]|e] end;
      cbn [bind]; [|reflexivity].
    match goal with |- context [update_object_metadata ?a ?b ?c ?d ?e] =>
                    destruct (update_object_metadata a b c d e) as [[po om]|e'] end;
      cbn [bind]; reflexivity.
Qed.

(* ======================================================================== *)
(* A6 -- where the cut falls decides the status of the last segment           *)
(* ======================================================================== *)

(* One segment, explicit end, metadata inside the declared extent.  In a file
   cut to [k] bytes:
   - the segment is dropped when its metadata does not survive ([k < dp]);
   - otherwise it is read up to [min k np] and flagged incomplete exactly when
     the cut is inside its raw data ([dp <= k < np]);
   - a segment lying wholly before the cut is analysed as in the complete file. *)
Theorem cut_segment_status seg_pos l k :
  forall (Hexplicit : l_next l <> 0xFFFFFFFFFFFFFFFF) (Hraw : l_raw l <= l_next l),
    let dp := seg_pos + 28 + l_raw l in
    let np := seg_pos + l_next l + 28 in
    (k < dp -> lead_positions seg_pos l (Some k) = Ok LeadEof) /\
    (dp <= k ->
     exists inc, lead_positions seg_pos l (Some k) = Ok (LeadOk dp (Z.min k np) inc) /\
                 (inc = true <-> dp <= k < np)) /\
    (forall n, np <= k <= n ->
               lead_positions seg_pos l (Some k) = lead_positions seg_pos l (Some n) /\
               lead_positions seg_pos l (Some k) = Ok (LeadOk dp np false)).
Proof.
  intros. assert (Hle : dp <= np) by (unfold dp, np; lia).
  assert (Hk : forall k, lead_positions seg_pos l (Some k) =
                         Ok (if k <? np then (if k <? dp then LeadEof else LeadOk dp k true)
                             else LeadOk dp np false)).
  { intros k0. apply (lead_positions_cut seg_pos l k0 Hexplicit). }
  split; [|split].
  - intros H. rewrite Hk.
    replace (k <? np) with true by lia. replace (k <? dp) with true by lia. reflexivity.
  - intros H. rewrite Hk. destruct (k <? np) eqn:E1.
    + replace (k <? dp) with false by lia. exists true.
      rewrite Z.min_l by lia. split; [reflexivity|]. split; [lia|reflexivity].
    + exists false. rewrite Z.min_r by lia. split; [reflexivity|]. split; [discriminate|lia].
  - intros n Hn. rewrite !Hk.
    replace (k <? np) with false by lia. replace (n <? np) with false by lia. split; reflexivity.
Qed.

(* with the length-unknown marker: dropped or incomplete, never complete *)
Theorem cut_segment_status_unknown seg_pos l k :
  forall (Hmarker : l_next l = 0xFFFFFFFFFFFFFFFF),
    let dp := seg_pos + 28 + l_raw l in
    (k < dp -> lead_positions seg_pos l (Some k) = Ok LeadEof) /\
    (dp <= k -> lead_positions seg_pos l (Some k) = Ok (LeadOk dp k true)).
Proof.
  intros. pose proof (lead_positions_unknown seg_pos l k Hmarker) as Hk. cbv zeta in Hk. fold dp in Hk.
  split; intros H; rewrite Hk.
  - replace (k <? dp) with true by lia. reflexivity.
  - replace (k <? dp) with false by lia. reflexivity.
Qed.

(* the metadata loop stops, keeping the segments read so far, when fewer than
   28 bytes are left or when the lead-in analysis says the metadata is cut *)
Theorem md_loop_stops f src is_index fs w src_pos seg_pos prev_seg prev_index st :
  (blen (read_at src_pos 28 src) < 28 ->
   md_loop (S f) src is_index fs w src_pos seg_pos prev_seg prev_index st = Ok st) /\
  (forall l,
      blen (read_at src_pos 28 src) = 28 ->
      parse_leadin (read_at src_pos 28 src) = Ok l ->
      bytes_eqb (l_tag l) (if is_index then TAG_INDEX else TAG_DATA) = true ->
      lead_positions seg_pos l fs = Ok LeadEof ->
      md_loop (S f) src is_index fs w src_pos seg_pos prev_seg prev_index st
      = Ok (set_version st (l_version l)) /\
      rs_segments (set_version st (l_version l)) = rs_segments st).
Proof.
  split.
  - intros H. rewrite md_loop_unfold. replace (_ <? 28) with true by lia. reflexivity.
  - intros l Hlen Hparse Htag Hlead. rewrite md_loop_unfold.
    rewrite Hlen. change (28 <? 28) with false. cbv iota.
    rewrite Hparse. cbn [bind]. rewrite Htag. cbn [negb]. rewrite Hlead. cbn [bind].
    split; reflexivity.
Qed.

Example cut_segment_status_ex :
  (* a segment at 100 with 40 bytes of metadata and 60 of raw data: dp = 168, np = 228 *)
  let l := mkLeadin TAG_DATA 14 4713 100 40 in
  map (fun k => lead_positions 100 l (Some k)) [150; 167; 168; 200; 227; 228; 500]
  = [Ok LeadEof; Ok LeadEof; Ok (LeadOk 168 168 true); Ok (LeadOk 168 200 true);
     Ok (LeadOk 168 227 true); Ok (LeadOk 168 228 false); Ok (LeadOk 168 228 false)] /\
  (* the same lead-in with the length-unknown marker is never complete *)
  let u := mkLeadin TAG_DATA 14 4713 0xFFFFFFFFFFFFFFFF 40 in
  map (fun k => lead_positions 100 u (Some k)) [167; 168; 228; 500]
  = [Ok LeadEof; Ok (LeadOk 168 168 true); Ok (LeadOk 168 228 true); Ok (LeadOk 168 500 true)].
Proof. vm_compute. split; reflexivity. Qed.
