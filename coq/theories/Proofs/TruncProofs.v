(* Lemmas for C06 (truncation). *)
From Coq Require Import List ZArith Bool Lia.
Import ListNotations.
From NpTdms Require Import Base.Bytes Base.Res Model.Tokens Model.SegState.
Local Open Scope Z_scope.

Lemma firstn_skipn_firstn {A} (l : list A) (k p n : nat) :
  (p + n <= k)%nat -> firstn n (skipn p (firstn k l)) = firstn n (skipn p l).
Proof.
  revert k p n. induction l as [|x l IH]; intros k p n H.
  - rewrite firstn_nil. reflexivity.
  - destruct k as [|k].
    + assert (p = 0%nat) by lia. assert (n = 0%nat) by lia. subst. reflexivity.
    + cbn [firstn]. destruct p as [|p].
      * cbn [skipn]. destruct n as [|n]; [reflexivity|]. cbn [firstn]. f_equal.
        specialize (IH k 0%nat n). cbn [skipn] in IH. apply IH. lia.
      * cbn [skipn]. apply IH. lia.
Qed.

Lemma read_at_take (bs : bytes) (k pos n : Z) :
  0 <= pos -> 0 <= n -> pos + n <= k -> read_at pos n (take k bs) = read_at pos n bs.
Proof.
  intros Hp Hn Hk. unfold read_at. rewrite !take_firstn, !drop_skipn.
  apply firstn_skipn_firstn. lia.
Qed.
