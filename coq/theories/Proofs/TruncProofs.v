(* Lemmas for C06 (truncation). *)
From Coq Require Import List ZArith Bool Lia.
Import ListNotations.
From NpTdms Require Import Base.Bytes Base.Res Model.Tokens Model.SegState.
Local Open Scope Z_scope.

Lemma firstn_skipn_firstn {A} (l : list A) (k p n : nat) :
  (p + n <= k)%nat -> firstn n (skipn p (firstn k l)) = firstn n (skipn p l).
Proof.
  revert k p n. induction l as [|x l IH]; intros k p n H.
  - rewrite firstn_nil. reflexivity.
  - destruct k as [|k].
    + assert (p = 0%nat) by lia. assert (n = 0%nat) by lia. subst. reflexivity.
    + cbn [firstn]. destruct p as [|p].
      * cbn [skipn]. destruct n as [|n]; [reflexivity|]. cbn [firstn]. f_equal.
        specialize (IH k 0%nat n). cbn [skipn] in IH. apply IH. lia.
      * cbn [skipn]. apply IH. lia.
Qed.

Lemma read_at_take (bs : bytes) (k pos n : Z) :
  0 <= pos -> 0 <= n -> pos + n <= k -> read_at pos n (take k bs) = read_at pos n bs.
Proof.
  intros Hp Hn Hk. unfold read_at. rewrite !take_firstn, !drop_skipn.
  apply firstn_skipn_firstn. lia.
Qed.

(* ---- where a cut falls decides what the lead-in analysis reports ---------- *)

(* A segment at [seg_pos] whose lead-in declares its end explicitly, in a file
   that has been cut to [k] bytes: nothing survives when the cut is before the
   end of the metadata, the segment is read to the cut and flagged incomplete
   when the cut is inside (or at the start of) its raw data, and it is complete
   otherwise. *)
Lemma lead_positions_cut seg_pos l k :
  l_next l <> 0xFFFFFFFFFFFFFFFF ->
  let dp := seg_pos + 28 + l_raw l in
  let np := seg_pos + l_next l + 28 in
  lead_positions seg_pos l (Some k) =
  Ok (if k <? np then (if k <? dp then LeadEof else LeadOk dp k true)
      else LeadOk dp np false).
Proof.
  intros Hn dp np. unfold lead_positions.
  destruct (l_next l =? 18446744073709551615) eqn:E.
  - apply Z.eqb_eq in E. contradiction.
  - fold dp. fold np. destruct (k <? np); [destruct (k <? dp)|]; reflexivity.
Qed.

(* With the length-unknown marker the segment always runs to the end of the file
   and is always flagged incomplete, provided its metadata survives. *)
Lemma lead_positions_unknown seg_pos l k :
  l_next l = 0xFFFFFFFFFFFFFFFF ->
  let dp := seg_pos + 28 + l_raw l in
  lead_positions seg_pos l (Some k) = Ok (if k <? dp then LeadEof else LeadOk dp k true).
Proof.
  intros Hn dp. unfold lead_positions. rewrite Hn. cbn [Z.eqb Pos.eqb]. fold dp.
  destruct (k <? dp); reflexivity.
Qed.

