(* C19, byte level: the plan does not depend on the VALUES.

   LazyRead.lz_plan (the (segment, chunk) pairs the loop fetches) is the same on two
   per-channel views that agree in shape -- chunk length, chunk count, layout kind, final
   chunk length, number of chunk entries -- whatever the chunks hold.  Hence the plan on
   the metadata view of Model/LazyRanges.v (no data decoded) is the plan on the view of
   Model/LazyBytes.v (every chunk decoded from the file bytes), the one LazyBytes.lz_read_bytes
   reads VALUES through (Props/C03.v, C04.v): the chunks whose bytes Props/C19_bytes.v bounds
   are the chunks the values come from. *)
From Coq Require Import List ZArith Bool Lia ZifyBool.
From Coq Require Import Init.Byte.
Import ListNotations.
From NpTdms Require Import Base.Bytes Base.Res Base.PySlice Gen.PySlice_gen Model.Tokens Model.SegState
     Model.Layout Model.Reader Model.LazyRead Model.LazyBytes Model.LazyRanges
     Proofs.SegStateProofs Proofs.LazyReadLemmas Proofs.LazyRangesSeg Proofs.LazyRangesTop.
Local Open Scope Z_scope.

Section Shape.
  Variables V W : Type.

  Definition same_shape (a : segv V) (b : segv W) : Prop :=
    sv_chunk a = sv_chunk b /\ sv_nchunks a = sv_nchunks b /\ sv_interleaved a = sv_interleaved b /\
    (sv_chunk a <> 0 -> sv_final a = sv_final b) /\ length (sv_vals a) = length (sv_vals b).

  Lemma nsv_shape a b : same_shape a b -> number_of_segment_values V a = number_of_segment_values W b.
  Proof.
    intros (Hc & Hn & _ & Hf & _). unfold number_of_segment_values. rewrite <- Hc, <- Hn.
    destruct (sv_chunk a =? 0) eqn:E; [reflexivity|]. rewrite <- Hf by lia. reflexivity.
  Qed.

  Lemma total_values_shape A B : Forall2 same_shape A B -> total_values V A = total_values W B.
  Proof.
    induction 1 as [|a b A B Hab _ IH]; [reflexivity|]. cbn [total_values].
    rewrite (nsv_shape a b Hab), IH. reflexivity.
  Qed.

  Lemma seg_nums_shape A B : Forall2 same_shape A B -> seg_nums V A = seg_nums W B.
  Proof.
    induction 1 as [|a b A B Hab _ IH]; [reflexivity|]. unfold seg_nums in *. cbn [map].
    rewrite (nsv_shape a b Hab), IH. reflexivity.
  Qed.

  Lemma zlen_shape A B : Forall2 same_shape A B -> zlen A = zlen B.
  Proof.
    induction 1 as [|a b A B _ _ IH]; [reflexivity|]. rewrite !zlen_cons, IH. reflexivity.
  Qed.

  Lemma build_index_shape A B : Forall2 same_shape A B -> build_index V A = build_index W B.
  Proof.
    intros H. unfold build_index. rewrite (seg_nums_shape A B H), (zlen_shape A B H). reflexivity.
  Qed.

  Lemma seg_chunk_range_shape a b ff f offs s e off endi i :
    same_shape a b -> sv_chunk a <> 0 ->
    seg_chunk_range V ff f offs s e off endi i a = seg_chunk_range W ff f offs s e off endi i b.
  Proof.
    intros (Hc & Hn & _ & Hf & _) Hne. unfold seg_chunk_range. rewrite <- Hc, <- Hn, <- (Hf Hne). reflexivity.
  Qed.

  (* same success, and the same error *)
  Definition res_rel {X Y} (r1 : res X) (r2 : res Y) : Prop :=
    match r1, r2 with
    | Ok _, Ok _ => True
    | Err e1, Err e2 => e1 = e2
    | _, _ => False
    end.

  Lemma chunk_at_shape a b c : same_shape a b -> res_rel (chunk_at V a c) (chunk_at W b c).
  Proof.
    intros (_ & Hn & _ & _ & Hl). unfold chunk_at. rewrite <- Hn.
    destruct ((0 <=? c) && (c <? sv_nchunks a)); [|reflexivity].
    destruct (nth_error (sv_vals a) (Z.to_nat c)) eqn:Ea; destruct (nth_error (sv_vals b) (Z.to_nat c)) eqn:Eb;
      cbn; try reflexivity; try exact I.
    - apply nth_error_None in Eb. assert (nth_error (sv_vals a) (Z.to_nat c) <> None) by congruence.
      apply nth_error_Some in H. lia.
    - apply nth_error_None in Ea. assert (nth_error (sv_vals b) (Z.to_nat c) <> None) by congruence.
      apply nth_error_Some in H. lia.
  Qed.

  Lemma mapM_chunk_at_shape a b : same_shape a b -> forall l,
    res_rel (mapM (chunk_at V a) l) (mapM (chunk_at W b) l).
  Proof.
    intros H. induction l as [|c l IH]; [exact I|]. cbn [mapM].
    pose proof (chunk_at_shape a b c H) as Hc.
    destruct (chunk_at V a c) as [x|e1]; destruct (chunk_at W b c) as [y|e2]; cbn [bind]; cbn in Hc; try contradiction.
    - destruct (mapM (chunk_at V a) l) as [xs|e1]; destruct (mapM (chunk_at W b) l) as [ys|e2];
        cbn [bind]; cbn in IH; try contradiction; [exact I|exact IH].
    - exact Hc.
  Qed.

  Lemma seg_fetch_shape a b co nc : same_shape a b ->
    res_rel (seg_fetch V a co nc) (seg_fetch W b co nc).
  Proof.
    intros H. pose proof H as (Hc & _ & Hi & _). unfold seg_fetch. rewrite <- Hi, <- Hc.
    pose proof (mapM_chunk_at_shape a b H (zrange co (nc + co))) as Hm.
    destruct (sv_interleaved a); [|exact Hm].
    destruct (sv_chunk a * (nc + co - co) <? 0); [reflexivity|].
    destruct (mapM (chunk_at V a) (zrange co (nc + co))) as [xs|e1];
      destruct (mapM (chunk_at W b) (zrange co (nc + co))) as [ys|e2]; cbn [bind]; cbn in Hm; try contradiction;
      [exact I|exact Hm].
  Qed.

  (* same success, same error, same log *)
  Definition log_rel {X Y} (r1 : res (X * list (Z * Z))) (r2 : res (Y * list (Z * Z))) : Prop :=
    match r1, r2 with
    | Ok (_, l1), Ok (_, l2) => l1 = l2
    | Err e1, Err e2 => e1 = e2
    | _, _ => False
    end.

  Lemma lz_loop_shape fi ff f offs s e off L endi : forall A B, Forall2 same_shape A B ->
    forall pos si vr vr',
      log_rel (lz_loop V fi ff f offs s e off L endi A pos si vr)
              (lz_loop W fi ff f offs s e off L endi B pos si vr').
  Proof.
    induction 1 as [|a b A B Hab _ IH]; intros pos si vr vr'; [reflexivity|].
    cbn [lz_loop]. pose proof Hab as (Hc & _). rewrite <- Hc.
    destruct (sv_chunk a =? 0) eqn:E; [apply IH|].
    rewrite <- (seg_chunk_range_shape a b ff f offs s e off endi si Hab ltac:(lia)).
    destruct (seg_chunk_range V ff f offs s e off endi si a) as [[[co nc] skip]|err]; cbn [bind]; [|reflexivity].
    pose proof (seg_fetch_shape a b co nc Hab) as Hf.
    destruct (seg_fetch V a co nc) as [ca|e1]; destruct (seg_fetch W b co nc) as [cb|e2]; cbn [bind]; cbn in Hf;
      try contradiction; [|exact Hf].
    destruct (emit_chunks V ca true skip vr L) as [o1 v1].
    destruct (emit_chunks W cb true skip vr' L) as [o2 v2].
    specialize (IH (pos + 1) (si + 1) v1 v2). unfold log_rel in *.
    destruct (lz_loop V fi ff f offs s e off L endi A (pos + 1) (si + 1) v1) as [[x1 l1]|e1];
      destruct (lz_loop W fi ff f offs s e off L endi B (pos + 1) (si + 1) v2) as [[x2 l2]|e2];
      cbn [bind]; try contradiction; [rewrite IH; reflexivity|exact IH].
  Qed.

  Lemma Forall2_skipn {X Y} (R : X -> Y -> Prop) : forall n l1 l2,
    Forall2 R l1 l2 -> Forall2 R (skipn n l1) (skipn n l2).
  Proof.
    induction n as [|n IH]; intros l1 l2 H; [exact H|].
    destruct H as [|x y l1 l2 _ H]; [constructor|]. cbn [skipn]. apply IH. exact H.
  Qed.

  Lemma Forall2_firstn {X Y} (R : X -> Y -> Prop) : forall n l1 l2,
    Forall2 R l1 l2 -> Forall2 R (firstn n l1) (firstn n l2).
  Proof.
    induction n as [|n IH]; intros l1 l2 H; [constructor|].
    destruct H as [|x y l1 l2 Hxy H]; [constructor|]. cbn [firstn]. constructor; [exact Hxy|]. apply IH. exact H.
  Qed.

  Lemma py_slice_shape A B a b : Forall2 same_shape A B ->
    Forall2 same_shape (py_slice A a b) (py_slice B a b).
  Proof.
    intros H. unfold py_slice. rewrite (zlen_shape A B H). unfold sl, zfirstn, zskipn.
    apply Forall2_firstn, Forall2_skipn. exact H.
  Qed.

  Theorem lz_plan_shape A B offs len : Forall2 same_shape A B ->
    lz_plan V A offs len = lz_plan W B offs len.
  Proof.
    intros H. unfold lz_plan. destruct (offs <? 0); [reflexivity|].
    destruct (match len with Some l => l <? 0 | None => false end); [reflexivity|].
    unfold lz_gen. rewrite <- (build_index_shape A B H), <- (total_values_shape A B H).
    destruct (build_index V A) as [f offsets].
    match goal with
    | |- context [lz_loop V true true f offsets ?s ?e offs ?L ?endi (py_slice A ?s ?e1) ?s ?s 0] =>
      pose proof (lz_loop_shape true true f offsets s e offs L endi _ _ (py_slice_shape A B s e1 H) s s 0 0) as Hl
    end.
    unfold log_rel in Hl.
    match goal with
    | |- bind ?r1 _ = bind ?r2 _ =>
      destruct r1 as [[o1 l1]|e1]; destruct r2 as [[o2 l2]|e2]; cbn [bind]; try contradiction;
        [rewrite Hl; reflexivity|rewrite Hl; reflexivity]
    end.
  Qed.
End Shape.

(* ---- the view LazyBytes decodes and the metadata view have the same shape --------------- *)

Lemma fit_chunks_length : forall n l, length (fit_chunks n l) = n.
Proof. induction n as [|n IH]; intros l; [reflexivity|]. destruct l; cbn [fit_chunks length]; rewrite IH; reflexivity. Qed.

Lemma shape_vals_length chunk n fin :
  0 <= n -> (match fin with Some _ => 1 <= n | None => True end) ->
  length (shape_vals chunk n fin) = Z.to_nat n.
Proof.
  intros Hn Hf. unfold shape_vals. destruct fin.
  - rewrite app_length, repeat_length. cbn [length]. lia.
  - rewrite repeat_length. reflexivity.
Qed.

Lemma segv_of_shape data path g sv sv' :
  seg_inv data path g = true -> segv_of data path g = Ok sv -> meta_segv path g = Ok sv' ->
  same_shape bytes unit sv sv'.
Proof.
  intros Hinv Hsv Hsv'. destruct (seg_inv_parts _ _ _ Hinv) as (_ & Hn & _ & Hrest).
  unfold segv_of in Hsv. unfold meta_segv in Hsv'. fold (chan_chunk path g) in Hsv. fold (chan_final path g) in Hsv.
  destruct (chan_chunk path g =? 0) eqn:E.
  - injection Hsv as <-. injection Hsv' as <-. unfold same_shape. cbn [sv_chunk sv_nchunks sv_interleaved sv_final sv_vals].
    repeat split; try reflexivity; [intros; lia|].
    rewrite fit_chunks_length. unfold shape_vals. rewrite ?repeat_length. reflexivity.
  - destruct (Hrest ltac:(lia)) as [Hfin _].
    destruct (seg_layout g) as [lay|]; cbn [bind] in Hsv, Hsv'; [|discriminate].
    destruct (read_segment data g) as [cs|]; cbn [bind] in Hsv; [|discriminate].
    injection Hsv as <-. injection Hsv' as <-. unfold same_shape. cbn [sv_chunk sv_nchunks sv_interleaved sv_final sv_vals].
    repeat split; try reflexivity.
    rewrite fit_chunks_length. unfold shape_vals. unfold final_inv in Hfin.
    destruct (chan_final path g); [rewrite app_length, repeat_length; cbn [length]; lia|].
    rewrite repeat_length. reflexivity.
Qed.

Lemma mapM_Forall2 {A B C} (f : A -> res B) (g : A -> res C) (R : B -> C -> Prop) : forall l ys zs,
  mapM f l = Ok ys -> mapM g l = Ok zs ->
  (forall x y z, In x l -> f x = Ok y -> g x = Ok z -> R y z) -> Forall2 R ys zs.
Proof.
  induction l as [|x l IH]; intros ys zs Hf Hg HR.
  - cbn [mapM] in Hf, Hg. injection Hf as <-. injection Hg as <-. constructor.
  - cbn [mapM] in Hf, Hg.
    destruct (f x) as [y|] eqn:Efx; cbn [bind] in Hf; [|discriminate].
    destruct (mapM f l) as [ys'|] eqn:Efl; cbn [bind] in Hf; [|discriminate]. injection Hf as <-.
    destruct (g x) as [z|] eqn:Egx; cbn [bind] in Hg; [|discriminate].
    destruct (mapM g l) as [zs'|] eqn:Egl; cbn [bind] in Hg; [|discriminate]. injection Hg as <-.
    constructor; [apply (HR x y z (or_introl eq_refl) Efx Egx)|].
    apply IH; [reflexivity|reflexivity|]. intros x0 y0 z0 Hin. apply HR. right. exact Hin.
Qed.

(* the chunks LazyBytes.lz_read_bytes reads values from are the chunks whose bytes
   Props/C19_bytes.v bounds *)
Theorem plan_bytes_is_plan_meta data path offs len st svs dt :
  open_state data = Ok st -> ranges_inv st data path = true ->
  channel_view data path = Ok (svs, dt) ->
  exists views, meta_views st path = Ok views /\
                lz_plan bytes svs offs len = lz_plan unit views offs len /\
                lz_plan_bytes data path offs len = lz_plan_meta st path offs len.
Proof.
  intros Hst Hinv Hcv.
  destruct (ranges_inv_views st data path Hinv) as (views & Hv & _).
  exists views. split; [exact Hv|].
  unfold channel_view in Hcv. unfold open_state in Hst. rewrite Hst in Hcv. cbn [bind] in Hcv.
  destruct (mapM (segv_of data path) (rs_segments st)) as [svs'|] eqn:Esv; cbn [bind] in Hcv; [|discriminate].
  injection Hcv as <- <-.
  assert (Hsh : Forall2 (same_shape bytes unit) svs' views).
  { apply (mapM_Forall2 _ _ _ _ _ _ Esv Hv). intros g sv sv' Hg Hs Hs'.
    apply (segv_of_shape data path g sv sv'); [|exact Hs|exact Hs'].
    unfold ranges_inv in Hinv. rewrite forallb_forall in Hinv. apply Hinv. exact Hg. }
  pose proof (lz_plan_shape bytes unit svs' views offs len Hsh) as Hp.
  split; [exact Hp|].
  unfold lz_plan_bytes, lz_plan_meta, channel_view. rewrite Hst. cbn [bind]. rewrite Esv, Hv. cbn [bind]. exact Hp.
Qed.
