(* Refinement of the reader model to Model/SpecDaqmx.v -- the composition.

   [sim_step_dq]   one segment: the model's metadata step succeeds (SpecDaqmxMeta), the
                   raw data block is either the model-level encoding of chunks holding
                   the values the specification decoded (ordinary data objects) or a
                   readable DAQmx segment whose directly addressed values are what the
                   specification added (SpecDaqmxData); the invariant is re-established;
   [sim_loop_dq]   all segments; per path the content's data, per-scale-id data and
                   length are those of the chunks / the credits of the metadata pass;
   [reader_refines_spec_dq]  with ReadCorrectDaqmxZ.read_correct_daqmx_z and
                   SpecDaqmxHier.hierarchy_refines_dq;
   [spec_dq_conservative]    on files without DAQmx indexes the specification is
                   Model/Spec.v's. *)
From Coq Require Import List ZArith Bool Lia ZifyBool.
From Coq Require Import Init.Byte.
Import ListNotations.
From NpTdms Require Import Base.Bytes Base.Res Model.Tokens Model.TokensWf Model.SegState Model.Layout
     Model.Reader Model.FileSyn Model.Spec Model.SpecDaqmx Proofs.SegStateProofs Proofs.LayoutProofs
     Proofs.FileSynProofs Proofs.SegStateInherit Proofs.DaqmxProofs Proofs.ReadCorrect Proofs.SegEncodesZ
     Proofs.ReadCorrectZ Proofs.ReadCorrectDaqmx Proofs.ReadCorrectDaqmxZ Proofs.TruncLazyDaqmx
     Proofs.SpecRefineBase Proofs.SpecRefineMeta Proofs.SpecRefineData Proofs.SpecRefineDataZ
     Proofs.SpecRefineHier Proofs.SpecRefine
     Proofs.SpecDaqmxBase Proofs.SpecDaqmxMeta Proofs.SpecDaqmxData Proofs.SpecDaqmxHier.
Local Open Scope Z_scope.
Ltac Zify.zify_post_hook ::= Z.to_euclidean_division_equations.

(* ---- the metadata of a segment does not touch values --------------------------------- *)

Definition vals3 (o : dcobj) : list bytes * list (Z * list bytes) * Z := (d_vals o, d_svals o, d_len o).

Lemma vals3_touch lst c q p : vals3 (dget (touch_dq lst c q) p) = vals3 (dget c p).
Proof.
  unfold dget. rewrite touch_dq_eq, alookup_aset. destruct (bytes_eqb p q) eqn:E; [|reflexivity].
  apply bytes_eqb_eq in E. subst q. reflexivity.
Qed.

Lemma vals3_fold_touch lst : forall ps c p, vals3 (dget (fold_left (touch_dq lst) ps c) p) = vals3 (dget c p).
Proof.
  induction ps as [|q ps IH]; intros c p; cbn [fold_left]; [reflexivity|]. rewrite IH. apply vals3_touch.
Qed.

Lemma vals3_set_props c x p : vals3 (dget (set_props_dq c x) p) = vals3 (dget c p).
Proof.
  rewrite set_props_dq_eq. destruct (alookup (e_path x) c) as [o|] eqn:E; [|reflexivity].
  unfold dget. rewrite alookup_aset. destruct (bytes_eqb p (e_path x)) eqn:Ep; [|reflexivity].
  apply bytes_eqb_eq in Ep. subst p. rewrite E. reflexivity.
Qed.

Lemma vals3_fold_set_props : forall es c p, vals3 (dget (fold_left set_props_dq es c) p) = vals3 (dget c p).
Proof.
  induction es as [|x es IH]; intros c p; cbn [fold_left]; [reflexivity|]. rewrite IH. apply vals3_set_props.
Qed.

Lemma apply_entries_dq_objs : forall es st0 st', apply_entries_dq st0 es = SOk st' -> dobjs st' = dobjs st0.
Proof.
  induction es as [|x es IH]; intros st0 st' H; cbn [apply_entries_dq] in H.
  - injection H as <-. reflexivity.
  - destruct (apply_entry_dq st0 x) as [st1|e] eqn:E; cbn [sbind] in H; [|discriminate].
    rewrite (IH st1 st' H). unfold apply_entry_dq in E.
    destruct (e_idx x); try discriminate.
    + injection E as <-. reflexivity.
    + destruct (get (e_path x) (dlast st0)); [injection E as <-; reflexivity|].
      destruct (get (e_path x) (dobjs st0)); discriminate.
    + destruct (index_of _ _ _ _); [|discriminate].
      destruct (type_ok _ _ _); [|discriminate]. injection E as <-. reflexivity.
    + destruct (dq_index_of _ _ _ _ _ _); [|discriminate].
      destruct (type_ok _ _ _ && types_ok _ _ _); [|discriminate]. injection E as <-. reflexivity.
Qed.

Lemma apply_metadata_dq_values first st s st1 p :
  apply_metadata_dq first st s = SOk st1 -> vals3 (dget (dobjs st1) p) = vals3 (dget (dobjs st) p).
Proof.
  intros H. destruct (apply_metadata_dq_inv first st s st1 H) as (ste & Hm & ->). cbn [dobjs].
  rewrite vals3_fold_set_props, vals3_fold_touch.
  assert (Hobjs : dobjs ste = dobjs st).
  { destruct (fs_meta s) as [es|]; [|destruct Hm as [_ ->]; reflexivity].
    rewrite (apply_entries_dq_objs _ _ _ Hm). destruct (toc_has (fs_toc s) TOC_NEWLIST); reflexivity. }
  rewrite Hobjs. reflexivity.
Qed.

Lemma vstep_vals3 o o' o0 p cs t : vals3 o = vals3 o0 -> vstep o o' p cs t -> vstep o0 o' p cs t.
Proof.
  unfold vals3, vstep. intros H (A & B & C). injection H as H1 H2 H3.
  rewrite <- H1, <- H3. split; [exact A|]. split; [|exact C]. intros id. rewrite <- H2. exact (B id).
Qed.

Lemma only_cdata_chan_scaler_values p id (chunks : list chunk) :
  Forall only_cdata chunks -> chan_scaler_values p id chunks = [].
Proof.
  intros H. unfold chan_scaler_values. apply flat_map_all_nil. intros c Hc.
  rewrite Forall_forall in H. apply only_cdata_scaler_values. exact (H c Hc).
Qed.

(* ---- chunk arithmetic for ordinary data objects ------------------------------------------ *)

Lemma chunk_size_dobj objs pobjs :
  data_objs objs = map dobj pobjs -> chunk_size objs = Ok (Spec.chunk_bytes pobjs).
Proof.
  intros H. unfold chunk_size. rewrite (have_daqmx_dobj objs pobjs H). cbn [bind]. rewrite H.
  f_equal. apply dsizes_dobj.
Qed.

Lemma plain_none_nonempty l : plain_part l = None -> l <> [].
Proof. intros H E. subst l. discriminate H. Qed.

(* ---- one accepted segment ------------------------------------------------------------------ *)

Lemma sim_step_dq first st ps s st' rst pos pi k :
  GInv first st ps (rs_prev_objs rst) (rs_om rst) -> seg_ok_dq s = true -> wf_fseg s = true ->
  spec_segment_dq first st s = SOk st' ->
  exists mobjs idx rst' g cs,
    seg_step s false pos ps pi rst k = k (Some mobjs) idx rst' /\
    GInv false st' (Some mobjs) (rs_prev_objs rst') (rs_om rst') /\
    rs_segments rst' = rs_segments rst ++ [g] /\
    seg_content_z g s cs /\ seg_plain g /\
    (forall p, vstep (dget (dobjs st) p) (dget (dobjs st') p) p cs (seg_total p g)).
Proof.
  intros HI Hok Hwfs Hseg. unfold spec_segment_dq in Hseg.
  destruct (apply_metadata_dq first st s) as [st1|e] eqn:Emeta; cbn [sbind] in Hseg; [|discriminate].
  set (mobjs := gobjs_of (dactive st1) (dlast st1)) in *.
  (* facts about the state after the metadata *)
  destruct (gsim_segment first st ps _ _ s st1 0 HI Hok Hwfs Emeta) as (props0 & po0 & om0 & _ & _ & HI0).
  pose proof (iv_act_last _ _ _ _ _ HI0) as Hactlast.
  pose proof (iv_act_nodup _ _ _ _ _ HI0) as Hactnd.
  pose proof (iv_idx_ok _ _ _ _ _ HI0) as Hidxok.
  pose proof (iv_act_known _ _ _ _ _ HI0) as Hactknown.
  clear HI0 props0 po0 om0.
  pose proof (data_objs_gobjs_of (dlast st1) (dactive st1) Hactlast) as Hdo. fold mobjs in Hdo.
  pose proof (data_objects_dq_nodup _ Hactnd) as Hdnd.
  assert (Hknown : forall p, In p (map fst (data_objects_dq (dactive st1))) -> alookup p (dobjs st1) <> None).
  { intros p Hp. apply Hactknown. apply in_map_iff in Hp. destruct Hp as ([q i] & <- & Hin).
    apply data_objects_dq_in in Hin. apply (in_map fst) in Hin. exact Hin. }
  assert (Hmobjs_paths : map so_path mobjs = map fst (dactive st1)) by apply gobjs_of_paths.
  (* the model's step once the chunk count is known *)
  assert (Hstep : forall nch,
             calculate_chunks (fs_toc s) false mobjs (blen (fs_data s)) = Ok (nch, None) ->
             exists idx rst' po,
               seg_step s false pos ps pi rst k =
               k (Some mobjs) idx rst' /\
               rs_segments rst' = rs_segments rst ++
                 [mkSeg pos (fs_toc s) (pos + 28 + blen (fs_meta_bytes s) + blen (fs_data s))
                        (pos + 28 + blen (fs_meta_bytes s)) false mobjs idx nch None] /\
               rs_prev_objs rst' = po /\
               GInv false st1 (Some mobjs) po (rs_om rst')).
  { intros nch Hcc.
    destruct (gsim_segment first st ps _ _ s st1 nch HI Hok Hwfs Emeta) as (props & po & om1 & Hro & Hum & HI1).
    destruct (seg_step_eval s pos ps pi rst k _ props nch None po om1 Hro Hcc Hum) as (idx & cache & ver & Hst).
    eexists idx, _, po. split; [exact Hst|]. cbn [rs_segments rs_prev_objs rs_om].
    split; [reflexivity|]. split; [reflexivity|exact HI1]. }
  pose proof (fun p => apply_metadata_dq_values first st s st1 p Emeta) as Hv3.
  destruct (plain_part (data_objects_dq (dactive st1))) as [pobjs|] eqn:Epl.
  - (* ordinary data objects *)
    destruct (decode_data (fs_toc s) pobjs (fs_data s)) as [css|e] eqn:Edec; cbn [sbind] in Hseg; [|discriminate].
    injection Hseg as <-.
    pose proof (plain_part_spec _ _ Epl) as Hpl.
    assert (Hdop : data_objs mobjs = map dobj pobjs) by (rewrite Hdo, Hpl; apply map_gdobj_plain).
    assert (Hpnd : NoDup (map fst pobjs)) by (rewrite <- map_fst_inj_plain, <- Hpl; exact Hdnd).
    assert (Hpok : Forall (fun o => idx_ok0 (snd o)) pobjs).
    { apply Forall_forall. intros [p i] Hin. cbn [snd].
      assert (Hin' : In (p, GP i) (data_objects_dq (dactive st1))).
      { rewrite Hpl. apply in_map_iff. exists (p, i). split; [reflexivity|exact Hin]. }
      apply data_objects_dq_in in Hin'. exact (Hidxok p (GP i) (Hactlast p _ Hin')). }
    destruct (calculate_chunks_whole (fs_toc s) mobjs _ (blen (fs_data s)) (chunk_size_dobj mobjs pobjs Hdop)
                (SpecRefineMeta.chunk_bytes_nonneg _ Hpok) (blen_nonneg _) (decode_data_sizes _ _ _ _ Edec))
      as (nch & Hcc).
    destruct (Hstep nch Hcc) as (idx & rst' & po & Hst & Hsegs & Hpo & HI1).
    set (g := mkSeg pos (fs_toc s) (pos + 28 + blen (fs_meta_bytes s) + blen (fs_data s))
                    (pos + 28 + blen (fs_meta_bytes s)) false mobjs idx nch None) in *.
    destruct (decode_data_encodes_z g pobjs (fs_data s) css Hdop Hpnd Hpok Edec) as (cs & Henc & Hvals).
    pose proof (decoded_values_are_chunk_values pobjs css cs Hvals) as HF.
    exists mobjs, idx, rst', g, cs.
    split; [exact Hst|]. split.
    { rewrite Hpo. apply (GInv_same_meta false st1 (Some mobjs) po (rs_om rst') _ HI1).
      apply fold_add_chunk_dq_meta. }
    split; [exact Hsegs|]. split; [apply sctz_plain; exact Henc|]. split; [split; reflexivity|].
    intros p. cbn [dobjs]. apply (vstep_vals3 (dget (dobjs st1) p)); [exact (Hv3 p)|].
    assert (Hcnt : Z.of_nat (length (chan_values p cs)) = seg_total p g)
      by exact (seg_encodes_z_count g (fs_data s) cs p Henc Hcc).
    pose proof (seg_encodes_z_only_cdata g _ cs Henc) as Hcd.
    unfold dget. rewrite fold_add_chunk_dq_lookup, (HF p).
    destruct (alookup p (dobjs st1)) as [o1|] eqn:E1; cbn [option_map].
    + unfold vstep, grown. cbn [d_vals d_svals d_len]. split; [reflexivity|]. split; [|lia].
      intros id. rewrite (only_cdata_chan_scaler_values p id cs Hcd), app_nil_r. reflexivity.
    + (* p is not an object of the content: the chunks hold nothing under p *)
      assert (Hnil : chan_values p cs = []).
      { apply chan_values_no_key. intros c Hc Hin.
        apply in_map_iff in Hin. destruct Hin as (kv & Hkp & Hkv).
        destruct (seg_encodes_z_keys_data g _ cs Henc c kv Hc Hkv) as (o & Ho & Hp & _).
        cbn [g sg_objs] in Ho. rewrite Hdo in Ho. apply in_map_iff in Ho. destruct Ho as ([q i] & <- & Hin).
        apply (Hknown p); [|exact E1]. apply in_map_iff. exists (q, i). split; [|exact Hin].
        cbn [fst]. unfold gdobj in Hp. rewrite gmk_obj_path in Hp. cbn [fst] in Hp. congruence. }
      unfold vstep. rewrite Hnil in *. cbn [dcobj0 d_vals d_svals d_len zget app length] in *.
      split; [reflexivity|]. split; [|lia].
      intros id. rewrite (only_cdata_chan_scaler_values p id cs Hcd). reflexivity.
  - (* DAQmx data objects *)
    destruct (daq_part (data_objects_dq (dactive st1))) as [qobjs|] eqn:Edq; [|discriminate].
    destruct (q_layout_ok qobjs) eqn:Elay; cbn [negb] in Hseg; [|discriminate].
    destruct (q_nchunks (q_chunk (q_dims qobjs)) (blen (fs_data s))) as [m|e] eqn:Em; cbn [sbind] in Hseg; [|discriminate].
    injection Hseg as <-.
    pose proof (daq_part_spec _ _ Edq) as Hql.
    assert (Hdoq : data_objs mobjs = map qdobj qobjs) by (rewrite Hdo, Hql; apply map_gdobj_daq).
    assert (Hqnd : NoDup (map fst qobjs)) by (rewrite <- map_fst_inj_daq, <- Hql; exact Hdnd).
    assert (Hqne : qobjs <> []).
    { intros E. apply (plain_none_nonempty _ Epl). rewrite Hql, E. reflexivity. }
    assert (Hqok : Forall (fun o => gidx_ok (GQ (snd o))) qobjs).
    { apply Forall_forall. intros [p q] Hin. cbn [snd].
      assert (Hin' : In (p, GQ q) (data_objects_dq (dactive st1))).
      { rewrite Hql. apply in_map_iff. exists (p, q). split; [reflexivity|exact Hin]. }
      apply data_objects_dq_in in Hin'. exact (Hidxok p (GQ q) (Hactlast p _ Hin')). }
    (* the chunk count *)
    set (g0 := mkSeg 0 (fs_toc s) 0 0 false mobjs [] 0 None).
    destruct (q_layout_seg_ok g0 qobjs (fs_data s) m Hdoq Hqne Hqnd Hqok Elay Em) as [Hok0 Hm0].
    assert (Hdne : data_objs mobjs <> []) by (rewrite Hdoq; destruct qobjs; [contradiction|discriminate]).
    pose proof (chunk_size_daqmx mobjs Hdne (daqmx_seg_ok_consistent g0 _ Hok0)) as Hcs.
    destruct (daqmx_seg_ok_dims g0 _ Hok0) as [_ Hnn]. cbn [g0 sg_objs] in Hnn.
    destruct (calculate_chunks_whole (fs_toc s) mobjs _ (blen (fs_data s)) Hcs
                (DaqmxProofs.chunk_bytes_nonneg _ Hnn) (blen_nonneg _)) as (nch & Hcc).
    { pose proof Hok0 as (_ & _ & _ & _ & mm & Hmm & Hlen & Hz). cbn [g0 sg_objs] in Hlen, Hz.
      destruct (Z.eq_dec (DaqmxProofs.chunk_bytes (dims_spec (data_objs mobjs))) 0) as [E0|E0].
      - left. split; [exact E0|]. rewrite Hlen, (Hz E0). reflexivity.
      - right. split; [exact E0|]. rewrite Hlen. apply Z.mod_mul. exact E0. }
    destruct (Hstep nch Hcc) as (idx & rst' & po & Hst & Hsegs & Hpo & HI1).
    set (g := mkSeg pos (fs_toc s) (pos + 28 + blen (fs_meta_bytes s) + blen (fs_data s))
                    (pos + 28 + blen (fs_meta_bytes s)) false mobjs idx nch None) in *.
    assert (Hokg : daqmx_seg_ok g (fs_data s)) by exact Hok0.
    destruct (daqmx_seg_ok_nchunks g _ Hokg Hcc) as (_ & Hn0 & _ & Hdn). cbn [g sg_objs sg_nchunks] in Hdn, Hn0.
    assert (Hmn : m = Z.to_nat nch) by (rewrite <- Hdn; symmetry; exact Hm0).
    exists mobjs, idx, rst', g, (direct_chunks g (fs_data s)).
    split; [exact Hst|]. split.
    { rewrite Hpo. apply (GInv_same_meta false st1 (Some mobjs) po (rs_om rst') _ HI1).
      apply fold_add_daq_chunk_meta. }
    split; [exact Hsegs|]. split; [apply sctz_daqmx; exact Hokg|]. split; [split; reflexivity|].
    intros p. cbn [dobjs]. apply (vstep_vals3 (dget (dobjs st1) p)); [exact (Hv3 p)|].
    destruct (daqmx_seg_total g _ p Hokg Hcc) as (Htot & _ & _). cbn [g sg_objs sg_nchunks] in Htot.
    (* the chunks, as the specification enumerates them *)
    assert (Hcs_eq : direct_chunks g (fs_data s)
                     = map (direct_chunk (toc_endian (fs_toc s)) (map qdobj qobjs) (q_dims qobjs) (fs_data s)) (seq 0 m)).
    { unfold direct_chunks. cbn [g sg_objs sg_toc]. cbn [g0 sg_objs] in Hm0.
      rewrite Hm0, Hdoq, dims_spec_qdobj. reflexivity. }
    rewrite Hcs_eq, Htot, Hdoq.
    assert (Hkinds : Forall obj_kind_ok (map qdobj qobjs)).
    { rewrite <- Hdoq. exact (daqmx_seg_ok_kinds g _ Hokg). }
    assert (Hoff : forall p0 q s0, In (p0, q) qobjs -> In s0 (qi_scalers q) -> 0 <= sc_off s0).
    { intros p0 q s0 Hin Hs0.
      assert (Ho : In (qdobj (p0, q)) (data_objs (sg_objs g))).
      { cbn [g sg_objs]. rewrite Hdoq. apply in_map. exact Hin. }
      destruct (obj_nvals_nonneg g _ (qdobj (p0, q)) (dq_of q) s0 Hokg Ho eq_refl Hs0)
        as [(dt & sz & w & _ & _ & Hoff0 & _) _]. exact Hoff0. }
    unfold dget. rewrite (fold_add_daq_chunk_lookup (toc_endian (fs_toc s)) qobjs (fs_data s) Hqnd).
    destruct (alookup p qobjs) as [q|] eqn:Eq.
    + assert (Hin : In (p, q) qobjs) by (apply alookup_In; exact Eq).
      assert (Hpc : path_count p so_nvals (map qdobj qobjs) = qi_n q).
      { rewrite (path_count_unique p so_nvals _ (qdobj (p, q)));
          [reflexivity|rewrite map_so_path_qdobj; exact Hqnd|apply in_map; exact Hin|reflexivity]. }
      rewrite Hpc.
      destruct (alookup p (dobjs st1)) as [o1|] eqn:E1; cbn [option_map].
      * pose proof (fold_daq_grown_vstep (toc_endian (fs_toc s)) qobjs (fs_data s) Hqnd Hkinds Hoff p q Hin (seq 0 m) o1) as Hv.
        rewrite seq_length in Hv. replace (nch * qi_n q) with (Z.of_nat m * qi_n q) by (rewrite Hmn, (Z2Nat.id _ Hn0); reflexivity).
        exact Hv.
      * exfalso. apply (Hknown p); [|exact E1].
        rewrite Hql, map_fst_inj_daq. apply (in_map fst) in Hin. exact Hin.
    + destruct (daq_absent_all (toc_endian (fs_toc s)) qobjs (fs_data s) p (seq 0 m) Eq) as [Hv Hs].
      rewrite (path_count_absent p so_nvals (map qdobj qobjs)).
      2:{ intros o Ho Hp. apply in_map_iff in Ho. destruct Ho as ([k0 q] & <- & Hin).
          change (so_path (qdobj (k0, q))) with k0 in Hp. subst k0.
          apply (alookup_none_not_in _ _ Eq). apply (in_map fst) in Hin. exact Hin. }
      unfold vstep. rewrite Hv. split; [rewrite app_nil_r; reflexivity|]. split; [|lia].
      intros id. rewrite (Hs id), app_nil_r. reflexivity.
Qed.

(* ---- all segments ---------------------------------------------------------------------------- *)

Lemma sim_loop_dq : forall segs first st ps stF rst pos pi,
  GInv first st ps (rs_prev_objs rst) (rs_om rst) ->
  forallb seg_ok_dq segs = true -> forallb wf_fseg segs = true ->
  spec_segments_dq first st segs = SOk stF ->
  exists rstF gs chunkss psF firstF,
    sm_loop segs false pos ps pi rst = Ok rstF /\
    GInv firstF stF psF (rs_prev_objs rstF) (rs_om rstF) /\
    rs_segments rstF = rs_segments rst ++ gs /\
    segs_content_z gs segs chunkss /\
    Forall seg_plain gs /\
    (forall p, vstep (dget (dobjs st) p) (dget (dobjs stF) p) p (concat chunkss) (zsum (map (seg_total p) gs))).
Proof.
  induction segs as [|s segs IH]; intros first st ps stF rst pos pi HI Hok Hwf Hspec.
  - cbn [spec_segments_dq] in Hspec. injection Hspec as <-.
    exists rst, [], [], ps, first. split; [reflexivity|]. split; [exact HI|].
    split; [rewrite app_nil_r; reflexivity|]. split; [constructor|]. split; [constructor|].
    intros p. cbn [concat map zsum fold_right]. apply vstep_refl.
  - cbn [spec_segments_dq] in Hspec. cbn [forallb] in Hok. apply andb_prop in Hok. destruct Hok as [Hoks Hok].
    cbn [forallb] in Hwf. apply andb_prop in Hwf. destruct Hwf as [Hwfs Hwf].
    destruct (spec_segment_dq first st s) as [st1|e] eqn:Eseg; cbn [sbind] in Hspec; [|discriminate].
    rewrite sm_loop_cons.
    destruct (sim_step_dq first st ps s st1 rst pos pi
                          (fun o i st' => sm_loop segs false (pos + 28 + blen (fs_meta_bytes s) + blen (fs_data s)) o i st')
                          HI Hoks Hwfs Eseg)
      as (mobjs & idx & rst1 & g & cs & Hstep & HI1 & Hsegs1 & Hcon & Hplain & Hv1).
    rewrite Hstep.
    destruct (IH false st1 (Some mobjs) stF rst1 (pos + 28 + blen (fs_meta_bytes s) + blen (fs_data s)) idx HI1 Hok Hwf Hspec)
      as (rstF & gs & chunkss & psF & firstF & Hloop & HIF & HsegsF & HconF & HplainF & HvF).
    exists rstF, (g :: gs), (cs :: chunkss), psF, firstF.
    split; [exact Hloop|]. split; [exact HIF|].
    split; [rewrite HsegsF, Hsegs1, <- app_assoc; reflexivity|].
    split; [constructor; assumption|]. split; [constructor; assumption|].
    intros p. cbn [concat map zsum fold_right]. fold (zsum (map (seg_total p) gs)).
    exact (vstep_trans _ _ _ p _ _ _ _ (Hv1 p) (HvF p)).
Qed.

(* The metadata pass and the raw data, for the whole file. *)
Theorem spec_state_simulation_dq segs stF :
  wf_file segs -> spec_ok_dq segs ->
  spec_segments_dq true dstate0 segs = SOk stF ->
  exists rstF chunkss,
    sm_run segs false = Ok rstF /\
    segs_content_z (rs_segments rstF) segs chunkss /\
    Forall seg_plain (rs_segments rstF) /\
    Forall2 gom_rel0 (rs_om rstF) (dobjs stF) /\
    NoDup (map fst (dobjs stF)) /\
    (forall p o, alookup p (dobjs stF) = Some o ->
                 d_vals o = chan_values p (concat chunkss) /\
                 (forall id, zget id (d_svals o) = chan_scaler_values p id (concat chunkss)) /\
                 d_len o = zsum (map (seg_total p) (rs_segments rstF))) /\
    (forall p, gcdt (dobjs stF) p = None \/
               gcdt (dobjs stF) p = Some (option_map gi_dt (alookup p (dlast stF)))).
Proof.
  intros Hwf Hok Hspec. unfold sm_run.
  destruct (sim_loop_dq segs true dstate0 None stF rstate0 0 [] GInv_init Hok Hwf Hspec)
    as (rstF & gs & chunkss & psF & firstF & Hloop & HIF & Hsegs & Hcon & Hplain & Hv).
  cbn [rstate0 rs_segments app] in Hsegs.
  exists rstF, chunkss. rewrite Hsegs.
  split; [exact Hloop|]. split; [exact Hcon|]. split; [exact Hplain|].
  split; [exact (iv_om _ _ _ _ _ HIF)|]. split; [exact (iv_objs_nodup _ _ _ _ _ HIF)|].
  split; [|exact (iv_dtype _ _ _ _ _ HIF)].
  intros p o Ho. specialize (Hv p). unfold dget in Hv. rewrite Ho in Hv.
  cbn [dstate0 dobjs alookup dcobj0] in Hv. destruct Hv as (A & B & C).
  cbn [d_vals d_svals d_len zget app] in A, B, C.
  split; [exact A|]. split; [exact B|exact C].
Qed.

(* ---- the paths of the content are the listed paths -------------------------------------- *)

Record GCanon (st : dstate) : Prop := mkGCanon {
  gcn_act : canon_keys (dactive st);
  gcn_objs : canon_keys (dobjs st);
  gcn_last : forall p, In p (map fst (dlast st)) -> is_channel_path p = true }.

Lemma GCanon_init : GCanon dstate0.
Proof. constructor; intros p []. Qed.

Lemma GCanon_apply_entry st x st' :
  GCanon st -> entry_ok_dq x = true -> apply_entry_dq st x = SOk st' -> GCanon st'.
Proof.
  intros [Ha Ho Hl] Hok H. unfold entry_ok_dq in Hok. apply andb_prop in Hok. destruct Hok as [Hcan Hidx].
  unfold apply_entry_dq in H.
  destruct (e_idx x) as [| |lf dt dim n total|kind dt dim n scalers widths] eqn:Eidx.
  - injection H as <-. constructor; cbn [dactive dlast dobjs]; [|exact Ho|exact Hl].
    apply (canon_keys_aset (e_path x) None (dactive st) Hcan Ha).
  - destruct (get (e_path x) (dlast st)) as [i|].
    + injection H as <-. constructor; cbn [dactive dlast dobjs]; [|exact Ho|exact Hl].
      apply (canon_keys_aset (e_path x) (Some i) (dactive st) Hcan Ha).
    + destruct (get (e_path x) (dobjs st)); discriminate.
  - destruct (index_of dt dim n total) as [i|]; [|discriminate].
    destruct (type_ok st (e_path x) dt); [|discriminate].
    injection H as <-. constructor; cbn [dactive dlast dobjs]; [|exact Ho|].
    + apply (canon_keys_aset (e_path x) (Some (GP i)) (dactive st) Hcan Ha).
    + intros p Hp. apply (In_aset_keys p (e_path x) (GP i) (dlast st)) in Hp.
      destruct Hp as [->|Hp]; [|exact (Hl p Hp)]. exact Hidx.
  - destruct (dq_index_of kind dt dim n scalers widths) as [q|]; [|discriminate].
    destruct (type_ok st (e_path x) dt && types_ok st (e_path x) scalers); [|discriminate].
    injection H as <-. constructor; cbn [dactive dlast dobjs]; [|exact Ho|].
    + apply (canon_keys_aset (e_path x) (Some (GQ q)) (dactive st) Hcan Ha).
    + intros p Hp. apply (In_aset_keys p (e_path x) (GQ q) (dlast st)) in Hp.
      destruct Hp as [->|Hp]; [|exact (Hl p Hp)]. exact Hidx.
Qed.

Lemma GCanon_apply_entries : forall es st st',
  GCanon st -> forallb entry_ok_dq es = true -> apply_entries_dq st es = SOk st' -> GCanon st'.
Proof.
  induction es as [|x es IH]; intros st st' Hc Hok H; cbn [apply_entries_dq] in H.
  - injection H as <-. exact Hc.
  - cbn [forallb] in Hok. apply andb_prop in Hok. destruct Hok as [Hx Hok].
    destruct (apply_entry_dq st x) as [st1|e] eqn:E; cbn [sbind] in H; [|discriminate].
    exact (IH st1 st' (GCanon_apply_entry st x st1 Hc Hx E) Hok H).
Qed.

Lemma touch_dq_keys lst c q p : In p (map fst (touch_dq lst c q)) -> p = q \/ In p (map fst c).
Proof. rewrite touch_dq_eq. apply In_aset_keys. Qed.

Lemma fold_touch_dq_keys lst : forall ps c p,
  In p (map fst (fold_left (touch_dq lst) ps c)) -> In p ps \/ In p (map fst c).
Proof.
  induction ps as [|q ps IH]; intros c p H; cbn [fold_left] in H; [right; exact H|].
  destruct (IH _ _ H) as [Hin|Hin]; [left; right; exact Hin|].
  apply touch_dq_keys in Hin. destruct Hin as [->|Hin]; [left; left; reflexivity|right; exact Hin].
Qed.

Lemma set_props_dq_keys c x : map fst (set_props_dq c x) = map fst c.
Proof.
  rewrite set_props_dq_eq. destruct (alookup (e_path x) c) eqn:E; [|reflexivity].
  apply aset_keys_in. rewrite E. discriminate.
Qed.

Lemma fold_set_props_dq_keys : forall es c, map fst (fold_left set_props_dq es c) = map fst c.
Proof.
  induction es as [|x es IH]; intros c; cbn [fold_left]; [reflexivity|]. rewrite IH. apply set_props_dq_keys.
Qed.

Lemma GCanon_spec_segment first st s st' :
  GCanon st -> seg_ok_dq s = true -> spec_segment_dq first st s = SOk st' -> GCanon st'.
Proof.
  intros Hc Hok H. unfold spec_segment_dq in H.
  destruct (apply_metadata_dq first st s) as [st1|e] eqn:Emeta; cbn [sbind] in H; [|discriminate].
  assert (Hc1 : GCanon st1).
  { destruct (apply_metadata_dq_inv first st s st1 Emeta) as (ste & Hm & ->). cbn [dactive dlast dobjs].
    assert (Hce : GCanon ste).
    { unfold seg_ok_dq in Hok. destruct (fs_meta s) as [es|]; [|destruct Hm as [_ ->]; exact Hc].
      apply andb_prop in Hok. refine (GCanon_apply_entries es _ ste _ (proj2 Hok) Hm).
      destruct (toc_has (fs_toc s) TOC_NEWLIST); [|exact Hc].
      destruct Hc as [Ha Ho Hl]. constructor; cbn [dactive dlast dobjs]; [intros p []|exact Ho|exact Hl]. }
    destruct Hce as [Ha Ho Hl]. constructor; cbn [dactive dlast dobjs]; [exact Ha| |exact Hl].
    intros p Hp. rewrite fold_set_props_dq_keys in Hp.
    apply fold_touch_dq_keys in Hp. destruct Hp as [Hp|Hp]; [exact (Ha p Hp)|exact (Ho p Hp)]. }
  assert (Hkeys : forall c', Forall2 same_meta (dobjs st1) c' ->
                             GCanon (mkDstate (dactive st1) (dlast st1) c')).
  { intros c' Hsm. destruct Hc1 as [Ha Ho Hl]. constructor; cbn [dactive dlast dobjs]; [exact Ha| |exact Hl].
    intros p Hp. rewrite <- (rel_keys same_meta same_meta_key _ _ Hsm) in Hp. exact (Ho p Hp). }
  destruct (plain_part _) as [pobjs|].
  - destruct (decode_data _ _ _) as [css|e]; cbn [sbind] in H; [|discriminate]. injection H as <-.
    apply Hkeys. apply fold_add_chunk_dq_meta.
  - destruct (daq_part _) as [qobjs|]; [|discriminate].
    destruct (negb (q_layout_ok qobjs)); [discriminate|].
    destruct (q_nchunks _ _) as [m|e]; cbn [sbind] in H; [|discriminate]. injection H as <-.
    apply Hkeys. apply fold_add_daq_chunk_meta.
Qed.

Lemma GCanon_spec_segments : forall segs first st st',
  GCanon st -> forallb seg_ok_dq segs = true -> spec_segments_dq first st segs = SOk st' -> GCanon st'.
Proof.
  induction segs as [|s segs IH]; intros first st st' Hc Hok H; cbn [spec_segments_dq] in H.
  - injection H as <-. exact Hc.
  - cbn [forallb] in Hok. apply andb_prop in Hok. destruct Hok as [Hs Hok].
    destruct (spec_segment_dq first st s) as [st1|e] eqn:E; cbn [sbind] in H; [|discriminate].
    exact (IH false st1 st' (GCanon_spec_segment first st s st1 Hc Hs E) Hok H).
Qed.

(* ---- scale ids in ascending order: the model's insertion sort ------------------------------- *)

Lemma insert_sc_map (G : Z -> list bytes) (x : Z * Z) : forall l,
    insert_sc (fst x, G (fst x)) (map (fun kv => (fst kv, G (fst kv))) l)
    = map (fun kv => (fst kv, G (fst kv))) (insert_id x l).
Proof.
  induction l as [|y r IH]; [reflexivity|]. cbn [map insert_sc insert_id fst].
  destruct (fst x <=? fst y); [reflexivity|]. cbn [map]. rewrite IH. reflexivity.
Qed.

Lemma sort_sc_map (G : Z -> list bytes) : forall l,
    sort_sc (map (fun kv => (fst kv, G (fst kv))) l) = map (fun kv => (fst kv, G (fst kv))) (sort_ids l).
Proof.
  unfold sort_sc, sort_ids. induction l as [|x r IH]; [reflexivity|].
  cbn [map fold_right]. rewrite IH. apply (insert_sc_map G x).
Qed.

(* ---- the refinement theorem -------------------------------------------------------------- *)

Theorem reader_refines_spec_dq segs c :
  wf_file segs -> spec_ok_dq segs -> spec_meaning_dq segs = SOk c ->
  rd_all (ser_file segs) = Ok (spec_tokens_dq c, true).
Proof.
  intros Hwf Hok Hmean. unfold spec_ok_dq in Hok. unfold spec_meaning_dq in Hmean.
  destruct (spec_segments_dq true dstate0 segs) as [stF|e] eqn:Espec; cbn [sbind] in Hmean; [|discriminate].
  injection Hmean as <-.
  destruct (spec_state_simulation_dq segs stF Hwf Hok Espec)
    as (rstF & chunkss & Hrun & Hcon & Hplain & Hrel0 & Hnd & Hvals & Hdt).
  pose proof (GCanon_spec_segments segs true dstate0 stF GCanon_init Hok Espec) as [_ Hcan Hchan].
  pose proof (rel_keys gom_rel0 gom_rel0_key _ _ Hrel0) as Hkeys.
  assert (Hnd_om : NoDup (map fst (rs_om rstF))) by (rewrite Hkeys; exact Hnd).
  (* lengths *)
  assert (Hrel : Forall2 gom_rel (rs_om rstF) (dobjs stF)).
  { apply (Forall2_strengthen gom_rel0 gom_rel _ _ Hrel0).
    intros [p m] [q o] Hin1 Hin2 (Hk & Hp & Hd & Hs). cbn [fst snd] in *. subst q.
    unfold gom_rel. cbn [fst snd]. repeat split; try assumption.
    destruct (sm_run_trace segs false rstF Hrun) as (_ & Hlens & _).
    specialize (Hlens p). unfold get_ometa in Hlens. rewrite (alookup_in_nodup p m _ Hnd_om Hin1) in Hlens.
    destruct (Hvals p o (alookup_in_nodup p o _ Hnd Hin2)) as (_ & _ & Hl).
    unfold channel_len. rewrite Hl. exact Hlens. }
  assert (Hcanon_all : Forall (fun po => canonical_path (fst po) = true) (dobjs stF)).
  { apply Forall_forall. intros po Hin. apply Hcan. apply in_map. exact Hin. }
  destruct (hierarchy_refines_dq (rs_om rstF) (dobjs stF) Hrel Hnd Hcanon_all) as (h & Hh & Htok & _).
  assert (Hpc : om_paths_canonical (rs_om rstF)).
  { intros p m g ch Hin Hparse.
    assert (Hp : canonical_path p = true).
    { apply Hcan. rewrite <- Hkeys. apply (in_map fst) in Hin. exact Hin. }
    pose proof (canonical_path_from_string p Hp) as Hc.
    destruct (parse_path p) as [[|g' [|c' [|x r]]]|]; try contradiction.
    - destruct Hc as [_ Hc]. rewrite Hc in Hparse. discriminate.
    - destruct Hc as [Hc _]. rewrite Hc in Hparse. discriminate.
    - destruct Hc as [Hc Hs]. rewrite Hc in Hparse. injection Hparse as <- <-. exact Hs. }
  assert (Htc : typed_objects_are_channels (rs_om rstF)).
  { intros p m Hin Hty.
    pose proof (rel_alookup gom_rel0 gom_rel0_key p _ _ Hrel0) as Hlk.
    rewrite (alookup_in_nodup p m _ Hnd_om Hin) in Hlk.
    destruct (alookup p (dobjs stF)) as [o|] eqn:Eo; [|contradiction].
    destruct Hlk as (_ & _ & Hd & _). cbn [fst snd] in Hd.
    assert (Hl : alookup p (dlast stF) <> None).
    { destruct (Hdt p) as [H|H]; unfold gcdt in H; rewrite Eo in H; cbn [option_map] in H; [discriminate|].
      injection H as H. intros El. rewrite El in H. cbn [option_map] in H. rewrite <- Hd in H. contradiction. }
    assert (Hch : is_channel_path p = true).
    { apply Hchan. destruct (alookup p (dlast stF)) as [i|] eqn:El; [|contradiction Hl; reflexivity].
      exact (alookup_some_in_keys _ _ _ El). }
    assert (Hp : canonical_path p = true).
    { apply Hcan. rewrite <- Hkeys. apply (in_map fst) in Hin. exact Hin. }
    pose proof (canonical_path_from_string p Hp) as Hc. unfold is_channel_path in Hch.
    destruct (parse_path p) as [[|g' [|c' [|x r]]]|]; try discriminate.
    exists g', c'. exact (proj1 Hc). }
  rewrite (read_correct_daqmx_z segs rstF h chunkss Hwf Hrun Hh Hcon Hpc Htc). f_equal. f_equal.
  unfold expected_tokens_dq, spec_tokens_dq. cbn [dc_version dc_objs].
  rewrite (sm_run_version segs false rstF Hrun). f_equal.
  rewrite (obs_status_plain rstF Hplain). f_equal.
  apply Htok. intros g name p o Hin Hparse.
  destruct (Hvals p o (alookup_in_nodup p o _ Hnd Hin)) as (Hv & Hsv & _).
  unfold expected_data_dq, chan_of_dcobj, values_tokens_dq. cbn [ch_dtype ch_path ch_scalers].
  destruct (d_dtype o) as [dt|]; [|reflexivity].
  destruct (dt =? T_DAQMX).
  - destruct (d_types o) as [ts|]; [|reflexivity].
    cbn [obs_cdata]. rewrite map_length. f_equal. f_equal.
    rewrite (sort_sc_map (fun id => chan_scaler_values p id (concat chunkss)) ts).
    rewrite flat_map_map'. apply flat_map_ext. intros kv. cbn [fst snd].
    rewrite (Hsv (fst kv)). reflexivity.
  - cbn [obs_cdata]. rewrite Hv. reflexivity.
Qed.
