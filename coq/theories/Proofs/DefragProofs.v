(* The calls TdmsWriter.defragment issues (Model/Defrag.v) produce exactly one
   segment per object of the source content, in the content's order, with the
   object's properties, values and - when it holds at least one value - data
   type, and nothing else (no automatically inserted root or group objects). *)

From Coq Require Import List ZArith Bool Lia ZifyBool.
From Coq Require Import Init.Byte.
Import ListNotations.
From NpTdms Require Import Base.Bytes Base.Res Model.Tokens Model.TokensWf Model.ByteStr
  Model.StrictParse Model.Writer Model.Defrag Gen.PyFuncsWriter
  Proofs.TokensRoundtrip Proofs.ByteStrProofs Proofs.StrictParseProofs Proofs.WriterProofs.
Local Open Scope Z_scope.

(* List facts stated for abstract predicates.  They are used by rewriting: letting the
   kernel convert [forallb wf_obj (WChan ... :: _)] with its unfolding makes it normalise
   [wf_obj] of a constructor, which is very slow. *)
Lemma forallb_cons {A} (p : A -> bool) x l : forallb p (x :: l) = p x && forallb p l.
Proof. reflexivity. Qed.

Lemma forallb_single {A} (p : A -> bool) x : forallb p [x] = p x.
Proof. cbn [forallb]. apply andb_true_r. Qed.

Lemma forallb_singletons {A B} (p : B -> bool) (f : A -> B) l :
  forallb (forallb p) (map (fun x => [f x]) l) = forallb p (map f l).
Proof.
  induction l as [|x l IH]; [reflexivity|].
  cbn [map]. rewrite (forallb_cons (forallb p)), forallb_single, (forallb_cons p), IH. reflexivity.
Qed.

(* ---- the plan with its final state ---------------------------------------------------- *)

Fixpoint plan (v : Z) (st : wstate) (calls : list (list wobj)) : res (list segsyn * wstate) :=
  match calls with
  | [] => Ok ([], st)
  | objs :: r =>
    do '(sorted, st') <- wr_objects st objs;
    do s <- syntax_of_objs v sorted;
    do '(ss, st'') <- plan v st' r;
    Ok (s :: ss, st'')
  end.

Lemma plan_syntax v : forall calls st segs st',
  plan v st calls = Ok (segs, st') -> syntax_of_calls_from v st calls = Ok segs.
Proof.
  induction calls as [|objs r IH]; intros st segs st' H.
  - cbn in H. injection H as <- _. reflexivity.
  - cbn [plan] in H. cbn [syntax_of_calls_from].
    destruct (wr_objects st objs) as [[sorted st1]|e]; cbn [bind] in *; [|discriminate].
    destruct (syntax_of_objs v sorted) as [s|e]; cbn [bind] in *; [|discriminate].
    destruct (plan v st1 r) as [[ss st2]|e] eqn:Ep; cbn [bind] in H; [|discriminate].
    injection H as <- _. rewrite (IH st1 ss st2 Ep). reflexivity.
Qed.

Lemma plan_app v : forall a st b sa st1 sb st2,
  plan v st a = Ok (sa, st1) -> plan v st1 b = Ok (sb, st2) ->
  plan v st (a ++ b) = Ok (sa ++ sb, st2).
Proof.
  induction a as [|objs r IH]; intros st b sa st1 sb st2 Ha Hb.
  - cbn in Ha. injection Ha as <- <-. exact Hb.
  - cbn [plan app] in *.
    destruct (wr_objects st objs) as [[sorted st']|e]; cbn [bind] in *; [|discriminate].
    destruct (syntax_of_objs v sorted) as [s|e]; cbn [bind] in *; [|discriminate].
    destruct (plan v st' r) as [[ss st'']|e] eqn:Ep; cbn [bind] in Ha; [|discriminate].
    injection Ha as <- <-. rewrite (IH st' b ss st'' sb st2 Ep Hb). reflexivity.
Qed.

(* ---- a call with one object to which nothing is added ------------------------------------ *)

Lemma partition3_single o : partition3 [o] = [o].
Proof. destruct o; reflexivity. Qed.

Lemma wr_objects_single st o :
  pairs_of st [o] = [o] ->
  wr_objects st [o] =
  Ok ([o], mkW true (groups_written st ++ groups_included [o] ++ groups_to_add st [o])).
Proof.
  intros Hp. unfold wr_objects. fold (pairs_of st [o]). rewrite Hp, mapM_with_key. cbn [bind].
  rewrite sort_stable_partition, !(map_app snd), !map_snd_kf. fold (partition3 [o]).
  rewrite partition3_single. cbn [map has_dup bmem existsb orb]. reflexivity.
Qed.

Lemma pairs_root st ps : pairs_of st [WRoot ps] = [WRoot ps].
Proof.
  unfold pairs_of, groups_to_add, groups_required.
  cbn [existsb is_root orb negb flat_map app filter sorted_set fold_right map].
  rewrite andb_false_r. reflexivity.
Qed.

Lemma pairs_group st g ps : root_written st = true -> pairs_of st [WGroup g ps] = [WGroup g ps].
Proof.
  intros Hr. unfold pairs_of, groups_to_add, groups_required. rewrite Hr.
  cbn [existsb is_root orb negb andb flat_map app filter sorted_set fold_right map]. reflexivity.
Qed.

Lemma pairs_chan st g c dt vs ps :
  root_written st = true -> bmem g (groups_written st) = true ->
  pairs_of st [WChan g c dt vs ps] = [WChan g c dt vs ps].
Proof.
  intros Hr Hg. unfold pairs_of, groups_to_add, groups_required, groups_included. rewrite Hr.
  cbn [existsb is_root orb negb andb flat_map app filter]. rewrite Hg.
  cbn [negb andb sorted_set fold_right map app]. reflexivity.
Qed.

Definition view_of (o : wobj) : obj_view :=
  (obj_path o, idx_type (idx_of o), obj_props o, obj_values o).

Lemma syntax_single v o :
  wf_obj o = true -> exists s, syntax_of_objs v [o] = Ok s /\ seg_view s = [view_of o].
Proof.
  intros Hwf. unfold syntax_of_objs. rewrite mapM_wr_entry. cbn [bind map data_size].
  destruct (obj_data_size o) as [a|e] eqn:Ea.
  - cbn [bind]. eexists. split; [reflexivity|]. reflexivity.
  - exfalso. apply wf_obj_chan_part in Hwf.
    destruct o as [ps|g ps|g c dt vs ps]; cbn [obj_data_size] in Ea; try discriminate.
    unfold wf_chan_part in Hwf.
    apply andb_prop in Hwf. destruct Hwf as [Hwf _]. apply andb_prop in Hwf. destruct Hwf as [Hwf _].
    apply andb_prop in Hwf. destruct Hwf as [Hty _]. unfold chan_type_ok in Hty.
    destruct (dt =? T_VOID); [discriminate|]. destruct (dt =? T_STRING); [discriminate|].
    destruct (sized_type dt) as [k|] eqn:Ek; [|discriminate].
    rewrite (sized_tds_size dt k Ek) in Ea. discriminate.
Qed.

Lemma plan_single v st o :
  wf_obj o = true -> pairs_of st [o] = [o] ->
  exists s, plan v st [[o]] =
            Ok ([s], mkW true (groups_written st ++ groups_included [o] ++ groups_to_add st [o])) /\
            seg_view s = [view_of o].
Proof.
  intros Hwf Hp. destruct (syntax_single v o Hwf) as [s [Hs Hv]].
  exists s. split; [|exact Hv].
  cbn [plan]. rewrite (wr_objects_single st o Hp). cbn [bind]. rewrite Hs. cbn [bind]. reflexivity.
Qed.

(* ---- channels of one group, one group, all groups ------------------------------------------ *)

Lemma view_chan g ch : view_of (defrag_chan g ch) = chan_view g ch.
Proof.
  unfold view_of, chan_view, defrag_chan. cbn [obj_path obj_props obj_values idx_of].
  destruct (defrag_type (dc_type ch) (dc_vals ch) =? T_VOID); reflexivity.
Qed.

Lemma chans_plan v g : forall chs st,
  forallb wf_obj (map (defrag_chan g) chs) = true ->
  root_written st = true -> bmem g (groups_written st) = true ->
  exists segs st',
    plan v st (map (fun ch => [defrag_chan g ch]) chs) = Ok (segs, st') /\
    map seg_view segs = map (fun ch => [chan_view g ch]) chs /\
    root_written st' = true /\ bmem g (groups_written st') = true.
Proof.
  induction chs as [|ch r IH]; intros st Hwf Hr Hg.
  - exists [], st. repeat split; assumption.
  - rewrite map_cons, forallb_cons in Hwf. apply andb_prop in Hwf. destruct Hwf as [Hc Hwr].
    assert (Hp : pairs_of st [defrag_chan g ch] = [defrag_chan g ch])
      by (apply pairs_chan; assumption).
    destruct (plan_single v st _ Hc Hp) as [s [Hs Hv]].
    remember (mkW true (groups_written st ++ groups_included [defrag_chan g ch] ++
                        groups_to_add st [defrag_chan g ch])) as st1 eqn:Hst1.
    assert (Hr1 : root_written st1 = true) by (rewrite Hst1; reflexivity).
    assert (Hg1 : bmem g (groups_written st1) = true).
    { rewrite Hst1. cbn [groups_written]. rewrite bmem_app, Hg. reflexivity. }
    destruct (IH st1 Hwr Hr1 Hg1) as [segs [st' [Hpl [Hvs [Hr' Hg']]]]].
    exists (s :: segs), st'. split.
    + rewrite map_cons.
      apply (plan_app v [[defrag_chan g ch]] st _ [s] st1 segs st' Hs Hpl).
    + rewrite !map_cons, Hv, Hvs, view_chan. repeat split; assumption.
Qed.

Definition group_views (g : dgroup) : list (list obj_view) :=
  [(group_path (dg_name g), None, dg_props g, [])] ::
  map (fun ch => [chan_view (dg_name g) ch]) (dg_chans g).

Lemma group_plan v g st :
  forallb (forallb wf_obj) (defrag_group_calls g) = true ->
  root_written st = true ->
  exists segs st',
    plan v st (defrag_group_calls g) = Ok (segs, st') /\
    map seg_view segs = group_views g /\ root_written st' = true.
Proof.
  intros Hwf Hr. unfold defrag_group_calls in *.
  rewrite forallb_cons, forallb_single, forallb_singletons in Hwf.
  apply andb_prop in Hwf. destruct Hwf as [Hg Hchs].
  destruct (plan_single v st _ Hg (pairs_group st _ _ Hr)) as [s [Hs Hv]].
  remember (mkW true (groups_written st ++
                      groups_included [WGroup (dg_name g) (dg_props g)] ++
                      groups_to_add st [WGroup (dg_name g) (dg_props g)])) as st1 eqn:Hst1.
  assert (Hr1 : root_written st1 = true) by (rewrite Hst1; reflexivity).
  assert (Hg1 : bmem (dg_name g) (groups_written st1) = true).
  { rewrite Hst1. cbn [groups_written groups_included flat_map app]. rewrite !bmem_app.
    unfold bmem at 2. cbn [existsb]. rewrite bytes_eqb_refl. cbn [orb]. apply orb_true_r. }
  destruct (chans_plan v (dg_name g) (dg_chans g) st1 Hchs Hr1 Hg1)
    as [segs [st' [Hpl [Hvs [Hr' _]]]]].
  exists (s :: segs), st'. split; [|split; [|exact Hr']].
  - apply (plan_app v [[WGroup (dg_name g) (dg_props g)]] st _ [s] st1 segs st' Hs Hpl).
  - rewrite map_cons, Hv, Hvs. reflexivity.
Qed.

Lemma groups_plan v : forall gs st,
  forallb (forallb wf_obj) (flat_map defrag_group_calls gs) = true ->
  root_written st = true ->
  exists segs st',
    plan v st (flat_map defrag_group_calls gs) = Ok (segs, st') /\
    map seg_view segs = flat_map group_views gs.
Proof.
  induction gs as [|g r IH]; intros st Hwf Hr.
  - exists [], st. split; reflexivity.
  - cbn [flat_map] in *. rewrite forallb_app in Hwf. apply andb_prop in Hwf.
    destruct Hwf as [Hg Hrest].
    destruct (group_plan v g st Hg Hr) as [sa [st1 [Ha [Hva Hr1]]]].
    destruct (IH st1 Hrest Hr1) as [sb [st2 [Hb Hvb]]].
    exists (sa ++ sb), st2. split.
    + apply (plan_app v _ st _ sa st1 sb st2 Ha Hb).
    + rewrite map_app, Hva, Hvb. reflexivity.
Qed.

Theorem defrag_syntax v c :
  forallb (forallb wf_obj) (defrag_calls c) = true ->
  exists segs, syntax_of_calls v (defrag_calls c) = Ok segs /\
               map seg_view segs = defrag_expected c.
Proof.
  intros Hwf. unfold defrag_calls in *. rewrite forallb_cons, forallb_single in Hwf.
  apply andb_prop in Hwf. destruct Hwf as [Hroot Hgs].
  destruct (plan_single v w_init _ Hroot (pairs_root w_init _)) as [s [Hs Hv]].
  remember (mkW true (groups_written w_init ++ groups_included [WRoot (d_root_props c)] ++
                      groups_to_add w_init [WRoot (d_root_props c)])) as st1 eqn:Hst1.
  assert (Hr1 : root_written st1 = true) by (rewrite Hst1; reflexivity).
  destruct (groups_plan v (d_groups c) st1 Hgs Hr1) as [segs [st2 [Hp Hvs]]].
  exists (s :: segs). split.
  - unfold syntax_of_calls. apply (plan_syntax v _ w_init _ st2).
    apply (plan_app v [[WRoot (d_root_props c)]] w_init _ [s] st1 segs st2 Hs Hp).
  - rewrite map_cons, Hv, Hvs. unfold defrag_expected, group_views. reflexivity.
Qed.

(* wr_session is wr_file with one session *)
Lemma session_as_file v calls d i :
  wr_session v calls = Ok (d, i) -> wr_file [(v, calls)] = Ok (d, i).
Proof.
  intros H. unfold wr_file. cbn [wr_file_gen]. unfold wr_session in H. rewrite H. cbn [bind].
  rewrite !app_nil_r. reflexivity.
Qed.

Lemma syntax_file_single v calls segs :
  syntax_of_file [(v, calls)] = Ok segs -> syntax_of_calls v calls = Ok segs.
Proof.
  cbn [syntax_of_file]. destruct (syntax_of_calls v calls) as [a|e]; cbn [bind]; [|discriminate].
  rewrite app_nil_r. intros H. exact H.
Qed.

Theorem defrag_preserves_lemma : forall v c data index,
  wf_file [(v, defrag_calls c)] = true ->
  defrag v c = Ok (data, index) ->
  exists segs, strict_parse data = Some segs /\ map seg_view segs = defrag_expected c /\
               strip_raw_and_retag data = Some index.
Proof.
  intros v c data index Hwf Hd. unfold defrag in Hd.
  pose proof (session_as_file _ _ _ _ Hd) as Hf.
  destruct (writer_file_valid _ _ _ Hwf Hf) as [segs [Hs [Hp [_ [_ [_ [_ Hi]]]]]]].
  exists segs. split; [exact Hp|]. split; [|exact Hi].
  apply syntax_file_single in Hs.
  assert (Hobjs : forallb (forallb wf_obj) (defrag_calls c) = true).
  { unfold wf_file in Hwf. apply andb_prop in Hwf. destruct Hwf as [H _].
    rewrite forallb_single in H. exact H. }
  destruct (defrag_syntax v c Hobjs) as [segs' [Hs' Hv]].
  rewrite Hs in Hs'. injection Hs' as <-. exact Hv.
Qed.
