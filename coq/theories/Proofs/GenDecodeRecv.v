(* The receivers of nptdms/channel_data.py TRANSLATED from the source (Gen/PyFuncsDecode.v) against the receivers of
   Model/Reader.v (receiver0, receive): which receiver get_data_receiver builds for which channel, and that
   append_data stores the new values at the insert position -- the preallocated array seen up to the insert
   position is the model's growing value list. *)
From Coq Require Import String Ascii.
From Coq Require Import ZArith List Bool Lia ZifyBool.
From Coq Require Import Init.Byte.
Import ListNotations.
From NpTdms Require Import Base.Bytes Base.Res Base.PySlice Model.Tokens Model.SegState Model.Layout Model.Reader
     Gen.TypeTable Gen.PyFuncsReader Gen.PyFuncsDecode Proofs.LayoutProofs Proofs.DaqmxProofs Proofs.GenDecodeEquiv.
Local Open Scope Z_scope.
Ltac Zify.zify_post_hook ::= Z.to_euclidean_division_equations.

(* ---- what a receiver holds so far ------------------------------------------------------------------------------- *)

Definition items_canon (d : npdtype) (its : list bytes) : option (list bytes) :=
  match d with
  | DNum k w o => Some (map (np_canon_num k o) its)
  | DStruct fs => opt_all (map (ts_item_canon fs) its)
  end.

(* the first [pos] values of a preallocated array *)
Definition arr_values_upto (pos : Z) (a : nparr) : option (list bytes) :=
  items_canon (a_dtype a) (firstn (Z.to_nat pos) (items (dt_itemsize (a_dtype a)) (a_raw a))).

Lemma arr_values_items a : arr_values a = items_canon (a_dtype a) (items (dt_itemsize (a_dtype a)) (a_raw a)).
Proof. unfold arr_values, items_canon. destruct (a_dtype a); reflexivity. Qed.

Definition scaler_abs (sp : list (Z * Z)) (kv : Z * nparr) : option (Z * list bytes) :=
  match zlookup (fst kv) sp with
  | Some p => match arr_values_upto p (snd kv) with Some vs => Some (fst kv, vs) | None => None end
  | None => None
  end.

Definition recv_abs (r : receiver) : option cdata :=
  match r with
  | RList (_, data, _) => Some (CData data)
  | RNumpy (_, a, _, pos) => option_map CData (arr_values_upto pos a)
  | RDaqmx (_, sd, sp) => option_map CScalers (opt_all (map (scaler_abs sp) sd))
  | RTimestamp (_, _, a, _, pos) => option_map CData (arr_values_upto pos a)
  end.

Definition recv_opt_abs (o : option receiver) : option (option cdata) :=
  match o with None => Some None | Some r => option_map Some (recv_abs r) end.

Lemma upto_zero a : arr_values_upto 0 a = Some [].
Proof. unfold arr_values_upto. cbn [Z.to_nat firstn]. destruct (a_dtype a); reflexivity. Qed.

(* ---- get_data_receiver = receiver0 ----------------------------------------------------------------------------------- *)

Lemma new_numpy_array_eq d n mm : 0 <= n -> exists a, new_numpy_array_gen d n mm = Ok a.
Proof.
  intros Hn. unfold new_numpy_array_gen, np_memmap_new, np_zeros.
  assert (E : (n <? 0) = false) by lia. destruct mm; rewrite E; eexists; reflexivity.
Qed.

Lemma zlookup_zset_same {V} k (v : V) l : zlookup k (zset k v l) = Some v.
Proof.
  induction l as [|[k' v'] r IH]; cbn [zset zlookup]; [rewrite Z.eqb_refl; reflexivity|].
  destruct (k =? k') eqn:E; cbn [zlookup]; rewrite E; [reflexivity|exact IH].
Qed.

Lemma zlookup_zset_other {V} k k' (v : V) l : k <> k' -> zlookup k (zset k' v l) = zlookup k l.
Proof.
  intros Hne. induction l as [|[k2 v2] r IH]; cbn [zset zlookup].
  - destruct (k =? k') eqn:E; [lia|reflexivity].
  - destruct (k' =? k2) eqn:E2; cbn [zlookup].
    + assert (k' = k2) by lia. subst k2. destruct (k =? k') eqn:E; [lia|reflexivity].
    + destruct (k =? k2); [reflexivity|exact IH].
Qed.

Lemma zset_fresh {V} k (v : V) l : ~ In k (map fst l) -> zset k v l = l ++ [(k, v)].
Proof.
  induction l as [|[k' v'] r IH]; intros H; [reflexivity|]. cbn [zset map fst In app] in *.
  destruct (k =? k') eqn:E; [exfalso; apply H; left; lia|]. rewrite IH by (intros Hin; apply H; right; exact Hin). reflexivity.
Qed.

Lemma daqmx_init_loop n mm : 0 <= n -> forall st sd sp,
    Forall (fun kv => has_nptype (snd kv) = true) st -> NoDup (map fst sd ++ map fst st) -> map fst sp = map fst sd ->
    exists sd' sp', daqmx_receiver_init_gen_loop7 n mm st sd sp = Ok (sd', sp')
                    /\ map fst sd' = map fst sd ++ map fst st /\ map fst sp' = map fst sd'
                    /\ (forall k, In k (map fst st) -> zlookup k sp' = Some 0)
                    /\ (forall k, ~ In k (map fst st) -> zlookup k sp' = zlookup k sp).
Proof.
  intros Hn. induction st as [|[id ty] st IH]; intros sd sp Hnp Hnd Hkeys.
  - exists sd, sp. rewrite app_nil_r. repeat split; try assumption; try reflexivity. intros k [].
  - inversion Hnp as [|? ? Hty Hnp']; subst. cbn [snd fst map] in *.
    cbn [daqmx_receiver_init_gen_loop7].
    assert (Hd : exists d, dec_cls_nptype ty = Some d).
    { pose proof (dec_nptype_some ty) as H. rewrite Hty in H. destruct (dec_cls_nptype ty) as [d|]; [exists d; reflexivity|discriminate H]. }
    destruct Hd as [d Hd]. rewrite Hd. cbn [need bind].
    destruct (new_numpy_array_eq (Some d) n mm Hn) as [a Ha]. rewrite Ha. cbn [bind].
    assert (Hfresh : ~ In id (map fst sd)).
    { apply NoDup_remove_2 in Hnd. intros Hin. apply Hnd. apply in_or_app. left. exact Hin. }
    rewrite (zset_fresh id a sd Hfresh). rewrite (zset_fresh id 0 sp) by (rewrite Hkeys; exact Hfresh).
    destruct (IH (sd ++ [(id, a)]) (sp ++ [(id, 0)]) Hnp') as [sd' [sp' [Hl [Hk1 [Hk2 [Hz1 Hz2]]]]]].
    + rewrite map_app. cbn [map fst]. rewrite <- app_assoc. cbn [app].
      apply NoDup_remove_1 in Hnd as Hnd1. apply NoDup_remove_2 in Hnd as Hnd2.
      clear - Hnd1 Hnd2. revert Hnd1 Hnd2. generalize (map fst sd) (map fst st). intros l1 l2.
      induction l1 as [|x l1 IHl]; cbn [app]; intros H1 H2.
      * constructor; assumption.
      * inversion H1; subst. constructor.
        -- intros Hin. apply in_app_or in Hin. destruct Hin as [Hin|[->|Hin]].
           ++ apply H3. apply in_or_app. left. exact Hin.
           ++ apply H2. left. reflexivity.
           ++ apply H3. apply in_or_app. right. exact Hin.
        -- apply IHl; [assumption|]. intros Hin. apply H2. right. exact Hin.
    + rewrite !map_app. cbn [map fst]. rewrite Hkeys. reflexivity.
    + exists sd', sp'. split; [exact Hl|]. rewrite map_app in Hk1. cbn [map fst] in Hk1. rewrite <- app_assoc in Hk1.
      split; [exact Hk1|]. split; [exact Hk2|]. split.
      * intros k [<-|Hin]; [|apply Hz1; exact Hin].
        destruct (in_dec Z.eq_dec id (map fst st)) as [Hi|Hni]; [apply Hz1; exact Hi|].
        rewrite Hz2 by exact Hni. rewrite <- (zset_fresh id 0 sp) by (rewrite Hkeys; exact Hfresh). apply zlookup_zset_same.
      * intros k Hnin. rewrite Hz2 by (intros Hin; apply Hnin; right; exact Hin).
        rewrite <- (zset_fresh id 0 sp) by (rewrite Hkeys; exact Hfresh).
        apply zlookup_zset_other. intros ->. apply Hnin. left. reflexivity.
Qed.

(* the scalers of a DAQmx channel as the code may use them: distinct ids, types with a NumPy dtype *)
Definition scalers_ok (c : channel) : Prop :=
  forall st, ch_dtype c = Some T_DAQMX -> ch_scalers c = Some st ->
             Forall (fun kv => has_nptype (snd kv) = true) st /\ NoDup (map fst st).

Theorem get_data_receiver_eq c n raw mm :
  0 <= n -> scalers_ok c ->
  mapr recv_opt_abs (get_data_receiver_gen c n raw mm) = mapr (fun o => Some o) (receiver0 c).
Proof.
  intros Hn Hsc. unfold get_data_receiver_gen, receiver0.
  destruct (ch_dtype c) as [dt|] eqn:Hdt; cbn [is_none]; [|reflexivity].
  change dec_cls_DaqMxRawData with T_DAQMX. change dec_cls_TimeStamp with T_TIME.
  destruct (dt =? T_DAQMX) eqn:Edq.
  - assert (dt = T_DAQMX) by lia. subst dt. unfold daqmx_receiver_init_gen.
    destruct (ch_scalers c) as [st|] eqn:Hst; cbn [need bind mapr]; [|reflexivity].
    destruct (Hsc st Hdt Hst) as [Hnp Hnd].
    destruct (daqmx_init_loop n mm Hn st [] [] Hnp Hnd eq_refl) as [sd' [sp' [Hl [Hk1 [Hk2 [Hz1 _]]]]]].
    rewrite Hl. cbn [bind mapr recv_opt_abs recv_abs]. cbn [app] in Hk1.
    assert (Habs : opt_all (map (scaler_abs sp') sd') = Some (map (fun kv => (fst kv, [])) st)).
    { assert (Hgen : forall (sd : list (Z * nparr)) (st0 : list (Z * Z)), map fst sd = map fst st0 ->
                       (forall k, In k (map fst st0) -> zlookup k sp' = Some 0) ->
                       opt_all (map (scaler_abs sp') sd) = Some (map (fun kv => (fst kv, [])) st0)).
      { induction sd as [|[k a] sd IHsd]; intros [|[k0 t0] st0] Hm Hz; try discriminate; [reflexivity|].
        cbn [map fst] in Hm. injection Hm as -> Hm. cbn [map opt_all scaler_abs fst snd].
        unfold scaler_abs at 1. cbn [fst snd]. rewrite (Hz k0 (or_introl eq_refl)), upto_zero.
        rewrite (IHsd st0 Hm) by (intros k Hk; apply Hz; right; exact Hk). reflexivity. }
      apply Hgen; assumption. }
    rewrite Habs. reflexivity.
  - destruct (dt =? T_TIME) eqn:Et.
    + unfold timestamp_receiver_init_gen. destruct raw.
      * destruct (new_numpy_array_eq (Some (DNum "u" 1 LE)) (n * 16) mm ltac:(lia)) as [a Ha].
        assert (Hraw : blen (a_raw a) mod 16 = 0 /\ a_dtype a = DNum "u" 1 LE).
        { revert Ha. unfold new_numpy_array_gen, np_memmap_new, np_zeros. assert (E : (n * 16 <? 0) = false) by lia.
          destruct mm; rewrite E; cbn [bind]; intros [= <-]; cbn [a_raw a_dtype np_dtype_or_default dt_itemsize];
            (split; [|reflexivity]); rewrite Z.mul_1_r, blen_repeat by lia; apply Z.mod_mul; lia. }
        rewrite Ha. cbn [bind]. destruct Hraw as [Hm Hd].
        change (DStruct [("second_fractions"%string, ("u"%char, 8, LE)); ("seconds"%string, ("i"%char, 8, LE))]) with (ts_dtype LE).
        unfold np_set_dtype. change (dt_itemsize (ts_dtype LE)) with 16. cbn [Z.leb Z.compare].
        assert (E : (blen (a_raw a) mod 16 =? 0) = true) by lia. rewrite E. cbn [bind].
        unfold py_timestamp_array. cbn [a_dtype ts_dtype String.eqb Ascii.eqb Bool.eqb andb orb bind mapr recv_opt_abs recv_abs option_map]. rewrite upto_zero. reflexivity.
      * destruct (new_numpy_array_eq (Some (DNum "M" 8 LE)) n mm Hn) as [a Ha]. rewrite Ha.
        cbn [bind mapr recv_opt_abs recv_abs option_map]. rewrite upto_zero. reflexivity.
    + cbn [need bind]. destruct (dec_cls_nptype dt) as [d|] eqn:Hd; cbn [is_none].
      * unfold numpy_receiver_init_gen. rewrite Hdt. cbn [need bind]. rewrite Hd. cbn [need bind].
        destruct (new_numpy_array_eq (Some d) n mm Hn) as [a Ha]. rewrite Ha.
        cbn [bind mapr recv_opt_abs recv_abs option_map]. rewrite upto_zero. reflexivity.
      * unfold list_receiver_init_gen. rewrite Hdt.
        destruct (dt =? dec_cls_String); reflexivity.
Qed.

(* ---- ListDataReceiver.append_data ------------------------------------------------------------------------------------ *)

Theorem list_receiver_append_eq data new : list_receiver_append_data_gen data new = Ok (data ++ new).
Proof. reflexivity. Qed.

(* ---- arrays as lists of items ------------------------------------------------------------------------------------------ *)

Lemma take_nil n : take n [] = [].
Proof. rewrite take_firstn. apply firstn_nil. Qed.

Lemma drop_nil n : drop n [] = [].
Proof. rewrite drop_skipn. apply skipn_nil. Qed.

Lemma take_concat sz : 0 < sz -> forall (its : list bytes) (k : nat),
    Forall (fun it => blen it = sz) its -> take (Z.of_nat k * sz) (concat its) = concat (firstn k its).
Proof.
  intros Hsz. induction its as [|x r IH]; intros k Hall.
  - cbn [concat]. rewrite firstn_nil. apply take_nil.
  - inversion Hall as [|? ? Hx Hr]; subst. destruct k as [|k].
    + cbn [firstn concat Z.of_nat]. apply take_neg. lia.
    + cbn [firstn concat]. replace (Z.of_nat (S k) * blen x) with (blen x + Z.of_nat k * blen x) by lia.
      rewrite take_split by (first [apply blen_nonneg | apply Z.mul_nonneg_nonneg; lia]). rewrite take_app_exact, drop_app_exact. rewrite IH by exact Hr. reflexivity.
Qed.

Lemma drop_concat sz : 0 < sz -> forall (its : list bytes) (k : nat),
    Forall (fun it => blen it = sz) its -> drop (Z.of_nat k * sz) (concat its) = concat (skipn k its).
Proof.
  intros Hsz. induction its as [|x r IH]; intros k Hall.
  - cbn [concat]. rewrite skipn_nil. apply drop_nil.
  - inversion Hall as [|? ? Hx Hr]; subst. destruct k as [|k].
    + cbn [skipn Z.of_nat]. apply drop_neg. lia.
    + cbn [skipn concat]. replace (Z.of_nat (S k) * blen x) with (blen x + Z.of_nat k * blen x) by lia.
      rewrite <- drop_drop by (first [apply blen_nonneg | apply Z.mul_nonneg_nonneg; lia]). rewrite drop_app_exact. apply IH. exact Hr.
Qed.

Lemma items_all_sized sz raw : Forall (fun it => blen it = sz) (items sz raw).
Proof. apply Forall_forall. intros it H. apply (items_In sz raw it H). Qed.

Lemma concat_items sz : 0 < sz -> forall (n : nat) raw, (length raw <= n)%nat -> blen raw mod sz = 0 ->
    concat (items sz raw) = raw.
Proof.
  intros Hsz. induction n as [|n IH]; intros raw Hn Hm.
  - destruct raw; [reflexivity|cbn in Hn; lia].
  - destruct (Z_lt_le_dec (blen raw) sz) as [Hlt|Hge].
    + assert (blen raw = 0) by (pose proof (blen_nonneg raw); rewrite Z.mod_small in Hm by lia; exact Hm). destruct raw; [reflexivity|unfold blen in *; cbn in *; lia].
    + rewrite items_step by lia. cbn [concat].
      assert (Hd : blen (drop sz raw) = blen raw - sz) by (rewrite blen_drop by lia; lia).
      rewrite IH; [apply take_drop_id| unfold blen in *; lia |].
      rewrite Hd. replace (blen raw - sz) with (blen raw + (-1) * sz) by lia. rewrite Z.mod_add by lia. exact Hm.
Qed.

Fixpoint opt_concat_map (f : bytes -> option bytes) (g : bytes -> bytes) (l : list bytes) : Prop :=
  match l with [] => True | x :: r => f x = Some (g x) /\ opt_concat_map f g r end.

Lemma opt_concat_spec f g l : opt_concat_map f g l -> opt_concat (map f l) = Some (concat (map g l)).
Proof.
  induction l as [|x r IH]; intros H; [reflexivity|]. destruct H as [Hx Hr]. cbn [map opt_concat concat].
  rewrite Hx, (IH Hr). reflexivity.
Qed.

(* a[lo:lo+m] = v, item-wise *)
Lemma np_assign_slice_items da raw v (c : bytes -> bytes) (lo m : nat) :
  0 < dt_itemsize da -> blen raw mod dt_itemsize da = 0 ->
  (lo + m <= length (items (dt_itemsize da) raw))%nat ->
  length (items (dt_itemsize (a_dtype v)) (a_raw v)) = m ->
  opt_concat_map (np_store_item (a_dtype v) da) c (items (dt_itemsize (a_dtype v)) (a_raw v)) ->
  np_assign_slice (mkArr da raw) (Z.of_nat lo) (Z.of_nat lo + Z.of_nat m) v
  = Ok (mkArr da (concat (firstn lo (items (dt_itemsize da) raw)
                          ++ map c (items (dt_itemsize (a_dtype v)) (a_raw v))
                          ++ skipn (lo + m) (items (dt_itemsize da) raw)))).
Proof.
  intros Hsz Hmod Hb Hlen Hconv. set (sz := dt_itemsize da) in *. set (its := items sz raw) in *.
  set (vits := items (dt_itemsize (a_dtype v)) (a_raw v)) in *.
  assert (Hn : np_len (mkArr da raw) = Z.of_nat (length its)).
  { unfold np_len. cbn [a_dtype a_raw]. fold sz. destruct (sz <=? 0) eqn:E; [lia|]. symmetry. apply items_length. exact Hsz. }
  unfold np_assign_slice. rewrite Hn. cbn [a_dtype a_raw]. fold sz. fold vits.
  assert (Ha1 : adjust_index (Z.of_nat (length its)) (Z.of_nat lo) 1 = Z.of_nat lo).
  { unfold adjust_index. destruct (Z.of_nat lo <? 0) eqn:E; [lia|].
    destruct (Z.of_nat lo >=? Z.of_nat (length its)) eqn:E'; [|reflexivity]. cbn [Z.ltb Z.compare]. lia. }
  assert (Ha2 : adjust_index (Z.of_nat (length its)) (Z.of_nat lo + Z.of_nat m) 1 = Z.of_nat lo + Z.of_nat m).
  { unfold adjust_index. destruct (Z.of_nat lo + Z.of_nat m <? 0) eqn:E; [lia|].
    destruct (Z.of_nat lo + Z.of_nat m >=? Z.of_nat (length its)) eqn:E'; [|reflexivity]. cbn [Z.ltb Z.compare]. lia. }
  rewrite Ha1, Ha2. replace (Z.max 0 (Z.of_nat lo + Z.of_nat m - Z.of_nat lo)) with (Z.of_nat m) by lia.
  unfold zlen. rewrite Hlen, Z.eqb_refl. cbn [orb negb].
  rewrite (opt_concat_spec _ c vits Hconv).
  assert (Hraw : raw = concat its) by (symmetry; apply (concat_items sz Hsz (length raw)); [lia|exact Hmod]).
  rewrite Hraw at 1 2.
  rewrite (take_concat sz Hsz its lo (items_all_sized sz raw)).
  replace (Z.of_nat lo + Z.of_nat m) with (Z.of_nat (lo + m)) by lia.
  rewrite (drop_concat sz Hsz its (lo + m) (items_all_sized sz raw)).
  rewrite !concat_app. reflexivity.
Qed.

Lemma Forall_firstn' {A} (P : A -> Prop) : forall n (l : list A), Forall P l -> Forall P (firstn n l).
Proof.
  induction n as [|n IH]; intros l H; [constructor|]. destruct l as [|x r]; [constructor|].
  inversion H; subst. cbn [firstn]. constructor; [assumption|apply IH; assumption].
Qed.

Lemma Forall_skipn' {A} (P : A -> Prop) : forall n (l : list A), Forall P l -> Forall P (skipn n l).
Proof.
  induction n as [|n IH]; intros l H; [exact H|]. destruct l as [|x r]; [constructor|].
  inversion H; subst. cbn [skipn]. apply IH. assumption.
Qed.

Lemma np_canon_num_as_canon k o b : np_canon_num k o b = canon_value o (if ceq k "c" then T_C64 else 1) b.
Proof. unfold np_canon_num, canon_value. destruct o; [reflexivity|]. destruct (ceq k "c"); reflexivity. Qed.

Lemma np_canon_num_invol k o b : np_canon_num k o (np_canon_num k o b) = b.
Proof. rewrite !np_canon_num_as_canon. apply canon_value_involutive. Qed.

Lemma np_canon_num_blen k o b : blen (np_canon_num k o b) = blen b.
Proof. rewrite np_canon_num_as_canon. apply canon_value_blen. Qed.

(* ---- NumpyDataReceiver.append_data ---------------------------------------------------------------------------------------- *)

(* same width, same kind of item (complex or not): assignment keeps the value *)
Definition same_items (dv da : npdtype) : Prop :=
  match dv, da with
  | DNum ks ws _, DNum kd wd _ => ws = wd /\ ceq ks "c" = ceq kd "c" /\ 0 < wd
  | _, _ => False
  end.

Theorem numpy_receiver_append_eq path data pos new :
  same_items (a_dtype new) (a_dtype data) ->
  blen (a_raw data) mod dt_itemsize (a_dtype data) = 0 ->
  0 <= pos -> pos + np_len new <= np_len data ->
  exists data', numpy_receiver_append_data_gen path data pos new = Ok (data', pos + np_len new)
                /\ a_dtype data' = a_dtype data
                /\ blen (a_raw data') mod dt_itemsize (a_dtype data) = 0
                /\ np_len data' = np_len data
                /\ forall acc vs, arr_values_upto pos data = Some acc -> arr_values new = Some vs ->
                                  arr_values_upto (pos + np_len new) data' = Some (acc ++ vs).
Proof.
  destruct data as [da raw]. destruct new as [dv vraw]. cbn [a_dtype a_raw]. intros Hsame Hmod Hp Hb.
  destruct dv as [ks ws os|]; [|contradiction]. destruct da as [kd wd od|]; [|contradiction].
  destruct Hsame as [-> [Hc Hw]]. cbn [dt_itemsize] in *.
  set (its := items wd raw). set (vits := items wd vraw).
  assert (Hlv : np_len (mkArr (DNum ks wd os) vraw) = Z.of_nat (length vits)).
  { unfold np_len. cbn [a_dtype a_raw dt_itemsize]. destruct (wd <=? 0) eqn:E; [lia|]. symmetry. apply items_length. exact Hw. }
  assert (Hld : np_len (mkArr (DNum kd wd od) raw) = Z.of_nat (length its)).
  { unfold np_len. cbn [a_dtype a_raw dt_itemsize]. destruct (wd <=? 0) eqn:E; [lia|]. symmetry. apply items_length. exact Hw. }
  rewrite Hlv, Hld in *.
  set (c := fun it => np_canon_num kd od (np_canon_num ks os it)).
  assert (Hconv : opt_concat_map (np_store_item (DNum ks wd os) (DNum kd wd od)) c vits).
  { assert (Hst : forall it, np_store_item (DNum ks wd os) (DNum kd wd od) it = Some (c it)).
    { intros it. cbn [np_store_item]. unfold np_store_num. rewrite Z.eqb_refl, Hc.
      destruct (ceq kd "c"); reflexivity. }
    clear - Hst. generalize vits. induction vits0 as [|x r IHr]; [exact I|]. split; [apply Hst|exact IHr]. }
  assert (Hasg : np_assign_slice (mkArr (DNum kd wd od) raw) pos (pos + Z.of_nat (length vits)) (mkArr (DNum ks wd os) vraw)
                 = Ok (mkArr (DNum kd wd od) (concat (firstn (Z.to_nat pos) its ++ map c vits
                                                      ++ skipn (Z.to_nat pos + length vits) its)))).
  { replace pos with (Z.of_nat (Z.to_nat pos)) at 1 2 by lia.
    apply (np_assign_slice_items (DNum kd wd od) raw (mkArr (DNum ks wd os) vraw) c (Z.to_nat pos) (length vits));
      try assumption; try reflexivity. cbn [dt_itemsize a_dtype a_raw]. fold its. fold vits. lia. }
  unfold numpy_receiver_append_data_gen. rewrite Hlv, Hasg. cbn [bind].
  set (its' := firstn (Z.to_nat pos) its ++ map c vits ++ skipn (Z.to_nat pos + length vits) its).
  assert (Hall' : Forall (fun it => blen it = wd) its').
  { unfold its'. apply Forall_app. split; [apply Forall_firstn'; apply items_all_sized|]. apply Forall_app. split.
    - apply Forall_map. eapply Forall_impl; [|apply (items_all_sized wd vraw)]. intros it Hit. cbn beta. unfold c.
      rewrite !np_canon_num_blen. exact Hit.
    - apply Forall_skipn'. apply items_all_sized. }
  assert (Hit' : items wd (concat its') = its') by (apply items_roundtrip; assumption).
  assert (Hlen' : length its' = length its).
  { unfold its'. rewrite !app_length, map_length, firstn_length, skipn_length. lia. }
  eexists. split; [reflexivity|]. cbn [a_dtype a_raw dt_itemsize]. fold its'. split; [reflexivity|]. split.
  { rewrite (blen_concat_const wd its' Hall'). apply Z.mod_mul. lia. }
  split.
  { unfold np_len. cbn [a_dtype a_raw dt_itemsize]. destruct (wd <=? 0) eqn:E; [lia|].
    rewrite <- (items_length wd (concat its') Hw), Hit'. lia. }
  intros acc vs Hacc Hvs. unfold arr_values_upto in *. cbn [a_dtype a_raw dt_itemsize items_canon] in *. fold its in Hacc.
  rewrite Hit'. injection Hacc as <-. unfold arr_values in Hvs. cbn [a_dtype a_raw] in Hvs. fold vits in Hvs. injection Hvs as <-.
  f_equal. unfold its'.
  replace (Z.to_nat (pos + Z.of_nat (length vits))) with (length (firstn (Z.to_nat pos) its ++ map c vits))
    by (rewrite app_length, map_length, firstn_length; lia).
  rewrite app_assoc. rewrite firstn_app, firstn_all. rewrite Nat.sub_diag. cbn [firstn]. rewrite app_nil_r.
  rewrite map_app, map_map. f_equal. apply map_ext. intros it. unfold c.
  assert (Hk : np_canon_num kd od = np_canon_num ks od).
  { unfold np_canon_num. rewrite Hc. reflexivity. }
  rewrite np_canon_num_invol. reflexivity.
Qed.

(* ---- TimestampDataReceiver.append_data (raw timestamps) ---------------------------------------------------------------------- *)

Lemma ts_field_of e raw name off k :
  np_field_find name (match ts_dtype e with DStruct fs => fs | _ => [] end) 0 = Some (off, (k, 8, e)) ->
  np_field (mkArr (ts_dtype e) raw) name
  = Ok (mkArr (DNum k 8 e) (concat (map (fun it => take 8 (drop off it)) (items 16 raw)))).
Proof.
  intros H. unfold np_field. destruct e; cbn [ts_dtype a_dtype] in *; rewrite H; cbn [a_raw dt_itemsize fold_right fst snd Z.add];
    rewrite flat_map_concat_map; reflexivity.
Qed.

Lemma ts_itemsize e : dt_itemsize (ts_dtype e) = 16.
Proof. destruct e; reflexivity. Qed.

Lemma firstn_app_exact {A} (a b : list A) : firstn (length a) (a ++ b) = a.
Proof. rewrite firstn_app, Nat.sub_diag, firstn_all. cbn [firstn]. apply app_nil_r. Qed.

Lemma skipn_app_exact {A} (a b : list A) : skipn (length a) (a ++ b) = b.
Proof. rewrite skipn_app, Nat.sub_diag, skipn_all. reflexivity. Qed.

Lemma opt_all_total {A B} (f : A -> option B) (g : A -> B) (l : list A) :
  (forall a, f a = Some (g a)) -> opt_all (map f l) = Some (map g l).
Proof. intros H. apply opt_all_map. intros a _. apply H. Qed.

(* one field of a little-endian timestamp array assigned from an 8-byte column *)
Lemma ts_assign_field raw name off k ks os (col : list bytes) (lo : nat) :
  np_field_find name [("second_fractions"%string, ("u"%char, 8, LE)); ("seconds"%string, ("i"%char, 8, LE))] 0
  = Some (off, (k, 8, LE)) ->
  ceq ks "c" = false -> ceq k "c" = false ->
  blen raw mod 16 = 0 -> Forall (fun c => blen c = 8) col ->
  (lo + length col <= length (items 16 raw))%nat ->
  np_assign_field_slice (mkArr (ts_dtype LE) raw) name (Z.of_nat lo) (Z.of_nat lo + Z.of_nat (length col))
                        (mkArr (DNum ks 8 os) (concat col))
  = Ok (mkArr (ts_dtype LE)
              (concat (firstn lo (items 16 raw)
                       ++ map (np_set_field off 8)
                              (combine (firstn (length col) (skipn lo (items 16 raw))) (map (np_canon_num ks os) col))
                       ++ skipn (lo + length col) (items 16 raw)))).
Proof.
  intros Hf Hks Hk Hmod Hcol Hb. unfold np_assign_field_slice. cbn [a_dtype ts_dtype]. rewrite Hf.
  set (its := items 16 raw) in *.
  assert (Hn : np_len (mkArr (ts_dtype LE) raw) = Z.of_nat (length its)).
  { unfold np_len. cbn [a_dtype a_raw ts_dtype dt_itemsize fold_right fst snd Z.add Z.leb Z.compare]. symmetry. apply items_length. lia. }
  fold (ts_dtype LE). rewrite Hn. cbn [a_dtype a_raw dt_itemsize].
  change (dt_itemsize (ts_dtype LE)) with 16. fold its.
  assert (Ha1 : adjust_index (Z.of_nat (length its)) (Z.of_nat lo) 1 = Z.of_nat lo).
  { unfold adjust_index. destruct (Z.of_nat lo <? 0) eqn:E; [lia|].
    destruct (Z.of_nat lo >=? Z.of_nat (length its)) eqn:E'; [|reflexivity]. cbn [Z.ltb Z.compare]. lia. }
  assert (Ha2 : adjust_index (Z.of_nat (length its)) (Z.of_nat lo + Z.of_nat (length col)) 1 = Z.of_nat lo + Z.of_nat (length col)).
  { unfold adjust_index. destruct (Z.of_nat lo + Z.of_nat (length col) <? 0) eqn:E; [lia|].
    destruct (Z.of_nat lo + Z.of_nat (length col) >=? Z.of_nat (length its)) eqn:E'; [|reflexivity]. cbn [Z.ltb Z.compare]. lia. }
  rewrite Ha1, Ha2. replace (Z.max 0 (Z.of_nat lo + Z.of_nat (length col) - Z.of_nat lo)) with (Z.of_nat (length col)) by lia.
  rewrite (items_roundtrip 8 col) by (try lia; exact Hcol).
  unfold zlen. rewrite Z.eqb_refl. cbn [orb negb].
  rewrite (opt_all_total _ (fun it => np_canon_num k LE (np_canon_num ks os it))).
  2:{ intros it. cbn [np_store_item]. unfold np_store_num. rewrite Z.eqb_refl, Hks, Hk. reflexivity. }
  rewrite !Nat2Z.id. replace (Z.to_nat (Z.of_nat lo + Z.of_nat (length col))) with (lo + length col)%nat by lia.
  reflexivity.
Qed.

Lemma field8_blen (it : bytes) off : blen it = 16 -> 0 <= off -> off + 8 <= 16 -> blen (take 8 (drop off it)) = 8.
Proof. intros H1 H2 H3. rewrite blen_take by lia. rewrite blen_drop by lia. lia. Qed.

Lemma set_field_blen off (p : bytes * bytes) :
  blen (fst p) = 16 -> blen (snd p) = 8 -> 0 <= off -> off + 8 <= 16 -> blen (np_set_field off 8 p) = 16.
Proof.
  intros H1 H2 H3 H4. unfold np_set_field. rewrite !blen_app, blen_take, blen_drop by lia. lia.
Qed.

Lemma Forall_combine_in {A B} (P : A * B -> Prop) (a : list A) (b : list B) :
  (forall x y, In x a -> In y b -> P (x, y)) -> Forall P (combine a b).
Proof.
  intros H. apply Forall_forall. intros [x y] Hin. apply H; [exact (in_combine_l _ _ _ _ Hin)|exact (in_combine_r _ _ _ _ Hin)].
Qed.

(* the canonical form of an item of the receiver's array whose two fields were set *)
Lemma ts_item_after (b s f : bytes) :
  blen b = 16 -> blen s = 8 -> blen f = 8 ->
  ts_item_canon [("second_fractions"%string, ("u"%char, 8, LE)); ("seconds"%string, ("i"%char, 8, LE))]
                (np_set_field 0 8 (np_set_field 8 8 (b, s), f)) = Some (f ++ s).
Proof.
  intros Hb Hs Hf.
  assert (HY : np_set_field 0 8 (np_set_field 8 8 (b, s), f) = f ++ s).
  { unfold np_set_field. cbn [fst snd]. rewrite (take_neg 0) by lia. cbn [app].
    replace (0 + 8) with (blen (take 8 b)) by (rewrite blen_take by lia; lia).
    rewrite drop_app_exact. replace (8 + 8) with 16 by lia. rewrite (drop_all 16 b) by lia. rewrite app_nil_r. reflexivity. }
  rewrite HY. unfold ts_item_canon, struct_item_field.
  cbn [np_field_find String.eqb Ascii.eqb Bool.eqb fst snd Z.add np_canon_num].
  rewrite (drop_neg 0) by lia.
  assert (E1 : take 8 (f ++ s) = f) by (rewrite <- Hf; apply take_app_exact).
  assert (E2 : drop 8 (f ++ s) = s) by (rewrite <- Hf; apply drop_app_exact).
  change (0 + 8) with 8. rewrite E1, E2, (take_all 8 s) by lia. reflexivity.
Qed.

Theorem timestamp_receiver_append_eq asdt path e data pos new :
  a_dtype data = ts_dtype LE -> a_dtype new = ts_dtype e ->
  blen (a_raw data) mod 16 = 0 -> blen (a_raw new) mod 16 = 0 ->
  0 <= pos -> pos + np_len new <= np_len data ->
  exists data', timestamp_receiver_append_data_gen asdt path true data pos new = Ok (data', pos + np_len new)
                /\ a_dtype data' = ts_dtype LE /\ blen (a_raw data') mod 16 = 0 /\ np_len data' = np_len data
                /\ forall acc vs, arr_values_upto pos data = Some acc -> arr_values new = Some vs ->
                                  arr_values_upto (pos + np_len new) data' = Some (acc ++ vs).
Proof.
  destruct data as [da raw]. destruct new as [dv vraw]. cbn [a_dtype a_raw]. intros -> -> Hmod Hvmod Hp Hb.
  set (its := items 16 raw). set (vits := items 16 vraw).
  assert (Hlen16 : forall r, np_len (mkArr (ts_dtype LE) r) = Z.of_nat (length (items 16 r))
                             /\ np_len (mkArr (ts_dtype e) r) = Z.of_nat (length (items 16 r))).
  { intros r. unfold np_len. destruct e; cbn [a_dtype a_raw ts_dtype dt_itemsize fold_right fst snd Z.add Z.leb Z.compare];
      split; symmetry; apply items_length; lia. }
  destruct (Hlen16 raw) as [Hld _]. destruct (Hlen16 vraw) as [_ Hlv]. rewrite Hld, Hlv in *. fold its vits in Hb, Hld, Hlv.
  (* the two fields of the new data, by name, whatever their order in its dtype *)
  set (sec := fun it : bytes => take 8 (drop (match e with LE => 8 | BE => 0 end) it)).
  set (frc := fun it : bytes => take 8 (drop (match e with LE => 0 | BE => 8 end) it)).
  assert (Hsec : np_field (mkArr (ts_dtype e) vraw) "seconds" = Ok (mkArr (DNum "i" 8 e) (concat (map sec vits)))).
  { destruct e; apply ts_field_of; reflexivity. }
  assert (Hfrc : np_field (mkArr (ts_dtype e) vraw) "second_fractions" = Ok (mkArr (DNum "u" 8 e) (concat (map frc vits)))).
  { destruct e; apply ts_field_of; reflexivity. }
  assert (Hv16 : Forall (fun it => blen it = 16) vits) by apply items_all_sized.
  assert (Hi16 : Forall (fun it => blen it = 16) its) by apply items_all_sized.
  assert (Hsec8 : Forall (fun c => blen c = 8) (map sec vits)).
  { apply Forall_map. eapply Forall_impl; [|exact Hv16]. intros it H. cbn beta in H |- *. unfold sec. destruct e; apply field8_blen; lia. }
  assert (Hfrc8 : Forall (fun c => blen c = 8) (map frc vits)).
  { apply Forall_map. eapply Forall_impl; [|exact Hv16]. intros it H. cbn beta in H |- *. unfold frc. destruct e; apply field8_blen; lia. }
  set (lo := Z.to_nat pos). set (m := length vits).
  set (A := firstn lo its). set (B := firstn m (skipn lo its)). set (C := skipn (lo + m) its).
  assert (HlA : length A = lo) by (unfold A; rewrite firstn_length; lia).
  assert (HlB : length B = m) by (unfold B; rewrite firstn_length, skipn_length; lia).
  set (M1 := map (np_set_field 8 8) (combine B (map (np_canon_num "i" e) (map sec vits)))).
  assert (HlM1 : length M1 = m) by (unfold M1; rewrite map_length, combine_length, !map_length; lia).
  assert (HM1 : Forall (fun it => blen it = 16) M1).
  { unfold M1. apply Forall_map. apply Forall_combine_in. intros x y Hx Hy. apply set_field_blen; cbn [fst snd]; try lia.
    - assert (HB16 : Forall (fun it => blen it = 16) B) by (unfold B; apply Forall_firstn'; apply Forall_skipn'; exact Hi16).
      rewrite Forall_forall in HB16. apply HB16. exact Hx.
    - apply in_map_iff in Hy. destruct Hy as [c [<- Hc]]. rewrite np_canon_num_blen. rewrite Forall_forall in Hsec8. apply Hsec8. exact Hc. }
  set (its1 := A ++ M1 ++ C).
  assert (H1all : Forall (fun it => blen it = 16) its1).
  { unfold its1. apply Forall_app. split; [apply Forall_firstn'; exact Hi16|]. apply Forall_app. split; [exact HM1|apply Forall_skipn'; exact Hi16]. }
  assert (Hit1 : items 16 (concat its1) = its1) by (apply items_roundtrip; [lia|exact H1all]).
  assert (Hmod1 : blen (concat its1) mod 16 = 0) by (rewrite (blen_concat_const 16 its1 H1all); apply Z.mod_mul; lia).
  assert (F1 : firstn lo its1 = A) by (unfold its1; rewrite <- HlA; apply firstn_app_exact).
  assert (F2 : firstn m (skipn lo its1) = M1).
  { assert (Hs : skipn lo its1 = M1 ++ C) by (unfold its1; rewrite <- HlA; apply skipn_app_exact).
    rewrite Hs. rewrite <- HlM1. apply firstn_app_exact. }
  assert (F3 : skipn (lo + m) its1 = C).
  { replace (lo + m)%nat with (length (A ++ M1)) by (rewrite app_length; lia). unfold its1. rewrite app_assoc. apply skipn_app_exact. }
  set (M2 := map (np_set_field 0 8) (combine M1 (map (np_canon_num "u" e) (map frc vits)))).
  set (its2 := A ++ M2 ++ C).
  assert (Hstep1 : np_assign_field_slice (mkArr (ts_dtype LE) raw) "seconds" pos (pos + Z.of_nat m) (mkArr (DNum "i" 8 e) (concat (map sec vits)))
                   = Ok (mkArr (ts_dtype LE) (concat its1))).
  { replace pos with (Z.of_nat lo) by (unfold lo; lia). replace m with (length (map sec vits)) by (rewrite map_length; reflexivity).
    rewrite (ts_assign_field raw "seconds" 8 "i" "i" e (map sec vits) lo); try reflexivity; try assumption.
    - rewrite map_length. reflexivity.
    - rewrite map_length. fold its. unfold lo, m in *. lia. }
  assert (Hstep2 : np_assign_field_slice (mkArr (ts_dtype LE) (concat its1)) "second_fractions" pos (pos + Z.of_nat m)
                                         (mkArr (DNum "u" 8 e) (concat (map frc vits)))
                   = Ok (mkArr (ts_dtype LE) (concat its2))).
  { replace pos with (Z.of_nat lo) by (unfold lo; lia). replace m with (length (map frc vits)) by (rewrite map_length; reflexivity).
    rewrite (ts_assign_field (concat its1) "second_fractions" 0 "u" "u" e (map frc vits) lo); try reflexivity; try assumption.
    - rewrite map_length, Hit1. fold m. rewrite F1, F2, F3. reflexivity.
    - rewrite map_length, Hit1. unfold its1. rewrite !app_length. unfold C. rewrite skipn_length. fold m. unfold lo, m in *. lia. }
  unfold timestamp_receiver_append_data_gen. rewrite Hlv, Hsec. cbn [bind]. fold m. rewrite Hstep1. cbn [bind]. rewrite Hfrc. cbn [bind].
  rewrite Hstep2. cbn [bind].
  assert (HlM2 : length M2 = m) by (unfold M2; rewrite map_length, combine_length, !map_length; lia).
  assert (HM2 : Forall (fun it => blen it = 16) M2).
  { unfold M2. apply Forall_map. apply Forall_combine_in. intros x y Hx Hy. apply set_field_blen; cbn [fst snd]; try lia.
    - rewrite Forall_forall in HM1. apply HM1. exact Hx.
    - apply in_map_iff in Hy. destruct Hy as [c [<- Hc]]. rewrite np_canon_num_blen. rewrite Forall_forall in Hfrc8. apply Hfrc8. exact Hc. }
  assert (H2all : Forall (fun it => blen it = 16) its2).
  { unfold its2. apply Forall_app. split; [apply Forall_firstn'; exact Hi16|]. apply Forall_app. split; [exact HM2|apply Forall_skipn'; exact Hi16]. }
  assert (Hit2 : items 16 (concat its2) = its2) by (apply items_roundtrip; [lia|exact H2all]).
  eexists. split; [reflexivity|]. cbn [a_dtype a_raw]. split; [reflexivity|]. split.
  { rewrite (blen_concat_const 16 its2 H2all). apply Z.mod_mul. lia. }
  split.
  { destruct (Hlen16 (concat its2)) as [-> _]. rewrite Hit2. unfold its2. rewrite !app_length, HlA, HlM2. unfold C. rewrite skipn_length. fold its. unfold lo, m in *. lia. }
  intros acc vs Hacc Hvs. unfold arr_values_upto in *. cbn [a_dtype a_raw] in *. change (dt_itemsize (ts_dtype LE)) with 16 in *.
  rewrite Hit2. fold its in Hacc. fold lo in Hacc. fold A in Hacc.
  assert (Hfirst : firstn (Z.to_nat (pos + Z.of_nat (length vits))) its2 = A ++ M2).
  { replace (Z.to_nat (pos + Z.of_nat (length vits))) with (length (A ++ M2))
      by (rewrite app_length, HlA, HlM2; unfold lo, m; lia).
    unfold its2. rewrite app_assoc. apply firstn_app_exact. }
  fold vits. unfold m in *. rewrite Hfirst.
  cbn [ts_dtype items_canon] in *. rewrite map_app.
  (* the new items, one by one *)
  assert (HM2c : opt_all (map (ts_item_canon [("second_fractions"%string, ("u"%char, 8, LE)); ("seconds"%string, ("i"%char, 8, LE))]) M2)
                 = Some vs).
  { rewrite arr_values_items in Hvs. cbn [a_dtype a_raw] in Hvs. rewrite ts_itemsize in Hvs. fold vits in Hvs.
    unfold M2, M1. clear - Hvs Hv16 Hi16 HlB sec frc. try unfold m in HlB.
    assert (HB16 : Forall (fun it => blen it = 16) B).
    { unfold B. apply Forall_firstn'. apply Forall_skipn'. exact Hi16. }
    clear Hi16. clearbody B vits. revert B HlB HB16 vs Hvs. induction vits as [|v vr IHv]; intros B HlB HB16 vs Hvs.
    - destruct B; [|discriminate]. cbn in Hvs. destruct e; cbn in Hvs; injection Hvs as <-; reflexivity.
    - destruct B as [|b Br]; [discriminate|]. inversion Hv16 as [|? ? Hv Hvr]; subst. inversion HB16 as [|? ? Hb16 HBr]; subst.
      cbn [map combine opt_all].
      assert (Hs8 : blen (sec v) = 8) by (unfold sec; destruct e; apply field8_blen; lia).
      assert (Hf8 : blen (frc v) = 8) by (unfold frc; destruct e; apply field8_blen; lia).
      rewrite ts_item_after by (try rewrite np_canon_num_blen; assumption).
      assert (Hone : items_canon (ts_dtype e) [v] = Some [np_canon_num "u" e (frc v) ++ np_canon_num "i" e (sec v)]).
      { unfold sec, frc. destruct e; cbn; rewrite ?(drop_neg 0) by lia; reflexivity. }
      assert (Hsplit : exists vs', items_canon (ts_dtype e) vr = Some vs'
                                   /\ vs = (np_canon_num "u" e (frc v) ++ np_canon_num "i" e (sec v)) :: vs').
      { revert Hvs Hone. unfold items_canon. destruct e; cbn [ts_dtype map opt_all];
          (destruct (ts_item_canon _ v) as [x|]; [|discriminate]);
          (match goal with |- context [opt_all (map ?f vr)] => destruct (opt_all (map f vr)) as [xs|] end; [|discriminate]);
          intros [= <-] [= ->]; eexists; split; reflexivity. }
      destruct Hsplit as [vs' [Hvs' ->]].
      rewrite (IHv Hvr Br ltac:(cbn in HlB; lia) HBr vs' Hvs'). reflexivity. }
  destruct (opt_all (map (ts_item_canon _) A)) as [accA|] eqn:HA; [|discriminate]. injection Hacc as <-.
  clear - HA HM2c. revert accA HA. induction A as [|a Ar IHA]; intros accA HA.
  - cbn in HA. injection HA as <-. cbn [app map]. exact HM2c.
  - cbn [map opt_all app] in *. destruct (ts_item_canon _ a) as [x|]; [|discriminate].
    destruct (opt_all (map _ Ar)) as [xs|] eqn:HAr; [|discriminate]. injection HA as <-.
    rewrite (IHA xs eq_refl). reflexivity.
Qed.
