(* Raw data decoders of Model/Layout.v invert the raw data encoders defined
   here (C01 layer 5, C15 value layer): value canonicalisation is an
   involution, fixed-size values, strings (offset table + bytes), contiguous
   chunks and chunk sequences, interleaved rows.  The ENCODERS are
   specification-side definitions (the models under Model/ are fixed). *)

From Coq Require Import List ZArith Bool Lia ZifyBool.
From Coq Require Import Init.Byte.
From Coq Require String.
Import ListNotations.
From NpTdms Require Import Base.Bytes Base.Res Model.Tokens Model.TokensWf Model.SegState Model.Layout
     Proofs.TokensRoundtrip Proofs.SegStateProofs.
Local Open Scope Z_scope.

Ltac Zify.zify_post_hook ::= Z.to_euclidean_division_equations.

(* ---- L1: canon_value is a length preserving involution ---------------------- *)

Lemma canon_value_length e ty v : length (canon_value e ty v) = length v.
Proof.
  unfold canon_value. destruct e; [reflexivity|].
  destruct ((ty =? T_C64) || (ty =? T_C128)).
  - rewrite app_length, !rev_length, <- app_length, firstn_skipn. reflexivity.
  - apply rev_length.
Qed.

Lemma canon_value_blen e ty v : blen (canon_value e ty v) = blen v.
Proof. unfold blen. rewrite canon_value_length. reflexivity. Qed.

Lemma store_value_blen e ty v : blen (store_value e ty v) = blen v.
Proof. apply canon_value_blen. Qed.

(* No size hypothesis is needed: for the complex types the split point is
   floor(len / 2) on both passes, and both halves keep their lengths. *)
Theorem canon_value_involutive e ty v : canon_value e ty (canon_value e ty v) = v.
Proof.
  destruct e; [reflexivity|].
  pose proof (canon_value_blen BE ty v) as Hlen.
  unfold canon_value in *.
  destruct ((ty =? T_C64) || (ty =? T_C128)) eqn:E.
  - rewrite Hlen. set (h := Z.to_nat (blen v / 2)).
    assert (Hh : (h <= length v)%nat) by (subst h; unfold blen; lia).
    assert (L1 : length (rev (firstn h v)) = h) by (rewrite rev_length, firstn_length; lia).
    rewrite firstn_app, skipn_app, L1, Nat.sub_diag.
    rewrite (firstn_all2 (rev (firstn h v))) by lia.
    rewrite (skipn_all2 (rev (firstn h v))) by lia.
    cbn [firstn skipn app]. rewrite app_nil_r, !rev_involutive. apply firstn_skipn.
  - apply rev_involutive.
Qed.

Corollary store_then_canon e ty v : canon_value e ty (store_value e ty v) = v.
Proof. apply canon_value_involutive. Qed.

Corollary canon_then_store e ty v : store_value e ty (canon_value e ty v) = v.
Proof. apply canon_value_involutive. Qed.

Lemma canon_value_LE ty v : canon_value LE ty v = v.
Proof. reflexivity. Qed.

(* the meaning of stored bytes does not depend on the byte order they were stored in *)
Corollary canon_store_any_endian e e' ty v :
  canon_value e ty (store_value e ty v) = canon_value e' ty (store_value e' ty v).
Proof. rewrite !store_then_canon. reflexivity. Qed.

Section Ex1.
Import String.
Local Open Scope string_scope.
Example canon_value_c64_example :
  canon_value BE T_C64 (hex "0102030405060708") = hex "0403020108070605" /\
  canon_value BE T_C64 (canon_value BE T_C64 (hex "0102030405060708")) = hex "0102030405060708" /\
  canon_value BE T_TIME (hex "000102030405060708090a0b0c0d0e0f") = hex "0f0e0d0c0b0a09080706050403020100".
Proof. vm_compute. repeat split. Qed.
End Ex1.

(* ---- sizes ---------------------------------------------------------------- *)

Lemma tds_size_pos dt sz : tds_size dt = Some (Some sz) -> 0 < sz.
Proof.
  unfold tds_size. intros H.
  repeat match type of H with
         | context [if ?c then _ else _] => destruct c
         end; inversion H; lia.
Qed.

Lemma blen_concat_const sz (vs : list bytes) :
  Forall (fun v => blen v = sz) vs -> blen (concat vs) = Z.of_nat (length vs) * sz.
Proof.
  induction 1 as [|v vs Hv _ IH]; [reflexivity|].
  cbn [concat length]. rewrite blen_app, IH, Hv. lia.
Qed.

(* ---- L2: fixed-size values -------------------------------------------------- *)

Definition enc_values (e : endian) (dt : Z) (vs : list bytes) : bytes :=
  flat_map (store_value e dt) vs.

Lemma items_of_concat sz : 0 < sz -> forall vs tail fuel,
    Forall (fun v => blen v = sz) vs -> blen tail < sz -> (length vs <= fuel)%nat ->
    items_of fuel sz (concat vs ++ tail) = vs.
Proof.
  intros Hsz vs. induction vs as [|v vs IH]; intros tail fuel Hvs Htail Hfuel.
  - cbn [concat app]. destruct fuel as [|f]; [reflexivity|]. cbn [items_of].
    replace (blen tail <? sz) with true by lia. reflexivity.
  - inversion Hvs as [|v' vs' Hv Hvs']; subst v' vs'.
    destruct fuel as [|f]; [cbn [length] in Hfuel; lia|].
    cbn [items_of concat]. rewrite <- app_assoc.
    pose proof (blen_nonneg (concat vs ++ tail)) as Hnn.
    replace ((blen (v ++ concat vs ++ tail) <? sz) || (sz <=? 0)) with false
      by (rewrite blen_app; lia).
    assert (Et : take sz (v ++ concat vs ++ tail) = v) by (rewrite <- Hv; apply take_app_exact).
    assert (Ed : drop sz (v ++ concat vs ++ tail) = concat vs ++ tail)
      by (rewrite <- Hv; apply drop_app_exact).
    rewrite Et, Ed.
    rewrite IH; [reflexivity|assumption|assumption|cbn [length] in Hfuel; lia].
Qed.

(* complete items, trailing incomplete bytes dropped (buffer[:rounded_bytes]) *)
Theorem items_roundtrip_tail sz vs tail :
  0 < sz -> Forall (fun v => blen v = sz) vs -> blen tail < sz ->
  items sz (concat vs ++ tail) = vs.
Proof.
  intros Hsz Hvs Htail. unfold items. apply items_of_concat; try assumption.
  rewrite app_length. pose proof (blen_concat_const sz vs Hvs) as Hc. unfold blen in Hc. nia.
Qed.

Theorem items_roundtrip sz vs :
  0 < sz -> Forall (fun v => blen v = sz) vs -> items sz (concat vs) = vs.
Proof.
  intros Hsz Hvs. rewrite <- (app_nil_r (concat vs)).
  apply items_roundtrip_tail; assumption.
Qed.

Corollary items_roundtrip_flat_map sz vs :
  0 < sz -> Forall (fun v => blen v = sz) vs -> items sz (flat_map id vs) = vs.
Proof.
  intros Hsz Hvs. rewrite flat_map_concat_map, map_id. apply items_roundtrip; assumption.
Qed.

Lemma enc_values_blen e dt sz vs :
  Forall (fun v => blen v = sz) vs -> blen (enc_values e dt vs) = Z.of_nat (length vs) * sz.
Proof.
  intros Hvs. unfold enc_values. rewrite flat_map_concat_map.
  rewrite (blen_concat_const sz); [rewrite map_length; reflexivity|].
  apply Forall_map. eapply Forall_impl; [|exact Hvs].
  intros v Hv. cbn beta. rewrite store_value_blen. exact Hv.
Qed.

Lemma items_enc_values e dt sz vs :
  0 < sz -> Forall (fun v => blen v = sz) vs ->
  map (canon_value e dt) (items sz (enc_values e dt vs)) = vs.
Proof.
  intros Hsz Hvs. unfold enc_values. rewrite flat_map_concat_map, items_roundtrip.
  - rewrite map_map. rewrite <- (map_id vs) at 2. apply map_ext.
    intros v. apply store_then_canon.
  - exact Hsz.
  - apply Forall_map. eapply Forall_impl; [|exact Hvs].
    intros v Hv. cbn beta. rewrite store_value_blen. exact Hv.
Qed.

(* Every type with a size: the NumPy types (integers, floats, bool, complex)
   and TimeStamp (size 16, the reshape((-1, 16)) check passes). *)
Theorem read_values_fixed_roundtrip e o dt sz vs rest :
  so_dtype o = Some dt -> tds_size dt = Some (Some sz) ->
  Forall (fun v => blen v = sz) vs ->
  read_values e o (Z.of_nat (length vs)) (enc_values e dt vs ++ rest) = Ok (vs, rest).
Proof.
  intros Hdt Hsz Hvs. pose proof (tds_size_pos dt sz Hsz) as Hpos.
  pose proof (enc_values_blen e dt sz vs Hvs) as Hlen.
  unfold read_values. rewrite Hdt, Hsz. rewrite <- Hlen, get_raw_app.
  rewrite items_enc_values by assumption.
  destruct (has_nptype dt); [reflexivity|].
  replace (blen (enc_values e dt vs) mod sz =? 0) with true; [reflexivity|].
  rewrite Hlen, Z.mod_mul by lia. reflexivity.
Qed.

Corollary read_values_nptype_roundtrip e o dt sz vs rest :
  so_dtype o = Some dt -> has_nptype dt = true -> tds_size dt = Some (Some sz) ->
  Forall (fun v => blen v = sz) vs ->
  read_values e o (Z.of_nat (length vs)) (enc_values e dt vs ++ rest) = Ok (vs, rest).
Proof. intros Hdt _. apply read_values_fixed_roundtrip. exact Hdt. Qed.

Corollary read_values_timestamp_roundtrip e o vs rest :
  so_dtype o = Some T_TIME ->
  Forall (fun v => blen v = 16) vs ->
  read_values e o (Z.of_nat (length vs)) (enc_values e T_TIME vs ++ rest) = Ok (vs, rest).
Proof. intros Hdt. apply read_values_fixed_roundtrip; [exact Hdt|reflexivity]. Qed.

Section Ex2.
Import String.
Local Open Scope string_scope.
Example read_values_fixed_example :
  let o := mkSobj (hex "2f27") true 2 16 (Some T_C64) None in
  let vs := [hex "0102030405060708"; hex "1112131415161718"] in
  enc_values BE T_C64 vs = hex "04030201080706051413121118171615" /\
  read_values BE o 2 (enc_values BE T_C64 vs ++ hex "ffee")%list = Ok (vs, hex "ffee").
Proof. vm_compute. split; reflexivity. Qed.
End Ex2.

(* ---- L3: strings ------------------------------------------------------------ *)

(* running end offsets of the strings, starting after [prev] bytes *)
Fixpoint end_offsets (prev : Z) (ss : list bytes) : list Z :=
  match ss with
  | [] => []
  | s :: r => (prev + blen s) :: end_offsets (prev + blen s) r
  end.

Definition enc_strings (e : endian) (ss : list bytes) : bytes :=
  flat_map (put_u32 e) (end_offsets 0 ss) ++ concat ss.

Lemma end_offsets_length prev ss : length (end_offsets prev ss) = length ss.
Proof. revert prev. induction ss as [|s r IH]; intros prev; cbn; [reflexivity|]. rewrite IH. reflexivity. Qed.

Lemma zsum_blen_nonneg (ss : list bytes) : 0 <= zsum (map blen ss).
Proof.
  induction ss as [|s r IH]; cbn; [lia|]. pose proof (blen_nonneg s). unfold zsum in IH. lia.
Qed.

Lemma end_offsets_u32 ss : forall prev,
    0 <= prev -> prev + zsum (map blen ss) < 4294967296 ->
    forallb is_u32 (end_offsets prev ss) = true.
Proof.
  induction ss as [|s r IH]; intros prev Hp Hs; [reflexivity|].
  cbn [end_offsets forallb]. cbn [map zsum fold_right] in Hs. fold (zsum (map blen r)) in Hs.
  pose proof (blen_nonneg s) as Hb. pose proof (zsum_blen_nonneg r) as Hr.
  rewrite IH by lia. unfold is_u32. lia.
Qed.

Lemma read_strings_concat ss : forall prev rest,
    read_strings (end_offsets prev ss) prev (concat ss ++ rest) = (ss, rest).
Proof.
  induction ss as [|s r IH]; intros prev rest; [reflexivity|].
  cbn [end_offsets read_strings concat].
  replace (prev + blen s - prev) with (blen s) by lia.
  pose proof (blen_nonneg s) as Hb.
  destruct (blen s <? 0) eqn:E; [lia|].
  rewrite <- app_assoc, get_raw_app, IH. reflexivity.
Qed.

Lemma parse_offsets_roundtrip e (offs : list Z) rest :
  forallb is_u32 offs = true ->
  parse_n (get_u32 e) (Z.of_nat (length offs)) (flat_map (put_u32 e) offs ++ rest) = Ok (offs, rest).
Proof.
  apply (parse_n_ser (get_u32 e) (put_u32 e) is_u32).
  - intros x r Hx. apply get_u32_put. exact Hx.
  - intros x. apply put_u32_length_ge.
Qed.

(* any type without a fixed size is read by String.read_values in the model;
   the statement is given for the one such type a segment may hold *)
Theorem read_values_string_roundtrip e o ss rest :
  so_dtype o = Some T_STRING ->
  zsum (map blen ss) < 2 ^ 32 ->
  read_values e o (Z.of_nat (length ss)) (enc_strings e ss ++ rest) = Ok (ss, rest).
Proof.
  intros Hdt Htot. unfold read_values. rewrite Hdt.
  change (tds_size T_STRING) with (Some (@None Z)). cbv iota.
  unfold enc_strings. rewrite <- app_assoc.
  rewrite <- (end_offsets_length 0 ss) at 1.
  rewrite parse_offsets_roundtrip
    by (apply end_offsets_u32; [lia|change (2 ^ 32) with 4294967296 in Htot; lia]).
  cbn [bind]. rewrite read_strings_concat. reflexivity.
Qed.

Section Ex3.
Import String.
Local Open Scope string_scope.
Example read_values_string_example :
  let o := mkSobj (hex "2f27") true 3 0 (Some T_STRING) None in
  let ss := [hex "616263"; []; hex "c3a9"] in
  enc_strings BE ss = hex "000000030000000300000005616263c3a9" /\
  read_values BE o 3 (enc_strings BE ss ++ hex "77")%list = Ok (ss, hex "77").
Proof. vm_compute. split; reflexivity. Qed.
End Ex3.

(* ---- L4: contiguous chunks -------------------------------------------------- *)

(* the bytes one object contributes to a contiguous chunk *)
Definition enc_obj (e : endian) (o : sobj) (vs : list bytes) : bytes :=
  match so_dtype o with
  | Some dt =>
    match tds_size dt with
    | Some (Some _) => enc_values e dt vs
    | _ => enc_strings e vs
    end
  | None => []
  end.

(* [vs] are [n] values of the object's type: right count, each value has the
   type's size; strings: the offset table fits 32 bit *)
Definition vals_ok (n : Z) (o : sobj) (vs : list bytes) : Prop :=
  n = Z.of_nat (length vs) /\
  match so_dtype o with
  | Some dt =>
    match tds_size dt with
    | Some (Some sz) => Forall (fun v => blen v = sz) vs
    | _ => dt = T_STRING /\ zsum (map blen vs) < 2 ^ 32
    end
  | None => False
  end.

Theorem read_values_roundtrip e o n vs rest :
  vals_ok n o vs -> read_values e o n (enc_obj e o vs ++ rest) = Ok (vs, rest).
Proof.
  intros [Hn Hok]. subst n. unfold enc_obj.
  destruct (so_dtype o) as [dt|] eqn:Hdt; [|contradiction].
  destruct (tds_size dt) as [[sz|]|] eqn:Hsz.
  - apply (read_values_fixed_roundtrip e o dt sz); assumption.
  - destruct Hok as [-> Htot]. apply read_values_string_roundtrip; assumption.
  - destruct Hok as [-> _]. discriminate Hsz.
Qed.

Definition enc_chunk (e : endian) (ovs : list (sobj * list bytes)) : bytes :=
  flat_map (fun ov => enc_obj e (fst ov) (snd ov)) ovs.

(* RawDataChunk.channel_data: one entry per object, in object order *)
Definition chunk_of (ovs : list (sobj * list bytes)) : chunk :=
  map (fun ov => (so_path (fst ov), CData (snd ov))) ovs.

Lemma alookup_not_in {V} (k : bytes) (l : alist V) : ~ In k (map fst l) -> alookup k l = None.
Proof.
  induction l as [|[k' v'] r IH]; cbn; intros H; [reflexivity|].
  destruct (bytes_eqb k k') eqn:E.
  - apply bytes_eqb_eq in E. subst k'. exfalso. apply H. left. reflexivity.
  - apply IH. intros Hin. apply H. right. exact Hin.
Qed.

(* d[k] = v for a key not yet present appends *)
Lemma aset_fresh {V} (k : bytes) (v : V) (l : alist V) :
  ~ In k (map fst l) -> aset k v l = l ++ [(k, v)].
Proof.
  induction l as [|[k' v'] r IH]; cbn; intros H; [reflexivity|].
  destruct (bytes_eqb k k') eqn:E.
  - apply bytes_eqb_eq in E. subst k'. exfalso. apply H. left. reflexivity.
  - f_equal. apply IH. intros Hin. apply H. right. exact Hin.
Qed.

Lemma NoDup_app_cons_l {A} (l : list A) (a : A) (r : list A) :
  NoDup (l ++ a :: r) -> ~ In a l /\ NoDup ((l ++ [a]) ++ r).
Proof.
  intros H. split.
  - apply NoDup_remove_2 in H. intros Hin. apply H. apply in_or_app. left. exact Hin.
  - rewrite <- app_assoc. exact H.
Qed.

(* One chunk, any accumulator whose keys are distinct from the objects' paths;
   the number of values read per object is whatever [chunk_nvals] says for this
   chunk (so the final-chunk override is covered). *)
Lemma read_contig_chunk_gen e ci nchunks final : forall ovs rest acc,
    Forall (fun ov => vals_ok (chunk_nvals (fst ov) ci nchunks final) (fst ov) (snd ov)) ovs ->
    NoDup (map fst acc ++ map (fun ov => so_path (fst ov)) ovs) ->
    read_contig_chunk e (map fst ovs) ci nchunks final (enc_chunk e ovs ++ rest) acc
    = Ok (acc ++ chunk_of ovs, rest).
Proof.
  induction ovs as [|[o vs] ovs IH]; intros rest acc Hok Hnd.
  - cbn. rewrite app_nil_r. reflexivity.
  - inversion Hok as [|x l Hov Hok']; subst x l. cbn [fst snd] in Hov.
    cbn [map fst read_contig_chunk enc_chunk flat_map snd]. rewrite <- app_assoc.
    rewrite (read_values_roundtrip e o _ vs _ Hov). cbn [bind].
    cbn [map fst] in Hnd. apply NoDup_app_cons_l in Hnd. destruct Hnd as [Hnin Hnd].
    rewrite aset_fresh by exact Hnin.
    fold (enc_chunk e ovs). rewrite IH.
    + cbn [chunk_of map fst snd]. rewrite <- app_assoc. reflexivity.
    + exact Hok'.
    + rewrite map_app. exact Hnd.
Qed.

Theorem read_contig_chunk_roundtrip_final e ci nchunks final ovs rest :
  Forall (fun ov => vals_ok (chunk_nvals (fst ov) ci nchunks final) (fst ov) (snd ov)) ovs ->
  NoDup (map (fun ov => so_path (fst ov)) ovs) ->
  read_contig_chunk e (map fst ovs) ci nchunks final (enc_chunk e ovs ++ rest) []
  = Ok (chunk_of ovs, rest).
Proof.
  intros Hok Hnd. apply (read_contig_chunk_gen e ci nchunks final ovs rest []); assumption.
Qed.

(* no final-chunk override: every object contributes its declared number of values *)
Theorem read_contig_chunk_roundtrip e ci nchunks ovs rest :
  Forall (fun ov => vals_ok (so_nvals (fst ov)) (fst ov) (snd ov)) ovs ->
  NoDup (map (fun ov => so_path (fst ov)) ovs) ->
  read_contig_chunk e (map fst ovs) ci nchunks None (enc_chunk e ovs ++ rest) []
  = Ok (chunk_of ovs, rest).
Proof.
  intros Hok Hnd. apply read_contig_chunk_roundtrip_final; assumption.
Qed.

(* the result holds exactly the encoded values under each object's path *)
Lemma chunk_of_lookup ovs o vs :
  NoDup (map (fun ov => so_path (fst ov)) ovs) -> In (o, vs) ovs ->
  alookup (so_path o) (chunk_of ovs) = Some (CData vs).
Proof.
  induction ovs as [|[o' vs'] ovs IH]; intros Hnd Hin; [contradiction|].
  cbn [map fst] in Hnd. inversion Hnd as [|x l Hnin Hnd']; subst x l.
  cbn [chunk_of map alookup fst snd].
  destruct Hin as [Heq|Hin].
  - injection Heq as -> ->. rewrite bytes_eqb_refl. reflexivity.
  - destruct (bytes_eqb (so_path o) (so_path o')) eqn:E.
    + apply bytes_eqb_eq in E. exfalso. apply Hnin. rewrite <- E.
      apply (in_map (fun ov => so_path (fst ov)) ovs (o, vs)). exact Hin.
    + apply IH; assumption.
Qed.

(* for chunk in range(num_chunks): generic loop over serialised chunks *)
Lemma read_chunks_loop_ser {X} (rd : Z -> bytes -> res (chunk * bytes))
      (encx : X -> bytes) (outx : X -> chunk) (nchunks : Z) :
  forall (xs : list X) (ci : Z) (fuel : nat) (rest : bytes),
    (forall k x r, nth_error xs k = Some x -> rd (ci + Z.of_nat k) (encx x ++ r) = Ok (outx x, r)) ->
    nchunks = ci + Z.of_nat (length xs) ->
    (length xs <= fuel)%nat ->
    read_chunks_loop fuel rd ci nchunks (flat_map encx xs ++ rest) = Ok (map outx xs, rest).
Proof.
  induction xs as [|x xs IH]; intros ci fuel rest Hrd Hn Hfuel.
  - cbn [length] in Hn. destruct fuel; cbn [read_chunks_loop];
      replace (nchunks <=? ci) with true by lia; reflexivity.
  - cbn [length] in Hn, Hfuel. destruct fuel as [|f]; [lia|].
    cbn [read_chunks_loop]. replace (nchunks <=? ci) with false by lia.
    cbn [flat_map]. rewrite <- app_assoc.
    pose proof (Hrd 0%nat x (flat_map encx xs ++ rest) eq_refl) as H0.
    replace (ci + Z.of_nat 0) with ci in H0 by lia. rewrite H0. cbn [bind].
    rewrite IH; [reflexivity| |lia|lia].
    intros k y r Hk. specialize (Hrd (S k) y r Hk).
    replace (ci + 1 + Z.of_nat k) with (ci + Z.of_nat (S k)) by lia. exact Hrd.
Qed.

Lemma map_fst_combine {A B} (a : list A) (b : list B) :
  length a = length b -> map fst (combine a b) = a.
Proof.
  revert b. induction a as [|x a IH]; intros [|y b] H; cbn in *; try reflexivity; try discriminate.
  f_equal. apply IH. lia.
Qed.

Lemma Forall2_combine {A B} (P : A -> B -> Prop) a b :
  Forall2 P a b -> Forall (fun ab => P (fst ab) (snd ab)) (combine a b) /\ length a = length b.
Proof.
  induction 1 as [|x y a b Hxy _ [IH1 IH2]]; cbn; split; auto.
Qed.

Definition enc_chunks (e : endian) (objs : list sobj) (css : list (list (list bytes))) : bytes :=
  flat_map (fun vss => enc_chunk e (combine objs vss)) css.

(* chunk [k] of the segment holds values [vss], one list per object *)
Definition chunk_vals_ok (objs : list sobj) (nchunks : Z) (final : option (alist Z))
           (k : nat) (vss : list (list bytes)) : Prop :=
  Forall2 (fun o vs => vals_ok (chunk_nvals o (Z.of_nat k) nchunks final) o vs) objs vss.

(* All chunks of a contiguous segment, with or without final-chunk override;
   [fuel] at least the number of chunks. *)
Theorem read_contig_chunks_roundtrip_final e objs final css rest fuel :
  NoDup (map so_path objs) ->
  (forall k vss, nth_error css k = Some vss ->
                 chunk_vals_ok objs (Z.of_nat (length css)) final k vss) ->
  (length css <= fuel)%nat ->
  read_chunks_loop fuel
                   (fun ci c => read_contig_chunk e objs ci (Z.of_nat (length css)) final c [])
                   0 (Z.of_nat (length css)) (enc_chunks e objs css ++ rest)
  = Ok (map (fun vss => chunk_of (combine objs vss)) css, rest).
Proof.
  intros Hnd Hok Hfuel. unfold enc_chunks.
  apply (read_chunks_loop_ser _ (fun vss => enc_chunk e (combine objs vss))
                              (fun vss => chunk_of (combine objs vss))); [|lia|exact Hfuel].
  intros k vss r Hk. specialize (Hok k vss Hk). unfold chunk_vals_ok in Hok.
  apply Forall2_combine in Hok. destruct Hok as [Hall Hlen].
  replace (0 + Z.of_nat k) with (Z.of_nat k) by lia.
  rewrite <- (map_fst_combine objs vss Hlen) at 1.
  apply read_contig_chunk_roundtrip_final; [exact Hall|].
  rewrite <- (map_map fst so_path), map_fst_combine by exact Hlen. exact Hnd.
Qed.

Theorem read_contig_chunks_roundtrip e objs css rest fuel :
  NoDup (map so_path objs) ->
  Forall (fun vss => Forall2 (fun o vs => vals_ok (so_nvals o) o vs) objs vss) css ->
  (length css <= fuel)%nat ->
  read_chunks_loop fuel
                   (fun ci c => read_contig_chunk e objs ci (Z.of_nat (length css)) None c [])
                   0 (Z.of_nat (length css)) (enc_chunks e objs css ++ rest)
  = Ok (map (fun vss => chunk_of (combine objs vss)) css, rest).
Proof.
  intros Hnd Hok Hfuel. apply read_contig_chunks_roundtrip_final; [exact Hnd| |exact Hfuel].
  intros k vss Hk. unfold chunk_vals_ok. rewrite Forall_forall in Hok.
  apply Hok. eapply nth_error_In. exact Hk.
Qed.

(* the fuel read_segment_chunks supplies is enough when no chunk is empty *)
Lemma enc_chunks_length_ge e objs css :
  Forall (fun vss => enc_chunk e (combine objs vss) <> []) css ->
  (length css <= length (enc_chunks e objs css))%nat.
Proof.
  induction 1 as [|vss css Hne _ IH]; cbn [enc_chunks flat_map length]; [lia|].
  rewrite app_length. fold (enc_chunks e objs css).
  destruct (enc_chunk e (combine objs vss)); [contradiction|]. cbn [length]. lia.
Qed.

(* TdmsSegment.read_raw_data for a contiguous segment without truncation *)
Theorem read_segment_chunks_contig_roundtrip s css rest :
  seg_layout s = Ok LContig ->
  sg_final s = None ->
  sg_nchunks s = Z.of_nat (length css) ->
  NoDup (map so_path (data_objs (sg_objs s))) ->
  Forall (fun vss => Forall2 (fun o vs => vals_ok (so_nvals o) o vs) (data_objs (sg_objs s)) vss) css ->
  Forall (fun vss => enc_chunk (toc_endian (sg_toc s)) (combine (data_objs (sg_objs s)) vss) <> []) css ->
  read_segment_chunks s (enc_chunks (toc_endian (sg_toc s)) (data_objs (sg_objs s)) css ++ rest)
  = Ok (map (fun vss => chunk_of (combine (data_objs (sg_objs s)) vss)) css, rest).
Proof.
  intros Hlay Hfin Hn Hnd Hok Hne. unfold read_segment_chunks. rewrite Hlay. cbn [bind].
  rewrite Hfin, Hn. apply read_contig_chunks_roundtrip; [exact Hnd|exact Hok|].
  rewrite app_length. pose proof (enc_chunks_length_ge _ _ _ Hne). lia.
Qed.

Section Ex4.
Import String.
Local Open Scope string_scope.
Example read_contig_chunks_example :
  let a := mkSobj (hex "2f2761") true 2 4 (Some 2) None in        (* int16 x 2 *)
  let b := mkSobj (hex "2f2762") true 2 0 (Some T_STRING) None in (* string x 2 *)
  let c := mkSobj (hex "2f2763") true 1 16 (Some T_C128) None in  (* complex128 x 1 *)
  let css := [ [ [hex "0102"; hex "0304"]; [hex "6869"; hex "21"];
                 [hex "000102030405060708090a0b0c0d0e0f"] ];
               [ [hex "1112"; hex "1314"]; [[]; hex "7a7a7a"];
                 [hex "101112131415161718191a1b1c1d1e1f"] ] ] in
  let s := mkSeg 0 (2 + 4 + 8 + 64) 0 0 false [a; b; c] [] 2 None in
  enc_chunks BE [a; b; c] css =
    hex "02010403000000020000000368692107060504030201000f0e0d0c0b0a09081211141300000000000000037a7a7a17161514131211101f1e1d1c1b1a1918" /\
  read_segment_chunks s (enc_chunks BE [a; b; c] css ++ hex "aa")%list =
    Ok ([ [(hex "2f2761", CData [hex "0102"; hex "0304"]); (hex "2f2762", CData [hex "6869"; hex "21"]);
           (hex "2f2763", CData [hex "000102030405060708090a0b0c0d0e0f"])];
          [(hex "2f2761", CData [hex "1112"; hex "1314"]); (hex "2f2762", CData [[]; hex "7a7a7a"]);
           (hex "2f2763", CData [hex "101112131415161718191a1b1c1d1e1f"])] ], hex "aa").
Proof. vm_compute. split; reflexivity. Qed.
End Ex4.

(* ---- L5: interleaved rows --------------------------------------------------- *)

Definition dtype_or0 (o : sobj) : Z := match so_dtype o with Some dt => dt | None => 0 end.
Definition size_or0 (o : sobj) : Z := match sized o with Some s => s | None => 0 end.

(* one row: one stored value per object, side by side *)
Definition enc_row (e : endian) (objs : list sobj) (row : list bytes) : bytes :=
  flat_map (fun ov => store_value e (dtype_or0 (fst ov)) (snd ov)) (combine objs row).

Definition enc_rows (e : endian) (objs : list sobj) (rows : list (list bytes)) : bytes :=
  flat_map (enc_row e objs) rows.

(* a row gives every object one value of its type's size *)
Definition row_ok (objs : list sobj) (row : list bytes) : Prop :=
  Forall2 (fun o v => sized o = Some (blen v)) objs row.

(* the chunk an interleaved segment decodes to: object j gets column j *)
Fixpoint cols_of (objs : list sobj) (rows : list (list bytes)) : chunk :=
  match objs with
  | [] => []
  | o :: r => (so_path o, CData (map (hd []) rows)) :: cols_of r (map (@tl bytes) rows)
  end.

Lemma cols_of_nth objs : forall rows j o,
    nth_error objs j = Some o ->
    nth_error (cols_of objs rows) j = Some (so_path o, CData (map (fun row => nth j row []) rows)).
Proof.
  induction objs as [|o' objs IH]; intros rows j o Hj; [destruct j; discriminate|].
  destruct j as [|j]; cbn [nth_error cols_of] in *.
  - injection Hj as ->. do 3 f_equal. apply map_ext. intros [|v r]; reflexivity.
  - rewrite (IH _ j o Hj). do 3 f_equal. rewrite map_map. apply map_ext.
    intros [|v r]; [destruct j; reflexivity|reflexivity].
Qed.

Lemma sized_inv o sz :
  sized o = Some sz -> exists dt, so_dtype o = Some dt /\ tds_size dt = Some (Some sz).
Proof.
  unfold sized. destruct (so_dtype o) as [dt|]; [|discriminate].
  destruct (tds_size dt) as [[s|]|] eqn:E; try discriminate.
  intros H. injection H as ->. exists dt. split; [reflexivity|exact E].
Qed.

Lemma sized_pos o sz : sized o = Some sz -> 0 < sz.
Proof. intros H. destruct (sized_inv o sz H) as [dt [_ Hs]]. exact (tds_size_pos dt sz Hs). Qed.

Lemma enc_row_blen e objs row :
  row_ok objs row -> blen (enc_row e objs row) = zsum (map size_or0 objs).
Proof.
  induction 1 as [|o v objs row Hov _ IH]; [reflexivity|].
  unfold enc_row in *. cbn [combine flat_map fst snd map zsum fold_right].
  rewrite blen_app, IH, store_value_blen. unfold size_or0 at 2. rewrite Hov. reflexivity.
Qed.

Lemma width_pos objs :
  objs <> [] -> Forall (fun o => sized o <> None) objs -> 0 < zsum (map size_or0 objs).
Proof.
  intros Hne Hall.
  assert (H0 : forall l, Forall (fun o => sized o <> None) l -> 0 <= zsum (map size_or0 l)).
  { induction 1 as [|o l Ho _ IH]; cbn [map zsum fold_right]; [lia|].
    unfold size_or0 at 1. destruct (sized o) as [sz|] eqn:E; [|contradiction].
    apply sized_pos in E. unfold zsum in IH. lia. }
  destruct Hall as [|o l Ho Hl]; [contradiction|].
  cbn [map zsum fold_right]. specialize (H0 l Hl). unfold zsum in H0.
  unfold size_or0 at 1. destruct (sized o) as [sz|] eqn:E; [|contradiction].
  apply sized_pos in E. lia.
Qed.

(* Column extraction on rows that are [prefix ++ stored values of the
   remaining objects]: each remaining object gets exactly its values. *)
Lemma interleaved_columns_gen e : forall suf (prows : list (bytes * list bytes)) pos acc,
    Forall (fun o => sized o <> None) suf ->
    Forall (fun pr => blen (fst pr) = pos /\ row_ok suf (snd pr)) prows ->
    NoDup (map fst acc ++ map so_path suf) ->
    interleaved_columns e suf (map (fun pr => fst pr ++ enc_row e suf (snd pr)) prows) pos acc
    = Ok (acc ++ cols_of suf (map snd prows)).
Proof.
  induction suf as [|o suf IH]; intros prows pos acc Hsz Hrows Hnd.
  - cbn. rewrite app_nil_r. reflexivity.
  - inversion Hsz as [|x l Ho Hsz']; subst x l.
    destruct (sized o) as [sz|] eqn:Hsized; [|contradiction].
    destruct (sized_inv o sz Hsized) as [dt [Hdt Hts]].
    cbn [interleaved_columns]. rewrite Hdt, Hsized.
    cbn [map] in Hnd. apply NoDup_app_cons_l in Hnd. destruct Hnd as [Hnin Hnd].
    rewrite aset_fresh by exact Hnin.
    rewrite Forall_forall in Hrows.
    (* shape of every row *)
    assert (Hshape : forall pr, In pr prows ->
              exists v vs, snd pr = v :: vs /\ blen v = sz /\ row_ok suf vs /\ blen (fst pr) = pos).
    { intros pr Hin. destruct (Hrows pr Hin) as [Hp Hrow]. inversion Hrow as [|o' v l vs Hv Hvs Eo Ev].
      exists v, vs. rewrite Hsized in Hv. injection Hv as Hv. repeat split; auto. }
    (* the column of [o] *)
    assert (Hcol : column_values e dt (map (fun pr => fst pr ++ enc_row e (o :: suf) (snd pr)) prows) pos sz
                   = map (hd []) (map snd prows)).
    { unfold column_values. rewrite !map_map. apply map_ext_in. intros [p r] Hin.
      destruct (Hshape _ Hin) as [v [vs [Hs [Hv [_ Hp]]]]]. cbn [fst snd] in *. subst r. cbn [hd].
      unfold enc_row. cbn [combine flat_map fst snd]. unfold dtype_or0 at 1. rewrite Hdt.
      rewrite <- Hp, drop_app_exact.
      rewrite <- Hv, <- (store_value_blen e dt v), take_app_exact. apply store_then_canon. }
    rewrite Hcol.
    (* remaining objects: move [o]'s stored value into the prefix *)
    set (shift := fun pr : bytes * list bytes =>
                    (fst pr ++ store_value e dt (hd [] (snd pr)), tl (snd pr))).
    assert (Hrows' : map (fun pr => fst pr ++ enc_row e (o :: suf) (snd pr)) prows
                     = map (fun pr => fst pr ++ enc_row e suf (snd pr)) (map shift prows)).
    { rewrite map_map. apply map_ext_in. intros [p r] Hin.
      destruct (Hshape _ Hin) as [v [vs [Hs _]]]. unfold shift. cbn [fst snd] in *. subst r. cbn [hd tl].
      unfold enc_row. cbn [combine flat_map fst snd]. unfold dtype_or0 at 1. rewrite Hdt.
      rewrite <- app_assoc. reflexivity. }
    rewrite Hrows'. rewrite (IH (map shift prows) (pos + sz)).
    + cbn [cols_of]. rewrite <- app_assoc. cbn [app]. rewrite !map_map. reflexivity.
    + exact Hsz'.
    + apply Forall_forall. intros pr' Hin'. apply in_map_iff in Hin'.
      destruct Hin' as [[p r] [<- Hin]]. destruct (Hshape _ Hin) as [v [vs [Hs [Hv [Hvs Hp]]]]].
      unfold shift. cbn [fst snd] in *. subst r. cbn [hd tl]. split; [|exact Hvs].
      rewrite blen_app, store_value_blen. lia.
    + rewrite map_app. exact Hnd.
Qed.

Lemma enc_rows_blen e objs rows :
  Forall (row_ok objs) rows ->
  blen (enc_rows e objs rows) = Z.of_nat (length rows) * zsum (map size_or0 objs).
Proof.
  intros Hrows. unfold enc_rows. rewrite flat_map_concat_map.
  rewrite (blen_concat_const (zsum (map size_or0 objs))); [rewrite map_length; reflexivity|].
  apply Forall_map. eapply Forall_impl; [|exact Hrows]. intros row. apply enc_row_blen.
Qed.

(* InterleavedDataReader.read_data_chunks on [nrows] encoded rows: the reader
   takes width * nrows bytes, leaves [rest], and yields ONE chunk whose entry for
   object j is column j of the value matrix. *)
Theorem read_interleaved_roundtrip e objs nchunks nv rows rest :
  objs <> [] ->
  Forall (fun o => so_nvals o = nv) objs ->
  Forall (fun o => sized o <> None) objs ->
  NoDup (map so_path objs) ->
  Forall (row_ok objs) rows ->
  nv * nchunks = Z.of_nat (length rows) ->
  read_interleaved e objs nchunks (enc_rows e objs rows ++ rest) = Ok ([cols_of objs rows], rest).
Proof.
  intros Hne Hnv Hsz Hnd Hrows Hn.
  pose proof (width_pos objs Hne Hsz) as Hw.
  pose proof (enc_rows_blen e objs rows Hrows) as Hlen.
  destruct objs as [|o0 objs']; [contradiction|].
  remember (o0 :: objs') as objs eqn:Eobjs.
  assert (Hfb : forallb (fun o => so_nvals o =? so_nvals o0) objs = true).
  { apply forallb_forall. intros o Hin. rewrite Forall_forall in Hnv.
    rewrite (Hnv o Hin). rewrite (Hnv o0) by (subst objs; left; reflexivity). lia. }
  assert (Hnv0 : so_nvals o0 = nv).
  { rewrite Forall_forall in Hnv. apply Hnv. subst objs. left. reflexivity. }
  unfold read_interleaved. rewrite Eobjs at 1. rewrite Hfb. cbn [negb].
  change (map (fun o => match sized o with Some s => s | None => 0 end) objs) with (map size_or0 objs).
  unfold read_rows. rewrite Hnv0, Hn.
  replace (zsum (map size_or0 objs) * Z.of_nat (length rows)) with (blen (enc_rows e objs rows)) by lia.
  rewrite get_raw_app. cbv iota beta.
  assert (Hitems : items (zsum (map size_or0 objs)) (enc_rows e objs rows) = map (enc_row e objs) rows).
  { unfold enc_rows. rewrite flat_map_concat_map. apply items_roundtrip; [exact Hw|].
    apply Forall_map. eapply Forall_impl; [|exact Hrows]. intros row. apply enc_row_blen. }
  rewrite Hitems.
  assert (Hcols : interleaved_columns e objs (map (enc_row e objs) rows) 0 [] = Ok (cols_of objs rows)).
  { replace (map (enc_row e objs) rows)
      with (map (fun pr : bytes * list bytes => fst pr ++ enc_row e objs (snd pr))
                (map (fun r : list bytes => (@nil byte, r)) rows))
      by (rewrite map_map; reflexivity).
    rewrite interleaved_columns_gen.
    - rewrite map_map. cbn [snd app]. rewrite map_id. reflexivity.
    - exact Hsz.
    - apply Forall_map. eapply Forall_impl; [|exact Hrows].
      intros row Hrow. cbn [fst snd]. split; [reflexivity|exact Hrow].
    - exact Hnd. }
  rewrite Hcols. reflexivity.
Qed.

(* TdmsSegment.read_raw_data for an interleaved segment *)
Theorem read_segment_chunks_interleaved_roundtrip s nv rows rest :
  seg_layout s = Ok LInterleaved ->
  data_objs (sg_objs s) <> [] ->
  Forall (fun o => so_nvals o = nv) (data_objs (sg_objs s)) ->
  Forall (fun o => sized o <> None) (data_objs (sg_objs s)) ->
  NoDup (map so_path (data_objs (sg_objs s))) ->
  Forall (row_ok (data_objs (sg_objs s))) rows ->
  nv * sg_nchunks s = Z.of_nat (length rows) ->
  read_segment_chunks s (enc_rows (toc_endian (sg_toc s)) (data_objs (sg_objs s)) rows ++ rest)
  = Ok ([cols_of (data_objs (sg_objs s)) rows], rest).
Proof.
  intros Hlay Hne Hnv Hsz Hnd Hrows Hn. unfold read_segment_chunks. rewrite Hlay. cbn [bind].
  apply (read_interleaved_roundtrip _ _ _ nv); assumption.
Qed.

Section Ex5.
Import String.
Local Open Scope string_scope.
Example read_interleaved_example :
  let a := mkSobj (hex "2f2761") true 3 6 (Some 2) None in          (* int16 *)
  let b := mkSobj (hex "2f2762") true 3 24 (Some T_C64) None in     (* complex64 *)
  let c := mkSobj (hex "2f2763") true 3 3 (Some T_BOOL) None in     (* bool *)
  let rows := [ [hex "0102"; hex "1112131415161718"; hex "01"];
                [hex "0304"; hex "2122232425262728"; hex "00"];
                [hex "0506"; hex "3132333435363738"; hex "01"] ] in
  let s := mkSeg 0 (2 + 4 + 8 + 32 + 64) 0 0 false [a; b; c] [] 1 None in
  enc_rows BE [a; b; c] rows =
    hex "020114131211181716150104032423222128272625000605343332313837363501" /\
  read_segment_chunks s (enc_rows BE [a; b; c] rows ++ hex "bbcc")%list =
    Ok ([ [(hex "2f2761", CData [hex "0102"; hex "0304"; hex "0506"]);
           (hex "2f2762", CData [hex "1112131415161718"; hex "2122232425262728"; hex "3132333435363738"]);
           (hex "2f2763", CData [hex "01"; hex "00"; hex "01"])] ], hex "bbcc").
Proof. vm_compute. split; reflexivity. Qed.
End Ex5.

(* ---- C15: both encodings of the same content decode alike ---------------------- *)

Lemma read_values_any_endian e e' n o vs rest :
  vals_ok n o vs ->
  read_values e o n (enc_obj e o vs ++ rest) = read_values e' o n (enc_obj e' o vs ++ rest).
Proof. intros H. rewrite !read_values_roundtrip by exact H. reflexivity. Qed.

Lemma read_contig_chunk_any_endian e e' ci nchunks final ovs rest :
  Forall (fun ov => vals_ok (chunk_nvals (fst ov) ci nchunks final) (fst ov) (snd ov)) ovs ->
  NoDup (map (fun ov => so_path (fst ov)) ovs) ->
  read_contig_chunk e (map fst ovs) ci nchunks final (enc_chunk e ovs ++ rest) []
  = read_contig_chunk e' (map fst ovs) ci nchunks final (enc_chunk e' ovs ++ rest) [].
Proof.
  intros H1 H2. rewrite !read_contig_chunk_roundtrip_final by assumption. reflexivity.
Qed.

Lemma read_interleaved_any_endian e e' objs nchunks nv rows rest :
  objs <> [] ->
  Forall (fun o => so_nvals o = nv) objs ->
  Forall (fun o => sized o <> None) objs ->
  NoDup (map so_path objs) ->
  Forall (row_ok objs) rows ->
  nv * nchunks = Z.of_nat (length rows) ->
  read_interleaved e objs nchunks (enc_rows e objs rows ++ rest)
  = read_interleaved e' objs nchunks (enc_rows e' objs rows ++ rest).
Proof.
  intros H1 H2 H3 H4 H5 H6.
  rewrite !(read_interleaved_roundtrip _ objs nchunks nv rows rest) by assumption. reflexivity.
Qed.

(* ---- C01 layer 4 meets layer 5: the chunk count computed from the data length ---- *)

Lemma enc_strings_blen e ss :
  blen (enc_strings e ss) = 4 * Z.of_nat (length ss) + zsum (map blen ss).
Proof.
  unfold enc_strings. rewrite blen_app. f_equal.
  - rewrite flat_map_concat_map, (blen_concat_const 4).
    + rewrite map_length, end_offsets_length. lia.
    + apply Forall_map. apply Forall_forall. intros z _. unfold blen. rewrite put_u32_length. reflexivity.
  - induction ss as [|s r IH]; [reflexivity|].
    cbn [concat map zsum fold_right]. rewrite blen_app. unfold zsum in IH. rewrite IH. reflexivity.
Qed.

(* bytes an object contributes to a chunk *)
Lemma enc_obj_blen e n o vs :
  vals_ok n o vs ->
  blen (enc_obj e o vs) = match sized o with
                          | Some sz => n * sz
                          | None => 4 * n + zsum (map blen vs)
                          end.
Proof.
  intros [Hn Hok]. subst n. unfold enc_obj, sized.
  destruct (so_dtype o) as [dt|]; [|contradiction].
  destruct (tds_size dt) as [[sz|]|].
  - apply enc_values_blen. exact Hok.
  - apply enc_strings_blen.
  - apply enc_strings_blen.
Qed.

(* the object's data_size (raw data index: n * size, or the declared total for
   strings) is the number of bytes its values take in a chunk *)
Definition dsize_ok (e : endian) (o : sobj) (vs : list bytes) : Prop :=
  so_dsize o = blen (enc_obj e o vs).

Lemma enc_chunk_blen e objs vss :
  Forall2 (dsize_ok e) objs vss ->
  blen (enc_chunk e (combine objs vss)) = zsum (map so_dsize objs).
Proof.
  induction 1 as [|o vs objs vss Hd _ IH]; [reflexivity|].
  cbn [combine enc_chunk flat_map fst snd map zsum fold_right]. rewrite blen_app.
  unfold enc_chunk, zsum in IH. rewrite IH, Hd. reflexivity.
Qed.

Lemma enc_chunks_blen e objs css :
  Forall (Forall2 (dsize_ok e) objs) css ->
  blen (enc_chunks e objs css) = Z.of_nat (length css) * zsum (map so_dsize objs).
Proof.
  intros H. unfold enc_chunks. rewrite flat_map_concat_map.
  rewrite (blen_concat_const (zsum (map so_dsize objs))); [rewrite map_length; reflexivity|].
  apply Forall_map. eapply Forall_impl; [|exact H]. intros vss. apply enc_chunk_blen.
Qed.

(* _calculate_chunks on a whole number of chunks: that number, no override *)
Theorem calculate_chunks_exact toc incomplete objs csize n :
  chunk_size objs = Ok csize -> 0 < csize -> 0 <= n ->
  calculate_chunks toc incomplete objs (n * csize) = Ok (n, None).
Proof.
  intros Hc Hpos Hn. unfold calculate_chunks. rewrite Hc. cbn [bind].
  replace ((csize <? 0) || (n * csize <? 0)) with false by nia.
  replace (csize =? 0) with false by lia.
  rewrite Z.mod_mul by lia. cbn [Z.eqb]. rewrite Z.div_mul by lia. reflexivity.
Qed.

Lemma seg_layout_contig_chunk_size s :
  seg_layout s = Ok LContig ->
  chunk_size (sg_objs s) = Ok (zsum (map so_dsize (data_objs (sg_objs s)))).
Proof.
  unfold seg_layout, chunk_size. destruct (have_daqmx (sg_objs s)) as [[|]|]; cbn [bind]; try discriminate.
  reflexivity.
Qed.

(* A contiguous segment whose chunk count was computed by _calculate_chunks
   from the length of its raw data decodes to exactly the encoded chunks. *)
Theorem contig_segment_roundtrip s css rest :
  let e := toc_endian (sg_toc s) in
  let dobjs := data_objs (sg_objs s) in
  seg_layout s = Ok LContig ->
  calculate_chunks (sg_toc s) (sg_incomplete s) (sg_objs s) (blen (enc_chunks e dobjs css))
  = Ok (sg_nchunks s, sg_final s) ->
  0 < zsum (map so_dsize dobjs) ->
  NoDup (map so_path dobjs) ->
  Forall (fun vss => Forall2 (fun o vs => vals_ok (so_nvals o) o vs) dobjs vss) css ->
  Forall (Forall2 (dsize_ok e) dobjs) css ->
  read_segment_chunks s (enc_chunks e dobjs css ++ rest)
  = Ok (map (fun vss => chunk_of (combine dobjs vss)) css, rest).
Proof.
  intros e dobjs Hlay Hcalc Hpos Hnd Hok Hds.
  pose proof (seg_layout_contig_chunk_size s Hlay) as Hcs. fold dobjs in Hcs.
  rewrite (enc_chunks_blen e dobjs css Hds) in Hcalc.
  rewrite (calculate_chunks_exact _ _ _ _ _ Hcs Hpos) in Hcalc by lia.
  injection Hcalc as Hn Hf.
  apply read_segment_chunks_contig_roundtrip; try assumption; try (symmetry; assumption).
  apply Forall_forall. intros vss Hin Hnil. rewrite Forall_forall in Hds.
  pose proof (enc_chunk_blen e dobjs vss (Hds vss Hin)) as Hb.
  fold e dobjs in Hnil. rewrite Hnil in Hb. cbn in Hb. lia.
Qed.

Lemma seg_layout_interleaved_chunk_size s :
  seg_layout s = Ok LInterleaved ->
  chunk_size (sg_objs s) = Ok (zsum (map so_dsize (data_objs (sg_objs s)))).
Proof.
  unfold seg_layout, chunk_size. destruct (have_daqmx (sg_objs s)) as [[|]|]; cbn [bind]; try discriminate.
  reflexivity.
Qed.

Lemma interleaved_chunk_bytes nv objs :
  Forall (fun o => so_nvals o = nv /\ so_dsize o = so_nvals o * size_or0 o) objs ->
  zsum (map so_dsize objs) = nv * zsum (map size_or0 objs).
Proof.
  induction 1 as [|o objs [Hnv Hd] _ IH]; cbn [map zsum fold_right]; [lia|].
  unfold zsum in IH. rewrite IH, Hd, Hnv. lia.
Qed.

(* An interleaved segment of m chunks' worth of rows (nv rows per chunk) whose
   chunk count was computed by _calculate_chunks from the raw data length. *)
Theorem interleaved_segment_roundtrip s nv m rows rest :
  let e := toc_endian (sg_toc s) in
  let dobjs := data_objs (sg_objs s) in
  seg_layout s = Ok LInterleaved ->
  calculate_chunks (sg_toc s) (sg_incomplete s) (sg_objs s) (blen (enc_rows e dobjs rows))
  = Ok (sg_nchunks s, sg_final s) ->
  dobjs <> [] -> 0 < nv -> 0 <= m ->
  Forall (fun o => so_nvals o = nv /\ so_dsize o = so_nvals o * size_or0 o) dobjs ->
  Forall (fun o => sized o <> None) dobjs ->
  NoDup (map so_path dobjs) ->
  Forall (row_ok dobjs) rows ->
  Z.of_nat (length rows) = nv * m ->
  read_segment_chunks s (enc_rows e dobjs rows ++ rest) = Ok ([cols_of dobjs rows], rest).
Proof.
  intros e dobjs Hlay Hcalc Hne Hnv Hm Hobjs Hsz Hnd Hrows Hlen.
  pose proof (seg_layout_interleaved_chunk_size s Hlay) as Hcs. fold dobjs in Hcs.
  pose proof (width_pos dobjs Hne Hsz) as Hw.
  pose proof (interleaved_chunk_bytes nv dobjs Hobjs) as Hcb.
  rewrite (enc_rows_blen e dobjs rows Hrows), Hlen in Hcalc.
  replace (nv * m * zsum (map size_or0 dobjs)) with (m * zsum (map so_dsize dobjs)) in Hcalc by nia.
  rewrite (calculate_chunks_exact _ _ _ _ _ Hcs) in Hcalc by nia.
  injection Hcalc as Hn Hf.
  apply (read_segment_chunks_interleaved_roundtrip s nv); try assumption.
  - eapply Forall_impl; [|exact Hobjs]. intros o [H _]. exact H.
  - fold dobjs. rewrite <- Hn. lia.
Qed.
