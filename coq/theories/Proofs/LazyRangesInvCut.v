(* C19, byte level: ranges_inv on a file CUT SHORT, [take k (ser_file segs)].

   The metadata pass on the cut bytes (TruncValuesFile.rd_metadata_cut / cut_trace) records the
   segments lying wholly before the cut unchanged and, when the cut falls inside a raw data
   block, one more record [gc] (TruncValuesFile.cut_of): same objects and ToC, incomplete, chunk
   count and final-chunk override computed by _calculate_chunks from the bytes that are left.
   For it the invariant needs the arithmetic of _compute_final_chunk_lengths:
     [final_chunk_lengths_ok]  on a non-DAQmx object list every entry of the override is, for
        some data object of that path, between 0 and its number_values; and the override is
        EMPTY as soon as a data object is unsized (a string): nobody gets a value from the
        partial chunk;
     [cut_seg_objects_inv]     hence final_inv and layout_inv of the cut record, for every path
        (distinct paths per object list are needed HERE: the override is keyed by path);
     [ranges_inv_truncated]    the state of TdmsFile.open on the cut file satisfies ranges_inv for
        every path, for every cut 0 <= k <= length. *)
From Coq Require Import List ZArith Bool Lia ZifyBool.
From Coq Require Import Init.Byte.
Import ListNotations.
From NpTdms Require Import Base.Bytes Base.Res Base.PySlice Model.Tokens Model.TokensWf Model.SegState
     Model.Layout Model.Reader Model.FileSyn Model.LazyRead Model.LazyBytes Model.LazyRanges
     Proofs.SegStateProofs Proofs.SegStateInherit Proofs.LayoutProofs Proofs.FileSynProofs
     Proofs.FileParseProofs Proofs.DaqmxProofs Proofs.ReadCorrect Proofs.ReadCorrectDaqmx
     Proofs.TruncValuesLayout Proofs.TruncValuesFile Proofs.LazyEagerIndex Proofs.LazyEagerView Proofs.LazyEagerTop
     Proofs.LazyReadLemmas Proofs.LazyIndexProofs Proofs.LazyReadProofs Proofs.LazyTopProofs Proofs.LazyWindowProofs Proofs.LazyRangesLink
     Proofs.TruncLazyFile
     Proofs.LazyRangesSeg Proofs.LazyRangesTop Proofs.LazyRangesSer Proofs.LazyRangesInv.
Local Open Scope Z_scope.
Ltac Zify.zify_post_hook ::= Z.to_euclidean_division_equations.

Lemma read_at_take p n k (l : bytes) : 0 <= p -> p + n <= k -> read_at p n (take k l) = read_at p n l.
Proof.
  intros Hp Hk. unfold read_at. rewrite drop_take by lia. rewrite take_take.
  replace (Z.min n (k - p)) with n by lia. reflexivity.
Qed.

(* ---- the final-chunk override ---------------------------------------------------------------- *)

Definition fl_ok (objs : list sobj) (fl : alist Z) : Prop :=
  forall p x, alookup p fl = Some x ->
              exists o, In o objs /\ so_has_data o = true /\ so_path o = p /\ 0 <= x <= so_nvals o.

Lemma fl_ok_nil objs : fl_ok objs [].
Proof. intros p x H. discriminate. Qed.

Lemma fl_ok_aset objs fl o x :
  fl_ok objs fl -> In o objs -> so_has_data o = true -> 0 <= x <= so_nvals o ->
  fl_ok objs (aset (so_path o) x fl).
Proof.
  intros Hfl Ho Hd Hx p y H. rewrite alookup_aset in H.
  destruct (bytes_eqb p (so_path o)) eqn:E.
  - injection H as <-. apply bytes_eqb_eq in E. exists o. repeat split; try assumption; try lia. symmetry. exact E.
  - exact (Hfl p y H).
Qed.

Lemma fold_final_ok objs csize rem : 0 <= rem < csize ->
  forall l acc, incl l objs -> (forall o, In o l -> 0 <= so_nvals o) -> fl_ok objs acc ->
  fl_ok objs (fold_left (fun acc o => if so_has_data o then aset (so_path o) (so_nvals o * rem / csize) acc else acc)
                        l acc).
Proof.
  intros Hrem. induction l as [|o l IH]; intros acc Hincl Hnv Hacc; [exact Hacc|].
  cbn [fold_left]. apply IH.
  - intros x Hx. apply Hincl. right. exact Hx.
  - intros x Hx. apply Hnv. right. exact Hx.
  - destruct (so_has_data o) eqn:Hd; [|exact Hacc].
    apply fl_ok_aset; [exact Hacc|apply Hincl; left; reflexivity|exact Hd|].
    pose proof (Hnv o (or_introl eq_refl)) as Hn. split.
    + apply Z.div_pos; nia.
    + apply Z.div_le_upper_bound; nia.
Qed.

Lemma contig_final_ok objs : forall l rem acc,
  incl l objs -> (forall o, In o l -> 0 <= so_nvals o) -> 0 <= rem -> fl_ok objs acc ->
  fl_ok objs (contig_final l rem acc).
Proof.
  induction l as [|o l IH]; intros rem acc Hincl Hnv Hrem Hacc; [exact Hacc|].
  cbn [contig_final].
  assert (Hincl' : incl l objs) by (intros x Hx; apply Hincl; right; exact Hx).
  assert (Hnv' : forall x, In x l -> 0 <= so_nvals x) by (intros x Hx; apply Hnv; right; exact Hx).
  destruct (negb (so_has_data o)) eqn:Hd; [exact (IH rem acc Hincl' Hnv' Hrem Hacc)|].
  assert (Hdd : so_has_data o = true) by (destruct (so_has_data o); [reflexivity|discriminate]).
  pose proof (Hnv o (or_introl eq_refl)) as Hn.
  set (sz := match sized o with Some s => s | None => 1 end).
  assert (Hsz : 0 < sz).
  { unfold sz. destruct (sized o) as [s|] eqn:Es; [exact (sized_pos o s Es)|lia]. }
  destruct (so_nvals o * sz <? rem) eqn:El.
  - apply IH; [exact Hincl'|exact Hnv'|lia|].
    apply fl_ok_aset; [exact Hacc|apply Hincl; left; reflexivity|exact Hdd|lia].
  - apply fl_ok_aset; [exact Hacc|apply Hincl; left; reflexivity|exact Hdd|]. split.
    + apply Z.div_pos; lia.
    + apply Z.div_le_upper_bound; [exact Hsz|]. lia.
Qed.

Theorem final_chunk_lengths_ok toc inc objs csize rem fl :
  final_chunk_lengths toc inc objs csize rem = Ok fl ->
  have_daqmx objs = Ok false ->
  0 <= rem < csize ->
  (forall o, In o objs -> 0 <= so_nvals o) ->
  fl_ok objs fl /\ (fl = [] \/ forall o, In o (data_objs objs) -> sized o <> None).
Proof.
  intros H Hdq Hrem Hnv. unfold final_chunk_lengths in H. rewrite Hdq in H. cbn [bind] in H.
  destruct (existsb (fun o => so_has_data o && match sized o with None => true | Some _ => false end) objs) eqn:Ex.
  - injection H as <-. split; [apply fl_ok_nil|left; reflexivity].
  - assert (Hsized : forall o, In o (data_objs objs) -> sized o <> None).
    { intros o Ho. destruct (data_objs_In _ _ Ho) as [Hin Hd].
      assert (Hf : (fun o => so_has_data o && match sized o with None => true | Some _ => false end) o = false).
      { destruct ((fun o0 => so_has_data o0 && match sized o0 with None => true | Some _ => false end) o) eqn:E;
          [|reflexivity].
        assert (existsb (fun o0 => so_has_data o0 && match sized o0 with None => true | Some _ => false end) objs = true)
          by (apply existsb_exists; exists o; split; assumption).
        congruence. }
      cbn beta in Hf. rewrite Hd in Hf. cbn [andb] in Hf. destruct (sized o); [discriminate|discriminate Hf]. }
    destruct (toc_has toc TOC_INTERLEAVED || negb inc).
    + injection H as <-. split; [|right; exact Hsized].
      apply (fold_final_ok objs csize rem Hrem objs [] (incl_refl _) Hnv (fl_ok_nil objs)).
    + injection H as <-. split; [|right; exact Hsized].
      apply (contig_final_ok objs objs rem [] (incl_refl _) Hnv ltac:(lia) (fl_ok_nil objs)).
Qed.

(* ---- the cut record -------------------------------------------------------------------------- *)

Lemma seg_layout_ext g g' : sg_objs g' = sg_objs g -> sg_toc g' = sg_toc g -> seg_layout g' = seg_layout g.
Proof. intros Ho Ht. unfold seg_layout. rewrite Ho, Ht. reflexivity. Qed.

Lemma layout_inv_ext g g' :
  sg_objs g' = sg_objs g -> sg_toc g' = sg_toc g -> sg_final g' = sg_final g -> layout_inv g' = layout_inv g.
Proof. intros Ho Ht Hf. unfold layout_inv. rewrite (seg_layout_ext g g' Ho Ht), Ho, Hf. reflexivity. Qed.

(* replacing "no override" by an override whose entries are in range *)
Lemma obj_inv_final o fl :
  obj_inv None o = true ->
  (forall x, alookup (so_path o) fl = Some x -> 0 <= x <= so_nvals o) ->
  (sized o = None -> alookup (so_path o) fl = None) ->
  obj_inv (Some fl) o = true.
Proof.
  unfold obj_inv, final_value, sized. intros H Hx Hs.
  destruct (so_dtype o) as [dt|]; [|exact H].
  destruct (tds_size dt) as [[sz|]|]; [| |exact H].
  - destruct (alookup (so_path o) fl) as [x|]; [specialize (Hx x eq_refl)|]; lia.
  - rewrite (Hs eq_refl). lia.
Qed.

Lemma have_daqmx_of_layout g lay : seg_layout g = Ok lay -> lay <> LDaqmx -> have_daqmx (sg_objs g) = Ok false.
Proof.
  unfold seg_layout. intros H Hl. destruct (have_daqmx (sg_objs g)) as [[|]|]; cbn [bind] in H; try discriminate.
  - injection H as <-. contradiction.
  - reflexivity.
Qed.

Lemma seg_encodes_layout g data cs : seg_encodes g data cs -> data <> [] ->
  exists lay, seg_layout g = Ok lay /\ lay <> LDaqmx.
Proof.
  intros [Hd Hdata | css Hlay _ _ _ _ _ | nv m rows Hlay _ _ _ _ _ _ _ _ _] Hne.
  - contradiction.
  - exists LContig. split; [exact Hlay|discriminate].
  - exists LInterleaved. split; [exact Hlay|discriminate].
Qed.

Theorem cut_seg_objects_inv path g gc data cs k :
  seg_encodes g data cs ->
  calculate_chunks (sg_toc g) (sg_incomplete g) (sg_objs g) (blen data) = Ok (sg_nchunks g, sg_final g) ->
  layout_inv g = true -> sg_final g = None ->
  Forall obj_shape (sg_objs g) ->
  NoDup (map so_path (sg_objs g)) ->
  cut_of g k gc ->
  sg_index gc = fresh_index (map so_path (sg_objs gc)) ->
  sg_data g <= k < sg_data g + blen data ->
  objects_inv path gc = true /\ 0 <= sg_nchunks gc.
Proof.
  intros Henc Hccg Hlayg Hfing Hsh Hnd (Hpos & Htoc & Hdata & _ & _ & Hobjs & Hcc) Hidx Hk.
  set (j := k - sg_data g) in *.
  assert (Hj : 0 <= j < blen data) by (unfold j; lia).
  assert (Hne : data <> []) by (intros ->; change (blen []) with 0 in Hj; lia).
  destruct (seg_encodes_layout g data cs Henc Hne) as (lay & Hlay & Hnq).
  pose proof (have_daqmx_of_layout g lay Hlay Hnq) as Hdq.
  destruct (layout_inv_ok g Hlayg) as (csize & lay' & Hcs & Hlay'). rewrite Hlay in Hlay'. injection Hlay' as <-.
  assert (Hcpos : 0 < csize).
  { unfold calculate_chunks in Hccg. rewrite Hcs in Hccg. cbn [bind] in Hccg.
    destruct ((csize <? 0) || (blen data <? 0)) eqn:E1; [discriminate|].
    destruct (csize =? 0) eqn:E2; [|lia].
    replace (negb (blen data =? 0)) with true in Hccg by lia. discriminate. }
  assert (Hnvals : forall o, In o (sg_objs g) -> 0 <= so_nvals o).
  { intros o Ho. rewrite Forall_forall in Hsh. exact (proj1 (Hsh o Ho)). }
  assert (Hshc : Forall obj_shape (sg_objs gc)) by (rewrite Hobjs; exact Hsh).
  unfold calculate_chunks in Hcc. rewrite Hcs in Hcc. cbn [bind] in Hcc.
  replace ((csize <? 0) || (j <? 0)) with false in Hcc by lia.
  replace (csize =? 0) with false in Hcc by lia.
  destruct (j mod csize =? 0) eqn:Er.
  - (* the cut falls on a chunk boundary: no override *)
    injection Hcc as Hn Hf. split.
    + apply objects_inv_of_layout; [|symmetry; exact Hf|exact Hshc].
      rewrite (layout_inv_ext g gc Hobjs Htoc); [exact Hlayg|]. rewrite <- Hf. symmetry. exact Hfing.
    + rewrite <- Hn. apply Z.div_pos; lia.
  - destruct (final_chunk_lengths (sg_toc g) true (sg_objs g) csize (j mod csize)) as [fl|] eqn:Efl;
      cbn [bind] in Hcc; [|discriminate].
    assert (Hn : 1 + j / csize = sg_nchunks gc) by congruence.
    assert (Hf : Some fl = sg_final gc) by congruence. clear Hcc.
    assert (Hrem : 0 <= j mod csize < csize) by (apply Z.mod_pos_bound; lia).
    destruct (final_chunk_lengths_ok _ _ _ _ _ _ Efl Hdq Hrem Hnvals) as [Hflok Hcase].
    assert (Hq : 0 <= j / csize) by (apply Z.div_pos; lia).
    split; [|rewrite <- Hn; apply Z.add_nonneg_nonneg; [discriminate|exact Hq]].
    (* entries of the override, seen from the unique object of a path *)
    assert (Hentry : forall o x, In o (sg_objs g) -> alookup (so_path o) fl = Some x ->
                                 so_has_data o = true /\ 0 <= x <= so_nvals o).
    { intros o x Ho Hx. destruct (Hflok _ _ Hx) as (o' & Ho' & Hd' & Hp' & Hb).
      assert (o' = o) by (apply (NoDup_map_inj so_path (sg_objs g)); assumption). subst o'. split; assumption. }
    assert (Hlayc : layout_inv gc = true).
    { destruct lay; [| |contradiction].
      - (* contiguous: obj_inv with the override *)
        unfold layout_inv. rewrite (seg_layout_ext g gc Hobjs Htoc), Hobjs, Hcs, Hlay, <- Hf.
        unfold layout_inv in Hlayg. rewrite Hcs, Hlay, Hfing in Hlayg.
        apply forallb_forall. intros o Ho. rewrite forallb_forall in Hlayg.
        apply obj_inv_final; [exact (Hlayg o Ho)| |].
        + intros x Hx. exact (proj2 (Hentry o x (proj1 (data_objs_In _ _ Ho)) Hx)).
        + intros Hs. destruct Hcase as [->|Hall]; [reflexivity|]. exfalso. exact (Hall o Ho Hs).
      - (* interleaved: layout_inv does not look at the override *)
        unfold layout_inv. rewrite (seg_layout_ext g gc Hobjs Htoc), Hobjs, Hcs, Hlay.
        unfold layout_inv in Hlayg. rewrite Hcs, Hlay in Hlayg. exact Hlayg. }
    unfold objects_inv.
    assert (Hc0 : 0 <= chan_chunk path gc).
    { unfold chan_chunk, segment_object. destruct (alookup path (sg_index gc)) as [i|]; [|lia].
      destruct (nth_error (sg_objs gc) i) as [o|] eqn:En; [|lia].
      destruct (so_has_data o); [|lia]. apply nth_error_In in En. rewrite Hobjs in En. exact (Hnvals o En). }
    apply andb_true_intro. split; [lia|].
    destruct (chan_chunk path gc =? 0) eqn:Ec; [reflexivity|].
    apply andb_true_intro. split; [|exact Hlayc].
    unfold final_inv, chan_final. rewrite <- Hf.
    destruct (alookup path fl) as [x|] eqn:Ex; [|lia].
    destruct (Hflok _ _ Ex) as (o & Ho & Hd & Hp & Hb).
    assert (Hchunk : chan_chunk path gc = so_nvals o).
    { unfold chan_chunk. rewrite (segment_object_find gc path Hidx) by (rewrite Hobjs; exact Hnd).
      rewrite Hobjs. destruct (obj_for path (sg_objs g)) as [o'|] eqn:Eo.
      - destruct (obj_for_some _ _ _ Eo) as [Ho' Hp'].
        assert (o' = o) by (apply (NoDup_map_inj so_path (sg_objs g)); try assumption; congruence).
        subst o'. rewrite Hd. reflexivity.
      - exfalso. apply (proj1 (obj_for_none path (sg_objs g)) Eo). rewrite <- Hp. apply in_map. exact Ho. }
    lia.
Qed.

(* ---- all records of the cut file ------------------------------------------------------------ *)

Definition seg_facts (g : segment) : Prop :=
  layout_inv g = true /\ sg_final g = None /\ Forall obj_shape (sg_objs g) /\ NoDup (map so_path (sg_objs g)).

Lemma cut_segs_objects_inv path : forall segs pos k gs gsc n chunkss,
  cut_segs pos segs k gs gsc n -> segs_at pos segs gs -> segs_encode gs segs chunkss ->
  (forall g, In g gs -> seg_facts g) ->
  forall gc, In gc gsc ->
    objects_inv path (with_index gc) = true /\ 0 <= sg_nchunks gc /\
    exists g, In g gs /\ sg_pos gc = sg_pos g /\ pos <= sg_pos g /\ sg_pos g + 4 <= k.
Proof.
  intros segs pos k gs gsc n chunkss Hcs.
  revert chunkss.
  induction Hcs as [pos k|pos s r k g gs Hk|pos s r k g gs gc Hk Hc|pos s r k g gs gsc n Hk _ IH];
    intros chunkss Hat Henc Hfacts gc0 Hgc0.
  - destruct Hgc0.
  - destruct Hgc0.
  - destruct Hgc0 as [<-|[]].
    inversion Hat as [|pos' s' r' g0 gs' Hg0 Hat']; subst.
    inversion Henc as [|g1 gs1 s1 r1 cs css Hcs1 Henc']; subst.
    destruct (Hfacts g (or_introl eq_refl)) as (Hlay & Hfin & Hsh & Hnd).
    pose proof Hg0 as (Hpos & _ & Hdata & _ & _ & Hcc).
    assert (Hcut' : cut_of (with_index g) k (with_index gc)) by exact Hc.
    destruct (cut_seg_objects_inv path g (with_index gc) (fs_data s) cs k Hcs1 Hcc Hlay Hfin Hsh Hnd Hc eq_refl)
      as [Hobj Hn].
    { unfold fseg_len in Hk. rewrite Hdata. lia. }
    split; [exact Hobj|]. split; [exact Hn|].
    exists g. split; [left; reflexivity|]. destruct Hc as (Hp & _). split; [exact Hp|].
    pose proof (blen_nonneg (fs_meta_bytes s)). rewrite Hpos. split; lia.
  - inversion Hat as [|pos' s' r' g0 gs' Hg0 Hat']; subst.
    inversion Henc as [|g1 gs1 s1 r1 cs css Hcs1 Henc']; subst.
    pose proof (blen_nonneg (fs_meta_bytes s)) as Hm0. pose proof (blen_nonneg (fs_data s)) as Hd0.
    destruct Hgc0 as [<-|Hgc0].
    + destruct (Hfacts g (or_introl eq_refl)) as (Hlay & Hfin & Hsh & _).
      pose proof Hg0 as (Hpos & _ & _ & _ & _ & Hcc).
      split; [|split].
      * apply (objects_inv_of_layout path (with_index g)); [exact Hlay|exact Hfin|exact Hsh].
      * exact (calculate_chunks_nonneg _ _ _ _ _ _ Hcc).
      * exists g. split; [left; reflexivity|]. split; [reflexivity|]. unfold fseg_len in Hk. rewrite Hpos. split; lia.
    + destruct (IH css Hat' Henc' (fun g' Hg' => Hfacts g' (or_intror Hg')) gc0 Hgc0)
        as (Hobj & Hn & g' & Hg' & Hp' & Hle & Hk').
      split; [exact Hobj|]. split; [exact Hn|].
      exists g'. split; [right; exact Hg'|]. split; [exact Hp'|]. unfold fseg_len in Hle. split; lia.
Qed.

(* the state TdmsFile.open builds from the cut bytes *)
Theorem ranges_inv_truncated segs st chunkss k :
  wf_file segs -> sm_run segs false = Ok st ->
  segs_encode (rs_segments st) segs chunkss ->
  seg_paths_distinct st ->
  empty_segments_typed (rs_segments st) ->
  0 <= k <= blen (ser_file segs) ->
  exists stc', open_state (take k (ser_file segs)) = Ok stc' /\
               forall path, ranges_inv stc' (take k (ser_file segs)) path = true.
Proof.
  intros Hwf Hrun Henc Hdist Hty Hk.
  pose proof Hrun as Hrun0. unfold sm_run in Hrun.
  destruct (cut_trace segs false k 0 None [] rstate0 st Hrun)
    as (stc & gs & gsc & n & Hcut & Hsegs & Hat & Hsegsc & Hcs & _).
  cbn [rstate0 rs_segments app] in Hsegs, Hsegsc.
  destruct (cut_run_with_index segs k stc Hcut) as (stc' & Hcut' & (Rs & _)).
  exists stc'. split.
  { unfold open_state. rewrite (FileParseProofs.blen_take k (ser_file segs) Hk). rewrite (rd_metadata_cut segs k true Hwf Hk). exact Hcut'. }
  intros path. unfold ranges_inv. apply forallb_forall. intros gc' Hgc'.
  rewrite Rs, Hsegsc in Hgc'. apply in_map_iff in Hgc'. destruct Hgc' as (gc & <- & Hgc).
  pose proof (sm_run_shape segs false st Hwf Hrun0) as Hsh.
  pose proof (segs_encode_content _ _ _ Henc) as Hcon.
  assert (Hfacts : forall g, In g gs -> seg_facts g).
  { intros g Hg. rewrite <- Hsegs in Hg.
    destruct (content_layout_inv segs (rs_segments st) chunkss 0 (sm_segment_positions segs false st Hrun0)
                                 Hcon Hsh Hty g Hg) as [Hlay Hfin].
    unfold seg_paths_distinct in Hdist. rewrite Forall_forall in Hdist.
    split; [exact Hlay|]. split; [exact Hfin|]. split; [exact (Hsh g Hg)|exact (Hdist g Hg)]. }
  rewrite Hsegs in Henc.
  destruct (cut_segs_objects_inv path segs 0 k gs gsc n chunkss Hcs Hat Henc Hfacts gc Hgc)
    as (Hobj & Hn & g & Hg & Hp & Hp0 & Hp4).
  rewrite seg_inv_split, Hobj, andb_true_r.
  destruct (tags_ser segs gs [] [] Hwf Hat g Hg) as [Htag _].
  cbn [app] in Htag. rewrite app_nil_r in Htag.
  change (sg_pos (with_index gc)) with (sg_pos gc). change (sg_nchunks (with_index gc)) with (sg_nchunks gc).
  rewrite Hp, (read_at_take (sg_pos g) 4 k (ser_file segs) Hp0 Hp4), Htag.
  change (bytes_eqb TAG_DATA TAG_DATA) with true. cbn [andb]. lia.
Qed.

(* ---- fetched and returned, on the cut file --------------------------------------------------- *)

Theorem fetch_and_values_truncated segs st h chunkss k :
  wf_file segs ->
  sm_run segs false = Ok st ->
  build_hierarchy (rs_om st) = Ok h ->
  segs_encode (rs_segments st) segs chunkss ->
  om_paths_canonical (rs_om st) ->
  typed_objects_are_channels (rs_om st) ->
  seg_paths_distinct st ->
  empty_segments_typed (rs_segments st) ->
  0 <= k <= blen (ser_file segs) ->
  exists stc hc chunks_c stc',
    build_hierarchy (rs_om stc) = Ok hc /\
    rd_all (take k (ser_file segs)) = Ok (expected_tokens stc hc chunks_c, true) /\
    (forall p, is_prefix (chan_values p chunks_c) (chan_values p (concat chunkss))) /\
    open_state (take k (ser_file segs)) = Ok stc' /\
    (forall path, ranges_inv stc' (take k (ser_file segs)) path = true) /\
    forall c offs len, In c (all_channels hc) -> 0 <= offs -> len_nonneg len ->
      exists views svs plan rs s e,
        meta_views stc' (ch_path c) = Ok views /\ wf unit views = true /\
        total_values unit views = ch_len c /\
        channel_view (take k (ser_file segs)) (ch_path c) = Ok (svs, ch_dtype c) /\
        lz_plan unit views offs len = Ok plan /\ lz_plan bytes svs offs len = Ok plan /\
        lz_plan_bytes (take k (ser_file segs)) (ch_path c) offs len = Ok plan /\ NoDup plan /\
        (forall j cc, In (j, cc) plan <->
           exists sv, 0 <= j /\ nth_error views (Z.to_nat j) = Some sv /\
                      sv_chunk sv <> 0 /\ 0 <= cc < sv_nchunks sv /\
                      chunk_start unit (pre unit views j) sv cc < win_end (ch_len c) offs len /\
                      offs < chunk_end unit (pre unit views j) sv cc) /\
        lz_ranges stc' (take k (ser_file segs)) (ch_path c) offs len = Ok rs /\
        (forall pos n, In (pos, n) rs ->
           (exists j g, seg_visited views offs len j /\
                        nth_error (rs_segments stc') (Z.to_nat j) = Some g /\ pos = sg_pos g /\ n = 4) \/
           (0 <= n /\ forall b, pos <= b < pos + n ->
                        exists jc, In jc plan /\ in_chunk_window stc' (ch_path c) jc b)) /\
        (forall j, s <= j <= e -> seg_visited views offs len j) /\
        total_bytes rs <= 4 * Z.max 0 (e - s + 1) + SegState.zsum (map (chunk_cost stc' (ch_path c)) plan) /\
        lz_read_bytes (take k (ser_file segs)) (ch_path c) offs len
        = Ok (window_of offs len (chan_values (ch_path c) chunks_c)).
Proof.
  intros Hwf Hrun Hh Henc Hcanon Hshape Hdist Hty Hk.
  destruct (cut_read_lazy_core segs st h chunkss k Hwf Hrun Hh Henc Hcanon Hshape Hdist Hk)
    as (stc & hc & cc & _ & Hhc & Hread & Hpre & _ & _ & _ & Hview & Hunt).
  destruct (ranges_inv_truncated segs st chunkss k Hwf Hrun Henc Hdist Hty Hk) as (stc' & Hopen & Hinv).
  exists stc, hc, cc, stc'. split; [exact Hhc|]. split; [exact Hread|]. split; [exact Hpre|].
  split; [exact Hopen|]. split; [exact Hinv|].
  intros c offs len Hc Hoffs Hlen.
  set (D := take k (ser_file segs)) in *.
  destruct (Hview c Hc) as (svs & Hv & Hwfs & Hfull & Htotb).
  destruct (ranges_top stc' D (ch_path c) offs len (Hinv _) Hoffs Hlen)
    as (views & plan & rs & Hmv & Hwfv & Hplan & Hrs & Hin & (s & e & Hvis & Hbound)).
  pose proof (view_shapes D (ch_path c) stc' svs (ch_dtype c) views Hopen (Hinv _) Hv Hmv) as Hsh.
  assert (Htot : total_values unit views = ch_len c).
  { rewrite <- (total_values_shape bytes unit svs views Hsh). exact Htotb. }
  destruct (LazyTopProofs.plan_exact unit views offs len Hwfv Hoffs Hlen) as (plan' & Hplan' & Hiff).
  rewrite Hplan in Hplan'. injection Hplan' as <-.
  pose proof (lz_plan_shape bytes unit svs views offs len Hsh) as Hpb. rewrite Hplan in Hpb.
  exists views, svs, plan, rs, s, e.
  split; [exact Hmv|]. split; [exact Hwfv|]. split; [exact Htot|]. split; [exact Hv|].
  split; [exact Hplan|]. split; [exact Hpb|]. split.
  { unfold lz_plan_bytes. rewrite Hv. cbn [bind]. exact Hpb. }
  split; [exact (plan_nodup views offs len plan Hplan)|]. split.
  { intros j cc0. rewrite <- Htot. exact (Hiff j cc0). }
  split; [exact Hrs|]. split; [exact Hin|]. split; [exact Hvis|]. split; [exact Hbound|].
  unfold lz_read_bytes. rewrite Hv. cbn [bind].
  destruct (ch_dtype c) as [dt|] eqn:Edt.
  - rewrite (LazyTopProofs.window_correct bytes zero_value (recv_of (Some dt)) svs offs len Hwfs Hoffs Hlen).
    unfold LazyWindowProofs.window. rewrite Hfull. reflexivity.
  - rewrite (Hunt c Hc Edt), window_of_nil. reflexivity.
Qed.
