(* C05 on bytes, layer 0: facts about Model/IoPlan.v alone that the byte-level
   tie needs and Proofs/IoPlanProofs.v does not state:

     chan_values_length   on a well-formed abstract file a channel's value list
                          has chan_len entries
     slice_value          channel[a:b:c] on a fresh state (IoPlan.slice_plan, the window
                          read, the stride) is CPython's slice (Base/PySlice.v
                          py_slice3) of the channel's value list, zero-length channels
                          included; step 0 = ValueError
     index_value          channel[i] on a fresh state (IoPlanProofs.index_out: index
                          table, searchsorted, chunk arithmetic, seeks and the read
                          of ONE chunk) is the i-th entry of the channel's value
                          list, IndexError outside [-len, len)
   (IoPlanProofs proves that the output does not depend on the history; which
   value it is was left to the chunk arithmetic.) *)
From Coq Require Import List ZArith Bool Arith Lia ZifyBool.
Import ListNotations.
From NpTdms Require Import Base.Res Base.PySlice Model.IoPlan Proofs.IoPlanProofs.
Local Open Scope Z_scope.
Ltac Zify.zify_post_hook ::= Z.to_euclidean_division_equations.

(* ---- lists ------------------------------------------------------------------ *)

Lemma firstn_add {A} : forall a r (l : list A), firstn (a + r) l = firstn a l ++ firstn r (skipn a l).
Proof.
  induction a as [|a IH]; intros r l; [reflexivity|].
  destruct l as [|x l]; [cbn; rewrite firstn_nil; reflexivity|].
  cbn [Nat.add firstn skipn app]. rewrite IH. reflexivity.
Qed.

Lemma firstn_firstn_le {A} : forall r n (l : list A), (r <= n)%nat -> firstn r (firstn n l) = firstn r l.
Proof. intros r n l H. rewrite firstn_firstn. rewrite Nat.min_l by exact H. reflexivity. Qed.

Lemma nth_error_app_len {A} (a b : list A) n m :
  length a = n -> nth_error (a ++ b) (n + m) = nth_error b m.
Proof. intros <-. rewrite nth_error_app2 by lia. f_equal. lia. Qed.

(* in a concatenation of blocks of the same positive length, entry m lies in
   block m / n at position m mod n *)
Lemma nth_error_flat_map_const {A B} (g : A -> list B) (n : nat) : (0 < n)%nat ->
  forall (l : list A) (m : nat),
    Forall (fun x => length (g x) = n) l ->
    nth_error (flat_map g l) m =
    match nth_error l (m / n) with
    | Some x => nth_error (g x) (m mod n)
    | None => None
    end.
Proof.
  intros Hn. induction l as [|x l IH]; intros m Hall.
  - cbn [flat_map]. destruct m; destruct (_ / n)%nat; reflexivity.
  - inversion Hall as [|y l' Hx Hl]; subst y l'. cbn [flat_map].
    destruct (lt_dec m n) as [Hlt|Hge].
    + rewrite nth_error_app1 by lia. rewrite Nat.div_small, Nat.mod_small by exact Hlt. reflexivity.
    + rewrite nth_error_app2 by lia. rewrite Hx, (IH (m - n)%nat Hl).
      assert (Hd : (m / n = S ((m - n) / n))%nat).
      { replace m with ((m - n) + 1 * n)%nat at 1 by lia. rewrite Nat.div_add by lia. lia. }
      assert (Hm : (m mod n = (m - n) mod n)%nat).
      { replace m with ((m - n) + 1 * n)%nat at 1 by lia. rewrite Nat.mod_add by lia. reflexivity. }
      rewrite Hd, Hm. reflexivity.
Qed.

(* ---- lengths -------------------------------------------------------------------- *)

Lemma chunk_chan_vals_find objs c ch o vs :
  find (fun ov => o_chan (fst ov) =? ch) (combine objs c) = Some (o, vs) ->
  chunk_chan_vals objs c ch = vs.
Proof. intros H. unfold chunk_chan_vals. rewrite H. reflexivity. Qed.

Lemma chunk_chan_vals_none objs c ch :
  find (fun o => o_chan o =? ch) objs = None -> chunk_chan_vals objs c ch = [].
Proof. intros H. unfold chunk_chan_vals. rewrite (find_combine_none ch objs c H). reflexivity. Qed.

Lemma chunk_chan_vals_length f s c ch o :
  seg_ok f s = true -> In c (s_chunks s) -> seg_obj s ch = Some o ->
  Z.of_nat (length (chunk_chan_vals (s_objs s) c ch)) = o_nvals o.
Proof.
  intros Hok Hin Ho. pose proof (seg_ok_chunk f s c Hok Hin) as Hc.
  destruct (find_combine ch (s_objs s) c o Ho (chunk_ok_length _ _ Hc)) as [vs Hf].
  rewrite (chunk_chan_vals_find _ _ _ _ _ Hf).
  apply (chunk_ok_len (s_objs s) c o vs Hc). apply find_some in Hf. tauto.
Qed.

Lemma length_flat_map_const {A B} (g : A -> list B) (n : nat) (l : list A) :
  Forall (fun x => length (g x) = n) l -> length (flat_map g l) = (n * length l)%nat.
Proof.
  induction 1 as [|x l Hx _ IH]; [cbn; lia|]. cbn [flat_map length]. rewrite app_length, Hx, IH. lia.
Qed.

Lemma seg_chan_values_length f s ch :
  seg_ok f s = true -> Z.of_nat (length (seg_chan_values s ch)) = seg_num_values s ch.
Proof.
  intros Hok. unfold seg_chan_values, seg_num_values.
  destruct (seg_obj s ch) as [o|] eqn:Eo.
  - destruct (seg_ok_obj f s ch o Hok Eo) as (Hnv & _).
    rewrite (length_flat_map_const _ (Z.to_nat (o_nvals o))).
    + unfold num_chunks. lia.
    + apply Forall_forall. intros c Hc. pose proof (chunk_chan_vals_length f s c ch o Hok Hc Eo). lia.
  - rewrite (length_flat_map_const _ 0%nat); [lia|].
    apply Forall_forall. intros c _. unfold seg_obj in Eo. rewrite (chunk_chan_vals_none _ c ch Eo). reflexivity.
Qed.

Lemma flat_map_values_length f ch : forall segs,
    Forall (fun s => seg_ok f s = true) segs ->
    Z.of_nat (length (flat_map (fun s => seg_chan_values s ch) segs))
    = sumz (map (fun s => seg_num_values s ch) segs).
Proof.
  induction 1 as [|s segs Hs _ IH]; [reflexivity|].
  cbn [flat_map map]. rewrite app_length, sumz_cons, <- IH, <- (seg_chan_values_length f s ch Hs). lia.
Qed.

Lemma wf_all_segs f : wf_file f = true -> Forall (fun s => seg_ok f s = true) (f_segs f).
Proof. intros H. apply Forall_forall. intros s Hs. apply wf_seg; assumption. Qed.

Theorem chan_values_length f ch :
  wf_file f = true -> Z.of_nat (length (chan_values f ch)) = chan_len f ch.
Proof.
  intros Hwf. unfold chan_values. rewrite (flat_map_values_length f ch _ (wf_all_segs f Hwf)). reflexivity.
Qed.

(* ---- the block of a segment, with its start made explicit --------------------- *)

Lemma cfi_block_at : forall f ch j,
    wf_file f = true -> 0 <= j < chan_len f ch ->
    exists i s o,
      nth_error (f_segs f) i = Some s /\ seg_obj s ch = Some o /\ 0 < o_nvals o /\
      let start := sumz (firstn i (seg_nums f ch)) in
      start <= j < start + o_nvals o * Z.of_nat (num_chunks s) /\
      chunk_for_index f (build_index f ch) ch j
      = Some (s, Z.to_nat ((j - start) / o_nvals o), start + (j - start) / o_nvals o * o_nvals o).
Proof.
  intros f ch j Hwf Hj. rewrite chan_len_sumz in Hj.
  pose proof (seg_nums_nonneg f ch Hwf) as Hnn.
  unfold build_index.
  destruct (first_pos (seg_nums f ch)) as [a|] eqn:Ea;
    [|rewrite (first_pos_none _ Hnn Ea) in Hj; lia].
  destruct (last_pos (seg_nums f ch)) as [b|] eqn:Eb;
    [|rewrite (last_pos_none _ Hnn Eb) in Hj; lia].
  destruct (mid_facts _ a b Hnn Ea Eb) as [Hab [Hsum [Hlen [Hnth _]]]].
  destruct (first_pos_spec _ a Hnn Ea) as (_ & Hzero & _).
  set (mid := firstn (S b - a) (skipn a (seg_nums f ch))) in *.
  assert (Hmnn : nonneg mid) by (apply nonneg_firstn, nonneg_skipn, Hnn).
  destruct (ss_right_cumsum mid 0 j Hmnn ltac:(lia) ltac:(lia)) as [Hr Hb2].
  set (rel := ss_right (cumsum 0 mid) j) in *.
  destruct (nth_error mid rel) as [m|] eqn:Em;
    [|apply nth_error_None in Em; lia].
  rewrite (sumz_firstn_S mid rel m Em) in Hb2.
  assert (Hstart : sumz (firstn (a + rel) (seg_nums f ch)) = sumz (firstn rel mid)).
  { rewrite firstn_add, sumz_app, Hzero. unfold mid. rewrite firstn_firstn_le by lia. lia. }
  assert (Es : nth_error (seg_nums f ch) (a + rel) = Some m) by (rewrite <- Hnth by lia; exact Em).
  unfold seg_nums in Es. rewrite nth_error_map in Es.
  destruct (nth_error (f_segs f) (a + rel)) as [s|] eqn:Eseg; [|discriminate].
  simpl in Es. inversion Es as [Hm]. clear Es.
  assert (Hin : In s (f_segs f)) by (eapply nth_error_In; exact Eseg).
  pose proof (wf_seg f s Hwf Hin) as Hok.
  unfold seg_num_values in Hm.
  destruct (seg_obj s ch) as [o|] eqn:Eo; [|lia].
  destruct (seg_ok_obj f s ch o Hok Eo) as [Hnv _].
  exists (a + rel)%nat, s, o. split; [exact Eseg|]. split; [exact Eo|]. split; [exact Hnv|].
  cbv zeta. fold (seg_nums f ch). rewrite Hstart.
  set (start := sumz (firstn rel mid)) in *.
  split; [lia|].
  unfold chunk_for_index. fold rel. rewrite Eseg, Eo.
  destruct (o_nvals o <=? 0) eqn:E0; [lia|].
  assert (Hst : match rel with O => Some 0 | S r => nth_error (cumsum 0 mid) r end = Some start).
  { destruct rel as [|r] eqn:Er.
    - unfold start. rewrite firstn_O, sumz_nil. reflexivity.
    - rewrite nth_error_cumsum by lia. unfold start. f_equal. }
  rewrite Hst.
  assert (0 <= (j - start) / o_nvals o) by (apply Z.div_pos; lia).
  destruct ((j - start) / o_nvals o <? 0) eqn:E1; [lia|]. reflexivity.
Qed.

(* the chunk the index arithmetic selects, read on a fresh position: exactly the
   channel's values of that chunk *)
Lemma read_chunk_vals : forall f s o k c ch p,
    seg_ok f s = true -> seg_obj s ch = Some o -> nth_error (s_chunks s) k = Some c ->
    fst (read_chunk_for_index f s k ch p) = Vals (chunk_chan_vals (s_objs s) c ch).
Proof.
  intros f s o k c ch p Hok Ho Ec.
  assert (Hne : s_objs s <> []).
  { unfold seg_obj in Ho. destruct (s_objs s); [discriminate|discriminate]. }
  destruct (seg_ok_raw f s Hok Hne) as [Hraw _].
  pose proof (seg_ok_chunk f s c Hok (nth_error_In _ _ Ec)) as Hc.
  pose proof (chunk_ok_length _ _ Hc) as Hlen.
  destruct (find_combine ch (s_objs s) c o Ho Hlen) as [vs Hf].
  rewrite (chunk_chan_vals_find _ _ _ _ _ Hf).
  unfold read_chunk_for_index. rewrite Hraw. cbn [negb].
  unfold verify_segment_start. rewrite seek_chunk_pos.
  destruct (s_il s) eqn:Eil.
  - unfold read_il. rewrite Z.eqb_refl.
    rewrite (skipn_nth_error_cons _ _ _ Ec). cbn [firstn]. unfold il_cols. cbn [fold_left].
    rewrite zip_app_nil by exact Hlen. rewrite assoc_combine_find, Hf. reflexivity.
  - rewrite Ec.
    pose proof (chan_walk_hit f ch (combine (s_objs s) c) (chunk_pos s k) (chunk_pos s k) o vs Hf) as Hw.
    destruct (chan_walk f (chunk_pos s k) (combine (s_objs s) c) ch (chunk_pos s k) (chunk_pos s k)) as [d q].
    simpl in Hw. subst d. reflexivity.
Qed.

(* ---- channel[i] ------------------------------------------------------------------ *)

Lemma nth_error_split_at {A} (l : list A) i x :
  nth_error l i = Some x -> l = firstn i l ++ x :: skipn (S i) l.
Proof.
  intros H. rewrite <- (firstn_skipn i l) at 1. f_equal. apply skipn_nth_error_cons. exact H.
Qed.

Lemma Forall_firstn {A} (P : A -> Prop) n l : Forall P l -> Forall P (firstn n l).
Proof.
  intros H. apply Forall_forall. intros x Hx. rewrite Forall_forall in H. apply H.
  apply (in_firstn n l x Hx).
Qed.

Theorem index_pure_value f ch j :
  wf_file f = true -> 0 <= j < chan_len f ch ->
  exists v, nth_error (chan_values f ch) (Z.to_nat j) = Some v /\ index_pure f ch j = OVal v.
Proof.
  intros Hwf Hj.
  destruct (cfi_block_at f ch j Hwf Hj) as (i & s & o & Eseg & Eo & Hnv & Hb & Hcfi).
  cbv zeta in Hb, Hcfi. set (start := sumz (firstn i (seg_nums f ch))) in *.
  assert (Hin : In s (f_segs f)) by (eapply nth_error_In; exact Eseg).
  pose proof (wf_seg f s Hwf Hin) as Hok.
  set (nv := o_nvals o) in *. set (q := (j - start) / nv) in *.
  assert (Hq : 0 <= q < Z.of_nat (num_chunks s)).
  { unfold q. split; [apply Z.div_pos; lia|]. apply Z.div_lt_upper_bound; lia. }
  unfold num_chunks in Hq, Hb.
  destruct (nth_error (s_chunks s) (Z.to_nat q)) as [c|] eqn:Ec; [|apply nth_error_None in Ec; lia].
  pose proof (read_chunk_vals f s o (Z.to_nat q) c ch 0 Hok Eo Ec) as Hr.
  pose proof (chunk_chan_vals_length f s c ch o Hok (nth_error_In _ _ Ec) Eo) as Hclen. fold nv in Hclen.
  set (vs := chunk_chan_vals (s_objs s) c ch) in *.
  (* position of j inside the channel's value list *)
  assert (Hpre : Z.of_nat (length (flat_map (fun s => seg_chan_values s ch) (firstn i (f_segs f)))) = start).
  { rewrite (flat_map_values_length f ch).
    - unfold start, seg_nums. rewrite firstn_map. reflexivity.
    - apply Forall_firstn. apply wf_all_segs. exact Hwf. }
  assert (Hnth : nth_error (chan_values f ch) (Z.to_nat j) = nth_error vs (Z.to_nat ((j - start) mod nv))).
  { unfold chan_values. rewrite (nth_error_split_at _ _ _ Eseg) at 1.
    rewrite flat_map_app. cbn [flat_map].
    replace (Z.to_nat j) with (Z.to_nat start + Z.to_nat (j - start))%nat by lia.
    rewrite (nth_error_app_len _ _ (Z.to_nat start)) by (apply Nat2Z.inj; rewrite Hpre; lia).
    rewrite nth_error_app1 by (pose proof (seg_chan_values_length f s ch Hok) as Hl;
                               unfold seg_num_values in Hl; rewrite Eo in Hl; fold nv in Hl;
                               unfold num_chunks in Hl; lia).
    unfold seg_chan_values.
    rewrite (nth_error_flat_map_const _ (Z.to_nat nv)).
    - replace (Z.to_nat (j - start) / Z.to_nat nv)%nat with (Z.to_nat q)
        by (unfold q; rewrite <- Z2Nat.inj_div by lia; reflexivity).
      rewrite Ec. fold vs.
      replace (Z.to_nat (j - start) mod Z.to_nat nv)%nat with (Z.to_nat ((j - start) mod nv))
        by (rewrite Z2Nat.inj_mod by lia; reflexivity).
      reflexivity.
    - lia.
    - apply Forall_forall. intros c' Hc'.
      pose proof (chunk_chan_vals_length f s c' ch o Hok Hc' Eo). fold nv in H. lia. }
  assert (Hm : 0 <= (j - start) mod nv < nv) by (apply Z.mod_pos_bound; lia).
  destruct (nth_error vs (Z.to_nat ((j - start) mod nv))) as [v|] eqn:Ev;
    [|apply nth_error_None in Ev; lia].
  exists v. split; [exact Hnth|].
  unfold index_pure. rewrite Hcfi, Hr. unfold val_at.
  replace (j - (start + q * nv)) with ((j - start) mod nv) by (unfold q; lia).
  destruct ((j - start) mod nv <? 0) eqn:E; [lia|]. rewrite Ev. reflexivity.
Qed.

(* channel[i] on a fresh state of a well-formed file: Python indexing of the value list *)
Definition list_index (vs : list Z) (i : Z) : out :=
  let n := Z.of_nat (length vs) in
  let index := if i <? 0 then n + i else i in
  if (index <? 0) || (n <=? index) then OErr
  else match nth_error vs (Z.to_nat index) with Some v => OVal v | None => OErr end.

Theorem index_value f ch i :
  wf_file f = true -> index_out f ch i = list_index (chan_values f ch) i.
Proof.
  intros Hwf. unfold index_out, list_index. rewrite (chan_values_length f ch Hwf).
  set (n := chan_len f ch). set (index := if i <? 0 then n + i else i).
  destruct ((index <? 0) || (n <=? index)) eqn:E; [reflexivity|].
  destruct (index_pure_value f ch index Hwf ltac:(lia)) as (v & Hv & Hp).
  rewrite Hv, Hp. reflexivity.
Qed.

(* ---- channel[a:b:c] ---------------------------------------------------------------- *)

Ltac split_ifs :=
  repeat match goal with
         | |- context [if ?b then _ else _] =>
           lazymatch b with
           | context [if _ then _ else _] => fail
           | _ => let E := fresh "E" in destruct b eqn:E; try lia
           end
         end.

Lemma plan_eq3 (a a' b b' k : Z) :
  a = a' -> b = b' -> Some (Some (a, b, k)) = Some (Some (a', b', k)).
Proof. intros -> ->. reflexivity. Qed.

(* positive step: nothing to read when the adjusted bounds cross, else one read of [a, b) *)
Lemma plan_pos : forall n start stop k, 0 <= n -> 0 < k ->
  let a := adjust_start n start k in
  let b := adjust_stop n stop k in
  (slice_plan n start stop (Some k) = Some None /\ b <= a) \/
  (slice_plan n start stop (Some k) = Some (Some (a, b - a, k)) /\ 0 <= a <= b).
Proof.
  intros n start stop k Hn Hk a b. subst a b.
  unfold slice_plan, adjust_start, adjust_stop, adjust_index. cbv zeta.
  destruct k as [|k|k]; try lia.
  destruct start as [s|]; destruct stop as [t|]; split_ifs;
    first [ left; split; [reflexivity|lia] | right; split; [apply plan_eq3; lia|lia] ].
Qed.

(* negative step: nothing to read unless stop < start (adjusted), else one read of (b, a] *)
Lemma plan_neg : forall n start stop k, 0 <= n -> k < 0 ->
  let a := adjust_start n start k in
  let b := adjust_stop n stop k in
  (slice_plan n start stop (Some k) = Some None /\ a <= b) \/
  (slice_plan n start stop (Some k) = Some (Some (b + 1, a - b, k)) /\ -1 <= b <= a).
Proof.
  intros n start stop k Hn Hk a b. subst a b.
  unfold slice_plan, adjust_start, adjust_stop, adjust_index. cbv zeta.
  destruct k as [|k|k]; try lia.
  destruct start as [s|]; destruct stop as [t|]; split_ifs;
    first [ left; split; [reflexivity|lia] | right; split; [apply plan_eq3; lia|lia] ].
Qed.

Lemma every_nth_aux : forall (l : list Z) K j, (1 <= K)%nat ->
    IoPlan.every_nth (K - 1) j l = every_aux K j l.
Proof.
  induction l as [|x l IH]; intros K j HK; [reflexivity|].
  cbn [IoPlan.every_nth every_aux]. destruct j as [|j]; [f_equal|]; apply IH; exact HK.
Qed.

Lemma strided_pos vs k : 0 < k -> strided vs k = every k vs.
Proof.
  intros Hk. unfold strided, every. replace (0 <? k) with true by lia.
  apply every_nth_aux. lia.
Qed.

Lemma strided_neg vs k : k < 0 -> strided vs k = every (- k) (rev vs).
Proof.
  intros Hk. unfold strided, every. replace (0 <? k) with false by lia.
  apply every_nth_aux. lia.
Qed.

Definition slice_out (vs : list Z) (a b c : option Z) : out :=
  match py_slice3 vs a b c with Ok r => OVals r | Err _ => OErr end.

Lemma fresh_read f ch offs len : 0 <= offs -> 0 <= len ->
  snd (do_read f init ch offs (Some len)) = OVals (sl offs (offs + len) (chan_values f ch)).
Proof.
  intros Ho Hl. destruct (do_read_spec f init ch offs (Some len) (tbl_ok_nil f)) as (H & _).
  rewrite H. unfold read_out. replace ((offs <? 0) || (len <? 0)) with false by lia.
  unfold window, sl, zfirstn, zskipn. replace (offs + len - offs) with len by lia. reflexivity.
Qed.

Lemma slice_some f ch a b k :
  wf_file f = true -> k <> 0 ->
  snd (do_slice f init ch a b (Some k)) = slice_out (chan_values f ch) a b (Some k).
Proof.
  intros Hwf Hk. unfold do_slice, slice_out, py_slice3.
  rewrite <- (chan_values_length f ch Hwf). fold (zlen (chan_values f ch)).
  set (L := chan_values f ch). pose proof (zlen_nonneg L) as Hn.
  replace (k =? 0) with false by lia.
  destruct (Z_lt_le_dec 0 k) as [Hpos|Hneg].
  - replace (k >? 0) with true by lia.
    destruct (plan_pos (zlen L) a b k Hn Hpos) as [[Hp Hba]|[Hp Hab]]; rewrite Hp.
    + cbn [snd]. rewrite sl_nil_ge by lia. reflexivity.
    + pose proof (fresh_read f ch _ (adjust_stop (zlen L) b k - adjust_start (zlen L) a k)
                             (proj1 Hab) ltac:(lia)) as Hr.
      destruct (do_read f init ch _ _) as [st' o]. cbn [snd] in *. subst o. fold L.
      rewrite strided_pos by lia.
      replace (adjust_start (zlen L) a k + (adjust_stop (zlen L) b k - adjust_start (zlen L) a k))
        with (adjust_stop (zlen L) b k) by lia. reflexivity.
  - assert (Hlt : k < 0) by lia. replace (k >? 0) with false by lia.
    destruct (plan_neg (zlen L) a b k Hn Hlt) as [[Hp Hba]|[Hp Hab]]; rewrite Hp.
    + cbn [snd]. rewrite sl_nil_ge by lia. reflexivity.
    + pose proof (fresh_read f ch (adjust_stop (zlen L) b k + 1)
                             (adjust_start (zlen L) a k - adjust_stop (zlen L) b k)
                             ltac:(lia) ltac:(lia)) as Hr.
      destruct (do_read f init ch _ _) as [st' o]. cbn [snd] in *. subst o. fold L.
      rewrite strided_neg by lia.
      replace (adjust_stop (zlen L) b k + 1 + (adjust_start (zlen L) a k - adjust_stop (zlen L) b k))
        with (adjust_start (zlen L) a k + 1) by lia. reflexivity.
Qed.

(* zero-length channels included: IoPlan.slice_plan has the early return of
   _read_slice (`if self._length == 0: return np.empty(...)`, repair D14) *)
Theorem slice_value f ch a b c :
  wf_file f = true ->
  snd (do_slice f init ch a b c) = slice_out (chan_values f ch) a b c.
Proof.
  intros Hwf. destruct c as [k|].
  - destruct (Z.eq_dec k 0) as [->|Hk]; [reflexivity|]. apply slice_some; assumption.
  - change (do_slice f init ch a b None) with (do_slice f init ch a b (Some 1)).
    rewrite slice_some by (assumption || lia). reflexivity.
Qed.

(* a zero-length channel: every slice with a non-zero step is empty, without touching
   the file (the state does not change); step 0 is a ValueError *)
Theorem slice_zero_length f ch a b c :
  chan_len f ch = 0 -> c <> Some 0 -> forall st,
  do_slice f st ch a b c = (st, OVals []) /\ py_slice3 (@nil Z) a b c = Ok [].
Proof.
  intros Hlen Hc st. split.
  - unfold do_slice, slice_plan. rewrite Hlen.
    destruct c as [[|k|k]|]; try reflexivity. congruence.
  - assert (Hsl : forall x y, sl x y (@nil Z) = []).
    { intros x y. unfold sl, zfirstn, zskipn. rewrite skipn_nil. apply firstn_nil. }
    unfold py_slice3. destruct c as [k|].
    + assert (Hk : k <> 0) by congruence. replace (k =? 0) with false by lia.
      destruct (k >? 0); rewrite Hsl; reflexivity.
    + change (1 =? 0) with false. change (1 >? 0) with true. cbv iota. rewrite Hsl. reflexivity.
Qed.

Example slice_zero_length_example :
  let f := mkFile [0] [] in
  wf_file f = true /\ chan_len f 0 = 0 /\
  snd (do_slice f init 0 (Some (-1)) None None) = OVals [] /\
  slice_out (chan_values f 0) (Some (-1)) None None = OVals [] /\
  snd (do_slice f init 0 None None (Some 0)) = OErr.
Proof. vm_compute. repeat split; reflexivity. Qed.

(* ---- whole histories, in terms of value lists and chunk lists ------------------------ *)

Definition window_out (vs : list Z) (offs : Z) (len : option Z) : out :=
  if (offs <? 0) || (match len with Some l => l <? 0 | None => false end) then OErr
  else OVals (match len with
              | None => zskipn offs vs
              | Some n => zfirstn n (zskipn offs vs)
              end).

Definition nth_or_stop (l : list out) (n : nat) : out :=
  match nth_error l n with Some c => c | None => OStop end.

(* what each annotated operation yields, from the channels' value lists and the
   generators' chunk lists alone *)
Definition spec_out (vals : Z -> list Z) (cseq : Z -> list out) (fseq : list out) (a : aop) : out :=
  match a with
  | AOp (Index ch i) => list_index (vals ch) i
  | AOp (Read ch offs len) => window_out (vals ch) offs len
  | AOp (Slice ch a b c) => slice_out (vals ch) a b c
  | AOp (NewChanGen _ _) => OUnit
  | AOp (NewFileGen _) => OUnit
  | AOp (Next _) => ONoGen
  | ANext (KChan ch) n => nth_or_stop (cseq ch) n
  | ANext KFile n => nth_or_stop fseq n
  | ANextNone => ONoGen
  end.

Lemma annotate_slices : forall ops env ch a b c,
    In (AOp (Slice ch a b c)) (annotate_from env ops) -> In (Slice ch a b c) ops.
Proof.
  induction ops as [|o r IH]; intros env ch a b c H; [contradiction|].
  rewrite annotate_cons in H. destruct H as [H|H]; [|right; exact (IH _ _ _ _ _ H)].
  left. destruct o as [ch' i|ch' offs len|ch' x y z|ch' id|id|id]; cbn [ann1] in H; try discriminate.
  - inversion H. reflexivity.
  - destruct (assoc Nat.eqb id env) as [[k n]|]; discriminate.
Qed.

Lemma fresh_out_spec f a :
  wf_file f = true ->
  fresh_out f a = spec_out (chan_values f) (chan_gen_chunks f) (file_gen_chunks f) a.
Proof.
  intros Hwf. destruct a as [o|k n|]; [| |reflexivity].
  - rewrite (fresh_pure f _ Hwf). destruct o as [ch i|ch offs len|ch x y z|ch id|id|id]; cbn [pure_out spec_out];
      try reflexivity.
    + apply index_value. exact Hwf.
    + apply slice_value. exact Hwf.
  - rewrite (fresh_seq_spec f k n Hwf). destruct k; reflexivity.
Qed.

Theorem run_values f ops :
  wf_file f = true ->
  snd (run f init ops) = map (spec_out (chan_values f) (chan_gen_chunks f) (file_gen_chunks f)) (annotate ops).
Proof.
  intros Hwf. destruct (history_independent_E f ops Hwf) as [_ H]. rewrite H.
  apply map_ext. intros a. apply fresh_out_spec. exact Hwf.
Qed.

Lemma spec_out_ext vals vals' cseq cseq' fseq fseq' a :
  (forall ch, vals ch = vals' ch) -> (forall ch, cseq ch = cseq' ch) -> fseq = fseq' ->
  spec_out vals cseq fseq a = spec_out vals' cseq' fseq' a.
Proof.
  intros Hv Hc ->. destruct a as [o|k n|]; [| |reflexivity].
  - destruct o; cbn [spec_out]; rewrite ?Hv; reflexivity.
  - destruct k; cbn [spec_out]; rewrite ?Hc; reflexivity.
Qed.

Lemma file_with_offsets_chans f g : f_chans f = f_chans g -> forall l offs,
    file_with_offsets f offs l = file_with_offsets g offs l.
Proof.
  intros H. induction l as [|c l IH]; intros offs; [reflexivity|].
  cbn [file_with_offsets]. rewrite IH. unfold file_chunk_out. rewrite H. reflexivity.
Qed.

(* ---- the .offset bookkeeping of tdms_file.data_chunks() -------------------------------- *)

Definition dflt0 (x : option Z) : Z := match x with Some v => v | None => 0 end.

(* the outputs for a list of chunks, each channel's .offset given as a function *)
Fixpoint file_outs (chans : list Z) (before : Z -> Z) (l : list (list (Z * list Z))) : list out :=
  match l with
  | [] => []
  | c :: r =>
    OFChunk (map (fun ch => (ch, (before ch, Vals (ovals (assoc Z.eqb ch c))))) chans)
    :: file_outs chans (fun ch => before ch + Z.of_nat (length (ovals (assoc Z.eqb ch c)))) r
  end.

Lemma file_outs_ext chans : forall l b b', (forall ch, b ch = b' ch) -> file_outs chans b l = file_outs chans b' l.
Proof.
  induction l as [|c l IH]; intros b b' H; [reflexivity|]. cbn [file_outs]. f_equal.
  - f_equal. apply map_ext. intros ch. rewrite H. reflexivity.
  - apply IH. intros ch. rewrite H. reflexivity.
Qed.

Lemma assoc_map_vals' ch : forall c : list (Z * list Z),
    odata (assoc Z.eqb ch (map (fun cv => (fst cv, Vals (snd cv))) c)) = Vals (ovals (assoc Z.eqb ch c)).
Proof.
  induction c as [|[k vs] c IH]; [reflexivity|]. cbn [map assoc fst snd].
  destruct (ch =? k); [reflexivity|exact IH].
Qed.

Lemma add_lens_other ch : forall (l : list (Z * Z)) offsets,
    ~ In ch (map fst l) -> assoc Z.eqb ch (add_lens offsets l) = assoc Z.eqb ch offsets.
Proof.
  induction l as [|[k n] l IH]; intros offsets Hn; [reflexivity|].
  cbn [add_lens]. cbn [map fst In] in Hn. rewrite IH by tauto.
  apply (assoc_set_other Z.eqb zeqb_spec). intros ->. apply Hn. left. reflexivity.
Qed.

Lemma add_lens_assoc ch : forall (c : list (Z * list Z)) offsets,
    NoDup (map fst c) ->
    dflt0 (assoc Z.eqb ch (add_lens offsets (map (fun cv => (fst cv, Z.of_nat (length (snd cv)))) c)))
    = dflt0 (assoc Z.eqb ch offsets) + Z.of_nat (length (ovals (assoc Z.eqb ch c))).
Proof.
  induction c as [|[k vs] c IH]; intros offsets Hnd; [cbn; lia|].
  cbn [map fst] in Hnd. inversion Hnd as [|x y Hnin Hnd']; subst x y.
  cbn [map add_lens fst snd assoc]. destruct (ch =? k) eqn:E.
  - apply Z.eqb_eq in E. subst k. rewrite add_lens_other.
    + rewrite (assoc_set_same Z.eqb zeqb_spec). cbn [dflt0 ovals].
      destruct (assoc Z.eqb ch offsets); reflexivity.
    + rewrite map_map. cbn [fst]. exact Hnin.
  - rewrite (IH _ Hnd'). rewrite (assoc_set_other Z.eqb zeqb_spec) by lia. reflexivity.
Qed.

Theorem file_with_offsets_outs f : forall l offsets,
    Forall (fun c : list (Z * list Z) => NoDup (map fst c)) l ->
    file_with_offsets f offsets l = file_outs (f_chans f) (fun ch => dflt0 (assoc Z.eqb ch offsets)) l.
Proof.
  induction l as [|c l IH]; intros offsets Hall; [reflexivity|].
  inversion Hall as [|x y Hc Hl]; subst x y. cbn [file_with_offsets file_outs]. f_equal.
  - unfold file_chunk_out. f_equal. apply map_ext. intros ch. rewrite assoc_map_vals'.
    destruct (assoc Z.eqb ch offsets); reflexivity.
  - rewrite (IH _ Hl). apply file_outs_ext. intros ch. apply add_lens_assoc. exact Hc.
Qed.
