(* C19, byte level: instances of Proofs/LazyRangesInv.v.

   rc_file, rc2_file (Proofs/ReadCorrect.v) and le_file (Proofs/LazyEagerExamples.v): every
   hypothesis of the file-level theorems is discharged, the invariant holds by the theorem, and
   the read lists of three windows per file are evaluated (vm_compute of lz_ranges_bytes).

   nt_file: the witness that [empty_segments_typed] cannot be dropped from
   ranges_inv_serialised -- every hypothesis of read_correct and the distinct-paths condition
   hold, the state fails ranges_inv (an object that never had a data type is switched on by a
   "matches previous" index in a segment WITHOUT raw data), and the model nevertheless lists
   exactly the tag check and the channel's own bytes.  dev/c19_inv_witness.py replays the three
   requests on /repo: same reads, same values. *)
From Coq Require Import List ZArith Bool Lia.
From Coq Require Import Init.Byte.
Import ListNotations.
From NpTdms Require Import Base.Bytes Base.Res Base.PySlice Model.Tokens Model.TokensWf Model.SegState
     Model.Layout Model.Reader Model.FileSyn Model.LazyRead Model.LazyBytes Model.LazyRanges
     Proofs.SegStateProofs Proofs.LayoutProofs Proofs.FileSynProofs Proofs.ReadCorrect
     Proofs.LazyTopProofs Proofs.LazyWindowProofs
     Proofs.LazyEagerIndex Proofs.LazyEagerView Proofs.LazyEagerTop Proofs.LazyEagerExamples
     Proofs.LazyRangesSeg Proofs.LazyRangesTop Proofs.LazyRangesSer Proofs.LazyRangesLink
     Proofs.LazyRangesInv Proofs.LazyRangesInvCut.
Local Open Scope Z_scope.

Section Examples.
Import String.
Local Open Scope string_scope.

(* ---- the hypothesis on the three example files ------------------------------------------ *)

Example rc_empty_typed : empty_segments_typed (rs_segments rc_st).
Proof. apply empty_segments_typed_b_sound. vm_compute. reflexivity. Qed.
Example rc2_empty_typed : empty_segments_typed (rs_segments rc2_st).
Proof. apply empty_segments_typed_b_sound. vm_compute. reflexivity. Qed.
Example le_empty_typed : empty_segments_typed (rs_segments le_st).
Proof. apply empty_segments_typed_b_sound. vm_compute. reflexivity. Qed.

(* ---- the invariant, by the theorem ---------------------------------------------------------- *)

Definition inv_by_theorem (segs : list fseg) : Prop :=
  exists st', open_state (ser_file segs) = Ok st' /\ forall path, ranges_inv st' (ser_file segs) path = true.

Example rc_inv : inv_by_theorem rc_file.
Proof.
  destruct (ranges_inv_serialised rc_file rc_st rc_chunks rc_wf rc_run rc_encodes rc_empty_typed)
    as (st' & H1 & _ & _ & H2). exists st'. split; assumption.
Qed.

Example rc2_inv : inv_by_theorem rc2_file.
Proof.
  destruct (ranges_inv_serialised rc2_file rc2_st rc2_chunks rc2_wf rc2_run rc2_encodes rc2_empty_typed)
    as (st' & H1 & _ & _ & H2). exists st'. split; assumption.
Qed.

Example le_inv : inv_by_theorem le_file.
Proof.
  destruct (ranges_inv_serialised le_file le_st le_chunks le_wf le_run le_encodes le_empty_typed)
    as (st' & H1 & _ & _ & H2). exists st'. split; assumption.
Qed.

(* ---- the composed theorem on channel "a" of each file: for EVERY window ------------------------ *)

Definition fetch_and_values_on (segs : list fseg) (chunkss : list (list chunk)) (path : bytes) (n : Z) : Prop :=
  forall offs len, 0 <= offs -> len_nonneg len ->
  exists st' views svs dt plan rs s e,
    open_state (ser_file segs) = Ok st' /\
    meta_views st' path = Ok views /\ total_values unit views = n /\
    channel_view (ser_file segs) path = Ok (svs, Some dt) /\
    lz_plan unit views offs len = Ok plan /\ lz_plan bytes svs offs len = Ok plan /\ NoDup plan /\
    lz_ranges_bytes (ser_file segs) path offs len = Ok rs /\
    (forall pos k, In (pos, k) rs ->
       (exists j g, seg_visited views offs len j /\
                    nth_error (rs_segments st') (Z.to_nat j) = Some g /\ pos = sg_pos g /\ k = 4) \/
       (0 <= k /\ forall b, pos <= b < pos + k -> exists jc, In jc plan /\ in_chunk_window st' path jc b)) /\
    (forall j, s <= j <= e -> seg_visited views offs len j) /\
    total_bytes rs <= 4 * Z.max 0 (e - s + 1) + SegState.zsum (map (chunk_cost st' path) plan) /\
    lz_read_bytes (ser_file segs) path offs len = Ok (window_of offs len (chan_values path (List.concat chunkss))).

Lemma fetch_and_values_inst segs st h chunkss c dt :
  wf_file segs -> sm_run segs false = Ok st -> build_hierarchy (rs_om st) = Ok h ->
  segs_encode (rs_segments st) segs chunkss -> om_paths_canonical (rs_om st) ->
  seg_paths_distinct st -> empty_segments_typed (rs_segments st) ->
  In c (all_channels h) -> ch_dtype c = Some dt ->
  fetch_and_values_on segs chunkss (ch_path c) (ch_len c).
Proof.
  intros H1 H2 H3 H4 H5 H6 H7 Hc Hdt offs len Ho Hl.
  destruct (fetch_and_values_file segs st h chunkss H1 H2 H3 H4 H5 H6 H7 c offs len Hc Ho Hl)
    as (st' & views & svs & plan & rs & s & e & A1 & A2 & _ & A4 & A5 & A6 & A7 & _ & A9 & _ & _ & A12 & A13 & A14 & A15 & A16).
  rewrite Hdt in A5, A12.
  exists st', views, svs, dt, plan, rs, s, e.
  repeat (split; [assumption|]). assumption.
Qed.

Example rc_fetch_and_values : fetch_and_values_on rc_file rc_chunks rc_path_a 6.
Proof.
  rewrite <- (proj2 rc_chan_a).
  change 6 with (ch_len (rc_chan rc_h 0)).
  apply (fetch_and_values_inst rc_file rc_st rc_h rc_chunks (rc_chan rc_h 0) 3 rc_wf rc_run rc_hier rc_encodes
           rc_canonical rc_distinct rc_empty_typed (proj1 rc_chan_a)).
  vm_compute. reflexivity.
Qed.

Example rc2_fetch_and_values : fetch_and_values_on rc2_file rc2_chunks rc_path_a 3.
Proof.
  rewrite <- (proj2 rc2_chan_a).
  change 3 with (ch_len (rc_chan rc2_h 0)).
  apply (fetch_and_values_inst rc2_file rc2_st rc2_h rc2_chunks (rc_chan rc2_h 0) 2 rc2_wf rc2_run rc2_hier
           rc2_encodes rc2_canonical rc2_distinct rc2_empty_typed (proj1 rc2_chan_a)).
  vm_compute. reflexivity.
Qed.

Example le_fetch_and_values : fetch_and_values_on le_file le_chunks rc_path_a 6.
Proof.
  rewrite <- (proj2 le_chan_a).
  change 6 with (ch_len (rc_chan le_h 0)).
  apply (fetch_and_values_inst le_file le_st le_h le_chunks (rc_chan le_h 0) 2 le_wf le_run le_hier le_encodes
           le_canonical le_distinct le_empty_typed (proj1 le_chan_a)).
  vm_compute. reflexivity.
Qed.

(* ---- three windows per file, evaluated ------------------------------------------------------------
   rc_file: segments at 0 (raw data at 169, 2 chunks of 19 bytes: a = 8 bytes, b = 11 bytes) and
   207 (raw data at 235, 1 chunk).  read_data(1, 4) on "a" (values 2..5): tag checks at 0 and 207,
   a's 8 bytes in each of the three chunks, never b's 11 bytes. *)
Example rc_windows_eval :
  lz_ranges_bytes (ser_file rc_file) rc_path_a 1 (Some 4)
  = Ok [(0, 4); (169, 8); (177, 0); (188, 8); (196, 0); (207, 4); (235, 8); (243, 0)] /\
  lz_ranges_bytes (ser_file rc_file) rc_path_a 4 None = Ok [(207, 4); (235, 8); (243, 0)] /\
  lz_ranges_bytes (ser_file rc_file) rc_path_b 2 (Some 3) = Ok [(0, 4); (196, 11); (207, 4); (243, 11)] /\
  lz_read_bytes (ser_file rc_file) rc_path_a 1 (Some 4)
  = Ok [hex "02000000"; hex "03000000"; hex "04000000"; hex "05000000"] /\
  lz_plan_bytes (ser_file rc_file) rc_path_a 1 (Some 4) = Ok [(0, 0); (0, 1); (1, 0)].
Proof. vm_compute. repeat split; reflexivity. Qed.

(* rc2_file: one interleaved segment (raw data at 104: 3 rows of 3 bytes); any window reads the
   9 bytes of the one chunk with one read *)
Example rc2_windows_eval :
  lz_ranges_bytes (ser_file rc2_file) rc_path_a 0 None = Ok [(0, 4); (104, 9); (113, 0)] /\
  lz_ranges_bytes (ser_file rc2_file) rc_path_a 1 (Some 1) = Ok [(0, 4); (104, 9); (113, 0)] /\
  lz_ranges_bytes (ser_file rc2_file) rc_path_b 2 (Some 5) = Ok [(0, 4); (104, 9); (113, 0)] /\
  lz_read_bytes (ser_file rc2_file) rc_path_a 1 (Some 1) = Ok [hex "0304"].
Proof. vm_compute. repeat split; reflexivity. Qed.

(* le_file: interleaved x 2 chunks at 104 | "a" absent (segment at 116) | contiguous x 2 chunks,
   "b" before "a" (segment at 187, raw data at 255).  read_data(1, 4) on "a": both interleaved
   chunks in ONE read of 12 bytes, the tag check of the segment without "a" (visited, nothing
   planned there), and a's 2 bytes at 258 behind b's 3. *)
Example le_windows_eval :
  lz_ranges_bytes (ser_file le_file) rc_path_a 1 (Some 4)
  = Ok [(0, 4); (104, 12); (116, 0); (116, 4); (187, 4); (258, 2); (260, 0)] /\
  lz_ranges_bytes (ser_file le_file) rc_path_a 3 None
  = Ok [(0, 4); (110, 6); (116, 0); (116, 4); (187, 4); (258, 2); (260, 0); (263, 2); (265, 0)] /\
  lz_ranges_bytes (ser_file le_file) rc_path_b 3 (Some 6)
  = Ok [(0, 4); (110, 6); (116, 0); (116, 4); (184, 3); (187, 0); (187, 4); (255, 3); (258, 0)] /\
  lz_ranges_bytes (ser_file le_file) rc_path_a 5 (Some 0) = Ok [(187, 4)] /\
  lz_read_bytes (ser_file le_file) rc_path_a 1 (Some 4) = Ok [hex "0304"; hex "0506"; hex "0708"; hex "0a0b"] /\
  lz_plan_bytes (ser_file le_file) rc_path_a 1 (Some 4) = Ok [(0, 0); (0, 1); (2, 0)].
Proof. vm_compute. repeat split; reflexivity. Qed.

(* ---- files cut short ------------------------------------------------------------------------------
   rc_file cut at 190: inside the second chunk of its first segment; a string channel is present,
   so the final-chunk override is EMPTY -- nobody gets a value from the partial chunk.
   le_file cut at 262: inside the second chunk of its last (contiguous, fixed-width) segment: "b"
   keeps 2 of its 3 values there, "a" none.  le_file cut at 111: inside the second interleaved
   chunk, no complete row of it left.  The invariant by the theorem, then evaluated reads. *)
Definition rc_bytes : bytes :=
  hex "5444536d0e00000069120000b3000000000000008d0000000000000004000000010000002fffffffff00000000040000002f276727ffffffff01000000010000006e20000000020000006869080000002f2767272f27612714000000030000000100000002000000000000000100000001000000700300000007000000080000002f2767272f2762271c000000200000000100000002000000000000000b0000000000000000000000010000000200000002000000030000006162630300000004000000000000000300000078797a5444536d08000000691200001300000000000000000000000000000005000000060000000100000003000000717273".
Definition le_bytes : bytes :=
  hex "5444536d2e0000006912000058000000000000004c0000000000000002000000080000002f2767272f276127140000000200000001000000020000000000000000000000080000002f2767272f2762271400000021000000010000000200000000000000000000000102010304000506010708005444536d0e000000691200002b00000000000000280000000000000001000000080000002f2767272f2762271400000021000000010000000300000000000000000000000101015444536d0a000000691200003200000000000000280000000000000001000000080000002f2767272f2761271400000002000000010000000100000000000000000000000001000a0b0100010c0d".

Example rc_ser : ser_file rc_file = rc_bytes.
Proof. vm_compute. reflexivity. Qed.
Example le_ser : ser_file le_file = le_bytes.
Proof. vm_compute. reflexivity. Qed.

Definition cut_inv_by_theorem (segs : list fseg) (k : Z) : Prop :=
  exists st', open_state (take k (ser_file segs)) = Ok st' /\
              forall path, ranges_inv st' (take k (ser_file segs)) path = true.

Example rc_cut_inv : forall k, 0 <= k <= 254 -> cut_inv_by_theorem rc_file k.
Proof.
  intros k Hk. apply (ranges_inv_truncated rc_file rc_st rc_chunks k rc_wf rc_run rc_encodes rc_distinct rc_empty_typed).
  replace (blen (ser_file rc_file)) with 254 by (vm_compute; reflexivity). exact Hk.
Qed.

Example le_cut_inv : forall k, 0 <= k <= 265 -> cut_inv_by_theorem le_file k.
Proof.
  intros k Hk. apply (ranges_inv_truncated le_file le_st le_chunks k le_wf le_run le_encodes le_distinct le_empty_typed).
  replace (blen (ser_file le_file)) with 265 by (vm_compute; reflexivity). exact Hk.
Qed.

Example cut_windows_eval :
  (* rc_file cut at 190 *)
  lz_ranges_bytes (take 190 (ser_file rc_file)) rc_path_a 0 None = Ok [(0, 4); (169, 8); (177, 0)] /\
  lz_ranges_bytes (take 190 (ser_file rc_file)) rc_path_b 1 (Some 5) = Ok [(0, 4); (177, 11)] /\
  lz_read_bytes (take 190 (ser_file rc_file)) rc_path_a 0 None = Ok [hex "01000000"; hex "02000000"] /\
  (* le_file cut at 262 *)
  lz_ranges_bytes (take 262 (ser_file le_file)) rc_path_a 3 None
  = Ok [(0, 4); (110, 6); (116, 0); (116, 4); (187, 4); (258, 2); (260, 0)] /\
  lz_ranges_bytes (take 262 (ser_file le_file)) rc_path_b 6 None
  = Ok [(116, 4); (184, 3); (187, 0); (187, 4); (255, 3); (258, 0); (260, 2); (262, 0)] /\
  lz_read_bytes (take 262 (ser_file le_file)) rc_path_b 6 None
  = Ok [hex "01"; hex "00"; hex "01"; hex "00"; hex "01"; hex "00"] /\
  lz_read_bytes (take 262 (ser_file le_file)) rc_path_a 3 None = Ok [hex "0708"; hex "0a0b"] /\
  (* le_file cut at 111 *)
  lz_ranges_bytes (take 111 (ser_file le_file)) rc_path_a 0 None = Ok [(0, 4); (104, 6); (110, 0)] /\
  lz_ranges_bytes (take 111 (ser_file le_file)) rc_path_a 1 (Some 1) = Ok [(0, 4); (104, 6); (110, 0)] /\
  lz_read_bytes (take 111 (ser_file le_file)) rc_path_a 0 None = Ok [hex "0102"; hex "0304"].
Proof. vm_compute. repeat split; reflexivity. Qed.

(* ---- nt_file: [empty_segments_typed] is needed ------------------------------------------------- *)

Definition nt_path_x : bytes := hex "2f2767272f277827".   (* /'g'/'x' *)
Definition nt_path_c : bytes := hex "2f2767272f276327".   (* /'g'/'c' *)

Definition nt_file : list fseg :=
  [ mkFseg 14 4713
      (Some [ mkEntry nt_path_x INoData [];
              mkEntry nt_path_c (IFull 20 3 1 2 None) [] ])
      (hex "0100000002000000");
    mkFseg 2 4713
      (Some [ mkEntry nt_path_x IMatchPrev [] ])
      [] ].

Definition nt_bytes : bytes :=
  hex "5444536d0e0000006912000044000000000000003c0000000000000002000000080000002f2767272f277827ffffffff00000000080000002f2767272f27632714000000030000000100000002000000000000000000000001000000020000005444536d02000000691200001800000000000000180000000000000001000000080000002f2767272f2778270000000000000000".

Definition nt_st : rstate := match sm_run nt_file false with Ok st => st | Err _ => rstate0 end.
Definition nt_h : hierarchy :=
  match build_hierarchy (rs_om nt_st) with Ok h => h | Err _ => mkHier [] [] end.

Definition nt_obj_x : sobj := mkSobj nt_path_x true 0 0 None None.    (* never typed, switched on *)
Definition nt_obj_c : sobj := mkSobj nt_path_c true 2 8 (Some 3) None. (* int32 x 2 *)

Definition nt_chunks : list (list chunk) :=
  [ [ [(nt_path_c, CData [hex "01000000"; hex "02000000"])] ]; [] ].

Example nt_ser : ser_file nt_file = nt_bytes.
Proof. vm_compute. reflexivity. Qed.

Example nt_wf : wf_file nt_file.
Proof. unfold wf_file. vm_compute. reflexivity. Qed.
Example nt_run : sm_run nt_file false = Ok nt_st.
Proof. vm_compute. reflexivity. Qed.
Example nt_hier : build_hierarchy (rs_om nt_st) = Ok nt_h.
Proof. vm_compute. reflexivity. Qed.
Example nt_canonical : om_paths_canonical (rs_om nt_st).
Proof. apply om_paths_canonical_b_sound. vm_compute. reflexivity. Qed.
Example nt_typed_channels : typed_objects_are_channels (rs_om nt_st).
Proof. apply typed_objects_are_channels_b_sound. vm_compute. reflexivity. Qed.
Example nt_distinct : Forall (fun g => NoDup (map so_path (sg_objs g))) (rs_segments nt_st).
Proof. apply seg_paths_distinct_b_sound. vm_compute. reflexivity. Qed.

Example nt_encodes : segs_encode (rs_segments nt_st) nt_file nt_chunks.
Proof.
  assert (Hsegs : rs_segments nt_st = [nth 0 (rs_segments nt_st) seg0; nth 1 (rs_segments nt_st) seg0])
    by (vm_compute; reflexivity).
  rewrite Hsegs. clear Hsegs. unfold nt_file, nt_chunks.
  constructor; [|constructor; [|constructor]].
  - eapply (rc_seg_contig _ _ [nt_obj_c] [ [ [hex "01000000"; hex "02000000"] ] ]).
    + vm_compute. reflexivity.
    + vm_compute. reflexivity.
    + vm_compute. reflexivity.
    + vm_compute. reflexivity.
    + repeat constructor.
    + repeat constructor.
    + vm_compute. reflexivity.
    + vm_compute. reflexivity.
  - (* the segment without raw data: contiguous layout, chunk size 8 > 0, NO chunk *)
    eapply (rc_seg_contig _ _ [nt_obj_x; nt_obj_c] []).
    + vm_compute. reflexivity.
    + vm_compute. reflexivity.
    + vm_compute. reflexivity.
    + vm_compute. reflexivity.
    + constructor.
    + constructor.
    + vm_compute. reflexivity.
    + vm_compute. reflexivity.
Qed.

(* read_correct applies to nt_file *)
Example nt_read_correct :
  rd_all (ser_file nt_file) = Ok (expected_tokens nt_st nt_h (List.concat nt_chunks), true).
Proof.
  exact (read_correct nt_file nt_st nt_h nt_chunks nt_wf nt_run nt_hier nt_encodes nt_canonical nt_typed_channels).
Qed.

Example nt_not_typed : ~ empty_segments_typed (rs_segments nt_st).
Proof.
  intros H.
  assert (Hg : In (nth 1 (rs_segments nt_st) seg0) (rs_segments nt_st)) by (vm_compute; right; left; reflexivity).
  specialize (H _ Hg eq_refl). unfold typed_data_objs in H. rewrite Forall_forall in H.
  apply (H nt_obj_x); [vm_compute; left; reflexivity|reflexivity].
Qed.

Lemma nt_facts :
  match open_state (ser_file nt_file) with
  | Ok st' =>
    ranges_inv st' (ser_file nt_file) nt_path_c = false /\
    lz_ranges st' (ser_file nt_file) nt_path_c 0 None = Ok [(0, 4); (88, 8); (96, 0)] /\
    lz_ranges st' (ser_file nt_file) nt_path_c 1 (Some 5) = Ok [(0, 4); (88, 8); (96, 0)] /\
    lz_ranges st' (ser_file nt_file) nt_path_c 2 None = Ok []
  | Err _ => False
  end.
Proof. vm_compute. repeat split; reflexivity. Qed.

End Examples.
