(* The `scale` methods of the sensor scaling classes TRANSLATED from nptdms/scaling.py (Gen/PyFuncsSensorEval.v,
   regenerated on every run) against the hand-written binary64 models:
     _adjust_for_lead_resistance  = SensorsF.adjust_for_lead_resistance_F, element by element
     StrainScaling.scale          = SensorsF.strain_scale_F  (all seven bridges; an unsupported one raises)
     RtdScaling.scale             = SensorsF.rtd_scale_F     where every element is on the quadratic branch
     ThermocoupleScaling.scale    = ThermoF.scale            (all eight types, both directions)
   The objects' attributes are property values; the theorems are for the declared Python types (float parameters,
   int codes). *)
From Coq Require Import String.
From Coq Require Import ZArith List Bool Lia PrimFloat.
Import ListNotations.
From NpTdms Require Import Base.Res Gen.ThermoTables Gen.PyFuncsScaling Gen.PyFuncsThermoEval Gen.PyFuncsSensorEval.
From NpTdms Require Import Model.SensorsR Model.SensorsF Proofs.GenThermoEvalEquiv.
From NpTdms Require Model.ScaleGraph Model.ThermoF.
Local Open Scope list_scope.

Module SGs := ScaleGraph.

Lemma mapM_need_map {A B} (g : A -> option B) (f : A -> B) l :
  (forall x, g x = Some (f x)) -> mapM (fun x => need EOther (g x)) l = Ok (map f l).
Proof. intros H. apply mapM_ok. intros x. rewrite H. reflexivity. Qed.

Lemma fzip_map_r (f : float -> float -> float) (h : float -> float) l :
  np_fzip f l (map h l) = Ok (map (fun x => f x (h x)) l).
Proof.
  unfold np_fzip. rewrite map_length, Nat.eqb_refl. f_equal.
  induction l as [|a r IH]; [reflexivity|]. cbn. rewrite IH. reflexivity.
Qed.

Lemma forallb_map' {A B} (f : B -> bool) (g : A -> B) l : forallb f (map g l) = forallb (fun x => f (g x)) l.
Proof. induction l as [|x r IH]; [reflexivity|]. cbn. rewrite IH. reflexivity. Qed.

Lemma mapM_ok_in {A B} (f : A -> res B) (g : A -> B) l : (forall a, In a l -> f a = Ok (g a)) -> mapM f l = Ok (map g l).
Proof.
  induction l as [|a r IH]; intros H; [reflexivity|]. cbn. rewrite (H a (or_introl eq_refl)), IH; [reflexivity|].
  intros a' Ha'. apply H. right. exact Ha'.
Qed.

Lemma fzip_map2 (f : float -> float -> float) (g h : float -> float) l :
  np_fzip f (map g l) (map h l) = Ok (map (fun x => f (g x) (h x)) l).
Proof.
  unfold np_fzip. rewrite !map_length, Nat.eqb_refl. f_equal.
  induction l as [|a r IH]; [reflexivity|]. cbn. rewrite IH. reflexivity.
Qed.

(* ---- _adjust_for_lead_resistance ------------------------------------------------------------------------------------ *)

Theorem adjust_eq xs exc cfg lead :
  adjust_for_lead_resistance_gen xs (SGs.PInt exc) (SGs.PInt cfg) (SGs.PFloat lead)
  = Ok (map (fun m => adjust_for_lead_resistance_F m exc cfg lead) xs).
Proof.
  unfold adjust_for_lead_resistance_gen, adjust_for_lead_resistance_F, CURRENT_EXCITATION.
  cbn [pval_eq_int py_float_of_pval bind].
  destruct (cfg =? 3)%Z; [reflexivity|]. destruct ((exc =? 10134)%Z && (cfg =? 2)%Z); [reflexivity|].
  rewrite map_id. reflexivity.
Qed.

(* ---- StrainScaling.scale -------------------------------------------------------------------------------------------------- *)

Definition strain_supported (cfg : Z) : bool :=
  existsb (Z.eqb cfg) [FULL_BRIDGE_1; FULL_BRIDGE_2; FULL_BRIDGE_3; HALF_BRIDGE_1; HALF_BRIDGE_2; QUARTER_BRIDGE_1; QUARTER_BRIDGE_2].

Section Strain.
Variables (cfg : Z) (nu rg rl ibv gf gain vex : float) (src : Z) (v : SGs.value).
Let gen := StrainScaling_scale_gen (SGs.PInt cfg) (SGs.PFloat nu) (SGs.PFloat rg) (SGs.PFloat rl) (SGs.PFloat ibv)
                                   (SGs.PFloat gf) (SGs.PFloat gain) (SGs.PFloat vex) src v.

Ltac branch :=
  symmetry; erewrite mapM_need_map;
  [|intros x; unfold strain_scale_F, strain_voltage_out_F, lead_adjustment_F,
                     FULL_BRIDGE_1, FULL_BRIDGE_2, FULL_BRIDGE_3, HALF_BRIDGE_1, HALF_BRIDGE_2, QUARTER_BRIDGE_1, QUARTER_BRIDGE_2;
    repeat match goal with H : (_ =? _)%Z = _ |- _ => rewrite H end;
    repeat match goal with H : (_ =? _)%float = _ |- _ => rewrite H end; cbn [orb]; reflexivity];
  rewrite ?map_map; reflexivity.

Theorem strain_eq : strain_supported cfg = true ->
  gen = mapM (fun x => need EOther (strain_scale_F cfg nu rg rl ibv gf gain vex x)) (SGs.astype_f64 v).
Proof.
  intros Hs. unfold gen, StrainScaling_scale_gen. cbv zeta.
  cbn [pval_eq_int pval_eq_float py_float_of_pval bind].
  destruct (ibv =? 0)%float eqn:Ei; cbn [negb bind];
    (destruct (cfg =? 10183)%Z eqn:E1; [branch|]);
    (destruct (cfg =? 10184)%Z eqn:E2; [branch|]);
    (destruct (cfg =? 10185)%Z eqn:E3; [rewrite ?map_map; rewrite ?fzip_map2, ?fzip_map_r; cbn [bind]; branch|]);
    (destruct (cfg =? 10188)%Z eqn:E4; [rewrite ?map_map; rewrite ?fzip_map2, ?fzip_map_r; cbn [bind]; branch|]);
    (destruct (cfg =? 10189)%Z eqn:E5; [branch|]);
    (destruct (cfg =? 10271)%Z eqn:E6; [cbn [orb]; branch|]);
    (destruct (cfg =? 10272)%Z eqn:E7; [cbn [orb]; branch|]);
    exfalso; unfold strain_supported, FULL_BRIDGE_1, FULL_BRIDGE_2, FULL_BRIDGE_3, HALF_BRIDGE_1, HALF_BRIDGE_2,
               QUARTER_BRIDGE_1, QUARTER_BRIDGE_2 in Hs; cbn [existsb] in Hs;
    rewrite E1, E2, E3, E4, E5, E6, E7 in Hs; discriminate Hs.
Qed.

Theorem strain_unsupported : strain_supported cfg = false -> gen = Err EOther.
Proof.
  intros Hs. unfold strain_supported, FULL_BRIDGE_1, FULL_BRIDGE_2, FULL_BRIDGE_3, HALF_BRIDGE_1, HALF_BRIDGE_2,
    QUARTER_BRIDGE_1, QUARTER_BRIDGE_2 in Hs. cbn [existsb] in Hs.
  repeat (apply orb_false_iff in Hs; destruct Hs as [?E Hs]).
  unfold gen, StrainScaling_scale_gen. cbv zeta. cbn [pval_eq_int pval_eq_float py_float_of_pval bind].
  rewrite E, E0, E1, E2, E3, E4, E5. cbn [orb]. destruct (negb (ibv =? 0)%float); reflexivity.
Qed.
End Strain.

(* ---- RtdScaling.scale: the branch test per element; every element on the quadratic branch ------------------------- *)

Section Rtd.
Variables (py_pow2 : float -> float) (uninit : float) (quartic : float -> res float).
Variables (i r0 a b c lead : float) (cfg src : Z) (v : SGs.value).
Let gen := RtdScaling_scale_gen py_pow2 uninit quartic (SGs.PFloat i) (SGs.PFloat r0) (SGs.PFloat a) (SGs.PFloat b)
                                (SGs.PFloat c) (SGs.PFloat lead) (SGs.PInt cfg) src v.

Lemma sqrt_where_all (f : float -> float) (m : float -> bool) l :
  forallb m l = true ->
  np_sqrt_where (map f l) (map m l) uninit = Ok (map (fun x => sqrt (f x)) l).
Proof.
  intros H. unfold np_sqrt_where. rewrite !map_length, Nat.eqb_refl. f_equal.
  induction l as [|x r IH]; [reflexivity|]. cbn in H |- *. apply andb_true_iff in H. destruct H as [Hx Hr].
  rewrite Hx, (IH Hr). reflexivity.
Qed.

(* when r_t >= r_0 holds for every element (the mask of the code is exactly SensorsF's test r_0 <=? r_t), the result
   is the quadratic form of every element; neither the uninitialised buffer nor _solve_quartic_form is used *)
Theorem rtd_quadratic_eq :
  forallb (fun x => match rtd_scale_F i r0 a (py_pow2 a) b lead cfg x with Some _ => true | None => false end) (SGs.astype_f64 v) = true ->
  gen = mapM (fun x => need EOther (rtd_scale_F i r0 a (py_pow2 a) b lead cfg x)) (SGs.astype_f64 v).
Proof.
  intros H. unfold gen, RtdScaling_scale_gen. cbv zeta. cbn [py_float_of_pval bind].
  rewrite adjust_eq. cbn [bind]. rewrite !map_map.
  assert (Hall : forallb (fun x => (r0 <=? adjust_for_lead_resistance_F (x / i) 10134 cfg lead)%float) (SGs.astype_f64 v) = true).
  { rewrite forallb_forall in H |- *. intros x Hx. specialize (H x Hx). unfold rtd_scale_F, rtd_r_t_F, CURRENT_EXCITATION in H.
    destruct (r0 <=? adjust_for_lead_resistance_F (x / i) 10134 cfg lead)%float; [reflexivity|discriminate H]. }
  rewrite (sqrt_where_all (fun x => (py_pow2 a - 4 * b * (1 - adjust_for_lead_resistance_F (x / i) 10134 cfg lead / r0))%float)
                          (fun x => (r0 <=? adjust_for_lead_resistance_F (x / i) 10134 cfg lead)%float) _ Hall).
  cbn [bind]. rewrite !map_map, forallb_map'. rewrite Hall. cbn [negb bind].
  symmetry. rewrite forallb_forall in Hall.
  rewrite (mapM_ok_in _ (fun x => rtd_scale_pos_F a (py_pow2 a) b r0 (adjust_for_lead_resistance_F (x / i) 10134 cfg lead))).
  - reflexivity.
  - intros x Hx. unfold rtd_scale_F, rtd_r_t_F, CURRENT_EXCITATION. rewrite (Hall x Hx). reflexivity.
Qed.
End Rtd.

(* ---- ThermocoupleScaling.scale ------------------------------------------------------------------------------------------- *)

Lemma mapM_ext {A B} (f g : A -> res B) l : (forall x, f x = g x) -> mapM f l = mapM g l.
Proof. intros H. induction l as [|a r IH]; [reflexivity|]. cbn. rewrite H, IH. reflexivity. Qed.

Lemma mapM_post {A B C} (f : A -> res B) (g : B -> C) l :
  (do r <- mapM f l; Ok (map g r)) = mapM (fun x => do y <- f x; Ok (g y)) l.
Proof.
  induction l as [|a r IH]; [reflexivity|]. cbn [mapM]. destruct (f a) as [y|e]; cbn [bind]; [|reflexivity].
  rewrite <- IH. destruct (mapM f r); reflexivity.
Qed.

(* the module-level objects of the translation are the translated constructors on the generated tables *)
Lemma thermocouple_object_eq T : thermocouple_object T = build_tc (code_fwdF T) (code_invF T) (code_expF T).
Proof. reflexivity. Qed.

(* direction 1: 1000.0 * celsius_to_mv(data); any other direction: mv_to_celsius(data / 1000.0) -- element by element
   the model's ThermoF.scale, celsius_to_mv's exponential term being eval_fwd np_exp *)
Theorem thermocouple_scale_eq np_exp T tc dir src v : TF.type_tc T = TF.Ok tc ->
  ThermocoupleScaling_scale_gen np_exp T (SGs.PInt dir) src v
  = mapM (fun x => tlift (TF.scale tc dir (fun t => rmapT (eval_fwd np_exp) (TF.celsius_to_mv tc t)) x)) (SGs.astype_f64 v).
Proof.
  intros HT. pose proof (type_tc_good T tc HT) as Hg.
  unfold ThermocoupleScaling_scale_gen. cbv zeta. cbn [pval_eq_int].
  rewrite thermocouple_object_eq, build_type_tc, HT. cbn [rmapT tlift bind].
  unfold TF.scale. destruct (dir =? 1)%Z.
  - rewrite (celsius_to_mv_eq np_exp tc _ Hg), mapM_post. apply mapM_ext. intros x.
    destruct (TF.celsius_to_mv tc x); reflexivity.
  - rewrite (mv_to_celsius_eq tc _ Hg). rewrite mapM_map.
    destruct (mapM _ (SGs.astype_f64 v)); reflexivity.
Qed.
