(* Proofs/ThermoReal.v -- generic facts about Model/ThermoR.v used by the generated
   per-type files Gen/Thermo_<T>.v:
     * dformula is the derivative of formula (Horner on k*c_k, plus the exponential's),
     * a positive derivative on [a, b] makes the formula strictly increasing there
       (mean value theorem),
     * small tactics that the generated proofs call. *)
From Coq Require Import Reals ZArith List Lra.
From Coquelicot Require Import Coquelicot.
Import ListNotations.
From NpTdms Require Import Gen.ThermoTables.
From NpTdms Require Import Model.ThermoR.
Open Scope R_scope.

(* derivative of hornerR by the product rule, as a recursion *)
Fixpoint dH (cs : list R) (x : R) : R :=
  match cs with
  | [] => 0
  | c' :: r => dH r x * x + hornerR c' r x
  end.

Lemma hornerR_deriv : forall cs c x, derivable_pt_lim (hornerR c cs) x (dH cs x).
Proof.
  induction cs as [|c' r IH]; intros c x; simpl.
  - assert (H : derivable_pt_lim (fct_cte c + (id * fct_cte 0))%F x (0 + (1 * fct_cte 0 x + id x * 0))).
    { apply derivable_pt_lim_plus; [apply derivable_pt_lim_const|].
      apply derivable_pt_lim_mult; [apply derivable_pt_lim_id|apply derivable_pt_lim_const]. }
    replace (0 + (1 * fct_cte 0 x + id x * 0)) with 0 in H by (unfold fct_cte, id; ring).
    exact H.
  - assert (H : derivable_pt_lim (fct_cte c + (hornerR c' r * id))%F x
                  (0 + (dH r x * id x + hornerR c' r x * 1))).
    { apply derivable_pt_lim_plus; [apply derivable_pt_lim_const|].
      apply derivable_pt_lim_mult; [apply IH|apply derivable_pt_lim_id]. }
    replace (0 + (dH r x * id x + hornerR c' r x * 1)) with (dH r x * x + hornerR c' r x) in H
      by (unfold id; ring).
    exact H.
Qed.

(* Horner on the scaled coefficients k*c_k, (k+1)*c_(k+1), ... *)
Lemma scaled_horner : forall cs c k x,
  hornerR (IZR k * c) (dcoefs (k + 1) cs) x = IZR k * hornerR c cs x + dH cs x * x.
Proof.
  induction cs as [|c' r IH]; intros c k x; simpl.
  - ring.
  - rewrite IH. rewrite plus_IZR. simpl. ring.
Qed.

Lemma dhornerR_dH cs x : dhornerR cs x = dH cs x.
Proof.
  unfold dhornerR. destruct cs as [|c' r]; [reflexivity|]. cbn [dcoefs].
  rewrite (scaled_horner r c' 1 x). cbn [dH]. ring.
Qed.

Lemma exp_fun_deriv a t : derivable_pt_lim (exp_fun a) t (dexp_fun a t).
Proof.
  apply is_derive_Reals.
  destruct a as [[a0 a1] a2]. unfold exp_fun, dexp_fun. auto_derive; [exact I|unfold Rminus; ring].
Qed.

Lemma formula_deriv p e t : derivable_pt_lim (formula p e) t (dformula p e t).
Proof.
  unfold formula, dformula, polyR. destruct e as [a|].
  - change (fun t0 => hornerR (pr_c0 p) (pr_cs p) t0 + exp_fun a t0)
      with (hornerR (pr_c0 p) (pr_cs p) + exp_fun a)%F.
    apply derivable_pt_lim_plus.
    + rewrite dhornerR_dH. apply hornerR_deriv.
    + apply exp_fun_deriv.
  - rewrite dhornerR_dH. apply hornerR_deriv.
Qed.

Lemma formula_increasing p e a b :
  (forall t, a <= t <= b -> dformula p e t > 0) ->
  forall t1 t2, a <= t1 -> t1 < t2 -> t2 <= b -> formula p e t1 < formula p e t2.
Proof.
  intros Hd t1 t2 H1 H12 H2.
  destruct (MVT_cor2 (formula p e) (dformula p e) t1 t2 H12) as [c [Hc Hin]].
  - intros c Hc. apply formula_deriv.
  - assert (Hpos : dformula p e c > 0) by (apply Hd; lra).
    assert (0 < dformula p e c * (t2 - t1)) by (apply Rmult_lt_0_compat; lra).
    lra.
Qed.

(* ---- helpers for the generated files -------------------------------------------------- *)

(* pick a piece / a spec row out of a literal list *)
Ltac in_cases H :=
  repeat (destruct H as [H|H]; [try (symmetry in H); try (injection H as <- <- <- <-) |]);
  try contradiction.

(* from a <= t (or a < t) and t < b (or t <= b) with constants a >= b: contradiction *)
Ltac by_constants t :=
  exfalso;
  match goal with
  | [ Ha : ?a <= t, Hb : t < ?b |- _ ] =>
    apply (Rlt_irrefl a); apply (Rle_lt_trans a t a Ha); apply (Rlt_le_trans t b a Hb)
  | [ Ha : ?a <= t, Hb : t <= ?b |- _ ] =>
    apply (Rlt_irrefl a); apply (Rle_lt_trans a t a Ha); apply (Rle_lt_trans t b a Hb)
  end.
