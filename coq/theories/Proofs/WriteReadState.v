(* C07 composed, step 2a: the reader's metadata pass (FileSyn.sm_run) on the
   file syntax of writer output.  Every segment starts a new object list and
   restates every object with an explicit raw data index (or "no data"), so the
   object list of a segment is computed object by object ([sobj_of]); the
   per-object metadata [rs_om] after the whole file is characterised field by
   field against the specification functions of Proofs/WriteReadSpec.v
   (props_at, dtype_at, values_at, dedup of the paths). *)
From Coq Require Import List ZArith Bool Lia ZifyBool.
From Coq Require Import Init.Byte.
Import ListNotations.
From NpTdms Require Import Base.Bytes Base.Res Model.Tokens Model.TokensWf Model.ByteStr
  Model.StrictParse Model.Writer Proofs.ByteStrProofs Proofs.StrictParseProofs Proofs.WriterProofs.
From NpTdms Require Import Model.SegState Model.Layout Model.Reader Model.FileSyn
  Proofs.SegStateProofs Proofs.LayoutProofs Proofs.FileSynProofs Proofs.WriteReadSpec Proofs.WriteReadBytes.
Local Open Scope Z_scope.

(* ---- the two byte-string equalities agree ------------------------------------------ *)

Lemma beqb_agree a b : ByteStr.bytes_eqb a b = bytes_eqb a b.
Proof.
  destruct (bytes_eqb a b) eqn:E.
  - apply bytes_eqb_eq in E. subst b. apply ByteStrProofs.bytes_eqb_refl.
  - destruct (ByteStr.bytes_eqb a b) eqn:E'; [|reflexivity].
    apply ByteStrProofs.bytes_eqb_eq in E'. subst b. rewrite bytes_eqb_refl in E. discriminate.
Qed.

Lemma mem_In x l : mem x l = true <-> In x l.
Proof.
  unfold mem. rewrite existsb_exists. split.
  - intros [y [Hy E]]. apply bytes_eqb_eq in E. subst y. exact Hy.
  - intros H. exists x. split; [exact H|apply bytes_eqb_refl].
Qed.

Lemma mem_false x l : mem x l = false <-> ~ In x l.
Proof.
  split.
  - intros H Hin. apply mem_In in Hin. rewrite Hin in H. discriminate.
  - intros H. destruct (mem x l) eqn:E; [|reflexivity]. apply mem_In in E. contradiction.
Qed.

Lemma has_dup_nodup l : has_dup l = false -> NoDup l.
Proof.
  induction l as [|x r IH]; intros H; [constructor|].
  cbn [has_dup] in H. apply orb_false_elim in H. destruct H as [Hx Hr].
  constructor; [|apply IH; exact Hr].
  intros Hin. apply ByteStrProofs.bmem_In in Hin. rewrite Hin in Hx. discriminate.
Qed.

Lemma flat_map_map {A B C} (f : A -> B) (h : B -> list C) l :
  flat_map h (map f l) = flat_map (fun a => h (f a)) l.
Proof. induction l as [|a l IH]; [reflexivity|]. cbn [map flat_map]. rewrite IH. reflexivity. Qed.

(* ---- ordered dictionaries: keys ------------------------------------------------------ *)

Lemma keys_aset {V} (k : bytes) (v : V) (l : alist V) :
  map fst (aset k v l) = add_new (map fst l) k.
Proof.
  induction l as [|[k' v'] r IH]; [reflexivity|].
  cbn [aset map fst]. unfold add_new, mem. cbn [existsb].
  destruct (bytes_eqb k k') eqn:E; cbn [orb map fst]; [reflexivity|].
  rewrite IH. unfold add_new, mem. destruct (existsb (bytes_eqb k) (map fst r)); reflexivity.
Qed.

Lemma alookup_none_keys {V} (k : bytes) (l : alist V) : alookup k l = None <-> ~ In k (map fst l).
Proof.
  induction l as [|[k' v'] r IH]; cbn [alookup map fst In]; [tauto|].
  destruct (bytes_eqb k k') eqn:E.
  - apply bytes_eqb_eq in E. subst k'. split; [discriminate|]. intros H. exfalso. apply H. left. reflexivity.
  - apply bytes_eqb_neq in E. rewrite IH. split.
    + intros H [H1|H1]; [apply E; symmetry; exact H1|exact (H H1)].
    + intros H H1. apply H. right. exact H1.
Qed.

Lemma add_new_in acc x y : In y (add_new acc x) <-> In y acc \/ y = x.
Proof.
  unfold add_new. destruct (mem x acc) eqn:E.
  - apply mem_In in E. split; [tauto|]. intros [H| ->]; assumption.
  - rewrite in_app_iff. cbn [In]. split; [intros [H|[H|[]]]; auto|intros [H|H]; auto].
Qed.

Lemma fold_add_new_in l : forall acc y, In y (fold_left add_new l acc) <-> In y acc \/ In y l.
Proof.
  induction l as [|x l IH]; intros acc y; cbn [fold_left In]; [tauto|].
  rewrite IH, add_new_in. split; [intros [[H|H]|H]; auto|intros [H|[H|H]]; auto].
Qed.

Lemma NoDup_snoc {A} (l : list A) x : NoDup l -> ~ In x l -> NoDup (l ++ [x]).
Proof.
  induction l as [|y l IH]; intros Hnd Hx; cbn [app].
  - constructor; [intros []|constructor].
  - inversion Hnd as [|y' l' Hy Hl]; subst. constructor.
    + rewrite in_app_iff. cbn [In]. intros [H|[H|[]]]; [exact (Hy H)|]. apply Hx. left. symmetry. exact H.
    + apply IH; [exact Hl|]. intros H. apply Hx. right. exact H.
Qed.

Lemma add_new_nodup acc x : NoDup acc -> NoDup (add_new acc x).
Proof.
  intros H. unfold add_new. destruct (mem x acc) eqn:E; [exact H|].
  apply mem_false in E. apply NoDup_snoc; assumption.
Qed.

Lemma fold_add_new_nodup l : forall acc, NoDup acc -> NoDup (fold_left add_new l acc).
Proof.
  induction l as [|x l IH]; intros acc H; [exact H|]. cbn [fold_left]. apply IH. apply add_new_nodup. exact H.
Qed.

(* ---- the segment object the reader builds for one written object --------------------- *)

Definition is_typed (o : wobj) : bool :=
  match o with WChan _ _ dt _ _ => negb (dt =? T_VOID) | _ => false end.

Definition obj_dtype (o : wobj) : Z :=
  match o with WChan _ _ dt _ _ => dt | _ => T_VOID end.

Definition chan_dsize (dt : Z) (vals : list bytes) : Z :=
  match tds_size dt with
  | Some (Some s) => Z.of_nat (length vals) * s
  | _ => string_total vals
  end.

Definition data_sobj (o : wobj) : sobj :=
  mkSobj (obj_path o) true (Z.of_nat (length (obj_values o)))
         (chan_dsize (obj_dtype o) (obj_values o)) (Some (obj_dtype o)) None.

Definition nodata_sobj (prev : alist sobj) (p : bytes) : sobj :=
  match alookup p prev with
  | Some po => if so_has_data po then set_has_data po false else po
  | None => mkSobj p false 0 0 None None
  end.

Definition sobj_of (prev : alist sobj) (o : wobj) : sobj :=
  if is_typed o then data_sobj o else nodata_sobj prev (obj_path o).

Definition prev_keys_ok (prev : alist sobj) : Prop :=
  forall p po, alookup p prev = Some po -> so_path po = p.

Lemma untyped_idx o : is_typed o = false -> idx_of o = INoData.
Proof.
  destruct o as [ps|g ps|g c dt vs ps]; cbn [is_typed idx_of]; try reflexivity.
  destruct (dt =? T_VOID); [reflexivity|discriminate].
Qed.

Lemma wf_chan_type g c dt vs ps : wf_obj (WChan g c dt vs ps) = true -> chan_type_ok dt vs = true.
Proof.
  intros H. apply wf_obj_chan_part in H. unfold wf_chan_part in H.
  apply andb_prop in H. destruct H as [H _]. apply andb_prop in H. destruct H as [H _].
  apply andb_prop in H. destruct H as [H _]. exact H.
Qed.

Lemma typed_new_object o p :
  wf_obj o = true -> is_typed o = true -> p = obj_path o ->
  new_object p (idx_of o) = Ok (data_sobj o).
Proof.
  intros Hwf Ht ->. destruct o as [ps|g ps|g c dt vs ps]; cbn [is_typed] in Ht; try discriminate.
  pose proof (wf_chan_type _ _ _ _ _ Hwf) as Hty. unfold chan_type_ok in Hty.
  unfold data_sobj. cbn [idx_of obj_path obj_values obj_dtype].
  destruct (dt =? T_VOID) eqn:Ev; [discriminate|].
  destruct (dt =? T_STRING) eqn:Es.
  - assert (dt = T_STRING) by lia. subst dt. reflexivity.
  - destruct (sized_type dt) as [k|] eqn:Ek; [|discriminate].
    unfold new_object, chan_dsize. rewrite (sized_tds_size dt k Ek), Es. reflexivity.
Qed.

Lemma step_entry_writer prev ordered o :
  prev_keys_ok prev -> wf_obj o = true ->
  step_entry None prev ordered (entry_of o) = Ok (ordered ++ [sobj_of prev o]).
Proof.
  intros Hk Hwf. unfold step_entry, sobj_of, entry_of. cbn [e_path e_idx].
  destruct (is_typed o) eqn:Ht.
  - destruct (alookup (obj_path o) prev) as [po|] eqn:Ea.
    + assert (Hidx : exists lf dt dim n t, idx_of o = IFull lf dt dim n t).
      { destruct o as [ps|g ps|g c dt vs ps]; cbn [is_typed] in Ht; try discriminate.
        cbn [idx_of]. destruct (dt =? T_VOID); [discriminate|]. eauto 6. }
      destruct Hidx as (lf & dt & dim & n & t & Hidx).
      unfold reuse_previous. rewrite Hidx, <- Hidx.
      rewrite (typed_new_object o (so_path po) Hwf Ht (Hk _ _ Ea)). reflexivity.
    + assert (Hidx : exists lf dt dim n t, idx_of o = IFull lf dt dim n t).
      { destruct o as [ps|g ps|g c dt vs ps]; cbn [is_typed] in Ht; try discriminate.
        cbn [idx_of]. destruct (dt =? T_VOID); [discriminate|]. eauto 6. }
      destruct Hidx as (lf & dt & dim & n & t & Hidx).
      rewrite Hidx, <- Hidx.
      rewrite (typed_new_object o (obj_path o) Hwf Ht eq_refl). reflexivity.
  - rewrite (untyped_idx o Ht). unfold nodata_sobj.
    destruct (alookup (obj_path o) prev) as [po|] eqn:Ea; reflexivity.
Qed.

Lemma fold_entries_writer prev : forall sorted ordered,
  prev_keys_ok prev -> forallb wf_obj sorted = true ->
  fold_entries None prev ordered (map entry_of sorted) = Ok (ordered ++ map (sobj_of prev) sorted).
Proof.
  induction sorted as [|o r IH]; intros ordered Hk Hwf; cbn [map fold_entries].
  - rewrite app_nil_r. reflexivity.
  - cbn [forallb] in Hwf. apply andb_prop in Hwf. destruct Hwf as [Ho Hr].
    rewrite (step_entry_writer prev ordered o Hk Ho). cbn [bind].
    rewrite (IH _ Hk Hr), <- app_assoc. reflexivity.
Qed.

Lemma toc_writer_newlist : toc_has TOC_WRITER TOC_NEWLIST = true.
Proof. reflexivity. Qed.

Lemma read_segment_objects_writer prev ps sorted :
  prev_keys_ok prev -> forallb wf_obj sorted = true ->
  read_segment_objects TOC_WRITER (Some (map entry_of sorted)) prev ps =
  Ok (map (sobj_of prev) sorted, collect_props (map entry_of sorted) []).
Proof.
  intros Hk Hwf. unfold read_segment_objects. rewrite toc_writer_newlist.
  rewrite (fold_entries_writer prev sorted [] Hk Hwf). reflexivity.
Qed.

Lemma sobj_of_path prev o : prev_keys_ok prev -> so_path (sobj_of prev o) = obj_path o.
Proof.
  intros Hk. unfold sobj_of, nodata_sobj. destruct (is_typed o); [reflexivity|].
  destruct (alookup (obj_path o) prev) as [po|] eqn:E; [|reflexivity].
  destruct (so_has_data po); cbn; apply (Hk _ _ E).
Qed.

Lemma sobj_of_paths prev sorted :
  prev_keys_ok prev -> map so_path (map (sobj_of prev) sorted) = map obj_path sorted.
Proof.
  intros Hk. rewrite map_map. apply map_ext. intros o. apply sobj_of_path. exact Hk.
Qed.

(* ---- data objects and chunk arithmetic of one segment ------------------------------- *)

Lemma nodata_sobj_no_data prev p : so_has_data (nodata_sobj prev p) = false.
Proof.
  unfold nodata_sobj. destruct (alookup p prev) as [po|]; [|reflexivity].
  destruct (so_has_data po) eqn:E; [reflexivity|exact E].
Qed.

Lemma data_objs_writer prev sorted :
  data_objs (map (sobj_of prev) sorted) = map data_sobj (filter is_typed sorted).
Proof.
  unfold data_objs. induction sorted as [|o r IH]; [reflexivity|].
  cbn [map filter]. destruct (is_typed o) eqn:Ht.
  - replace (sobj_of prev o) with (data_sobj o) by (unfold sobj_of; rewrite Ht; reflexivity).
    cbn [so_has_data data_sobj map]. rewrite IH. reflexivity.
  - replace (sobj_of prev o) with (nodata_sobj prev (obj_path o)) by (unfold sobj_of; rewrite Ht; reflexivity).
    rewrite nodata_sobj_no_data. exact IH.
Qed.

Lemma have_daqmx_writer prev sorted : have_daqmx (map (sobj_of prev) sorted) = Ok false.
Proof.
  unfold have_daqmx. rewrite data_objs_writer.
  replace (filter _ (map data_sobj (filter is_typed sorted))) with (@nil sobj); [reflexivity|].
  induction (filter is_typed sorted) as [|o r IH]; [reflexivity|]. cbn [map filter so_daqmx data_sobj]. exact IH.
Qed.

Lemma untyped_raw o : wf_obj o = true -> is_typed o = false -> obj_raw o = [] /\ obj_values o = [].
Proof.
  intros Hwf Ht. destruct o as [ps|g ps|g c dt vs ps]; cbn [obj_raw obj_values]; try (split; reflexivity).
  cbn [is_typed] in Ht. destruct (dt =? T_VOID) eqn:Ev; [|discriminate].
  pose proof (wf_chan_type _ _ _ _ _ Hwf) as Hty. unfold chan_type_ok in Hty. rewrite Ev in Hty.
  destruct vs; [split; reflexivity|discriminate].
Qed.

Lemma typed_dsize o :
  wf_obj o = true -> is_typed o = true ->
  chan_dsize (obj_dtype o) (obj_values o) = blen (obj_raw o).
Proof.
  intros Hwf Ht. destruct o as [ps|g ps|g c dt vs ps]; cbn [is_typed] in Ht; try discriminate.
  pose proof (wf_chan_type _ _ _ _ _ Hwf) as Hty. unfold chan_type_ok in Hty.
  cbn [obj_dtype obj_values obj_raw]. destruct (dt =? T_VOID) eqn:Ev; [discriminate|].
  unfold chan_dsize. destruct (dt =? T_STRING) eqn:Es.
  - assert (dt = T_STRING) by lia. subst dt. cbn [tds_size Z.eqb T_STRING].
    rewrite wr_string_offsets_eq, blen_app, blen_concat_total. reflexivity.
  - destruct (sized_type dt) as [k|] eqn:Ek; [|discriminate].
    rewrite (sized_tds_size dt k Ek), <- (flat_map_store_le dt), (blen_flat_fixed dt k vs Hty). lia.
Qed.

Lemma dsize_sum sorted :
  forallb wf_obj sorted = true ->
  zsum (map so_dsize (map data_sobj (filter is_typed sorted))) = blen (flat_map obj_raw sorted).
Proof.
  induction sorted as [|o r IH]; intros Hwf; [reflexivity|].
  cbn [forallb] in Hwf. apply andb_prop in Hwf. destruct Hwf as [Ho Hr].
  cbn [filter flat_map]. rewrite blen_app. destruct (is_typed o) eqn:Ht.
  - cbn [map zsum fold_right so_dsize data_sobj]. fold (zsum (map so_dsize (map data_sobj (filter is_typed r)))).
    rewrite (IH Hr), (typed_dsize o Ho Ht). reflexivity.
  - rewrite (IH Hr). destruct (untyped_raw o Ho Ht) as [-> _]. reflexivity.
Qed.

Definition seg_nch (sorted : list wobj) : Z := if blen (flat_map obj_raw sorted) =? 0 then 0 else 1.

Lemma calculate_chunks_writer prev sorted :
  forallb wf_obj sorted = true ->
  calculate_chunks TOC_WRITER false (map (sobj_of prev) sorted) (blen (flat_map obj_raw sorted))
  = Ok (seg_nch sorted, None).
Proof.
  intros Hwf. unfold calculate_chunks, chunk_size. rewrite have_daqmx_writer. cbn [bind].
  rewrite data_objs_writer, (dsize_sum sorted Hwf). unfold seg_nch.
  pose proof (blen_nonneg (flat_map obj_raw sorted)) as Hn.
  set (t := blen (flat_map obj_raw sorted)) in *.
  replace ((t <? 0) || (t <? 0)) with false by lia.
  destruct (t =? 0) eqn:E; [cbn [negb]; reflexivity|].
  rewrite Z.mod_same by lia. cbn [Z.eqb]. rewrite Z.div_same by lia. reflexivity.
Qed.

(* ---- selecting by key in a list with distinct keys ------------------------------------ *)

Section ByKey.
  Context {A : Type} (key : A -> bytes).

  Definition sel (p : bytes) (l : list A) : list A := filter (fun a => bytes_eqb p (key a)) l.

  Lemma sel_none p l : ~ In p (map key l) -> sel p l = [].
  Proof.
    induction l as [|a l IH]; intros H; [reflexivity|]. cbn [sel filter].
    destruct (bytes_eqb p (key a)) eqn:E.
    - apply bytes_eqb_eq in E. exfalso. apply H. left. symmetry. exact E.
    - apply IH. intros Hin. apply H. right. exact Hin.
  Qed.

  Lemma sel_unique l : forall a, NoDup (map key l) -> In a l -> sel (key a) l = [a].
  Proof.
    induction l as [|b l IH]; intros a Hnd Hin; [destruct Hin|].
    cbn [map] in Hnd. inversion Hnd as [|x y Hb Hl]; subst.
    cbn [sel filter]. destruct Hin as [<-|Hin].
    - rewrite bytes_eqb_refl. f_equal. apply sel_none. exact Hb.
    - destruct (bytes_eqb (key a) (key b)) eqn:E.
      + apply bytes_eqb_eq in E. exfalso. apply Hb. rewrite <- E. apply in_map. exact Hin.
      + apply IH; assumption.
  Qed.

  Lemma sel_cases p l : NoDup (map key l) ->
    (~ In p (map key l) /\ sel p l = []) \/ (exists a, In a l /\ key a = p /\ sel p l = [a]).
  Proof.
    intros Hnd. destruct (in_dec (list_eq_dec Byte.byte_eq_dec) p (map key l)) as [Hin|Hn].
    - right. apply in_map_iff in Hin. destruct Hin as [a [Ha Hin]]. exists a. subst p.
      repeat split; [exact Hin|]. apply sel_unique; assumption.
    - left. split; [exact Hn|apply sel_none; exact Hn].
  Qed.

  Lemma fold_sel {M} (F : M -> A -> M) p l : forall m,
    fold_left (fun m a => if bytes_eqb p (key a) then F m a else m) l m = fold_left F (sel p l) m.
  Proof.
    induction l as [|a l IH]; intros m; [reflexivity|]. cbn [fold_left sel filter].
    destruct (bytes_eqb p (key a)); cbn [fold_left]; apply IH.
  Qed.

  Lemma flat_map_sel {B} (f : A -> list B) p l :
    flat_map (fun a => if bytes_eqb p (key a) then f a else []) l = flat_map f (sel p l).
  Proof.
    induction l as [|a l IH]; [reflexivity|]. cbn [flat_map sel filter].
    destruct (bytes_eqb p (key a)); cbn [flat_map app]; rewrite IH; reflexivity.
  Qed.
End ByKey.

Lemma at_path_sel {B} (f : wobj -> list B) p l :
  flat_map (at_path p f) l = flat_map f (sel obj_path p l).
Proof. unfold at_path. apply (flat_map_sel obj_path f p l). Qed.

(* ---- update_object_metadata / update_object_properties ---------------------------------- *)

Definition upd (n : Z) (m : ometa) (o : sobj) : ometa :=
  mkOmeta (om_props m) (so_dtype o) (om_scalers m) (om_len m + seg_values o n None).

Definition dtype_ok (m : ometa) (o : sobj) : Prop := om_dtype m = None \/ om_dtype m = so_dtype o.

Lemma update_ometa_ok m o n :
  so_daqmx o = None -> dtype_ok m o -> update_ometa m o n None = Ok (upd n m o).
Proof.
  intros Hd Hok. unfold update_ometa, upd. cbv zeta. rewrite Hd.
  destruct Hok as [Hn|He].
  - rewrite Hn. reflexivity.
  - rewrite He. destruct (so_dtype o) as [d|]; cbn [oz_eqb]; [rewrite Z.eqb_refl|]; reflexivity.
Qed.

Lemma get_ometa_aset p k m om :
  get_ometa p (aset k m om) = if bytes_eqb p k then m else get_ometa p om.
Proof. unfold get_ometa. rewrite alookup_aset. destruct (bytes_eqb p k); reflexivity. Qed.

Lemma uom_writer n : forall objs prev om,
  Forall (fun o => so_daqmx o = None) objs ->
  NoDup (map so_path objs) ->
  (forall o, In o objs -> dtype_ok (get_ometa (so_path o) om) o) ->
  exists prev' om',
    update_object_metadata objs n None prev om = Ok (prev', om') /\
    map fst om' = fold_left add_new (map so_path objs) (map fst om) /\
    (forall p, get_ometa p om' =
               fold_left (fun m o => if bytes_eqb p (so_path o) then upd n m o else m) objs (get_ometa p om)) /\
    (forall p, alookup p prev' =
               fold_left (fun a o => if bytes_eqb p (so_path o) then Some o else a) objs (alookup p prev)).
Proof.
  induction objs as [|o r IH]; intros prev om Hdq Hnd Hok.
  - exists prev, om. repeat split; reflexivity.
  - inversion Hdq as [|x y Ho Hr]; subst. cbn [map] in Hnd. inversion Hnd as [|x y Hnin Hnd']; subst.
    cbn [update_object_metadata].
    rewrite (update_ometa_ok _ o n Ho (Hok o (or_introl eq_refl))). cbn [bind].
    destruct (IH (aset (so_path o) o prev)
                 (aset (so_path o) (upd n (get_ometa (so_path o) om) o) om) Hr Hnd')
      as (prev' & om' & Hrun & Hkeys & Hget & Hprev).
    { intros o' Ho'. rewrite get_ometa_aset.
      destruct (bytes_eqb (so_path o') (so_path o)) eqn:E.
      - apply bytes_eqb_eq in E. exfalso. apply Hnin. rewrite <- E. apply in_map. exact Ho'.
      - apply Hok. right. exact Ho'. }
    exists prev', om'. split; [exact Hrun|]. split; [|split].
    + rewrite Hkeys, keys_aset. reflexivity.
    + intros p. rewrite Hget, get_ometa_aset. cbn [fold_left].
      destruct (bytes_eqb p (so_path o)) eqn:E; [|reflexivity].
      apply bytes_eqb_eq in E. subst p. reflexivity.
    + intros p. rewrite Hprev, alookup_aset. cbn [fold_left]. reflexivity.
Qed.

Lemma uop_lookup props : forall om p,
  get_ometa p (update_object_properties props om) =
  fold_left (fun m kv => if bytes_eqb p (fst kv) then set_props m (snd kv) else m) props (get_ometa p om).
Proof.
  unfold update_object_properties.
  induction props as [|kv r IH]; intros om p; [reflexivity|].
  cbn [fold_left]. rewrite IH, get_ometa_aset.
  destruct (bytes_eqb p (fst kv)) eqn:E; [|reflexivity].
  apply bytes_eqb_eq in E. subst p. reflexivity.
Qed.

Lemma uop_keys props : forall om,
  (forall kv, In kv props -> In (fst kv) (map fst om)) ->
  map fst (update_object_properties props om) = map fst om.
Proof.
  unfold update_object_properties.
  induction props as [|kv r IH]; intros om H; [reflexivity|].
  cbn [fold_left]. 
  assert (Hk : map fst (aset (fst kv) (set_props (get_ometa (fst kv) om) (snd kv)) om) = map fst om).
  { rewrite keys_aset. unfold add_new.
    replace (mem (fst kv) (map fst om)) with true; [reflexivity|].
    symmetry. apply mem_In. apply H. left. reflexivity. }
  rewrite IH, Hk; [reflexivity|].
  intros kv' Hin. rewrite Hk. apply H. right. exact Hin.
Qed.

Lemma set_props_nil m : set_props m [] = m.
Proof. destruct m; reflexivity. Qed.

Definition entry_props (o : wobj) : list (bytes * list prop) :=
  match obj_props o with [] => [] | ps => [(obj_path o, ps)] end.

Lemma collect_props_writer : forall sorted acc,
  NoDup (map obj_path sorted) ->
  (forall o, In o sorted -> ~ In (obj_path o) (map fst acc)) ->
  collect_props (map entry_of sorted) acc = acc ++ flat_map entry_props sorted.
Proof.
  induction sorted as [|o r IH]; intros acc Hnd Hfresh; cbn [map collect_props flat_map].
  - rewrite app_nil_r. reflexivity.
  - cbn [map] in Hnd. inversion Hnd as [|x y Hnin Hnd']; subst.
    cbn [e_props e_path entry_of]. unfold entry_props at 1.
    destruct (obj_props o) as [|pr ps] eqn:Ep.
    + cbn [app]. apply IH; [exact Hnd'|]. intros o' Ho'. apply Hfresh. right. exact Ho'.
    + rewrite IH; [|exact Hnd'|].
      * rewrite LayoutProofs.aset_fresh by (apply Hfresh; left; reflexivity).
        rewrite <- app_assoc. reflexivity.
      * intros o' Ho'. rewrite LayoutProofs.aset_fresh by (apply Hfresh; left; reflexivity).
        rewrite map_app, in_app_iff. cbn [map fst In]. intros [H|[H|[]]].
        -- exact (Hfresh o' (or_intror Ho') H).
        -- apply Hnin. rewrite H. apply in_map. exact Ho'.
Qed.

Lemma fold_entry_props p : forall sorted m,
  fold_left (fun m kv => if bytes_eqb p (fst kv) then set_props m (snd kv) else m)
            (flat_map entry_props sorted) m =
  fold_left (fun m o => if bytes_eqb p (obj_path o) then set_props m (obj_props o) else m) sorted m.
Proof.
  induction sorted as [|o r IH]; intros m; [reflexivity|].
  cbn [flat_map]. rewrite fold_left_app, IH. cbn [fold_left]. f_equal.
  unfold entry_props. destruct (obj_props o) as [|pr ps] eqn:Ep; cbn [fold_left fst snd].
  - destruct (bytes_eqb p (obj_path o)); [rewrite set_props_nil|]; reflexivity.
  - reflexivity.
Qed.

(* ---- the specification functions on an extended sequence -------------------------------- *)

Lemma merge_props_app a b acc : merge_props (a ++ b) acc = merge_props b (merge_props a acc).
Proof. unfold merge_props. apply fold_left_app. Qed.

Lemma props_at_app p seq l :
  props_at p (seq ++ l) = merge_props (flat_map obj_props (sel obj_path p l)) (props_at p seq).
Proof. unfold props_at. rewrite flat_map_app, merge_props_app, (at_path_sel obj_props p l). reflexivity. Qed.

Lemma values_at_app p seq l :
  values_at p (seq ++ l) = values_at p seq ++ flat_map obj_values (sel obj_path p l).
Proof. unfold values_at. rewrite flat_map_app, (at_path_sel obj_values p l). reflexivity. Qed.

Lemma dtypes_of_app p seq l :
  dtypes_of p (seq ++ l) = dtypes_of p seq ++ flat_map obj_dtypes (sel obj_path p l).
Proof. unfold dtypes_of. rewrite flat_map_app, (at_path_sel obj_dtypes p l). reflexivity. Qed.

Lemma dtype_at_dtypes p seq : dtype_at p seq = hd_error (dtypes_of p seq).
Proof. reflexivity. Qed.

Lemma at_path_absent {B} (f : wobj -> list B) p seq :
  ~ In p (map obj_path seq) -> flat_map (at_path p f) seq = [].
Proof. intros H. rewrite at_path_sel, (sel_none obj_path p seq H). reflexivity. Qed.

Definition consistent (seq : list wobj) : Prop :=
  forall p d1 d2, In d1 (dtypes_of p seq) -> In d2 (dtypes_of p seq) -> d1 = d2.

Lemma consistent_prefix a b : consistent (a ++ b) -> consistent a.
Proof.
  intros H p d1 d2 H1 H2. apply (H p); unfold dtypes_of; rewrite flat_map_app; apply in_or_app; left; assumption.
Qed.

(* ---- the reader state after a prefix of the file ------------------------------------------ *)

Record st_inv (seq : list wobj) (prev : alist sobj) (om : alist ometa) : Prop := mkInv {
  inv_prev : forall p po, alookup p prev = Some po ->
                          so_path po = p /\ so_daqmx po = None /\ so_dtype po = dtype_at p seq;
  inv_prev_none : forall p, alookup p prev = None -> ~ In p (map obj_path seq);
  inv_keys : map fst om = dedup (map obj_path seq);
  inv_props : forall p, om_props (get_ometa p om) = props_at p seq;
  inv_dtype : forall p, om_dtype (get_ometa p om) = dtype_at p seq;
  inv_scalers : forall p, om_scalers (get_ometa p om) = None;
  inv_len : forall p, om_len (get_ometa p om) = Z.of_nat (length (values_at p seq)) }.

Lemma st_inv_init : st_inv [] [] [].
Proof. constructor; try reflexivity; try discriminate. intros p _ []. Qed.

Lemma inv_keys_ok seq prev om : st_inv seq prev om -> prev_keys_ok prev.
Proof. intros H p po Hp. exact (proj1 (inv_prev _ _ _ H p po Hp)). Qed.

Lemma set_has_data_fields o b :
  so_path (set_has_data o b) = so_path o /\ so_daqmx (set_has_data o b) = so_daqmx o /\
  so_dtype (set_has_data o b) = so_dtype o.
Proof. repeat split. Qed.

Lemma nodata_sobj_fields seq prev om p :
  st_inv seq prev om ->
  so_daqmx (nodata_sobj prev p) = None /\ so_dtype (nodata_sobj prev p) = dtype_at p seq.
Proof.
  intros H. unfold nodata_sobj. destruct (alookup p prev) as [po|] eqn:E.
  - destruct (inv_prev _ _ _ H p po E) as (_ & Hd & Ht).
    destruct (so_has_data po); cbn [set_has_data so_daqmx so_dtype]; split; assumption.
  - cbn [so_daqmx so_dtype]. split; [reflexivity|].
    pose proof (inv_prev_none _ _ _ H p E) as Hn.
    rewrite dtype_at_dtypes. unfold dtypes_of. rewrite (at_path_absent _ p seq Hn). reflexivity.
Qed.

Lemma sobj_of_daqmx seq prev om o : st_inv seq prev om -> so_daqmx (sobj_of prev o) = None.
Proof.
  intros H. unfold sobj_of. destruct (is_typed o); [reflexivity|].
  exact (proj1 (nodata_sobj_fields seq prev om (obj_path o) H)).
Qed.

Lemma typed_dtypes o : is_typed o = true -> obj_dtypes o = [obj_dtype o].
Proof.
  destruct o as [ps|g ps|g c dt vs ps]; cbn [is_typed obj_dtypes obj_dtype]; try discriminate.
  destruct (dt =? T_VOID); [discriminate|reflexivity].
Qed.

Lemma untyped_dtypes o : is_typed o = false -> obj_dtypes o = [].
Proof.
  destruct o as [ps|g ps|g c dt vs ps]; cbn [is_typed obj_dtypes]; try reflexivity.
  destruct (dt =? T_VOID); [reflexivity|discriminate].
Qed.

(* the data type the reader holds for the object after this segment *)
Lemma sobj_of_dtype seq prev om sorted o :
  st_inv seq prev om -> consistent (seq ++ sorted) ->
  sel obj_path (obj_path o) sorted = [o] ->
  so_dtype (sobj_of prev o) = dtype_at (obj_path o) (seq ++ sorted) /\
  dtype_ok (get_ometa (obj_path o) om) (sobj_of prev o).
Proof.
  intros Hinv Hc Hsel. set (p := obj_path o) in *.
  rewrite dtype_at_dtypes, dtypes_of_app, Hsel. cbn [flat_map]. rewrite app_nil_r.
  unfold dtype_ok. rewrite (inv_dtype _ _ _ Hinv p), dtype_at_dtypes.
  unfold sobj_of. destruct (is_typed o) eqn:Ht.
  - rewrite (typed_dtypes o Ht). cbn [so_dtype data_sobj].
    destruct (dtypes_of p seq) as [|d r] eqn:Ed; cbn [app hd_error]; [split; [reflexivity|left; reflexivity]|].
    assert (d = obj_dtype o) as ->.
    { apply (Hc p); rewrite dtypes_of_app, Hsel, Ed; cbn [flat_map]; rewrite (typed_dtypes o Ht).
      - left. reflexivity.
      - apply in_or_app. right. left. reflexivity. }
    split; [reflexivity|right; reflexivity].
  - rewrite (untyped_dtypes o Ht), app_nil_r. fold p.
    destruct (nodata_sobj_fields seq prev om p Hinv) as [_ Hd]. rewrite Hd, dtype_at_dtypes.
    split; [reflexivity|right; reflexivity].
Qed.

Lemma blen_flat_map_zero {A} (f : A -> bytes) l a :
  In a l -> blen (flat_map f l) = 0 -> blen (f a) = 0.
Proof.
  induction l as [|b l IH]; intros Hin H; [destruct Hin|].
  cbn [flat_map] in H. rewrite blen_app in H.
  pose proof (blen_nonneg (f b)). pose proof (blen_nonneg (flat_map f l)).
  destruct Hin as [<-|Hin]; [lia|]. apply IH; [exact Hin|lia].
Qed.

Lemma typed_raw_zero o :
  wf_obj o = true -> is_typed o = true -> blen (obj_raw o) = 0 -> obj_values o = [].
Proof.
  intros Hwf Ht Hz. rewrite <- (typed_dsize o Hwf Ht) in Hz.
  destruct o as [ps|g ps|g c dt vs ps]; cbn [is_typed] in Ht; try discriminate.
  pose proof (wf_chan_type _ _ _ _ _ Hwf) as Hty. unfold chan_type_ok in Hty.
  cbn [obj_dtype obj_values] in *. destruct (dt =? T_VOID) eqn:Ev; [discriminate|].
  unfold chan_dsize in Hz. destruct (dt =? T_STRING) eqn:Es.
  - assert (dt = T_STRING) by lia. subst dt. change (tds_size T_STRING) with (Some (@None Z)) in Hz.
    cbv beta iota in Hz.
    destruct vs as [|s r]; [reflexivity|]. cbn [string_total] in Hz.
    pose proof (blen_nonneg s). pose proof (string_total_nonneg r). lia.
  - destruct (sized_type dt) as [k|] eqn:Ek; [|discriminate].
    rewrite (sized_tds_size dt k Ek) in Hz. pose proof (sized_type_pos dt k Ek).
    destruct vs as [|s r]; [reflexivity|]. cbn [length] in Hz. lia.
Qed.

Lemma seg_values_writer prev sorted o :
  forallb wf_obj sorted = true -> In o sorted ->
  seg_values (sobj_of prev o) (seg_nch sorted) None = Z.of_nat (length (obj_values o)).
Proof.
  intros Hwf Hin. rewrite forallb_forall in Hwf. pose proof (Hwf o Hin) as Ho.
  unfold seg_values, sobj_of. destruct (is_typed o) eqn:Ht.
  - cbn [so_has_data data_sobj negb so_nvals]. unfold seg_nch.
    destruct (blen (flat_map obj_raw sorted) =? 0) eqn:E; [|lia].
    assert (Hz : blen (obj_raw o) = 0) by (apply (blen_flat_map_zero obj_raw sorted o Hin); lia).
    rewrite (typed_raw_zero o Ho Ht Hz). reflexivity.
  - rewrite nodata_sobj_no_data. cbn [negb]. destruct (untyped_raw o Ho Ht) as [_ ->]. reflexivity.
Qed.

(* ---- one segment: the metadata update preserves the invariant ----------------------------- *)

Lemma fold_objs_sel {M} (F : M -> sobj -> M) p prev :
  prev_keys_ok prev -> forall sorted m,
  fold_left (fun m so => if bytes_eqb p (so_path so) then F m so else m) (map (sobj_of prev) sorted) m =
  fold_left (fun m o => F m (sobj_of prev o)) (sel obj_path p sorted) m.
Proof.
  intros Hk. induction sorted as [|o r IH]; intros m; [reflexivity|].
  cbn [map fold_left sel filter]. rewrite (sobj_of_path prev o Hk).
  destruct (bytes_eqb p (obj_path o)); cbn [fold_left]; apply IH.
Qed.

Lemma dedup_app a b : dedup (a ++ b) = fold_left add_new b (dedup a).
Proof. unfold dedup. apply fold_left_app. Qed.

Lemma segment_step seq prev om sorted :
  st_inv seq prev om -> forallb wf_obj sorted = true -> NoDup (map obj_path sorted) ->
  consistent (seq ++ sorted) ->
  exists prev' om0,
    update_object_metadata (map (sobj_of prev) sorted) (seg_nch sorted) None prev om = Ok (prev', om0) /\
    st_inv (seq ++ sorted) prev' (update_object_properties (collect_props (map entry_of sorted) []) om0).
Proof.
  intros Hinv Hwf Hnd Hc.
  pose proof (inv_keys_ok _ _ _ Hinv) as Hk.
  set (n := seg_nch sorted).
  pose proof (sobj_of_paths prev sorted Hk) as Hpaths.
  destruct (uom_writer n (map (sobj_of prev) sorted) prev om) as (prev' & om0 & Hrun & Hkeys & Hget & Hprev).
  { apply Forall_forall. intros so Hso. apply in_map_iff in Hso. destruct Hso as [o [<- _]].
    exact (sobj_of_daqmx seq prev om o Hinv). }
  { rewrite Hpaths. exact Hnd. }
  { intros so Hso. apply in_map_iff in Hso. destruct Hso as [o [<- Ho]].
    rewrite (sobj_of_path prev o Hk).
    exact (proj2 (sobj_of_dtype seq prev om sorted o Hinv Hc (sel_unique obj_path sorted o Hnd Ho))). }
  exists prev', om0. split; [exact Hrun|].
  rewrite (collect_props_writer sorted [] Hnd) by (intros o _ []). cbn [app].
  set (om1 := update_object_properties (flat_map entry_props sorted) om0).
  assert (Hg : forall p, get_ometa p om1 =
             fold_left (fun m o => set_props m (obj_props o)) (sel obj_path p sorted)
               (fold_left (fun m o => upd n m (sobj_of prev o)) (sel obj_path p sorted) (get_ometa p om))).
  { intros p. unfold om1. rewrite uop_lookup, fold_entry_props.
    rewrite (fold_sel obj_path (fun m o => set_props m (obj_props o)) p sorted).
    rewrite Hget, (fold_objs_sel (upd n) p prev Hk). reflexivity. }
  assert (Hp' : forall p, alookup p prev' =
             fold_left (fun a o => Some (sobj_of prev o)) (sel obj_path p sorted) (alookup p prev)).
  { intros p. rewrite Hprev. apply (fold_objs_sel (fun _ so => Some so) p prev Hk). }
  constructor.
  - (* prev: fields *)
    intros p po Hpo. rewrite Hp' in Hpo.
    destruct (sel_cases obj_path p sorted Hnd) as [[Hn Hs]|(o & Hin & Hpo' & Hs)]; rewrite Hs in Hpo; cbn [fold_left] in Hpo.
    + destruct (inv_prev _ _ _ Hinv p po Hpo) as (H1 & H2 & H3). repeat split; try assumption.
      rewrite H3, !dtype_at_dtypes, dtypes_of_app, Hs. cbn [flat_map]. rewrite app_nil_r. reflexivity.
    + injection Hpo as <-. subst p. split; [apply sobj_of_path; exact Hk|]. split.
      * exact (sobj_of_daqmx seq prev om o Hinv).
      * exact (proj1 (sobj_of_dtype seq prev om sorted o Hinv Hc Hs)).
  - (* prev: absent keys *)
    intros p Hpn. rewrite Hp' in Hpn.
    destruct (sel_cases obj_path p sorted Hnd) as [[Hn Hs]|(o & Hin & Hpo' & Hs)]; rewrite Hs in Hpn; cbn [fold_left] in Hpn.
    + rewrite map_app, in_app_iff. intros [H|H]; [exact (inv_prev_none _ _ _ Hinv p Hpn H)|exact (Hn H)].
    + discriminate.
  - (* keys *)
    unfold om1. rewrite uop_keys.
    + rewrite Hkeys, Hpaths, (inv_keys _ _ _ Hinv), map_app, dedup_app. reflexivity.
    + intros kv Hkv. apply in_flat_map in Hkv. destruct Hkv as [o [Ho Hkv]].
      unfold entry_props in Hkv. destruct (obj_props o); [destruct Hkv|].
      destruct Hkv as [<-|[]]. cbn [fst]. rewrite Hkeys, Hpaths. apply fold_add_new_in. right.
      apply in_map. exact Ho.
  - (* props *)
    intros p. rewrite Hg, props_at_app.
    destruct (sel_cases obj_path p sorted Hnd) as [[Hn Hs]|(o & Hin & Hpo' & Hs)]; rewrite Hs; cbn [fold_left flat_map].
    + apply (inv_props _ _ _ Hinv).
    + rewrite app_nil_r. cbn [set_props om_props upd]. rewrite (inv_props _ _ _ Hinv p). reflexivity.
  - (* dtype *)
    intros p. rewrite Hg.
    destruct (sel_cases obj_path p sorted Hnd) as [[Hn Hs]|(o & Hin & Hpo' & Hs)]; rewrite Hs; cbn [fold_left].
    + rewrite (inv_dtype _ _ _ Hinv p), !dtype_at_dtypes, dtypes_of_app, Hs. cbn [flat_map].
      rewrite app_nil_r. reflexivity.
    + cbn [set_props om_dtype upd]. subst p. exact (proj1 (sobj_of_dtype seq prev om sorted o Hinv Hc Hs)).
  - (* scalers *)
    intros p. rewrite Hg.
    destruct (sel_cases obj_path p sorted Hnd) as [[Hn Hs]|(o & Hin & Hpo' & Hs)]; rewrite Hs; cbn [fold_left].
    + apply (inv_scalers _ _ _ Hinv).
    + cbn [set_props om_scalers upd]. apply (inv_scalers _ _ _ Hinv).
  - (* len *)
    intros p. rewrite Hg, values_at_app.
    destruct (sel_cases obj_path p sorted Hnd) as [[Hn Hs]|(o & Hin & Hpo' & Hs)]; rewrite Hs; cbn [fold_left flat_map].
    + rewrite app_nil_r. apply (inv_len _ _ _ Hinv).
    + cbn [set_props om_len upd]. rewrite (inv_len _ _ _ Hinv p), app_nil_r, app_length.
      unfold n. rewrite (seg_values_writer prev sorted o Hwf Hin). lia.
Qed.

(* ---- the whole file ------------------------------------------------------------------------ *)

Definition seg_rel (vs : Z * list wobj) (g : segment) : Prop :=
  sg_toc g = TOC_WRITER /\
  exists prev, prev_keys_ok prev /\ sg_objs g = map (sobj_of prev) (snd vs) /\
               sg_nchunks g = seg_nch (snd vs) /\ sg_final g = None.

Definition sl_ok (sl : list (Z * list wobj)) : Prop :=
  Forall (fun vs => forallb wf_obj (snd vs) = true /\ NoDup (map obj_path (snd vs))) sl.

Lemma sm_loop_writer : forall sl pos ps pi st0 seq0,
  st_inv seq0 (rs_prev_objs st0) (rs_om st0) ->
  sl_ok sl ->
  consistent (seq0 ++ flat_map snd sl) ->
  exists st,
    sm_loop (fsegs_of sl) false pos ps pi st0 = Ok st /\
    st_inv (seq0 ++ flat_map snd sl) (rs_prev_objs st) (rs_om st) /\
    exists gs, rs_segments st = rs_segments st0 ++ gs /\ Forall2 seg_rel sl gs.
Proof.
  induction sl as [|[v sorted] sl IH]; intros pos ps pi st0 seq0 Hinv Hok Hc.
  - exists st0. cbn [fsegs_of map sm_loop flat_map]. rewrite app_nil_r in *.
    split; [reflexivity|]. split; [exact Hinv|]. exists []. rewrite app_nil_r. split; [reflexivity|constructor].
  - inversion Hok as [|x y [Hwf Hnd] Hok']; subst. cbn [snd] in Hwf, Hnd.
    cbn [flat_map snd] in Hc. rewrite app_assoc in Hc.
    pose proof (consistent_prefix _ _ Hc) as Hc1.
    pose proof (inv_keys_ok _ _ _ Hinv) as Hk.
    destruct (segment_step seq0 _ _ sorted Hinv Hwf Hnd Hc1) as (prev' & om0 & Hrun & Hinv').
    cbn [fsegs_of map]. rewrite sm_loop_cons. unfold seg_step. cbv zeta.
    cbn [fs_toc fs_version fs_meta fs_data fseg_of fst snd rs_prev_objs rs_om rs_segments rs_cache rs_version].
    rewrite (read_segment_objects_writer _ ps sorted Hk Hwf). cbn [bind].
    match goal with |- context [calculate_chunks _ _ _ ?t] =>
      replace t with (blen (flat_map obj_raw sorted)) by lia end.
    rewrite (calculate_chunks_writer _ sorted Hwf). cbn [bind]. rewrite Hrun. cbn [bind].
    match goal with |- context [sm_loop _ false ?pos' ?ps' ?pi' ?st1] =>
      destruct (IH pos' ps' pi' st1 (seq0 ++ sorted)) as (st & Hst & Hinvf & gs & Hgs & HF2) end.
    + cbn [rs_prev_objs rs_om]. exact Hinv'.
    + exact Hok'.
    + exact Hc.
    + exists st. split; [exact Hst|]. cbn [flat_map snd]. rewrite app_assoc. split; [exact Hinvf|].
      cbn [rs_segments] in Hgs. rewrite <- app_assoc in Hgs. cbn [app] in Hgs.
      eexists. split; [exact Hgs|]. constructor; [|exact HF2].
      split; [reflexivity|]. exists (rs_prev_objs st0). cbn [sg_objs sg_nchunks sg_final snd].
      repeat split. exact Hk.
Qed.

Theorem sm_run_writer sl :
  sl_ok sl -> consistent (flat_map snd sl) ->
  exists st,
    sm_run (fsegs_of sl) false = Ok st /\
    st_inv (flat_map snd sl) (rs_prev_objs st) (rs_om st) /\
    Forall2 seg_rel sl (rs_segments st).
Proof.
  intros Hok Hc. unfold sm_run.
  destruct (sm_loop_writer sl 0 None [] rstate0 [] st_inv_init Hok Hc) as (st & Hst & Hinv & gs & Hgs & HF2).
  exists st. split; [exact Hst|]. split; [exact Hinv|]. cbn [rstate0 rs_segments app] in Hgs. rewrite Hgs. exact HF2.
Qed.
