(* Proofs/HornerRound.v -- rounding error of the binary64 Horner evaluation performed by
   numpy.polynomial.polynomial.polyval (Model/ThermoF.horner), against the exact real
   Horner value (Model/ThermoR.hornerR), by induction on the coefficient list.

   Per operation the standard model of round-to-nearest in binary64 with gradual underflow
   is used (Flocq, Prop/Relative.error_N_FLT):
        rnd z = z (1 + eps) + eta,   |eps| <= u = 2^-53,   |eta| <= eta = 2^-1075,
   in the form  |rnd z - z| <= u |z| + eta.  The bridge from primitive floats to Flocq's
   binary_float is Flocq's IEEE754/PrimFloat.v (Prim2B, add_equiv, mul_equiv), overflow is
   excluded through Bplus_correct / Bmult_correct. *)
From Coq Require Import Reals ZArith List Lra Lia.
From Coq Require Import PrimFloat.
From Flocq Require Import Core BinarySingleNaN Relative.
From Flocq Require IEEE754.PrimFloat.
Import ListNotations.
From NpTdms Require Import Model.ThermoF.
From NpTdms Require Import Model.ThermoR.
Module FP := Flocq.IEEE754.PrimFloat.
Open Scope R_scope.
(* Flocq's Core also has a record called float *)
Notation float := Coq.Floats.PrimFloat.float.

(* ---- vocabulary -------------------------------------------------------------------------- *)

(* the real number a primitive float denotes (0 for infinities and NaN: always used together
   with Ffin) *)
Definition FR (x : float) : R := B2R (FP.Prim2B x).
(* x is a finite binary64 number (not an infinity, not NaN) *)
Definition Ffin (x : float) : Prop := BinarySingleNaN.is_finite (FP.Prim2B x) = true.

(* unit roundoff and half the smallest subnormal of binary64, in a form `interval` reads
   (powerRZ: a 324-digit literal makes every interval call slow) *)
Definition u64 : R := 0x1p-53%R.
Definition eta64 : R := powerRZ 2 (-1075).
(* overflow threshold 2^1024 *)
Definition ovf64 : R := powerRZ 2 1024.

(* magnitude bound of the float Horner value for |x| <= X  (c :: cs = coefficients, lowest first) *)
Fixpoint hb (c : R) (cs : list R) (X : R) : R :=
  match cs with
  | [] => Rabs c
  | c' :: r => (Rabs c + (hb c' r X * X * (1 + u64) + eta64)) * (1 + u64) + eta64
  end.

(* bound of |float Horner - real Horner| for |x| <= X: the error of the inner value times X,
   plus the rounding of the product, plus the rounding of the sum *)
Fixpoint he (c : R) (cs : list R) (X : R) : R :=
  match cs with
  | [] => 0
  | c' :: r => he c' r X * X
             + (hb c' r X * X * u64 + eta64)
             + ((Rabs c + (hb c' r X * X * (1 + u64) + eta64)) * u64 + eta64)
  end.

(* no intermediate result can overflow: every partial magnitude bound is below 2^1024 *)
Fixpoint hsafe (c : R) (cs : list R) (X : R) : Prop :=
  match cs with
  | [] => True
  | c' :: r => hsafe c' r X /\ hb c cs X < ovf64
  end.

(* ---- the constants ------------------------------------------------------------------------- *)

Lemma u64_bpow : u64 = bpow radix2 (-53).
Proof. unfold u64, Q2R. simpl. lra. Qed.
Lemma eta64_bpow : eta64 = bpow radix2 (-1075).
Proof. unfold eta64. rewrite bpow_powerRZ. reflexivity. Qed.
Lemma ovf64_bpow : ovf64 = bpow radix2 1024.
Proof. unfold ovf64. rewrite bpow_powerRZ. reflexivity. Qed.

Lemma u64_pos : 0 < u64.
Proof. rewrite u64_bpow. apply bpow_gt_0. Qed.
Lemma eta64_pos : 0 < eta64.
Proof. rewrite eta64_bpow. apply bpow_gt_0. Qed.

(* ---- one rounding --------------------------------------------------------------------------- *)

Definition rnd (z : R) : R :=
  round radix2 (SpecFloat.fexp FloatOps.prec FloatOps.emax) (round_mode mode_NE) z.

Lemma rnd_error : forall z, Rabs (rnd z - z) <= u64 * Rabs z + eta64.
Proof.
  intros z. unfold rnd.
  destruct (error_N_FLT radix2 (-1074) 53 eq_refl (fun x => negb (Z.even x)) z)
    as [eps [et [Heps [Het [_ Hr]]]]].
  change (round radix2 (SpecFloat.fexp FloatOps.prec FloatOps.emax) (round_mode mode_NE) z)
    with (round radix2 (FLT_exp (-1074) 53) (Znearest (fun x => negb (Z.even x))) z).
  rewrite Hr.
  replace (z * (1 + eps) + et - z) with (eps * z + et) by ring.
  apply Rle_trans with (1 := Rabs_triang _ _).
  rewrite Rabs_mult.
  assert (Hu : / 2 * bpow radix2 (- 53 + 1) = u64) by (unfold u64, Q2R; simpl; lra).
  assert (He : / 2 * bpow radix2 (-1074) = eta64).
  { rewrite eta64_bpow. change (-1074)%Z with (1 + -1075)%Z. rewrite bpow_plus.
    change (bpow radix2 1) with 2. field. }
  assert (Heps' : Rabs eps <= u64) by (rewrite <- Hu; exact Heps).
  assert (Het' : Rabs et <= eta64) by (rewrite <- He; exact Het).
  apply Rplus_le_compat; [|exact Het'].
  apply Rmult_le_compat_r; [apply Rabs_pos|exact Heps'].
Qed.

Lemma rnd_abs : forall z, Rabs (rnd z) <= Rabs z * (1 + u64) + eta64.
Proof.
  intros z. pose proof (rnd_error z) as H.
  replace (rnd z) with ((rnd z - z) + z) by ring.
  apply Rle_trans with (1 := Rabs_triang _ _). lra.
Qed.

(* ---- one float operation --------------------------------------------------------------------- *)

Lemma Ffin_zero : Ffin 0%float.
Proof. unfold Ffin. change 0%float with zero. rewrite FP.zero_equiv, FP.Prim2B_B2Prim. reflexivity. Qed.
Lemma FR_zero : FR 0%float = 0.
Proof. unfold FR. change 0%float with zero. rewrite FP.zero_equiv, FP.Prim2B_B2Prim. reflexivity. Qed.

Lemma FR_lt_ovf : forall a, Rabs (FR a) < ovf64.
Proof. intros a. rewrite ovf64_bpow. apply abs_B2R_lt_emax. Qed.

Lemma rnd_FR : forall a, rnd (FR a) = FR a.
Proof.
  intros a. unfold rnd, FR. apply round_generic; [apply valid_rnd_round_mode|].
  apply generic_format_B2R.
Qed.

Lemma mul_ok : forall a b, Ffin a -> Ffin b ->
  Rabs (rnd (FR a * FR b)) < ovf64 ->
  Ffin (a * b)%float /\ FR (a * b)%float = rnd (FR a * FR b).
Proof.
  intros a b Ha Hb Hov. unfold Ffin, FR in *. rewrite FP.mul_equiv.
  pose proof (Bmult_correct _ _ FP.Hprec FP.Hmax mode_NE (FP.Prim2B a) (FP.Prim2B b)) as H.
  rewrite ovf64_bpow in Hov. unfold rnd in Hov. change 1024%Z with FloatOps.emax in Hov.
  rewrite (Rlt_bool_true _ _ Hov) in H. destruct H as [H1 [H2 _]].
  split; [rewrite H2, Ha, Hb; reflexivity|exact H1].
Qed.

Lemma add_ok : forall a b, Ffin a -> Ffin b ->
  Rabs (rnd (FR a + FR b)) < ovf64 ->
  Ffin (a + b)%float /\ FR (a + b)%float = rnd (FR a + FR b).
Proof.
  intros a b Ha Hb Hov. unfold Ffin, FR in *. rewrite FP.add_equiv.
  pose proof (Bplus_correct _ _ FP.Hprec FP.Hmax mode_NE (FP.Prim2B a) (FP.Prim2B b) Ha Hb) as H.
  rewrite ovf64_bpow in Hov. unfold rnd in Hov. change 1024%Z with FloatOps.emax in Hov.
  rewrite (Rlt_bool_true _ _ Hov) in H. destruct H as [H1 [H2 _]].
  split; [exact H2|exact H1].
Qed.

(* c[-1] + x*0 : for finite x the product is a zero and the sum is c[-1] exactly *)
Lemma horner_base : forall c x, Ffin c -> Ffin x ->
  Ffin (c + x * 0)%float /\ FR (c + x * 0)%float = FR c.
Proof.
  intros c x Hc Hx.
  destruct (mul_ok x 0%float Hx Ffin_zero) as [Hf Hv].
  { rewrite FR_zero, Rmult_0_r. unfold rnd. rewrite round_0 by apply valid_rnd_round_mode.
    rewrite Rabs_R0, ovf64_bpow. apply bpow_gt_0. }
  rewrite FR_zero, Rmult_0_r in Hv. unfold rnd in Hv.
  rewrite round_0 in Hv by apply valid_rnd_round_mode.
  destruct (add_ok c (x * 0)%float Hc Hf) as [Hf2 Hv2].
  { rewrite Hv, Rplus_0_r, rnd_FR. apply FR_lt_ovf. }
  split; [exact Hf2|]. rewrite Hv2, Hv, Rplus_0_r. apply rnd_FR.
Qed.

(* ---- the bounds are non-negative --------------------------------------------------------- *)

Lemma hb_nonneg : forall cs c X, 0 <= X -> 0 <= hb c cs X.
Proof.
  induction cs as [|c' r IH]; intros c X HX; cbn [hb]; [apply Rabs_pos|].
  pose proof (IH c' X HX) as H. pose proof u64_pos. pose proof eta64_pos. pose proof (Rabs_pos c).
  assert (0 <= hb c' r X * X) by (apply Rmult_le_pos; assumption).
  assert (0 <= hb c' r X * X * (1 + u64)) by (apply Rmult_le_pos; lra).
  assert (0 <= (Rabs c + (hb c' r X * X * (1 + u64) + eta64)) * (1 + u64)) by (apply Rmult_le_pos; lra).
  lra.
Qed.

(* ---- the generic theorem -------------------------------------------------------------------- *)

Theorem horner_rounding_gen : forall cs c x X,
  Ffin x -> Ffin c -> Forall Ffin cs ->
  Rabs (FR x) <= X ->
  hsafe (FR c) (map FR cs) X ->
  Ffin (horner c cs x) /\
  Rabs (FR (horner c cs x)) <= hb (FR c) (map FR cs) X /\
  Rabs (FR (horner c cs x) - hornerR (FR c) (map FR cs) (FR x)) <= he (FR c) (map FR cs) X.
Proof.
  induction cs as [|c' r IH]; intros c x X Hx Hc Hcs HX Hsafe.
  - cbn [horner map hb he hornerR].
    destruct (horner_base c x Hc Hx) as [Hf Hv]. rewrite Hv.
    split; [exact Hf|]. split; [apply Rle_refl|].
    replace (FR c - (FR c + FR x * 0)) with 0 by ring. rewrite Rabs_R0. apply Rle_refl.
  - cbn [horner map hb he hornerR hsafe] in *.
    destruct Hsafe as [Hsafe' Hov].
    inversion Hcs as [|? ? Hc' Hr]; subst.
    destruct (IH c' x X Hx Hc' Hr HX Hsafe') as [Hfi [Hbi Hei]].
    set (q := horner c' r x) in *.
    set (Q := hornerR (FR c') (map FR r) (FR x)) in *.
    set (B := hb (FR c') (map FR r) X) in *.
    set (E := he (FR c') (map FR r) X) in *.
    assert (HX0 : 0 <= X) by (apply Rle_trans with (2 := HX); apply Rabs_pos).
    assert (HB0 : 0 <= B) by (apply hb_nonneg; exact HX0).
    pose proof u64_pos as Hu. pose proof eta64_pos as Het.
    (* the product *)
    assert (Hprod : Rabs (FR q * FR x) <= B * X).
    { rewrite Rabs_mult. apply Rmult_le_compat; try apply Rabs_pos; assumption. }
    assert (Hrp : Rabs (rnd (FR q * FR x)) <= B * X * (1 + u64) + eta64).
    { apply Rle_trans with (1 := rnd_abs _).
      apply Rplus_le_compat_r. apply Rmult_le_compat_r; [lra|exact Hprod]. }
    pose proof (Rabs_pos (FR c)) as Hc0.
    assert (HBX0 : 0 <= B * X) by (apply Rmult_le_pos; assumption).
    assert (HP0 : 0 <= B * X * (1 + u64)) by (apply Rmult_le_pos; lra).
    assert (Hle : B * X * (1 + u64) + eta64
                  <= (Rabs (FR c) + (B * X * (1 + u64) + eta64)) * (1 + u64) + eta64).
    { assert (0 <= (Rabs (FR c) + (B * X * (1 + u64) + eta64)) * u64) by (apply Rmult_le_pos; lra).
      lra. }
    destruct (mul_ok q x Hfi Hx) as [Hfp Hvp]; [lra|].
    (* the sum *)
    assert (Hsum : Rabs (FR c + FR (q * x)%float) <= Rabs (FR c) + (B * X * (1 + u64) + eta64)).
    { apply Rle_trans with (1 := Rabs_triang _ _). rewrite Hvp. lra. }
    assert (Hrs : Rabs (rnd (FR c + FR (q * x)%float))
                  <= (Rabs (FR c) + (B * X * (1 + u64) + eta64)) * (1 + u64) + eta64).
    { apply Rle_trans with (1 := rnd_abs _).
      apply Rplus_le_compat_r. apply Rmult_le_compat_r; [lra|exact Hsum]. }
    destruct (add_ok c (q * x)%float Hc Hfp) as [Hfs Hvs]; [lra|].
    split; [exact Hfs|]. split; [rewrite Hvs; exact Hrs|].
    rewrite Hvs.
    replace (rnd (FR c + FR (q * x)%float) - (FR c + Q * FR x))
      with ((rnd (FR c + FR (q * x)%float) - (FR c + FR (q * x)%float))
            + ((FR (q * x)%float - FR q * FR x) + (FR q - Q) * FR x)) by ring.
    apply Rle_trans with (1 := Rabs_triang _ _).
    assert (H1 : Rabs (rnd (FR c + FR (q * x)%float) - (FR c + FR (q * x)%float))
                 <= (Rabs (FR c) + (B * X * (1 + u64) + eta64)) * u64 + eta64).
    { apply Rle_trans with (1 := rnd_error _). rewrite Rmult_comm.
      apply Rplus_le_compat_r. apply Rmult_le_compat_r; [lra|exact Hsum]. }
    assert (H2 : Rabs (FR (q * x)%float - FR q * FR x) <= B * X * u64 + eta64).
    { rewrite Hvp. apply Rle_trans with (1 := rnd_error _). rewrite Rmult_comm.
      apply Rplus_le_compat_r. apply Rmult_le_compat_r; [lra|exact Hprod]. }
    assert (H3 : Rabs ((FR q - Q) * FR x) <= E * X).
    { rewrite Rabs_mult. apply Rmult_le_compat; try apply Rabs_pos; assumption. }
    pose proof (Rabs_triang (FR (q * x)%float - FR q * FR x) ((FR q - Q) * FR x)).
    lra.
Qed.

(* ---- bounds established step by step -------------------------------------------------------- *)

(* hb and he unfold to terms of quadratic size; numeric instances are therefore established
   one coefficient at a time: B bounds the magnitude, E the error, and nothing overflows *)
Definition hbound (c : R) (cs : list R) (X B E : R) : Prop :=
  hsafe c cs X /\ hb c cs X <= B /\ he c cs X <= E.

Lemma hbound_base : forall c X B, Rabs c <= B -> hbound c [] X B 0.
Proof. intros c X B H. unfold hbound. cbn [hsafe hb he]. split; [exact I|]. split; [exact H|apply Rle_refl]. Qed.

Lemma hbound_step : forall c c' r X B E B1 E1,
  0 <= X -> hbound c' r X B E ->
  (Rabs c + (B * X * (1 + u64) + eta64)) * (1 + u64) + eta64 <= B1 ->
  E * X + (B * X * u64 + eta64) + ((Rabs c + (B * X * (1 + u64) + eta64)) * u64 + eta64) <= E1 ->
  B1 < ovf64 ->
  hbound c (c' :: r) X B1 E1.
Proof.
  intros c c' r X B E B1 E1 HX [Hs [Hb He]] HB1 HE1 Hov. unfold hbound. cbn [hsafe hb he].
  pose proof u64_pos as Hu. pose proof eta64_pos as Het. pose proof (Rabs_pos c) as Hc.
  pose proof (hb_nonneg r c' X HX) as Hb0.
  assert (H1 : hb c' r X * X <= B * X) by (apply Rmult_le_compat_r; assumption).
  assert (H2 : hb c' r X * X * (1 + u64) <= B * X * (1 + u64)) by (apply Rmult_le_compat_r; lra).
  assert (H3 : hb c' r X * X * u64 <= B * X * u64) by (apply Rmult_le_compat_r; lra).
  assert (H4 : he c' r X * X <= E * X) by (apply Rmult_le_compat_r; assumption).
  assert (H5 : (Rabs c + (hb c' r X * X * (1 + u64) + eta64)) * (1 + u64)
               <= (Rabs c + (B * X * (1 + u64) + eta64)) * (1 + u64))
    by (apply Rmult_le_compat_r; lra).
  assert (H6 : (Rabs c + (hb c' r X * X * (1 + u64) + eta64)) * u64
               <= (Rabs c + (B * X * (1 + u64) + eta64)) * u64)
    by (apply Rmult_le_compat_r; lra).
  split; [split; [exact Hs|lra]|]. split; lra.
Qed.

Lemma hbound_weaken : forall c cs X B E E', hbound c cs X B E -> E <= E' -> hbound c cs X B E'.
Proof. intros c cs X B E E' [Hs [Hb He]] H. split; [exact Hs|]. split; [exact Hb|lra]. Qed.

(* the generic theorem in the form the instances use *)
Theorem horner_rounding : forall c cs x X B E,
  Ffin x -> Ffin c -> Forall Ffin cs ->
  Rabs (FR x) <= X ->
  hbound (FR c) (map FR cs) X B E ->
  Ffin (horner c cs x) /\
  Rabs (FR (horner c cs x) - hornerR (FR c) (map FR cs) (FR x)) <= E.
Proof.
  intros c cs x X B E Hx Hc Hcs HX [Hs [Hb He]].
  destruct (horner_rounding_gen cs c x X Hx Hc Hcs HX Hs) as [Hf [_ Herr]].
  split; [exact Hf|lra].
Qed.

(* ---- float comparisons on finite numbers ---------------------------------------------------- *)

Lemma Ffin_prim : forall x, Coq.Floats.PrimFloat.is_finite x = true -> Ffin x.
Proof. intros x H. unfold Ffin. rewrite <- FP.is_finite_equiv. exact H. Qed.

Lemma leb_FR : forall a b, Ffin a -> Ffin b -> (a <=? b)%float = true -> FR a <= FR b.
Proof.
  intros a b Ha Hb H. rewrite FP.leb_equiv in H. rewrite (Bleb_correct _ _ _ _ Ha Hb) in H.
  unfold FR. destruct (Rle_bool_spec (B2R (FP.Prim2B a)) (B2R (FP.Prim2B b))); [assumption|discriminate].
Qed.

Lemma ltb_FR : forall a b, Ffin a -> Ffin b -> (a <? b)%float = true -> FR a < FR b.
Proof.
  intros a b Ha Hb H. rewrite FP.ltb_equiv in H. rewrite (Bltb_correct _ _ _ _ Ha Hb) in H.
  unfold FR. destruct (Rlt_bool_spec (B2R (FP.Prim2B a)) (B2R (FP.Prim2B b))); [assumption|discriminate].
Qed.

(* a float between two finite floats (IEEE comparison) is finite *)
Lemma between_Ffin : forall a b x, Ffin a -> Ffin b ->
  (a <=? x)%float = true -> (x <=? b)%float = true -> Ffin x.
Proof.
  intros a b x Ha Hb H1 H2. rewrite FP.leb_equiv in H1, H2. unfold Ffin in *.
  destruct (FP.Prim2B x) as [sx|sx| |sx mx ex Hx]; try reflexivity.
  - destruct (FP.Prim2B a) as [sa|sa| |sa ma ea Hma], (FP.Prim2B b) as [sb|sb| |sb mb eb Hmb];
      try discriminate; destruct sx; try discriminate;
      try (destruct sa; discriminate); try (destruct sb; discriminate).
  - destruct (FP.Prim2B a); discriminate.
Qed.

(* the real value of a float from its sign, mantissa and exponent (for literals) *)
Lemma FR_SF : forall x, FR x = SF2R radix2 (FloatOps.Prim2SF x).
Proof. intros x. unfold FR, FP.Prim2B. apply B2R_SF2B. Qed.

(* FR of a literal: sign, mantissa and exponent by computation, then rational arithmetic *)
Ltac fr_lit :=
  rewrite FR_SF;
  match goal with |- SF2R radix2 (FloatOps.Prim2SF ?l) = _ =>
    let v := eval vm_compute in (FloatOps.Prim2SF l) in change (FloatOps.Prim2SF l) with v end;
  cbv [SF2R F2R SpecFloat.cond_Zopp Fnum Fexp bpow radix2 radix_val Z.opp Q2R
       QArith_base.Qnum QArith_base.Qden];
  lra.


(* ---- PolynomialScaling.scale on binary64 (nptdms/scaling.py), one sample ------------------
     if len(self.coefficients) == 0: return np.zeros(len(data), dtype=np.dtype('float64'))
     data = data.astype(np.dtype('float64'), copy=False)
     return np.polynomial.polynomial.polyval(data, self.coefficients)
   polyval is ThermoF.horner (the same NumPy function, the same operations in the same order). *)
Definition polynomial_scale_F (coefficients : list float) (x : float) : float :=
  match coefficients with
  | [] => 0%float
  | c :: cs => horner c cs x
  end.

(* hornerR is the sum of powers *)
Lemma hornerR_fold : forall cs c x,
  hornerR c cs x = fold_right (fun ci acc => ci + acc * x) 0 (c :: cs).
Proof.
  induction cs as [|c' r IH]; intros c x; cbn [hornerR fold_right].
  - ring.
  - rewrite IH. reflexivity.
Qed.
