(* C06: the last segment's lead-in carries the 'length unknown' marker
   (next segment offset 0xFFFFFFFFFFFFFFFF; LabVIEW writes it while a segment is
   being acquired and patches it afterwards, so it is what a crash leaves).

   Model/FileSyn.ser_file writes exact offsets.  [ser_file_unknown_last segs] is
   the same byte string with the next-segment field of the LAST lead-in replaced
   by the marker (reader: Model/SegState.lead_positions, first branch; code:
   reader.py _read_lead_in `segment_incomplete = next_segment_offset ==
   0xFFFFFFFFFFFFFFFF`, next_segment_pos = file size).

     ser_unknown_differs_only_in_leadin   the two byte strings have the same
                            length and agree outside the 8-byte field
     rd_metadata_cut_unknown the metadata pass on a cut of the marker file is the
                            function cut_loop_u of syntax and offset ...
     cut_loop_u_lt          ... which for a cut strictly inside the file is cut_loop,
                            the function for the explicit-length file: the clamp
                            `next_segment_pos > file size` and the marker lead to
                            the same positions and the same incomplete flag
     cut_loop_u_full        for the complete raw data the marker file's records are
                            those of the explicit file with the last one flagged
                            incomplete (its end is unknown by declaration)
     read_segment_unknown   every segment record is decoded to the same chunks from
                            either byte string
     unknown_length_cut     for 4 <= k < length: rd_all and every lazy window on
                            take k (marker file) EQUAL those on take k (explicit file)
     unknown_length_complete for k = length: the same values and hierarchy; the
                            status reports an incomplete final segment; lazy windows
                            equal those of the explicit file.
   No restriction to fixed-width types is needed in the model's domain: a
   serialised string segment has chunks of the declared byte size (seg_encodes),
   and the marker changes nothing but the flag.  See Props/C06_lazy.v for what
   this means for the property's "(for fixed-width data types, and for strings in
   single-chunk segments)". *)
From Coq Require Import List ZArith Bool Lia ZifyBool.
From Coq Require Import Init.Byte.
Import ListNotations.
From NpTdms Require Import Base.Bytes Base.Res Base.PySlice Model.Tokens Model.TokensWf Model.SegState
     Model.Layout Model.Reader Model.FileSyn Model.LazyRead Model.LazyBytes
     Proofs.TokensRoundtrip Proofs.SegStateProofs Proofs.LayoutProofs Proofs.FileSynProofs
     Proofs.SegStateInherit Proofs.SegStateExplicit Proofs.TruncProofs Proofs.ReadCorrect
     Proofs.TruncValuesLayout Proofs.TruncValuesFile
     Proofs.LazyEagerIndex Proofs.LazyEagerView Proofs.LazyEagerTop
     Proofs.TruncLazyLayout Proofs.TruncLazyFile.
Local Open Scope Z_scope.
Ltac Zify.zify_post_hook ::= Z.to_euclidean_division_equations.

(* ======================================================================== *)
(* The byte string                                                            *)
(* ======================================================================== *)

Definition UNKNOWN : Z := 0xFFFFFFFFFFFFFFFF.

Definition unknown_leadin (s : fseg) : leadin :=
  mkLeadin TAG_DATA (fs_toc s) (fs_version s) UNKNOWN (blen (fs_meta_bytes s)).

Definition ser_seg_unknown (s : fseg) : bytes :=
  ser_leadin (unknown_leadin s) ++ fs_meta_bytes s ++ fs_data s.

Fixpoint ser_file_unknown_last (segs : list fseg) : bytes :=
  match segs with
  | [] => []
  | s :: r => match r with
              | [] => ser_seg_unknown s
              | _ :: _ => ser_seg TAG_DATA true s ++ ser_file_unknown_last r
              end
  end.

Lemma ser_unknown_cons s s' r :
  ser_file_unknown_last (s :: s' :: r) = ser_seg TAG_DATA true s ++ ser_file_unknown_last (s' :: r).
Proof. reflexivity. Qed.

Lemma wf_unknown_leadin s : wf_fseg s = true -> wf_leadin (unknown_leadin s) = true.
Proof.
  intros Hwf. apply wf_fseg_spec in Hwf. destruct Hwf as (Htoc & Hver & Hlen & _).
  pose proof (blen_nonneg (fs_meta_bytes s)) as Hm. pose proof (blen_nonneg (fs_data s)) as Hd.
  unfold wf_leadin, unknown_leadin, UNKNOWN. cbn [l_tag l_toc l_version l_next l_raw].
  change (blen TAG_DATA =? 4) with true. unfold is_u32, is_i32, is_u64. lia.
Qed.

Lemma blen_ser_seg_unknown s : wf_fseg s = true -> blen (ser_seg_unknown s) = fseg_len s.
Proof.
  intros Hwf. unfold ser_seg_unknown, fseg_len.
  rewrite !blen_app, (ser_leadin_length _ (wf_unknown_leadin s Hwf)). lia.
Qed.

Lemma blen_ser_unknown : forall segs, wf_file segs -> blen (ser_file_unknown_last segs) = blen (ser_file segs).
Proof.
  induction segs as [|s r IH]; intros Hwf; [reflexivity|].
  unfold wf_file in Hwf. cbn [forallb] in Hwf. apply andb_prop in Hwf. destruct Hwf as [Hs Hr].
  rewrite (blen_ser_file_cons s r Hs). destruct r as [|s' r'].
  - cbn [ser_file_unknown_last]. rewrite (blen_ser_seg_unknown s Hs). unfold fseg_len.
    change (blen (ser_file [])) with 0. lia.
  - rewrite ser_unknown_cons, blen_app, (blen_ser_seg_data s Hs), (IH Hr). unfold fseg_len. lia.
Qed.

(* ======================================================================== *)
(* The metadata pass on a cut of the marker file                              *)
(* ======================================================================== *)

Fixpoint cut_loop_u (segs : list fseg) (k : Z) (w : bool) (seg_pos : Z)
         (prev_seg : option (list sobj)) (prev_index : alist nat) (st : rstate) : res rstate :=
  match segs with
  | [] => Ok st
  | s :: r =>
    let dp := seg_pos + 28 + blen (fs_meta_bytes s) in
    let np := dp + blen (fs_data s) in
    match r with
    | [] =>
      if k <? seg_pos + 28 then Ok st
      else if k <? dp then Ok (set_version st (fs_version s))
      else seg_step_g s true k w seg_pos prev_seg prev_index st (fun _ _ st' => Ok st')
    | _ :: _ =>
      if k <? np then cut_loop segs k w seg_pos prev_seg prev_index st
      else seg_step_g s false np w seg_pos prev_seg prev_index st
                      (fun o i st' => cut_loop_u r k w np o i st')
    end
  end.

(* the segment with the marker: like TruncValuesFile.md_loop_step_cut, the cut may
   also be at the very end of the raw data *)
Lemma md_loop_step_unknown s pre src f k w ps pi st :
  wf_fseg s = true ->
  blen pre + 28 + blen (fs_meta_bytes s) <= k <= blen pre + 28 + blen (fs_meta_bytes s) + blen (fs_data s) ->
  src = pre ++ ser_leadin (unknown_leadin s) ++ fs_meta_bytes s
            ++ take (k - (blen pre + 28 + blen (fs_meta_bytes s))) (fs_data s) ->
  md_loop (S f) src false (Some k) w (blen pre) (blen pre) ps pi st =
  seg_step_g s true k w (blen pre) ps pi st
             (fun o i st' => md_loop f src false (Some k) w k k o i st').
Proof.
  intros Hwf Hk Hsrc.
  pose proof (wf_unknown_leadin s Hwf) as HwfL.
  pose proof (ser_leadin_length _ HwfL) as HlenL.
  set (L := unknown_leadin s) in *.
  set (m := fs_meta_bytes s) in *.
  set (d' := take (k - (blen pre + 28 + blen m)) (fs_data s)) in *.
  assert (Hrd : read_at (blen pre) 28 src = ser_leadin L).
  { rewrite Hsrc. apply read_at_app_len. exact HlenL. }
  assert (Hdrop : drop (blen pre + 28) src = m ++ d').
  { rewrite Hsrc. rewrite app_assoc. apply drop_app_len. rewrite blen_app. lia. }
  pose proof (blen_nonneg m) as Hm0.
  assert (Hnext : l_next L = 0xFFFFFFFFFFFFFFFF) by reflexivity.
  rewrite md_loop_eq. cbv zeta.
  rewrite Hrd, HlenL, Z.ltb_irrefl.
  rewrite (parse_leadin_ser L HwfL). cbn [bind].
  pose proof (lead_positions_unknown (blen pre) L k Hnext) as Hlp. cbv zeta in Hlp. rewrite Hlp. clear Hlp.
  unfold L, unknown_leadin. cbn [l_tag l_toc l_version l_next l_raw]. fold m.
  replace (k <? blen pre + 28 + blen m) with false by lia.
  change (bytes_eqb TAG_DATA TAG_DATA) with true. cbn [negb bind].
  rewrite Hdrop.
  unfold seg_step_g. cbv zeta. fold m.
  assert (Hflag : match fs_meta s with
                  | Some es => toc_has (fs_toc s) TOC_META = true /\ wf_metadata es = true
                  | None => toc_has (fs_toc s) TOC_META = false
                  end).
  { apply wf_fseg_spec in Hwf. destruct Hwf as (_ & _ & _ & H). exact H. }
  unfold m at 1. unfold fs_meta_bytes.
  destruct (fs_meta s) as [es|] eqn:Hmeta.
  - destruct Hflag as [Hflag Hes]. rewrite Hflag.
    rewrite (parse_metadata_ser _ es _ Hes). cbn [bind]. reflexivity.
  - rewrite Hflag. cbn [bind]. reflexivity.
Qed.

Lemma md_loop_unknown_seg s pre f k w ps pi st :
  wf_fseg s = true ->
  blen pre <= k <= blen pre + fseg_len s ->
  md_loop (S (S f)) (take k (pre ++ ser_seg_unknown s)) false (Some k) w (blen pre) (blen pre) ps pi st =
  cut_loop_u [s] k w (blen pre) ps pi st.
Proof.
  intros Hs Hk. unfold fseg_len in Hk.
  pose proof (wf_unknown_leadin s Hs) as HwfL.
  pose proof (ser_leadin_length _ HwfL) as HlenL.
  set (L := unknown_leadin s) in *.
  pose proof (blen_nonneg (fs_meta_bytes s)) as Hm0.
  pose proof (blen_nonneg (fs_data s)) as Hd0.
  cbn [cut_loop_u].
  destruct (k <? blen pre + 28) eqn:E1.
  - rewrite md_loop_eq. cbv zeta.
    assert (Hshort : blen (read_at (blen pre) 28 (take k (pre ++ ser_seg_unknown s))) < 28).
    { rewrite take_app_ge by lia. unfold read_at. rewrite drop_app_exact.
      pose proof (blen_take_le_len 28 (take (k - blen pre) (ser_seg_unknown s))).
      assert (Hk0 : 0 <= k - blen pre) by lia.
      pose proof (blen_take_le (k - blen pre) (ser_seg_unknown s) Hk0). lia. }
    replace (blen (read_at (blen pre) 28 (take k (pre ++ ser_seg_unknown s))) <? 28) with true by lia.
    reflexivity.
  - destruct (k <? blen pre + 28 + blen (fs_meta_bytes s)) eqn:E2.
    + assert (Hsrc : take k (pre ++ ser_seg_unknown s)
                     = pre ++ ser_leadin L ++ take (k - blen pre - 28) (fs_meta_bytes s ++ fs_data s)).
      { unfold ser_seg_unknown. fold L. rewrite take_app_ge by lia. f_equal. rewrite take_app_ge by lia.
        rewrite HlenL. reflexivity. }
      rewrite Hsrc. rewrite md_loop_eq. cbv zeta.
      rewrite (read_at_app_len pre (ser_leadin L) _ 28 HlenL).
      rewrite HlenL, Z.ltb_irrefl. rewrite (parse_leadin_ser L HwfL). cbn [bind].
      pose proof (lead_positions_unknown (blen pre) L k eq_refl) as Hlp. cbv zeta in Hlp. rewrite Hlp. clear Hlp.
      unfold L, unknown_leadin. cbn [l_tag l_toc l_version l_next l_raw].
      rewrite E2. change (bytes_eqb TAG_DATA TAG_DATA) with true. cbn [negb bind].
      reflexivity.
    + assert (Hsrc : take k (pre ++ ser_seg_unknown s)
                     = pre ++ ser_leadin L ++ fs_meta_bytes s
                           ++ take (k - (blen pre + 28 + blen (fs_meta_bytes s))) (fs_data s)).
      { unfold ser_seg_unknown. fold L. rewrite take_app_ge by lia. f_equal. rewrite take_app_ge by lia.
        rewrite HlenL. f_equal. rewrite take_app_ge by lia. f_equal. f_equal. lia. }
      assert (Hkd : blen pre + 28 + blen (fs_meta_bytes s) <= k
                    <= blen pre + 28 + blen (fs_meta_bytes s) + blen (fs_data s)) by lia.
      rewrite (md_loop_step_unknown s pre _ (S f) k w ps pi st Hs Hkd Hsrc).
      apply seg_step_g_ext. intros o i st'. apply md_loop_at_end.
      rewrite Hsrc, !blen_app, HlenL, blen_take by lia. lia.
Qed.

Lemma md_loop_cut_unknown : forall segs pre fuel k w ps pi st,
    wf_file segs ->
    blen pre <= k <= blen pre + blen (ser_file segs) ->
    k - blen pre < 28 * (Z.of_nat fuel - 1) ->
    md_loop fuel (take k (pre ++ ser_file_unknown_last segs)) false (Some k) w (blen pre) (blen pre) ps pi st
    = cut_loop_u segs k w (blen pre) ps pi st.
Proof.
  induction segs as [|s r IH]; intros pre fuel k w ps pi st Hwf Hk Hfuel.
  - change (ser_file []) with (@nil byte) in *. change (blen []) with 0 in Hk.
    destruct fuel as [|f]; [lia|]. cbn [cut_loop_u ser_file_unknown_last]. apply md_loop_at_end.
    assert (Hk0 : 0 <= k) by (pose proof (blen_nonneg pre); lia).
    pose proof (blen_take_le k (pre ++ []) Hk0). lia.
  - pose proof Hwf as Hwf0.
    unfold wf_file in Hwf. cbn [forallb] in Hwf. apply andb_prop in Hwf. destruct Hwf as [Hs Hr].
    rewrite (blen_ser_file_cons s r Hs) in Hk.
    pose proof (blen_nonneg (fs_meta_bytes s)) as Hm0.
    pose proof (blen_nonneg (fs_data s)) as Hd0.
    pose proof (blen_nonneg (ser_file r)) as Hr0.
    destruct r as [|s' r'].
    + (* the segment with the marker *)
      change (blen (ser_file [])) with 0 in Hk.
      destruct fuel as [|[|f]]; [lia|lia|].
      cbn [ser_file_unknown_last]. apply md_loop_unknown_seg; [exact Hs|unfold fseg_len; lia].
    + rewrite ser_unknown_cons.
      change (cut_loop_u (s :: s' :: r') k w (blen pre) ps pi st)
        with (if k <? blen pre + 28 + blen (fs_meta_bytes s) + blen (fs_data s)
              then cut_loop (s :: s' :: r') k w (blen pre) ps pi st
              else seg_step_g s false (blen pre + 28 + blen (fs_meta_bytes s) + blen (fs_data s)) w (blen pre) ps pi st
                              (fun o i st' => cut_loop_u (s' :: r') k w
                                                (blen pre + 28 + blen (fs_meta_bytes s) + blen (fs_data s)) o i st')).
      pose proof (blen_ser_seg_data s Hs) as Hbs. unfold fseg_len in Hbs.
      destruct (k <? blen pre + 28 + blen (fs_meta_bytes s) + blen (fs_data s)) eqn:E3.
      * (* the cut is inside this explicit segment: the bytes are those of the explicit file *)
        assert (Heq : take k (pre ++ ser_seg TAG_DATA true s ++ ser_file_unknown_last (s' :: r'))
                      = take k (pre ++ ser_file (s :: s' :: r'))).
        { rewrite ser_file_cons.
          rewrite (take_app_ge k pre (ser_seg TAG_DATA true s ++ ser_file_unknown_last (s' :: r'))) by lia.
          rewrite (take_app_ge k pre (ser_seg TAG_DATA true s ++ ser_file (s' :: r'))) by lia.
          f_equal. rewrite !take_app_le by (rewrite Hbs; lia). reflexivity. }
        rewrite Heq. apply md_loop_cut; [exact Hwf0| |exact Hfuel].
        rewrite (blen_ser_file_cons s (s' :: r') Hs). lia.
      * destruct fuel as [|f]; [lia|].
        assert (Hsrc : take k (pre ++ ser_seg TAG_DATA true s ++ ser_file_unknown_last (s' :: r'))
                       = pre ++ ser_seg (tag_of false) (negb false) s
                             ++ take (k - (blen pre + 28 + blen (fs_meta_bytes s) + blen (fs_data s)))
                                     (ser_file_unknown_last (s' :: r'))).
        { change (tag_of false) with TAG_DATA. cbn [negb].
          rewrite take_app_ge by lia. f_equal. rewrite take_app_ge by (rewrite Hbs; lia).
          f_equal. f_equal. rewrite Hbs. lia. }
        rewrite (md_loop_step s false pre _ _ f k w (blen pre) ps pi st Hs Hsrc) by lia.
        rewrite seg_step_is_g. apply seg_step_g_ext. intros o i st'. cbv iota.
        replace (take k (pre ++ ser_seg TAG_DATA true s ++ ser_file_unknown_last (s' :: r')))
          with (take k ((pre ++ ser_seg TAG_DATA true s) ++ ser_file_unknown_last (s' :: r')))
          by (rewrite <- app_assoc; reflexivity).
        assert (Hb : blen (pre ++ ser_seg TAG_DATA true s)
                     = blen pre + 28 + blen (fs_meta_bytes s) + blen (fs_data s)).
        { rewrite blen_app, Hbs. lia. }
        rewrite <- Hb. apply IH; [exact Hr|lia|lia].
Qed.

Theorem rd_metadata_cut_unknown segs k w :
  wf_file segs -> 0 <= k <= blen (ser_file segs) ->
  rd_metadata (take k (ser_file_unknown_last segs)) false (Some k) w = cut_loop_u segs k w 0 None [] rstate0.
Proof.
  intros Hwf Hk. unfold rd_metadata.
  apply (md_loop_cut_unknown segs [] _ k w None [] rstate0 Hwf).
  - change (blen []) with 0. lia.
  - change (blen []) with 0. rewrite <- (blen_ser_unknown segs Hwf) in Hk.
    pose proof (blen_take k (ser_file_unknown_last segs) Hk) as Hb. unfold blen in Hb. lia.
Qed.

(* ======================================================================== *)
(* cut_loop_u against the explicit-length file                                *)
(* ======================================================================== *)

(* a cut strictly inside the file: nothing distinguishes the marker from the clamp *)
Lemma cut_loop_u_lt : forall segs k w pos ps pi st,
    wf_file segs -> k < pos + blen (ser_file segs) ->
    cut_loop_u segs k w pos ps pi st = cut_loop segs k w pos ps pi st.
Proof.
  induction segs as [|s r IH]; intros k w pos ps pi st Hwf Hk; [reflexivity|].
  unfold wf_file in Hwf. cbn [forallb] in Hwf. apply andb_prop in Hwf. destruct Hwf as [Hs Hr].
  rewrite (blen_ser_file_cons s r Hs) in Hk.
  destruct r as [|s' r'].
  - change (blen (ser_file [])) with 0 in Hk. cbn [cut_loop_u cut_loop].
    replace (k <? pos + 28 + blen (fs_meta_bytes s) + blen (fs_data s)) with true by lia. reflexivity.
  - change (cut_loop_u (s :: s' :: r') k w pos ps pi st)
      with (if k <? pos + 28 + blen (fs_meta_bytes s) + blen (fs_data s)
            then cut_loop (s :: s' :: r') k w pos ps pi st
            else seg_step_g s false (pos + 28 + blen (fs_meta_bytes s) + blen (fs_data s)) w pos ps pi st
                            (fun o i st' => cut_loop_u (s' :: r') k w
                                              (pos + 28 + blen (fs_meta_bytes s) + blen (fs_data s)) o i st')).
    destruct (k <? pos + 28 + blen (fs_meta_bytes s) + blen (fs_data s)) eqn:E; [reflexivity|].
    pose proof (blen_nonneg (fs_meta_bytes s)) as Hm0. pose proof (blen_nonneg (fs_data s)) as Hd0.
    cbn [cut_loop]. replace (k <? pos + 28) with false by lia.
    replace (k <? pos + 28 + blen (fs_meta_bytes s)) with false by lia. rewrite E.
    apply seg_step_g_ext. intros o i st'. apply IH; [exact Hr|lia].
Qed.

(* the incomplete flag does not enter the chunk count of a whole number of chunks *)
Lemma calculate_chunks_inc toc inc inc' objs total n :
  calculate_chunks toc inc objs total = Ok (n, None) -> calculate_chunks toc inc' objs total = Ok (n, None).
Proof.
  unfold calculate_chunks. destruct (chunk_size objs) as [csize|e]; cbn [bind]; [|discriminate].
  destruct ((csize <? 0) || (total <? 0)); [discriminate|].
  destruct (csize =? 0); [exact (fun H => H)|].
  destruct (total mod csize =? 0); [exact (fun H => H)|].
  destruct (final_chunk_lengths toc inc objs csize (total mod csize)); cbn [bind]; discriminate.
Qed.

Definition set_incomplete (g : segment) : segment :=
  mkSeg (sg_pos g) (sg_toc g) (sg_next g) (sg_data g) true (sg_objs g) (sg_index g) (sg_nchunks g) (sg_final g).

(* the records of the marker file with complete raw data: the last one is flagged *)
Fixpoint mark_last (gs : list segment) : list segment :=
  match gs with
  | [] => []
  | g :: r => match r with
              | [] => [set_incomplete g]
              | _ :: _ => g :: mark_last r
              end
  end.

Lemma mark_last_cons g g' r : mark_last (g :: g' :: r) = g :: mark_last (g' :: r).
Proof. reflexivity. Qed.

Definition last_final_none (gs : list segment) : Prop :=
  match rev gs with [] => True | g :: _ => sg_final g = None end.

Lemma last_final_none_cons g g' r : last_final_none (g :: g' :: r) -> last_final_none (g' :: r).
Proof.
  unfold last_final_none. cbn [rev]. destruct (rev r ++ [g']) as [|x t] eqn:E.
  - destruct (rev r); discriminate E.
  - cbn [app]. exact (fun H => H).
Qed.

Lemma cut_loop_u_full : forall segs w pos ps pi st stf gs,
    wf_file segs ->
    sm_loop segs w pos ps pi st = Ok stf ->
    rs_segments stf = rs_segments st ++ gs ->
    last_final_none gs ->
    exists stu,
      cut_loop_u segs (pos + blen (ser_file segs)) w pos ps pi st = Ok stu /\
      rs_segments stu = rs_segments st ++ mark_last gs /\
      rs_om stu = rs_om stf /\ rs_version stu = rs_version stf.
Proof.
  induction segs as [|s r IH]; intros w pos ps pi st stf gs Hwf H Hsegs Hlast.
  - rewrite sm_loop_nil in H. injection H as <-. exists st. cbn [cut_loop_u].
    assert (gs = []).
    { rewrite <- (app_nil_r (rs_segments st)) in Hsegs at 1. apply app_inv_head in Hsegs. symmetry. exact Hsegs. }
    subst gs. rewrite app_nil_r. repeat split; reflexivity.
  - unfold wf_file in Hwf. cbn [forallb] in Hwf. apply andb_prop in Hwf. destruct Hwf as [Hs Hr].
    rewrite (blen_ser_file_cons s r Hs).
    pose proof (blen_nonneg (fs_meta_bytes s)) as Hm0. pose proof (blen_nonneg (fs_data s)) as Hd0.
    pose proof (blen_nonneg (ser_file r)) as Hr0.
    destruct (sm_loop_cons_spec _ _ _ _ _ _ _ _ H)
      as (objs & props & nch & fin & po & om & Hro & Hcc & Hum & Hloop).
    set (dp := pos + 28 + blen (fs_meta_bytes s)) in *.
    set (np := dp + blen (fs_data s)) in *.
    destruct (sm_loop_trace _ _ _ _ _ _ _ Hloop) as (gs' & Hsegs' & _).
    cbn [step_state rs_segments] in Hsegs'. rewrite Hsegs', <- app_assoc in Hsegs.
    apply app_inv_head in Hsegs. cbn [app] in Hsegs. subst gs.
    destruct r as [|s' r'].
    + (* the segment with the marker, all of its raw data present *)
      rewrite sm_loop_nil in Hloop. injection Hloop as <-.
      assert (gs' = []).
      { cbn [step_state rs_segments] in Hsegs'.
        rewrite <- (app_nil_r (rs_segments st ++ _)) in Hsegs' at 1. apply app_inv_head in Hsegs'.
        symmetry. exact Hsegs'. }
      subst gs'. unfold last_final_none in Hlast. cbn [rev app step_seg sg_final] in Hlast. subst fin.
      change (blen (ser_file [])) with 0.
      cbn [cut_loop_u]. fold dp.
      replace (pos + (28 + blen (fs_meta_bytes s) + blen (fs_data s) + 0)) with np by lia.
      replace (np <? pos + 28) with false by lia. replace (np <? dp) with false by lia.
      rewrite seg_step_g_spec, Hro. cbn [bind]. fold dp.
      rewrite (calculate_chunks_inc _ false true _ _ _ Hcc). cbn [bind]. rewrite Hum. cbn [bind].
      eexists. split; [reflexivity|]. cbn [step_state rs_segments rs_om rs_version mark_last].
      repeat split; reflexivity.
    + (* an earlier segment *)
      change (cut_loop_u (s :: s' :: r') (pos + (28 + blen (fs_meta_bytes s) + blen (fs_data s)
                                                + blen (ser_file (s' :: r')))) w pos ps pi st)
        with (if pos + (28 + blen (fs_meta_bytes s) + blen (fs_data s) + blen (ser_file (s' :: r'))) <? np
              then cut_loop (s :: s' :: r') (pos + (28 + blen (fs_meta_bytes s) + blen (fs_data s)
                                                    + blen (ser_file (s' :: r')))) w pos ps pi st
              else seg_step_g s false np w pos ps pi st
                              (fun o i st' => cut_loop_u (s' :: r')
                                                (pos + (28 + blen (fs_meta_bytes s) + blen (fs_data s)
                                                        + blen (ser_file (s' :: r')))) w np o i st')).
      replace (pos + (28 + blen (fs_meta_bytes s) + blen (fs_data s) + blen (ser_file (s' :: r'))) <? np)
        with false by lia.
      rewrite seg_step_g_spec, Hro. cbn [bind]. fold dp. rewrite Hcc. cbn [bind]. rewrite Hum. cbn [bind].
      replace (pos + (28 + blen (fs_meta_bytes s) + blen (fs_data s) + blen (ser_file (s' :: r'))))
        with (np + blen (ser_file (s' :: r'))) by lia.
      assert (Hgs' : exists g2 t, gs' = g2 :: t).
      { destruct (sm_loop_cons_spec _ _ _ _ _ _ _ _ Hloop) as (o2 & p2 & n2 & f2 & po2 & om2 & _ & _ & _ & Hl2).
        destruct (sm_loop_trace _ _ _ _ _ _ _ Hl2) as (gs2 & Hs2 & _).
        cbn [step_state rs_segments] in Hs2. rewrite Hs2 in Hsegs'. rewrite <- !app_assoc in Hsegs'.
        apply app_inv_head in Hsegs'. cbn [app] in Hsegs'. injection Hsegs' as Hx. eexists. eexists.
        symmetry. exact Hx. }
      destruct Hgs' as (g2 & t & ->).
      destruct (IH w np (Some objs) _ _ stf (g2 :: t) Hr Hloop Hsegs' (last_final_none_cons _ _ _ Hlast))
        as (stu & Hcut & Hsu & Homu & Hvu).
      exists stu. split; [exact Hcut|]. split; [|split; [exact Homu|exact Hvu]].
      rewrite Hsu. cbn [step_state rs_segments]. rewrite <- app_assoc. cbn [app]. rewrite mark_last_cons.
      reflexivity.
Qed.

(* ======================================================================== *)
(* Every segment record decodes alike from either byte string                 *)
(* ======================================================================== *)

(* reader._verify_segment_start + the cursor: any 28-byte lead-in with the data tag *)
Lemma read_segment_at_gen pre L m X gc :
  blen (ser_leadin L) = 28 -> l_tag L = TAG_DATA ->
  sg_pos gc = blen pre -> sg_data gc = blen pre + 28 + blen m ->
  read_segment (pre ++ ser_leadin L ++ m ++ X) gc =
  (do '(cs, _) <- read_segment_chunks gc X; Ok cs).
Proof.
  intros HlenL Htag Hpos Hdata. unfold read_segment.
  assert (Ht : read_at (sg_pos gc) 4 (pre ++ ser_leadin L ++ m ++ X) = TAG_DATA).
  { rewrite Hpos. unfold ser_leadin. rewrite Htag.
    rewrite <- !app_assoc. apply read_at_app_len. reflexivity. }
  rewrite Ht. change (bytes_eqb TAG_DATA TAG_DATA) with true. cbn [negb].
  assert (Hdrop : drop (sg_data gc) (pre ++ ser_leadin L ++ m ++ X) = X).
  { replace (pre ++ ser_leadin L ++ m ++ X) with ((pre ++ ser_leadin L ++ m) ++ X)
      by (rewrite <- !app_assoc; reflexivity).
    rewrite Hdata. rewrite <- (app_nil_r X) at 1. rewrite drop_app_len; [apply app_nil_r|].
    rewrite !blen_app, HlenL. lia. }
  rewrite Hdrop. reflexivity.
Qed.

Lemma read_segment_unknown : forall pos segs k gs gsc n,
    cut_segs pos segs k gs gsc n ->
    forall chunkss pre,
      wf_file segs -> pos = blen pre ->
      segs_at pos segs gs -> segs_encode gs segs chunkss ->
      k <= pos + blen (ser_file segs) ->
      Forall (fun g => read_segment (take k (pre ++ ser_file_unknown_last segs)) g
                       = read_segment (take k (pre ++ ser_file segs)) g) gsc.
Proof.
  induction 1 as [pos k|pos s r k g gs Hk|pos s r k g gs gc Hk Hc|pos s r k g gs gsc n Hk Hcs IH];
    intros chunkss pre Hwf Hpos Hat Henc Hkmax;
    [constructor|constructor|constructor; [|constructor]|constructor].
  - (* the cut segment *)
    inversion Hat as [|pos' s' r' g' gs' Hg Hat']; subst pos' s' r' g' gs'.
    unfold wf_file in Hwf. cbn [forallb] in Hwf. apply andb_prop in Hwf. destruct Hwf as [Hs Hr].
    destruct Hc as (Hcp & Hct & Hcd & _).
    destruct Hg as (Hgp & Hgt & Hgd & _).
    unfold fseg_len in Hk.
    pose proof (blen_nonneg (fs_meta_bytes s)) as Hm0.
    pose proof (blen_ser_seg_data s Hs) as Hbs. unfold fseg_len in Hbs.
    destruct r as [|s' r'].
    + pose proof (wf_seg_leadin false s Hs) as HwfL. change (tag_of false) with TAG_DATA in HwfL.
      pose proof (ser_leadin_length _ HwfL) as HlenL.
      pose proof (ser_leadin_length _ (wf_unknown_leadin s Hs)) as HlenU.
      assert (HU : take k (pre ++ ser_file_unknown_last [s])
                   = pre ++ ser_leadin (unknown_leadin s) ++ fs_meta_bytes s
                         ++ take (k - sg_data g) (fs_data s)).
      { cbn [ser_file_unknown_last]. unfold ser_seg_unknown.
        rewrite take_app_ge by lia. f_equal. rewrite take_app_ge by lia.
        rewrite HlenU. f_equal. rewrite take_app_ge by lia. f_equal. f_equal. lia. }
      assert (HE : take k (pre ++ ser_file [s])
                   = pre ++ ser_leadin (seg_leadin TAG_DATA s) ++ fs_meta_bytes s
                         ++ take (k - sg_data g) (fs_data s)).
      { rewrite ser_file_cons, ser_seg_eq. rewrite <- !app_assoc.
        rewrite take_app_ge by lia. f_equal. rewrite take_app_ge by lia.
        rewrite HlenL. f_equal. rewrite take_app_ge by lia. f_equal.
        change (ser_file []) with (@nil byte). rewrite app_nil_r. f_equal. lia. }
      rewrite HU, HE.
      rewrite (read_segment_at_gen pre (unknown_leadin s) _ _ gc HlenU eq_refl) by lia.
      rewrite (read_segment_at_gen pre (seg_leadin TAG_DATA s) _ _ gc HlenL eq_refl) by lia.
      reflexivity.
    + rewrite ser_unknown_cons, ser_file_cons.
      rewrite (take_app_ge k pre (ser_seg TAG_DATA true s ++ ser_file_unknown_last (s' :: r'))) by lia.
      rewrite (take_app_ge k pre (ser_seg TAG_DATA true s ++ ser_file (s' :: r'))) by lia.
      rewrite !take_app_le by (rewrite Hbs; lia). reflexivity.
  - (* a segment wholly before the cut: this record *)
    inversion Hat as [|pos' s' r' g' gs' Hg Hat']; subst pos' s' r' g' gs'.
    inversion Henc as [|g' gs' s' r' cs css Hcse Henc']; subst g' gs' s' r' chunkss.
    unfold wf_file in Hwf. cbn [forallb] in Hwf. apply andb_prop in Hwf. destruct Hwf as [Hs Hr].
    pose proof (blen_ser_seg_data s Hs) as Hbs.
    rewrite (blen_ser_file_cons s r Hs) in Hkmax.
    pose proof (blen_nonneg (fs_meta_bytes s)) as Hm0. pose proof (blen_nonneg (fs_data s)) as Hd0.
    unfold fseg_len in Hk, Hbs.
    destruct r as [|s' r'].
    + change (blen (ser_file [])) with 0 in Hkmax.
      pose proof (wf_seg_leadin false s Hs) as HwfL. change (tag_of false) with TAG_DATA in HwfL.
      pose proof (ser_leadin_length _ HwfL) as HlenL.
      pose proof (ser_leadin_length _ (wf_unknown_leadin s Hs)) as HlenU.
      destruct Hg as (Hgp & Hgt & Hgd & _).
      assert (HU : take k (pre ++ ser_file_unknown_last [s])
                   = pre ++ ser_leadin (unknown_leadin s) ++ fs_meta_bytes s ++ fs_data s).
      { cbn [ser_file_unknown_last]. apply take_all. unfold ser_seg_unknown.
        rewrite !blen_app, HlenU. lia. }
      assert (HE : take k (pre ++ ser_file [s])
                   = pre ++ ser_leadin (seg_leadin TAG_DATA s) ++ fs_meta_bytes s ++ fs_data s).
      { rewrite ser_file_cons, ser_seg_eq. change (ser_file []) with (@nil byte). rewrite app_nil_r.
        apply take_all. rewrite !blen_app, HlenL. lia. }
      rewrite HU, HE.
      rewrite (read_segment_at_gen pre (unknown_leadin s) _ _ g HlenU eq_refl) by lia.
      rewrite (read_segment_at_gen pre (seg_leadin TAG_DATA s) _ _ g HlenL eq_refl) by lia.
      reflexivity.
    + rewrite ser_unknown_cons, ser_file_cons.
      rewrite (take_app_ge k pre (ser_seg TAG_DATA true s ++ ser_file_unknown_last (s' :: r'))) by lia.
      rewrite (take_app_ge k pre (ser_seg TAG_DATA true s ++ ser_file (s' :: r'))) by lia.
      rewrite (take_app_ge (k - blen pre) (ser_seg TAG_DATA true s) (ser_file_unknown_last (s' :: r')))
        by (rewrite Hbs; lia).
      rewrite (take_app_ge (k - blen pre) (ser_seg TAG_DATA true s) (ser_file (s' :: r')))
        by (rewrite Hbs; lia).
      rewrite Hpos in Hg.
      rewrite (read_segment_encoded pre s _ g cs Hs Hg Hcse).
      rewrite (read_segment_encoded pre s _ g cs Hs Hg Hcse). reflexivity.
  - (* ... and the later ones *)
    inversion Hat as [|pos' s' r' g' gs' Hg Hat']; subst pos' s' r' g' gs'.
    inversion Henc as [|g' gs' s' r' cs css Hcse Henc']; subst g' gs' s' r' chunkss.
    unfold wf_file in Hwf. cbn [forallb] in Hwf. apply andb_prop in Hwf. destruct Hwf as [Hs Hr].
    pose proof (blen_ser_seg_data s Hs) as Hbs.
    rewrite (blen_ser_file_cons s r Hs) in Hkmax.
    destruct r as [|s' r'].
    + inversion Hcs; subst; constructor.
    + rewrite ser_unknown_cons, ser_file_cons.
      replace (pre ++ ser_seg TAG_DATA true s ++ ser_file_unknown_last (s' :: r'))
        with ((pre ++ ser_seg TAG_DATA true s) ++ ser_file_unknown_last (s' :: r'))
        by (rewrite <- app_assoc; reflexivity).
      replace (pre ++ ser_seg TAG_DATA true s ++ ser_file (s' :: r'))
        with ((pre ++ ser_seg TAG_DATA true s) ++ ser_file (s' :: r'))
        by (rewrite <- app_assoc; reflexivity).
      apply (IH css (pre ++ ser_seg TAG_DATA true s) Hr); [rewrite blen_app, Hbs; lia|exact Hat'|exact Henc'|].
      unfold fseg_len. lia.
Qed.

(* ======================================================================== *)
(* Readers that see the same metadata and the same chunks return the same     *)
(* ======================================================================== *)

Lemma fold_left_ext_in {A B} (f f' : A -> B -> A) (l : list B) :
  (forall a x, In x l -> f a x = f' a x) -> forall a, fold_left f l a = fold_left f' l a.
Proof.
  induction l as [|x l IH]; intros H a; [reflexivity|]. cbn [fold_left].
  rewrite (H a x (or_introl eq_refl)). apply IH. intros a' y Hy. apply H. right. exact Hy.
Qed.

Lemma rd_eager_congr st h D D' :
  Forall (fun g => read_segment D g = read_segment D' g) (rs_segments st) ->
  rd_eager st h D = rd_eager st h D'.
Proof.
  intros H. rewrite !rd_eager_fold.
  destruct (fold_left recv0_step _ _) as [recv0|e]; cbn [bind]; [|reflexivity].
  apply fold_left_ext_in. intros a g Hg. unfold eager_step.
  rewrite Forall_forall in H. rewrite (H g Hg). reflexivity.
Qed.

Lemma segv_of_congr D D' p g : read_segment D g = read_segment D' g -> segv_of D p g = segv_of D' p g.
Proof. intros H. rewrite !segv_of_unfold, H. reflexivity. Qed.

Lemma mapM_ext_in {A B} (f f' : A -> res B) (l : list A) :
  (forall x, In x l -> f x = f' x) -> mapM f l = mapM f' l.
Proof.
  induction l as [|x l IH]; intros H; [reflexivity|]. cbn [mapM].
  rewrite (H x (or_introl eq_refl)), IH; [reflexivity|]. intros y Hy. apply H. right. exact Hy.
Qed.

Lemma rd_all_congr D D' st :
  blen D = blen D' ->
  rd_metadata D false (Some (blen D)) false = Ok st ->
  rd_metadata D' false (Some (blen D')) false = Ok st ->
  Forall (fun g => read_segment D g = read_segment D' g) (rs_segments st) ->
  rd_all D = rd_all D'.
Proof.
  intros Hlen H1 H2 Hr. unfold rd_all, rd_all_from. rewrite H1, H2. cbn [bind].
  destruct (build_hierarchy (rs_om st)) as [h|e]; cbn [bind]; [|reflexivity].
  rewrite (rd_eager_congr st h D D' Hr). reflexivity.
Qed.

Lemma channel_view_congr D D' st p :
  rd_metadata D false (Some (blen D)) true = Ok st ->
  rd_metadata D' false (Some (blen D')) true = Ok st ->
  Forall (fun g => read_segment D g = read_segment D' g) (rs_segments st) ->
  channel_view D p = channel_view D' p.
Proof.
  intros H1 H2 Hr. unfold channel_view. rewrite H1, H2. cbn [bind].
  rewrite (mapM_ext_in (segv_of D p) (segv_of D' p) (rs_segments st)); [reflexivity|].
  intros g Hg. apply segv_of_congr. rewrite Forall_forall in Hr. exact (Hr g Hg).
Qed.

Lemma Forall_reads_with_index D D' gsc :
  Forall (fun g => read_segment D g = read_segment D' g) gsc ->
  Forall (fun g => read_segment D g = read_segment D' g) (map with_index gsc).
Proof.
  intros H. apply Forall_forall. intros g' Hg'. apply in_map_iff in Hg'. destruct Hg' as (g & <- & Hg).
  rewrite Forall_forall in H. exact (H g Hg).
Qed.

(* ======================================================================== *)
(* B, cut strictly inside the file                                            *)
(* ======================================================================== *)

Theorem unknown_length_cut segs st chunkss k :
  wf_file segs ->
  sm_run segs false = Ok st ->
  segs_encode (rs_segments st) segs chunkss ->
  0 <= k < blen (ser_file segs) ->
  rd_metadata (take k (ser_file_unknown_last segs)) false (Some k) false
  = rd_metadata (take k (ser_file segs)) false (Some k) false /\
  rd_all (take k (ser_file_unknown_last segs)) = rd_all (take k (ser_file segs)) /\
  (forall p, channel_view (take k (ser_file_unknown_last segs)) p = channel_view (take k (ser_file segs)) p) /\
  (forall p offs len, lz_read_bytes (take k (ser_file_unknown_last segs)) p offs len
                      = lz_read_bytes (take k (ser_file segs)) p offs len) /\
  (forall p offs len, lz_plan_bytes (take k (ser_file_unknown_last segs)) p offs len
                      = lz_plan_bytes (take k (ser_file segs)) p offs len).
Proof.
  intros Hwf Hrun Henc Hk.
  pose proof Hrun as Hrun0. unfold sm_run in Hrun.
  destruct (cut_trace segs false k 0 None [] rstate0 st Hrun)
    as (stc & gs & gsc & n & Hcut & Hsegs & Hat & Hsegsc & Hcs & _).
  cbn [rstate0 rs_segments app] in Hsegs, Hsegsc.
  rewrite Hsegs in Henc.
  pose proof (read_segment_unknown 0 segs k gs gsc n Hcs chunkss [] Hwf eq_refl Hat Henc ltac:(lia)) as Hreads.
  cbn [app] in Hreads.
  assert (HlenU : blen (take k (ser_file_unknown_last segs)) = k)
    by (apply blen_take; rewrite (blen_ser_unknown segs Hwf); lia).
  assert (HlenE : blen (take k (ser_file segs)) = k) by (apply blen_take; lia).
  assert (HmdU : forall w, rd_metadata (take k (ser_file_unknown_last segs)) false (Some k) w
                           = cut_loop segs k w 0 None [] rstate0).
  { intros w. rewrite (rd_metadata_cut_unknown segs k w Hwf ltac:(lia)). apply cut_loop_u_lt; [exact Hwf|lia]. }
  assert (HmdE : forall w, rd_metadata (take k (ser_file segs)) false (Some k) w
                           = cut_loop segs k w 0 None [] rstate0).
  { intros w. apply rd_metadata_cut; [exact Hwf|lia]. }
  destruct (cut_run_with_index segs k stc Hcut) as (stc' & Hcut' & (Rs & _)).
  assert (Hview : forall p, channel_view (take k (ser_file_unknown_last segs)) p
                            = channel_view (take k (ser_file segs)) p).
  { intros p. apply (channel_view_congr _ _ stc').
    - rewrite HlenU, HmdU. exact Hcut'.
    - rewrite HlenE, HmdE. exact Hcut'.
    - rewrite Rs, Hsegsc. apply Forall_reads_with_index. exact Hreads. }
  split; [rewrite HmdU, HmdE; reflexivity|]. split; [|split; [exact Hview|split]].
  - apply (rd_all_congr _ _ stc).
    + rewrite HlenU, HlenE. reflexivity.
    + rewrite HlenU, HmdU. exact Hcut.
    + rewrite HlenE, HmdE. exact Hcut.
    + rewrite Hsegsc. exact Hreads.
  - intros p offs len. unfold lz_read_bytes. rewrite Hview. reflexivity.
  - intros p offs len. unfold lz_plan_bytes. rewrite Hview. reflexivity.
Qed.

(* ======================================================================== *)
(* B, complete raw data under the marker                                      *)
(* ======================================================================== *)

Lemma segs_encode_final_none : forall pos segs gs chunkss,
    segs_at pos segs gs -> segs_encode gs segs chunkss ->
    (forall g, In g gs -> Forall nvals_ok (sg_objs g)) ->
    Forall (fun g => sg_final g = None) gs.
Proof.
  intros pos segs gs chunkss Hat. revert chunkss.
  induction Hat as [pos|pos s r g gs Hg _ IH]; intros chunkss Henc Hnv; [constructor|].
  inversion Henc as [|g' gs' s' r' cs css Hcs Henc']; subst g' gs' s' r' chunkss.
  constructor.
  - destruct Hg as (_ & _ & _ & _ & _ & Hcc).
    exact (proj1 (seg_encodes_chunks g (fs_data s) cs [] Hcs Hcc (Hnv g (or_introl eq_refl)))).
  - apply (IH css Henc'). intros g0 Hg0. apply Hnv. right. exact Hg0.
Qed.

Lemma Forall_last_final_none gs : Forall (fun g => sg_final g = None) gs -> last_final_none gs.
Proof.
  intros H. unfold last_final_none. destruct (rev gs) as [|g t] eqn:E; [exact I|].
  rewrite Forall_forall in H. apply H. apply in_rev. rewrite E. left. reflexivity.
Qed.

Lemma eager_step_set_incomplete D a g : eager_step D a (set_incomplete g) = eager_step D a g.
Proof. reflexivity. Qed.

Lemma fold_eager_mark_last D : forall gs a,
    fold_left (eager_step D) (mark_last gs) a = fold_left (eager_step D) gs a.
Proof.
  induction gs as [|g r IH]; intros a; [reflexivity|]. destruct r as [|g' r'].
  - reflexivity.
  - rewrite mark_last_cons. cbn [fold_left]. apply IH.
Qed.

Lemma segv_of_set_incomplete D p g : segv_of D p (set_incomplete g) = segv_of D p g.
Proof. reflexivity. Qed.

Lemma mapM_segv_mark_last D p : forall gs, mapM (segv_of D p) (mark_last gs) = mapM (segv_of D p) gs.
Proof.
  induction gs as [|g r IH]; [reflexivity|]. destruct r as [|g' r'].
  - reflexivity.
  - rewrite mark_last_cons. cbn [mapM]. rewrite IH. reflexivity.
Qed.

Lemma mark_last_with_index : forall gs, map with_index (mark_last gs) = mark_last (map with_index gs).
Proof.
  induction gs as [|g r IH]; [reflexivity|]. destruct r as [|g' r'].
  - reflexivity.
  - rewrite mark_last_cons. cbn [map]. rewrite mark_last_cons. f_equal. exact IH.
Qed.

(* the last record of the marker file is flagged incomplete *)
Lemma last_inc_mark_last : forall gs, gs <> [] -> last_inc (mark_last gs) = true.
Proof.
  induction gs as [|g r IH]; intros Hne; [contradiction|]. destruct r as [|g' r'].
  - reflexivity.
  - rewrite mark_last_cons. rewrite last_inc_cons.
    + apply IH. discriminate.
    + destruct r'; discriminate.
Qed.

Theorem unknown_length_complete segs st h chunkss :
  wf_file segs -> segs <> [] ->
  sm_run segs false = Ok st ->
  build_hierarchy (rs_om st) = Ok h ->
  segs_encode (rs_segments st) segs chunkss ->
  om_paths_canonical (rs_om st) ->
  typed_objects_are_channels (rs_om st) ->
  exists stu,
    rd_metadata (ser_file_unknown_last segs) false (Some (blen (ser_file_unknown_last segs))) false = Ok stu /\
    rs_segments stu = mark_last (rs_segments st) /\
    rs_om stu = rs_om st /\ rs_version stu = rs_version st /\
    rd_all (ser_file_unknown_last segs) = Ok (expected_tokens stu h (concat chunkss), true) /\
    (exists rest, obs_status stu = TZ 1 :: rest) /\
    (forall p, channel_view (ser_file_unknown_last segs) p = channel_view (ser_file segs) p) /\
    (forall p offs len, lz_read_bytes (ser_file_unknown_last segs) p offs len
                        = lz_read_bytes (ser_file segs) p offs len).
Proof.
  intros Hwf Hne Hrun Hh Henc Hcanon Hshape.
  set (U := ser_file_unknown_last segs). set (E := ser_file segs).
  set (k := blen E).
  assert (HlenU : blen U = k) by (apply blen_ser_unknown; exact Hwf).
  assert (Hk0 : 0 <= k) by apply blen_nonneg.
  assert (Hkr : 0 <= k <= blen (ser_file segs)) by (unfold k, E in *; lia).
  assert (HtU : take k U = U) by (apply take_all; lia).
  assert (HtE : take k E = E) by (apply take_all; unfold k; lia).
  pose proof (sm_run_nvals_nonneg segs false st Hwf Hrun) as Hnv.
  pose proof (sm_segment_positions segs false st Hrun) as Hat.
  pose proof (Forall_last_final_none _ (segs_encode_final_none 0 segs _ chunkss Hat Henc Hnv)) as Hlast.
  (* metadata, both index settings *)
  assert (Hmd : forall w stw, sm_run segs w = Ok stw -> last_final_none (rs_segments stw) ->
                  exists stu, rd_metadata U false (Some (blen U)) w = Ok stu /\
                              rs_segments stu = mark_last (rs_segments stw) /\
                              rs_om stu = rs_om stw /\ rs_version stu = rs_version stw).
  { intros w stw Hrw Hlw. rewrite HlenU, <- HtU. unfold U.
    rewrite (rd_metadata_cut_unknown segs k w Hwf Hkr).
    unfold sm_run in Hrw.
    destruct (cut_loop_u_full segs w 0 None [] rstate0 stw (rs_segments stw) Hwf Hrw eq_refl Hlw)
      as (stu & Hcut & Hs & Ho & Hv).
    exists stu. split; [exact Hcut|]. split; [exact Hs|]. split; assumption. }
  (* the records decode alike *)
  assert (Hreads : Forall (fun g => read_segment U g = read_segment E g) (rs_segments st)).
  { pose proof Hrun as Hrun1. unfold sm_run in Hrun1.
    destruct (cut_trace segs false k 0 None [] rstate0 st Hrun1)
      as (stc & gs & gsc & n & Hcut & Hsegs & Hat' & Hsegsc & Hcs & _).
    cbn [rstate0 rs_segments app] in Hsegs, Hsegsc.
    assert (Hst : stc = st).
    { pose proof (rd_metadata_cut segs k false Hwf Hkr) as H1.
      fold E in H1. rewrite HtE in H1. unfold k in H1 at 1. unfold E in H1 at 1 2.
      rewrite (rd_metadata_ser segs false Hwf), Hrun, Hcut in H1. injection H1 as H1. symmetry. exact H1. }
    subst stc. rewrite Hsegs in Henc.
    pose proof (read_segment_unknown 0 segs k gs gsc n Hcs chunkss [] Hwf eq_refl Hat' Henc (proj2 Hkr))
      as Hr.
    cbn [app] in Hr. fold U E in Hr. rewrite HtU, HtE in Hr. rewrite <- Hsegsc in Hr. exact Hr. }
  destruct (Hmd false st Hrun Hlast) as (stu & Hmdu & Hsu & Hou & Hvu).
  exists stu. split; [exact Hmdu|]. split; [exact Hsu|]. split; [exact Hou|]. split; [exact Hvu|].
  assert (Hview : forall p, channel_view U p = channel_view E p).
  { intros p.
    destruct (sm_run_with_index segs st Hrun) as (st' & Hrun' & (Rs & _ & Rom & _)).
    assert (Hlast' : last_final_none (rs_segments st')).
    { rewrite Rs. apply Forall_last_final_none. apply Forall_forall. intros g' Hg'.
      apply in_map_iff in Hg'. destruct Hg' as (g & <- & Hg).
      pose proof (segs_encode_final_none 0 segs _ chunkss Hat Henc Hnv) as Hf.
      rewrite Forall_forall in Hf. exact (Hf g Hg). }
    destruct (Hmd true st' Hrun' Hlast') as (stu' & Hmdu' & Hsu' & Hou' & _).
    unfold channel_view. rewrite Hmdu'. unfold E at 1 2. rewrite (rd_metadata_ser segs true Hwf), Hrun'.
    cbn [bind]. rewrite Hsu', mapM_segv_mark_last, Hou'.
    rewrite (mapM_ext_in (segv_of U p) (segv_of E p) (rs_segments st')); [reflexivity|].
    intros g' Hg'. apply segv_of_congr. rewrite Rs in Hg'. apply in_map_iff in Hg'.
    destruct Hg' as (g & <- & Hg). rewrite !read_segment_with_index.
    rewrite Forall_forall in Hreads. exact (Hreads g Hg). }
  split; [|split; [|split; [exact Hview|]]].
  - apply rd_all_assemble.
    + exact Hmdu.
    + rewrite Hou. exact Hh.
    + intros recv Hb. rewrite Hsu, fold_eager_mark_last.
      rewrite (fold_left_ext_in (eager_step U) (eager_step E) (rs_segments st)).
      * exact (eager_loop_ser E segs (rs_segments st) chunkss [] recv Hwf eq_refl Hat Henc Hb).
      * intros a g Hg. unfold eager_step. rewrite Forall_forall in Hreads. rewrite (Hreads g Hg). reflexivity.
    + exact (data_paths_are_channels_ser segs false st h chunkss Hrun Hh Henc Hcanon Hshape).
    + exact (no_daqmx_channels_ser segs false st h chunkss Hrun Hh Henc).
    + exact (channel_paths_distinct_ser _ h Hh Hcanon).
    + exact (lengths_consistent_ser segs false st h chunkss Hrun Hh Henc Hcanon).
  - destruct (obs_status_head stu) as [rest Hrest]. exists rest. rewrite Hrest, Hsu.
    rewrite last_inc_mark_last; [reflexivity|].
    pose proof (segs_at_length _ _ _ Hat) as Hl. destruct (rs_segments st); [|discriminate].
    destruct segs; [contradiction|discriminate Hl].
  - intros p offs len. unfold lz_read_bytes. rewrite Hview. reflexivity.
Qed.

(* ======================================================================== *)
(* B, one statement for every cut 4 <= k <= length                            *)
(* ======================================================================== *)

Lemma whole_count_all : forall segs pos, whole_count pos segs (pos + zsum (map fseg_len segs)) = length segs.
Proof.
  induction segs as [|s r IH]; intros pos; [reflexivity|].
  cbn [whole_count map length]. rewrite zsum_cons.
  assert (H0 : 0 <= zsum (map fseg_len r)).
  { clear. induction r as [|x r IH]; [cbn; lia|]. cbn [map]. rewrite zsum_cons.
    assert (0 <= fseg_len x); [|lia].
    unfold fseg_len. pose proof (blen_nonneg (fs_meta_bytes x)). pose proof (blen_nonneg (fs_data x)). lia. }
  replace (pos + (fseg_len s + zsum (map fseg_len r)) <? pos + fseg_len s) with false by lia.
  replace (pos + (fseg_len s + zsum (map fseg_len r))) with ((pos + fseg_len s) + zsum (map fseg_len r)) by lia.
  rewrite IH. reflexivity.
Qed.

Lemma blen_ser_file_sum : forall segs, wf_file segs -> blen (ser_file segs) = zsum (map fseg_len segs).
Proof.
  induction segs as [|s r IH]; intros Hwf; [reflexivity|].
  unfold wf_file in Hwf. cbn [forallb] in Hwf. apply andb_prop in Hwf. destruct Hwf as [Hs Hr].
  rewrite (blen_ser_file_cons s r Hs), (IH Hr). cbn [map]. rewrite zsum_cons. unfold fseg_len. lia.
Qed.

Lemma segs_encode_length gs segs chunkss : segs_encode gs segs chunkss -> length chunkss = length segs.
Proof. induction 1; cbn [length]; congruence. Qed.

Theorem unknown_length_last_segment segs st h chunkss k :
  wf_file segs -> segs <> [] ->
  sm_run segs false = Ok st ->
  build_hierarchy (rs_om st) = Ok h ->
  segs_encode (rs_segments st) segs chunkss ->
  om_paths_canonical (rs_om st) ->
  typed_objects_are_channels (rs_om st) ->
  seg_paths_distinct st ->
  4 <= k <= blen (ser_file segs) ->
  exists stc hc chunks_c,
    rd_metadata (take k (ser_file_unknown_last segs)) false (Some k) false = Ok stc /\
    build_hierarchy (rs_om stc) = Ok hc /\
    rd_all (take k (ser_file_unknown_last segs)) = Ok (expected_tokens stc hc chunks_c, true) /\
    (forall p, is_prefix (chan_values p chunks_c) (chan_values p (concat chunkss)) /\
               is_prefix (chan_values p (concat (firstn (whole_count 0 segs k) chunkss)))
                         (chan_values p chunks_c)) /\
    (forall c, In c (all_channels hc) ->
               ch_len c = Z.of_nat (length (chan_values (ch_path c) chunks_c))) /\
    (exists rest, obs_status stc =
                  TZ (if cut_in_data 0 segs k || (k =? blen (ser_file segs)) then 1 else 0) :: rest) /\
    (forall c offs len, In c (all_channels hc) -> 0 <= offs -> len_nonneg len ->
        lz_read_bytes (take k (ser_file_unknown_last segs)) (ch_path c) offs len
        = Ok (window_of offs len (chan_values (ch_path c) chunks_c))) /\
    (* the explicit-length file cut at the same offset *)
    (k < blen (ser_file segs) ->
     rd_all (take k (ser_file_unknown_last segs)) = rd_all (take k (ser_file segs))).
Proof.
  intros Hwf Hne Hrun Hh Henc Hcanon Hshape Hdist Hk.
  destruct (Z_lt_le_dec k (blen (ser_file segs))) as [Hlt|Hge].
  - (* a cut strictly inside the file *)
    destruct (unknown_length_cut segs st chunkss k Hwf Hrun Henc ltac:(lia)) as (Hmd & Hall & _ & Hlz & _).
    destruct (truncation_lazy_eq_eager segs st h chunkss k Hwf Hrun Hh Henc Hcanon Hshape Hdist Hk)
      as (stc & hc & cc & Hm & Hhc & Hread & Hpre & Hlens & Hstat & Hwin & _).
    exists stc, hc, cc. rewrite Hmd, Hall.
    split; [exact Hm|]. split; [exact Hhc|]. split; [exact Hread|]. split; [exact Hpre|].
    split; [exact Hlens|]. split.
    { replace (k =? blen (ser_file segs)) with false by lia. rewrite orb_false_r. exact Hstat. }
    split; [|intros _; reflexivity].
    intros c offs len Hc Ho Hl. rewrite Hlz. exact (Hwin c offs len Hc Ho Hl).
  - (* all of the raw data is there *)
    assert (Hkeq : k = blen (ser_file segs)) by lia. subst k.
    destruct (unknown_length_complete segs st h chunkss Hwf Hne Hrun Hh Henc Hcanon Hshape)
      as (stu & Hmd & Hsu & Hou & Hvu & Hread & Hstat & _ & Hlz).
    rewrite (take_all (blen (ser_file segs)) (ser_file_unknown_last segs))
      by (rewrite (blen_ser_unknown segs Hwf); lia).
    rewrite (blen_ser_unknown segs Hwf) in Hmd.
    exists stu, h, (concat chunkss).
    split; [exact Hmd|]. split; [rewrite Hou; exact Hh|]. split; [exact Hread|].
    split.
    { intros p. split; [apply is_prefix_refl|].
      rewrite (blen_ser_file_sum segs Hwf).
      pose proof (whole_count_all segs 0) as Hw. rewrite Z.add_0_l in Hw. rewrite Hw.
      rewrite firstn_all2 by (rewrite (segs_encode_length _ _ _ Henc); lia). apply is_prefix_refl. }
    split.
    { intros c Hc.
      symmetry. exact (proj1 (full_read_length_ser segs st h chunkss Hwf Hrun Hh Henc Hcanon Hdist c Hc)). }
    split.
    { rewrite Z.eqb_refl, orb_true_r. exact Hstat. }
    split; [|intros Habs; lia].
    intros c offs len Hc Ho Hl. rewrite Hlz.
    exact (lazy_is_window_of_eager segs st h chunkss Hwf Hrun Hh Henc Hcanon Hdist c offs len Hc Ho Hl).
Qed.
