(* Lemmas about the segment state machine (Model/SegState.v). *)
From Coq Require Import List ZArith Bool Lia.
From Coq Require Import Init.Byte.
Import ListNotations.
From NpTdms Require Import Base.Bytes Base.Res Model.Tokens Model.SegState.
Local Open Scope Z_scope.

Lemma bytes_eqb_refl a : bytes_eqb a a = true.
Proof.
  induction a as [|x a IH]; [reflexivity|]. cbn.
  rewrite IH, andb_true_r. apply Byte.byte_dec_lb. reflexivity.
Qed.

Lemma bytes_eqb_eq a b : bytes_eqb a b = true <-> a = b.
Proof.
  split.
  - revert b. induction a as [|x a IH]; intros [|y b] H; cbn in H; try discriminate; [reflexivity|].
    apply andb_true_iff in H. destruct H as [Hxy Hab].
    apply Byte.byte_dec_bl in Hxy. subst y. f_equal. apply IH. exact Hab.
  - intros ->. apply bytes_eqb_refl.
Qed.

Lemma paths_eqb_eq a b : paths_eqb a b = true <-> a = b.
Proof.
  split.
  - revert b. induction a as [|x a IH]; intros [|y b] H; cbn in H; try discriminate; [reflexivity|].
    apply andb_true_iff in H. destruct H as [Hxy Hab].
    apply bytes_eqb_eq in Hxy. subst y. f_equal. apply IH. exact Hab.
  - intros ->. induction b as [|y b IH]; [reflexivity|]. cbn. rewrite bytes_eqb_refl, IH. reflexivity.
Qed.

(* ---- SegmentIndexCache: a hit returns exactly what a fresh computation gives ---- *)

Definition cache_ok (c : index_cache) : Prop :=
  forall k v, In (k, v) c -> v = fresh_index k.

Lemma cache_find_ok c k v : cache_ok c -> cache_find k c = Some v -> v = fresh_index k.
Proof.
  induction c as [|[k' v'] r IH]; intros Hok H; cbn in H; [discriminate|].
  destruct (paths_eqb k k') eqn:E.
  - apply paths_eqb_eq in E. subst k'. injection H as <-. apply Hok. left. reflexivity.
  - apply IH; [|exact H]. intros k0 v0 Hin. apply Hok. right. exact Hin.
Qed.

Lemma cache_ok_nil : cache_ok [].
Proof. intros k v []. Qed.

Theorem get_index_fresh c objs :
  cache_ok c ->
  fst (get_index c objs) = fresh_index (map so_path objs) /\ cache_ok (snd (get_index c objs)).
Proof.
  intros Hok. unfold get_index.
  destruct (cache_find (map so_path objs) c) as [v|] eqn:E; cbn.
  - split; [apply (cache_find_ok c _ v Hok E) | exact Hok].
  - split; [reflexivity|]. intros k v Hin. apply in_app_or in Hin. destruct Hin as [Hin|Hin].
    + apply Hok. exact Hin.
    + destruct Hin as [Heq|[]]. injection Heq as <- <-. reflexivity.
Qed.

(* ---- ordered dictionaries --------------------------------------------------- *)

Lemma bytes_eqb_neq a b : bytes_eqb a b = false <-> a <> b.
Proof.
  split.
  - intros H E. subst. rewrite bytes_eqb_refl in H. discriminate.
  - intros H. destruct (bytes_eqb a b) eqn:E; [|reflexivity]. apply bytes_eqb_eq in E. contradiction.
Qed.

Lemma alookup_aset {V} (p k : bytes) (x : V) (l : alist V) :
  alookup p (aset k x l) = if bytes_eqb p k then Some x else alookup p l.
Proof.
  induction l as [|[k' v'] r IH]; cbn.
  - reflexivity.
  - destruct (bytes_eqb k k') eqn:Ekk'.
    + apply bytes_eqb_eq in Ekk'. subst k'. cbn.
      destruct (bytes_eqb p k); reflexivity.
    + cbn. destruct (bytes_eqb p k') eqn:Epk'.
      * apply bytes_eqb_eq in Epk'. subst k'.
        destruct (bytes_eqb p k) eqn:Epk; [|reflexivity].
        apply bytes_eqb_eq in Epk. subst k. rewrite bytes_eqb_refl in Ekk'. discriminate.
      * exact IH.
Qed.

(* keys of an ordered dictionary keep their first-insertion order *)
Lemma aset_keys_in {V} (k : bytes) (x : V) (l : alist V) :
  alookup k l <> None -> map fst (aset k x l) = map fst l.
Proof.
  induction l as [|[k' v'] r IH]; cbn; intros H.
  - contradiction.
  - destruct (bytes_eqb k k') eqn:E; cbn.
    + reflexivity.
    + f_equal. apply IH. exact H.
Qed.

Lemma aset_keys_new {V} (k : bytes) (x : V) (l : alist V) :
  alookup k l = None -> map fst (aset k x l) = map fst l ++ [k].
Proof.
  induction l as [|[k' v'] r IH]; cbn; intros H.
  - reflexivity.
  - destruct (bytes_eqb k k') eqn:E; [discriminate|]. cbn. f_equal. apply IH. exact H.
Qed.
