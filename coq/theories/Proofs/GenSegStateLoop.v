(* The segment loop of TdmsReader.read_metadata as TRANSLATED FROM THE SOURCE (Gen/PyFuncsSegState.v
   read_segment_metadata_gen, read_metadata_iteration_gen, read_metadata_loop_gen, read_metadata_gen), with
   _read_lead_in and the metadata lexer instantiated by the byte-level parsers of the model, equals
   Model/Reader.v md_loop / rd_metadata on the file bytes (up to the recorded tdms_version, which lives in
   _read_lead_in, and the representation of positions and cache keys).

   The translated loop stops on EOFError raised ANYWHERE inside _read_segment_metadata; the model stops at its two
   explicit places (short lead-in, incomplete metadata).  They coincide because nothing else in the model's
   segment step returns EEof ([*_noeof] below). *)
From Coq Require Import String.
From Coq Require Import ZArith List Bool Lia.
From Coq Require Import Init.Byte.
Import ListNotations.
From NpTdms Require Import Base.Bytes Base.Res Base.PySlice Model.Tokens Model.SegState Model.Layout Model.Reader
     Gen.TypeTable Gen.PyFuncsReader Gen.PyFuncsSegState Proofs.SegStateProofs Proofs.GenReaderEquiv Proofs.GenSegStateEquiv.
Local Open Scope Z_scope.

(* ---- nothing in the segment step raises EOFError ------------------------------------------------------------------ *)

Definition noeof {A} (r : res A) : Prop := r <> Err EEof.

Lemma noeof_ok {A} (a : A) : noeof (Ok a).
Proof. discriminate. Qed.
Lemma noeof_bind {A B} (r : res A) (f : A -> res B) : noeof r -> (forall a, noeof (f a)) -> noeof (bind r f).
Proof. intros Hr Hf. destruct r as [a|e]; cbn [bind]; [apply Hf|]. intros [= ->]. apply Hr. reflexivity. Qed.

Ltac ne :=
  repeat first
    [ apply noeof_ok
    | (let H := fresh "Hne" in intro H; discriminate H)
    | assumption
    | apply noeof_bind; [|intros]
    | match goal with
      | |- noeof (if ?c then _ else _) => destruct c
      | |- noeof (match ?x with _ => _ end) => destruct x
      | |- noeof (let '(_, _) := ?x in _) => destruct x
      end ].

Lemma get_exact_noeof n bs : noeof (get_exact n bs).
Proof. unfold get_exact, get_raw. ne. Qed.
Lemma get_u32_noeof e bs : noeof (get_u32 e bs).
Proof. unfold get_u32. apply noeof_bind; [apply get_exact_noeof|]. intros [x r]. ne. Qed.
Lemma get_u64_noeof e bs : noeof (get_u64 e bs).
Proof. unfold get_u64. apply noeof_bind; [apply get_exact_noeof|]. intros [x r]. ne. Qed.
Lemma get_u8_noeof bs : noeof (get_u8 bs).
Proof. unfold get_u8. apply noeof_bind; [apply get_exact_noeof|]. intros [x r]. ne. Qed.
Lemma get_string_noeof e bs : noeof (get_string e bs).
Proof. unfold get_string. apply noeof_bind; [apply get_u32_noeof|]. intros [x r]. ne. Qed.

Lemma repeat_parse_noeof {A} (p : bytes -> res (A * bytes)) :
  (forall bs, noeof (p bs)) -> forall fuel n bs, noeof (repeat_parse p fuel n bs).
Proof.
  intros Hp. induction fuel as [|f IH]; intros n bs; cbn [repeat_parse]; destruct (n <=? 0); try (intro H; discriminate H).
  apply noeof_bind; [apply Hp|]. intros [x bs1]. apply noeof_bind; [apply IH|]. intros [xs bs2]. ne.
Qed.

Lemma parse_prop_noeof e bs : noeof (parse_prop e bs).
Proof.
  unfold parse_prop. apply noeof_bind; [apply get_string_noeof|]. intros [name r1].
  apply noeof_bind; [apply get_u32_noeof|]. intros [ty r2].
  apply noeof_bind; [|intros [v r3]; ne].
  unfold parse_prop_value. destruct (tds_size ty) as [[n|]|]; try (intro H; discriminate H).
  - destruct (ty =? T_STRING); [apply get_string_noeof|]. destruct (ty =? T_TIME).
    + apply noeof_bind; [apply get_exact_noeof|]. intros [x r]. ne.
    + destruct (is_struct_type ty); [|intro H; discriminate H]. apply noeof_bind; [apply get_exact_noeof|]. intros [x r]. ne.
  - destruct (ty =? T_STRING); [apply get_string_noeof|]. destruct (ty =? T_TIME).
    + apply noeof_bind; [apply get_exact_noeof|]. intros [x r]. ne.
    + destruct (is_struct_type ty); intro H; discriminate H.
Qed.

Lemma parse_scaler_noeof e k bs : noeof (parse_scaler e k bs).
Proof.
  unfold parse_scaler. apply noeof_bind; [apply get_u32_noeof|]. intros [a r1].
  apply noeof_bind; [apply get_u32_noeof|]. intros [b r2]. apply noeof_bind; [apply get_u32_noeof|]. intros [c r3].
  apply noeof_bind; [destruct (k =? DIGITAL_LINE_SCALER); [apply get_u8_noeof|apply get_u32_noeof]|]. intros [d r4].
  apply noeof_bind; [apply get_u32_noeof|]. intros [f r5]. ne.
Qed.

Lemma parse_idx_noeof e bs : noeof (parse_idx e bs).
Proof.
  unfold parse_idx. apply noeof_bind; [apply get_u32_noeof|]. intros [h r0].
  destruct (h =? RAW_DATA_INDEX_NO_DATA); [ne|]. destruct (h =? RAW_DATA_INDEX_MATCHES_PREVIOUS); [ne|].
  destruct ((h =? FORMAT_CHANGING_SCALER) || (h =? DIGITAL_LINE_SCALER)).
  - apply noeof_bind; [apply get_u32_noeof|]. intros [a r1]. apply noeof_bind; [apply get_u32_noeof|]. intros [b r2].
    apply noeof_bind; [apply get_u64_noeof|]. intros [c r3]. apply noeof_bind; [apply get_u32_noeof|]. intros [d r4].
    apply noeof_bind; [apply repeat_parse_noeof; apply parse_scaler_noeof|]. intros [s r5].
    apply noeof_bind; [apply get_u32_noeof|]. intros [f r6].
    apply noeof_bind; [apply repeat_parse_noeof; apply get_u32_noeof|]. intros [w r7]. ne.
  - apply noeof_bind; [apply get_u32_noeof|]. intros [a r1]. apply noeof_bind; [apply get_u32_noeof|]. intros [b r2].
    apply noeof_bind; [apply get_u64_noeof|]. intros [c r3]. destruct (a =? T_STRING); [|ne].
    apply noeof_bind; [apply get_u64_noeof|]. intros [t r4]. ne.
Qed.

Lemma parse_metadata_noeof e bs : noeof (parse_metadata e bs).
Proof.
  unfold parse_metadata. apply noeof_bind; [apply get_u32_noeof|]. intros [n r]. apply repeat_parse_noeof. intros bs0.
  unfold parse_entry. apply noeof_bind; [apply get_string_noeof|]. intros [p r1].
  apply noeof_bind; [apply parse_idx_noeof|]. intros [i r2].
  apply noeof_bind; [|intros [ps r3]; ne]. unfold parse_props. apply noeof_bind; [apply get_u32_noeof|]. intros [k r4].
  apply repeat_parse_noeof. apply parse_prop_noeof.
Qed.

Lemma new_object_noeof p i : noeof (new_object p i).
Proof. unfold new_object. ne. Qed.

Lemma read_segment_objects_noeof toc md prev pseg : noeof (read_segment_objects toc md prev pseg).
Proof.
  unfold read_segment_objects. destruct md as [es|]; [|ne].
  apply noeof_bind; [|intros; ne].
  generalize (match (if toc_has toc TOC_NEWLIST then None else pseg) with Some l => l | None => [] end).
  generalize (if toc_has toc TOC_NEWLIST then None else pseg). intros base.
  induction es as [|x r IH]; intros ordered; cbn [fold_entries]; [ne|].
  apply noeof_bind; [|intros; apply IH].
  unfold step_entry. destruct (match base with Some b => existing_lookup (e_path x) 0 b None | None => None end) as [[i o]|].
  - apply noeof_bind; [|intros; ne]. unfold update_existing. destruct (e_idx x); try (ne; fail); apply new_object_noeof.
  - destruct (alookup (e_path x) prev) as [po|].
    + apply noeof_bind; [|intros; ne]. unfold reuse_previous. destruct (e_idx x); try (ne; fail); apply new_object_noeof.
    + destruct (e_idx x); try (intro H; discriminate H); (apply noeof_bind; [apply new_object_noeof|intros; ne]).
Qed.

Lemma bump_dims_noeof nv scalers : forall dims, noeof (bump_dims dims nv scalers).
Proof. induction scalers as [|s r IH]; intros dims; cbn [bump_dims]; [ne|]. destruct (_ || _); [ne|]. destruct (nth _ dims (0, 0)). apply IH. Qed.

Lemma buffer_dims_eof objs : forall dims w, buffer_dims_from objs dims w <> Err EEof.
Proof.
  induction objs as [|o r IH]; intros dims w; cbn [buffer_dims_from]; [destruct dims; discriminate|].
  destruct (negb (so_has_data o)); [apply IH|]. destruct (so_daqmx o) as [q|]; [|discriminate].
  destruct dims as [d0|].
  - destruct (negb (zlist_eqb (dq_widths q) w)); [discriminate|].
    destruct (bump_dims d0 (so_nvals o) (dq_scalers q)) as [d|e] eqn:E; cbn [bind]; [apply IH|].
    intros [= ->]. exact (bump_dims_noeof _ _ _ E).
  - destruct (bump_dims _ (so_nvals o) (dq_scalers q)) as [d|e] eqn:E; cbn [bind]; [apply IH|].
    intros [= ->]. exact (bump_dims_noeof _ _ _ E).
Qed.

Lemma calculate_chunks_noeof toc inc objs total : noeof (calculate_chunks toc inc objs total).
Proof.
  assert (Hh : noeof (have_daqmx objs)) by (unfold have_daqmx; ne).
  assert (Hb : noeof (buffer_dims objs)) by (unfold noeof, buffer_dims; apply buffer_dims_eof).
  unfold calculate_chunks. apply noeof_bind.
  - unfold chunk_size. apply noeof_bind; [exact Hh|]. intros [|]; [|ne]. apply noeof_bind; [exact Hb|]. intros; ne.
  - intros cs. destruct (_ || _); [ne|]. destruct (cs =? 0); [ne|]. destruct (total mod cs =? 0); [ne|].
    apply noeof_bind; [|intros; ne]. unfold final_chunk_lengths. apply noeof_bind; [exact Hh|]. intros [|].
    + unfold daqmx_final. apply noeof_bind; [exact Hb|]. intros; ne.
    + ne.
Qed.

Lemma update_object_metadata_noeof objs n f : forall prev om, noeof (update_object_metadata objs n f prev om).
Proof.
  induction objs as [|o r IH]; intros prev om; cbn [update_object_metadata]; [ne|].
  apply noeof_bind; [|intros; apply IH]. unfold update_ometa. ne.
Qed.

Lemma model_segment_noeof toc inc np dp md prev pseg pindex want cache :
  noeof (model_segment toc inc np dp md prev pseg pindex want cache).
Proof.
  unfold model_segment. apply noeof_bind; [apply read_segment_objects_noeof|]. intros [objs props].
  destruct (match md with None => (pindex, cache) | Some _ => if want then get_index cache objs else ([], cache) end) as [idx c'].
  apply noeof_bind; [apply calculate_chunks_noeof|]. intros [n f]. ne.
Qed.

Lemma parse_leadin_noeof bs : noeof (parse_leadin bs).
Proof.
  unfold parse_leadin. apply noeof_bind; [apply get_exact_noeof|]. intros [tag r0].
  apply noeof_bind; [apply get_u32_noeof|]. intros [toc r1]. apply noeof_bind; [apply get_exact_noeof|]. intros [vb r2].
  apply noeof_bind; [apply get_u64_noeof|]. intros [nxt r3]. apply noeof_bind; [apply get_u64_noeof|]. intros [raw r4]. ne.
Qed.

Lemma lead_positions_noeof p l fs : noeof (lead_positions p l fs).
Proof. unfold lead_positions. ne. Qed.

(* ---- the returned property dictionary is well formed -------------------------------------------------------------------- *)

Lemma read_segment_objects_gen_props_wf h pos toc np dp inc es prev gcache pseg p rest :
  Forall entry_lexed es ->
  (toc_has toc TOC_META = true -> toc_has toc TOC_NEWLIST = false ->
   forall g, pseg = Some g -> hits_fresh (gs_objs g) [] es) ->
  read_segment_objects_gen h pos toc np dp inc es prev gcache pseg = Ok (p, rest) -> gprops_wf p.
Proof.
  intros Hl Hf. unfold read_segment_objects_gen.
  change (negb (Z.land toc 2 =? 0)) with (toc_has toc TOC_META).
  destruct (toc_has toc TOC_META) eqn:Em; cbn [negb].
  - change (negb (Z.land toc 4 =? 0)) with (toc_has toc TOC_NEWLIST). rewrite py_slice_all.
    set (base := if toc_has toc TOC_NEWLIST then None else option_map gs_objs pseg).
    assert (Hfirst :
      (if toc_has toc TOC_NEWLIST || negb (match pseg with Some _ => true | None => false end)
       then Ok ([], None)
       else do t2__ <- need EOther pseg;
            Ok (gs_objs t2__, Some (dict_of_pairs (map (fun '(i, o) => (so_path o, (i, o))) (py_enumerate (gs_objs t2__))))))
      = Ok (match base with Some l => l | None => [] end, option_map existing_dict base)).
    { subst base. destruct (toc_has toc TOC_NEWLIST); [reflexivity|]. destruct pseg as [g|]; reflexivity. }
    rewrite Hfirst. cbn [bind].
    rewrite (loop_eq prev base es _ None []); [|exact Hl|].
    + destruct (fold_entries base prev _ es) as [objs|]; cbn [bind]; [|discriminate].
      match goal with |- bind ?B _ = _ -> _ => destruct B as [[a b]|]; cbn [bind]; [|discriminate] end.
      match goal with |- bind ?B _ = _ -> _ => destruct B as [[a' b']|]; cbn [bind]; [|discriminate] end.
      intros [= <- _]. apply gprops_collect_wf. exact I.
    + unfold base_ok. destruct base as [bl|] eqn:Eb; [|exact I]. split; [apply untouched_init|].
      subst base. destruct (toc_has toc TOC_NEWLIST) eqn:En; [discriminate|].
      destruct pseg as [g|]; [|discriminate]. injection Eb as <-. apply (Hf eq_refl eq_refl g eq_refl).
  - destruct (reuse_previous_segment_metadata_gen _ _ _ _ _ _) as [[[[a b] c0] d]|]; cbn [bind]; [|discriminate].
    intros [= <- _]. exact I.
Qed.

(* ---- the previous-object map keeps the side condition of the chunk arithmetic ----------------------------------------------- *)

Lemma update_object_metadata_prev_bufs : forall objs n f prev om prev' om',
  bufs_nonneg objs -> prev_bufs prev ->
  update_object_metadata objs n f prev om = Ok (prev', om') -> prev_bufs prev'.
Proof.
  induction objs as [|o r IH]; intros n f prev om prev' om' Hb Hp; cbn [update_object_metadata]; [intros [= <- _]; exact Hp|].
  inversion Hb as [|? ? Ho Hr]; subst.
  destruct (update_ometa (get_ometa (so_path o) om) o n f) as [m|]; cbn [bind]; [|discriminate].
  apply IH; [exact Hr|]. intros p po. rewrite alookup_aset. destruct (bytes_eqb p (so_path o)); [intros [= <-]; exact Ho|apply Hp].
Qed.

(* the index cache exists after a segment exactly when it existed before *)
Lemma read_segment_objects_gen_cache_kind h pos toc np dp inc es prev cache pseg p o i n f cache' :
  read_segment_objects_gen h pos toc np dp inc es prev cache pseg = Ok (p, (o, i, n, f, cache')) ->
  match cache, cache' with Some _, Some _ | None, None => True | _, _ => False end.
Proof.
  unfold read_segment_objects_gen. destruct (negb (negb (Z.land toc 2 =? 0))).
  - destruct (reuse_previous_segment_metadata_gen _ _ _ _ _ _) as [[[[a b] c0] d]|]; cbn [bind]; [|discriminate].
    intros [= _ _ _ _ _ <-]. destruct cache; exact I.
  - match goal with |- bind ?B _ = _ -> _ => destruct B as [[a b]|]; cbn [bind]; [|discriminate] end.
    match goal with |- bind ?B _ = _ -> _ => destruct B as [[a' b']|]; cbn [bind]; [|discriminate] end.
    destruct cache as [c|].
    + destruct (get_index_gen h c a') as [[iz c2]|]; cbn [bind]; [|discriminate].
      match goal with |- bind ?B _ = _ -> _ => destruct B as [[n' f']|]; cbn [bind]; [|discriminate] end.
      intros [= _ _ _ _ _ <-]. exact I.
    + cbn [bind].
      match goal with |- bind ?B _ = _ -> _ => destruct B as [[n' f']|]; cbn [bind]; [|discriminate] end.
      intros [= _ _ _ _ _ <-]. exact I.
Qed.

(* ---- the loop on file bytes ----------------------------------------------------------------------------------------------------- *)

Section OnBytes.
Variable src : bytes.
Variable is_index : bool.
Variable file_size : option Z.
Variable h : bytes -> Z.

(* _read_lead_in at a file position: Model/Reader.v md_loop's reading of the 28 bytes (EOFError for a short read), the
   tag check, lead_positions (EOFError for incomplete metadata) *)
Definition lead_io (fpos segpos : Z) : res (Z * Z * Z * Z * bool) :=
  let lb := read_at fpos 28 src in
  if blen lb <? 28 then Err EEof
  else do l <- parse_leadin lb;
       if negb (bytes_eqb (l_tag l) (if is_index then TAG_INDEX else TAG_DATA)) then Err EValue
       else do lr <- lead_positions segpos l file_size;
            match lr with LeadEof => Err EEof | LeadOk dp np inc => Ok (segpos, l_toc l, dp, np, inc) end.
(* the metadata block lexed at a position (nothing is read when kTocMetaData is not set) *)
Definition lexed_io (p toc : Z) : res (list entry) :=
  if toc_has toc TOC_META then do '(es, _) <- parse_metadata (toc_endian toc) (drop p src); Ok es else Ok [].

Definition seg_of (g : gseg) : segment :=
  mkSeg (gs_pos g) (gs_toc g) (gs_next g) (gs_data g) (gs_incomplete g) (gs_objs g) (index_view (gs_index g)) (gs_nchunks g) (gs_final g).
Definition view_state (st : rm_state) : list segment * alist sobj * alist ometa * index_cache :=
  let '(prev, om, segs, pseg, segpos, cache, fpos) := st in (map seg_of segs, prev, om, cview cache).
Definition view_rstate (r : rstate) : list segment * alist sobj * alist ometa * index_cache :=
  (rs_segments r, rs_prev_objs r, rs_om r, rs_cache r).
Definition pindex_of (pseg : option gseg) : alist nat := match pseg with Some g => index_view (gs_index g) | None => [] end.

Definition inv (want : bool) (st : rm_state) : Prop :=
  let '(prev, om, segs, pseg, segpos, cache, fpos) := st in
  prev_bufs prev /\ match pseg with Some g => bufs_nonneg (gs_objs g) | None => True end /\
  match cache with Some c => want = true /\ cache_wf h c | None => want = false end.

(* no metadata block of the file lists a path twice (stated for every position and byte order; decidable:
   [blocks_ok_b] below) *)
Hypothesis blocks_listed_once : forall p e es rest,
    parse_metadata e (drop p src) = Ok (es, rest) -> NoDup (map e_path es).

Lemma lexed_io_ok p toc es : lexed_io p toc = Ok es ->
  Forall entry_lexed es /\ Forall entry_bufs es /\ NoDup (map e_path es).
Proof.
  unfold lexed_io. destruct (toc_has toc TOC_META).
  - destruct (parse_metadata (toc_endian toc) (drop p src)) as [[es' rest]|] eqn:E; cbn [bind]; [|discriminate].
    intros [= <-]. split; [exact (parse_metadata_lexed _ _ _ _ E)|]. split; [exact (parse_metadata_bufs _ _ _ _ E)|].
    exact (blocks_listed_once _ _ _ _ E).
  - intros [= <-]. repeat split; constructor.
Qed.

(* one unfolding of md_loop, its segment step written with [model_segment] *)
Lemma md_loop_S f want fpos segpos ps pi st :
  md_loop (S f) src is_index file_size want fpos segpos ps pi st
  = if blen (read_at fpos 28 src) <? 28 then Ok st
    else
      do l <- parse_leadin (read_at fpos 28 src);
      if negb (bytes_eqb (l_tag l) (if is_index then TAG_INDEX else TAG_DATA)) then Err EValue
      else
        let ver := match rs_version st with Some v => Some v | None => Some (l_version l) end in
        do lr <- lead_positions segpos l file_size;
        match lr with
        | LeadEof => Ok (mkRstate (rs_segments st) (rs_prev_objs st) (rs_om st) (rs_cache st) ver)
        | LeadOk dp np inc =>
          do md <- (if toc_has (l_toc l) TOC_META
                    then do '(es, _) <- parse_metadata (toc_endian (l_toc l)) (drop (fpos + 28) src); Ok (Some es)
                    else Ok None);
          do x <- model_segment (l_toc l) inc np dp md (rs_prev_objs st) ps pi want (rs_cache st);
          let '(props, (objs, idx, nch, fin, cache)) := x in
          do '(po, om) <- update_object_metadata objs nch fin (rs_prev_objs st) (rs_om st);
          md_loop f src is_index file_size want (if is_index then fpos + (dp - segpos) else np) np (Some objs) idx
                  (mkRstate (rs_segments st ++ [mkSeg segpos (l_toc l) np dp inc objs idx nch fin]) po
                            (update_object_properties props om) cache ver)
        end.
Proof.
  cbn [md_loop]. destruct (blen (read_at fpos 28 src) <? 28); [reflexivity|].
  destruct (parse_leadin (read_at fpos 28 src)) as [l|]; cbn [bind]; [|reflexivity].
  destruct (negb (bytes_eqb (l_tag l) (if is_index then TAG_INDEX else TAG_DATA))); [reflexivity|].
  cbn [rs_version rs_segments rs_prev_objs rs_om rs_cache].
  destruct (lead_positions segpos l file_size) as [[|dp np inc]|]; cbn [bind]; try reflexivity.
  destruct (if toc_has (l_toc l) TOC_META then _ else _) as [md|]; cbn [bind]; [|reflexivity].
  unfold model_segment.
  destruct (read_segment_objects (l_toc l) md (rs_prev_objs st) ps) as [[objs props]|]; cbn [bind]; [|reflexivity].
  destruct (match md with None => (pi, rs_cache st) | Some _ => if want then get_index (rs_cache st) objs else ([], rs_cache st) end)
    as [idx cache].
  destruct (calculate_chunks (l_toc l) inc objs (np - dp)) as [[nch fin]|]; cbn [bind]; reflexivity.
Qed.

(* one iteration against one unfolding of md_loop *)
Lemma iteration_eq want prev om segs pseg segpos cache fpos ver :
  inv want (prev, om, segs, pseg, segpos, cache, fpos) ->
  let mst := mkRstate (map seg_of segs) prev om (cview cache) ver in
  match read_metadata_iteration_gen h lead_io lexed_io prev om segs pseg segpos cache fpos is_index with
  | Ok None =>
    forall f, exists ver', md_loop (S f) src is_index file_size want fpos segpos (option_map gs_objs pseg) (pindex_of pseg) mst
                          = Ok (mkRstate (map seg_of segs) prev om (cview cache) ver')
  | Ok (Some st') =>
    inv want st' /\
    exists ver', forall f,
        let '(prev', om', segs', pseg', segpos', cache', fpos') := st' in
        md_loop (S f) src is_index file_size want fpos segpos (option_map gs_objs pseg) (pindex_of pseg) mst
        = md_loop f src is_index file_size want fpos' segpos' (option_map gs_objs pseg') (pindex_of pseg')
                  (mkRstate (map seg_of segs') prev' om' (cview cache') ver')
  | Err e =>
    forall f, md_loop (S f) src is_index file_size want fpos segpos (option_map gs_objs pseg) (pindex_of pseg) mst = Err e
  end.
Proof.
  intros (Hpb & Hsb & Hc) mst. subst mst.
  unfold read_metadata_iteration_gen, read_segment_metadata_or_eof, read_segment_metadata_gen, lead_io.
  destruct (blen (read_at fpos 28 src) <? 28) eqn:E28; cbn [bind].
  { intros f. exists ver. rewrite md_loop_S, E28. reflexivity. }
  destruct (parse_leadin (read_at fpos 28 src)) as [l|e] eqn:El; cbn [bind].
  2:{ assert (He : e <> EEof) by (intros ->; exact (parse_leadin_noeof _ El)).
      destruct e; try contradiction; intros f; rewrite md_loop_S, E28, El; reflexivity. }
  destruct (negb (bytes_eqb (l_tag l) (if is_index then TAG_INDEX else TAG_DATA))) eqn:Et; cbn [bind].
  { intros f. rewrite md_loop_S, E28, El. cbn [bind]. rewrite Et. reflexivity. }
  set (ver' := match ver with Some v => Some v | None => Some (l_version l) end).
  destruct (lead_positions segpos l file_size) as [[|dp np inc]|e] eqn:Ep; cbn [bind].
  3:{ assert (He : e <> EEof) by (intros ->; exact (lead_positions_noeof _ _ _ Ep)).
      destruct e; try contradiction; intros f; rewrite md_loop_S, E28, El; cbn [bind]; rewrite Et; cbn zeta; rewrite Ep; reflexivity. }
  { intros f. exists ver'. rewrite md_loop_S, E28, El. cbn [bind]. rewrite Et. cbn zeta. rewrite Ep. reflexivity. }
  set (toc := l_toc l).
  assert (Hhead : forall f,
             md_loop (S f) src is_index file_size want fpos segpos (option_map gs_objs pseg) (pindex_of pseg)
                     (mkRstate (map seg_of segs) prev om (cview cache) ver)
             = do md <- (if toc_has toc TOC_META
                         then do '(es, _) <- parse_metadata (toc_endian toc) (drop (fpos + 28) src); Ok (Some es)
                         else Ok None);
               do x <- model_segment toc inc np dp md prev (option_map gs_objs pseg) (pindex_of pseg) want (cview cache);
               let '(props, (objs, idx, nch, fin, cache0)) := x in
               do '(po, om0) <- update_object_metadata objs nch fin prev om;
               md_loop f src is_index file_size want (if is_index then fpos + (dp - segpos) else np) np (Some objs) idx
                       (mkRstate (map seg_of segs ++ [mkSeg segpos toc np dp inc objs idx nch fin]) po
                                 (update_object_properties props om0) cache0 ver')).
  { intros f. rewrite md_loop_S, E28, El. cbn [bind]. rewrite Et. cbn zeta. rewrite Ep. reflexivity. }
  (* the metadata block *)
  destruct (lexed_io (fpos + 28) toc) as [es|e] eqn:Ex.
  2:{ unfold lexed_io in Ex. destruct (toc_has toc TOC_META) eqn:Em; [|discriminate].
      destruct (parse_metadata (toc_endian toc) (drop (fpos + 28) src)) as [[es' rest]|e'] eqn:Epm; cbn [bind] in Ex; [discriminate|].
      injection Ex as ->. cbn [bind].
      assert (He : e <> EEof) by (intros ->; exact (parse_metadata_noeof _ _ Epm)).
      destruct e; try contradiction; intros f; rewrite Hhead; reflexivity. }
  cbn [bind]. destruct (lexed_io_ok _ _ _ Ex) as (Hlex & Hbuf & Hnd).
  assert (Hmd : (if toc_has toc TOC_META
                 then do '(es0, _) <- parse_metadata (toc_endian toc) (drop (fpos + 28) src); Ok (Some es0)
                 else Ok None) = Ok (if toc_has toc TOC_META then Some es else None)).
  { unfold lexed_io in Ex. destruct (toc_has toc TOC_META); [|reflexivity].
    destruct (parse_metadata (toc_endian toc) (drop (fpos + 28) src)) as [[es' rest]|]; cbn [bind] in *; [|discriminate].
    injection Ex as ->. reflexivity. }
  (* read_segment_objects, the index, the chunk arithmetic *)
  assert (Hwant : (match cache with Some _ => true | None => false end) = want).
  { destruct cache as [c|]; [destruct Hc as [-> _]; reflexivity|symmetry; exact Hc]. }
  assert (Hcw : match cache with Some c => cache_wf h c | None => True end) by (destruct cache; [exact (proj2 Hc)|exact I]).
  assert (Hfr : toc_has toc TOC_META = true -> toc_has toc TOC_NEWLIST = false -> forall g, pseg = Some g -> hits_fresh (gs_objs g) [] es)
    by (intros _ _ g _; exact (listed_once_hits_fresh (gs_objs g) es Hnd)).
  pose proof (read_segment_objects_gen_eq_inputs h segpos toc np dp inc es prev cache pseg Hlex Hbuf Hpb Hsb Hfr Hcw) as Heq.
  rewrite Hwant in Heq. fold (pindex_of pseg) in Heq. unfold new_segment_read_objects.
  set (md := if toc_has toc TOC_META then Some es else None) in *.
  pose proof (model_segment_noeof toc inc np dp md prev (option_map gs_objs pseg) (pindex_of pseg) want (cview cache)) as Hne.
  destruct (read_segment_objects_gen h segpos toc np dp inc es prev cache pseg) as [[p [[[[objs idx] nch] fin] cache']]|e] eqn:Eg;
    cbn [res_map gen_view bind] in *.
  2:{ rewrite <- Heq in Hne. assert (He : e <> EEof) by (intros ->; apply Hne; reflexivity).
      destruct e; try contradiction; intros f; rewrite Hhead, Hmd; cbn [bind]; rewrite <- Heq; reflexivity. }
  (* the reader's dictionaries *)
  rewrite update_object_metadata_gen_eq. cbn [gseg_segment sg_objs sg_nchunks sg_final gs_objs gs_nchunks gs_final].
  pose proof (update_object_metadata_noeof objs nch fin prev om) as Hne2.
  destruct (update_object_metadata objs nch fin prev om) as [[po om1]|e] eqn:Eu; cbn [bind].
  2:{ assert (He : e <> EEof) by (intros ->; apply Hne2; reflexivity).
      destruct e; try contradiction; intros f; rewrite Hhead, Hmd; cbn [bind]; rewrite <- Heq; cbn [bind]; rewrite Eu; reflexivity. }
  rewrite (update_object_properties_gen_eq om1 p (read_segment_objects_gen_props_wf _ _ _ _ _ _ _ _ _ _ _ _ Hlex Hfr Eg)). cbn [bind].
  assert (Hobjs : bufs_nonneg objs).
  { symmetry in Heq. unfold model_segment in Heq.
    destruct (read_segment_objects toc md prev (option_map gs_objs pseg)) as [[objs0 props0]|] eqn:Er; cbn [bind] in Heq; [|discriminate].
    assert (Hb0 : bufs_nonneg objs0).
    { refine (read_segment_objects_bufs toc md prev (option_map gs_objs pseg) objs0 props0 _ Hpb _ Er).
      - subst md. destruct (toc_has toc TOC_META); [exact Hbuf|exact I].
      - destruct pseg; exact Hsb. }
    destruct (match md with None => (pindex_of pseg, cview cache) | Some _ => if want then get_index (cview cache) objs0 else ([], cview cache) end)
      as [idx0 c0].
    destruct (calculate_chunks toc inc objs0 (np - dp)) as [[n0 f0]|]; cbn [bind] in Heq; [|discriminate].
    injection Heq as _ <- _ _ _ _. exact Hb0. }
  cbn zeta. cbn [gs_data gs_pos gs_next].
  match goal with |- context [bind (if is_index then Ok ?x else Ok ?y) ?k] =>
    replace (bind (if is_index then Ok x else Ok y) k) with (k (if is_index then x else y)) by (destruct is_index; reflexivity) end.
  cbn beta.
  split.
  - (* the invariant *)
    split; [exact (update_object_metadata_prev_bufs _ _ _ _ _ _ _ Hobjs Hpb Eu)|]. split; [exact Hobjs|].
    pose proof (read_segment_objects_gen_cache_kind _ _ _ _ _ _ _ _ _ _ _ _ _ _ _ _ Eg) as Hk.
    destruct cache as [c|], cache' as [c2|]; try contradiction.
    + split; [exact (proj1 Hc)|]. exact (read_segment_objects_gen_cache_wf h _ _ _ _ _ _ _ _ _ _ _ _ _ _ _ (proj2 Hc) Eg).
    + exact Hc.
  - exists ver'. intros f. rewrite Hhead, Hmd. cbn [bind]. rewrite <- Heq. cbn [bind]. rewrite Eu. cbn [bind option_map gs_objs gs_next pindex_of gs_index].
    rewrite map_app. cbn [map seg_of gs_pos gs_toc gs_next gs_data gs_incomplete gs_objs gs_index gs_nchunks gs_final].
    replace (fpos + dp - segpos) with (fpos + (dp - segpos)) by ring. reflexivity.
Qed.

(* the loop: the translated `while True:` on fuel against md_loop on the same fuel *)
Theorem read_metadata_loop_eq want : forall fuel prev om segs pseg segpos cache fpos ver,
  inv want (prev, om, segs, pseg, segpos, cache, fpos) ->
  res_map view_state (read_metadata_loop_gen h lead_io lexed_io fuel is_index (prev, om, segs, pseg, segpos, cache, fpos))
  = res_map view_rstate (md_loop fuel src is_index file_size want fpos segpos (option_map gs_objs pseg) (pindex_of pseg)
                                 (mkRstate (map seg_of segs) prev om (cview cache) ver)).
Proof.
  induction fuel as [|f IH]; intros prev om segs pseg segpos cache fpos ver Hinv; [reflexivity|].
  pose proof (iteration_eq want prev om segs pseg segpos cache fpos ver Hinv) as Hit. cbn zeta in Hit.
  cbn [read_metadata_loop_gen].
  destruct (read_metadata_iteration_gen h lead_io lexed_io prev om segs pseg segpos cache fpos is_index) as [[st'|]|e]; cbn [bind].
  - destruct Hit as [Hinv' (ver' & Hstep)]. specialize (Hstep f).
    destruct st' as [[[[[[prev' om'] segs'] pseg'] segpos'] cache'] fpos']. rewrite Hstep. apply IH. exact Hinv'.
  - destruct (Hit f) as [ver' ->]. reflexivity.
  - rewrite (Hit f). reflexivity.
Qed.

(* read_metadata as a whole against Model/Reader.v rd_metadata *)
Theorem read_metadata_gen_eq want :
  res_map view_state (read_metadata_gen h lead_io lexed_io (S (S (length src))) want is_index)
  = res_map view_rstate (md_loop (S (S (length src))) src is_index file_size want 0 0 None [] rstate0).
Proof.
  unfold read_metadata_gen, read_metadata_init_gen. cbn [bind].
  assert (Hr : rstate0 = mkRstate (map seg_of []) [] [] (cview (if want then Some [] else None)) None) by (destruct want; reflexivity).
  rewrite Hr.
  apply (read_metadata_loop_eq want (S (S (length src))) [] [] [] None 0 (if want then Some [] else None) 0 None).
  split; [intros p po H; discriminate H|]. split; [exact I|].
  destruct want; [split; [reflexivity|constructor]|reflexivity].
Qed.
End OnBytes.

(* ---- the side condition is decidable ------------------------------------------------------------------------------------------- *)

Fixpoint nodup_b (l : list bytes) : bool :=
  match l with [] => true | x :: r => negb (existsb (bytes_eqb x) r) && nodup_b r end.

Lemma nodup_b_NoDup l : nodup_b l = true -> NoDup l.
Proof.
  induction l as [|x r IH]; cbn [nodup_b]; intros H; [constructor|]. apply andb_true_iff in H. destruct H as [Hx Hr].
  constructor; [|exact (IH Hr)]. intros Hin. apply negb_true_iff in Hx.
  assert (He : existsb (bytes_eqb x) r = true) by (apply existsb_exists; exists x; split; [exact Hin|apply bytes_eqb_refl]).
  congruence.
Qed.

Definition blocks_ok_b (src : bytes) : bool :=
  forallb (fun k => forallb (fun e => match parse_metadata e (skipn k src) with
                                      | Ok (es, _) => nodup_b (map e_path es)
                                      | Err _ => true
                                      end) [LE; BE]) (seq 0 (S (length src))).

Lemma blocks_ok_b_sound src : blocks_ok_b src = true ->
  forall p e es rest, parse_metadata e (drop p src) = Ok (es, rest) -> NoDup (map e_path es).
Proof.
  intros H p e es rest Hp. unfold blocks_ok_b in H. rewrite forallb_forall in H.
  unfold drop in Hp. set (k := Z.to_nat (Z.min p (blen src))) in *.
  assert (Hk : In k (seq 0 (S (length src)))).
  { apply in_seq. unfold k, blen. lia. }
  specialize (H k Hk). rewrite forallb_forall in H.
  assert (He : In e [LE; BE]) by (destruct e; [left|right; left]; reflexivity).
  specialize (H e He). rewrite Hp in H. apply nodup_b_NoDup. exact H.
Qed.
