(* C11 / C01: ReadCorrectDaqmx.read_correct_daqmx for files that may also contain
   ordinary segments whose data objects all have ZERO size (SegEncodesZ.seg_encodes_z:
   the reader reads no chunk, or one chunk of empty columns).  The DAQmx side is
   unchanged; the ordinary side uses the _z lemmas of ReadCorrectZ.v.  Needed by the
   refinement to Model/SpecDaqmx.v, which (like Model/Spec.v) has no condition on
   counts. *)
From Coq Require Import List ZArith Bool Lia ZifyBool.
From Coq Require Import Init.Byte.
Import ListNotations.
From NpTdms Require Import Base.Bytes Base.Res Model.Tokens Model.TokensWf Model.SegState
     Model.Layout Model.Reader Model.FileSyn Proofs.TokensRoundtrip Proofs.SegStateProofs
     Proofs.LayoutProofs Proofs.FileSynProofs Proofs.SegStateInherit Proofs.DaqmxProofs
     Proofs.ReadCorrect Proofs.SegEncodesZ Proofs.ReadCorrectZ Proofs.ReadCorrectDaqmx.
Local Open Scope Z_scope.

Inductive seg_content_z (g : segment) (s : fseg) : list chunk -> Prop :=
| sctz_plain cs : seg_encodes_z g (fs_data s) cs -> seg_content_z g s cs
| sctz_daqmx : daqmx_seg_ok g (fs_data s) -> seg_content_z g s (direct_chunks g (fs_data s)).

Inductive segs_content_z : list segment -> list fseg -> list (list chunk) -> Prop :=
| scnz_nil : segs_content_z [] [] []
| scnz_cons g gs s r cs css :
    seg_content_z g s cs -> segs_content_z gs r css -> segs_content_z (g :: gs) (s :: r) (cs :: css).

Lemma seg_content_z_of g s cs : seg_content g s cs -> seg_content_z g s cs.
Proof. intros [cs0 H|H]; [apply sctz_plain; apply sez_enc; exact H|apply sctz_daqmx; exact H]. Qed.

Lemma segs_content_z_of : forall gs segs chunkss, segs_content gs segs chunkss -> segs_content_z gs segs chunkss.
Proof. induction 1; constructor; [apply seg_content_z_of|]; assumption. Qed.

Lemma seg_encodes_z_keys_data g data chunks :
  seg_encodes_z g data chunks ->
  forall c kv, In c chunks -> In kv c ->
               exists o, In o (data_objs (sg_objs g)) /\ so_path o = fst kv /\ so_dtype o <> None.
Proof.
  intros Henc c kv Hc Hkv.
  destruct Henc as [cs Hcs | Hlay Hne Hz Hdata | Hlay Hne Hz Hnv Hsz Hnd Hdata].
  - exact (seg_encodes_keys_data g data cs Hcs c kv Hc Hkv).
  - contradiction.
  - destruct Hc as [<-|[]]. destruct (cols_of_keys _ _ _ Hkv) as (o & Ho & Hp).
    exists o. split; [exact Ho|]. split; [exact Hp|].
    rewrite Forall_forall in Hsz. exact (sized_dtype o (Hsz o Ho)).
Qed.

Lemma seg_content_z_decodes g s cs pos rest :
  seg_at pos s g -> seg_content_z g s cs ->
  exists cs_dec cur', read_segment_chunks g (fs_data s ++ rest) = Ok (cs_dec, cur') /\
                      Forall2 chunk_ext cs_dec cs /\
                      forall c kv, In c cs_dec -> In kv c -> entry_origin g kv.
Proof.
  intros Hat [cs0 Henc|Hok].
  - destruct Hat as (_ & _ & _ & _ & _ & Hcc).
    exists cs0, rest. split; [|split].
    + exact (seg_encodes_z_read g (fs_data s) cs0 rest Henc Hcc).
    + apply Forall2_refl. exact chunk_ext_refl.
    + intros c kv Hc Hkv. left.
      destruct (seg_encodes_z_keys_data g _ cs0 Henc c kv Hc Hkv) as (o & Ho & Hp & Hty).
      pose proof (seg_encodes_z_only_cdata g _ cs0 Henc) as Hcd. rewrite Forall_forall in Hcd.
      specialize (Hcd c Hc). unfold only_cdata in Hcd. rewrite Forall_forall in Hcd.
      destruct (Hcd kv Hkv) as [vs Hvs].
      destruct (so_dtype o) as [dt|] eqn:Edt; [|contradiction].
      exists vs, o, dt. repeat split; try assumption. left.
      exact (seg_encodes_z_no_daqmx g _ cs0 Henc o Ho).
  - exact (seg_content_decodes g s _ pos rest Hat (sct_daqmx g s Hok)).
Qed.

(* R5: the eager loop *)
Lemma eager_loop_content_z data : forall segs gs chunkss pre recv,
    wf_file segs ->
    data = pre ++ ser_file segs ->
    segs_at (blen pre) segs gs ->
    segs_content_z gs segs chunkss ->
    (forall g kv, In g gs -> entry_origin g kv -> entry_fits kv (alookup (fst kv) recv)) ->
    exists recv', fold_left (eager_step data) gs (Ok recv) = Ok recv' /\
                  forall p, alookup p recv' =
                            option_map (radd2 (chan_values p (concat chunkss))
                                              (fun id => chan_scaler_values p id (concat chunkss)))
                                       (alookup p recv).
Proof.
  induction segs as [|s r IH]; intros gs chunkss pre recv Hwf Hdata Hat Hcon Hfit.
  - inversion Hat; subst. inversion Hcon; subst. exists recv. split; [reflexivity|].
    intros p. cbn [concat]. destruct (alookup p recv) as [x|]; cbn [option_map]; [|reflexivity].
    f_equal. symmetry. exact (radd2_nil x).
  - inversion Hat as [|pos s' r' g gs' Hg Hat']; subst.
    inversion Hcon as [|g' gs'' s' r' cs css Hcs Hcon']; subst.
    unfold wf_file in Hwf. cbn [forallb] in Hwf. apply andb_prop in Hwf. destruct Hwf as [Hs Hr].
    cbn [fold_left]. unfold eager_step at 2. cbn [bind].
    rewrite ser_file_cons.
    destruct (seg_content_z_decodes g s cs (blen pre) (ser_file r) Hg Hcs) as (cs_dec & cur' & Hread & Hext & Horig).
    rewrite (read_segment_ser pre s (ser_file r) g Hs Hg), Hread. cbn [bind].
    destruct (receive_chunks_gen cs_dec recv) as (recv1 & H1 & Hlk1).
    { intros c kv Hc Hin. apply (Hfit g kv); [left; reflexivity|exact (Horig c kv Hc Hin)]. }
    rewrite H1.
    destruct (IH gs' css (pre ++ ser_seg TAG_DATA true s) recv1 Hr) as (recv' & H2 & Hlk2).
    + rewrite <- app_assoc. reflexivity.
    + rewrite blen_app. change TAG_DATA with (tag_of false). change true with (negb false).
      rewrite (blen_ser_seg false s Hs). unfold fseg_len in Hat'. exact Hat'.
    + exact Hcon'.
    + intros g0 kv Hg0 Hkv. rewrite Hlk1. apply entry_fits_radd2.
      apply (Hfit g0 kv); [right; exact Hg0|exact Hkv].
    + rewrite ser_file_cons in H2. exists recv'. split; [exact H2|].
      intros p. rewrite Hlk2, Hlk1. cbn [concat].
      destruct (alookup p recv) as [x|]; cbn [option_map]; [|reflexivity]. f_equal.
      rewrite radd2_radd2. destruct (chunks_ext_values _ _ Hext p) as [Hv Hsv].
      apply radd2_ext.
      * rewrite chan_values_app, Hv. reflexivity.
      * intros id. rewrite chan_scaler_values_app, Hsv. reflexivity.
Qed.

Theorem rd_eager_content_z segs st h chunkss :
  wf_file segs ->
  sm_run segs false = Ok st ->
  build_hierarchy (rs_om st) = Ok h ->
  segs_content_z (rs_segments st) segs chunkss ->
  om_paths_canonical (rs_om st) ->
  typed_objects_are_channels (rs_om st) ->
  exists recv, rd_eager st h (ser_file segs) = Ok recv /\
               forall c, In c (all_channels h) ->
                         alookup (ch_path c) recv = Some (expected_data_dq (concat chunkss) c).
Proof.
  intros Hwf Hrun Hh Hcon Hcanon Hshape.
  rewrite rd_eager_fold.
  destruct (recv0_fold_gen (all_channels h) []
              (daqmx_channels_have_scalers segs false st h Hrun Hh)
              (channel_paths_distinct_ser _ h Hh Hcanon)) as (recv0 & H0 & Hin0 & _).
  rewrite H0. cbn [bind].
  pose proof (sm_segment_positions segs false st Hrun) as Hat.
  destruct (eager_loop_content_z (ser_file segs) segs (rs_segments st) chunkss [] recv0 Hwf eq_refl Hat Hcon)
    as (recv & Hfold & Hlk).
  - intros g kv Hg Hkv.
    exact (entry_origin_fits segs st h recv0 g kv Hrun Hh Hcanon Hshape Hin0 Hg Hkv).
  - exists recv. split; [exact Hfold|]. intros c Hc.
    rewrite Hlk, (Hin0 c Hc). cbn [option_map]. rewrite radd2_recv_init2. reflexivity.
Qed.

(* len(channel) is the number of values read *)
Lemma seg_content_z_count_typed g s cs pos p :
  seg_at pos s g -> seg_content_z g s cs -> typed_view p g ->
  Z.of_nat (length (chan_values p cs)) = seg_total p g.
Proof.
  intros (_ & _ & _ & _ & _ & Hcc) [cs0 Henc|Hok] Hview.
  - exact (seg_encodes_z_count g (fs_data s) cs0 p Henc Hcc).
  - exact (daqmx_seg_count_typed g (fs_data s) p Hok Hcc Hview).
Qed.

Lemma seg_content_z_count_raw g s cs pos p id :
  seg_at pos s g -> seg_content_z g s cs -> raw_view p id g ->
  Z.of_nat (length (chan_scaler_values p id cs)) = seg_total p g.
Proof.
  intros (_ & _ & _ & _ & _ & Hcc) [cs0 Henc|Hok] Hview.
  - rewrite <- (seg_encodes_z_count g (fs_data s) cs0 p Henc Hcc).
    pose proof (seg_encodes_z_only_cdata g _ cs0 Henc) as Hcd.
    rewrite Forall_forall in Hcd.
    unfold chan_scaler_values, chan_values.
    rewrite (flat_map_all_nil (chunk_scaler_values p id))
      by (intros c Hc; apply only_cdata_scaler_values; exact (Hcd c Hc)).
    rewrite (flat_map_all_nil (chunk_values p)); [reflexivity|].
    intros c Hc. apply chunk_values_not_in. intros Hin. apply in_map_iff in Hin.
    destruct Hin as (kv & Hk & Hkv).
    destruct (seg_encodes_z_keys_data g _ cs0 Henc c kv Hc Hkv) as (o & Ho & Hp & Hty).
    destruct (Hview o Ho (eq_trans Hp Hk) Hty) as (_ & q & Hq & _).
    rewrite (seg_encodes_z_no_daqmx g _ cs0 Henc o Ho) in Hq. discriminate.
  - exact (daqmx_seg_count_raw g (fs_data s) p id Hok Hcc Hview).
Qed.

Lemma segs_content_z_total_typed p : forall gs segs chunkss pos,
    segs_at pos segs gs -> segs_content_z gs segs chunkss ->
    (forall g, In g gs -> typed_view p g) ->
    zsum (map (seg_total p) gs) = Z.of_nat (length (chan_values p (concat chunkss))).
Proof.
  induction gs as [|g gs IH]; intros segs chunkss pos Hat Hcon Hview.
  - inversion Hcon; subst. reflexivity.
  - inversion Hcon as [|g' gs' s r cs css Hcs Hcon']; subst.
    inversion Hat as [|pos' s' r' g' gs' Hg Hat']; subst.
    cbn [map zsum fold_right concat]. rewrite chan_values_app, app_length, Nat2Z.inj_add.
    fold (zsum (map (seg_total p) gs)).
    rewrite (IH r css _ Hat' Hcon') by (intros g0 Hg0; apply Hview; right; exact Hg0).
    rewrite (seg_content_z_count_typed g s cs pos p Hg Hcs (Hview g (or_introl eq_refl))). reflexivity.
Qed.

Lemma segs_content_z_total_raw p id : forall gs segs chunkss pos,
    segs_at pos segs gs -> segs_content_z gs segs chunkss ->
    (forall g, In g gs -> raw_view p id g) ->
    zsum (map (seg_total p) gs) = Z.of_nat (length (chan_scaler_values p id (concat chunkss))).
Proof.
  induction gs as [|g gs IH]; intros segs chunkss pos Hat Hcon Hview.
  - inversion Hcon; subst. reflexivity.
  - inversion Hcon as [|g' gs' s r cs css Hcs Hcon']; subst.
    inversion Hat as [|pos' s' r' g' gs' Hg Hat']; subst.
    cbn [map zsum fold_right concat]. rewrite chan_scaler_values_app, app_length, Nat2Z.inj_add.
    fold (zsum (map (seg_total p) gs)).
    rewrite (IH r css _ Hat' Hcon') by (intros g0 Hg0; apply Hview; right; exact Hg0).
    rewrite (seg_content_z_count_raw g s cs pos p id Hg Hcs (Hview g (or_introl eq_refl))). reflexivity.
Qed.

(* the views of a channel path over all segments, from what the metadata pass records *)
Lemma channel_views segs w st h c :
  sm_run segs w = Ok st ->
  build_hierarchy (rs_om st) = Ok h ->
  om_paths_canonical (rs_om st) ->
  In c (all_channels h) ->
  ch_len c = zsum (map (seg_total (ch_path c)) (rs_segments st)) /\
  (forall dt, ch_dtype c = Some dt -> dt <> T_DAQMX ->
              forall g, In g (rs_segments st) -> typed_view (ch_path c) g) /\
  (forall sts id, ch_dtype c = Some T_DAQMX -> ch_scalers c = Some sts -> In id (map fst sts) ->
                  forall g, In g (rs_segments st) -> raw_view (ch_path c) id g).
Proof.
  intros Hrun Hh Hcanon Hc.
  destruct (chan_from_om_canonical2 _ c Hcanon (build_hierarchy_channels _ _ Hh c Hc))
    as (m & Hin & Hdt & Hlen & Hsc).
  destruct (sm_run_trace segs w st Hrun) as (Hat & Hlens & Hnd & _).
  pose proof (alookup_in_nodup _ m (rs_om st) Hnd Hin) as Hlk.
  assert (Hsub : forall g o, In o (data_objs (sg_objs g)) -> In o (sg_objs g)).
  { intros g o Ho. unfold data_objs in Ho. apply filter_In in Ho. tauto. }
  assert (Htr : forall g o, In g (rs_segments st) -> In o (data_objs (sg_objs g)) ->
                            so_path o = ch_path c -> mtracks m o).
  { intros g o Hg Ho Hp. destruct (sm_run_tracks segs w st Hrun g o Hg (Hsub g o Ho)) as (m' & Hm' & Ht).
    rewrite Hp, Hlk in Hm'. injection Hm' as <-. exact Ht. }
  split; [|split].
  - rewrite Hlen, <- Hlens. unfold get_ometa. rewrite Hlk. reflexivity.
  - intros dt Edt Hne g Hg o Ho Hp Eo. pose proof (Htr g o Hg Ho Hp) as [Ht1 _].
    pose proof (Ht1 _ Eo) as Hm. rewrite <- Hdt, Edt in Hm. injection Hm as ->. apply Hne. reflexivity.
  - intros sts id Edt Est Hid g Hg o Ho Hp Hty. pose proof (Htr g o Hg Ho Hp) as [Ht1 Ht2].
    destruct (so_dtype o) as [dt'|] eqn:Eo; [|contradiction].
    pose proof (Ht1 dt' eq_refl) as Hm. rewrite <- Hdt, Edt in Hm. injection Hm as <-.
    split; [reflexivity|].
    destruct (sm_run_dq segs w st Hrun g o Hg (Hsub g o Ho)) as [Hdq _].
    destruct (so_daqmx o) as [q|] eqn:Hq; [|exfalso; apply (Hdq Eo); reflexivity].
    exists q. split; [reflexivity|].
    destruct (Ht2 q eq_refl) as (sts' & Hsts' & _ & Heq).
    rewrite <- Hsc, Est in Hsts'. injection Hsts' as <-.
    apply scaler_types_keys. apply (st_equiv_keys _ _ _ Heq). exact Hid.
Qed.

Theorem lengths_consistent_content_z segs w st h chunkss :
  sm_run segs w = Ok st ->
  build_hierarchy (rs_om st) = Ok h ->
  segs_content_z (rs_segments st) segs chunkss ->
  om_paths_canonical (rs_om st) ->
  forall c, In c (all_channels h) ->
            cdata_consistent (ch_len c) (expected_data_dq (concat chunkss) c) = true.
Proof.
  intros Hrun Hh Hcon Hcanon c Hc.
  destruct (channel_views segs w st h c Hrun Hh Hcanon Hc) as (Hlen & Hty & Hraw).
  pose proof (sm_segment_positions segs w st Hrun) as Hat.
  unfold expected_data_dq. destruct (ch_dtype c) as [dt|] eqn:Edt; [|reflexivity].
  destruct (dt =? T_DAQMX) eqn:Edq.
  - assert (dt = T_DAQMX) by lia. subst dt.
    destruct (ch_scalers c) as [sts|] eqn:Est; [|reflexivity].
    cbn [cdata_consistent]. apply forallb_forall. intros iv Hiv. apply in_map_iff in Hiv.
    destruct Hiv as (kv & <- & Hkv). cbn [snd fst]. apply Z.eqb_eq. rewrite Hlen. symmetry.
    apply (segs_content_z_total_raw (ch_path c) (fst kv) _ segs chunkss 0 Hat Hcon).
    apply (Hraw sts (fst kv) eq_refl eq_refl). apply in_map. exact Hkv.
  - cbn [cdata_consistent]. apply Z.eqb_eq. rewrite Hlen. symmetry.
    apply (segs_content_z_total_typed (ch_path c) _ segs chunkss 0 Hat Hcon).
    apply (Hty dt eq_refl). lia.
Qed.

Theorem read_correct_daqmx_z segs st h chunkss :
  wf_file segs ->
  sm_run segs false = Ok st ->
  build_hierarchy (rs_om st) = Ok h ->
  segs_content_z (rs_segments st) segs chunkss ->
  om_paths_canonical (rs_om st) ->
  typed_objects_are_channels (rs_om st) ->
  rd_all (ser_file segs) = Ok (expected_tokens_dq st h (concat chunkss), true).
Proof.
  intros Hwf Hrun Hh Hcon Hcanon Hshape.
  unfold rd_all, rd_all_from.
  rewrite (rd_metadata_ser segs false Hwf), Hrun. cbn [bind]. rewrite Hh. cbn [bind].
  destruct (rd_eager_content_z segs st h chunkss Hwf Hrun Hh Hcon Hcanon Hshape) as (recv & Heager & Hlk).
  rewrite Heager. cbn [bind]. unfold expected_tokens_dq. f_equal. f_equal.
  - f_equal. f_equal. apply obs_hierarchy_ext. intros c Hc. rewrite (Hlk c Hc). reflexivity.
  - apply forallb_forall. intros c Hc. rewrite (Hlk c Hc).
    exact (lengths_consistent_content_z segs false st h chunkss Hrun Hh Hcon Hcanon c Hc).
Qed.
