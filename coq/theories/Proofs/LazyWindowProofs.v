(* C04 / C19: the loop of read_raw_data_for_channel (repaired), by induction over
   the segments it visits; then the top-level theorems. *)
From Coq Require Import ZArith List Bool Lia ZifyBool.
From NpTdms Require Import Base.Res Base.PySlice Gen.PySlice_gen Model.LazyRead
     Proofs.LazyReadLemmas Proofs.LazyIndexProofs Proofs.LazyReadProofs.
Import ListNotations.
Open Scope Z_scope.

Section Window.
  Variable V : Type.
  Variable zero : V.
  Notation segv := (segv V).
  Notation nv := (number_of_segment_values V).
  Notation pre := (pre V).

  Lemma full_app : forall a b, full V (a ++ b) = full V a ++ full V b.
  Proof. intros. unfold full. rewrite map_app, concat_app. reflexivity. Qed.

  Lemma full_cons : forall sv r, full V (sv :: r) = seg_vals V sv ++ full V r.
  Proof. reflexivity. Qed.

  (* chunk c of segment j (holding the channel) meets the window *)
  Definition hit (segs : list segv) (offset end_index j : Z) (sv : segv) (c : Z) : Prop :=
    sv_chunk sv <> 0 /\ 0 <= c < sv_nchunks sv /\
    chunk_start V (pre segs j) sv c < end_index /\ offset < chunk_end V (pre segs j) sv c.

  (* what the two binary searches establish *)
  Record win_ctx (segs : list segv) (f : Z) (offs : list Z) (s e offset L end_index : Z) : Prop := {
    wc_ix : index_ok V segs f offs;
    wc_L : 0 <= L;
    wc_end : end_index = offset + L;
    wc_fs : f <= s;
    wc_se : s <= e;
    wc_em : e < f + zlen offs;
    wc_s1 : pre segs s <= offset;
    wc_s2 : offset < pre segs (s + 1);
    wc_e1 : end_index <= pre segs (e + 1);
    wc_e2 : forall i, f <= i -> i < e -> pre segs (i + 1) < end_index
  }.

  Lemma lz_loop_spec : forall segs f offs s e offset L end_index,
    wf V segs = true -> win_ctx segs f offs s e offset L end_index ->
    forall rest pre_l post, segs = pre_l ++ rest ++ post ->
    s <= zlen pre_l -> zlen pre_l + zlen rest = e + 1 ->
    forall vr, (rest <> [] -> vr = (if zlen pre_l =? s then 0 else pre segs (zlen pre_l) - offset)) ->
    exists outs log,
      lz_loop V true true f offs s e offset L end_index rest (zlen pre_l) (zlen pre_l) vr = Ok (outs, log) /\
      concat outs = sl (Z.max (pre segs (zlen pre_l)) offset) end_index (full V segs) /\
      (forall j c, In (j, c) log <->
         exists k sv, nth_error rest k = Some sv /\ j = zlen pre_l + Z.of_nat k /\
                      hit segs offset end_index j sv c).
  Proof.
    intros segs f offs s e offset L end_index Hwf Hctx.
    destruct Hctx as [Hix HL Hend Hfs Hse Hem Hs1 Hs2 He1 He2].
    pose proof (ix_f0 V _ _ _ Hix) as Hf0.
    induction rest as [|sv rest' IH]; intros pre_l post Hsegs Hi1 Hi2 vr Hvr.
    - (* nothing left *)
      exists [], []. split; [reflexivity|]. split.
      + cbn [concat]. symmetry. apply sl_nil_ge. rewrite zlen_nil in Hi2.
        replace (zlen pre_l) with (e + 1) by lia. lia.
      + intros j c. split; [intros []|]. intros (k & sv & Hk & _). destruct k; discriminate.
    - set (i := zlen pre_l) in *.
      rewrite zlen_cons in Hi2. pose proof (zlen_nonneg rest') as Hr'.
      assert (Hie : i <= e) by lia.
      assert (HS : pre segs i = total_values V pre_l) by (rewrite Hsegs; apply pre_app).
      assert (HE : pre segs (i + 1) = pre segs i + nv sv).
      { rewrite HS. rewrite Hsegs. cbn [app]. apply pre_app_succ. }
      assert (Hwfsv : wf_seg V sv = true).
      { eapply wf_In; [exact Hwf|]. rewrite Hsegs. apply in_or_app. right. left. reflexivity. }
      assert (Hfull : full V segs = full V pre_l ++ seg_vals V sv ++ full V (rest' ++ post)).
      { rewrite Hsegs. rewrite full_app. cbn [app]. rewrite full_cons. reflexivity. }
      assert (Hwfpre : wf V pre_l = true).
      { rewrite Hsegs in Hwf. apply wf_app in Hwf. apply Hwf. }
      assert (Hprelen : zlen (full V pre_l) = pre segs i) by (rewrite HS; apply zlen_full; exact Hwfpre).
      assert (Hseglen : zlen (seg_vals V sv) = nv sv) by (apply (wf_seg_total V sv Hwfsv)).
      assert (Hnvnn : 0 <= nv sv) by (apply nv_nonneg; exact Hwfsv).
      (* the recursive call, on the next decomposition *)
      assert (Hsegs' : segs = (pre_l ++ [sv]) ++ rest' ++ post) by (rewrite Hsegs, <- app_assoc; reflexivity).
      assert (Hlen' : zlen (pre_l ++ [sv]) = i + 1) by (rewrite zlen_app; reflexivity).
      specialize (IH (pre_l ++ [sv]) post Hsegs'). rewrite Hlen' in IH.
      specialize (IH ltac:(lia) ltac:(lia)).
      (* monotonicity facts *)
      assert (Hgt : s < i -> offset < pre segs i).
      { intros Hlt. pose proof (pre_mono V segs (s + 1) i Hwf ltac:(lia) ltac:(lia)). lia. }
      assert (HleE : i < e -> pre segs (i + 1) < end_index) by (intros; apply He2; lia).
      assert (HSend : s < i -> pre segs i < end_index).
      { intros Hlt. replace i with ((i - 1) + 1) by lia. apply He2; lia. }
      (* how the log of the tail is shifted *)
      assert (Hshift : forall (log' : list (Z * Z)) (here : list (Z * Z)),
                 (forall j c, In (j, c) log' <->
                    exists k sv0, nth_error rest' k = Some sv0 /\ j = i + 1 + Z.of_nat k /\
                                  hit segs offset end_index j sv0 c) ->
                 (forall j c, In (j, c) here <-> j = i /\ hit segs offset end_index i sv c) ->
                 forall j c, In (j, c) (here ++ log') <->
                    exists k sv0, nth_error (sv :: rest') k = Some sv0 /\ j = i + Z.of_nat k /\
                                  hit segs offset end_index j sv0 c).
      { intros log' here Hlog' Hhere j c. rewrite in_app_iff. split.
        - intros [Hin|Hin].
          + apply Hhere in Hin. destruct Hin as [-> Hhit]. exists O, sv. split; [reflexivity|].
            split; [lia|exact Hhit].
          + apply Hlog' in Hin. destruct Hin as (k & sv0 & Hk & Hj & Hhit).
            exists (S k), sv0. split; [exact Hk|]. split; [lia|exact Hhit].
        - intros (k & sv0 & Hk & Hj & Hhit). destruct k as [|k].
          + left. cbn in Hk. injection Hk as <-. apply Hhere. split; [lia|].
            replace j with i in Hhit by lia. exact Hhit.
          + right. apply Hlog'. exists k, sv0. split; [exact Hk|]. split; [lia|exact Hhit]. }
      cbn [lz_loop]. destruct (sv_chunk sv =? 0) eqn:Ecs.
      + (* the channel has no data object here: continue (index kept in step) *)
        assert (Hnv0 : nv sv = 0) by (unfold number_of_segment_values; rewrite Ecs; reflexivity).
        assert (Hne : i <> s) by (intros ->; lia).
        destruct (IH vr) as (outs & log & Hloop & Hcat & Hlog).
        { intros _. rewrite Hvr by discriminate. replace (i =? s) with false by lia.
          replace (i + 1 =? s) with false by lia. lia. }
        exists outs, log. split; [exact Hloop|]. split.
        * rewrite Hcat. rewrite HE, Hnv0, Z.add_0_r. reflexivity.
        * apply (Hshift log []); [exact Hlog|].
          intros j c. split; [intros []|]. intros [_ (Hcs & _)]. lia.
      + (* a segment with data for the channel *)
        pose proof (lookup_start V segs f offs i Hix ltac:(lia) ltac:(lia)) as Hlk1.
        assert (Hlk2 : (i =? e) = true -> py_index offs (i - f) = Ok (pre segs (i + 1))).
        { intros _. apply (lookup_end V); [exact Hix | lia | lia]. }
        rewrite (seg_chunk_range_pure V f offs s e offset end_index i sv _ _ Hlk1 Hlk2).
        destruct (range_pure (sv_chunk sv) (sv_nchunks sv) (final_len V sv) (pre segs i) (pre segs (i + 1))
                             offset end_index (i =? s) (i =? e)) as [[co nc] r] eqn:Hrp.
        cbn [bind].
        assert (Hvr0 : vr = (if i =? s then 0 else pre segs i - offset)) by (apply Hvr; discriminate).
        destruct (seg_step_spec V sv (pre segs i) (pre segs (i + 1)) offset L end_index (i =? s) (i =? e)
                                co nc r vr Hwfsv ltac:(lia) HE HL Hend) as
            (objs & outs1 & vr' & Hfetch & Hemit & Hcat1 & Hvr' & Hrange & Hexact); try exact Hrp; try exact Hvr0.
        { intros Hst. assert (Hiseq : i = s) by lia. rewrite Hiseq. lia. }
        { intros Hst. assert (s < i) by lia. split; [apply Hgt; lia|]. pose proof (HSend H). lia. }
        { intros Hen. assert (i = e) by lia. rewrite H. exact He1. }
        { intros Hen. apply HleE. lia. }
        rewrite Hfetch. cbn [bind]. rewrite Hemit.
        destruct (IH vr') as (outs2 & log2 & Hloop & Hcat2 & Hlog2).
        { intros Hne. assert (i < e) by (destruct rest'; [congruence|]; rewrite zlen_cons in Hi2;
                                         pose proof (zlen_nonneg rest'); lia).
          rewrite Hvr' by lia. replace (i + 1 =? s) with false by lia. reflexivity. }
        rewrite Hloop. cbn [bind].
        eexists _, _. split; [reflexivity|]. split.
        * rewrite concat_app. rewrite Hcat1, Hcat2.
          (* local window of this segment, in global coordinates *)
          assert (Hloc : sl (Z.max (pre segs i) offset - pre segs i) (Z.min (pre segs (i + 1)) end_index - pre segs i)
                            (seg_vals V sv) =
                         sl (Z.max (pre segs i) offset) (Z.min (pre segs (i + 1)) end_index) (full V segs)).
          { rewrite Hfull. symmetry. rewrite <- Hprelen. apply sl_middle; rewrite ?Hprelen, ?Hseglen; lia. }
          rewrite Hloc.
          destruct (Z.eq_dec i e) as [Hieq|Hineq].
          -- (* last segment of the window *)
             replace (Z.min (pre segs (i + 1)) end_index) with end_index by (rewrite Hieq; lia).
             rewrite (sl_nil_ge (Z.max (pre segs (i + 1)) offset)) by (rewrite Hieq; lia).
             apply app_nil_r.
          -- assert (Hlt : pre segs (i + 1) < end_index) by (apply HleE; lia).
             assert (Hoff : offset < pre segs (i + 1)).
             { pose proof (pre_mono V segs (s + 1) (i + 1) Hwf ltac:(lia) ltac:(lia)). lia. }
             replace (Z.min (pre segs (i + 1)) end_index) with (pre segs (i + 1)) by lia.
             replace (Z.max (pre segs (i + 1)) offset) with (pre segs (i + 1)) by lia.
             apply sl_app_adj; try lia.
             pose proof (ix_f0 V _ _ _ Hix).
             pose proof (pre_mono V segs 0 i Hwf ltac:(lia) ltac:(lia)) as Hp0.
             unfold LazyReadProofs.pre in Hp0 at 1. rewrite psum_0 in Hp0 by lia. lia.
        * apply (Hshift log2); [exact Hlog2|].
          intros j c. rewrite in_map_iff. split.
          -- intros (c0 & Heq & Hin). injection Heq as <- <-. apply zrange_In in Hin.
             split; [reflexivity|].
             unfold hit, chunk_start, chunk_end. split; [lia|]. split; [lia|].
             apply Hexact; lia.
          -- intros [-> (Hcs & Hc & Hst & Hen)]. exists c. split; [reflexivity|].
             apply zrange_In. unfold chunk_start, chunk_end in *.
             assert (co <= c < co + nc) by (apply Hexact; [lia|split; assumption]). lia.
  Qed.

  (* ---- the whole generator ---------------------------------------------- *)

  Lemma split3 : forall {A} (l : list A) a b, 0 <= a -> a <= b ->
    l = zfirstn a l ++ sl a b l ++ zskipn b l.
  Proof.
    intros A l a b Ha Hab. rewrite app_assoc. rewrite <- (zfirstn_app_sl a b) by lia.
    symmetry. apply zfirstn_zskipn.
  Qed.

  Lemma nth_error_split3 : forall (segs : list segv) j sv, 0 <= j ->
    nth_error segs (Z.to_nat j) = Some sv ->
    exists l1 l2, segs = l1 ++ sv :: l2 /\ zlen l1 = j.
  Proof.
    intros segs j sv Hj H. apply nth_error_split in H. destruct H as (l1 & l2 & Heq & Hlen).
    exists l1, l2. split; [exact Heq|]. unfold zlen. lia.
  Qed.

  Lemma pre_succ_nth : forall segs j sv, 0 <= j -> nth_error segs (Z.to_nat j) = Some sv ->
    pre segs (j + 1) = pre segs j + nv sv.
  Proof.
    intros segs j sv Hj H. destruct (nth_error_split3 segs j sv Hj H) as (l1 & l2 & -> & <-).
    rewrite pre_app_succ, pre_app. reflexivity.
  Qed.

  Lemma chunk_in_segment : forall segs j sv c, wf V segs = true -> 0 <= j ->
    nth_error segs (Z.to_nat j) = Some sv -> 0 <= c ->
    pre segs j <= chunk_start V (pre segs j) sv c /\ chunk_end V (pre segs j) sv c <= pre segs (j + 1).
  Proof.
    intros segs j sv c Hwf Hj Hnth Hc.
    rewrite (pre_succ_nth segs j sv Hj Hnth).
    assert (Hsv : wf_seg V sv = true) by (eapply wf_In; [exact Hwf | eapply nth_error_In; exact Hnth]).
    destruct (wf_seg_facts V sv Hsv) as (Hcs & _).
    unfold chunk_start, chunk_end. nia.
  Qed.

  (* the end of the window the generator computes *)
  Definition win_end (n offset : Z) (length : option Z) : Z :=
    match length with None => Z.max offset n | Some l => Z.max offset (Z.min (offset + l) n) end.

  Definition window (segs : list segv) (offset : Z) (length : option Z) : list V :=
    match length with
    | None => zskipn offset (full V segs)
    | Some l => zfirstn l (zskipn offset (full V segs))
    end.

  Theorem lz_gen_spec : forall segs offset length,
    wf V segs = true -> 0 <= offset -> (match length with None => True | Some l => 0 <= l end) ->
    exists outs log,
      lz_gen V true true segs offset length = Ok (outs, log) /\
      concat outs = window segs offset length /\
      (forall j c, In (j, c) log <->
         exists sv, 0 <= j /\ nth_error segs (Z.to_nat j) = Some sv /\
                    hit segs offset (win_end (total_values V segs) offset length) j sv c).
  Proof.
    intros segs offset length Hwf Hoff Hlen.
    unfold lz_gen. destruct (build_index V segs) as [f offs] eqn:Hbi.
    pose proof (build_index_ok V segs f offs Hwf Hbi) as Hix.
    set (n := total_values V segs).
    set (Lpy := match length with None => n - offset | Some l => Z.min l (n - offset) end).
    set (end_index := offset + Lpy).
    set (m := zlen offs).
    pose proof (ix_f0 V _ _ _ Hix) as Hf0. pose proof (ix_fm V _ _ _ Hix) as Hfm. fold m in Hfm.
    pose proof (ix_sorted V _ _ _ Hix) as Hsorted.
    pose proof (ss_right_bounds offs offset) as Hb1. fold m in Hb1.
    pose proof (ss_left_bounds offs end_index) as Hb2. fold m in Hb2.
    pose proof (zlen_nonneg segs) as Hsegs0.
    assert (Hfulllen : zlen (full V segs) = n) by (apply zlen_full; exact Hwf).
    assert (Hnth : forall k, 0 <= k -> k < m -> nth_error offs (Z.to_nat k) = Some (pre segs (f + k + 1))).
    { intros k Hk1 Hk2. apply (ix_nth V _ _ _ Hix); fold m; lia. }
    assert (Hlast : 0 < m -> pre segs (f + m) = n) by (intros _; apply (ix_pre_last V _ _ _ Hix)).
    assert (Hpren : forall k, 0 <= k -> pre segs k <= n) by (intros; apply pre_le_total; assumption).
    set (ssr := searchsorted_right offs offset) in *.
    set (ssl := searchsorted_left offs end_index) in *.
    assert (Hwe : win_end n offset length = Z.max offset end_index).
    { unfold win_end, end_index, Lpy. destruct length as [l|]; lia. }
    rewrite Hwe.
    (* entries of the index versus the two searches *)
    assert (Hr : forall k, 0 <= k -> k < m -> (pre segs (f + k + 1) <= offset <-> k < ssr)).
    { intros k Hk1 Hk2. apply (ss_right_spec offs offset k _ Hsorted Hk1 (Hnth k Hk1 Hk2)). }
    assert (Hl : forall k, 0 <= k -> k < m -> (pre segs (f + k + 1) < end_index <-> k < ssl)).
    { intros k Hk1 Hk2. apply (ss_left_spec offs end_index k _ Hsorted Hk1 (Hnth k Hk1 Hk2)). }
    destruct (Z_le_gt_dec n offset) as [Hbeyond|Hinside].
    - (* the window starts at or after the end of the data: nothing is visited *)
      assert (Hend_n : end_index = n \/ (end_index <= n)) by (unfold end_index, Lpy; destruct length; lia).
      assert (Hempty : py_slice segs (f + ssr) (f + ssl + 1) = []).
      { rewrite (py_slice_nonneg segs (f + ssr) (f + ssl + 1)) by lia.
        destruct (Z.eq_dec m 0) as [Hm0|Hm0].
        - assert (f = zlen segs) by (apply (ix_none V _ _ _ Hix); fold m; lia).
          apply sl_beyond. lia.
        - apply sl_nil_ge.
          assert (ssr = m).
          { assert (m - 1 < ssr); [|lia]. apply Hr; try lia.
            replace (f + (m - 1) + 1) with (f + m) by lia. rewrite Hlast by lia. lia. }
          assert (ssl <= m - 1).
          { destruct (Z_le_gt_dec ssl (m - 1)); [assumption|]. exfalso.
            assert (pre segs (f + (m - 1) + 1) < end_index) by (apply Hl; lia).
            replace (f + (m - 1) + 1) with (f + m) in H0 by lia. rewrite Hlast in H0 by lia.
            unfold end_index, Lpy in H0. destruct length; lia. }
          lia. }
      rewrite Hempty. cbn [lz_loop]. exists [], []. split; [reflexivity|]. split.
      + cbn [concat]. unfold window. destruct length; rewrite zskipn_all by lia; [|reflexivity].
        unfold zfirstn. rewrite firstn_nil. reflexivity.
      + intros j c. split; [intros []|]. intros (sv & Hj & Hnthj & (Hcs & Hc & Hst & Hen)).
        destruct (chunk_in_segment segs j sv c Hwf Hj Hnthj ltac:(lia)) as [H1 H2].
        pose proof (Hpren (j + 1) ltac:(lia)). lia.
    - (* the window starts inside the data *)
      assert (Hm : 0 < m).
      { destruct (Z.eq_dec m 0) as [Hm0|]; [|lia]. exfalso.
        pose proof (ix_pre_f V _ _ _ Hix) as H0. pose proof (ix_pre_last V _ _ _ Hix) as H1.
        fold m in H1. rewrite Hm0, Z.add_0_r in H1. fold n in H1. lia. }
      assert (HLpy : 0 <= Lpy) by (unfold Lpy; destruct length; lia).
      assert (Hendn : end_index <= n) by (unfold end_index, Lpy; destruct length; lia).
      replace (Z.max offset end_index) with end_index by lia.
      assert (Hssr : ssr < m).
      { destruct (Z_le_gt_dec m ssr); [|lia]. exfalso.
        assert (pre segs (f + (m - 1) + 1) <= offset) by (apply Hr; lia).
        replace (f + (m - 1) + 1) with (f + m) in H by lia. rewrite Hlast in H by lia. lia. }
      assert (Hssl : ssl <= m - 1).
      { destruct (Z_le_gt_dec ssl (m - 1)); [assumption|]. exfalso.
        assert (pre segs (f + (m - 1) + 1) < end_index) by (apply Hl; lia).
        replace (f + (m - 1) + 1) with (f + m) in H by lia. rewrite Hlast in H by lia. lia. }
      set (s := f + ssr). set (e := f + ssl).
      assert (Hs1 : pre segs s <= offset).
      { destruct (Z.eq_dec ssr 0) as [Hz|Hz].
        - unfold s. rewrite Hz, Z.add_0_r. rewrite (ix_pre_f V _ _ _ Hix). lia.
        - replace s with (f + (ssr - 1) + 1) by (unfold s; lia). apply Hr; lia. }
      assert (Hs2 : offset < pre segs (s + 1)).
      { destruct (Z_lt_le_dec offset (pre segs (s + 1))); [assumption|]. exfalso.
        assert (ssr < ssr); [|lia]. apply Hr; try lia. exact l. }
      assert (He1 : end_index <= pre segs (e + 1)).
      { destruct (Z_le_gt_dec end_index (pre segs (e + 1))); [assumption|]. exfalso.
        assert (ssl < ssl); [|lia]. apply Hl; try lia. unfold e in g. lia. }
      assert (He2 : forall i, f <= i -> i < e -> pre segs (i + 1) < end_index).
      { intros i Hi1 Hi2. replace (i + 1) with (f + (i - f) + 1) by lia. apply Hl; unfold e in *; lia. }
      rewrite (py_slice_nonneg segs s (e + 1)) by (unfold s, e; lia).
      destruct (Z_le_gt_dec s e) as [Hse|Hes].
      + (* at least one segment is visited *)
        assert (Hctx : win_ctx segs f offs s e offset Lpy end_index).
        { constructor; try assumption; try reflexivity; unfold s, e in *; fold m; lia. }
        pose proof (lz_loop_spec segs f offs s e offset Lpy end_index Hwf Hctx
                      (sl s (e + 1) segs) (zfirstn s segs) (zskipn (e + 1) segs)
                      (split3 segs s (e + 1) ltac:(unfold s; lia) ltac:(lia))) as Hloop.
        assert (Hzs : zlen (zfirstn s segs) = s) by (rewrite zlen_zfirstn by (unfold s; lia); unfold s, e in *; lia).
        rewrite Hzs in Hloop.
        specialize (Hloop ltac:(lia)).
        assert (Hzr : zlen (sl s (e + 1) segs) = e + 1 - s) by (rewrite zlen_sl by (unfold s; lia); unfold s, e in *; lia).
        rewrite Hzr in Hloop. specialize (Hloop ltac:(lia) 0).
        destruct Hloop as (outs & log & Hrun & Hcat & Hlog).
        { intros _. replace (s =? s) with true by lia. reflexivity. }
        exists outs, log. split; [exact Hrun|]. split.
        * rewrite Hcat. replace (Z.max (pre segs s) offset) with offset by lia.
          unfold window, sl, end_index, Lpy. destruct length as [l|].
          -- replace (offset + Z.min l (n - offset) - offset) with (Z.min l (n - offset)) by lia.
             destruct (Z_le_gt_dec l (n - offset)).
             ++ f_equal. lia.
             ++ rewrite !zfirstn_all; [reflexivity | |]; rewrite zlen_zskipn by lia; lia.
          -- apply zfirstn_all. rewrite zlen_zskipn by lia. lia.
        * intros j c. rewrite Hlog. split.
          -- intros (k & sv & Hk & Hj & Hhit). exists sv. split; [lia|]. split; [|exact Hhit].
             assert (Hklt : Z.of_nat k < e + 1 - s).
             { rewrite <- Hzr. unfold zlen. apply Nat2Z.inj_lt. apply nth_error_Some. congruence. }
             rewrite <- Hk. rewrite Hj. symmetry.
             replace k with (Z.to_nat (Z.of_nat k)) at 1 by lia.
             apply nth_error_sl; unfold s; lia.
          -- intros (sv & Hj & Hnthj & Hhit). pose proof Hhit as (Hcs & Hc & Hst & Hen).
             destruct (chunk_in_segment segs j sv c Hwf Hj Hnthj ltac:(lia)) as [H1 H2].
             assert (Hjs : s <= j).
             { destruct (Z_le_gt_dec s j); [assumption|]. exfalso.
               pose proof (pre_mono V segs (j + 1) s Hwf ltac:(lia) ltac:(lia)). lia. }
             assert (Hje : j <= e).
             { destruct (Z_le_gt_dec j e); [assumption|]. exfalso.
               pose proof (pre_mono V segs (e + 1) j Hwf ltac:(unfold e; lia) ltac:(lia)). lia. }
             exists (Z.to_nat (j - s)), sv. split; [|split; [lia|exact Hhit]].
             rewrite <- Hnthj. replace j with (s + (j - s)) at 2 by lia.
             apply nth_error_sl; unfold s in *; lia.
      + (* the empty window that starts exactly where a segment ends *)
        rewrite sl_nil_ge by lia. cbn [lz_loop]. exists [], []. split; [reflexivity|].
        assert (HB : pre segs (e + 1) <= offset /\ end_index <= pre segs (e + 1)).
        { split; [|exact He1]. replace (e + 1) with (f + ssl + 1) by (unfold e; lia).
          apply Hr; unfold s, e in *; lia. }
        assert (HL0 : Lpy = 0) by (unfold end_index in *; lia).
        split.
        * cbn [concat]. unfold window. unfold Lpy in HL0. destruct length as [l|].
          -- replace l with 0 by lia. reflexivity.
          -- symmetry. apply zskipn_all. lia.
        * intros j c. split; [intros []|]. intros (sv & Hj & Hnthj & (Hcs & Hc & Hst & Hen)).
          destruct (chunk_in_segment segs j sv c Hwf Hj Hnthj ltac:(lia)) as [H1 H2].
          destruct (Z_le_gt_dec j e).
          -- pose proof (pre_mono V segs (j + 1) (e + 1) Hwf ltac:(lia) ltac:(lia)). lia.
          -- pose proof (pre_mono V segs (e + 1) j Hwf ltac:(unfold e; lia) ltac:(lia)). lia.
  Qed.

End Window.
