(* C19, byte level: the structural invariant ranges_inv on SERIALISED files.

   For the bytes [ser_file segs] of any well-formed syntax (Model/FileSyn.v, wf_file) and the
   state the metadata pass computes from them, the positional half of ranges_inv is proved:
   the four bytes at every recorded segment position are the TDSm tag, and every chunk count
   is non-negative (R1 of Proofs/ReadCorrect.v: sm_segment_positions / seg_at).  What is left
   is the object-level half [objects_inv] -- a decidable condition on the segment objects
   (sizes and counts consistent, layout readable) that harness/c19.py evaluates, as part of
   ranges_inv, on the state of every generated file. *)
From Coq Require Import List ZArith Bool Lia ZifyBool.
From Coq Require Import Init.Byte.
Import ListNotations.
From NpTdms Require Import Base.Bytes Base.Res Model.Tokens Model.TokensWf Model.SegState Model.Layout
     Model.Reader Model.FileSyn Model.LazyRead Model.LazyBytes Model.LazyRanges
     Proofs.TokensRoundtrip Proofs.SegStateProofs Proofs.FileSynProofs Proofs.ReadCorrect.
Local Open Scope Z_scope.
Ltac Zify.zify_post_hook ::= Z.to_euclidean_division_equations.

(* the object-level half of seg_inv *)
Definition objects_inv (path : bytes) (g : segment) : bool :=
  (0 <=? chan_chunk path g) &&
  (if chan_chunk path g =? 0 then true else final_inv path g && layout_inv g).

Lemma seg_inv_split data path g :
  seg_inv data path g =
  bytes_eqb (read_at (sg_pos g) 4 data) TAG_DATA && (0 <=? sg_nchunks g) && objects_inv path g.
Proof. unfold seg_inv, objects_inv. rewrite <- !andb_assoc. reflexivity. Qed.

(* the tag of a serialised segment is where the metadata pass recorded the segment *)
Lemma tag_at_ser pre s rest g :
  wf_fseg s = true -> seg_at (blen pre) s g ->
  read_at (sg_pos g) 4 (pre ++ ser_seg TAG_DATA true s ++ rest) = TAG_DATA.
Proof.
  intros Hwf (Hpos & _). rewrite ser_seg_eq. rewrite Hpos.
  unfold ser_leadin, seg_leadin. cbn [l_tag]. rewrite <- !app_assoc. apply read_at_app_len. reflexivity.
Qed.

Lemma calculate_chunks_nonneg toc inc objs total nch fin :
  calculate_chunks toc inc objs total = Ok (nch, fin) -> 0 <= nch.
Proof.
  unfold calculate_chunks. destruct (chunk_size objs) as [csize|]; cbn [bind]; [|discriminate].
  destruct ((csize <? 0) || (total <? 0)) eqn:E1; [discriminate|].
  destruct (csize =? 0) eqn:E2.
  - destruct (negb (total =? 0)); [discriminate|]. intros H. injection H as <- _. lia.
  - destruct (total mod csize =? 0) eqn:E3.
    + intros H. injection H as <- _. apply Z.div_pos; lia.
    + destruct (final_chunk_lengths toc inc objs csize (total mod csize)); cbn [bind]; [|discriminate].
      intros H. assert (Hq : 0 <= total / csize) by (apply Z.div_pos; lia).
      assert (Hn : nch = 1 + total / csize) by congruence. rewrite Hn. apply Z.add_nonneg_nonneg; [discriminate|exact Hq].
Qed.

Lemma tags_ser : forall segs gs pre post,
  wf_file segs -> segs_at (blen pre) segs gs ->
  forall g, In g gs ->
    read_at (sg_pos g) 4 (pre ++ ser_file segs ++ post) = TAG_DATA /\ 0 <= sg_nchunks g.
Proof.
  induction segs as [|s r IH]; intros gs pre post Hwf Hat g Hg.
  - inversion Hat; subst. destruct Hg.
  - inversion Hat as [|pos s' r' g0 gs' Hg0 Hat']; subst.
    unfold wf_file in Hwf. cbn [forallb] in Hwf. apply andb_prop in Hwf. destruct Hwf as [Hs Hr].
    rewrite ser_file_cons. destruct Hg as [<-|Hg].
    + split.
      * rewrite <- app_assoc. apply (tag_at_ser pre s _ g0 Hs Hg0).
      * destruct Hg0 as (_ & _ & _ & _ & _ & Hcc). apply (calculate_chunks_nonneg _ _ _ _ _ _ Hcc).
    + specialize (IH gs' (pre ++ ser_seg TAG_DATA true s) post Hr).
      rewrite <- !app_assoc in IH. rewrite <- app_assoc. apply IH; [|exact Hg].
      rewrite blen_app. change TAG_DATA with (tag_of false). change true with (negb false).
      rewrite (blen_ser_seg false s Hs). unfold fseg_len in Hat'. exact Hat'.
Qed.

Theorem ranges_inv_ser segs w st path :
  wf_file segs -> sm_run segs w = Ok st ->
  forallb (objects_inv path) (rs_segments st) = true ->
  ranges_inv st (ser_file segs) path = true.
Proof.
  intros Hwf Hrun Hobj. unfold ranges_inv. apply forallb_forall. intros g Hg.
  rewrite forallb_forall in Hobj. rewrite seg_inv_split, (Hobj g Hg), andb_true_r.
  pose proof (sm_segment_positions segs w st Hrun) as Hat.
  destruct (tags_ser segs (rs_segments st) [] [] Hwf Hat g Hg) as [Htag Hn].
  cbn [app] in Htag. rewrite app_nil_r in Htag. rewrite Htag.
  change (bytes_eqb TAG_DATA TAG_DATA) with true. cbn [andb]. lia.
Qed.

(* the state TdmsFile.open builds from the bytes of a serialised file *)
Theorem open_state_ser segs : wf_file segs -> open_state (ser_file segs) = sm_run segs true.
Proof. intros Hwf. unfold open_state. apply rd_metadata_ser. exact Hwf. Qed.

(* on the two-segment file of Proofs/FileSynProofs.v (metadata + raw data, then a segment
   without metadata) the object-level half holds as well *)
Lemma ex_file_objects_inv :
  match sm_run ex_file true with
  | Ok st => forallb (fun p => forallb (objects_inv p) (rs_segments st))
                     (map so_path (flat_map sg_objs (rs_segments st))) = true /\
             (exists p, In p (map so_path (flat_map sg_objs (rs_segments st))))
  | Err _ => False
  end.
Proof. vm_compute. split; [reflexivity|]. eexists. left. reflexivity. Qed.

(* ---- ranges_inv is sufficient, not necessary ---------------------------------------------
   Segment 0 lists the group object /'g'/'x' without data and the int32 channel /'g'/'c' (two
   values per chunk); segment 1 switches /'g'/'x' on with a "matches previous" index.  The file
   is well formed and the metadata pass accepts it, but /'g'/'x' is then a data object without a
   data type (0 values, 0 bytes), which obj_inv excludes: ranges_inv fails for the channel,
   although the model -- and nptdms, see the header of Props/C19_bytes.v -- read the channel
   lazily without touching anything but its own bytes. *)
Import String.
Local Open Scope string_scope.

Definition odd_file : list fseg :=
  [ mkFseg 14 4713
      (Some [ mkEntry (hex "2f2767272f277827") INoData [];
              mkEntry (hex "2f2767272f276327") (IFull 20 3 1 2 None) [] ])
      (hex "0100000002000000");
    mkFseg 10 4713
      (Some [ mkEntry (hex "2f2767272f277827") IMatchPrev [] ])
      (hex "0300000004000000") ].

Definition odd_path : bytes := hex "2f2767272f276327".

Lemma odd_file_facts :
  wf_file odd_file /\
  match sm_run odd_file true with
  | Ok st =>
    ranges_inv st (ser_file odd_file) odd_path = false /\
    forallb (objects_inv odd_path) (rs_segments st) = false /\
    lz_ranges st (ser_file odd_file) odd_path 0 None
    = Ok [(0, 4); (88, 8); (96, 0); (96, 4); (148, 8); (156, 0)]
  | Err _ => False
  end.
Proof. split; [unfold wf_file|]; vm_compute; repeat split; reflexivity. Qed.
