(* Refinement of the reader model to Model/Spec.v — paths, properties, hierarchy.

   1. [canonical_path_from_string]: a canonical path is understood by the model's
      scanner (ObjectPath.from_string) exactly as by the specification's parser.
   2. [props_tokens_obs]: property tokens coincide.
   3. [hierarchy_refines]: the hierarchy the model builds from per-object metadata
      matching the specification's content shows exactly the specification's
      hierarchy (groups declared first, then implied ones; channels per group in
      order of first appearance). *)
From Coq Require Import List ZArith Bool Lia.
From Coq Require Import Init.Byte.
Import ListNotations.
From NpTdms Require Import Base.Bytes Base.Res Model.Tokens Model.SegState Model.Layout Model.Reader
     Model.Path Model.FileSyn Model.Spec Proofs.SegStateProofs Proofs.PathProofs Proofs.LayoutProofs
     Proofs.ReadCorrect Proofs.SpecRefineBase.
Local Open Scope Z_scope.

(* ---- the alphabet instance of Model/Path.v ---------------------------------- *)

Lemma byte_eqb_eq : forall a b : byte, Byte.eqb a b = true <-> a = b.
Proof. intros a b. split; [apply Byte.byte_dec_bl|apply Byte.byte_dec_lb]. Qed.

Lemma QB_ne_SB : QB <> SB.
Proof. discriminate. Qed.

Local Notation p_escape := (Path.escape byte Byte.eqb QB).
Local Notation p_quote := (Path.quote byte Byte.eqb QB).
Local Notation p_join := (Path.join_components byte Byte.eqb QB SB).
Local Notation p_list := (Path.components_to_path_list byte Byte.eqb QB SB).

Lemma escape_path c : Spec.escape c = p_escape c.
Proof.
  induction c as [|x r IH]; [reflexivity|].
  cbn [Spec.escape Path.escape]. rewrite IH. reflexivity.
Qed.

Lemma quoted_quote c : quoted c = SB :: p_quote c.
Proof. unfold quoted, Path.quote. rewrite escape_path. reflexivity. Qed.

Lemma flat_quoted_join cs : cs <> [] -> flat_map quoted cs = SB :: p_join cs.
Proof.
  induction cs as [|c r IH]; intros Hne; [contradiction|].
  destruct r as [|c' r'].
  - cbn [flat_map Path.join_components]. rewrite app_nil_r. apply quoted_quote.
  - change (flat_map quoted (c :: c' :: r')) with (quoted c ++ flat_map quoted (c' :: r')).
    change (p_join (c :: c' :: r')) with (p_quote c ++ SB :: p_join (c' :: r')).
    rewrite IH by discriminate. rewrite quoted_quote. reflexivity.
Qed.

Lemma path_of_list cs : path_of cs = p_list cs.
Proof.
  destruct cs as [|c r]; [reflexivity|].
  unfold path_of, Path.components_to_path_list. apply flat_quoted_join. discriminate.
Qed.

Lemma path_of_inj cs cs' : path_of cs = path_of cs' -> cs = cs'.
Proof.
  rewrite !path_of_list.
  apply (to_path_list_injective byte Byte.eqb QB SB byte_eqb_eq QB_ne_SB).
Qed.

Lemma parse_path_shape p cs :
  parse_path p = Some cs -> cs = [] \/ (exists g, cs = [g]) \/ (exists g c, cs = [g; c]).
Proof.
  unfold parse_path. destruct (beq p [SLASH]).
  - intros H. injection H as <-. left. reflexivity.
  - destruct (component p) as [[g r]|]; [|discriminate].
    destruct r as [|x r].
    + intros H. injection H as <-. right. left. eexists. reflexivity.
    + destruct (component (x :: r)) as [[c [|y r']]|]; try discriminate.
      intros H. injection H as <-. right. right. eexists. eexists. reflexivity.
Qed.

Lemma canon_parse p cs : canonical_path p = true -> parse_path p = Some cs -> path_of cs = p.
Proof.
  unfold canonical_path. intros Hc Hp. rewrite Hp in Hc. apply beq_eq. exact Hc.
Qed.

Lemma canon_parse_of cs : canonical_path (path_of cs) = true -> parse_path (path_of cs) = Some cs.
Proof.
  intros Hc. destruct (parse_path (path_of cs)) as [cs'|] eqn:Hp.
  - pose proof (canon_parse _ _ Hc Hp) as He. apply path_of_inj in He. subst cs'. reflexivity.
  - unfold canonical_path in Hc. rewrite Hp in Hc. discriminate.
Qed.

(* 1. a canonical path is understood by the model's scanner exactly as by the spec's parser *)
Theorem canonical_path_from_string : forall p,
    canonical_path p = true ->
    match parse_path p with
    | Some [] => p = [SB] /\ path_from_string p = inr (None, None)
    | Some [g] => path_from_string p = inr (Some g, None) /\ path_to_string (Some g) None = p
    | Some [g; c] => path_from_string p = inr (Some g, Some c) /\ path_to_string (Some g) (Some c) = p
    | _ => False
    end.
Proof.
  intros p Hc.
  destruct (parse_path p) as [cs|] eqn:Hp.
  2:{ unfold canonical_path in Hc. rewrite Hp in Hc. discriminate. }
  pose proof (canon_parse _ _ Hc Hp) as He.
  destruct (parse_path_shape _ _ Hp) as [->|[[g ->]|[g [c ->]]]].
  - cbn [path_of] in He. subst p. split; reflexivity.
  - rewrite path_of_list in He. subst p. split.
    + exact (from_string_group byte Byte.eqb QB SB byte_eqb_eq QB_ne_SB g).
    + reflexivity.
  - rewrite path_of_list in He. subst p. split.
    + exact (from_string_channel byte Byte.eqb QB SB byte_eqb_eq QB_ne_SB g c).
    + reflexivity.
Qed.

(* 2. property tokens coincide *)
Theorem props_tokens_obs : forall ps, props_tokens ps = obs_props ps.
Proof. intros ps. reflexivity. Qed.


(* ---- list and dictionary lemmas ------------------------------------------------ *)

Lemma beq_sym a b : beq a b = beq b a.
Proof.
  destruct (beq b a) eqn:E.
  - apply beq_eq in E. subst. apply beq_refl.
  - apply beq_neq in E. apply beq_neq. intros H. apply E. symmetry. exact H.
Qed.

Lemma existsb_beq_In x l : existsb (beq x) l = true <-> In x l.
Proof.
  rewrite existsb_exists. split.
  - intros [y [Hy E]]. apply beq_eq in E. subst y. exact Hy.
  - intros H. exists x. split; [exact H|apply beq_refl].
Qed.

Lemma existsb_beq_notin x l : existsb (beq x) l = false <-> ~ In x l.
Proof.
  split.
  - intros E H. apply existsb_beq_In in H. congruence.
  - intros H. destruct (existsb (beq x) l) eqn:E; [|reflexivity].
    apply existsb_beq_In in E. contradiction.
Qed.

Lemma filter_true_in {A} (f : A -> bool) l :
  (forall y, In y l -> f y = true) -> filter f l = l.
Proof.
  induction l as [|a l IH]; intros H; [reflexivity|].
  cbn [filter]. rewrite (H a (or_introl eq_refl)). f_equal. apply IH.
  intros y Hy. apply H. right. exact Hy.
Qed.

Lemma filter_false_in {A} (f : A -> bool) l :
  (forall y, In y l -> f y = false) -> filter f l = [].
Proof.
  induction l as [|a l IH]; intros H; [reflexivity|].
  cbn [filter]. rewrite (H a (or_introl eq_refl)). apply IH.
  intros y Hy. apply H. right. exact Hy.
Qed.

Lemma filter_ext_in' {A} (f g : A -> bool) l :
  (forall y, In y l -> f y = g y) -> filter f l = filter g l.
Proof.
  induction l as [|a l IH]; intros H; [reflexivity|].
  cbn [filter]. rewrite (H a (or_introl eq_refl)), IH; [reflexivity|].
  intros y Hy. apply H. right. exact Hy.
Qed.

Lemma filter_map_comm {A B} (f : B -> bool) (g : A -> B) l :
  filter f (map g l) = map g (filter (fun x => f (g x)) l).
Proof.
  induction l as [|a l IH]; [reflexivity|].
  cbn [map filter]. destruct (f (g a)); cbn [map]; rewrite IH; reflexivity.
Qed.

Lemma flat_map_map' {A B C} (f : B -> list C) (g : A -> B) l :
  flat_map f (map g l) = flat_map (fun x => f (g x)) l.
Proof.
  induction l as [|a l IH]; [reflexivity|]. cbn [map flat_map]. rewrite IH. reflexivity.
Qed.

Lemma In_dedup x l : In x (dedup l) <-> In x l.
Proof.
  induction l as [|y r IH]; [tauto|].
  cbn [dedup In]. rewrite filter_In, IH.
  split.
  - intros [H|[H _]]; [left; exact H|right; exact H].
  - intros [H|H]; [left; exact H|].
    destruct (beq y x) eqn:E.
    + apply beq_eq in E. left. exact E.
    + right. split; [exact H|reflexivity].
Qed.

Lemma NoDup_filter {A} (f : A -> bool) l : NoDup l -> NoDup (filter f l).
Proof.
  induction l as [|a l IH]; intros H; [constructor|].
  inversion H as [|x y Hnin Hnd]; subst x y.
  cbn [filter]. destruct (f a).
  - constructor; [|apply IH; exact Hnd].
    intros Hin. apply filter_In in Hin. apply Hnin. tauto.
  - apply IH. exact Hnd.
Qed.

Lemma NoDup_dedup l : NoDup (dedup l).
Proof.
  induction l as [|y r IH]; [constructor|].
  cbn [dedup]. constructor.
  - intros Hin. apply filter_In in Hin. destruct Hin as [_ E].
    rewrite beq_refl in E. discriminate.
  - apply NoDup_filter. exact IH.
Qed.

Lemma dedup_snoc l x :
  dedup (l ++ [x]) = if existsb (beq x) l then dedup l else dedup l ++ [x].
Proof.
  induction l as [|y l IH]; [reflexivity|].
  cbn [app dedup existsb]. rewrite IH.
  destruct (existsb (beq x) l) eqn:El.
  - rewrite orb_true_r. reflexivity.
  - rewrite orb_false_r, filter_app. cbn [filter]. rewrite (beq_sym y x).
    destruct (beq x y); cbn [negb].
    + rewrite app_nil_r. reflexivity.
    + reflexivity.
Qed.

Definition notin (a : list bytes) (y : bytes) : bool := negb (existsb (beq y) a).

Lemma notin_cons x a y : notin (x :: a) y = negb (beq x y) && notin a y.
Proof. unfold notin. cbn [existsb]. rewrite (beq_sym y x), negb_orb. reflexivity. Qed.

Lemma filter_notin_cons x a l :
  filter (fun y => negb (beq x y)) (filter (notin a) l) = filter (notin (x :: a)) l.
Proof.
  induction l as [|y l IH]; [reflexivity|].
  cbn [filter]. rewrite notin_cons.
  destruct (notin a y); cbn [filter].
  - rewrite andb_true_r. destruct (beq x y); cbn [negb]; rewrite IH; reflexivity.
  - rewrite andb_false_r. exact IH.
Qed.

Lemma dedup_app a b : dedup (a ++ b) = dedup a ++ filter (notin a) (dedup b).
Proof.
  induction a as [|x a IH].
  - cbn [app dedup]. symmetry. apply filter_true_in. intros y _. reflexivity.
  - cbn [app dedup]. rewrite IH, filter_app, filter_notin_cons. reflexivity.
Qed.

Lemma dedup_nodup l : NoDup l -> dedup l = l.
Proof.
  induction l as [|x r IH]; intros H; [reflexivity|].
  inversion H as [|x' r' Hnin Hnd]; subst x' r'.
  cbn [dedup]. rewrite (IH Hnd). f_equal. apply filter_true_in.
  intros y Hy. destruct (beq x y) eqn:E; [|reflexivity].
  apply beq_eq in E. subst y. contradiction.
Qed.

Lemma alookup_existsb {V} k (l : alist V) :
  (match alookup k l with Some _ => true | None => false end) = existsb (beq k) (map fst l).
Proof.
  induction l as [|[k' v] r IH]; [reflexivity|].
  cbn [alookup map fst existsb]. change (beq k k') with (bytes_eqb k k').
  destruct (bytes_eqb k k'); [reflexivity|exact IH].
Qed.

(* the dictionary x |-> F x over a key list *)
Lemma map_fst_graph {V} (F : bytes -> V) D : map fst (map (fun x => (x, F x)) D) = D.
Proof. rewrite map_map. cbn [fst]. apply map_id. Qed.

Lemma alookup_graph {V} (F : bytes -> V) g D :
  alookup g (map (fun x => (x, F x)) D) = if existsb (beq g) D then Some (F g) else None.
Proof.
  induction D as [|x D IH]; [reflexivity|].
  cbn [map alookup existsb]. change (beq g x) with (bytes_eqb g x).
  destruct (bytes_eqb g x) eqn:E; cbn [orb]; [|exact IH].
  apply bytes_eqb_eq in E. subst x. reflexivity.
Qed.

Lemma aset_graph_in {V} (F : bytes -> V) g v D :
  NoDup D -> In g D ->
  aset g v (map (fun x => (x, F x)) D) = map (fun x => (x, if beq x g then v else F x)) D.
Proof.
  induction D as [|x D IH]; intros Hnd Hin; [contradiction|].
  inversion Hnd as [|x' D' Hnin Hnd']; subst x' D'.
  cbn [map aset]. destruct (bytes_eqb g x) eqn:E.
  - apply bytes_eqb_eq in E. subst x. rewrite beq_refl. f_equal.
    apply map_ext_in. intros y Hy. destruct (beq y g) eqn:E'; [|reflexivity].
    apply beq_eq in E'. subst y. contradiction.
  - assert (Hx : beq x g = false).
    { rewrite beq_sym. exact E. }
    rewrite Hx. f_equal. apply IH; [exact Hnd'|].
    destruct Hin as [->|Hin]; [|exact Hin].
    rewrite bytes_eqb_refl in E. discriminate.
Qed.

(* inserting under pairwise distinct fresh keys appends *)
Lemma fold_aset_fresh {X V} (kf : X -> bytes) (vf : X -> V) l : forall acc,
  NoDup (map fst acc ++ map kf l) ->
  fold_left (fun a x => aset (kf x) (vf x) a) l acc = acc ++ map (fun x => (kf x, vf x)) l.
Proof.
  induction l as [|x l IH]; intros acc Hnd.
  - cbn [fold_left map]. rewrite app_nil_r. reflexivity.
  - cbn [fold_left map]. cbn [map] in Hnd.
    rewrite aset_fresh.
    2:{ apply NoDup_remove_2 in Hnd. intros Hin. apply Hnd. apply in_or_app. left. exact Hin. }
    rewrite IH.
    + rewrite <- app_assoc. reflexivity.
    + rewrite map_app. cbn [map fst]. rewrite <- app_assoc. exact Hnd.
Qed.


(* ---- the channel-lists dictionary ------------------------------------------------ *)

Definition stepP (acc : alist (alist prop)) (kv : bytes * alist prop) : alist (alist prop) :=
  aset (fst kv) (snd kv) acc.

Definition stepC (acc : alist (list channel)) (gc : bytes * channel) : alist (list channel) :=
  aset (fst gc) ((match alookup (fst gc) acc with Some l => l | None => [] end) ++ [snd gc]) acc.

(* the channels filed under group g, in order *)
Definition chans_of (L : list (bytes * channel)) (g : bytes) : list channel :=
  map snd (filter (fun gc => beq g (fst gc)) L).

Definition gdict (L : list (bytes * channel)) : alist (list channel) :=
  map (fun g => (g, chans_of L g)) (dedup (map fst L)).

Lemma chans_of_cons g' ch L g :
  chans_of ((g', ch) :: L) g = if beq g g' then ch :: chans_of L g else chans_of L g.
Proof. unfold chans_of. cbn [filter fst]. destruct (beq g g'); reflexivity. Qed.

Lemma chans_of_app L1 L2 g : chans_of (L1 ++ L2) g = chans_of L1 g ++ chans_of L2 g.
Proof. unfold chans_of. rewrite filter_app, map_app. reflexivity. Qed.

Lemma chans_of_snoc L g ch x :
  chans_of (L ++ [(g, ch)]) x = chans_of L x ++ (if beq x g then [ch] else []).
Proof.
  rewrite chans_of_app. f_equal. rewrite chans_of_cons. destruct (beq x g); reflexivity.
Qed.

Lemma chans_of_notin L g : ~ In g (map fst L) -> chans_of L g = [].
Proof.
  intros H. unfold chans_of. rewrite filter_false_in; [reflexivity|].
  intros [g' ch] Hin. cbn [fst]. apply beq_neq. intros ->. apply H.
  apply (in_map fst _ _ Hin).
Qed.

Lemma In_chans_of L g ch : In ch (chans_of L g) <-> In (g, ch) L.
Proof.
  unfold chans_of. rewrite in_map_iff. split.
  - intros [[g' ch'] [E Hin]]. cbn [snd] in E. subst ch'.
    apply filter_In in Hin. destruct Hin as [Hin E]. cbn [fst] in E.
    apply beq_eq in E. subst g'. exact Hin.
  - intros Hin. exists (g, ch). split; [reflexivity|].
    apply filter_In. split; [exact Hin|]. apply beq_refl.
Qed.

Lemma lookup_gdict L g :
  match alookup g (gdict L) with Some l => l | None => [] end = chans_of L g.
Proof.
  unfold gdict. rewrite alookup_graph.
  destruct (existsb (beq g) (dedup (map fst L))) eqn:E; [reflexivity|].
  symmetry. apply chans_of_notin. apply existsb_beq_notin in E.
  rewrite In_dedup in E. exact E.
Qed.

Lemma fold_stepC L : fold_left stepC L [] = gdict L.
Proof.
  induction L as [|[g ch] L IH] using rev_ind; [reflexivity|].
  rewrite fold_left_app. cbn [fold_left]. rewrite IH. unfold stepC. cbn [fst snd].
  rewrite lookup_gdict. unfold gdict. rewrite map_app. cbn [map fst]. rewrite dedup_snoc.
  destruct (existsb (beq g) (map fst L)) eqn:E.
  - rewrite aset_graph_in.
    + apply map_ext_in. intros x Hx. f_equal. rewrite chans_of_snoc.
      destruct (beq x g) eqn:E'.
      * apply beq_eq in E'. subst x. reflexivity.
      * rewrite app_nil_r. reflexivity.
    + apply NoDup_dedup.
    + apply In_dedup. apply existsb_beq_In. exact E.
  - apply existsb_beq_notin in E.
    rewrite aset_fresh.
    2:{ rewrite map_fst_graph, In_dedup. exact E. }
    rewrite map_app. cbn [map]. f_equal.
    + apply map_ext_in. intros x Hx. f_equal. rewrite chans_of_snoc.
      assert (Hxg : beq x g = false).
      { apply beq_neq. intros ->. apply E. apply In_dedup. exact Hx. }
      rewrite Hxg, app_nil_r. reflexivity.
    + rewrite chans_of_snoc, beq_refl. reflexivity.
Qed.

Lemma chans_of_names_nodup L g :
  NoDup (map (fun gc => (fst gc, ch_name (snd gc))) L) -> NoDup (map ch_name (chans_of L g)).
Proof.
  induction L as [|[g' ch] L IH]; intros Hnd; [constructor|].
  cbn [map fst snd] in Hnd. inversion Hnd as [|x y Hnin Hnd']; subst x y.
  rewrite chans_of_cons. destruct (beq g g') eqn:E; [|apply IH; exact Hnd'].
  apply beq_eq in E. subst g'. cbn [map]. constructor; [|apply IH; exact Hnd'].
  intros Hin. apply in_map_iff in Hin. destruct Hin as [ch' [En Hin]].
  apply In_chans_of in Hin. apply Hnin.
  apply in_map_iff. exists (g, ch'). cbn [fst snd]. rewrite En. split; [reflexivity|exact Hin].
Qed.

Lemma chans_dict_nodup l :
  NoDup (map ch_name l) -> chans_dict l = map (fun ch => (ch_name ch, ch)) l.
Proof.
  intros H. unfold chans_dict.
  exact (fold_aset_fresh ch_name (fun c => c) l [] H).
Qed.

(* ---- the final group list ---------------------------------------------------------- *)

Definition mkD (gchans : alist (list channel)) (kv : bytes * alist prop) : bytes * group :=
  (fst kv, mkGroup (fst kv) (snd kv)
                   (chans_dict (match alookup (fst kv) gchans with Some l => l | None => [] end))).

Definition mkI (kv : bytes * list channel) : bytes * group :=
  (fst kv, mkGroup (fst kv) [] (chans_dict (snd kv))).

Definition stepG (acc : alist group) (kv : bytes * list channel) : alist group :=
  match alookup (fst kv) acc with Some _ => acc | None => acc ++ [mkI kv] end.

Lemma build_hierarchy_eq om :
  build_hierarchy om =
  (do '(root', gprops, gchans) <-
      hier_scan om (match alookup [SB] om with Some m => om_props m | None => [] end) [] [];
   Ok (mkHier root' (fold_left stepG gchans (map (mkD gchans) gprops)))).
Proof. reflexivity. Qed.

Lemma stepG_eq acc kv :
  stepG acc kv = if existsb (beq (fst kv)) (map fst acc) then acc else acc ++ [mkI kv].
Proof.
  unfold stepG. rewrite <- alookup_existsb. destruct (alookup (fst kv) acc); reflexivity.
Qed.

Lemma fold_stepG G : forall acc,
  NoDup (map fst G) ->
  fold_left stepG G acc = acc ++ map mkI (filter (fun kv => notin (map fst acc) (fst kv)) G).
Proof.
  induction G as [|kv G IH]; intros acc Hnd.
  - cbn [fold_left filter map]. rewrite app_nil_r. reflexivity.
  - cbn [map] in Hnd. inversion Hnd as [|x y Hnin Hnd']; subst x y.
    cbn [fold_left filter]. rewrite (IH _ Hnd'), stepG_eq. unfold notin at 2.
    destruct (existsb (beq (fst kv)) (map fst acc)) eqn:E; cbn [negb]; [reflexivity|].
    cbn [map]. rewrite <- app_assoc. cbn [app]. f_equal. f_equal. f_equal.
    apply filter_ext_in'. intros kv' Hin. unfold notin.
    rewrite map_app, existsb_app. cbn [map mkI fst existsb].
    assert (Hne : beq (fst kv') (fst kv) = false).
    { apply beq_neq. intros He. apply Hnin. rewrite <- He. apply in_map. exact Hin. }
    rewrite Hne. rewrite !orb_false_r. reflexivity.
Qed.


(* ---- the content, classified ------------------------------------------------------- *)

Definition canon (po : bytes * cobj) : Prop := canonical_path (fst po) = true.

(* declared groups with their properties; channels with their group *)
Definition declared (c : dict cobj) : alist (alist prop) :=
  flat_map (fun po => match parse_path (fst po) with
                      | Some [g] => [(g, o_props (snd po))]
                      | _ => []
                      end) c.

Definition chlist (c : dict cobj) : list (bytes * channel) :=
  flat_map (fun po => match parse_path (fst po) with
                      | Some [g; n] => [(g, chan_of_cobj g n (fst po) (snd po))]
                      | _ => []
                      end) c.

Lemma declared_cons p o c :
  declared ((p, o) :: c) =
  match parse_path p with Some [g] => [(g, o_props o)] | _ => [] end ++ declared c.
Proof. reflexivity. Qed.

Lemma chlist_cons p o c :
  chlist ((p, o) :: c) =
  match parse_path p with Some [g; n] => [(g, chan_of_cobj g n p o)] | _ => [] end ++ chlist c.
Proof. reflexivity. Qed.

Lemma In_declared g ps c :
  In (g, ps) (declared c) <-> exists p o, In (p, o) c /\ parse_path p = Some [g] /\ ps = o_props o.
Proof.
  unfold declared. rewrite in_flat_map. split.
  - intros [[p o] [Hin H]]. cbn [fst snd] in H.
    destruct (parse_path p) as [[|g' [|n [|x r]]]|] eqn:Hp; try contradiction.
    destruct H as [H|[]]. injection H as Hg Hps. subst g' ps. exists p, o. tauto.
  - intros [p [o [Hin [Hp ->]]]]. exists (p, o). split; [exact Hin|].
    cbn [fst snd]. rewrite Hp. left. reflexivity.
Qed.

Lemma In_chlist g ch c :
  In (g, ch) (chlist c) <->
  exists n p o, In (p, o) c /\ parse_path p = Some [g; n] /\ ch = chan_of_cobj g n p o.
Proof.
  unfold chlist. rewrite in_flat_map. split.
  - intros [[p o] [Hin H]]. cbn [fst snd] in H.
    destruct (parse_path p) as [[|g' [|n [|x r]]]|] eqn:Hp; try contradiction.
    destruct H as [H|[]]. injection H as Hg Hch. subst g' ch. exists n, p, o. tauto.
  - intros [n [p [o [Hin [Hp ->]]]]]. exists (p, o). split; [exact Hin|].
    cbn [fst snd]. rewrite Hp. left. reflexivity.
Qed.

Lemma canon_same_parse c p o p' o' cs :
  Forall canon c -> In (p, o) c -> In (p', o') c ->
  parse_path p = Some cs -> parse_path p' = Some cs -> p = p'.
Proof.
  intros Hc Hin Hin' Hp Hp'. rewrite Forall_forall in Hc.
  pose proof (canon_parse _ _ (Hc _ Hin) Hp) as H1.
  pose proof (canon_parse _ _ (Hc _ Hin') Hp') as H2.
  cbn [fst] in H1, H2. congruence.
Qed.

Lemma declared_keys_nodup c :
  NoDup (map fst c) -> Forall canon c -> NoDup (map fst (declared c)).
Proof.
  induction c as [|[p o] c IH]; intros Hnd Hc; [constructor|].
  cbn [map fst] in Hnd. inversion Hnd as [|x y Hnin Hnd']; subst x y.
  pose proof Hc as Hc0. inversion Hc as [|x y Hcp Hc']; subst x y.
  rewrite declared_cons, map_app.
  destruct (parse_path p) as [[|g [|n [|x r]]]|] eqn:Hp; cbn [map app]; try (apply IH; assumption).
  cbn [fst]. constructor; [|apply IH; assumption].
  intros Hin. apply in_map_iff in Hin. destruct Hin as [[g' ps] [Eg Hin]]. cbn [fst] in Eg. subst g'.
  apply In_declared in Hin. destruct Hin as [p' [o' [Hin' [Hp' _]]]].
  assert (p = p').
  { exact (canon_same_parse _ p o p' o' _ Hc0 (or_introl eq_refl) (or_intror Hin') Hp Hp'). }
  subst p'. apply Hnin. apply (in_map fst _ _ Hin').
Qed.

Lemma chlist_keys_nodup c :
  NoDup (map fst c) -> Forall canon c ->
  NoDup (map (fun gc => (fst gc, ch_name (snd gc))) (chlist c)).
Proof.
  induction c as [|[p o] c IH]; intros Hnd Hc; [constructor|].
  cbn [map fst] in Hnd. inversion Hnd as [|x y Hnin Hnd']; subst x y.
  pose proof Hc as Hc0. inversion Hc as [|x y Hcp Hc']; subst x y.
  rewrite chlist_cons, map_app.
  destruct (parse_path p) as [[|g [|n [|x r]]]|] eqn:Hp; cbn [map app]; try (apply IH; assumption).
  cbn [fst snd chan_of_cobj ch_name]. constructor; [|apply IH; assumption].
  intros Hin. apply in_map_iff in Hin. destruct Hin as [[g' ch] [Eg Hin]]. cbn [fst snd] in Eg.
  injection Eg as -> En.
  apply In_chlist in Hin. destruct Hin as [n' [p' [o' [Hin' [Hp' ->]]]]].
  cbn [chan_of_cobj ch_name] in En. subst n'.
  assert (p = p').
  { exact (canon_same_parse _ p o p' o' _ Hc0 (or_introl eq_refl) (or_intror Hin') Hp Hp'). }
  subst p'. apply Hnin. apply (in_map fst _ _ Hin').
Qed.

Lemma map_flat_map {A B C} (f : B -> C) (h : A -> list B) l :
  map f (flat_map h l) = flat_map (fun x => map f (h x)) l.
Proof.
  induction l as [|a l IH]; [reflexivity|]. cbn [flat_map]. rewrite map_app, IH. reflexivity.
Qed.

Lemma group_names_eq c :
  group_names c = dedup (map fst (declared c) ++ map fst (chlist c)).
Proof.
  unfold group_names, declared, chlist. rewrite !map_flat_map. f_equal. f_equal.
  - apply flat_map_ext. intros [p o]. cbn [fst snd].
    destruct (parse_path p) as [[|g [|n [|x r]]]|]; reflexivity.
  - apply flat_map_ext. intros [p o]. cbn [fst snd].
    destruct (parse_path p) as [[|g [|n [|x r]]]|]; reflexivity.
Qed.

Definition chan_of_triple (g : bytes) (t : bytes * bytes * cobj) : channel :=
  chan_of_cobj g (fst (fst t)) (snd (fst t)) (snd t).

Lemma chans_of_channels c g :
  chans_of (chlist c) g = map (chan_of_triple g) (channels_of c g).
Proof.
  induction c as [|[p o] c IH]; [reflexivity|].
  rewrite chlist_cons, chans_of_app, IH.
  unfold channels_of. cbn [flat_map fst snd]. rewrite map_app. f_equal.
  destruct (parse_path p) as [[|g' [|n [|x r]]]|]; try reflexivity.
  rewrite chans_of_cons. destruct (beq g g') eqn:E; [|reflexivity].
  apply beq_eq in E. subst g'. reflexivity.
Qed.

Lemma In_channels_of c g n p o :
  In (n, p, o) (channels_of c g) -> In (p, o) c /\ parse_path p = Some [g; n].
Proof.
  unfold channels_of. rewrite in_flat_map. intros [[p' o'] [Hin H]]. cbn [fst snd] in H.
  destruct (parse_path p') as [[|g' [|n' [|x r]]]|] eqn:Hp; try contradiction.
  destruct (beq g g') eqn:E; [|contradiction].
  apply beq_eq in E. subst g'. destruct H as [H|[]]. injection H as -> -> ->.
  split; [exact Hin|exact Hp].
Qed.

(* ---- the model's scan over metadata matching the content ---------------------------- *)

Lemma chan_of_om_cobj g n m p o :
  path_to_string (Some g) (Some n) = p ->
  om_rel (p, m) (p, o) ->
  chan_of_om g n m = chan_of_cobj g n p o.
Proof.
  intros Hp [_ [Hprops [Hdt [Hsc Hlen]]]]. cbn [fst snd] in *.
  unfold chan_of_om, chan_of_cobj. f_equal; assumption.
Qed.

Lemma hier_scan_folds om c :
  Forall2 om_rel om c -> Forall canon c ->
  forall root gp gc,
    hier_scan om root gp gc =
    Ok (root, fold_left stepP (declared c) gp, fold_left stepC (chlist c) gc).
Proof.
  induction 1 as [|[pstr m] [p o] om c Hrel HF IH]; intros Hc root gp gc; [reflexivity|].
  inversion Hc as [|x y Hcp Hc']; subst x y. unfold canon in Hcp. cbn [fst] in Hcp.
  assert (Hpp : pstr = p) by (destruct Hrel as [Hpp _]; exact Hpp). subst pstr.
  rewrite hier_scan_cons, declared_cons, chlist_cons.
  pose proof (canonical_path_from_string p Hcp) as H.
  destruct (parse_path p) as [[|g [|n [|x r]]]|]; try contradiction.
  - destruct H as [_ H]. rewrite H. cbn [app]. apply IH. exact Hc'.
  - destruct H as [H _]. rewrite H. cbn [app fold_left].
    change (stepP gp (g, o_props o)) with (aset g (o_props o) gp).
    destruct Hrel as [_ [Hprops _]]. cbn [snd] in Hprops. rewrite Hprops.
    apply IH. exact Hc'.
  - destruct H as [H Hto]. rewrite H. cbn [app fold_left].
    rewrite (chan_of_om_cobj g n m p o Hto Hrel).
    exact (IH Hc' root gp (stepC gc (g, chan_of_cobj g n p o))).
Qed.

Lemma fold_stepP_declared c :
  NoDup (map fst c) -> Forall canon c -> fold_left stepP (declared c) [] = declared c.
Proof.
  intros Hnd Hc. unfold stepP.
  rewrite (fold_aset_fresh fst snd (declared c) []).
  - cbn [app]. rewrite <- (map_id (declared c)) at 2. apply map_ext. intros [k v]. reflexivity.
  - cbn [map app]. apply declared_keys_nodup; assumption.
Qed.

Lemma root_rel om c k :
  Forall2 om_rel om c ->
  match alookup k om with Some m => om_props m | None => [] end = props_of c k.
Proof.
  unfold props_of. change (get k c) with (alookup k c).
  induction 1 as [|[p m] [p' o] om c Hrel HF IH]; [reflexivity|].
  destruct Hrel as [Hp [Hprops _]]. cbn [fst snd] in Hp, Hprops. subst p'.
  cbn [alookup]. destruct (bytes_eqb k p); [exact Hprops|exact IH].
Qed.

Lemma declared_props c g ps :
  NoDup (map fst c) -> Forall canon c -> In (g, ps) (declared c) ->
  ps = props_of c (path_of [g]).
Proof.
  intros Hnd Hc Hin. apply In_declared in Hin. destruct Hin as [p [o [Hin [Hp ->]]]].
  rewrite Forall_forall in Hc. pose proof (canon_parse _ _ (Hc _ Hin) Hp) as He.
  cbn [fst] in He. unfold props_of. change (get (path_of [g]) c) with (alookup (path_of [g]) c). rewrite He.
  rewrite (alookup_in_nodup p o c Hnd Hin). reflexivity.
Qed.

Lemma undeclared_props c g :
  Forall canon c -> ~ In g (map fst (declared c)) -> props_of c (path_of [g]) = [].
Proof.
  intros Hc Hnin. unfold props_of. change (get (path_of [g]) c) with (alookup (path_of [g]) c).
  destruct (alookup (path_of [g]) c) as [o|] eqn:E; [|reflexivity].
  exfalso. apply alookup_In in E. apply Hnin.
  rewrite Forall_forall in Hc. pose proof (Hc _ E) as Hcp. unfold canon in Hcp. cbn [fst] in Hcp.
  apply canon_parse_of in Hcp.
  apply in_map_iff. exists (g, o_props o). split; [reflexivity|].
  apply In_declared. exists (path_of [g]), o. tauto.
Qed.

(* ---- the hierarchy in closed form --------------------------------------------------- *)

Definition GR (c : dict cobj) (g : bytes) : group :=
  mkGroup g (props_of c (path_of [g]))
          (map (fun ch => (ch_name ch, ch)) (chans_of (chlist c) g)).

Definition hier_of (c : dict cobj) : hierarchy :=
  mkHier (props_of c (path_of [])) (map (fun g => (g, GR c g)) (group_names c)).

Lemma chans_dict_chans_of c g :
  NoDup (map fst c) -> Forall canon c ->
  chans_dict (chans_of (chlist c) g) = map (fun ch => (ch_name ch, ch)) (chans_of (chlist c) g).
Proof.
  intros Hnd Hc. apply chans_dict_nodup. apply chans_of_names_nodup.
  apply chlist_keys_nodup; assumption.
Qed.

Lemma build_hierarchy_closed om c :
  Forall2 om_rel om c -> NoDup (map fst c) -> Forall canon c ->
  build_hierarchy om = Ok (hier_of c).
Proof.
  intros Hrel Hnd Hc.
  rewrite build_hierarchy_eq, (hier_scan_folds om c Hrel Hc). cbn [bind].
  rewrite (fold_stepP_declared c Hnd Hc), fold_stepC.
  unfold hier_of. f_equal. f_equal.
  - exact (root_rel om c [SB] Hrel).
  - rewrite fold_stepG.
    2:{ unfold gdict. rewrite map_fst_graph. apply NoDup_dedup. }
    rewrite group_names_eq, dedup_app, (dedup_nodup _ (declared_keys_nodup c Hnd Hc)), map_app.
    assert (Hkeys : map fst (map (mkD (gdict (chlist c))) (declared c)) = map fst (declared c)).
    { rewrite map_map. apply map_ext. intros kv. reflexivity. }
    rewrite Hkeys. f_equal.
    + rewrite map_map. apply map_ext_in. intros [g ps] Hin. unfold mkD, GR. cbn [fst snd].
      rewrite lookup_gdict, (chans_dict_chans_of c g Hnd Hc).
      rewrite (declared_props c g ps Hnd Hc Hin). reflexivity.
    + unfold gdict at 1. rewrite filter_map_comm. cbn [fst]. rewrite map_map.
      apply map_ext_in. intros g Hin. apply filter_In in Hin. destruct Hin as [_ Hn].
      unfold notin in Hn. apply negb_true_iff in Hn. apply existsb_beq_notin in Hn.
      unfold mkI, GR. cbn [fst snd].
      rewrite (chans_dict_chans_of c g Hnd Hc), (undeclared_props c g Hc Hn). reflexivity.
Qed.

Lemma hier_of_tokens c (f : channel -> list tok) (data : cobj -> list tok) :
  (forall g name p o, In (p, o) c -> parse_path p = Some [g; name] ->
                      f (chan_of_cobj g name p o) = data o) ->
  obs_hierarchy (hier_of c) f = hierarchy_tokens data c.
Proof.
  intros Hf. unfold obs_hierarchy, hierarchy_tokens, hier_of. cbn [h_root h_groups].
  rewrite map_length, flat_map_map'. change props_tokens with obs_props. f_equal. f_equal.
  apply flat_map_ext_in'. intros g Hg. cbn [snd GR g_name g_props g_chans].
  unfold group_tokens. f_equal. f_equal.
  rewrite map_length, flat_map_map', chans_of_channels, map_length, flat_map_map'.
  f_equal. apply flat_map_ext_in'. intros [[n p] o] Hin.
  apply In_channels_of in Hin. destruct Hin as [Hin Hp].
  unfold chan_of_triple. cbn [fst snd].
  rewrite (Hf g n p o Hin Hp).
  unfold obs_channel_meta, channel_tokens, chan_of_cobj.
  cbn [ch_name ch_group ch_path ch_dtype ch_len ch_props app]. reflexivity.
Qed.

Lemma hier_of_channels c ch :
  In ch (all_channels (hier_of c)) ->
  exists g name p o, In (p, o) c /\ parse_path p = Some [g; name] /\ ch = chan_of_cobj g name p o.
Proof.
  unfold all_channels, hier_of. cbn [h_groups]. rewrite flat_map_map'. cbn [snd GR g_chans].
  intros Hin. apply in_flat_map in Hin. destruct Hin as [g [_ Hin]].
  rewrite map_map in Hin. cbn [snd] in Hin. rewrite map_id in Hin.
  apply In_chans_of, In_chlist in Hin. destruct Hin as [n [p [o H]]].
  exists g, n, p, o. exact H.
Qed.

(* 3. the hierarchy the model builds from per-object metadata that matches the
      specification's content shows exactly the specification's hierarchy *)
Theorem hierarchy_refines : forall (om : alist ometa) (c : dict cobj),
    Forall2 om_rel om c ->
    NoDup (map fst c) ->
    Forall (fun po => canonical_path (fst po) = true) c ->
    exists h,
      build_hierarchy om = Ok h /\
      (forall (f : channel -> list tok) (data : cobj -> list tok),
          (forall g name p o, In (p, o) c -> parse_path p = Some [g; name] ->
                              f (chan_of_cobj g name p o) = data o) ->
          obs_hierarchy h f = hierarchy_tokens data c) /\
      (* the channels of the hierarchy are exactly the content's channel objects *)
      (forall ch, In ch (all_channels h) ->
                  exists g name p o, In (p, o) c /\ parse_path p = Some [g; name] /\
                                     ch = chan_of_cobj g name p o).
Proof.
  intros om c Hrel Hnd Hc. exists (hier_of c). split; [|split].
  - exact (build_hierarchy_closed om c Hrel Hnd Hc).
  - intros f data Hf. exact (hier_of_tokens c f data Hf).
  - intros ch Hin. exact (hier_of_channels c ch Hin).
Qed.

(* the hypotheses are satisfiable on a non-trivial instance: root, /'g'/'a', /'h', /'g'/'b'
   (group g only implied, group h declared and listed first) *)
Example hierarchy_refines_inhabited :
  let pa := [x2f; x27; x67; x27; x2f; x27; x61; x27] in
  let pb := [x2f; x27; x67; x27; x2f; x27; x62; x27] in
  let ph := [x2f; x27; x68; x27] in
  let c := [([x2f], mkCobj [] None []); (pa, mkCobj [] (Some 3) [[x01]; [x02]]);
            (ph, mkCobj [] None []); (pb, mkCobj [] (Some 3) [])] in
  let om := [([x2f], mkOmeta [] None None 0); (pa, mkOmeta [] (Some 3) None 2);
             (ph, mkOmeta [] None None 0); (pb, mkOmeta [] (Some 3) None 0)] in
  Forall2 om_rel om c /\ NoDup (map fst c) /\
  Forall (fun po => canonical_path (fst po) = true) c /\
  group_names c = [[x68]; [x67]] /\
  map (fun t => fst (fst t)) (channels_of c [x67]) = [[x61]; [x62]].
Proof.
  cbv zeta. split; [|split; [|split; [|split]]].
  - repeat constructor.
  - cbn [map fst]. repeat constructor; cbn [In]; intros H;
      repeat (destruct H as [H|H]; [discriminate H|]); exact H.
  - repeat constructor.
  - reflexivity.
  - reflexivity.
Qed.

Print Assumptions canonical_path_from_string.
Print Assumptions props_tokens_obs.
Print Assumptions hierarchy_refines.
