(* C06, lazy = eager on a cut file, layer 2: the BYTES of a serialised file cut at
   an arbitrary offset, read eagerly (TdmsFile.read: Reader.rd_all) and lazily
   (TdmsFile.open + channel.read_data(offset, length): LazyBytes.lz_read_bytes).

     cut_loop_index_sim    the metadata pass WITH segment indexes on the cut file
                           (what TdmsFile.open runs) finds the records of the pass
                           without indexes, each with the fresh index of its own
                           object list, and the same per-object metadata
     lazy_loop_cut         one induction over the segment records of the cut file
                           (TruncValuesFile.cut_segs): every record is read by
                           read_segment into chunks [css_c] which are, per path, a
                           prefix of the complete file's values and contain those of
                           the whole segments; and for every path the view
                           LazyBytes.segv_of computes is well formed (LazyRead.wf)
                           and its concatenation is [chan_values p (concat css_c)]
                           -- the cut record through TruncLazyLayout.segv_of_cut
     eager_fold_reads      the eager data pass appends exactly those chunks
     truncation_lazy_eq_eager
                           the composed statement: for every cut offset k of a file
                           under read_correct's hypotheses (plus: no object list names
                           a path twice), with the SAME chunk list [chunks_c],
                             rd_all (take k bytes) = Ok (expected_tokens stc hc chunks_c, true)
                             lz_read_bytes (take k bytes) (ch_path c) offs len
                               = Ok (window_of offs len (chan_values (ch_path c) chunks_c))
                           for every channel c of the cut file's hierarchy, every
                           offs >= 0 and every len (None or >= 0); negative
                           arguments are rejected; prefix / no-loss / length
                           clauses as in TruncValuesFile.truncation_values_prefix. *)
From Coq Require Import List ZArith Bool Lia ZifyBool.
From Coq Require Import Init.Byte.
Import ListNotations.
From NpTdms Require Import Base.Bytes Base.Res Base.PySlice Model.Tokens Model.TokensWf Model.SegState
     Model.Layout Model.Reader Model.FileSyn Model.LazyRead Model.LazyBytes
     Proofs.TokensRoundtrip Proofs.SegStateProofs Proofs.LayoutProofs Proofs.FileSynProofs
     Proofs.SegStateInherit Proofs.SegStateExplicit Proofs.TruncProofs Proofs.ReadCorrect
     Proofs.TruncValuesLayout Proofs.TruncValuesFile
     Proofs.LazyReadLemmas Proofs.LazyReadProofs Proofs.LazyTopProofs Proofs.LazyWindowProofs
     Proofs.LazyEagerIndex Proofs.LazyEagerView Proofs.LazyEagerTop Proofs.TruncLazyLayout.
Local Open Scope Z_scope.
Ltac Zify.zify_post_hook ::= Z.to_euclidean_division_equations.

(* ======================================================================== *)
(* The metadata pass with indexes on the cut file                             *)
(* ======================================================================== *)

Lemma same_but_index_set_version st st' v :
  same_but_index st st' -> same_but_index (set_version st v) (set_version st' v).
Proof.
  intros (Rs & Rpo & Rom & Rver). unfold same_but_index, set_version.
  cbn [rs_segments rs_prev_objs rs_om rs_version]. rewrite Rver. repeat split; assumption.
Qed.

Lemma step_state_index_sim s inc np pos pi pi' st st' objs props nch fin po om ps :
  same_but_index st st' -> cache_ok (rs_cache st') -> idx_ok true ps pi' ->
  read_segment_objects (fs_toc s) (fs_meta s) (rs_prev_objs st') ps = Ok (objs, props) ->
  same_but_index (step_state s inc np false pos pi st objs props nch fin po om)
                 (step_state s inc np true pos pi' st' objs props nch fin po om) /\
  cache_ok (rs_cache (step_state s inc np true pos pi' st' objs props nch fin po om)) /\
  idx_ok true (Some objs) (fst (step_idx s true pi' st' objs)).
Proof.
  intros (Rs & Rpo & Rom & Rver) Hc Hi H1.
  destruct (seg_ic_index s true pi' (rs_cache st') objs ps props _ _ Hc Hi H1) as [Hidx Hc'].
  change (seg_ic s true pi' (rs_cache st') objs) with (step_idx s true pi' st' objs) in Hidx, Hc'.
  split; [|split].
  - unfold same_but_index, step_state. cbn [rs_segments rs_prev_objs rs_om rs_version].
    split; [|split; [reflexivity|split; [reflexivity|rewrite Rver; reflexivity]]].
    rewrite Rs, map_app. f_equal. cbn [map]. unfold with_index, step_seg.
    cbn [sg_pos sg_toc sg_next sg_data sg_incomplete sg_objs sg_nchunks sg_final].
    rewrite Hidx. reflexivity.
  - unfold step_state. cbn [rs_cache]. exact Hc'.
  - intros b Hb. injection Hb as <-. exact Hidx.
Qed.

Lemma cut_loop_index_sim : forall segs k pos ps pi pi' st st' stc,
    cut_loop segs k false pos ps pi st = Ok stc ->
    same_but_index st st' -> cache_ok (rs_cache st') -> idx_ok true ps pi' ->
    exists stc', cut_loop segs k true pos ps pi' st' = Ok stc' /\ same_but_index stc stc'.
Proof.
  induction segs as [|s r IH]; intros k pos ps pi pi' st st' stc H Hrel Hc Hi.
  - cbn [cut_loop] in *. injection H as <-. exists st'. split; [reflexivity|exact Hrel].
  - cbn [cut_loop] in *.
    destruct (k <? pos + 28).
    { injection H as <-. exists st'. split; [reflexivity|exact Hrel]. }
    destruct (k <? pos + 28 + blen (fs_meta_bytes s)).
    { injection H as <-. eexists. split; [reflexivity|]. apply same_but_index_set_version. exact Hrel. }
    pose proof Hrel as (Rs & Rpo & Rom & Rver).
    destruct (k <? pos + 28 + blen (fs_meta_bytes s) + blen (fs_data s)).
    + rewrite seg_step_g_spec in H |- *. rewrite Rpo, Rom.
      destruct (read_segment_objects _ _ _ _) as [[objs props]|e] eqn:Ero; cbn [bind] in *; [|discriminate].
      destruct (calculate_chunks _ _ _ _) as [[nch fin]|e]; cbn [bind] in *; [|discriminate].
      destruct (update_object_metadata _ _ _ _ _) as [[po om]|e]; cbn [bind] in *; [|discriminate].
      injection H as <-. eexists. split; [reflexivity|].
      rewrite <- Rpo in Ero.
      exact (proj1 (step_state_index_sim s true k pos pi pi' st st' objs props nch fin po om ps Hrel Hc Hi Ero)).
    + rewrite seg_step_g_spec in H |- *. rewrite Rpo, Rom.
      destruct (read_segment_objects _ _ _ _) as [[objs props]|e] eqn:Ero; cbn [bind] in *; [|discriminate].
      destruct (calculate_chunks _ _ _ _) as [[nch fin]|e]; cbn [bind] in *; [|discriminate].
      destruct (update_object_metadata _ _ _ _ _) as [[po om]|e]; cbn [bind] in *; [|discriminate].
      rewrite <- Rpo in Ero.
      destruct (step_state_index_sim s false (pos + 28 + blen (fs_meta_bytes s) + blen (fs_data s))
                                     pos pi pi' st st' objs props nch fin po om ps Hrel Hc Hi Ero)
        as (Hrel' & Hc' & Hi').
      exact (IH _ _ _ _ _ _ _ _ H Hrel' Hc' Hi').
Qed.

Lemma cut_run_with_index segs k stc :
  cut_loop segs k false 0 None [] rstate0 = Ok stc ->
  exists stc', cut_loop segs k true 0 None [] rstate0 = Ok stc' /\ same_but_index stc stc'.
Proof.
  intros H. apply (cut_loop_index_sim segs k 0 None [] [] rstate0 rstate0 stc H).
  - unfold same_but_index. repeat split; reflexivity.
  - exact cache_ok_nil.
  - intros b Hb. discriminate Hb.
Qed.

(* ======================================================================== *)
(* The segment records of the cut file, with indexes                          *)
(* ======================================================================== *)

Lemma cut_of_with_index g k gc : cut_of g k gc -> cut_of (with_index g) k (with_index gc).
Proof. intros H. exact H. Qed.

Lemma cut_segs_with_index pos segs k gs gsc n :
  cut_segs pos segs k gs gsc n -> cut_segs pos segs k (map with_index gs) (map with_index gsc) n.
Proof.
  induction 1 as [pos k|pos s r k g gs Hk|pos s r k g gs gc Hk Hc|pos s r k g gs gsc n Hk _ IH]; cbn [map].
  - constructor.
  - apply cs_stop. exact Hk.
  - apply cs_data; [exact Hk|apply cut_of_with_index; exact Hc].
  - apply cs_whole; [exact Hk|exact IH].
Qed.

Lemma cut_segs_objs pos segs k gs gsc n :
  cut_segs pos segs k gs gsc n ->
  forall gc, In gc gsc -> exists g, In g gs /\ sg_objs gc = sg_objs g.
Proof.
  induction 1 as [pos k|pos s r k g gs Hk|pos s r k g gs gc Hk Hc|pos s r k g gs gsc n Hk _ IH];
    intros x Hx.
  - destruct Hx.
  - destruct Hx.
  - destruct Hx as [<-|[]]. exists g. split; [left; reflexivity|].
    destruct Hc as (_ & _ & _ & _ & _ & Ho & _). exact Ho.
  - destruct Hx as [Hx|Hx].
    + subst x. exists g. split; [left; reflexivity|reflexivity].
    + destruct (IH x Hx) as (g0 & Hg0 & Ho). exists g0. split; [right; exact Hg0|exact Ho].
Qed.

Lemma read_segment_with_index D g : read_segment D (with_index g) = read_segment D g.
Proof. reflexivity. Qed.

Lemma seg_total_with_index p g : seg_total p (with_index g) = seg_total p g.
Proof. reflexivity. Qed.

(* ======================================================================== *)
(* Eager chunks and lazy views of the cut file, record by record              *)
(* ======================================================================== *)

(* every record is read into its list of chunks *)
Definition reads (D : bytes) (gsc : list segment) (css : list (list chunk)) : Prop :=
  Forall2 (fun g cs => read_segment D g = Ok cs /\ Forall only_cdata cs) gsc css.

Lemma reads_with_index D gsc css : reads D (map with_index gsc) css -> reads D gsc css.
Proof.
  unfold reads. revert css. induction gsc as [|g gsc IH]; intros css H; inversion H; subst; constructor.
  - assumption.
  - apply IH. assumption.
Qed.

(* the eager data pass appends the chunks that were read *)
Lemma eager_fold_reads D : forall gsc css,
    reads D gsc css ->
    forall recv,
      (forall c kv, In c (concat css) -> In kv c -> is_data_receiver (alookup (fst kv) recv)) ->
      exists recv', fold_left (eager_step D) gsc (Ok recv) = Ok recv' /\
                    forall p, alookup p recv' = option_map (radd (chan_values p (concat css))) (alookup p recv).
Proof.
  induction 1 as [|g cs gsc css [Hread Hcd] _ IH]; intros recv Hb.
  - exists recv. split; [reflexivity|]. intros p. cbn [concat]. apply radd_nil_lookup.
  - cbn [fold_left concat] in *. unfold eager_step at 2. cbn [bind]. rewrite Hread. cbn [bind].
    destruct (receive_chunks_concat cs recv Hcd) as (recv1 & H1 & Hlk1).
    { intros c kv Hc Hin. apply (Hb c kv); [apply in_or_app; left; exact Hc|exact Hin]. }
    rewrite H1.
    destruct (IH recv1) as (recv' & H2 & Hlk2).
    { intros c kv Hc Hin. rewrite Hlk1. apply is_data_receiver_radd.
      apply (Hb c kv); [apply in_or_app; right; exact Hc|exact Hin]. }
    exists recv'. split; [exact H2|]. intros p. rewrite Hlk2, Hlk1, chan_values_app.
    destruct (alookup p recv) as [x|]; cbn [option_map]; [|reflexivity].
    rewrite radd_app. reflexivity.
Qed.

Lemma lazy_loop_cut : forall pos segs k gs gsc n,
    cut_segs pos segs k gs gsc n ->
    forall chunkss pre,
      wf_file segs -> pos = blen pre ->
      segs_at pos segs gs -> segs_encode gs segs chunkss ->
      Forall seg_ready gs -> Forall seg_ready gsc ->
      exists css_c,
        reads (take k (pre ++ ser_file segs)) gsc css_c /\
        (forall c kv, In c (concat css_c) -> In kv c ->
                      exists g o, In g gsc /\ In o (sg_objs g) /\ so_path o = fst kv /\ so_dtype o <> None) /\
        (forall p, is_prefix (chan_values p (concat css_c)) (chan_values p (concat chunkss))) /\
        (forall p, is_prefix (chan_values p (concat (firstn n chunkss))) (chan_values p (concat css_c))) /\
        (forall p, zsum (map (seg_total p) gsc) = Z.of_nat (length (chan_values p (concat css_c)))) /\
        (forall p, exists svs,
            mapM (segv_of (take k (pre ++ ser_file segs)) p) gsc = Ok svs /\
            wf bytes svs = true /\
            full bytes svs = chan_values p (concat css_c) /\
            total_values bytes svs = zsum (map (seg_total p) gsc)).
Proof.
  induction 1 as [pos k|pos s r k g gs Hk|pos s r k g gs gc Hk Hc|pos s r k g gs gsc n Hk Hcs IH];
    intros chunkss pre Hwf Hpos Hat Henc Hready Hreadyc.
  - exists []. split; [constructor|]. split; [intros c kv []|]. split; [intros p; apply is_prefix_nil|].
    split; [intros p; destruct chunkss; apply is_prefix_refl|]. split; [reflexivity|].
    intros p. exists []. repeat split; reflexivity.
  - exists []. split; [constructor|]. split; [intros c kv []|]. split; [intros p; apply is_prefix_nil|].
    split; [intros p; apply is_prefix_refl|]. split; [reflexivity|].
    intros p. exists []. repeat split; reflexivity.
  - (* the cut segment *)
    inversion Hat as [|pos' s' r' g' gs' Hg Hat']; subst pos' s' r' g' gs'.
    inversion Henc as [|g' gs' s' r' cs css Hcse Henc']; subst g' gs' s' r' chunkss.
    inversion Hready as [|x y (Hndg & _ & Hnvg) _]; subst x y.
    inversion Hreadyc as [|x y (_ & Hidxc & _) _]; subst x y.
    unfold wf_file in Hwf. cbn [forallb] in Hwf. apply andb_prop in Hwf. destruct Hwf as [Hs Hr].
    destruct Hc as (Hcp & Hct & Hcd & Hcn & Hci & Hco & Hcc).
    destruct Hg as (Hgp & Hgt & Hgd & Hgn & Hgi & Hgcc).
    unfold fseg_len in Hk.
    assert (Hj : 0 <= k - sg_data g < blen (fs_data s)) by (rewrite Hgd; lia).
    pose proof (wf_seg_leadin false s Hs) as HwfL. change (tag_of false) with TAG_DATA in HwfL.
    pose proof (ser_leadin_length _ HwfL) as HlenL.
    pose proof (blen_nonneg (fs_meta_bytes s)) as Hm0.
    assert (Hbytes : take k (pre ++ ser_file (s :: r))
                     = pre ++ ser_leadin (seg_leadin TAG_DATA s) ++ fs_meta_bytes s
                           ++ take (k - sg_data g) (fs_data s)).
    { rewrite ser_file_cons, ser_seg_eq. rewrite <- !app_assoc.
      rewrite take_app_ge by lia. f_equal. rewrite take_app_ge by lia.
      rewrite HlenL. f_equal. rewrite take_app_ge by lia. f_equal.
      rewrite take_app_le by lia. f_equal. lia. }
    set (D := take k (pre ++ ser_file (s :: r))) in *.
    assert (HreadD : read_segment D gc =
                     (do '(cs0, _) <- read_segment_chunks gc (take (k - sg_data g) (fs_data s)); Ok cs0)).
    { rewrite Hbytes. apply (read_segment_at pre s _ gc Hs); lia. }
    destruct (segv_of_cut D g gc (fs_data s) cs (k - sg_data g) Hcse Hj Hct Hco Hcc Hndg Hidxc Hnvg HreadD)
      as (chunks' & Hread & Hcd' & Hkeys & Hpre & Hcount & Hview).
    exists [chunks']. cbn [concat]. rewrite app_nil_r.
    split; [constructor; [split; assumption|constructor]|].
    split.
    { intros c kv Hc Hkv. destruct (Hkeys c kv Hc Hkv) as (o & Ho & Hp & Hty).
      exists gc, o. split; [left; reflexivity|]. rewrite Hco. split; [exact Ho|]. split; assumption. }
    split; [intros p; rewrite chan_values_app; apply is_prefix_app_r; apply Hpre|].
    split; [intros p; cbn [firstn concat]; apply is_prefix_nil|].
    split; [intros p; cbn [map zsum fold_right]; rewrite <- Hcount; lia|].
    intros p. destruct (Hview p) as (sv & Hsv & Hwfsv & Hvals & Hnum).
    exists [sv]. cbn [mapM]. rewrite Hsv. cbn [bind]. split; [reflexivity|].
    split; [unfold wf; cbn [forallb]; rewrite Hwfsv; reflexivity|].
    split; [unfold full; cbn [map concat]; rewrite Hvals, app_nil_r; reflexivity|].
    cbn [total_values map zsum fold_right]. rewrite Hnum. reflexivity.
  - (* a segment wholly before the cut *)
    inversion Hat as [|pos' s' r' g' gs' Hg Hat']; subst pos' s' r' g' gs'.
    inversion Henc as [|g' gs' s' r' cs css Hcs' Henc']; subst g' gs' s' r' chunkss.
    inversion Hready as [|x y (Hndg & Hidxg & Hnvg) Hready']; subst x y.
    inversion Hreadyc as [|x y _ Hreadyc']; subst x y.
    unfold wf_file in Hwf. cbn [forallb] in Hwf. apply andb_prop in Hwf. destruct Hwf as [Hs Hr].
    pose proof (blen_ser_seg_data s Hs) as Hbs.
    destruct (IH css (pre ++ ser_seg TAG_DATA true s) Hr) as (cc & Hreads & Hkeys & Hpre & Hlow & Hcount & Hview);
      [rewrite blen_app, Hbs; lia|exact Hat'|exact Henc'|exact Hready'|exact Hreadyc'|].
    set (D := take k (pre ++ ser_file (s :: r))) in *.
    assert (Hd2 : take k ((pre ++ ser_seg TAG_DATA true s) ++ ser_file r) = D).
    { unfold D. rewrite ser_file_cons, <- app_assoc. reflexivity. }
    rewrite Hd2 in Hreads, Hview.
    pose proof (blen_nonneg (fs_meta_bytes s)) as Hm0. pose proof (blen_nonneg (fs_data s)) as Hd0.
    assert (HD : D = pre ++ ser_seg TAG_DATA true s ++ take (k - blen pre - fseg_len s) (ser_file r)).
    { unfold D. rewrite ser_file_cons. unfold fseg_len in Hk, Hbs |- *. rewrite take_app_ge by lia.
      rewrite take_app_ge by (rewrite Hbs; lia). rewrite Hbs. reflexivity. }
    rewrite Hpos in Hg.
    assert (Hread : read_segment D g = Ok cs).
    { rewrite HD. exact (read_segment_encoded pre s _ g cs Hs Hg Hcs'). }
    exists (cs :: cc). cbn [concat].
    split; [constructor; [split; [exact Hread|exact (seg_encodes_only_cdata _ _ _ Hcs')]|exact Hreads]|].
    split.
    { intros c kv Hc Hkv. apply in_app_or in Hc. destruct Hc as [Hc|Hc].
      - destruct (seg_encodes_keys g _ cs Hcs' c kv Hc Hkv) as (o & Ho & Hp & Hty).
        exists g, o. split; [left; reflexivity|]. split; [exact Ho|]. split; assumption.
      - destruct (Hkeys c kv Hc Hkv) as (g0 & o & Hg0 & Ho & Hp & Hty).
        exists g0, o. split; [right; exact Hg0|]. split; [exact Ho|]. split; assumption. }
    split; [intros p; rewrite !chan_values_app; apply is_prefix_app_l; apply Hpre|].
    split; [intros p; cbn [firstn concat]; rewrite !chan_values_app; apply is_prefix_app_l; apply Hlow|].
    split.
    { intros p. cbn [map zsum fold_right]. fold (zsum (map (seg_total p) gsc)).
      rewrite Hcount, chan_values_app, app_length, Nat2Z.inj_add.
      destruct Hg as (_ & _ & _ & _ & _ & Hgcc).
      rewrite (seg_encodes_count g (fs_data s) cs p Hcs' Hgcc). reflexivity. }
    intros p. destruct (Hview p) as (svs & Hsvs & Hwfs & Hfull & Htots).
    destruct (segv_of_encoded pre s (take (k - blen pre - fseg_len s) (ser_file r)) g cs p
                              Hs Hg Hcs' Hndg Hidxg Hnvg) as (sv & Hsv & Hwfsv & Hvals & Htot).
    rewrite <- HD in Hsv.
    exists (sv :: svs). cbn [mapM]. rewrite Hsv. cbn [bind]. rewrite Hsvs. cbn [bind].
    split; [reflexivity|].
    split; [unfold wf; cbn [forallb]; rewrite Hwfsv; exact Hwfs|].
    split; [unfold full in *; cbn [map concat]; rewrite Hfull, Hvals, chan_values_app; reflexivity|].
    cbn [total_values map zsum fold_right]. rewrite Htot, Htots. reflexivity.
Qed.

(* ======================================================================== *)
(* Composition: reading a cut file eagerly and lazily                         *)
(* ======================================================================== *)

Lemma Forall_map_with_index_ready gsc :
  (forall gc, In gc gsc -> NoDup (map so_path (sg_objs gc)) /\ Forall nvals_ok (sg_objs gc)) ->
  Forall seg_ready (map with_index gsc).
Proof.
  intros H. apply Forall_forall. intros g' Hg'. apply in_map_iff in Hg'. destruct Hg' as (g & <- & Hg).
  destruct (H g Hg) as [Hnd Hnv]. split; [exact Hnd|]. split; [reflexivity|exact Hnv].
Qed.

Lemma map_seg_total_with_index p gsc :
  map (seg_total p) (map with_index gsc) = map (seg_total p) gsc.
Proof. rewrite map_map. reflexivity. Qed.

Theorem cut_read_lazy_core segs st h chunkss k :
  wf_file segs ->
  sm_run segs false = Ok st ->
  build_hierarchy (rs_om st) = Ok h ->
  segs_encode (rs_segments st) segs chunkss ->
  om_paths_canonical (rs_om st) ->
  typed_objects_are_channels (rs_om st) ->
  seg_paths_distinct st ->
  0 <= k <= blen (ser_file segs) ->
  exists stc hc chunks_c,
    cut_loop segs k false 0 None [] rstate0 = Ok stc /\
    build_hierarchy (rs_om stc) = Ok hc /\
    rd_all (take k (ser_file segs)) = Ok (expected_tokens stc hc chunks_c, true) /\
    (forall p, is_prefix (chan_values p chunks_c) (chan_values p (concat chunkss))) /\
    (forall p, is_prefix (chan_values p (concat (firstn (whole_count 0 segs k) chunkss)))
                         (chan_values p chunks_c)) /\
    (forall c, In c (all_channels hc) ->
               ch_len c = Z.of_nat (length (chan_values (ch_path c) chunks_c))) /\
    last_inc (rs_segments stc) = cut_in_data 0 segs k /\
    (forall c, In c (all_channels hc) ->
               exists svs, channel_view (take k (ser_file segs)) (ch_path c) = Ok (svs, ch_dtype c) /\
                           wf bytes svs = true /\
                           full bytes svs = chan_values (ch_path c) chunks_c /\
                           total_values bytes svs = ch_len c) /\
    (forall c, In c (all_channels hc) -> ch_dtype c = None -> chan_values (ch_path c) chunks_c = []).
Proof.
  intros Hwf Hrun Hh Henc Hcanon Hshape Hdist Hk.
  pose proof Hrun as Hrun0. unfold sm_run in Hrun.
  destruct (cut_trace segs false k 0 None [] rstate0 st Hrun)
    as (stc & gs & gsc & n & Hcut & Hsegs & Hat & Hsegsc & Hcs & Hlen & Hnd & Htyped & Hext).
  cbn [rstate0 rs_segments rs_om app] in Hsegs, Hsegsc, Hlen, Hnd, Htyped.
  pose proof Henc as Henc0. rewrite Hsegs in Henc.
  (* the records with indexes *)
  destruct (cut_run_with_index segs k stc Hcut) as (stc' & Hcut' & (Rs & _ & Rom & _)).
  pose proof (cut_segs_with_index _ _ _ _ _ _ Hcs) as Hcs'.
  pose proof (sm_run_nvals_nonneg segs false st Hwf Hrun0) as Hnv.
  assert (Hobjs_ok : forall g, In g gs -> NoDup (map so_path (sg_objs g)) /\ Forall nvals_ok (sg_objs g)).
  { intros g Hg. rewrite <- Hsegs in Hg. split; [|exact (Hnv g Hg)].
    unfold seg_paths_distinct in Hdist. rewrite Forall_forall in Hdist. exact (Hdist g Hg). }
  assert (Hready : Forall seg_ready (map with_index gs)) by (apply Forall_map_with_index_ready; exact Hobjs_ok).
  assert (Hreadyc : Forall seg_ready (map with_index gsc)).
  { apply Forall_map_with_index_ready. intros gc Hgc.
    destruct (cut_segs_objs _ _ _ _ _ _ Hcs gc Hgc) as (g & Hg & Ho). rewrite Ho. exact (Hobjs_ok g Hg). }
  assert (Hat' : segs_at 0 segs (map with_index gs)).
  { destruct (sm_run_with_index segs st Hrun0) as (st' & Hrun' & (Rs' & _)).
    pose proof (sm_segment_positions segs true st' Hrun') as H. rewrite Rs', Hsegs in H. exact H. }
  destruct (lazy_loop_cut 0 segs k _ _ n Hcs' chunkss [] Hwf eq_refl Hat'
                          (segs_encode_with_index _ _ _ Henc) Hready Hreadyc)
    as (css_c & Hreads & Hkeys & Hpre & Hlow & Hcount & Hview).
  cbn [app] in Hreads, Hview.
  set (cc := concat css_c) in *.
  assert (Hcount0 : forall p, zsum (map (seg_total p) gsc) = Z.of_nat (length (chan_values p cc))).
  { intros p. rewrite <- (Hcount p), map_seg_total_with_index. reflexivity. }
  clear Hcount. rename Hcount0 into Hcount.
  specialize (Hnd (NoDup_nil _)).
  destruct (sm_run_trace segs false st Hrun0) as (_ & _ & Hndfull & _).
  pose proof (om_ext_canonical _ _ Hext Hcanon) as Hcanonc.
  pose proof (om_ext_typed_channels _ _ Hnd Hext Hshape) as Hshapec.
  destruct (build_hierarchy_ok (rs_om stc) (om_ext_parses _ _ h Hext Hh)) as [hc Hhc].
  rewrite <- (cut_segs_count _ _ _ _ _ _ Hcs).
  assert (Hkeys0 : forall c kv, In c cc -> In kv c ->
                                exists g o, In g gsc /\ In o (sg_objs g) /\ so_path o = fst kv /\ so_dtype o <> None).
  { intros c kv Hc Hkv. destruct (Hkeys c kv Hc Hkv) as (g' & o & Hg' & Ho & Hp & Hty).
    apply in_map_iff in Hg'. destruct Hg' as (g & <- & Hg). exists g, o. repeat split; assumption. }
  assert (Hlens : forall c, In c (all_channels hc) ->
                            ch_len c = Z.of_nat (length (chan_values (ch_path c) cc))).
  { intros c Hc.
    destruct (chan_from_om_canonical _ c Hcanonc (build_hierarchy_channels _ _ Hhc c Hc))
      as (m & Hin & _ & _ & Hl).
    pose proof (alookup_in_nodup _ m (rs_om stc) Hnd Hin) as Hlk.
    rewrite Hl, <- Hcount. specialize (Hlen (ch_path c)). unfold get_ometa in Hlen.
    rewrite Hlk in Hlen. cbn [alookup ometa0 om_len] in Hlen. lia. }
  exists stc, hc, cc. split; [exact Hcut|]. split; [exact Hhc|].
  split; [|split; [exact Hpre|split; [exact Hlow|split; [exact Hlens|split; [|split]]]]].
  - apply rd_all_assemble.
    + rewrite blen_take by exact Hk. rewrite (rd_metadata_cut segs k false Hwf Hk). exact Hcut.
    + exact Hhc.
    + rewrite Hsegsc. apply eager_fold_reads. apply reads_with_index. exact Hreads.
    + intros c kv Hc Hkv. destruct (Hkeys0 c kv Hc Hkv) as (g & o & Hg & Ho & Hp & Hty).
      destruct (Htyped (so_path o)) as (m & Hm & Hmty).
      { right. exists g, o. split; [exact Hg|]. split; [exact Ho|]. split; [reflexivity|exact Hty]. }
      apply alookup_In in Hm. destruct (Hshapec _ m Hm Hmty) as (gn & cn & Hparse).
      exists (chan_of_om gn cn m). split; [|split].
      * exact (build_hierarchy_complete _ hc _ m gn cn Hhc Hnd Hcanonc Hm Hparse).
      * change (path_to_string (Some gn) (Some cn) = fst kv).
        rewrite (Hcanonc _ m gn cn Hm Hparse). exact Hp.
      * exact Hmty.
    + intros ch Hch Hdt.
      destruct (build_hierarchy_channels _ _ Hhc ch Hch) as (pstr & m & Hin & Hparse & Heq).
      assert (Hm : om_dtype m = Some T_DAQMX) by (rewrite <- Hdt, Heq; reflexivity).
      pose proof (alookup_in_nodup pstr m _ Hnd Hin) as Hlk.
      destruct (Hext pstr m Hlk) as (m' & Hm' & Hd).
      apply alookup_In in Hm'.
      pose proof (build_hierarchy_complete _ h pstr m' _ _ Hh Hndfull Hcanon Hm' Hparse) as Hchf.
      apply (no_daqmx_channels_ser segs false st h chunkss Hrun0 Hh Henc0 _ Hchf).
      cbn [chan_of_om ch_dtype]. rewrite Hd; [exact Hm|]. rewrite Hm. discriminate.
    + exact (channel_paths_distinct_ser _ hc Hhc Hcanonc).
    + intros c Hc _. symmetry. apply Hlens. exact Hc.
  - rewrite Hsegsc. exact (cut_segs_last _ _ _ _ _ _ Hcs Hat).
  - (* the lazy view of a channel *)
    intros c Hc.
    destruct (chan_from_om_canonical _ c Hcanonc (build_hierarchy_channels _ _ Hhc c Hc))
      as (m & Hin & _ & Hdt & Hl).
    pose proof (alookup_in_nodup _ m (rs_om stc) Hnd Hin) as Hlk.
    destruct (Hview (ch_path c)) as (svs & Hsvs & Hwfs & Hfull & Htot).
    exists svs. unfold channel_view.
    rewrite blen_take by exact Hk. rewrite (rd_metadata_cut segs k true Hwf Hk), Hcut'. cbn [bind].
    rewrite Rs, Hsegsc, Hsvs. cbn [bind]. rewrite Rom, Hlk, Hdt.
    split; [reflexivity|]. split; [exact Hwfs|]. split; [exact Hfull|].
    rewrite Htot, map_seg_total_with_index, Hcount. symmetry. apply Hlens. exact Hc.
  - (* a channel without data type holds no values *)
    intros c Hc Hunt.
    destruct (chan_from_om_canonical _ c Hcanonc (build_hierarchy_channels _ _ Hhc c Hc))
      as (m & Hin & _ & Hdt & _).
    pose proof (alookup_in_nodup _ m (rs_om stc) Hnd Hin) as Hlk.
    unfold chan_values. rewrite flat_map_concat_map. apply concat_nil_Forall. apply Forall_map.
    apply Forall_forall. intros ch Hch. apply chunk_values_not_in. intros Hinp.
    apply in_map_iff in Hinp. destruct Hinp as (kv & Hkp & Hkv).
    destruct (Hkeys0 ch kv Hch Hkv) as (g & o & Hg & Ho & Hp & Hty).
    destruct (Htyped (so_path o)) as (m' & Hm' & Hmty).
    { right. exists g, o. split; [exact Hg|]. split; [exact Ho|]. split; [reflexivity|exact Hty]. }
    rewrite Hp, Hkp, Hlk in Hm'. injection Hm' as <-. apply Hmty. rewrite <- Hdt. exact Hunt.
Qed.

(* the composed statement *)
Theorem truncation_lazy_eq_eager segs st h chunkss k :
  wf_file segs ->
  sm_run segs false = Ok st ->
  build_hierarchy (rs_om st) = Ok h ->
  segs_encode (rs_segments st) segs chunkss ->
  om_paths_canonical (rs_om st) ->
  typed_objects_are_channels (rs_om st) ->
  seg_paths_distinct st ->
  4 <= k <= blen (ser_file segs) ->
  exists stc hc chunks_c,
    rd_metadata (take k (ser_file segs)) false (Some k) false = Ok stc /\
    build_hierarchy (rs_om stc) = Ok hc /\
    rd_all (take k (ser_file segs)) = Ok (expected_tokens stc hc chunks_c, true) /\
    (forall p, is_prefix (chan_values p chunks_c) (chan_values p (concat chunkss)) /\
               is_prefix (chan_values p (concat (firstn (whole_count 0 segs k) chunkss)))
                         (chan_values p chunks_c)) /\
    (forall c, In c (all_channels hc) ->
               ch_len c = Z.of_nat (length (chan_values (ch_path c) chunks_c))) /\
    (exists rest, obs_status stc = TZ (if cut_in_data 0 segs k then 1 else 0) :: rest) /\
    (* lazy = eager: every window of every channel of the cut file *)
    (forall c offs len, In c (all_channels hc) -> 0 <= offs -> len_nonneg len ->
        lz_read_bytes (take k (ser_file segs)) (ch_path c) offs len
        = Ok (window_of offs len (chan_values (ch_path c) chunks_c))) /\
    (forall c offs len, In c (all_channels hc) -> ch_dtype c <> None ->
        offs < 0 \/ (exists l, len = Some l /\ l < 0) ->
        lz_read_bytes (take k (ser_file segs)) (ch_path c) offs len = Err EValue).
Proof.
  intros Hwf Hrun Hh Henc Hcanon Hshape Hdist Hk.
  destruct (cut_read_lazy_core segs st h chunkss k Hwf Hrun Hh Henc Hcanon Hshape Hdist ltac:(lia))
    as (stc & hc & cc & Hcut & Hhc & Hread & Hpre & Hlow & Hlens & Hlast & Hview & Hunt).
  exists stc, hc, cc. rewrite (rd_metadata_cut segs k false Hwf ltac:(lia)).
  split; [exact Hcut|]. split; [exact Hhc|]. split; [exact Hread|].
  split; [intros p; split; [apply Hpre|apply Hlow]|]. split; [exact Hlens|].
  split; [rewrite <- Hlast; apply obs_status_head|]. split.
  - intros c offs len Hc Hoffs Hlen.
    destruct (Hview c Hc) as (svs & Hv & Hwfs & Hfull & _).
    unfold lz_read_bytes. rewrite Hv. cbn [bind].
    destruct (ch_dtype c) as [dt|] eqn:Edt.
    + rewrite (LazyTopProofs.window_correct bytes zero_value (recv_of (Some dt)) svs offs len Hwfs Hoffs Hlen).
      unfold LazyWindowProofs.window. rewrite Hfull. reflexivity.
    + rewrite (Hunt c Hc Edt), window_of_nil. reflexivity.
  - intros c offs len Hc Hty Hneg.
    destruct (Hview c Hc) as (svs & Hv & _).
    unfold lz_read_bytes. rewrite Hv. cbn [bind].
    destruct (ch_dtype c) as [dt|]; [|contradiction].
    apply (lz_read_negative bytes zero_value). exact Hneg.
Qed.
