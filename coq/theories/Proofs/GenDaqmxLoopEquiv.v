(* The CHUNK LOOP of a DAQmx segment, TRANSLATED from the source on every run (Gen/PyFuncsDaqmxLoop.v;
   harness/gen/gen_pyfuncs_daqmxloop.py: BaseDataReader.read_data_chunks as inherited by DaqmxDataReader), is EQUAL to
   Model/Layout.v read_chunks_loop over read_daqmx_chunk, and hence to read_segment_chunks of a DAQmx segment; the
   whole-segment addressing theorems of Props/C11.v hold of the translated reader.

   Abstraction: Proofs/GenDaqmxEquiv.v [rawchunk_chunk_dq], lifted to the list of yielded chunks ([chunks_abs_dq]).
   Domain: [daqmx_objs_ok] (see Proofs/GenDaqmxEquiv.v). *)
From Coq Require Import String Ascii.
From Coq Require Import ZArith List Bool Lia ZifyBool.
From Coq Require Import Init.Byte.
Import ListNotations.
From NpTdms Require Import Base.Bytes Base.Res Base.PySlice Model.Tokens Model.SegState Model.Layout Model.Reader
     Gen.TypeTable Gen.PyFuncsReader Gen.PyFuncsDecode Gen.PyFuncsDaqmxRead Gen.PyFuncsDaqmxLoop
     Proofs.SegStateProofs Proofs.LayoutProofs Proofs.DaqmxProofs Proofs.GenReaderEquiv Proofs.GenDecodeEquiv
     Proofs.GenDecodeRecv Proofs.GenDaqmxEquiv.
Local Open Scope Z_scope.
Ltac Zify.zify_post_hook ::= Z.to_euclidean_division_equations.

Definition chunks_abs_dq (l : list rawchunk) : option (list chunk) := opt_all (map rawchunk_chunk_dq l).

Lemma chunks_abs_dq_snoc l c cs x :
  chunks_abs_dq l = Some cs -> rawchunk_chunk_dq c = Some x -> chunks_abs_dq (l ++ [c]) = Some (cs ++ [x]).
Proof.
  unfold chunks_abs_dq. revert cs. induction l as [|y l IH]; intros cs Hl Hc.
  - cbn in Hl. injection Hl as <-. cbn. rewrite Hc. reflexivity.
  - cbn [map opt_all app] in *. destruct (rawchunk_chunk_dq y) as [yc|]; [|discriminate].
    destruct (opt_all (map rawchunk_chunk_dq l)) as [lc|] eqn:E; [|discriminate]. injection Hl as <-.
    rewrite (IH lc eq_refl Hc). reflexivity.
Qed.

Lemma chunks_abs_dq_nth : forall l cs j rc,
    chunks_abs_dq l = Some cs -> nth_error l j = Some rc ->
    exists c, rawchunk_chunk_dq rc = Some c /\ nth_error cs j = Some c.
Proof.
  unfold chunks_abs_dq. induction l as [|y l IH]; intros cs j rc Hl Hj; [destruct j; discriminate|].
  cbn [map opt_all] in Hl. destruct (rawchunk_chunk_dq y) as [yc|] eqn:Ey; [|discriminate].
  destruct (opt_all (map rawchunk_chunk_dq l)) as [lc|] eqn:E; [|discriminate]. injection Hl as <-.
  destruct j as [|j]; cbn [nth_error] in *.
  - injection Hj as <-. exists yc. split; [exact Ey|reflexivity].
  - exact (IH lc j rc eq_refl Hj).
Qed.

Lemma chunks_abs_dq_length : forall l cs, chunks_abs_dq l = Some cs -> length cs = length l.
Proof.
  unfold chunks_abs_dq. induction l as [|y l IH]; intros cs Hl; cbn [map opt_all] in Hl.
  - injection Hl as <-. reflexivity.
  - destruct (rawchunk_chunk_dq y); [|discriminate].
    destruct (opt_all (map rawchunk_chunk_dq l)) as [lc|] eqn:E; [|discriminate]. injection Hl as <-.
    cbn [length]. f_equal. exact (IH lc eq_refl).
Qed.

(* ---- the loop ------------------------------------------------------------------------------------------------ *)

Lemma daqmx_chunks_loop_eq e objs nc : forall (n : nat) ci ys ysa cur fuel,
    Z.to_nat (nc - ci) = n -> (n <= fuel)%nat ->
    daqmx_objs_ok objs ->
    chunks_abs_dq ys = Some ysa ->
    mapr (fun p => (chunks_abs_dq (fst p), snd p))
         (daqmx_read_data_chunks_gen_loop1 objs e (py_range ci nc) ys cur)
    = mapr (fun p => (Some (ysa ++ fst p), snd p))
           (read_chunks_loop fuel (fun _ b => read_daqmx_chunk e objs b) ci nc cur).
Proof.
  induction n as [|n IH]; intros ci ys ysa cur fuel Hn Hfuel Hok Hys.
  - rewrite py_range_nil by lia. cbn [daqmx_read_data_chunks_gen_loop1 mapr fst snd].
    destruct fuel; cbn [read_chunks_loop]; assert (E : (nc <=? ci) = true) by lia; rewrite E;
      cbn [mapr fst snd]; rewrite Hys, app_nil_r; reflexivity.
  - rewrite py_range_cons in * by lia. cbn [daqmx_read_data_chunks_gen_loop1].
    destruct fuel as [|fuel]; [lia|]. cbn [read_chunks_loop]. assert (E : (nc <=? ci) = false) by lia. rewrite E.
    pose proof (daqmx_read_data_chunk_eq e objs cur ci Hok) as Hc.
    destruct (daqmx_read_data_chunk_gen e cur objs ci) as [[rc f]|er];
      destruct (read_daqmx_chunk e objs cur) as [[c cur1]|er']; cbn [mapr fst snd bind] in *; try discriminate.
    + injection Hc as Hrc ->.
      rewrite (IH (ci + 1) (ys ++ [rc]) (ysa ++ [c]) cur1 fuel) by (try assumption; try lia; apply chunks_abs_dq_snoc; assumption).
      destruct (read_chunks_loop fuel _ (ci + 1) nc cur1) as [[cs cur2]|er2]; cbn [mapr fst snd bind]; [|reflexivity].
      rewrite <- app_assoc. reflexivity.
    + injection Hc as ->. reflexivity.
Qed.

(* BaseDataReader.read_data_chunks of a DaqmxDataReader = read_chunks_loop over read_daqmx_chunk: same chunks (each
   dictionary in order), same file position, same exception; the reader's num_chunks / final_chunk_lengths_override
   attributes (nc0, fin) are not looked at *)
Theorem daqmx_read_data_chunks_eq nc0 fin e objs nc cur fuel :
  (Z.to_nat nc <= fuel)%nat ->
  daqmx_objs_ok objs ->
  mapr (fun p => (chunks_abs_dq (fst p), snd p)) (daqmx_read_data_chunks_gen nc0 fin e cur objs nc)
  = mapr (fun p => (Some (fst p), snd p))
         (read_chunks_loop fuel (fun _ b => read_daqmx_chunk e objs b) 0 nc cur).
Proof.
  intros Hfuel Hok. unfold daqmx_read_data_chunks_gen.
  pose proof (daqmx_chunks_loop_eq e objs nc (Z.to_nat (nc - 0)) 0 [] [] cur fuel eq_refl ltac:(lia) Hok eq_refl) as H.
  destruct (daqmx_read_data_chunks_gen_loop1 objs e (py_range 0 nc) [] cur) as [[ys f]|er];
    cbn [bind mapr fst snd] in *; exact H.
Qed.

(* the reader object TdmsSegment._get_data_reader builds for a segment, and the call TdmsSegment._read_data_chunks makes
   (reader.read_data_chunks(file, data_objects, self.num_chunks)) *)
Definition daqmx_segment_chunks_gen (sg : segment) (cur : bytes) : res (list rawchunk * bytes) :=
  daqmx_read_data_chunks_gen (sg_nchunks sg) (sg_final sg) (toc_endian (sg_toc sg)) cur
                             (data_objs (sg_objs sg)) (sg_nchunks sg).

(* ... is Model/Layout.v read_segment_chunks for a segment whose layout is DAQmx.  (The model's loop carries the fuel
   2 + length of the file; a segment never has more chunks than that: _calculate_chunks divides the segment's byte
   length by a positive chunk size.) *)
Theorem daqmx_segment_chunks_eq sg cur :
  seg_layout sg = Ok LDaqmx ->
  daqmx_objs_ok (data_objs (sg_objs sg)) ->
  (Z.to_nat (sg_nchunks sg) <= S (S (length cur)))%nat ->
  mapr (fun p => (chunks_abs_dq (fst p), snd p)) (daqmx_segment_chunks_gen sg cur)
  = mapr (fun p => (Some (fst p), snd p)) (read_segment_chunks sg cur).
Proof.
  intros Hlay Hok Hfuel. unfold daqmx_segment_chunks_gen, read_segment_chunks. rewrite Hlay. cbn [bind].
  apply daqmx_read_data_chunks_eq; assumption.
Qed.

(* ---- Props/C11.v daqmx_segment_addressing transported ----------------------------------------------------------- *)

Section Addressing.
Variables (nc0 : Z) (fin : option (alist Z)) (e : endian) (objs : list sobj) (nc : Z) (cur : bytes).
Variables (rcs : list rawchunk) (cur' : bytes) (dims : list (Z * Z)).
Hypothesis Hok : daqmx_objs_ok objs.
Hypothesis Hrun : daqmx_read_data_chunks_gen nc0 fin e cur objs nc = Ok (rcs, cur').
Hypothesis Hdims : get_buffer_dimensions_gen objs = Ok dims.

Lemma addressing_setup :
  buffer_dims objs = Ok dims /\ Forall (fun d => 0 <= fst d /\ 0 <= snd d) dims /\
  exists cs, chunks_abs_dq rcs = Some cs /\
             read_chunks_loop (Z.to_nat nc) (fun _ b => read_daqmx_chunk e objs b) 0 nc cur = Ok (cs, cur').
Proof.
  destruct Hok as [Hall [Hsok [Hbn Hdok]]].
  assert (Hd : buffer_dims objs = Ok dims) by (rewrite <- (get_buffer_dimensions_eq objs Hbn); exact Hdims).
  split; [exact Hd|]. split.
  { eapply Forall_impl; [|exact (Hdok dims Hd)]. cbn beta. intros d0 [? ?]. lia. }
  pose proof (daqmx_read_data_chunks_eq nc0 fin e objs nc cur (Z.to_nat nc) (le_n _) Hok) as H.
  rewrite Hrun in H. cbn [mapr fst snd] in H.
  destruct (read_chunks_loop (Z.to_nat nc) _ 0 nc cur) as [[cs c2]|er]; cbn [mapr fst snd] in H; [|discriminate].
  injection H as H1 H2. subst c2. exists cs. split; [exact H1|reflexivity].
Qed.

Theorem daqmx_loop_addressing o q s k n w dt sz j rc :
  In o objs -> NoDup (map so_path objs) -> so_daqmx o = Some q -> so_dtype o = Some T_DAQMX ->
  In s (dq_scalers q) -> NoDup (map sc_id (dq_scalers q)) ->
  nth_error dims k = Some (n, w) -> sc_buf s = Z.of_nat k ->
  daqmx_type (sc_type s) = Some dt -> tds_size dt = Some (Some sz) ->
  nth_error rcs j = Some rc ->
  let base := Z.of_nat j * chunk_bytes dims + buffer_base dims k in
  exists c vs,
    rawchunk_chunk_dq rc = Some c /\
    holds (so_path o) (sc_id s) vs c /\
    length vs = length (items w (read_at base (w * n) cur)) /\
    forall i, (i < length vs)%nat ->
              nth_error vs i = Some (scaler_value_at e (dq_kind q) s dt sz base w cur i).
Proof.
  intros Hin Hnd Hq Hdt Hs Hids Hk Hb Hty Hsz Hj base.
  destruct addressing_setup as [Hd [Hd0 [cs [Habs Hloop]]]].
  destruct (chunks_abs_dq_nth rcs cs j rc Habs Hj) as [c [Hc Hjc]].
  destruct Hok as [Hall [Hsok [Hbn Hdok]]].
  assert (Hw : 0 < w).
  { pose proof (Hdok dims Hd) as Hp. rewrite Forall_forall in Hp. apply nth_error_In in Hk. specialize (Hp _ Hk).
    cbn [snd] in Hp. lia. }
  assert (Hoff : 0 <= sc_off s).
  { rewrite Forall_forall in Hsok. specialize (Hsok o Hin). unfold obj_scalers_ok in Hsok. rewrite Hq in Hsok.
    rewrite Forall_forall in Hsok. destruct (Hsok s Hs) as [H0 _]. exact H0. }
  pose proof (chunk_bytes_nonneg dims Hd0) as Hcb.
  pose proof (buffer_base_nonneg dims k Hd0) as Hbb.
  assert (Hrd : forall (ci : Z) (c0 : bytes) (ch : chunk) (c' : bytes),
             (fun (_ : Z) (c1 : bytes) => read_daqmx_chunk e objs c1) ci c0 = Ok (ch, c') ->
             c' = drop (chunk_bytes dims) c0).
  { intros ci c0 ch c' Hr. exact (read_daqmx_chunk_rest e objs c0 ch c' dims Hr Hd Hd0). }
  destruct (read_chunks_loop_nth _ _ Hrd Hcb _ _ _ _ _ _ Hloop j c Hjc) as [c' Hc'].
  cbv beta in Hc'.
  destruct (DaqmxProofs.daqmx_chunk_addressing e objs _ c c' dims o q s k n w dt sz
                                               Hc' Hd Hd0 Hin Hnd Hq Hdt Hs Hids Hk Hb Hw Hoff Hty Hsz)
    as [vs [Hh [Hl Hnth]]].
  exists c, vs. split; [exact Hc|]. split; [exact Hh|].
  rewrite read_at_drop in Hl by nia. split; [exact Hl|].
  intros i Hi. rewrite (Hnth i Hi). f_equal.
  apply scaler_value_at_drop; nia.
Qed.

Theorem daqmx_loop_addressing_typed o q s dto k n w dt sz j rc :
  In o objs -> NoDup (map so_path objs) -> so_daqmx o = Some q ->
  so_dtype o = Some dto -> dto <> T_DAQMX -> dq_scalers q = [s] ->
  nth_error dims k = Some (n, w) -> sc_buf s = Z.of_nat k ->
  daqmx_type (sc_type s) = Some dt -> tds_size dt = Some (Some sz) ->
  nth_error rcs j = Some rc ->
  let base := Z.of_nat j * chunk_bytes dims + buffer_base dims k in
  exists c vs,
    rawchunk_chunk_dq rc = Some c /\
    alookup (so_path o) c = Some (CData vs) /\
    length vs = length (items w (read_at base (w * n) cur)) /\
    forall i, (i < length vs)%nat ->
              nth_error vs i = Some (scaler_value_at e (dq_kind q) s dt sz base w cur i).
Proof.
  intros Hin Hnd Hq Hdt Hne Hs Hk Hb Hty Hsz Hj base.
  destruct addressing_setup as [Hd [Hd0 [cs [Habs Hloop]]]].
  destruct (chunks_abs_dq_nth rcs cs j rc Habs Hj) as [c [Hc Hjc]].
  destruct Hok as [Hall [Hsok [Hbn Hdok]]].
  assert (Hw : 0 < w).
  { pose proof (Hdok dims Hd) as Hp. rewrite Forall_forall in Hp. apply nth_error_In in Hk. specialize (Hp _ Hk).
    cbn [snd] in Hp. lia. }
  assert (Hoff : 0 <= sc_off s).
  { rewrite Forall_forall in Hsok. specialize (Hsok o Hin). unfold obj_scalers_ok in Hsok. rewrite Hq in Hsok.
    rewrite Forall_forall in Hsok. rewrite Hs in Hsok. destruct (Hsok s (or_introl eq_refl)) as [H0 _]. exact H0. }
  pose proof (chunk_bytes_nonneg dims Hd0) as Hcb.
  pose proof (buffer_base_nonneg dims k Hd0) as Hbb.
  assert (Hrd : forall (ci : Z) (c0 : bytes) (ch : chunk) (c' : bytes),
             (fun (_ : Z) (c1 : bytes) => read_daqmx_chunk e objs c1) ci c0 = Ok (ch, c') ->
             c' = drop (chunk_bytes dims) c0).
  { intros ci c0 ch c' Hr. exact (read_daqmx_chunk_rest e objs c0 ch c' dims Hr Hd Hd0). }
  destruct (read_chunks_loop_nth _ _ Hrd Hcb _ _ _ _ _ _ Hloop j c Hjc) as [c' Hc'].
  cbv beta in Hc'.
  destruct (DaqmxProofs.daqmx_chunk_addressing_typed e objs _ c c' dims o q s dto k n w dt sz
                                                     Hc' Hd Hd0 Hin Hnd Hq Hdt Hne Hs Hk Hb Hw Hoff Hty Hsz)
    as [vs [Hh [Hl Hnth]]].
  exists c, vs. split; [exact Hc|]. split; [exact Hh|].
  rewrite read_at_drop in Hl by nia. split; [exact Hl|].
  intros i Hi. rewrite (Hnth i Hi). f_equal.
  apply scaler_value_at_drop; nia.
Qed.

End Addressing.

(* ---- example: the big-endian segment of Props/C11.v, both chunks ---------------------------------------------------------- *)
Section Example.
Import String.
Local Open Scope string_scope.

Example ex_daqmx_loop_gen :
  seg_layout DaqmxProofs.ex_seg = Ok LDaqmx /\
  daqmx_objs_ok (data_objs (sg_objs DaqmxProofs.ex_seg)) /\
  (Z.to_nat (sg_nchunks DaqmxProofs.ex_seg) <= S (S (List.length DaqmxProofs.ex_data)))%nat /\
  mapr (fun p => (chunks_abs_dq (fst p), snd p)) (daqmx_segment_chunks_gen DaqmxProofs.ex_seg DaqmxProofs.ex_data)
  = Ok (Some [ [(hex "2f2761", CScalers [(0, [hex "0201"; hex "1211"]); (1, [hex "0403"; hex "1413"])]);
                (hex "2f2762", CScalers [(0, [hex "a1"; hex "b1"; hex "c1"])]);
                (hex "2f2763", CScalers [(0, [hex "00"; hex "00"; hex "00"])])];
               [(hex "2f2761", CScalers [(0, [hex "2221"; hex "3231"]); (1, [hex "2423"; hex "3433"])]);
                (hex "2f2762", CScalers [(0, [hex "04"; hex "ff"; hex "01"])]);
                (hex "2f2763", CScalers [(0, [hex "01"; hex "01"; hex "00"])])] ], []) /\
  get_buffer_dimensions_gen (data_objs (sg_objs DaqmxProofs.ex_seg)) = Ok [(2, 4); (3, 3)].
Proof.
  split; [vm_compute; reflexivity|]. split; [exact ex_objs_ok|]. split; [vm_compute; lia|].
  split; vm_compute; reflexivity.
Qed.
End Example.
