(* C07 composed, step 2c: the eager data pass on writer output.

   Part 1 generalises ReadCorrect.read_correct_given_lengths from the relation
   [seg_encodes] to any raw data block that the segment's chunk reader decodes
   ([decodes]); this adds the case read_correct leaves out and the writer
   produces: a contiguous segment whose data objects all have length 0 (chunk
   size 0, no chunks, empty raw data block).

   Part 2 shows that the raw data block the writer emits for a call is decoded
   to one chunk holding exactly the values passed in (none when the call has no
   bytes of data), and that the per-channel concatenation over the file is
   [values_at]. *)
From Coq Require Import List ZArith Bool Lia ZifyBool.
From Coq Require Import Init.Byte.
Import ListNotations.
From NpTdms Require Import Base.Bytes Base.Res Model.Tokens Model.TokensWf Model.ByteStr
  Model.StrictParse Model.Writer Proofs.TokensRoundtrip Proofs.ByteStrProofs Proofs.StrictParseProofs Proofs.WriterProofs.
From NpTdms Require Import Model.SegState Model.Layout Model.Reader Model.FileSyn
  Proofs.SegStateProofs Proofs.LayoutProofs Proofs.FileSynProofs Proofs.ReadCorrect
  Proofs.WriteReadSpec Proofs.WriteReadBytes Proofs.WriteReadState.
Local Open Scope Z_scope.

(* ---- Part 1: read_correct for any decodable raw data blocks ------------------------------- *)

Definition decodes (g : segment) (data : bytes) (chunks : list chunk) : Prop :=
  (forall rest, read_segment_chunks g (data ++ rest) = Ok (chunks, rest)) /\
  Forall only_cdata chunks.

Inductive segs_decode : list segment -> list fseg -> list (list chunk) -> Prop :=
| sd_nil : segs_decode [] [] []
| sd_cons g gs s r cs css :
    decodes g (fs_data s) cs -> segs_decode gs r css ->
    segs_decode (g :: gs) (s :: r) (cs :: css).

Lemma read_segment_decoded pre s rest g chunks :
  wf_fseg s = true ->
  seg_at (blen pre) s g ->
  decodes g (fs_data s) chunks ->
  read_segment (pre ++ ser_seg TAG_DATA true s ++ rest) g = Ok chunks.
Proof.
  intros Hwf Hat [Hdec _]. rewrite (read_segment_ser pre s rest g Hwf Hat).
  rewrite (Hdec rest). reflexivity.
Qed.

Lemma eager_loop_dec data : forall segs gs chunkss pre recv,
    wf_file segs ->
    data = pre ++ ser_file segs ->
    segs_at (blen pre) segs gs ->
    segs_decode gs segs chunkss ->
    (forall c kv, In c (concat chunkss) -> In kv c -> is_data_receiver (alookup (fst kv) recv)) ->
    exists recv', fold_left (eager_step data) gs (Ok recv) = Ok recv' /\
                  forall p, alookup p recv' =
                            option_map (radd (chan_values p (concat chunkss))) (alookup p recv).
Proof.
  induction segs as [|s r IH]; intros gs chunkss pre recv Hwf Hdata Hat Henc Hbound.
  - inversion Hat; subst. inversion Henc; subst. exists recv. split; [reflexivity|].
    intros p. cbn [concat chan_values flat_map].
    destruct (alookup p recv) as [x|]; cbn [option_map]; [rewrite radd_nil|]; reflexivity.
  - inversion Hat as [|pos s' r' g gs' Hg Hat']; subst.
    inversion Henc as [|g' gs'' s' r' cs css Hcs Henc']; subst.
    unfold wf_file in Hwf. cbn [forallb] in Hwf. apply andb_prop in Hwf. destruct Hwf as [Hs Hr].
    cbn [fold_left]. unfold eager_step at 2. cbn [bind].
    rewrite ser_file_cons.
    rewrite (read_segment_decoded pre s (ser_file r) g cs Hs Hg Hcs). cbn [bind].
    cbn [concat] in Hbound.
    destruct (receive_chunks_concat cs recv (proj2 Hcs)) as (recv1 & H1 & Hlk1).
    { intros c kv Hc Hin. apply (Hbound c kv); [apply in_or_app; left; exact Hc|exact Hin]. }
    rewrite H1.
    destruct (IH gs' css (pre ++ ser_seg TAG_DATA true s) recv1 Hr) as (recv' & H2 & Hlk2).
    + rewrite <- app_assoc. reflexivity.
    + rewrite blen_app. change TAG_DATA with (tag_of false). change true with (negb false).
      rewrite (blen_ser_seg false s Hs). unfold fseg_len in Hat'.
      exact Hat'.
    + exact Henc'.
    + intros c kv Hc Hin. rewrite Hlk1. apply is_data_receiver_radd.
      apply (Hbound c kv); [apply in_or_app; right; exact Hc|exact Hin].
    + rewrite ser_file_cons in H2. exists recv'. split; [exact H2|].
      intros p. rewrite Hlk2, Hlk1. cbn [concat]. rewrite chan_values_app.
      destruct (alookup p recv) as [x|]; cbn [option_map]; [|reflexivity].
      rewrite radd_app. reflexivity.
Qed.

Theorem rd_eager_dec segs st h chunkss :
  wf_file segs ->
  sm_run segs false = Ok st ->
  segs_decode (rs_segments st) segs chunkss ->
  data_paths_are_channels h (concat chunkss) ->
  no_daqmx_channels h ->
  channel_paths_distinct h ->
  exists recv, rd_eager st h (ser_file segs) = Ok recv /\
               forall c, In c (all_channels h) ->
                         alookup (ch_path c) recv = Some (expected_data (concat chunkss) c).
Proof.
  intros Hwf Hrun Henc Hpaths Hnd Hdistinct.
  rewrite rd_eager_fold.
  destruct (recv0_fold (all_channels h) [] Hnd Hdistinct) as (recv0 & H0 & Hin0 & _).
  rewrite H0. cbn [bind].
  pose proof (sm_segment_positions segs false st Hrun) as Hat.
  destruct (eager_loop_dec (ser_file segs) segs (rs_segments st) chunkss [] recv0 Hwf eq_refl Hat Henc)
    as (recv & Hfold & Hlk).
  - intros c kv Hc Hkv. destruct (Hpaths c kv Hc Hkv) as (ch & Hch & Hp & Hty).
    rewrite <- Hp, (Hin0 ch Hch). unfold recv_init.
    destruct (ch_dtype ch); [|contradiction]. eexists. reflexivity.
  - exists recv. split; [exact Hfold|]. intros c Hc.
    rewrite Hlk, (Hin0 c Hc). cbn [option_map]. unfold recv_init, expected_data.
    destruct (ch_dtype c); reflexivity.
Qed.

Theorem read_correct_decodes segs st h chunkss :
  wf_file segs ->
  sm_run segs false = Ok st ->
  build_hierarchy (rs_om st) = Ok h ->
  segs_decode (rs_segments st) segs chunkss ->
  data_paths_are_channels h (concat chunkss) ->
  no_daqmx_channels h ->
  channel_paths_distinct h ->
  lengths_consistent h (concat chunkss) ->
  rd_all (ser_file segs) = Ok (expected_tokens st h (concat chunkss), true).
Proof.
  intros Hwf Hrun Hh Henc Hpaths Hnd Hdistinct Hlen.
  unfold rd_all, rd_all_from.
  rewrite (rd_metadata_ser segs false Hwf), Hrun. cbn [bind]. rewrite Hh. cbn [bind].
  destruct (rd_eager_dec segs st h chunkss Hwf Hrun Henc Hpaths Hnd Hdistinct) as (recv & Heager & Hlk).
  rewrite Heager. cbn [bind]. unfold expected_tokens. f_equal. f_equal.
  - f_equal. f_equal. apply obs_hierarchy_ext. intros c Hc. rewrite (Hlk c Hc). reflexivity.
  - apply forallb_forall. intros c Hc. rewrite (Hlk c Hc). unfold expected_data.
    destruct (ch_dtype c) as [dt|] eqn:Edt; [|reflexivity].
    cbn [cdata_consistent]. apply Z.eqb_eq. apply Hlen; [exact Hc|]. rewrite Edt. discriminate.
Qed.

(* what read_correct covers is covered *)
Lemma seg_encodes_decodes g s chunks :
  seg_at (sg_pos g) s g -> seg_encodes g (fs_data s) chunks -> decodes g (fs_data s) chunks.
Proof.
  intros Hat Henc. split; [|exact (seg_encodes_only_cdata _ _ _ Henc)].
  intros rest. apply seg_encodes_read; [exact Henc|].
  destruct Hat as (_ & _ & _ & _ & _ & Hcc). exact Hcc.
Qed.

(* ---- Part 2: the raw data block of one call ------------------------------------------------- *)

Definition chunk_of_objs (T : list wobj) : chunk :=
  map (fun o => (obj_path o, CData (obj_values o))) T.

Definition chunks_of (sorted : list wobj) : list chunk :=
  if seg_nch sorted =? 0 then [] else [chunk_of_objs (filter is_typed sorted)].

Lemma combine_map {A B C} (f : A -> B) (h : A -> C) l :
  combine (map f l) (map h l) = map (fun a => (f a, h a)) l.
Proof. induction l as [|a l IH]; [reflexivity|]. cbn [map combine]. rewrite IH. reflexivity. Qed.

Lemma wr_offsets_end off vals :
  wr_string_offsets off vals = flat_map (put_u32 LE) (end_offsets off vals).
Proof.
  revert off. induction vals as [|s r IH]; intros off; [reflexivity|].
  cbn [wr_string_offsets end_offsets flat_map]. rewrite IH. reflexivity.
Qed.

Lemma typed_tds_size o :
  wf_obj o = true -> is_typed o = true ->
  (obj_dtype o = T_STRING /\ tds_size (obj_dtype o) = Some None) \/
  (exists k, sized_type (obj_dtype o) = Some k /\ tds_size (obj_dtype o) = Some (Some k) /\
             forallb (fun v => blen v =? k) (obj_values o) = true).
Proof.
  intros Hwf Ht. destruct o as [ps|g ps|g c dt vs ps]; cbn [is_typed] in Ht; try discriminate.
  pose proof (wf_chan_type _ _ _ _ _ Hwf) as Hty. unfold chan_type_ok in Hty.
  cbn [obj_dtype obj_values]. destruct (dt =? T_VOID) eqn:Ev; [discriminate|].
  destruct (dt =? T_STRING) eqn:Es.
  - left. assert (dt = T_STRING) by lia. subst dt. split; reflexivity.
  - right. destruct (sized_type dt) as [k|] eqn:Ek; [|discriminate].
    exists k. repeat split; [apply sized_tds_size; exact Ek|exact Hty].
Qed.

Lemma enc_obj_raw o :
  wf_obj o = true -> is_typed o = true -> enc_obj LE (data_sobj o) (obj_values o) = obj_raw o.
Proof.
  intros Hwf Ht. unfold enc_obj. cbn [so_dtype data_sobj].
  destruct (typed_tds_size o Hwf Ht) as [[Hs Hsz]|(k & Hk & Hsz & _)]; rewrite Hsz.
  - destruct o as [ps|g ps|g c dt vs ps]; cbn [is_typed] in Ht; try discriminate.
    cbn [obj_dtype] in Hs. subst dt. cbn [obj_raw obj_values]. unfold enc_strings.
    rewrite wr_offsets_end. reflexivity.
  - destruct o as [ps|g ps|g c dt vs ps]; cbn [is_typed] in Ht; try discriminate.
    cbn [obj_dtype obj_values obj_raw] in *.
    destruct (sized_type_facts dt k Hk) as (_ & Hns & Hnv). rewrite Hns, Hnv.
    unfold enc_values. apply flat_map_store_le.
Qed.

Lemma raw_typed_only sorted :
  forallb wf_obj sorted = true ->
  flat_map obj_raw sorted = flat_map obj_raw (filter is_typed sorted).
Proof.
  induction sorted as [|o r IH]; intros Hwf; [reflexivity|].
  cbn [forallb] in Hwf. apply andb_prop in Hwf. destruct Hwf as [Ho Hr].
  cbn [flat_map filter]. destruct (is_typed o) eqn:Ht.
  - cbn [flat_map]. rewrite (IH Hr). reflexivity.
  - destruct (untyped_raw o Ho Ht) as [-> _]. exact (IH Hr).
Qed.

Lemma enc_chunk_writer T :
  Forall (fun o => wf_obj o = true /\ is_typed o = true) T ->
  enc_chunk LE (combine (map data_sobj T) (map obj_values T)) = flat_map obj_raw T.
Proof.
  intros HF. rewrite combine_map. unfold enc_chunk.
  induction HF as [|o r [Hw Ht] _ IH]; [reflexivity|].
  cbn [map flat_map fst snd]. rewrite (enc_obj_raw o Hw Ht), IH. reflexivity.
Qed.

Lemma typed_filter_forall sorted :
  forallb wf_obj sorted = true ->
  Forall (fun o => wf_obj o = true /\ is_typed o = true) (filter is_typed sorted).
Proof.
  intros Hwf. apply Forall_forall. intros o Ho. apply filter_In in Ho. destruct Ho as [Hin Ht].
  rewrite forallb_forall in Hwf. split; [apply Hwf; exact Hin|exact Ht].
Qed.

Lemma string_total_ge_sum vals : zsum (map blen vals) <= string_total vals.
Proof.
  induction vals as [|s r IH]; [cbn; lia|].
  cbn [map zsum fold_right string_total]. fold (zsum (map blen r)). lia.
Qed.

Lemma typed_vals_ok o :
  wf_obj o = true -> is_typed o = true ->
  vals_ok (so_nvals (data_sobj o)) (data_sobj o) (obj_values o) /\
  dsize_ok LE (data_sobj o) (obj_values o).
Proof.
  intros Hwf Ht. split.
  - unfold vals_ok. cbn [so_nvals so_dtype data_sobj]. split; [reflexivity|].
    destruct (typed_tds_size o Hwf Ht) as [[Hs Hsz]|(k & Hk & Hsz & Hall)]; rewrite Hsz.
    + split; [exact Hs|].
      destruct o as [ps|g ps|g c dt vs ps]; cbn [is_typed] in Ht; try discriminate.
      cbn [obj_dtype obj_values] in *.
      apply wf_obj_chan_part in Hwf. unfold wf_chan_part in Hwf.
      apply andb_prop in Hwf. destruct Hwf as [_ Hst].
      assert (Es : (dt =? T_STRING) = true) by (apply Z.eqb_eq; exact Hs).
      rewrite Es in Hst.
      apply is_u32_spec in Hst. pose proof (string_total_ge_sum vs) as Hge.
      assert (H32 : 2 ^ 32 = 4294967296) by reflexivity. rewrite H32. lia.
    + apply Forall_forall. intros v Hv. rewrite forallb_forall in Hall. specialize (Hall v Hv). lia.
  - unfold dsize_ok. cbn [so_dsize data_sobj]. rewrite (enc_obj_raw o Hwf Ht). apply typed_dsize; assumption.
Qed.

Lemma NoDup_map_filter {A B} (f : A -> B) (p : A -> bool) l :
  NoDup (map f l) -> NoDup (map f (filter p l)).
Proof.
  induction l as [|a l IH]; intros H; [constructor|].
  cbn [map] in H. inversion H as [|x y Ha Hl]; subst. cbn [filter].
  destruct (p a); [|apply IH; exact Hl]. cbn [map]. constructor; [|apply IH; exact Hl].
  intros Hin. apply Ha. apply in_map_iff in Hin. destruct Hin as [b [Hb Hin]].
  apply filter_In in Hin. rewrite <- Hb. apply in_map. exact (proj1 Hin).
Qed.

Lemma seg_layout_writer g prev sorted :
  sg_toc g = TOC_WRITER -> sg_objs g = map (sobj_of prev) sorted -> seg_layout g = Ok LContig.
Proof.
  intros Htoc Hobjs. unfold seg_layout. rewrite Hobjs, have_daqmx_writer, Htoc. reflexivity.
Qed.

Lemma writer_decodes g prev sorted :
  sg_toc g = TOC_WRITER -> sg_incomplete g = false ->
  sg_objs g = map (sobj_of prev) sorted ->
  sg_nchunks g = seg_nch sorted -> sg_final g = None ->
  forallb wf_obj sorted = true -> NoDup (map obj_path sorted) ->
  decodes g (flat_map obj_raw sorted) (chunks_of sorted).
Proof.
  intros Htoc Hinc Hobjs Hn Hf Hwf Hnd.
  pose proof (seg_layout_writer g prev sorted Htoc Hobjs) as Hlay.
  unfold chunks_of. destruct (seg_nch sorted =? 0) eqn:Ez.
  - split; [|constructor]. intros rest.
    unfold seg_nch in Ez. destruct (blen (flat_map obj_raw sorted) =? 0) eqn:Eb; [|discriminate].
    assert (Hd : flat_map obj_raw sorted = []).
    { apply length_zero_iff_nil. unfold blen in Eb. lia. }
    rewrite Hd. cbn [app]. unfold read_segment_chunks. rewrite Hlay. cbn [bind].
    rewrite Hn. unfold seg_nch. rewrite Hd. cbn [flat_map blen length Z.of_nat Z.eqb].
    reflexivity.
  - set (T := filter is_typed sorted).
    pose proof (typed_filter_forall sorted Hwf) as HT. fold T in HT.
    assert (Hdobjs : data_objs (sg_objs g) = map data_sobj T) by (rewrite Hobjs; apply data_objs_writer).
    assert (Hdata : flat_map obj_raw sorted =
                    enc_chunks (toc_endian (sg_toc g)) (data_objs (sg_objs g)) [map obj_values T]).
    { rewrite Htoc, Hdobjs. change (toc_endian TOC_WRITER) with LE. unfold enc_chunks. cbn [flat_map].
      rewrite app_nil_r, (enc_chunk_writer T HT). apply raw_typed_only. exact Hwf. }
    assert (Henc : seg_encodes g (flat_map obj_raw sorted)
                     (map (fun vss => chunk_of (combine (data_objs (sg_objs g)) vss)) [map obj_values T])).
    { apply se_contig; try assumption.
      - rewrite Hdobjs. fold T. unfold T. rewrite (dsize_sum sorted Hwf).
        unfold seg_nch in Ez. pose proof (blen_nonneg (flat_map obj_raw sorted)).
        destruct (blen (flat_map obj_raw sorted) =? 0) eqn:Eb; [discriminate|]. lia.
      - rewrite Hdobjs, map_map. cbn [so_path data_sobj]. apply NoDup_map_filter. exact Hnd.
      - constructor; [|constructor]. rewrite Hdobjs.
        clear -HT. induction HT as [|o r [Hw Ht] _ IH]; cbn [map]; constructor; [|exact IH].
        exact (proj1 (typed_vals_ok o Hw Ht)).
      - constructor; [|constructor]. rewrite Hdobjs, Htoc. change (toc_endian TOC_WRITER) with LE.
        clear -HT. induction HT as [|o r [Hw Ht] _ IH]; cbn [map]; constructor; [|exact IH].
        exact (proj2 (typed_vals_ok o Hw Ht)). }
    cbn [map] in Henc. rewrite Hdobjs, combine_map in Henc.
    replace (chunk_of (map (fun a => (data_sobj a, obj_values a)) T)) with (chunk_of_objs T) in Henc.
    2:{ unfold chunk_of, chunk_of_objs. rewrite map_map. reflexivity. }
    split; [|exact (seg_encodes_only_cdata _ _ _ Henc)].
    intros rest. apply seg_encodes_read; [exact Henc|].
    rewrite Htoc, Hinc, Hobjs, Hn, Hf. apply calculate_chunks_writer. exact Hwf.
Qed.

(* ---- the values a channel gets from the chunks of the file ---------------------------------- *)

Lemma values_typed_only {B} (f : wobj -> list B) p sorted :
  (forall o, In o sorted -> is_typed o = false -> f o = []) ->
  flat_map (at_path p f) sorted = flat_map (at_path p f) (filter is_typed sorted).
Proof.
  induction sorted as [|o r IH]; intros H; [reflexivity|].
  cbn [flat_map filter]. destruct (is_typed o) eqn:Ht.
  - cbn [flat_map]. rewrite IH; [reflexivity|]. intros o' Ho'. apply H. right. exact Ho'.
  - rewrite IH by (intros o' Ho'; apply H; right; exact Ho').
    unfold at_path at 1. rewrite (H o (or_introl eq_refl) Ht). destruct (bytes_eqb p (obj_path o)); reflexivity.
Qed.

Lemma chunk_values_objs p T :
  chunk_values p (chunk_of_objs T) = flat_map (at_path p obj_values) T.
Proof.
  unfold chunk_values, chunk_of_objs. rewrite flat_map_map.
  apply flat_map_ext. intros o. unfold entry_values, at_path. cbn [fst snd]. reflexivity.
Qed.

Lemma chan_values_chunks_of p sorted :
  forallb wf_obj sorted = true ->
  chan_values p (chunks_of sorted) = flat_map (at_path p obj_values) sorted.
Proof.
  intros Hwf. unfold chunks_of. destruct (seg_nch sorted =? 0) eqn:Ez.
  - cbn [chan_values flat_map]. symmetry.
    unfold seg_nch in Ez. destruct (blen (flat_map obj_raw sorted) =? 0) eqn:Eb; [|discriminate].
    rewrite forallb_forall in Hwf.
    assert (Hall : forall o, In o sorted -> obj_values o = []).
    { intros o Ho. destruct (is_typed o) eqn:Ht.
      - apply (typed_raw_zero o (Hwf o Ho) Ht). apply (blen_flat_map_zero obj_raw sorted o Ho). lia.
      - exact (proj2 (untyped_raw o (Hwf o Ho) Ht)). }
    clear -Hall. induction sorted as [|o r IH]; [reflexivity|]. cbn [flat_map].
    rewrite IH by (intros o' Ho'; apply Hall; right; exact Ho').
    unfold at_path. rewrite (Hall o (or_introl eq_refl)). destruct (bytes_eqb p (obj_path o)); reflexivity.
  - unfold chan_values. cbn [flat_map]. rewrite app_nil_r, chunk_values_objs. symmetry.
    apply values_typed_only. intros o Ho Ht. rewrite forallb_forall in Hwf.
    exact (proj2 (untyped_raw o (Hwf o Ho) Ht)).
Qed.

Lemma chan_values_file p : forall sl,
  Forall (fun vs : Z * list wobj => forallb wf_obj (snd vs) = true) sl ->
  chan_values p (concat (map (fun vs => chunks_of (snd vs)) sl)) = values_at p (flat_map snd sl).
Proof.
  induction sl as [|vs sl IH]; intros HF; [reflexivity|].
  inversion HF as [|x y Hw HF']; subst.
  cbn [map concat flat_map]. rewrite chan_values_app, (chan_values_chunks_of p _ Hw), (IH HF').
  unfold values_at. rewrite flat_map_app. reflexivity.
Qed.
