(* The per-segment chunk arithmetic of TdmsReader.read_raw_data_for_channel, TRANSLATED from the
   source (Gen/PyFuncsReader.v read_chunk_range_gen), equals Model/LazyRead.v seg_chunk_range. *)
From Coq Require Import ZArith List Bool Lia ZifyBool.
Import ListNotations.
From NpTdms Require Import Base.Bytes Base.Res Base.PySlice Model.Tokens Model.SegState Model.Layout
     Gen.TypeTable Gen.PyFuncsReader Proofs.GenReaderEquiv.
Local Open Scope Z_scope.

(* ---- TdmsReader.read_raw_data_for_channel: chunk arithmetic of one segment ------------ *)

From NpTdms Require Import Model.LazyRead.
From NpTdms Require Model.LazyBytes.

Lemma segment_object_eq s path : segment_object s path = LazyBytes.segment_object s path.
Proof. reflexivity. Qed.

(* the per-channel view of a segment (Model/LazyRead.v segv; the values are irrelevant here),
   exactly as Model/LazyBytes.v segv_of computes sv_chunk, sv_nchunks, sv_final *)
Definition seg_view (s : segment) (path : bytes) : segv unit :=
  mk_segv (match segment_object s path with
           | Some o => if so_has_data o then so_nvals o else 0
           | None => 0
           end)
          (sg_nchunks s)
          (match sg_final s with
           | Some f => Some (match alookup path f with Some v => v | None => 0 end)
           | None => None
           end)
          false [].

Theorem read_chunk_range_eq s path offs first st en off ei si :
  read_chunk_range_gen s path offs first st en off ei si
  = if sv_chunk (seg_view s path) =? 0 then Ok None
    else do r <- seg_chunk_range unit true first offs st en off ei si (seg_view s path); Ok (Some r).
Proof.
  unfold read_chunk_range_gen, seg_chunk_range, seg_view. cbn [sv_chunk sv_nchunks sv_final].
  destruct (segment_object s path) as [o|]; [destruct (so_has_data o)|]; cbn [negb need bind];
    try reflexivity.
  destruct (so_nvals o =? 0); [reflexivity|].
  destruct (si =? first); cbn [bind].
  - destruct (si =? st), (si =? en); cbn [bind]; try reflexivity;
      (destruct (py_index offs (si - first)) as [sei|]; cbn [bind]; [|reflexivity]);
      (destruct (sg_final s) as [f|]; cbn [is_none need bind]);
      match goal with |- context [?a >=? ?b] => destruct (a >=? b) end; reflexivity.
  - destruct (py_index offs (si - first - 1)) as [ssi|]; cbn [bind]; [|reflexivity].
    destruct (si =? st), (si =? en); cbn [bind]; try reflexivity;
      (destruct (py_index offs (si - first)) as [sei|]; cbn [bind]; [|reflexivity]);
      (destruct (sg_final s) as [f|]; cbn [is_none need bind]);
      match goal with |- context [?a >=? ?b] => destruct (a >=? b) end; reflexivity.
Qed.


Section GenLazyExample.
Import String.
Local Open Scope string_scope.
Lemma ex_c04_values :
  read_chunk_range_gen (mkSeg 0 14 0 0 false [ex_a] [(so_path ex_a, 0%nat)] 4 (Some [(so_path ex_a, 2)]))
                       (so_path ex_a) [11] 0 0 0 4 10 0 = Ok (Some (1, 3, 1)).
Proof. vm_compute. reflexivity. Qed.
End GenLazyExample.
