(* Proofs/SensorsRoundScaled.v -- the calculus of Proofs/SensorsRoundBase.v with errors and
   magnitudes carried as multiples of a positive real "scale":

       snear f x s e m   :=   fnear f x (e * s) (m * s)
                          =   f finite,  |FR f - x| <= e s,  |x| <= m s

   The scale is a monomial in the parameters (1, the gauge factor, the excitation voltage,
   their product, a quotient of such); e and m are numerals.  A product has the product of
   the scales, a quotient the quotient; this keeps a bound such as
   "|k^ - k| <= 6 u |k|" for k = g * vex * la from being inflated by the ratio between the
   largest and the smallest value of g * vex in the parameter ranges (50), which the
   numerals-only calculus cannot avoid.  Every scale used lies in [1e-10, 1e10] (sc_ok), so
   that the absolute term eta64 of a rounding is at most 1e10 eta64 times the scale. *)
From Coq Require Import Reals ZArith List Lra Lia.
From Coq Require Import PrimFloat.
From Interval Require Import Tactic.
From NpTdms Require Import Proofs.HornerRound Proofs.SensorsRoundBase.
Open Scope R_scope.

Definition snear (f : float) (x s e m : R) : Prop := fnear f x (e * s) (m * s).

Definition sc_ok (s : R) : Prop := 1e-10 <= s <= 1e10.

Lemma sc_ok_pos : forall s, sc_ok s -> 0 < s.
Proof. intros s [H _]. lra. Qed.

Lemma sc_ok_one : sc_ok 1.
Proof. unfold sc_ok. lra. Qed.

(* eta64 <= 1e10 eta64 s *)
Lemma eta_scale : forall s, sc_ok s -> eta64 <= 1e10 * eta64 * s.
Proof.
  intros s [H _]. pose proof eta64_pos as He.
  replace eta64 with (1e10 * eta64 * 1e-10) at 1 by lra.
  apply Rmult_le_compat_l; lra.
Qed.

Lemma big_scale : forall s K, sc_ok s -> K <= 1e200 -> K * s <= 1e300.
Proof.
  intros s K [H1 H2] HK. destruct (Rle_or_lt 0 K) as [HK0|HK0].
  - apply Rle_trans with (1e200 * 1e10); [|lra]. apply Rmult_le_compat; lra.
  - apply Rle_trans with 0; [|lra].
    replace 0 with (0 * s) by ring. apply Rmult_le_compat_r; lra.
Qed.

(* ---- conversions ------------------------------------------------------------------------------ *)

Lemma snear_of_fnear : forall f x E M, fnear f x E M -> snear f x 1 E M.
Proof. intros f x E M H. unfold snear. rewrite !Rmult_1_r. exact H. Qed.

Lemma fnear_of_snear : forall f x e m, snear f x 1 e m -> fnear f x e m.
Proof. intros f x e m H. unfold snear in H. rewrite !Rmult_1_r in H. exact H. Qed.

Lemma snear_eq : forall f x y s e m, snear f x s e m -> x = y -> snear f y s e m.
Proof. intros f x y s e m H <-. exact H. Qed.

Lemma snear_scale_eq : forall f x s s' e m, snear f x s e m -> s = s' -> snear f x s' e m.
Proof. intros f x s s' e m H <-. exact H. Qed.

Lemma snear_weaken : forall f x s e m e' m',
  snear f x s e m -> 0 <= s -> e <= e' -> m <= m' -> snear f x s e' m'.
Proof.
  intros f x s e m e' m' H Hs He Hm. unfold snear in *.
  eapply fnear_weaken; [exact H| |]; apply Rmult_le_compat_r; assumption.
Qed.

(* an input float with the numeral m as magnitude bound *)
Lemma snear_in : forall f m, Ffin f -> Rabs (FR f) <= m -> snear f (FR f) 1 0 m.
Proof.
  intros f m Hf Hm. apply snear_of_fnear. apply fnear_in; assumption.
Qed.

(* a positive input float as its own scale *)
Lemma snear_in_self : forall f, Ffin f -> 0 < FR f -> snear f (FR f) (FR f) 0 1.
Proof.
  intros f Hf Hp. unfold snear. rewrite Rmult_0_l, Rmult_1_l.
  apply fnear_in; [exact Hf|]. rewrite Rabs_pos_eq by lra. apply Rle_refl.
Qed.

(* s <= c s' : the same bounds on the scale s' *)
Lemma snear_rescale : forall f x s s' c e m,
  snear f x s e m -> 0 <= e -> 0 <= m -> s <= c * s' ->
  snear f x s' (e * c) (m * c).
Proof.
  intros f x s s' c e m H He Hm Hs. unfold snear in *.
  eapply fnear_weaken; [exact H| |].
  - rewrite Rmult_assoc. apply Rmult_le_compat_l; assumption.
  - rewrite Rmult_assoc. apply Rmult_le_compat_l; assumption.
Qed.

Lemma snear_opp : forall a x s e m, snear a x s e m -> snear (- a)%float (- x) s e m.
Proof. intros a x s e m H. unfold snear in *. apply fnear_opp. exact H. Qed.

(* ---- the operations ---------------------------------------------------------------------------- *)

(* the new error, in units of the scale: propagated error ez, one rounding of a value of
   magnitude at most m + ez, and the absolute term *)
Definition serr (ez m : R) : R := ez + u64 * (m + ez) + 1e10 * eta64.

Lemma serr_ok : forall ez m e' s, sc_ok s -> serr ez m <= e' ->
  ez * s + u64 * (m * s + ez * s) + eta64 <= e' * s.
Proof.
  intros ez m e' s Hs He. pose proof (eta_scale s Hs) as Het. pose proof (sc_ok_pos s Hs) as Hp.
  unfold serr in He.
  apply Rle_trans with ((ez + u64 * (m + ez) + 1e10 * eta64) * s).
  - replace ((ez + u64 * (m + ez) + 1e10 * eta64) * s)
      with (ez * s + u64 * (m * s + ez * s) + 1e10 * eta64 * s) by ring. lra.
  - apply Rmult_le_compat_r; lra.
Qed.

Lemma snear_add : forall a b x y s ea ma eb mb m e',
  snear a x s ea ma -> snear b y s eb mb -> sc_ok s ->
  Rabs (x + y) <= m * s ->
  serr (ea + eb) m <= e' -> m + (ea + eb) <= 1e200 ->
  snear (a + b)%float (x + y) s e' m.
Proof.
  intros a b x y s ea ma eb mb m e' Ha Hb Hs HM He Hbig. unfold snear in *.
  eapply fnear_add; [exact Ha|exact Hb|exact HM| |].
  - replace (ea * s + eb * s) with ((ea + eb) * s) by ring. apply serr_ok; assumption.
  - replace (m * s + (ea * s + eb * s)) with ((m + (ea + eb)) * s) by ring.
    apply big_scale; assumption.
Qed.

Lemma snear_sub : forall a b x y s ea ma eb mb m e',
  snear a x s ea ma -> snear b y s eb mb -> sc_ok s ->
  Rabs (x - y) <= m * s ->
  serr (ea + eb) m <= e' -> m + (ea + eb) <= 1e200 ->
  snear (a - b)%float (x - y) s e' m.
Proof.
  intros a b x y s ea ma eb mb m e' Ha Hb Hs HM He Hbig. unfold snear in *.
  eapply fnear_sub; [exact Ha|exact Hb|exact HM| |].
  - replace (ea * s + eb * s) with ((ea + eb) * s) by ring. apply serr_ok; assumption.
  - replace (m * s + (ea * s + eb * s)) with ((m + (ea + eb)) * s) by ring.
    apply big_scale; assumption.
Qed.

Lemma snear_mul : forall a b x y sa sb ea ma eb mb m e',
  snear a x sa ea ma -> snear b y sb eb mb -> sc_ok (sa * sb) ->
  Rabs (x * y) <= m * (sa * sb) ->
  serr (ea * (mb + eb) + ma * eb) m <= e' -> m + (ea * (mb + eb) + ma * eb) <= 1e200 ->
  snear (a * b)%float (x * y) (sa * sb) e' m.
Proof.
  intros a b x y sa sb ea ma eb mb m e' Ha Hb Hs HM He Hbig. unfold snear in *.
  eapply fnear_mul; [exact Ha|exact Hb|exact HM| |].
  - replace (ea * sa * (mb * sb + eb * sb) + ma * sa * (eb * sb))
      with ((ea * (mb + eb) + ma * eb) * (sa * sb)) by ring.
    apply serr_ok; assumption.
  - replace (m * (sa * sb) + (ea * sa * (mb * sb + eb * sb) + ma * sa * (eb * sb)))
      with ((m + (ea * (mb + eb) + ma * eb)) * (sa * sb)) by ring.
    apply big_scale; assumption.
Qed.

(* the magnitude of a product is at most the product of the magnitudes *)
Lemma snear_mul_d : forall a b x y sa sb ea ma eb mb e',
  snear a x sa ea ma -> snear b y sb eb mb -> sc_ok (sa * sb) ->
  serr (ea * (mb + eb) + ma * eb) (ma * mb) <= e' -> ma * mb + (ea * (mb + eb) + ma * eb) <= 1e200 ->
  snear (a * b)%float (x * y) (sa * sb) e' (ma * mb).
Proof.
  intros a b x y sa sb ea ma eb mb e' Ha Hb Hs He Hbig.
  eapply snear_mul; [exact Ha|exact Hb|exact Hs| |exact He|exact Hbig].
  destruct Ha as [_ [_ Hma]]. destruct Hb as [_ [_ Hmb]].
  replace (ma * mb * (sa * sb)) with ((ma * sa) * (mb * sb)) by ring.
  apply Rabs_mul_le; assumption.
Qed.

(* division: l sb <= |y|, |x / y| <= m (sa / sb) *)
Lemma snear_div : forall a b x y sa sb ea ma eb mb l m e',
  snear a x sa ea ma -> snear b y sb eb mb -> 0 < sb -> sc_ok (sa / sb) ->
  l * sb <= Rabs y -> eb < l ->
  Rabs (x / y) <= m * (sa / sb) ->
  serr ((ea + m * eb) / (l - eb)) m <= e' -> m + (ea + m * eb) / (l - eb) <= 1e200 ->
  snear (a / b)%float (x / y) (sa / sb) e' m.
Proof.
  intros a b x y sa sb ea ma eb mb l m e' Ha Hb Hsb Hs Hl Hebl HM He Hbig. unfold snear in *.
  assert (Hez : (ea * sa + m * (sa / sb) * (eb * sb)) / (l * sb - eb * sb)
                = (ea + m * eb) / (l - eb) * (sa / sb)).
  { replace (l * sb - eb * sb) with ((l - eb) * sb) by ring. field. split; lra. }
  eapply (fnear_div _ _ _ _ _ _ _ _ (l * sb)); [exact Ha|exact Hb|exact Hl| |exact HM| |].
  - apply Rmult_lt_compat_r; assumption.
  - rewrite Hez. apply serr_ok; assumption.
  - rewrite Hez.
    replace (m * (sa / sb) + (ea + m * eb) / (l - eb) * (sa / sb))
      with ((m + (ea + m * eb) / (l - eb)) * (sa / sb)) by ring.
    apply big_scale; assumption.
Qed.

(* the magnitude of a quotient is at most ma / l *)
Lemma snear_div_d : forall a b x y sa sb ea ma eb mb l e',
  snear a x sa ea ma -> snear b y sb eb mb -> 0 < sa -> 0 < sb -> sc_ok (sa / sb) ->
  0 < l -> l * sb <= Rabs y -> eb < l ->
  serr ((ea + ma / l * eb) / (l - eb)) (ma / l) <= e' ->
  ma / l + (ea + ma / l * eb) / (l - eb) <= 1e200 ->
  snear (a / b)%float (x / y) (sa / sb) e' (ma / l).
Proof.
  intros a b x y sa sb ea ma eb mb l e' Ha Hb Hsa Hsb Hs Hl0 Hl Hebl He Hbig.
  eapply snear_div; [exact Ha|exact Hb|exact Hsb|exact Hs|exact Hl|exact Hebl| |exact He|exact Hbig].
  destruct Ha as [_ [_ Hma]].
  replace (ma / l * (sa / sb)) with ((ma * sa) / (l * sb)) by (field; lra).
  apply Rabs_div_le; [exact Hma| |exact Hl]. apply Rmult_lt_0_compat; assumption.
Qed.

(* the same with the magnitude weakened to a numeral m' *)
Lemma snear_mul_w : forall a b x y sa sb ea ma eb mb e' m',
  snear a x sa ea ma -> snear b y sb eb mb -> sc_ok (sa * sb) ->
  serr (ea * (mb + eb) + ma * eb) (ma * mb) <= e' -> ma * mb <= m' ->
  ma * mb + (ea * (mb + eb) + ma * eb) <= 1e200 ->
  snear (a * b)%float (x * y) (sa * sb) e' m'.
Proof.
  intros a b x y sa sb ea ma eb mb e' m' Ha Hb Hs He Hm Hbig.
  eapply snear_weaken; [eapply snear_mul_d; [exact Ha|exact Hb|exact Hs|exact He|exact Hbig]| | |exact Hm].
  - apply Rlt_le, sc_ok_pos. exact Hs.
  - apply Rle_refl.
Qed.

Lemma snear_div_w : forall a b x y sa sb ea ma eb mb l e' m',
  snear a x sa ea ma -> snear b y sb eb mb -> 0 < sa -> 0 < sb -> sc_ok (sa / sb) ->
  0 < l -> l * sb <= Rabs y -> eb < l ->
  serr ((ea + ma / l * eb) / (l - eb)) (ma / l) <= e' -> ma / l <= m' ->
  ma / l + (ea + ma / l * eb) / (l - eb) <= 1e200 ->
  snear (a / b)%float (x / y) (sa / sb) e' m'.
Proof.
  intros a b x y sa sb ea ma eb mb l e' m' Ha Hb Hsa Hsb Hs Hl0 Hl Hebl He Hm Hbig.
  eapply snear_weaken; [eapply (snear_div_d _ _ _ _ _ _ _ _ _ _ l);
                        [exact Ha|exact Hb|exact Hsa|exact Hsb|exact Hs|exact Hl0|exact Hl|exact Hebl|exact He|exact Hbig]
                       | | |exact Hm].
  - apply Rlt_le, sc_ok_pos. exact Hs.
  - apply Rle_refl.
Qed.

(* back to numerals when the scale is at most c *)
Lemma fnear_of_snear_c : forall f x s c e m,
  snear f x s e m -> 0 <= e -> 0 <= m -> s <= c -> fnear f x (e * c) (m * c).
Proof.
  intros f x s c e m H He Hm Hs. unfold snear in H.
  eapply fnear_weaken; [exact H| |]; apply Rmult_le_compat_l; assumption.
Qed.

(* numeric side conditions *)
Ltac snum := unfold serr, u64, eta64; interval with (i_prec 80).
