(* The reader's metadata state machine as TRANSLATED FROM THE SOURCE on every run
   (Gen/PyFuncsSegState.v, written by harness/gen/gen_pyfuncs_segstate.py from nptdms/tdms_segment.py and
   nptdms/reader.py) equals the hand-written mechanism model Model/SegState.v.

   The translated functions dispatch on the raw data index HEADER (an integer read from the file) and on the
   CLASS of the segment object; the model dispatches on the constructor of the lexed index.  The two agree for
   every index the lexer can return ([idx_lexed], proved of Model/Tokens.v parse_idx below).

   One genuine difference surfaced: when one metadata block lists the same path TWICE and the path is in the list
   inherited from the previous segment, the code consults its index map, built once from the copied list, and
   finds the STALE object; for "no data" / "matches previous" it then leaves the slot as the first listing set
   it, whereas Model/SegState.v step_entry writes the stale object back ([update_existing] always replaces).
   [read_segment_objects_dup_refuted] is the witness (replayed on the real code by the self-test of the
   translator: the translation follows the code).  Such blocks are outside every property ([listed_once] /
   "no duplicate path inside one segment's metadata" in [wf]); the equality is stated under [hits_fresh]: no path
   found in the inherited list is listed twice. *)
From Coq Require Import String.
From Coq Require Import ZArith List Bool Lia ZifyBool.
From Coq Require Import Init.Byte.
Import ListNotations.
From NpTdms Require Import Base.Bytes Base.Res Base.PySlice Model.Tokens Model.SegState
     Gen.TypeTable Gen.PyFuncsReader Gen.PyFuncsSegState Proofs.SegStateProofs Proofs.GenReaderEquiv.
Local Open Scope Z_scope.

(* ---- what the lexer returns ------------------------------------------------------------------------ *)

Definition idx_lexed (i : idx) : Prop :=
  match i with
  | INoData | IMatchPrev => True
  | IFull lf _ _ _ _ =>
    lf <> RAW_DATA_INDEX_NO_DATA /\ lf <> RAW_DATA_INDEX_MATCHES_PREVIOUS /\
    lf <> FORMAT_CHANGING_SCALER /\ lf <> DIGITAL_LINE_SCALER
  | IDaqmx kind _ _ _ _ _ => kind = FORMAT_CHANGING_SCALER \/ kind = DIGITAL_LINE_SCALER
  end.
Definition entry_lexed (x : entry) : Prop := idx_lexed (e_idx x).

Lemma parse_idx_lexed e bs i rest : parse_idx e bs = Ok (i, rest) -> idx_lexed i.
Proof.
  unfold parse_idx. destruct (get_u32 e bs) as [[h r0]|]; cbn [bind]; [|discriminate].
  destruct (h =? RAW_DATA_INDEX_NO_DATA) eqn:E1; [intros [= <- _]; exact I|].
  destruct (h =? RAW_DATA_INDEX_MATCHES_PREVIOUS) eqn:E2; [intros [= <- _]; exact I|].
  destruct ((h =? FORMAT_CHANGING_SCALER) || (h =? DIGITAL_LINE_SCALER)) eqn:E3.
  - destruct (get_u32 e r0) as [[a r1]|]; cbn [bind]; [|discriminate].
    destruct (get_u32 e r1) as [[b r2]|]; cbn [bind]; [|discriminate].
    destruct (get_u64 e r2) as [[c r3]|]; cbn [bind]; [|discriminate].
    destruct (get_u32 e r3) as [[d r4]|]; cbn [bind]; [|discriminate].
    destruct (parse_n _ d r4) as [[s r5]|]; cbn [bind]; [|discriminate].
    destruct (get_u32 e r5) as [[f r6]|]; cbn [bind]; [|discriminate].
    destruct (parse_n _ f r6) as [[w r7]|]; cbn [bind]; [|discriminate].
    intros [= <- _]. cbn. apply orb_true_iff in E3. destruct E3 as [E|E]; apply Z.eqb_eq in E; auto.
  - apply orb_false_iff in E3. destruct E3 as [E3 E4].
    apply Z.eqb_neq in E1, E2, E3, E4.
    destruct (get_u32 e r0) as [[a r1]|]; cbn [bind]; [|discriminate].
    destruct (get_u32 e r1) as [[b r2]|]; cbn [bind]; [|discriminate].
    destruct (get_u64 e r2) as [[c r3]|]; cbn [bind]; [|discriminate].
    destruct (a =? T_STRING).
    + destruct (get_u64 e r3) as [[t r4]|]; cbn [bind]; [|discriminate].
      intros [= <- _]. cbn. auto.
    + intros [= <- _]. cbn. auto.
Qed.

Lemma parse_entry_lexed e bs x rest : parse_entry e bs = Ok (x, rest) -> entry_lexed x.
Proof.
  unfold parse_entry. destruct (get_string e bs) as [[p r1]|]; cbn [bind]; [|discriminate].
  destruct (parse_idx e r1) as [[i r2]|] eqn:Ei; cbn [bind]; [|discriminate].
  destruct (parse_props e r2) as [[ps r3]|]; cbn [bind]; [|discriminate].
  intros [= <- _]. exact (parse_idx_lexed _ _ _ _ Ei).
Qed.

Lemma repeat_parse_Forall {A} (P : A -> Prop) (p : bytes -> res (A * bytes)) :
  (forall bs x r, p bs = Ok (x, r) -> P x) ->
  forall fuel n bs xs r, repeat_parse p fuel n bs = Ok (xs, r) -> Forall P xs.
Proof.
  intros Hp. induction fuel as [|f IH]; intros n bs xs r; cbn [repeat_parse].
  - destruct (n <=? 0); [intros [= <- _]; constructor|discriminate].
  - destruct (n <=? 0); [intros [= <- _]; constructor|].
    destruct (p bs) as [[x bs1]|] eqn:Ex; cbn [bind]; [|discriminate].
    destruct (repeat_parse p f (n - 1) bs1) as [[xs' bs2]|] eqn:Er; cbn [bind]; [|discriminate].
    intros [= <- _]. constructor; [exact (Hp _ _ _ Ex)|exact (IH _ _ _ _ Er)].
Qed.

(* every metadata block the byte-level reader model lexes satisfies the hypothesis of the theorems below *)
Theorem parse_metadata_lexed e bs es rest : parse_metadata e bs = Ok (es, rest) -> Forall entry_lexed es.
Proof.
  unfold parse_metadata, parse_n. destruct (get_u32 e bs) as [[n r]|]; cbn [bind]; [|discriminate].
  apply repeat_parse_Forall. exact (parse_entry_lexed e).
Qed.

(* ---- _new_segment_object + has_data = True + read_raw_data_index = new_object ----------------------- *)

Lemma new_object_shape p i o : new_object p i = Ok o ->
  so_path o = p /\ so_has_data o = match i with INoData | IMatchPrev => false | _ => true end.
Proof.
  destruct i as [| |lf dt dim n total|kind dt dim n scalers widths]; cbn [new_object].
  - intros [= <-]. split; reflexivity.
  - intros [= <-]. split; reflexivity.
  - destruct (tds_size dt) as [sz|]; [|discriminate].
    destruct (_ && _); [discriminate|]. destruct (negb (dim =? 1)); [discriminate|].
    intros [= <-]. split; reflexivity.
  - destruct (tds_size dt) as [sz|]; [|discriminate].
    destruct (negb (dim =? 1)); [discriminate|]. destruct (negb (forallb _ scalers)); [discriminate|].
    destruct (_ && _); [discriminate|]. intros [= <-]. split; reflexivity.
Qed.

Definition defining (i : idx) : bool := match i with INoData | IMatchPrev => false | _ => true end.

Lemma header_defining i : idx_lexed i -> defining i = true ->
  (idx_header i =? 4294967295) = false /\ (idx_header i =? 0) = false.
Proof.
  destruct i as [| |lf dt dim n total|kind dt dim n scalers widths]; cbn [defining idx_header idx_lexed];
    try discriminate.
  - unfold RAW_DATA_INDEX_NO_DATA, RAW_DATA_INDEX_MATCHES_PREVIOUS. intros (H1 & H2 & _) _. split; apply Z.eqb_neq; assumption.
  - unfold FORMAT_CHANGING_SCALER, DIGITAL_LINE_SCALER. intros [->| ->] _; split; reflexivity.
Qed.

(* the object the three call sites build for a defining index *)
Lemma build_object_eq p i : idx_lexed i -> defining i = true ->
  (do so <- new_segment_object_gen p (idx_header i);
   obj_read_raw_data_index (set_has_data so true) (idx_header i) i) = new_object p i.
Proof.
  intros Hl Hd. unfold new_segment_object_gen, obj_read_raw_data_index.
  destruct i as [| |lf dt dim n total|kind dt dim n scalers widths]; cbn [defining] in Hd; try discriminate.
  - cbn [idx_header idx_lexed] in *. destruct Hl as (_ & _ & H3 & H4).
    unfold FORMAT_CHANGING_SCALER, DIGITAL_LINE_SCALER in *.
    replace ((lf =? 4713) || (lf =? 4714)) with false by (symmetry; apply orb_false_iff; split; apply Z.eqb_neq; assumption).
    cbn [bind]. rewrite Z.eqb_refl. cbn [negb set_has_data new_tdms_object so_daqmx so_path so_has_data].
    destruct (new_object p (IFull lf dt dim n total)) as [o|] eqn:E; cbn [bind]; [|reflexivity].
    destruct (new_object_shape _ _ _ E) as [Hp Hh]. destruct o; cbn in *; subst. reflexivity.
  - cbn [idx_header idx_lexed] in *. unfold FORMAT_CHANGING_SCALER, DIGITAL_LINE_SCALER in *.
    replace ((kind =? 4713) || (kind =? 4714)) with true
      by (symmetry; apply orb_true_iff; destruct Hl as [->| ->]; [left|right]; reflexivity).
    cbn [bind]. rewrite Z.eqb_refl. cbn [negb set_has_data new_daqmx_object so_daqmx so_path so_has_data].
    destruct (new_object p (IDaqmx kind dt dim n scalers widths)) as [o|] eqn:E; cbn [bind]; [|reflexivity].
    destruct (new_object_shape _ _ _ E) as [Hp Hh]. destruct o; cbn in *; subst. reflexivity.
Qed.

(* ---- _update_existing_object --------------------------------------------------------------------------- *)

Lemma replace_nth_same {A} (l : list A) : forall k x, nth_error l k = Some x -> replace_nth k x l = l.
Proof.
  induction l as [|y r IH]; intros [|k] x H; cbn in *; try discriminate.
  - injection H as ->. reflexivity.
  - f_equal. apply IH. exact H.
Qed.

Lemma py_setitem_nat {A} (l : list A) (k : nat) (x : A) :
  (k < length l)%nat -> py_setitem l (Z.of_nat k) x = Ok (replace_nth k x l).
Proof.
  intros H. unfold py_setitem, zlen.
  replace (Z.of_nat k <? 0) with false by (symmetry; apply Z.ltb_ge; lia).
  replace ((0 <=? Z.of_nat k) && (Z.of_nat k <? Z.of_nat (length l))) with true
    by (symmetry; apply andb_true_iff; split; [apply Z.leb_le|apply Z.ltb_lt]; lia).
  rewrite Nat2Z.id. reflexivity.
Qed.

Lemma update_existing_object_eq objs k o i :
  idx_lexed i -> nth_error objs k = Some o ->
  update_existing_object_gen objs (Z.of_nat k) o (idx_header i) i
  = do o' <- update_existing o i; Ok (replace_nth k o' objs).
Proof.
  intros Hl Hn. assert (Hk : (k < length objs)%nat) by (apply nth_error_Some; rewrite Hn; discriminate).
  unfold update_existing_object_gen.
  destruct (defining i) eqn:Hd.
  - destruct (header_defining i Hl Hd) as [-> ->].
    pose proof (build_object_eq (so_path o) i Hl Hd) as Hb.
    unfold new_segment_object_gen in *.
    destruct ((idx_header i =? 4713) || (idx_header i =? 4714)); cbn [bind] in *; rewrite Hb;
      (replace (update_existing o i) with (new_object (so_path o) i) by (destruct i; try discriminate; reflexivity));
      destruct (new_object (so_path o) i); cbn [bind]; try reflexivity; rewrite (py_setitem_nat _ _ _ Hk); reflexivity.
  - destruct i; try discriminate; cbn [idx_header update_existing bind].
    + change (RAW_DATA_INDEX_NO_DATA =? 4294967295) with true. cbn iota.
      destruct (so_has_data o); [rewrite (py_setitem_nat _ _ _ Hk); reflexivity|].
      rewrite (replace_nth_same _ _ _ Hn). reflexivity.
    + change (RAW_DATA_INDEX_MATCHES_PREVIOUS =? 4294967295) with false.
      change (RAW_DATA_INDEX_MATCHES_PREVIOUS =? 0) with true. cbn iota.
      destruct (so_has_data o); cbn [negb]; [|rewrite (py_setitem_nat _ _ _ Hk); reflexivity].
      rewrite (replace_nth_same _ _ _ Hn). reflexivity.
Qed.

(* ---- _reuse_previous_object ------------------------------------------------------------------------------ *)

Lemma reuse_previous_object_eq objs po i :
  idx_lexed i ->
  reuse_previous_object_gen objs po (idx_header i) i = do o' <- reuse_previous po i; Ok (objs ++ [o']).
Proof.
  intros Hl. unfold reuse_previous_object_gen.
  destruct (defining i) eqn:Hd.
  - destruct (header_defining i Hl Hd) as [-> ->].
    pose proof (build_object_eq (so_path po) i Hl Hd) as Hb.
    replace (reuse_previous po i) with (new_object (so_path po) i) by (destruct i; try discriminate; reflexivity).
    rewrite <- Hb. unfold new_segment_object_gen.
    destruct ((idx_header i =? 4713) || (idx_header i =? 4714)); cbn [bind];
      destruct (obj_read_raw_data_index _ (idx_header i) i); reflexivity.
  - destruct i; try discriminate; cbn [idx_header reuse_previous bind].
    + change (RAW_DATA_INDEX_NO_DATA =? 4294967295) with true. cbn iota.
      destruct (so_has_data po); reflexivity.
    + change (RAW_DATA_INDEX_MATCHES_PREVIOUS =? 4294967295) with false.
      change (RAW_DATA_INDEX_MATCHES_PREVIOUS =? 0) with true. cbn iota.
      destruct (so_has_data po); reflexivity.
Qed.

(* ---- the existing-objects map: {o.path: (i, o) for (i, o) in enumerate(list)} ----------------------------- *)

Definition existing_dict (bl : list sobj) : alist (Z * sobj) :=
  dict_of_pairs (map (fun '(i, o) => (so_path o, (i, o))) (py_enumerate bl)).

Definition conv (x : nat * sobj) : Z * sobj := (Z.of_nat (fst x), snd x).

Lemma existing_dict_lookup_from p : forall bl n d0 acc,
  alookup p d0 = option_map conv acc ->
  alookup p (fold_left (fun d kv => aset (fst kv) (snd kv) d)
                       (map (fun '(i, o) => (so_path o, (i, o))) (py_enumerate_from (Z.of_nat n) bl)) d0)
  = option_map conv (existing_lookup p n bl acc).
Proof.
  induction bl as [|o r IH]; intros n d0 acc H; cbn [py_enumerate_from map fold_left existing_lookup]; [exact H|].
  replace (Z.of_nat n + 1) with (Z.of_nat (S n)) by lia.
  apply IH. cbn [fst snd]. rewrite alookup_aset.
  destruct (bytes_eqb p (so_path o)); [reflexivity|exact H].
Qed.

Lemma existing_dict_lookup p bl :
  alookup p (existing_dict bl) = option_map conv (existing_lookup p 0 bl None).
Proof. unfold existing_dict, dict_of_pairs, py_enumerate. apply (existing_dict_lookup_from p bl 0%nat [] None). reflexivity. Qed.

Lemma get_existing_object_eq bl p :
  get_existing_object_gen (existing_dict bl) p
  = Ok (match existing_lookup p 0 bl None with
        | Some (i, o) => (Some (Z.of_nat i), Some o)
        | None => (None, None)
        end).
Proof.
  unfold get_existing_object_gen. rewrite existing_dict_lookup.
  destruct (existing_lookup p 0 bl None) as [[i o]|]; reflexivity.
Qed.

Lemma existing_lookup_spec p : forall bl n acc i o,
  existing_lookup p n bl acc = Some (i, o) ->
  acc = Some (i, o) \/ ((n <= i)%nat /\ nth_error bl (i - n) = Some o /\ so_path o = p).
Proof.
  induction bl as [|x r IH]; intros n acc i o H; cbn [existing_lookup] in H; [left; exact H|].
  destruct (IH _ _ _ _ H) as [Ha|(Hn & Hnth & Hp)].
  - destruct (bytes_eqb p (so_path x)) eqn:E; [|left; exact Ha].
    injection Ha as <- <-. right. split; [lia|]. rewrite Nat.sub_diag. split; [reflexivity|].
    symmetry. apply bytes_eqb_eq. exact E.
  - right. split; [lia|]. split; [|exact Hp].
    replace (i - n)%nat with (S (i - S n)) by lia. exact Hnth.
Qed.

Lemma existing_lookup_found p bl i o :
  existing_lookup p 0 bl None = Some (i, o) -> nth_error bl i = Some o /\ so_path o = p.
Proof.
  intros H. destruct (existing_lookup_spec _ _ _ _ _ _ H) as [Ha|(_ & Hn & Hp)]; [discriminate|].
  rewrite Nat.sub_0_r in Hn. split; assumption.
Qed.

(* ---- the loop over the listed objects ---------------------------------------------------------------------- *)

(* positions of the inherited list whose path has not been listed yet still hold the inherited object *)
Definition untouched (bl : list sobj) (seen : list bytes) (ordered : list sobj) : Prop :=
  forall i o, nth_error bl i = Some o -> ~ In (so_path o) seen -> nth_error ordered i = Some o.

(* no path found in the inherited list is listed twice *)
Fixpoint hits_fresh (bl : list sobj) (seen : list bytes) (es : list entry) : Prop :=
  match es with
  | [] => True
  | x :: r =>
    match existing_lookup (e_path x) 0 bl None with
    | Some _ => ~ In (e_path x) seen /\ hits_fresh bl (e_path x :: seen) r
    | None => hits_fresh bl seen r
    end
  end.

Definition base_ok (base : option (list sobj)) (seen : list bytes) (ordered : list sobj) (es : list entry) : Prop :=
  match base with
  | Some bl => untouched bl seen ordered /\ hits_fresh bl seen es
  | None => True
  end.

Lemma nth_error_replace_other {A} (l : list A) : forall i j x, i <> j -> nth_error (replace_nth i x l) j = nth_error l j.
Proof.
  induction l as [|y r IH]; intros [|i] [|j] x H; cbn; try reflexivity; try contradiction.
  apply IH. congruence.
Qed.

Lemma untouched_replace bl seen ordered i o x :
  untouched bl seen ordered -> nth_error bl i = Some o ->
  untouched bl (so_path o :: seen) (replace_nth i x ordered).
Proof.
  intros Hu Hi j oj Hj Hns. destruct (Nat.eq_dec i j) as [->|Hne].
  - rewrite Hi in Hj. injection Hj as <-. exfalso. apply Hns. left. reflexivity.
  - rewrite (nth_error_replace_other _ _ _ _ Hne). apply (Hu _ _ Hj). intros Hin. apply Hns. right. exact Hin.
Qed.

Lemma untouched_app bl seen ordered x : untouched bl seen ordered -> untouched bl seen (ordered ++ [x]).
Proof.
  intros Hu j oj Hj Hns. pose proof (Hu _ _ Hj Hns) as H.
  rewrite nth_error_app1; [exact H|]. apply nth_error_Some. rewrite H. discriminate.
Qed.

Lemma set_last_app {A} (l : list A) (a x : A) : set_last__ (l ++ [a]) x = l ++ [x].
Proof. unfold set_last__. rewrite rev_app_distr. cbn [rev app]. rewrite rev_involutive. reflexivity. Qed.

Lemma new_segment_object_ok p h : exists so, new_segment_object_gen p h = Ok so.
Proof. unfold new_segment_object_gen. destruct (_ || _); eexists; reflexivity. Qed.

(* the branch of read_segment_objects for an object seen nowhere before *)
Lemma new_entry_eq {E} (ordered : list sobj) (e : E) p i :
  idx_lexed i ->
  (do so <- new_segment_object_gen p (idx_header i);
   if idx_header i =? 0 then Err EValue
   else if negb (idx_header i =? 4294967295) then
     do so2 <- obj_read_raw_data_index (set_has_data so true) (idx_header i) i;
     Ok (set_last__ (set_last__ (ordered ++ [so]) (set_has_data so true)) so2, e)
   else Ok (ordered ++ [so], e))
  = match i with
    | IMatchPrev => Err EValue
    | _ => do o' <- new_object p i; Ok (ordered ++ [o'], e)
    end.
Proof.
  intros Hl. destruct (defining i) eqn:Hd.
  - destruct (header_defining i Hl Hd) as [H1 H2]. rewrite H1, H2. cbn [negb].
    pose proof (build_object_eq p i Hl Hd) as Hb.
    destruct (new_segment_object_ok p (idx_header i)) as [so Hso]. rewrite Hso in *. cbn [bind] in *.
    rewrite Hb. replace (match i with IMatchPrev => Err EValue | _ => do o' <- new_object p i; Ok (ordered ++ [o'], e) end)
      with (do o' <- new_object p i; Ok (ordered ++ [o'], e)) by (destruct i; try discriminate; reflexivity).
    destruct (new_object p i); cbn [bind]; [|reflexivity]. rewrite !set_last_app. reflexivity.
  - destruct i; try discriminate; reflexivity.
Qed.

Lemma read_object_properties_eq x :
  read_object_properties_gen (lexed_props x)
  = Ok (match e_props x with [] => None | _ => Some (lexed_props x) end).
Proof.
  unfold read_object_properties_gen, lexed_props.
  destruct (e_props x) as [|p r]; [reflexivity|].
  set (l := map _ (p :: r)).
  replace (Z.of_nat (length l) >? 0) with true by (subst l; cbn [map length]; lia).
  rewrite py_slice_nonneg by lia. change (Z.of_nat (length l)) with (zlen l). rewrite sl_all. reflexivity.
Qed.

(* the property dictionary the loop accumulates *)
Fixpoint gprops_collect (es : list entry) (acc : option (alist (list (bytes * prop))))
  : option (alist (list (bytes * prop))) :=
  match es with
  | [] => acc
  | x :: r =>
    gprops_collect r (match e_props x with
                      | [] => acc
                      | _ => Some (aset (e_path x) (lexed_props x) (match acc with Some d => d | None => [] end))
                      end)
  end.

Lemma loop_eq prev base : forall es ordered props seen,
  Forall entry_lexed es -> base_ok base seen ordered es ->
  read_segment_objects_gen_loop2 (option_map existing_dict base) prev es ordered props
  = do o <- fold_entries base prev ordered es; Ok (o, gprops_collect es props).
Proof.
  induction es as [|x r IH]; intros ordered props seen Hl Hb; [reflexivity|].
  inversion Hl as [|? ? Hx Hr]; subst.
  cbn [read_segment_objects_gen_loop2 fold_entries gprops_collect]. unfold lexed_index_header.
  assert (Hstep :
    exists seen',
    (do '(self_ordered_objects, existing_object_index) <-
        (match (match base with Some b => existing_lookup (e_path x) 0 b None | None => None end) with
         | Some (i, o) =>
           do l <- update_existing_object_gen ordered (Z.of_nat i) o (idx_header (e_idx x)) (e_idx x);
           Ok (l, Some (Z.of_nat i))
         | None =>
           if negb (is_none (alookup (e_path x) prev)) then
             do po <- need EKey (alookup (e_path x) prev);
             do l <- reuse_previous_object_gen ordered po (idx_header (e_idx x)) (e_idx x);
             Ok (l, @None Z)
           else
             do so <- new_segment_object_gen (e_path x) (idx_header (e_idx x));
             if idx_header (e_idx x) =? 0 then Err EValue
             else if negb (idx_header (e_idx x) =? 4294967295) then
               do so2 <- obj_read_raw_data_index (set_has_data so true) (idx_header (e_idx x)) (e_idx x);
               Ok (set_last__ (set_last__ (ordered ++ [so]) (set_has_data so true)) so2, @None Z)
             else Ok (ordered ++ [so], @None Z)
         end);
     Ok self_ordered_objects) = step_entry base prev ordered x
    /\ forall o', step_entry base prev ordered x = Ok o' -> base_ok base seen' o' r).
  { unfold step_entry. destruct base as [bl|]; cbn [base_ok hits_fresh] in Hb.
    - destruct Hb as [Hu Hf].
      destruct (existing_lookup (e_path x) 0 bl None) as [[i o]|] eqn:El.
      + destruct Hf as [Hns Hf]. destruct (existing_lookup_found _ _ _ _ El) as [Hbi Hp].
        pose proof (Hu _ _ Hbi (eq_ind_r (fun q => ~ In q seen) Hns Hp)) as Hoi.
        exists (e_path x :: seen). cbn [need bind].
        rewrite (update_existing_object_eq _ _ _ _ Hx Hoi).
        split; [destruct (update_existing o (e_idx x)); reflexivity|].
        intros o'. destruct (update_existing o (e_idx x)) as [u|]; cbn [bind]; [|discriminate].
        intros [= <-]. split; [|exact Hf]. rewrite <- Hp. apply untouched_replace; assumption.
      + exists seen. split.
        * destruct (alookup (e_path x) prev) as [po|]; cbn [is_none negb need bind].
          -- rewrite (reuse_previous_object_eq _ _ _ Hx). destruct (reuse_previous po (e_idx x)); reflexivity.
          -- rewrite (new_entry_eq ordered (@None Z) (e_path x) (e_idx x) Hx).
             destruct (e_idx x); try reflexivity; cbn [bind];
               match goal with |- context [new_object ?p ?i] => destruct (new_object p i); reflexivity end.
        * intros o' Ho'. split; [|exact Hf].
          destruct (alookup (e_path x) prev) as [po|].
          -- destruct (reuse_previous po (e_idx x)); cbn [bind] in Ho'; [|discriminate].
             injection Ho' as <-. apply untouched_app. exact Hu.
          -- destruct (e_idx x); try discriminate;
               match type of Ho' with context [new_object ?p ?i] => destruct (new_object p i); cbn [bind] in Ho'; [|discriminate] end;
               injection Ho' as <-; apply untouched_app; exact Hu.
    - exists seen. split; [|intros; exact I].
      destruct (alookup (e_path x) prev) as [po|]; cbn [is_none negb need bind].
      + rewrite (reuse_previous_object_eq _ _ _ Hx). destruct (reuse_previous po (e_idx x)); reflexivity.
      + rewrite (new_entry_eq ordered (@None Z) (e_path x) (e_idx x) Hx).
        destruct (e_idx x); try reflexivity; cbn [bind];
          match goal with |- context [new_object ?p ?i] => destruct (new_object p i); reflexivity end. }
  destruct Hstep as (seen' & Hs & Hinv).
  assert (Hfin : forall l eo',
             eo' = option_map existing_dict base -> step_entry base prev ordered x = Ok l ->
             (do object_properties <- read_object_properties_gen (lexed_props x);
              match object_properties with
              | Some object_properties0 =>
                do properties <- (match props with None => Ok [] | Some properties0 => Ok properties0 end);
                read_segment_objects_gen_loop2 eo' prev r l (Some (aset (e_path x) object_properties0 properties))
              | None => read_segment_objects_gen_loop2 eo' prev r l props
              end)
             = do o <- fold_entries base prev l r;
               Ok (o, gprops_collect r (match e_props x with
                                        | [] => props
                                        | _ => Some (aset (e_path x) (lexed_props x) (match props with Some d => d | None => [] end))
                                        end))).
  { intros l eo' -> Hl'. rewrite read_object_properties_eq. cbn [bind].
    destruct (e_props x) as [|p0 ps]; [apply (IH _ _ seen' Hr (Hinv _ Hl'))|].
    destruct props as [d|]; cbn [bind]; apply (IH _ _ seen' Hr (Hinv _ Hl')). }
  destruct base as [bl|]; cbn [option_map] in *.
  - rewrite get_existing_object_eq. cbn [bind].
    destruct (existing_lookup (e_path x) 0 bl None) as [[i o]|] eqn:El; cbn [need bind] in *.
    + match goal with |- bind ?B _ = _ => remember B as Bv eqn:EB in * end.
      destruct Bv as [[l eoi]|]; cbn [bind] in *; rewrite <- Hs; cbn [bind]; [|reflexivity].
      apply Hfin; [reflexivity|symmetry; exact Hs].
    + match goal with |- bind ?B _ = _ => remember B as Bv eqn:EB in * end.
      destruct Bv as [[l eoi]|]; cbn [bind] in *; rewrite <- Hs; cbn [bind]; [|reflexivity].
      apply Hfin; [reflexivity|symmetry; exact Hs].
  - cbn [bind] in *.
    match goal with |- bind ?B _ = _ => remember B as Bv eqn:EB in * end.
    destruct Bv as [[l eoi]|]; cbn [bind] in *; rewrite <- Hs; cbn [bind]; [|reflexivity].
    apply Hfin; [reflexivity|symmetry; exact Hs].
Qed.

(* ---- ObjectListKey and SegmentIndexCache -------------------------------------------------------------------- *)

Section Cache.
Variable h : bytes -> Z.

Definition key_hash (objs : list sobj) : Z := fold_left (fun a o => Z.lxor a (h (so_path o))) objs 0.

Lemma key_init_loop objs : forall a,
  object_list_key_init_gen_loop1 h objs a = Ok (fold_left (fun a o => Z.lxor a (h (so_path o))) objs a).
Proof. induction objs as [|o r IH]; intros a; [reflexivity|]. cbn [object_list_key_init_gen_loop1 fold_left]. apply IH. Qed.

Lemma key_init_eq objs : object_list_key_init_gen h objs = Ok (objs, key_hash objs).
Proof. unfold object_list_key_init_gen. rewrite key_init_loop. reflexivity. Qed.

Lemma key_hash_paths a b : map so_path a = map so_path b -> key_hash a = key_hash b.
Proof.
  unfold key_hash. generalize 0. revert b.
  induction a as [|x a IH]; intros [|y b] z H; cbn in *; try discriminate; [reflexivity|].
  injection H as Hxy Hab. rewrite Hxy. apply IH. exact Hab.
Qed.

Lemma key_eq_eq a b :
  object_list_key_eq_gen a b = Ok (paths_eqb (map so_path (fst a)) (map so_path (fst b))).
Proof.
  unfold object_list_key_eq_gen. f_equal. destruct a as [a ha], b as [b hb]. cbn [fst].
  revert b. induction a as [|x a IH]; intros [|y b]; cbn [length combine forallb map paths_eqb].
  - reflexivity.
  - rewrite andb_true_r. apply Z.eqb_neq. lia.
  - rewrite andb_true_r. apply Z.eqb_neq. lia.
  - rewrite <- IH.
    replace (Z.of_nat (S (length a)) =? Z.of_nat (S (length b))) with (Z.of_nat (length a) =? Z.of_nat (length b)).
    + destruct (Z.of_nat (length a) =? Z.of_nat (length b)); cbn [andb]; [reflexivity|]. rewrite andb_false_r. reflexivity.
    + destruct (Z.eqb_spec (Z.of_nat (length a)) (Z.of_nat (length b))) as [E|E];
        symmetry; [apply Z.eqb_eq|apply Z.eqb_neq]; lia.
Qed.

Lemma paths_eqb_sym a b : paths_eqb a b = paths_eqb b a.
Proof.
  destruct (paths_eqb a b) eqn:E.
  - apply paths_eqb_eq in E. subst. symmetry. apply paths_eqb_eq. reflexivity.
  - destruct (paths_eqb b a) eqn:E'; [|reflexivity]. apply paths_eqb_eq in E'. subst.
    assert (paths_eqb a a = true) by (apply paths_eqb_eq; reflexivity). congruence.
Qed.

Definition zidx (d : alist Z) : alist nat := map (fun kv => (fst kv, Z.to_nat (snd kv))) d.
Definition cache_view (c : hdict) : index_cache := map (fun kv => (map so_path (fst (fst kv)), zidx (snd kv))) c.
Definition cache_wf (c : hdict) : Prop := Forall (fun kv => snd (fst kv) = key_hash (fst (fst kv))) c.

Fixpoint hfind (paths : list bytes) (c : hdict) : option (alist Z) :=
  match c with
  | [] => None
  | (k', v) :: r => if paths_eqb paths (map so_path (fst k')) then Some v else hfind paths r
  end.

Lemma hdict_get_eq objs c : cache_wf c ->
  hdict_get (objs, key_hash objs) c = Ok (hfind (map so_path objs) c).
Proof.
  induction 1 as [|[[ko kh] v] r Hk Hr IH]; [reflexivity|].
  cbn [hdict_get hfind fst snd] in *. unfold object_list_key_hash_gen. cbn [bind snd].
  rewrite key_eq_eq. cbn [fst bind]. rewrite (paths_eqb_sym (map so_path objs)).
  destruct (paths_eqb (map so_path ko) (map so_path objs)) eqn:E.
  - apply paths_eqb_eq in E. rewrite Hk, (key_hash_paths _ _ E), Z.eqb_refl. reflexivity.
  - destruct (kh =? key_hash objs); exact IH.
Qed.

Lemma hfind_view paths c : option_map zidx (hfind paths c) = cache_find paths (cache_view c).
Proof.
  induction c as [|[[ko kh] v] r IH]; [reflexivity|]. cbn [hfind cache_view map cache_find fst snd].
  destruct (paths_eqb paths (map so_path ko)); [reflexivity|exact IH].
Qed.

Lemma hdict_set_new objs v c : cache_wf c -> hfind (map so_path objs) c = None ->
  hdict_set (objs, key_hash objs) v c = Ok (c ++ [((objs, key_hash objs), v)]).
Proof.
  induction 1 as [|[[ko kh] v'] r Hk Hr IH]; intros Hn; [reflexivity|].
  cbn [hdict_set hfind fst snd app] in *. unfold object_list_key_hash_gen. cbn [bind snd].
  rewrite (paths_eqb_sym (map so_path objs)) in Hn.
  destruct (paths_eqb (map so_path ko) (map so_path objs)) eqn:E; [discriminate|].
  replace (if kh =? key_hash objs then object_list_key_eq_gen (ko, kh) (objs, key_hash objs) else Ok false)
    with (@Ok bool false) by (destruct (kh =? key_hash objs); [rewrite key_eq_eq; cbn [fst]; rewrite E|]; reflexivity).
  cbn [bind]. rewrite (IH Hn). reflexivity.
Qed.

(* dict((o.path, i) for (i, o) in enumerate(object_list)) *)
Definition fresh_z (objs : list sobj) : alist Z :=
  dict_of_pairs (map (fun '(i, o) => (so_path o, i)) (py_enumerate objs)).

Lemma zidx_aset k v d : zidx (aset k v d) = aset k (Z.to_nat v) (zidx d).
Proof.
  induction d as [|[k' v'] r IH]; [reflexivity|]. cbn [aset zidx map fst snd].
  destruct (bytes_eqb k k'); cbn [map fst snd]; [reflexivity|]. f_equal. exact IH.
Qed.

Lemma fresh_z_from objs : forall n d,
  zidx (fold_left (fun d kv => aset (fst kv) (snd kv) d)
                  (map (fun '(i, o) => (so_path o, i)) (py_enumerate_from (Z.of_nat n) objs)) d)
  = fresh_index_from n (map so_path objs) (zidx d).
Proof.
  induction objs as [|o r IH]; intros n d; [reflexivity|].
  cbn [py_enumerate_from map fold_left fresh_index_from fst snd].
  replace (Z.of_nat n + 1) with (Z.of_nat (S n)) by lia. rewrite IH, zidx_aset, Nat2Z.id. reflexivity.
Qed.

Lemma fresh_z_eq objs : zidx (fresh_z objs) = fresh_index (map so_path objs).
Proof. unfold fresh_z, dict_of_pairs, py_enumerate, fresh_index. apply (fresh_z_from objs 0%nat []). Qed.

Theorem get_index_gen_eq c objs : cache_wf c ->
  get_index_gen h c objs
  = Ok (match hfind (map so_path objs) c with
        | Some v => (v, c)
        | None => (fresh_z objs, c ++ [((objs, key_hash objs), fresh_z objs)])
        end).
Proof.
  intros Hwf. unfold get_index_gen. rewrite key_init_eq. cbn [bind]. rewrite (hdict_get_eq _ _ Hwf). cbn [bind].
  destruct (hfind (map so_path objs) c) as [v|] eqn:E; cbn [need bind py_catch err_eqb]; [reflexivity|].
  fold (fresh_z objs). rewrite (hdict_set_new _ _ _ Hwf E). reflexivity.
Qed.

(* ... which is the model's get_index on the path view of the cache, and keeps the cache well formed *)
Corollary get_index_gen_view c objs : cache_wf c ->
  exists iz c', get_index_gen h c objs = Ok (iz, c') /\ cache_wf c' /\
                (zidx iz, cache_view c') = get_index (cache_view c) objs.
Proof.
  intros Hwf. rewrite (get_index_gen_eq _ _ Hwf). unfold get_index. rewrite <- hfind_view.
  destruct (hfind (map so_path objs) c) as [v|]; cbn [option_map].
  - exists v, c. repeat split; assumption.
  - exists (fresh_z objs), (c ++ [((objs, key_hash objs), fresh_z objs)]). split; [reflexivity|]. split.
    + apply Forall_app. split; [exact Hwf|]. constructor; [reflexivity|constructor].
    + unfold cache_view. rewrite map_app. cbn [map fst snd]. rewrite fresh_z_eq. reflexivity.
Qed.
End Cache.

(* ---- read_segment_objects: one segment of the metadata pass --------------------------------------------------- *)

Definition res_map {A B} (f : A -> B) (r : res A) : res B :=
  match r with Ok a => Ok (f a) | Err e => Err e end.

(* views of the translated function's values in the model's types: a property pair (name, value) is the typed
   property; positions are [nat]; a cache key is its list of paths; "no cache" is the empty cache *)
Definition pview (o : option (alist (list (bytes * prop)))) : alist (list prop) :=
  match o with Some d => map (fun kv => (fst kv, map snd (snd kv))) d | None => [] end.
Definition index_view (o : option (alist Z)) : alist nat := match o with Some d => zidx d | None => [] end.
Definition cview (o : option hdict) : index_cache := match o with Some c => cache_view c | None => [] end.
Definition gen_view (r : option (alist (list (bytes * prop))) *
                         (list sobj * option (alist Z) * Z * option (alist Z) * option hdict))
  : alist (list prop) * (list sobj * alist nat * Z * option (alist Z) * index_cache) :=
  let '(p, (o, i, n, f, c)) := r in (pview p, (o, index_view i, n, f, cview c)).

(* the body of Model/FileSyn.v sm_loop / Model/Reader.v md_loop for one segment *)
Definition model_segment (toc : Z) (inc : bool) (np dp : Z) (md : option (list entry)) (prev : alist sobj)
           (pseg : option (list sobj)) (pindex : alist nat) (want : bool) (cache : index_cache)
  : res (alist (list prop) * (list sobj * alist nat * Z * option (alist Z) * index_cache)) :=
  do '(objs, props) <- read_segment_objects toc md prev pseg;
  let '(idx, cache') :=
      match md with
      | None => (pindex, cache)
      | Some _ => if want then get_index cache objs else ([], cache)
      end in
  do '(nch, fin) <- calculate_chunks toc inc objs (np - dp);
  Ok (props, (objs, idx, nch, fin, cache')).

Lemma pview_aset k v d : pview (Some (aset k v d)) = aset k (map snd v) (pview (Some d)).
Proof.
  cbn [pview]. induction d as [|[k' v'] r IH]; [reflexivity|]. cbn [aset map fst snd].
  destruct (bytes_eqb k k'); cbn [map fst snd]; [reflexivity|]. f_equal. exact IH.
Qed.

Lemma lexed_props_snd x : map snd (lexed_props x) = e_props x.
Proof. unfold lexed_props. rewrite map_map. cbn [snd]. apply map_id. Qed.

Lemma gprops_collect_view : forall es acc, pview (gprops_collect es acc) = collect_props es (pview acc).
Proof.
  induction es as [|x r IH]; intros acc; [reflexivity|]. cbn [gprops_collect collect_props]. rewrite IH.
  destruct (e_props x) as [|p ps] eqn:Ep; [reflexivity|].
  rewrite pview_aset, lexed_props_snd, Ep. destruct acc; reflexivity.
Qed.

Lemma py_slice_all {A} (l : list A) : py_slice l 0 (Z.of_nat (length l)) = l.
Proof. rewrite py_slice_nonneg by lia. change (Z.of_nat (length l)) with (zlen l). apply sl_all. Qed.

Lemma untouched_init bl : untouched bl [] bl.
Proof. intros i o H _. exact H. Qed.

Theorem read_segment_objects_gen_eq h pos toc np dp inc es prev gcache pseg :
  let md := if toc_has toc TOC_META then Some es else None in
  Forall entry_lexed es ->
  (toc_has toc TOC_META = true -> toc_has toc TOC_NEWLIST = false ->
   forall g, pseg = Some g -> hits_fresh (gs_objs g) [] es) ->
  match gcache with Some c => cache_wf h c | None => True end ->
  (forall objs props, read_segment_objects toc md prev (option_map gs_objs pseg) = Ok (objs, props) -> bufs_nonneg objs) ->
  res_map gen_view (read_segment_objects_gen h pos toc np dp inc es prev gcache pseg)
  = model_segment toc inc np dp md prev (option_map gs_objs pseg)
                  (match pseg with Some g => index_view (gs_index g) | None => [] end)
                  (match gcache with Some _ => true | None => false end) (cview gcache).
Proof.
  intros md Hl Hf Hwf Hb. unfold read_segment_objects_gen, model_segment. subst md.
  change (negb (Z.land toc 2 =? 0)) with (toc_has toc TOC_META) in *.
  destruct (toc_has toc TOC_META) eqn:Em; cbn [negb].
  - (* a metadata block *)
    change (negb (Z.land toc 4 =? 0)) with (toc_has toc TOC_NEWLIST).
    unfold read_segment_objects in *. rewrite py_slice_all.
    set (base := if toc_has toc TOC_NEWLIST then None else option_map gs_objs pseg) in *.
    assert (Hloop : forall ordered0 eo,
               ordered0 = match base with Some l => l | None => [] end -> eo = option_map existing_dict base ->
               read_segment_objects_gen_loop2 eo prev es ordered0 None
               = do o <- fold_entries base prev ordered0 es; Ok (o, gprops_collect es None)).
    { intros ordered0 eo -> ->. apply (loop_eq prev base es _ None []); [exact Hl|].
      unfold base_ok. destruct base as [bl|] eqn:Eb; [|exact I]. split; [apply untouched_init|].
      subst base. destruct (toc_has toc TOC_NEWLIST) eqn:En; [discriminate|].
      destruct pseg as [g|]; [|discriminate]. injection Eb as <-. apply (Hf eq_refl eq_refl g eq_refl). }
    assert (Hfirst :
      (if toc_has toc TOC_NEWLIST || negb (match pseg with Some _ => true | None => false end)
       then Ok ([], None)
       else do t2__ <- need EOther pseg;
            Ok (gs_objs t2__, Some (dict_of_pairs (map (fun '(i, o) => (so_path o, (i, o))) (py_enumerate (gs_objs t2__))))))
      = Ok (match base with Some l => l | None => [] end, option_map existing_dict base)).
    { subst base. destruct (toc_has toc TOC_NEWLIST); [reflexivity|]. destruct pseg as [g|]; reflexivity. }
    rewrite Hfirst. cbn [bind]. rewrite (Hloop _ _ eq_refl eq_refl).
    destruct (fold_entries base prev (match base with Some l => l | None => [] end) es) as [objs|] eqn:Ef;
      cbn [bind res_map]; [|reflexivity].
    specialize (Hb objs (collect_props es []) eq_refl).
    rewrite (calculate_chunks_eq (mkSeg pos toc np dp inc objs [] 0 None) Hb). cbn [sg_toc sg_incomplete sg_objs sg_next sg_data].
    destruct gcache as [c|].
    + destruct (get_index_gen_view h c objs Hwf) as (iz & c' & -> & _ & Hv). cbn [bind].
      cbn [cview]. rewrite <- Hv.
      destruct (calculate_chunks toc inc objs (np - dp)) as [[n f]|]; cbn [bind res_map gen_view index_view cview]; [|reflexivity].
      rewrite gprops_collect_view. reflexivity.
    + cbn [bind].
      destruct (calculate_chunks toc inc objs (np - dp)) as [[n f]|]; cbn [bind res_map gen_view index_view cview]; [|reflexivity].
      rewrite gprops_collect_view. reflexivity.
  - (* no metadata block: the previous segment's list, index and the chunk arithmetic *)
    unfold reuse_previous_segment_metadata_gen, read_segment_objects in *.
    destruct pseg as [g|]; cbn [option_map bind res_map]; [|reflexivity].
    specialize (Hb (gs_objs g) [] eq_refl).
    rewrite (calculate_chunks_eq (mkSeg pos toc np dp inc (gs_objs g) [] 0 None) Hb).
    cbn [sg_toc sg_incomplete sg_objs sg_next sg_data].
    destruct (calculate_chunks toc inc (gs_objs g) (np - dp)) as [[n f]|]; cbn [bind res_map gen_view]; reflexivity.
Qed.

(* the index cache stays well formed *)
Theorem read_segment_objects_gen_cache_wf h pos toc np dp inc es prev c pseg p o i n f c' :
  cache_wf h c ->
  read_segment_objects_gen h pos toc np dp inc es prev (Some c) pseg = Ok (p, (o, i, n, f, Some c')) ->
  cache_wf h c'.
Proof.
  intros Hwf. unfold read_segment_objects_gen.
  destruct (negb (negb (Z.land toc 2 =? 0))).
  - destruct (reuse_previous_segment_metadata_gen _ _ _ _ _ _) as [[[[a b] c0] d]|]; cbn [bind]; [|discriminate].
    intros [= _ _ _ _ _ <-]. exact Hwf.
  - match goal with |- bind ?B _ = _ -> _ => destruct B as [[a b]|]; cbn [bind]; [|discriminate] end.
    match goal with |- bind ?B _ = _ -> _ => destruct B as [[a' b']|]; cbn [bind]; [|discriminate] end.
    destruct (get_index_gen_view h c a' Hwf) as (iz & c2 & -> & Hwf2 & _). cbn [bind].
    match goal with |- bind ?B _ = _ -> _ => destruct B as [[a'' b'']|]; cbn [bind]; [|discriminate] end.
    intros [= _ _ _ _ _ <-]. exact Hwf2.
Qed.

(* when no listed path repeats at all, the side condition holds *)
Lemma NoDup_hits_fresh bl : forall es seen,
  NoDup (map e_path es) -> (forall p, In p seen -> ~ In p (map e_path es)) -> hits_fresh bl seen es.
Proof.
  induction es as [|x r IH]; intros seen Hnd Hs; [exact I|]. cbn [hits_fresh map] in *.
  inversion Hnd as [|? ? Hnx Hnr]; subst.
  destruct (existing_lookup (e_path x) 0 bl None).
  - split; [intros Hin; apply (Hs _ Hin); left; reflexivity|].
    apply IH; [exact Hnr|]. intros q [<-|Hin]; [exact Hnx|]. intros Hp. apply (Hs _ Hin). right. exact Hp.
  - apply IH; [exact Hnr|]. intros q Hin Hp. apply (Hs _ Hin). right. exact Hp.
Qed.

Corollary listed_once_hits_fresh bl es : NoDup (map e_path es) -> hits_fresh bl [] es.
Proof. intros H. apply NoDup_hits_fresh; [exact H|]. intros p []. Qed.

(* ---- the duplicate-listing difference between the code and Model/SegState.v ---------------------------------- *)

(* the previous segment's list holds /'g'/'a' with data; the next block (no new-object-list flag) lists that
   path twice: "no data", then "matches previous".  The code (and its translation) find the STALE object with
   has_data = True in the index map at the second listing and change nothing: the object ends without data.
   The model writes the stale object back: with data.  Replayed on the real TdmsSegment by
   dev/c02_dup_listing_witness.py; such blocks are excluded by [hits_fresh] / [listed_once]. *)
Definition dup_obj : sobj := mkSobj (hex "2f2767272f276127"%string) true 1 4 (Some 3) None.
Definition dup_entries : list entry :=
  [mkEntry (hex "2f2767272f276127"%string) INoData []; mkEntry (hex "2f2767272f276127"%string) IMatchPrev []].

Definition objs_of {P I N F C} (r : P * (list sobj * I * N * F * C)) : list sobj :=
  let '(_, (o, _, _, _, _)) := r in o.

Lemma read_segment_objects_dup_refuted :
  let pseg := Some (mkGseg 0 14 32 28 false [dup_obj] None 1 None) in
  Forall entry_lexed dup_entries /\
  res_map (fun r => map so_has_data (objs_of (gen_view r)))
          (read_segment_objects_gen (fun _ => 0) 32 10 64 64 false dup_entries [(so_path dup_obj, dup_obj)] None pseg)
  = Ok [false] /\
  res_map (fun r => map so_has_data (objs_of r))
          (model_segment 10 false 64 64 (Some dup_entries) [(so_path dup_obj, dup_obj)] (Some [dup_obj]) [] false [])
  = Ok [true] /\
  ~ hits_fresh [dup_obj] [] dup_entries.
Proof.
  cbn zeta. split; [repeat constructor|]. split; [vm_compute; reflexivity|]. split; [vm_compute; reflexivity|].
  cbn. intros [_ [H _]]. apply H. left. reflexivity.
Qed.

(* ---- reader.py: _update_object_metadata ------------------------------------------------------------------------ *)

Lemma aset_aset {V} (k : bytes) (v1 v2 : V) (l : alist V) : aset k v2 (aset k v1 l) = aset k v2 l.
Proof.
  induction l as [|[k' v'] r IH]; cbn [aset].
  - rewrite bytes_eqb_refl. reflexivity.
  - destruct (bytes_eqb k k') eqn:E; cbn [aset]; rewrite E; [reflexivity|]. f_equal. exact IH.
Qed.

Lemma aset_same {V} (k : bytes) (v : V) (l : alist V) : alookup k l = Some v -> aset k v l = l.
Proof.
  induction l as [|[k' v'] r IH]; cbn [alookup aset]; [discriminate|].
  destruct (bytes_eqb k k') eqn:E; [intros [= ->]; reflexivity|]. intros H. f_equal. apply IH. exact H.
Qed.

Lemma get_or_create_object_eq om p :
  get_or_create_object_gen om p
  = Ok (get_ometa p om, match alookup p om with Some _ => om | None => aset p ometa0 om end).
Proof. unfold get_or_create_object_gen, get_ometa. destruct (alookup p om); reflexivity. Qed.

(* writing the (possibly fresh) entry back over the dictionary get_or_create left *)
Lemma aset_after_create (om : alist ometa) p (m : ometa) :
  aset p m (match alookup p om with Some _ => om | None => aset p ometa0 om end) = aset p m om.
Proof. destruct (alookup p om); [reflexivity|apply aset_aset]. Qed.

Lemma update_object_data_type_eq p m o :
  update_object_data_type_gen p m o
  = if (match om_dtype m with Some _ => true | None => false end) && negb (oz_eqb (om_dtype m) (so_dtype o))
    then Err EValue else Ok (om_set_dtype m (so_dtype o)).
Proof.
  unfold update_object_data_type_gen.
  replace (cls_eqb (om_dtype m) (so_dtype o)) with (oz_eqb (om_dtype m) (so_dtype o)) by reflexivity.
  destruct (om_dtype m); reflexivity.
Qed.

Lemma update_ometa_gen m o nch fin :
  (do m2 <- update_object_data_type_gen (so_path o) (om_set_len m (om_len m + seg_values o nch fin)) o;
   if negb (is_none (obj_scaler_data_types o))
   then update_object_scaler_data_types_gen (so_path o) m2 o
   else Ok m2)
  = update_ometa m o nch fin.
Proof.
  rewrite update_object_data_type_eq. unfold update_ometa. cbn [om_set_len om_dtype].
  destruct ((match om_dtype m with Some _ => true | None => false end) && negb (oz_eqb (om_dtype m) (so_dtype o)));
    cbn [bind]; [reflexivity|].
  unfold update_object_scaler_data_types_gen. unfold obj_scaler_data_types.
  unfold om_set_scalers, om_set_dtype, om_set_len. cbn [om_props om_dtype om_scalers om_len].
  destruct (so_daqmx o) as [q|]; cbn [is_none negb]; [|reflexivity].
  destruct (om_scalers m) as [st0|]; cbn [is_none negb andb opt_zdict_eqb]; [|reflexivity].
  destruct (scaler_types_eqb st0 (scaler_types q)); reflexivity.
Qed.

Theorem update_object_metadata_gen_eq prev om seg :
  update_object_metadata_gen prev om seg
  = update_object_metadata (sg_objs seg) (sg_nchunks seg) (sg_final seg) prev om.
Proof.
  unfold update_object_metadata_gen.
  assert (H : forall objs prev om,
             update_object_metadata_gen_loop3 seg objs prev om
             = update_object_metadata objs (sg_nchunks seg) (sg_final seg) prev om).
  { induction objs as [|o r IH]; intros prev0 om0; [reflexivity|].
    cbn [update_object_metadata_gen_loop3 update_object_metadata].
    rewrite get_or_create_object_eq. cbn [bind]. rewrite number_of_segment_values_eq. cbn [bind].
    rewrite <- (update_ometa_gen (get_ometa (so_path o) om0) o (sg_nchunks seg) (sg_final seg)).
    destruct (update_object_data_type_gen (so_path o) _ o) as [m2|]; cbn [bind]; [|reflexivity].
    rewrite aset_after_create, aset_aset.
    destruct (negb (is_none (obj_scaler_data_types o))).
    - destruct (update_object_scaler_data_types_gen (so_path o) m2 o) as [m3|]; cbn [bind]; [|reflexivity].
      rewrite aset_aset. apply IH.
    - cbn [bind]. apply IH. }
  rewrite H. destruct (update_object_metadata _ _ _ _ _) as [[a b]|]; reflexivity.
Qed.

(* ---- reader.py: _update_object_properties ------------------------------------------------------------------------- *)

(* the (name, value) pairs read from the file carry the property's own name *)
Definition pairs_wf (pairs : list (bytes * prop)) : Prop := Forall (fun kv => fst kv = p_name (snd kv)) pairs.
Definition gprops_wf (o : option (alist (list (bytes * prop)))) : Prop :=
  match o with Some d => Forall (fun kv => pairs_wf (snd kv)) d | None => True end.

Lemma lexed_props_wf x : pairs_wf (lexed_props x).
Proof. unfold pairs_wf, lexed_props. apply Forall_forall. intros kv Hin. apply in_map_iff in Hin. destruct Hin as (p & <- & _). reflexivity. Qed.

Lemma aset_Forall {V} (P : bytes * V -> Prop) k v (d : alist V) :
  (forall k', P (k', v)) -> Forall P d -> Forall P (aset k v d).
Proof.
  intros Hv. induction 1 as [|[k' v'] r Hk Hr IH]; cbn [aset]; [constructor; [apply Hv|constructor]|].
  destruct (bytes_eqb k k'); constructor; auto.
Qed.

Lemma gprops_collect_wf : forall es acc, gprops_wf acc -> gprops_wf (gprops_collect es acc).
Proof.
  induction es as [|x r IH]; intros acc H; [exact H|]. cbn [gprops_collect]. apply IH.
  destruct (e_props x); [exact H|]. cbn [gprops_wf].
  apply aset_Forall; [intros; apply lexed_props_wf|]. destruct acc; [exact H|constructor].
Qed.

Lemma props_loop5_eq p : forall pairs m om,
  pairs_wf pairs ->
  update_object_properties_gen_loop5 p pairs m om
  = Ok (om_set_props m (fold_left (fun acc q => aset (p_name q) q acc) (map snd pairs) (om_props m)),
        match pairs with
        | [] => om
        | _ => aset p (om_set_props m (fold_left (fun acc q => aset (p_name q) q acc) (map snd pairs) (om_props m))) om
        end).
Proof.
  induction pairs as [|[nm v] r IH]; intros m om Hwf.
  - cbn. destruct m; reflexivity.
  - inversion Hwf as [|? ? Hn Hr]; subst. cbn [fst snd] in Hn. subst nm.
    cbn [update_object_properties_gen_loop5 map fold_left snd]. rewrite (IH _ _ Hr).
    cbn [om_set_props om_props om_dtype om_scalers om_len]. destruct r; [reflexivity|].
    rewrite aset_aset. reflexivity.
Qed.

Theorem update_object_properties_gen_eq om gp :
  gprops_wf gp ->
  update_object_properties_gen om gp = Ok (update_object_properties (pview gp) om).
Proof.
  unfold update_object_properties_gen, update_object_properties. destruct gp as [d|]; [|reflexivity].
  cbn [gprops_wf pview]. intros Hwf.
  assert (H : forall om0, update_object_properties_gen_loop4 d om0
                          = Ok (fold_left (fun acc kv => aset (fst kv) (set_props (get_ometa (fst kv) acc) (snd kv)) acc)
                                          (map (fun kv => (fst kv, map snd (snd kv))) d) om0)).
  { induction Hwf as [|[p pairs] r Hp Hr IH]; intros om0; [reflexivity|].
    cbn [update_object_properties_gen_loop4 map fold_left fst snd] in *.
    rewrite get_or_create_object_eq. cbn [bind]. rewrite (props_loop5_eq _ _ _ _ Hp). cbn [bind].
    rewrite IH. f_equal. f_equal. unfold set_props.
    replace (om_set_props (get_ometa p om0)
                          (fold_left (fun acc q => aset (p_name q) q acc) (map snd pairs) (om_props (get_ometa p om0))))
      with (mkOmeta (fold_left (fun acc q => aset (p_name q) q acc) (map snd pairs) (om_props (get_ometa p om0)))
                    (om_dtype (get_ometa p om0)) (om_scalers (get_ometa p om0)) (om_len (get_ometa p om0))) by reflexivity.
    destruct pairs as [|pr prs].
    - cbn [map fold_left]. unfold get_ometa.
      destruct (alookup p om0) as [m|] eqn:E.
      + symmetry. replace (mkOmeta (om_props m) (om_dtype m) (om_scalers m) (om_len m)) with m by (destruct m; reflexivity).
        apply aset_same. exact E.
      + reflexivity.
    - apply aset_after_create. }
  rewrite H. reflexivity.
Qed.

(* ---- the side condition of the translated chunk arithmetic (DAQmx buffer indices are unsigned fields) ------------- *)

Definition idx_bufs (i : idx) : Prop :=
  match i with IDaqmx _ _ _ _ scalers _ => Forall (fun s => 0 <= sc_buf s) scalers | _ => True end.
Definition entry_bufs (x : entry) : Prop := idx_bufs (e_idx x).
Definition prev_bufs (prev : alist sobj) : Prop := forall p po, alookup p prev = Some po -> obj_bufs_nonneg po.

Lemma get_u32_nonneg e bs v r : get_u32 e bs = Ok (v, r) -> 0 <= v.
Proof.
  unfold get_u32. destruct (get_exact 4 bs) as [[x r']|]; cbn [bind]; [|discriminate].
  intros [= <- _]. apply u_dec_range.
Qed.

Lemma parse_scaler_buf e k bs s r : parse_scaler e k bs = Ok (s, r) -> 0 <= sc_buf s.
Proof.
  unfold parse_scaler. destruct (get_u32 e bs) as [[ty r1]|]; cbn [bind]; [|discriminate].
  destruct (get_u32 e r1) as [[buf r2]|] eqn:Eb; cbn [bind]; [|discriminate].
  destruct (get_u32 e r2) as [[off r3]|]; cbn [bind]; [|discriminate].
  destruct (if k =? DIGITAL_LINE_SCALER then get_u8 r3 else get_u32 e r3) as [[fmt r4]|]; cbn [bind]; [|discriminate].
  destruct (get_u32 e r4) as [[id r5]|]; cbn [bind]; [|discriminate].
  intros [= <- _]. exact (get_u32_nonneg _ _ _ _ Eb).
Qed.

Lemma parse_idx_bufs e bs i rest : parse_idx e bs = Ok (i, rest) -> idx_bufs i.
Proof.
  unfold parse_idx. destruct (get_u32 e bs) as [[h r0]|]; cbn [bind]; [|discriminate].
  destruct (h =? RAW_DATA_INDEX_NO_DATA); [intros [= <- _]; exact I|].
  destruct (h =? RAW_DATA_INDEX_MATCHES_PREVIOUS); [intros [= <- _]; exact I|].
  destruct ((h =? FORMAT_CHANGING_SCALER) || (h =? DIGITAL_LINE_SCALER)).
  - destruct (get_u32 e r0) as [[a r1]|]; cbn [bind]; [|discriminate].
    destruct (get_u32 e r1) as [[b r2]|]; cbn [bind]; [|discriminate].
    destruct (get_u64 e r2) as [[c r3]|]; cbn [bind]; [|discriminate].
    destruct (get_u32 e r3) as [[d r4]|]; cbn [bind]; [|discriminate].
    destruct (parse_n _ d r4) as [[s r5]|] eqn:Es; cbn [bind]; [|discriminate].
    destruct (get_u32 e r5) as [[f r6]|]; cbn [bind]; [|discriminate].
    destruct (parse_n _ f r6) as [[w r7]|]; cbn [bind]; [|discriminate].
    intros [= <- _]. cbn [idx_bufs]. unfold parse_n in Es.
    exact (repeat_parse_Forall _ _ (parse_scaler_buf e h) _ _ _ _ _ Es).
  - destruct (get_u32 e r0) as [[a r1]|]; cbn [bind]; [|discriminate].
    destruct (get_u32 e r1) as [[b r2]|]; cbn [bind]; [|discriminate].
    destruct (get_u64 e r2) as [[c r3]|]; cbn [bind]; [|discriminate].
    destruct (a =? T_STRING).
    + destruct (get_u64 e r3) as [[t r4]|]; cbn [bind]; [|discriminate]. intros [= <- _]. exact I.
    + intros [= <- _]. exact I.
Qed.

Theorem parse_metadata_bufs e bs es rest : parse_metadata e bs = Ok (es, rest) -> Forall entry_bufs es.
Proof.
  unfold parse_metadata, parse_n. destruct (get_u32 e bs) as [[n r]|]; cbn [bind]; [|discriminate].
  apply repeat_parse_Forall. intros bs0 x r0. unfold parse_entry.
  destruct (get_string e bs0) as [[p r1]|]; cbn [bind]; [|discriminate].
  destruct (parse_idx e r1) as [[i r2]|] eqn:Ei; cbn [bind]; [|discriminate].
  destruct (parse_props e r2) as [[ps r3]|]; cbn [bind]; [|discriminate].
  intros [= <- _]. exact (parse_idx_bufs _ _ _ _ Ei).
Qed.

Lemma new_object_bufs p i o : idx_bufs i -> new_object p i = Ok o -> obj_bufs_nonneg o.
Proof.
  destruct i as [| |lf dt dim n total|kind dt dim n scalers widths]; cbn [new_object idx_bufs]; intros Hb.
  - intros [= <-]. exact I.
  - intros [= <-]. exact I.
  - destruct (tds_size dt); [|discriminate]. destruct (_ && _); [discriminate|].
    destruct (negb (dim =? 1)); [discriminate|]. intros [= <-]. exact I.
  - destruct (tds_size dt); [|discriminate]. destruct (negb (dim =? 1)); [discriminate|].
    destruct (negb (forallb _ scalers)); [discriminate|]. destruct (_ && _); [discriminate|].
    intros [= <-]. exact Hb.
Qed.

Lemma set_has_data_bufs o b : obj_bufs_nonneg o -> obj_bufs_nonneg (set_has_data o b).
Proof. intros H. exact H. Qed.

Lemma update_existing_bufs o i o' : idx_bufs i -> obj_bufs_nonneg o -> update_existing o i = Ok o' -> obj_bufs_nonneg o'.
Proof.
  intros Hi Ho. destruct i; cbn [update_existing].
  - intros [= <-]. destruct (so_has_data o); assumption.
  - intros [= <-]. destruct (so_has_data o); assumption.
  - apply new_object_bufs. exact Hi.
  - apply new_object_bufs. exact Hi.
Qed.

Lemma reuse_previous_bufs o i o' : idx_bufs i -> obj_bufs_nonneg o -> reuse_previous o i = Ok o' -> obj_bufs_nonneg o'.
Proof. exact (update_existing_bufs o i o'). Qed.

Lemma Forall_replace_nth' {A} (P : A -> Prop) (l : list A) : forall i x, Forall P l -> P x -> Forall P (replace_nth i x l).
Proof.
  induction l as [|y r IH]; intros [|i] x Hl Hx; cbn [replace_nth]; try exact Hl.
  - inversion Hl; subst. constructor; assumption.
  - inversion Hl; subst. constructor; [assumption|]. apply IH; assumption.
Qed.

Lemma step_entry_bufs base prev ordered x ordered' :
  entry_bufs x -> prev_bufs prev -> match base with Some bl => bufs_nonneg bl | None => True end ->
  bufs_nonneg ordered -> step_entry base prev ordered x = Ok ordered' -> bufs_nonneg ordered'.
Proof.
  intros Hx Hp Hb Ho. unfold step_entry.
  destruct (match base with Some b => existing_lookup (e_path x) 0 b None | None => None end) as [[i o]|] eqn:El.
  - destruct base as [bl|]; [|discriminate]. destruct (existing_lookup_found _ _ _ _ El) as [Hn _].
    assert (Hob : obj_bufs_nonneg o).
    { unfold bufs_nonneg in Hb. rewrite Forall_forall in Hb. apply Hb. apply (nth_error_In _ _ Hn). }
    destruct (update_existing o (e_idx x)) as [o'|] eqn:Eu; cbn [bind]; [|discriminate]. intros [= <-].
    apply Forall_replace_nth'; [exact Ho|]. exact (update_existing_bufs _ _ _ Hx Hob Eu).
  - destruct (alookup (e_path x) prev) as [po|] eqn:Ep.
    + destruct (reuse_previous po (e_idx x)) as [o'|] eqn:Eu; cbn [bind]; [|discriminate]. intros [= <-].
      apply Forall_app. split; [exact Ho|]. constructor; [|constructor].
      exact (reuse_previous_bufs _ _ _ Hx (Hp _ _ Ep) Eu).
    + unfold entry_bufs in Hx. destruct (e_idx x) eqn:Ei; try discriminate;
        match goal with |- context [new_object ?p ?i] => destruct (new_object p i) as [o'|] eqn:En; cbn [bind]; [|discriminate] end;
        intros [= <-]; apply Forall_app; (split; [exact Ho|]); (constructor; [|constructor]);
        exact (new_object_bufs _ _ _ Hx En).
Qed.

Lemma fold_entries_bufs base prev : forall es ordered ordered',
  Forall entry_bufs es -> prev_bufs prev -> match base with Some bl => bufs_nonneg bl | None => True end ->
  bufs_nonneg ordered -> fold_entries base prev ordered es = Ok ordered' -> bufs_nonneg ordered'.
Proof.
  induction es as [|x r IH]; intros ordered ordered' He Hp Hb Ho; cbn [fold_entries]; [intros [= <-]; exact Ho|].
  inversion He as [|? ? Hx Hr]; subst.
  destruct (step_entry base prev ordered x) as [o1|] eqn:Es; cbn [bind]; [|discriminate].
  apply IH; try assumption. exact (step_entry_bufs _ _ _ _ _ Hx Hp Hb Ho Es).
Qed.

Lemma read_segment_objects_bufs toc md prev pseg objs props :
  match md with Some es => Forall entry_bufs es | None => True end -> prev_bufs prev ->
  match pseg with Some bl => bufs_nonneg bl | None => True end ->
  read_segment_objects toc md prev pseg = Ok (objs, props) -> bufs_nonneg objs.
Proof.
  intros He Hp Hs. unfold read_segment_objects. destruct md as [es|].
  - destruct (fold_entries _ prev _ es) as [o|] eqn:Ef; cbn [bind]; [|discriminate]. intros [= <- _].
    refine (fold_entries_bufs _ _ _ _ _ He Hp _ _ Ef); destruct (toc_has toc TOC_NEWLIST); try exact I;
      destruct pseg; try exact Hs; constructor.
  - destruct pseg as [l|]; [|discriminate]. intros [= <- _]. exact Hs.
Qed.

(* the statement with conditions on the INPUTS only *)
Theorem read_segment_objects_gen_eq_inputs h pos toc np dp inc es prev gcache pseg :
  let md := if toc_has toc TOC_META then Some es else None in
  Forall entry_lexed es -> Forall entry_bufs es -> prev_bufs prev ->
  match pseg with Some g => bufs_nonneg (gs_objs g) | None => True end ->
  (toc_has toc TOC_META = true -> toc_has toc TOC_NEWLIST = false ->
   forall g, pseg = Some g -> hits_fresh (gs_objs g) [] es) ->
  match gcache with Some c => cache_wf h c | None => True end ->
  res_map gen_view (read_segment_objects_gen h pos toc np dp inc es prev gcache pseg)
  = model_segment toc inc np dp md prev (option_map gs_objs pseg)
                  (match pseg with Some g => index_view (gs_index g) | None => [] end)
                  (match gcache with Some _ => true | None => false end) (cview gcache).
Proof.
  intros md Hl Hbf Hp Hs Hf Hwf. apply read_segment_objects_gen_eq; try assumption.
  intros objs props. apply read_segment_objects_bufs; [|exact Hp|destruct pseg; exact Hs].
  destruct (toc_has toc TOC_META); [exact Hbf|exact I].
Qed.

(* ---- the assumption behind the translation of `except AttributeError` ------------------------------------------------ *)

(* _reuse_previous_segment_metadata catches AttributeError around three statements; the translation enters the
   handler exactly when previous_segment is None.  That is right as long as self._calculate_chunks() raises no
   AttributeError of its own.  In the model, the only AttributeError of the chunk arithmetic is
   get_buffer_dimensions reading `daqmx_metadata` of a non-DAQmx data object ([Err EOther] in buffer_dims_from),
   and get_buffer_dimensions is only called when every data object IS a DAQmx object: *)
Lemma filter_all_length {A} (f : A -> bool) (l : list A) : length (filter f l) = length l -> forallb f l = true.
Proof.
  induction l as [|x r IH]; [reflexivity|]. cbn [filter forallb]. destruct (f x) eqn:E; cbn [length andb].
  - intros H. apply IH. lia.
  - intros H. pose proof (filter_length_le' f r). lia.
Qed.

Theorem calculate_chunks_no_attribute_error objs :
  have_daqmx objs = Ok true -> buffer_dims objs <> Err EOther.
Proof.
  unfold have_daqmx. set (d := data_objs objs).
  destruct (Nat.eqb _ 0); [discriminate|]. destruct (Nat.eqb _ (length d)) eqn:E; [|discriminate]. intros _.
  apply Nat.eqb_eq in E. apply filter_all_length in E.
  assert (Hall : forall o, In o objs -> so_has_data o = true -> so_daqmx o <> None).
  { intros o Hin Hd. rewrite forallb_forall in E. specialize (E o).
    assert (Hio : In o d) by (apply filter_In; split; assumption). specialize (E Hio).
    destruct (so_daqmx o); [discriminate|discriminate]. }
  unfold buffer_dims. generalize (@None (list (Z * Z))) ([] : list Z). clear E d.
  induction objs as [|o r IH]; intros dims w; cbn [buffer_dims_from]; [discriminate|].
  destruct (so_has_data o) eqn:Ed; cbn [negb]; [|apply IH; intros; apply Hall; [right|]; assumption].
  destruct (so_daqmx o) as [q|] eqn:Eq; [|exfalso; exact (Hall o (or_introl eq_refl) Ed Eq)].
  assert (Hb : forall dd nv sc, bump_dims dd nv sc <> Err EOther).
  { intros dd nv sc. revert dd. induction sc as [|s sc IHs]; intros dd; cbn [bump_dims]; [discriminate|].
    destruct (_ || _); [discriminate|]. destruct (nth _ dd (0, 0)). apply IHs. }
  destruct dims as [d0|].
  - destruct (negb (zlist_eqb (dq_widths q) w)); [discriminate|].
    destruct (bump_dims d0 (so_nvals o) (dq_scalers q)) as [d1|e] eqn:Eb; cbn [bind].
    + apply IH. intros; apply Hall; [right|]; assumption.
    + intros [= ->]. exact (Hb _ _ _ Eb).
  - destruct (bump_dims _ (so_nvals o) (dq_scalers q)) as [d1|e] eqn:Eb; cbn [bind].
    + apply IH. intros; apply Hall; [right|]; assumption.
    + intros [= ->]. exact (Hb _ _ _ Eb).
Qed.
