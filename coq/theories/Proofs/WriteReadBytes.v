(* C07 composed, step 1: the bytes TdmsWriter (Model/Writer.v) writes are
   [ser_file] of a file syntax (Model/FileSyn.v): one segment per call, ToC =
   metadata | raw data | new object list, little-endian, the entries of the
   call's sorted object list, and the raw data of its channels.  The syntax is
   well formed (FileSynProofs.wf_file) when the calls are (Writer.wf_file) and
   no segment's length is the "length unknown" marker 2^64 - 1. *)
From Coq Require Import List ZArith Bool Lia ZifyBool.
From Coq Require Import Init.Byte.
Import ListNotations.
From NpTdms Require Import Base.Bytes Base.Res Model.Tokens Model.TokensWf Model.ByteStr
  Model.StrictParse Model.Writer Proofs.TokensRoundtrip Proofs.ByteStrProofs
  Proofs.StrictParseProofs Proofs.WriterProofs.
From NpTdms Require Model.SegState Model.Layout Model.Reader Model.FileSyn Proofs.FileSynProofs.
Local Open Scope Z_scope.

Module FS := NpTdms.Model.FileSyn.
Module FP := NpTdms.Proofs.FileSynProofs.

(* ---- the sorted object list of every call ------------------------------------------ *)

Fixpoint sorted_calls (st : wstate) (calls : list (list wobj)) : res (list (list wobj)) :=
  match calls with
  | [] => Ok []
  | objs :: r =>
    do '(sorted, st') <- wr_objects st objs;
    do ss <- sorted_calls st' r;
    Ok (sorted :: ss)
  end.

Fixpoint sorted_file (sessions : list (Z * list (list wobj))) : res (list (Z * list wobj)) :=
  match sessions with
  | [] => Ok []
  | (v, calls) :: r =>
    do a <- sorted_calls w_init calls;
    do b <- sorted_file r;
    Ok (map (pair v) a ++ b)
  end.

(* the version the reader reports: the first segment's *)
Definition sl_version (sl : list (Z * list wobj)) : Z :=
  match sl with [] => 0 | vs :: _ => fst vs end.

(* ---- the file syntax of one call ---------------------------------------------------- *)

Definition fseg_of (vs : Z * list wobj) : FS.fseg :=
  FS.mkFseg TOC_WRITER (fst vs) (Some (map entry_of (snd vs))) (flat_map obj_raw (snd vs)).

Definition fsegs_of (sl : list (Z * list wobj)) : list FS.fseg := map fseg_of sl.

(* no segment is 2^64 - 1 bytes long (that value of the next-segment offset
   means "length unknown" to every TDMS reader) *)
Definition next_below_marker (s : segsyn) : bool := l_next (sg_leadin s) <? 0xFFFFFFFFFFFFFFFF.

Definition sizes_below_marker (sessions : list (Z * list (list wobj))) : bool :=
  match syntax_of_file sessions with
  | Ok segs => forallb next_below_marker segs
  | Err _ => true
  end.

Lemma tag_data_eq : Reader.TAG_DATA = StrictParse.TAG_DATA.
Proof. reflexivity. Qed.

Lemma blen_obj_raw sorted dsize :
  forallb wf_obj sorted = true -> data_size sorted = Ok dsize ->
  blen (flat_map obj_raw sorted) = dsize.
Proof.
  intros Hwf Hd.
  destruct (forall_entries sorted Hwf) as [_ [_ Hidx]].
  rewrite <- ser_raw_objs, <- (raw_size_ser _ _ Hidx).
  apply data_size_raw_size; assumption.
Qed.

Lemma segment_is_ser_seg v sorted s :
  forallb wf_obj sorted = true ->
  syntax_of_objs v sorted = Ok s ->
  ser_segment s = FS.ser_seg Reader.TAG_DATA true (fseg_of (v, sorted)).
Proof.
  intros Hwf Hs. unfold syntax_of_objs in Hs. rewrite mapM_wr_entry in Hs. cbn [bind] in Hs.
  destruct (data_size sorted) as [dsize|e] eqn:Ed; cbn [bind] in Hs; [|discriminate].
  injection Hs as <-.
  unfold ser_segment, FS.ser_seg, fseg_of, FS.fs_meta_bytes.
  cbn [sg_leadin sg_entries sg_values l_toc FS.fs_toc FS.fs_version FS.fs_meta FS.fs_data fst snd].
  rewrite toc_writer_le, ser_raw_objs, (blen_obj_raw sorted dsize Hwf Ed). reflexivity.
Qed.

Lemma segment_wf_fseg v sorted s :
  valid_version v = true ->
  forallb wf_obj sorted = true ->
  syntax_of_objs v sorted = Ok s ->
  seg_sizes_ok s = true -> next_below_marker s = true ->
  FP.wf_fseg (fseg_of (v, sorted)) = true.
Proof.
  intros Hv Hwf Hs Hsz Hnm. unfold syntax_of_objs in Hs. rewrite mapM_wr_entry in Hs. cbn [bind] in Hs.
  destruct (data_size sorted) as [dsize|e] eqn:Ed; cbn [bind] in Hs; [|discriminate].
  remember (blen (ser_metadata LE (map entry_of sorted))) as m eqn:Hm in Hs.
  remember (m + dsize) as nx eqn:Hnx in Hs.
  injection Hs as <-.
  unfold seg_sizes_ok in Hsz. unfold next_below_marker in Hnm.
  cbn [sg_leadin sg_entries l_next l_raw] in Hsz, Hnm.
  destruct (forall_entries sorted Hwf) as [He _].
  unfold FP.wf_fseg, fseg_of, FS.fs_meta_bytes.
  cbn [FS.fs_toc FS.fs_version FS.fs_meta FS.fs_data fst snd].
  rewrite toc_writer_le, (blen_obj_raw sorted dsize Hwf Ed), <- Hm, <- Hnx.
  unfold wf_metadata. rewrite He.
  apply andb_prop in Hsz. destruct Hsz as [Hsz _]. apply andb_prop in Hsz. destruct Hsz as [Hl _].
  rewrite Hl. unfold valid_version in Hv.
  assert (Hi : is_i32 v = true) by (unfold is_i32; lia). rewrite Hi, Hnm. reflexivity.
Qed.

(* ---- all calls of a session ---------------------------------------------------------- *)

Lemma calls_sorted v : forall calls st d i,
  forallb (forallb wf_obj) calls = true ->
  wr_calls true v st calls = Ok (d, i) ->
  exists sl segs,
    sorted_calls st calls = Ok sl /\
    syntax_of_calls_from v st calls = Ok segs /\
    Forall2 (fun sorted s => syntax_of_objs v sorted = Ok s) sl segs /\
    Forall (fun sorted => forallb wf_obj sorted = true) sl /\
    d = flat_map (fun sorted => FS.ser_seg Reader.TAG_DATA true (fseg_of (v, sorted))) sl.
Proof.
  induction calls as [|objs r IH]; intros st d i Hwf H.
  - cbn in H. injection H as <- <-. exists [], []. repeat split; constructor.
  - cbn [forallb] in Hwf. apply andb_prop in Hwf. destruct Hwf as [Hwo Hwr].
    cbn [wr_calls] in H. unfold wr_segment_gen in H.
    destruct (wr_objects st objs) as [[sorted st']|e] eqn:Eo; cbn [bind] in H; [|discriminate].
    destruct (wr_segment_bytes true v sorted) as [[d1 i1]|e] eqn:Eb; cbn [bind] in H; [|discriminate].
    destruct (wr_calls true v st' r) as [[d2 i2]|e] eqn:Er; cbn [bind] in H; [|discriminate].
    injection H as <- <-.
    destruct (segment_bytes_syntax v sorted d1 i1 Eb) as [s [Hs [-> ->]]].
    destruct (IH st' d2 i2 Hwr Er) as [sl [segs [Hsl [Hsegs [HF2 [HFw ->]]]]]].
    pose proof (wf_sorted _ _ _ _ Eo Hwo) as Hws.
    exists (sorted :: sl), (s :: segs).
    cbn [sorted_calls syntax_of_calls_from]. rewrite Eo. cbn [bind]. rewrite Hsl, Hs. cbn [bind].
    rewrite Hsegs. cbn [bind flat_map].
    rewrite (segment_is_ser_seg v sorted s Hws Hs).
    repeat split; try constructor; assumption.
Qed.

Lemma Forall2_app_intro {A B} (P : A -> B -> Prop) a b c d :
  Forall2 P a b -> Forall2 P c d -> Forall2 P (a ++ c) (b ++ d).
Proof. induction 1 as [|x y a b Hxy Hab IH]; intros Hcd; [exact Hcd|]. cbn [app]. constructor; [assumption|]. apply IH. exact Hcd. Qed.

Lemma file_sorted : forall sessions d i,
  forallb (fun s => forallb (forallb wf_obj) (snd s)) sessions = true ->
  wr_file sessions = Ok (d, i) ->
  exists sl segs,
    sorted_file sessions = Ok sl /\
    syntax_of_file sessions = Ok segs /\
    Forall2 (fun vs s => syntax_of_objs (fst vs) (snd vs) = Ok s) sl segs /\
    Forall (fun vs => forallb wf_obj (snd vs) = true /\ valid_version (fst vs) = true) sl /\
    d = FS.ser_file (fsegs_of sl).
Proof.
  induction sessions as [|[v calls] r IH]; intros d i Hwf H.
  - cbn in H. injection H as <- <-. exists [], []. repeat split; constructor.
  - cbn [forallb snd] in Hwf. apply andb_prop in Hwf. destruct Hwf as [Hw Hwr].
    unfold wr_file in H. cbn [wr_file_gen] in H. unfold wr_session_gen in H.
    destruct (valid_version v) eqn:Ev; [|discriminate].
    destruct (wr_calls true v w_init calls) as [[d1 i1]|e] eqn:Ec; cbn [bind] in H; [|discriminate].
    fold wr_file in H.
    destruct (wr_file r) as [[d2 i2]|e] eqn:Er; cbn [bind] in H; [|discriminate].
    injection H as <- <-.
    destruct (calls_sorted v calls w_init d1 i1 Hw Ec) as [sl1 [segs1 [Hsl1 [Hsegs1 [HF1 [HFw1 ->]]]]]].
    destruct (IH d2 i2 Hwr eq_refl) as [sl2 [segs2 [Hsl2 [Hsegs2 [HF2 [HFw2 ->]]]]]].
    exists (map (pair v) sl1 ++ sl2), (segs1 ++ segs2).
    cbn [sorted_file syntax_of_file]. unfold syntax_of_calls. rewrite Hsl1, Hsegs1. cbn [bind].
    rewrite Hsl2, Hsegs2. cbn [bind].
    split; [reflexivity|]. split; [reflexivity|]. split; [|split].
    + apply Forall2_app_intro; [|exact HF2].
      clear -HF1. induction HF1; cbn [map]; constructor; cbn [fst snd]; assumption.
    + apply Forall_app. split; [|exact HFw2].
      apply Forall_map. eapply Forall_impl; [|exact HFw1]. intros s Hs. cbn [fst snd]. split; assumption.
    + unfold FS.ser_file, fsegs_of. rewrite map_app, flat_map_app. f_equal.
      clear. induction sl1 as [|x sl1 IHs]; [reflexivity|]. cbn [map flat_map]. rewrite IHs. reflexivity.
Qed.

Lemma wf_fsegs sl : forall segs,
  Forall2 (fun vs s => syntax_of_objs (fst vs) (snd vs) = Ok s) sl segs ->
  Forall (fun vs => forallb wf_obj (snd vs) = true /\ valid_version (fst vs) = true) sl ->
  forallb seg_sizes_ok segs = true -> forallb next_below_marker segs = true ->
  FP.wf_file (fsegs_of sl).
Proof.
  unfold FP.wf_file.
  induction sl as [|[v sorted] sl IH]; intros segs HF2 HF Hsz Hnm; [reflexivity|].
  inversion HF2 as [|x s l segs' Hs HF2']; subst.
  inversion HF as [|x l [Hw Hv] HF']; subst.
  cbn [forallb] in Hsz, Hnm. apply andb_prop in Hsz. destruct Hsz as [Hsz1 Hsz2].
  apply andb_prop in Hnm. destruct Hnm as [Hnm1 Hnm2].
  cbn [fsegs_of map forallb]. cbn [fst snd] in *.
  rewrite (segment_wf_fseg v sorted s Hv Hw Hs Hsz1 Hnm1). cbn [andb].
  exact (IH segs' HF2' HF' Hsz2 Hnm2).
Qed.

(* Step 1: the writer's bytes are the serialisation of a well-formed file syntax *)
Theorem writer_bytes_are_ser_file : forall sessions data index,
  wf_file sessions = true ->
  sizes_below_marker sessions = true ->
  wr_file sessions = Ok (data, index) ->
  exists sl,
    sorted_file sessions = Ok sl /\
    Forall (fun vs => forallb wf_obj (snd vs) = true /\ valid_version (fst vs) = true) sl /\
    FP.wf_file (fsegs_of sl) /\
    data = FS.ser_file (fsegs_of sl).
Proof.
  intros sessions data index Hwf Hnm Hwr.
  unfold wf_file in Hwf. apply andb_prop in Hwf. destruct Hwf as [Hobjs Hsizes].
  destruct (file_sorted sessions data index Hobjs Hwr) as [sl [segs [Hsl [Hsegs [HF2 [HFw Hd]]]]]].
  unfold sizes_below_marker in Hnm. rewrite Hsegs in Hsizes, Hnm.
  exists sl. repeat split; try assumption.
  exact (wf_fsegs sl segs HF2 HFw Hsizes Hnm).
Qed.
