(* The file-handle control flow TRANSLATED from nptdms/{reader,tdms,writer}.py (Gen/PyFuncsResource.v,
   regenerated on every run) simulates the hand-written ownership model Model/Resource.v step by step:
   same outcome (return / which exception), same handle states, same attributes afterwards.

   The translated code runs on a handle table with one entry per file and attributes holding references;
   the model keeps, per file, the object together with "the attribute references it".  [core_of],
   [world_of], [wstate_of] are the (total) maps from the former to the latter; [*_wf] says that `_file`
   only ever references the object on the data file and `_index_file` the one on the index file (which
   every translated function preserves - part of each statement).

   The model is instantiated with fx = true: the tree contains the fix of D19 (close what was opened when
   a constructor fails half-way); an unfixed tree breaks the equalities of reader_init / writer_open /
   tdmsfile_init. *)
From Coq Require Import String List Bool Arith Lia.
Import ListNotations.
From NpTdms Require Import Model.Resource Proofs.ResourceProofs Gen.PyFuncsResource.

(* ---------------------------------------------------------------------- *)
(* From the translated state to the model's                                *)

Definition mk_handle (f : fobj) (h : bool) : handle :=
  match f with NoObj => Absent | FObj o s => Obj o s h end.

Definition refs (r : option fkey) (k : fkey) : bool :=
  match r with Some k' => fkey_eqb k' k | None => false end.

Definition is_some {A} (o : option A) : bool := negb (is_none o).

Definition core_of (s : grd) : core :=
  mkcore (mk_handle (h_data (gr_tab s)) (refs (gr_file s) KData))
         (mk_handle (h_index (gr_tab s)) (refs (gr_index_file s) KIndex))
         (is_some (gr_file_path s)) (is_some (gr_index_file_path s)).

(* an attribute references nothing, or the object (which exists) on its own file *)
Definition ref_ok (r : option fkey) (k : fkey) (t : htab) : bool :=
  match r with
  | None => true
  | Some k' => fkey_eqb k' k && match tab_get k t with NoObj => false | _ => true end
  end.
Definition path_ok (p : option path) (k : fkey) : bool :=
  match p, k with
  | None, _ | Some PData, KData | Some PIndex, KIndex => true
  | _, _ => false
  end.

(* the references of a reader are well-formed / and so are the recorded paths *)
Definition grd_rwf (s : grd) : bool :=
  ref_ok (gr_file s) KData (gr_tab s) && ref_ok (gr_index_file s) KIndex (gr_tab s).
Definition grd_wf (s : grd) : bool :=
  grd_rwf s && path_ok (gr_file_path s) KData && path_ok (gr_index_file_path s) KIndex.

Lemma grd_wf_rwf : forall s, grd_wf s = true -> grd_rwf s = true.
Proof.
  intros s H; unfold grd_wf in H.
  apply andb_true_iff in H; destruct H as [H _]; apply andb_true_iff in H; tauto.
Qed.

(* the outcome as the model names it; None for an exception the model has no name for *)
Definition out_of {S A} (r : xres S A) : option outcome :=
  match r with
  | XOk _ _ => Some Done
  | XErr (Ex e) _ => Some (Raise e)
  | XErr ExOther _ => None
  end.

Definition rsim {A} (r : xres grd A) (m : outcome * core) : Prop :=
  out_of r = Some (fst m) /\ core_of (xstate r) = snd m.

(* what the translated code does not change is not changed: the finaliser counters of a reader *)
Definition fins (t : htab) : nat * nat := (fin_data t, fin_index t).

(* ---------------------------------------------------------------------- *)
(* Tactics: the state space is finite apart from the log and the counters  *)

Ltac dfobj f := destruct f as [|[|] [|]].
Ltac dref r := destruct r as [[|]|].
Ltac dpath p := destruct p as [[| |]|].
Ltac dtab t := let d := fresh "d" in let i := fresh "i" in let a := fresh "na" in let b := fresh "nb" in
               let l := fresh "lg" in destruct t as [d i a b l]; dfobj d; dfobj i.
(* case analysis of a reader state under a hypothesis H : grd_rwf s = true or grd_wf s = true, pruning early;
   dgrd: paths as None / Some _ ; dgrdp: paths fully *)
Ltac dgrd0 s H := let t := fresh "t" in let p := fresh "p" in let q := fresh "q" in
               let f := fresh "f" in let x := fresh "x" in
               destruct s as [t p q f x]; destruct t as [d i na nb lg];
               dref f; dref x; try discriminate H; dfobj d; try discriminate H; dfobj i; try discriminate H.
Ltac dgrdr s H := dgrd0 s H.
Ltac dgrd s H := dgrd0 s H;
               match goal with p : option path, q : option path |- _ => destruct p as [p|]; destruct q as [q|] end.
Ltac dgrdp s H := dgrd0 s H;
               match goal with p : option path, q : option path |- _ =>
                 dpath p; try discriminate H; dpath q; try discriminate H end.
Ltac dorc o := destruct o as [[|] [|] [|] [| |] [|] [|] [|] [|] ? ?].
Ltac crunch := cbv; repeat split; try reflexivity; try discriminate.

(* ---------------------------------------------------------------------- *)
(* TdmsReader                                                              *)

Lemma reader_ensure_open_eq : forall orc s, grd_rwf s = true ->
    reader_ensure_open_gen orc s
    = if ensure_open (core_of s) then XOk tt s else XErr (Ex EClosed) s.
Proof. intros orc s H; dgrd s H; reflexivity. Qed.

Lemma reader_is_index_file_only_eq : forall orc s, grd_rwf s = true ->
    reader_is_index_file_only_gen orc s = XOk (is_index_file_only (core_of s)) s.
Proof. intros orc s H; dgrd s H; reflexivity. Qed.

Lemma reader_close_sim : forall orc s, grd_rwf s = true ->
    rsim (reader_close_gen orc s) (reader_close (core_of s)) /\
    grd_rwf (xstate (reader_close_gen orc s)) = true /\
    fins (gr_tab (xstate (reader_close_gen orc s))) = fins (gr_tab s) /\
    gr_file_path (xstate (reader_close_gen orc s)) = gr_file_path s /\
    gr_index_file_path (xstate (reader_close_gen orc s)) = gr_index_file_path s.
Proof. intros orc s H; dgrd s H; crunch. Qed.

(* ---- scenario parameters of the model, read off the oracle and the arguments ---- *)

Definition arg_of (src : source) : pyarg :=
  match src with
  | Path => APath PData
  | IndexPath => APath PIndex
  | Stream | BadStream => AStream KData
  | IndexStream => AStream KIndex
  end.

(* the first four bytes of the supplied stream are what the kind of source says *)
Definition tag_ok (orc : oracle) (src : source) : Prop :=
  match src with
  | Stream => o_tag orc = TagM
  | IndexStream => o_tag orc = TagH
  | BadStream => o_tag orc = TagBad
  | Path | IndexPath => True
  end.

(* which open() of the constructor fails, in the model's vocabulary *)
Definition cf_of (orc : oracle) (src : source) : cfault :=
  match src with
  | IndexPath => if o_open_index_ok orc then CNoFault else CIndexOpenFails
  | _ => if negb (o_open_data_ok orc) then CDataOpenFails
         else if negb (o_open_index_ok orc) then CIndexOpenFails else CNoFault
  end.

Definition fc_of (orc : oracle) : fcond :=
  mkfcond (o_meta_data_ok orc) (o_meta_index_ok orc) (o_build_ok orc) (o_data_ok orc) true true [].

Definition fobj_of (h : handle) : fobj :=
  match h with Absent => NoObj | Obj o s _ => FObj o s end.

(* before the constructor runs: the caller's stream exists, the new object's attributes are unset;
   counters and log arbitrary *)
Definition init_grd (src : source) (na nb : nat) (lg : list event) : grd :=
  mkgrd (mkhtab (fobj_of (data (init_core src))) (fobj_of (index (init_core src))) na nb lg)
        None None None None.

Lemma init_grd_core : forall src na nb lg, core_of (init_grd src na nb lg) = init_core src.
Proof. intros [] na nb lg; reflexivity. Qed.

Ltac dorc4 o := let a := fresh "oa" in let b := fresh "ob" in let c := fresh "oc" in let t := fresh "ot" in
                destruct o as [a b c t ? ? ? ? ? ?]; destruct a, b, c, t.

Lemma reader_init_sim : forall orc src na nb lg, tag_ok orc src ->
    let r := reader_init_gen orc (arg_of src) (init_grd src na nb lg) in
    rsim r (construct true src (o_isfile_index orc) (cf_of orc src) (init_core src)) /\
    grd_wf (xstate r) = true /\ fins (gr_tab (xstate r)) = (na, nb).
Proof.
  intros orc src na nb lg Ht; destruct src; dorc4 orc; cbn in Ht; try discriminate Ht; crunch.
Qed.

Lemma reader_read_metadata_sim : forall orc s, grd_rwf s = true ->
    let r := reader_read_metadata_gen orc s in
    rsim r (read_metadata (fc_of orc) (core_of s)) /\ grd_rwf (xstate r) = true /\
    fins (gr_tab (xstate r)) = fins (gr_tab s) /\
    gr_file_path (xstate r) = gr_file_path s /\ gr_index_file_path (xstate r) = gr_index_file_path s.
Proof.
  intros orc s H; destruct orc as [? ? ? ? ma mb ? ? ? ?]; destruct ma, mb; dgrd s H; crunch.
Qed.

(* read_raw_data / read_raw_data_for_channel / read_channel_chunk_for_index: _ensure_open, then I/O on
   self._file: Model/Resource.v data_access; the state is not changed *)
Definition unchanged {S A} (r : xres S A) (s : S) (o : outcome) : Prop :=
  out_of r = Some o /\ xstate r = s.

Lemma reader_read_raw_data_eq : forall orc s, grd_rwf s = true ->
    unchanged (reader_read_raw_data_gen orc s) s (data_access (core_of s) (o_data_ok orc)).
Proof. intros orc s H; destruct orc as [? ? ? ? ? ? ? dd ? ?]; destruct dd; dgrdr s H; crunch. Qed.

Lemma reader_read_raw_data_for_channel_eq : forall orc s, grd_rwf s = true ->
    unchanged (reader_read_raw_data_for_channel_gen orc s) s (data_access (core_of s) (o_data_ok orc)).
Proof. intros orc s H; destruct orc as [? ? ? ? ? ? ? dd ? ?]; destruct dd; dgrdr s H; crunch. Qed.

Lemma reader_read_channel_chunk_for_index_eq : forall orc s, grd_rwf s = true ->
    unchanged (reader_read_channel_chunk_for_index_gen orc s) s (data_access (core_of s) (o_data_ok orc)).
Proof. intros orc s H; destruct orc as [? ? ? ? ? ? ? dd ? ?]; destruct dd; dgrdr s H; crunch. Qed.

(* TdmsChannel: the guard of _read_channel_data and the chunk read *)
Lemma channel_read_channel_data_eq : forall orc s, grd_rwf s = true ->
    unchanged (channel_read_channel_data_gen orc s) s
              (if is_index_file_only (core_of s) then Raise EIndexOnly
               else data_access (core_of s) (o_data_ok orc)).
Proof. intros orc s H; destruct orc as [? ? ? ? ? ? ? dd ? ?]; destruct dd; dgrdr s H; crunch. Qed.

Lemma channel_read_chunk_for_index_eq : forall orc s, grd_rwf s = true ->
    unchanged (channel_read_chunk_for_index_gen orc s) s (data_access (core_of s) (o_data_ok orc)).
Proof. intros orc s H; destruct orc as [? ? ? ? ? ? ? dd ? ?]; destruct dd; dgrdr s H; crunch. Qed.


(* ---------------------------------------------------------------------- *)
(* TdmsFile                                                                *)

Definition world_of (t : gtf) (c : option nat) (g : gstate) : world :=
  mkworld (core_of (gt_rd t)) (is_some (gt_reader t)) (gt_data_read t) c g.

Definition init_gtf (src : source) (na nb : nat) (lg : list event) : gtf :=
  mkgtf (init_grd src na nb lg) None false.

Definition tsim {A} (r : xres gtf A) (m : outcome * world) : Prop :=
  out_of r = Some (fst m) /\ world_of (xstate r) (cache (snd m)) (gen (snd m)) = snd m.

Definition gtf_wf (t : gtf) : bool := grd_wf (gt_rd t).

(* TdmsFile.__init__ with the flags of the three static constructors = Model/Resource.v tf_init *)
Lemma tdmsfile_init_sim : forall orc a src na nb lg, tag_ok orc src ->
    let r := tdmsfile_init_gen orc (arg_of src) (metadata_only a) (keep_open a) (init_gtf src na nb lg) in
    tsim r (tf_init true a src (o_isfile_index orc) (cf_of orc src) (fc_of orc)) /\
    gtf_wf (xstate r) = true /\ fins (gr_tab (gt_rd (xstate r))) = (na, nb).
Proof.
  intros orc a src na nb lg Ht; destruct a, src; dorc orc; cbn in Ht; try discriminate Ht; crunch.
Qed.

(* the three static constructors are TdmsFile.__init__ with the flags of their API *)
Lemma tdmsfile_static_read_eq : forall orc file t,
    tdmsfile_static_read_gen orc file t = tdmsfile_init_gen orc file (metadata_only ApiRead) (keep_open ApiRead) t.
Proof. intros; unfold tdmsfile_static_read_gen; cbn [metadata_only keep_open]; destruct (tdmsfile_init_gen _ _ _ _ _) as [[] ?|]; reflexivity. Qed.
Lemma tdmsfile_static_open_eq : forall orc file t,
    tdmsfile_static_open_gen orc file t = tdmsfile_init_gen orc file (metadata_only ApiOpen) (keep_open ApiOpen) t.
Proof. intros; unfold tdmsfile_static_open_gen; cbn [metadata_only keep_open]; destruct (tdmsfile_init_gen _ _ _ _ _) as [[] ?|]; reflexivity. Qed.
Lemma tdmsfile_static_read_metadata_eq : forall orc file t,
    tdmsfile_static_read_metadata_gen orc file t
    = tdmsfile_init_gen orc file (metadata_only ApiReadMetadata) (keep_open ApiReadMetadata) t.
Proof. intros; unfold tdmsfile_static_read_metadata_gen; cbn [metadata_only keep_open]; destruct (tdmsfile_init_gen _ _ _ _ _) as [[] ?|]; reflexivity. Qed.

Definition static_gen (a : api) : oracle -> pyarg -> gtf -> xres gtf unit :=
  match a with
  | ApiRead => tdmsfile_static_read_gen
  | ApiOpen => tdmsfile_static_open_gen
  | ApiReadMetadata => tdmsfile_static_read_metadata_gen
  end.

Lemma static_gen_sim : forall orc a src na nb lg, tag_ok orc src ->
    let r := static_gen a orc (arg_of src) (init_gtf src na nb lg) in
    tsim r (tf_init true a src (o_isfile_index orc) (cf_of orc src) (fc_of orc)) /\
    gtf_wf (xstate r) = true /\ fins (gr_tab (gt_rd (xstate r))) = (na, nb).
Proof.
  intros orc a src na nb lg Ht r; subst r.
  destruct a; cbn [static_gen];
    rewrite ?tdmsfile_static_read_eq, ?tdmsfile_static_open_eq, ?tdmsfile_static_read_metadata_eq;
    apply tdmsfile_init_sim; exact Ht.
Qed.

(* TdmsFile.close / __enter__ / __exit__ *)
Lemma tdmsfile_close_sim : forall orc t c g, grd_rwf (gt_rd t) = true ->
    let r := tdmsfile_close_gen orc t in
    out_of r = Some (fst (tf_close (world_of t c g))) /\
    world_of (xstate r) c g = snd (tf_close (world_of t c g)) /\
    grd_rwf (gt_rd (xstate r)) = true /\
    fins (gr_tab (gt_rd (xstate r))) = fins (gr_tab (gt_rd t)) /\
    gt_data_read (xstate r) = gt_data_read t.
Proof.
  intros orc t c g H; destruct t as [s rd dr]; cbn [gt_rd] in H; destruct rd as [[]|]; dgrd s H; crunch.
Qed.

Lemma tdmsfile_exit_eq : forall orc t, tdmsfile_exit_gen orc t = tdmsfile_close_gen orc t.
Proof. intros; unfold tdmsfile_exit_gen; destruct (tdmsfile_close_gen orc t) as [[] ?|]; reflexivity. Qed.

Lemma tdmsfile_enter_eq : forall orc t, tdmsfile_enter_gen orc t = XOk tt t.
Proof. reflexivity. Qed.

(* ---------------------------------------------------------------------- *)
(* TdmsWriter                                                              *)

Definition wstate_of (s : gwr) : wstate :=
  mkw (mk_handle (h_data (gw_tab s)) (refs (gw_file s) KData))
      (mk_handle (h_index (gw_tab s)) (refs (gw_index_file s) KIndex))
      (is_some (gw_file_path s)) (is_some (gw_index_file_path s))
      (fin_data (gw_tab s)) (fin_index (gw_tab s)).

Definition gwr_rwf (s : gwr) : bool :=
  ref_ok (gw_file s) KData (gw_tab s) && ref_ok (gw_index_file s) KIndex (gw_tab s).
Definition gwr_wf (s : gwr) : bool :=
  gwr_rwf s && path_ok (gw_file_path s) KData && path_ok (gw_index_file_path s) KIndex.
(* an open object the library created is referenced by its attribute (so that replacing the object is what
   Model/Resource.v [orphaned] counts); part of the model's invariant ws_inv *)
Definition gwr_own (s : gwr) : bool :=
  (negb (fobj_lib_open (h_data (gw_tab s))) || refs (gw_file s) KData) &&
  (negb (fobj_lib_open (h_index (gw_tab s))) || refs (gw_index_file s) KIndex).

Lemma gwr_wf_rwf : forall s, gwr_wf s = true -> gwr_rwf s = true.
Proof.
  intros s H; unfold gwr_wf in H.
  apply andb_true_iff in H; destruct H as [H _]; apply andb_true_iff in H; tauto.
Qed.

Lemma ws_inv_own : forall s, ws_inv (wstate_of s) = true -> gwr_own s = true.
Proof.
  intros [[d i na nb lg] p q f x m] H; dfobj d; dfobj i; dref f; dref x; destruct p, q;
    try discriminate H; reflexivity.
Qed.

Definition wsim {A} (r : xres gwr A) (m : outcome * wstate) : Prop :=
  out_of r = Some (fst m) /\ wstate_of (xstate r) = snd m.

Ltac dgwr0 s H := let t := fresh "t" in let p := fresh "p" in let q := fresh "q" in
               let f := fresh "f" in let x := fresh "x" in let m := fresh "m" in
               destruct s as [t p q f x m]; destruct t as [d i na nb lg];
               dref f; dref x; try discriminate H; dfobj d; try discriminate H; dfobj i; try discriminate H.
Ltac dgwr s H := dgwr0 s H;
               match goal with p : option path, q : option path |- _ => destruct p as [p|]; destruct q as [q|] end.
Ltac dgwrp s H := dgwr0 s H;
               match goal with p : option path, q : option path |- _ =>
                 dpath p; try discriminate H; dpath q; try discriminate H end.

(* the targets of the model and the arguments / the handle table they stand for *)
Definition wfile_of (t : wtarget) : pyarg :=
  match t with WPath _ => APath PData | WStream _ => AStream KData end.
Definition windex_of (t : wtarget) : pyarg :=
  match t with WPath ix => ABool ix | WStream true => AStream KIndex | WStream false => ABool false end.
(* a new TdmsWriter object (attributes unset) and the caller's streams, if any *)
Definition init_gwr (t : wtarget) (lg : list event) (m0 : string) : gwr :=
  mkgwr (mkhtab (fobj_of (wdata (w_init t))) (fobj_of (windex (w_init t))) 0 0 lg) None None None None m0.

Lemma writer_init_sim : forall orc t mode lg m0,
    let r := writer_init_gen orc (wfile_of t) mode (windex_of t) (init_gwr t lg m0) in
    wsim r (Done, w_init t) /\ gwr_wf (xstate r) = true /\ gw_file_mode (xstate r) = mode /\
    h_log (gw_tab (xstate r)) = lg.
Proof. intros orc [[|]|[|]] mode lg m0; crunch. Qed.

(* an index_file argument of the wrong type is refused (not part of the model) *)
Lemma writer_init_bad_index_argument : forall orc file mode s,
    xout (writer_init_gen orc file mode AOther s) = Some ExOther.
Proof. intros orc [k|p|b|] mode s; reflexivity. Qed.

Definition wf_of (orc : oracle) : wfault :=
  if negb (o_open_data_ok orc) then WDataOpenFails
  else if negb (o_open_index_ok orc) then WIndexOpenFails else WNoFault.

Ltac crunchn := cbv -[Nat.add]; rewrite ?Nat.add_1_r, ?Nat.add_0_r; repeat split; try reflexivity; try discriminate.

Lemma writer_open_sim : forall orc s, gwr_wf s = true -> gwr_own s = true ->
    let r := writer_open_gen orc s in
    wsim r (w_open true (wf_of orc) (wstate_of s)) /\ gwr_wf (xstate r) = true.
Proof.
  intros orc s H Ho; destruct orc as [a b ? ? ? ? ? ? ? ?]; destruct a, b; dgwrp s H;
    try discriminate Ho; crunchn.
Qed.

Lemma writer_close_sim : forall orc s, gwr_rwf s = true ->
    let r := writer_close_gen orc s in
    wsim r (w_close (wstate_of s)) /\ gwr_rwf (xstate r) = true /\
    gw_file_path (xstate r) = gw_file_path s /\ gw_index_file_path (xstate r) = gw_index_file_path s.
Proof. intros orc s H; dgwr s H; crunch. Qed.

Lemma writer_enter_eq : forall orc s, writer_enter_gen orc s = writer_open_gen orc s.
Proof. intros; unfold writer_enter_gen; destruct (writer_open_gen orc s) as [[] ?|]; reflexivity. Qed.

Lemma writer_exit_eq : forall orc s, writer_exit_gen orc s = writer_close_gen orc s.
Proof. intros; unfold writer_exit_gen; destruct (writer_close_gen orc s) as [[] ?|]; reflexivity. Qed.
