(* Refinement of the reader model to Model/SpecDaqmx.v -- the raw data of one segment.

   Ordinary data objects: SpecRefineDataZ.decode_data_encodes_z (the block IS the
   model-level encoding of chunks holding the decoded values), transported to the
   content type of SpecDaqmx.v.
   DAQmx data objects: a segment the specification accepts (q_layout_ok, whole chunks)
   is a readable DAQmx segment (ReadCorrectDaqmx.daqmx_seg_ok) and what the
   specification adds to the content is, per path and per (path, scale id), what
   ReadCorrectDaqmx.direct_chunks holds. *)
From Coq Require Import List ZArith Bool Lia ZifyBool.
From Coq Require Import Init.Byte.
Import ListNotations.
From NpTdms Require Import Base.Bytes Base.Res Model.Tokens Model.TokensWf Model.SegState Model.Layout
     Model.Reader Model.FileSyn Model.Spec Model.SpecDaqmx Proofs.SegStateProofs Proofs.LayoutProofs
     Proofs.FileSynProofs Proofs.SegStateInherit Proofs.DaqmxProofs Proofs.ReadCorrect Proofs.SegEncodesZ
     Proofs.ReadCorrectZ Proofs.ReadCorrectDaqmx Proofs.ReadCorrectDaqmxZ Proofs.TruncLazyDaqmx
     Proofs.SpecRefineBase Proofs.SpecRefineMeta Proofs.SpecRefineData Proofs.SpecRefineDataZ
     Proofs.SpecDaqmxBase Proofs.SpecDaqmxMeta.
Local Open Scope Z_scope.
Ltac Zify.zify_post_hook ::= Z.to_euclidean_division_equations.

(* ---- the objects with data ---------------------------------------------------------- *)

Lemma data_objects_dq_in p i act : In (p, i) (data_objects_dq act) <-> In (p, Some i) act.
Proof.
  unfold data_objects_dq. rewrite in_flat_map. split.
  - intros ([q a] & Hin & Hq). cbn [fst snd] in Hq. destruct a as [j|]; [|contradiction].
    destruct Hq as [Hq|[]]. injection Hq as -> ->. exact Hin.
  - intros Hin. exists (p, Some i). split; [exact Hin|left; reflexivity].
Qed.

Lemma data_objects_dq_nodup : forall act, NoDup (map fst act) -> NoDup (map fst (data_objects_dq act)).
Proof.
  induction act as [|[p a] r IH]; intros Hnd; [constructor|].
  cbn [map fst] in Hnd. apply NoDup_cons_iff in Hnd. destruct Hnd as [Hp Hnd].
  cbn [data_objects_dq flat_map fst snd]. destruct a as [i|]; cbn [app map fst]; [|exact (IH Hnd)].
  constructor; [|exact (IH Hnd)].
  intros Hin. apply in_map_iff in Hin. destruct Hin as ([q j] & Hq & Hin). cbn [fst] in Hq. subst q.
  apply data_objects_dq_in in Hin. apply Hp. apply (in_map fst) in Hin. exact Hin.
Qed.

Definition gdobj (o : bytes * gidx) : sobj := gmk_obj (fst o) true (Some (snd o)).

Lemma data_objs_gobjs_of lst : forall act,
  (forall p i, In (p, Some i) act -> alookup p lst = Some i) ->
  data_objs (gobjs_of act lst) = map gdobj (data_objects_dq act).
Proof.
  induction act as [|[p a] r IH]; intros Hl; [reflexivity|].
  cbn [gobjs_of map data_objs filter fst snd data_objects_dq flat_map]. rewrite gmk_obj_has_data.
  assert (Hr : forall q i, In (q, Some i) r -> alookup q lst = Some i).
  { intros q i Hin. apply Hl. right. exact Hin. }
  specialize (IH Hr). unfold data_objs, gobjs_of in IH.
  destruct a as [i|]; cbn [gisd app map].
  - rewrite (Hl p i (or_introl eq_refl)). f_equal. exact IH.
  - exact IH.
Qed.

Lemma plain_part_spec : forall l pobjs,
    plain_part l = Some pobjs -> l = map (fun o => (fst o, GP (snd o))) pobjs.
Proof.
  induction l as [|[p [i|q]] r IH]; intros pobjs H; cbn [plain_part] in H.
  - injection H as <-. reflexivity.
  - destruct (plain_part r) as [pr|]; [|discriminate]. injection H as <-.
    cbn [map fst snd]. rewrite (IH pr eq_refl). reflexivity.
  - discriminate.
Qed.

Lemma daq_part_spec : forall l qobjs,
    daq_part l = Some qobjs -> l = map (fun o => (fst o, GQ (snd o))) qobjs.
Proof.
  induction l as [|[p [i|q]] r IH]; intros qobjs H; cbn [daq_part] in H.
  - injection H as <-. reflexivity.
  - discriminate.
  - destruct (daq_part r) as [qr|]; [|discriminate]. injection H as <-.
    cbn [map fst snd]. rewrite (IH qr eq_refl). reflexivity.
Qed.

Lemma map_gdobj_plain pobjs : map gdobj (map (fun o => (fst o, GP (snd o))) pobjs) = map dobj pobjs.
Proof. rewrite map_map. apply map_ext. intros [p i]. reflexivity. Qed.

Lemma map_gdobj_daq qobjs : map gdobj (map (fun o => (fst o, GQ (snd o))) qobjs) = map qdobj qobjs.
Proof. rewrite map_map. apply map_ext. intros [p q]. reflexivity. Qed.

Lemma map_fst_inj_plain pobjs : map fst (map (fun o : bytes * rawidx => (fst o, GP (snd o))) pobjs) = map fst pobjs.
Proof. rewrite map_map. reflexivity. Qed.

Lemma map_fst_inj_daq qobjs : map fst (map (fun o : bytes * dqidx => (fst o, GQ (snd o))) qobjs) = map fst qobjs.
Proof. rewrite map_map. reflexivity. Qed.

(* ---- lookups in the content after values were added -------------------------------------- *)

Definition dget (c : dict dcobj) (p : bytes) : dcobj := match alookup p c with Some o => o | None => dcobj0 end.

Lemma same_meta_refl c : Forall2 same_meta c c.
Proof. induction c as [|x c IH]; constructor; [repeat split|exact IH]. Qed.

Lemma same_meta_trans a b c : Forall2 same_meta a b -> Forall2 same_meta b c -> Forall2 same_meta a c.
Proof.
  intros H. revert c. induction H as [|x y a b Hxy _ IH]; intros c Hbc; inversion Hbc; subst; constructor.
  - destruct Hxy as (A1 & A2 & A3 & A4). destruct H1 as (B1 & B2 & B3 & B4).
    unfold same_meta. rewrite A1, A2, A3, A4. auto.
  - apply IH. assumption.
Qed.

Lemma same_meta_aset c k o o' :
  alookup k c = Some o -> d_props o = d_props o' -> d_dtype o = d_dtype o' -> d_types o = d_types o' ->
  Forall2 same_meta c (aset k o' c).
Proof.
  induction c as [|[k0 o0] c IH]; cbn [alookup aset]; [discriminate|]. intros H Hp Hd Ht.
  destruct (bytes_eqb k k0) eqn:E.
  - injection H as ->. apply bytes_eqb_eq in E. subst k0.
    constructor; [repeat split; assumption|apply same_meta_refl].
  - constructor; [repeat split|exact (IH H Hp Hd Ht)].
Qed.

Definition grown (o : dcobj) (vs : list bytes) : dcobj :=
  mkDc (d_props o) (d_dtype o) (d_vals o ++ vs) (d_types o) (d_len o + Z.of_nat (length vs)) (d_svals o).

Lemma add_values_dq_lookup c pv p :
  alookup p (add_values_dq c pv) =
  if bytes_eqb p (fst pv) then option_map (fun o => grown o (snd pv)) (alookup p c) else alookup p c.
Proof.
  unfold add_values_dq. change (get (fst pv) c) with (alookup (fst pv) c).
  destruct (bytes_eqb p (fst pv)) eqn:E.
  - apply bytes_eqb_eq in E. subst p. destruct (alookup (fst pv) c) as [o|] eqn:Ec.
    + change (put (fst pv)) with (@aset dcobj (fst pv)). rewrite alookup_aset_eq. reflexivity.
    + rewrite Ec. reflexivity.
  - destruct (alookup (fst pv) c) as [o|]; [|reflexivity].
    change (put (fst pv)) with (@aset dcobj (fst pv)). rewrite alookup_aset, E. reflexivity.
Qed.

Lemma add_values_dq_meta c pv : Forall2 same_meta c (add_values_dq c pv).
Proof.
  unfold add_values_dq. change (get (fst pv) c) with (alookup (fst pv) c).
  destruct (alookup (fst pv) c) as [o|] eqn:E; [|apply same_meta_refl].
  apply (same_meta_aset c (fst pv) o); [exact E|reflexivity..].
Qed.

Lemma grown_grown o a b : grown (grown o a) b = grown o (a ++ b).
Proof.
  unfold grown. cbn [d_props d_dtype d_vals d_types d_len d_svals].
  rewrite <- app_assoc, app_length, Nat2Z.inj_add, Z.add_assoc. reflexivity.
Qed.

Lemma grown_nil o : grown o [] = o.
Proof. unfold grown. rewrite app_nil_r. cbn [length]. rewrite Z.add_0_r. destruct o; reflexivity. Qed.

Lemma fold_add_values_dq_lookup : forall (l : list (bytes * list bytes)) c p,
    alookup p (fold_left add_values_dq l c) = option_map (fun o => grown o (vals_at p l)) (alookup p c).
Proof.
  induction l as [|pv l IH]; intros c p; cbn [fold_left].
  - unfold vals_at. cbn [flat_map]. destruct (alookup p c) as [o|]; cbn [option_map]; [|reflexivity].
    rewrite grown_nil. reflexivity.
  - rewrite IH, add_values_dq_lookup. unfold vals_at. cbn [flat_map]. fold (vals_at p l).
    change (beq p (fst pv)) with (bytes_eqb p (fst pv)).
    destruct (bytes_eqb p (fst pv)); destruct (alookup p c) as [o|]; cbn [option_map app]; try reflexivity.
    rewrite grown_grown. reflexivity.
Qed.

Lemma fold_add_values_dq_meta : forall l c, Forall2 same_meta c (fold_left add_values_dq l c).
Proof.
  induction l as [|pv l IH]; intros c; cbn [fold_left]; [apply same_meta_refl|].
  eapply same_meta_trans; [apply add_values_dq_meta|apply IH].
Qed.

Lemma fold_add_chunk_dq_lookup pobjs : forall css c p,
    alookup p (fold_left (add_chunk_dq pobjs) css c) =
    option_map (fun o => grown o (flat_map (fun vss => vals_at p (combine (map fst pobjs) vss)) css))
               (alookup p c).
Proof.
  induction css as [|vss css IH]; intros c p; cbn [fold_left flat_map].
  - destruct (alookup p c) as [o|]; cbn [option_map]; [|reflexivity]. rewrite grown_nil. reflexivity.
  - rewrite IH. unfold add_chunk_dq at 1. rewrite fold_add_values_dq_lookup.
    destruct (alookup p c) as [o|]; cbn [option_map]; [|reflexivity]. rewrite grown_grown. reflexivity.
Qed.

Lemma fold_add_chunk_dq_meta pobjs : forall css c, Forall2 same_meta c (fold_left (add_chunk_dq pobjs) css c).
Proof.
  induction css as [|vss css IH]; intros c; cbn [fold_left]; [apply same_meta_refl|].
  eapply same_meta_trans; [apply fold_add_values_dq_meta|apply IH].
Qed.

(* what SpecRefineDataZ.decode_data_encodes_z says about the values, pointwise *)
Lemma decoded_values_are_chunk_values pobjs css (cs : list chunk) :
  (forall c0 : dict cobj, NoDup (map fst c0) ->
      fold_left (add_chunk pobjs) css c0 =
      map (fun po => (fst po, mkCobj (o_props (snd po)) (o_dtype (snd po))
                                     (o_vals (snd po) ++ chan_values (fst po) cs))) c0) ->
  forall p, flat_map (fun vss => vals_at p (combine (map fst pobjs) vss)) css = chan_values p cs.
Proof.
  intros H p. specialize (H [(p, cobj0)]).
  rewrite fold_add_chunk in H by (cbn [map fst]; constructor; [intros []|constructor]).
  specialize (H ltac:(cbn [map fst]; constructor; [intros []|constructor])).
  unfold grow in H. cbn [map fst snd cobj0 o_props o_dtype o_vals app] in H.
  injection H as H. exact H.
Qed.

(* ======================================================================== *)
(* DAQmx: an accepted segment is a readable DAQmx segment                      *)
(* ======================================================================== *)

Lemma zs_eqb_eq a : forall b, zs_eqb a b = true -> a = b.
Proof.
  induction a as [|x a IH]; intros [|y b] H; cbn [zs_eqb] in H; try discriminate; [reflexivity|].
  apply andb_prop in H. destruct H as [Hx Hr]. f_equal; [lia|exact (IH b Hr)].
Qed.

Lemma z_nodup_sound l : z_nodup l = true -> NoDup l.
Proof. exact (nodup_z_b_sound l). Qed.

Lemma q_scaler_ok_sound kind n dims s : q_scaler_ok kind n dims s = true -> scaler_ok kind n dims s.
Proof.
  intros H. apply scaler_ok_b_sound. unfold q_scaler_ok, scaler_dt, type_size in H. unfold scaler_ok_b.
  destruct (daqmx_type (sc_type s)) as [dt|]; [|discriminate].
  destruct (tds_size dt) as [[sz|]|]; try discriminate. exact H.
Qed.

Lemma map_so_path_qdobj qobjs : map so_path (map qdobj qobjs) = map fst qobjs.
Proof. rewrite map_map. apply map_ext. intros [p q]. reflexivity. Qed.

Lemma q_layout_seg_ok g qobjs data m :
  data_objs (sg_objs g) = map qdobj qobjs -> qobjs <> [] -> NoDup (map fst qobjs) ->
  Forall (fun o => gidx_ok (GQ (snd o))) qobjs ->
  q_layout_ok qobjs = true ->
  q_nchunks (q_chunk (q_dims qobjs)) (blen data) = SOk m ->
  daqmx_seg_ok g data /\ direct_nchunks (dims_spec (data_objs (sg_objs g))) data = m.
Proof.
  intros Hdo Hne Hnd Hok Hlay Hm. unfold q_layout_ok in Hlay. apply andb_prop in Hlay.
  destruct Hlay as [Hw Hobjs].
  assert (Hcb : DaqmxProofs.chunk_bytes (dims_spec (data_objs (sg_objs g))) = q_chunk (q_dims qobjs)).
  { rewrite Hdo, dims_spec_qdobj. reflexivity. }
  pose proof (blen_nonneg data) as Hb.
  assert (Hwn : Forall (fun w => 0 <= w) (common_widths (data_objs (sg_objs g)))).
  { rewrite Hdo, common_widths_qdobj. apply Forall_forall. intros w Hin.
    rewrite forallb_forall in Hw. specialize (Hw w Hin). lia. }
  assert (Hcb0 : 0 <= q_chunk (q_dims qobjs)).
  { rewrite <- Hcb. apply DaqmxProofs.chunk_bytes_nonneg. apply dims_spec_nonneg. exact Hwn. }
  split.
  - unfold daqmx_seg_ok. cbv zeta. rewrite Hcb. split; [|split; [|split; [|split]]].
    + rewrite Hdo. intros E. apply Hne. destruct qobjs; [reflexivity|discriminate E].
    + rewrite Hdo, map_so_path_qdobj. exact Hnd.
    + exact Hwn.
    + rewrite Hdo. apply Forall_forall. intros o Ho. apply in_map_iff in Ho.
      destruct Ho as ([p q] & <- & Hin).
      rewrite forallb_forall in Hobjs. specialize (Hobjs _ Hin). unfold q_obj_ok in Hobjs. cbn [snd] in Hobjs.
      apply andb_prop in Hobjs. destruct Hobjs as [Hobjs Hsc]. apply andb_prop in Hobjs. destruct Hobjs as [Hwd Hids].
      rewrite Forall_forall in Hok. specialize (Hok _ Hin). cbn [snd gidx_ok] in Hok.
      exists (dq_of q). split; [reflexivity|]. split.
      { rewrite common_widths_qdobj. exact (zs_eqb_eq _ _ Hwd). }
      split; [apply z_nodup_sound; exact Hids|]. split.
      { unfold qdobj. rewrite gmk_obj_dtype. cbn [option_map gi_dt fst snd dq_of dq_scalers].
        destruct Hok as [Hr|[Hn (s & Hs)]]; [left; rewrite Hr; reflexivity|].
        right. exists s, (qi_dt q). split; [exact Hs|]. split; [reflexivity|exact Hn]. }
      apply Forall_forall. intros s Hs. rewrite forallb_forall in Hsc.
      rewrite dims_spec_qdobj. cbn [dq_of dq_kind dq_scalers] in *. unfold qdobj. cbn [gmk_obj so_nvals fst snd].
      apply q_scaler_ok_sound. exact (Hsc s Hs).
    + unfold q_nchunks in Hm. destruct (q_chunk (q_dims qobjs) =? 0) eqn:E0.
      * destruct (blen data =? 0) eqn:Ed; [|discriminate]. exists 0. split; [lia|]. split; [lia|reflexivity].
      * destruct (blen data mod q_chunk (q_dims qobjs) =? 0) eqn:Em; cbn [negb] in Hm; [|discriminate].
        exists (blen data / q_chunk (q_dims qobjs)).
        split; [apply Z.div_pos; lia|]. split; [|lia].
        pose proof (Z.div_mod (blen data) (q_chunk (q_dims qobjs)) ltac:(lia)). lia.
  - unfold direct_nchunks. rewrite Hcb. unfold q_nchunks in Hm.
    destruct (q_chunk (q_dims qobjs) =? 0).
    + destruct (blen data =? 0); [injection Hm as <-; reflexivity|discriminate].
    + destruct (negb _); [discriminate|]. injection Hm as <-. reflexivity.
Qed.

(* ======================================================================== *)
(* DAQmx: what the specification adds to the content                          *)
(* ======================================================================== *)

Definition daq_grown (e : endian) (dims : list (Z * Z)) (d : bytes) (j : nat) (q : dqidx) (x : dcobj) : dcobj :=
  let vals s := q_scaler_values e (qi_kind q) dims d j s in
  if qi_dt q =? T_DAQMX
  then mkDc (d_props x) (d_dtype x) (d_vals x) (d_types x) (d_len x + qi_n q)
            (fold_left (fun sv s => zapp (sc_id s) (vals s) sv) (qi_scalers q) (d_svals x))
  else mkDc (d_props x) (d_dtype x) (d_vals x ++ flat_map vals (qi_scalers q)) (d_types x)
            (d_len x + qi_n q) (d_svals x).

Lemma add_daq_lookup e dims d j c o p :
  alookup p (add_daq e dims d j c o) =
  if bytes_eqb p (fst o) then option_map (daq_grown e dims d j (snd o)) (alookup p c) else alookup p c.
Proof.
  unfold add_daq. change (get (fst o) c) with (alookup (fst o) c).
  destruct (bytes_eqb p (fst o)) eqn:E.
  - apply bytes_eqb_eq in E. subst p. destruct (alookup (fst o) c) as [x|] eqn:Ec.
    + change (put (fst o)) with (@aset dcobj (fst o)). rewrite alookup_aset_eq. reflexivity.
    + rewrite Ec. reflexivity.
  - destruct (alookup (fst o) c) as [x|]; [|reflexivity].
    change (put (fst o)) with (@aset dcobj (fst o)). rewrite alookup_aset, E. reflexivity.
Qed.

Lemma add_daq_meta e dims d j c o : Forall2 same_meta c (add_daq e dims d j c o).
Proof.
  unfold add_daq. change (get (fst o) c) with (alookup (fst o) c).
  destruct (alookup (fst o) c) as [x|] eqn:E; [|apply same_meta_refl].
  apply (same_meta_aset c (fst o) x); [exact E|destruct (qi_dt (snd o) =? T_DAQMX); reflexivity..].
Qed.

Lemma add_daq_chunk_lookup e dims d j : forall qobjs c p,
    NoDup (map fst qobjs) ->
    alookup p (add_daq_chunk e qobjs dims d c j) =
    match alookup p qobjs with
    | Some q => option_map (daq_grown e dims d j q) (alookup p c)
    | None => alookup p c
    end.
Proof.
  unfold add_daq_chunk.
  induction qobjs as [|[k q] r IH]; intros c p Hnd; cbn [fold_left alookup]; [reflexivity|].
  cbn [map fst] in Hnd. apply NoDup_cons_iff in Hnd. destruct Hnd as [Hk Hnd].
  rewrite (IH _ p Hnd), add_daq_lookup. cbn [fst snd].
  destruct (bytes_eqb p k) eqn:E.
  - apply bytes_eqb_eq in E. subst k.
    rewrite (alookup_not_in p r Hk). reflexivity.
  - reflexivity.
Qed.

Lemma add_daq_chunk_meta e dims d j : forall qobjs c, Forall2 same_meta c (add_daq_chunk e qobjs dims d c j).
Proof.
  unfold add_daq_chunk. induction qobjs as [|o r IH]; intros c; cbn [fold_left]; [apply same_meta_refl|].
  eapply same_meta_trans; [apply add_daq_meta|apply IH].
Qed.

Lemma fold_add_daq_chunk_meta e qobjs dims d : forall js c,
    Forall2 same_meta c (fold_left (add_daq_chunk e qobjs dims d) js c).
Proof.
  induction js as [|j js IH]; intros c; cbn [fold_left]; [apply same_meta_refl|].
  eapply same_meta_trans; [apply add_daq_chunk_meta|apply IH].
Qed.

(* values under a scale id after the scalers of one chunk were appended *)
Lemma zget_zapp id k vs : forall sv, zget id (zapp k vs sv) = zget id sv ++ (if k =? id then vs else []).
Proof.
  induction sv as [|[k0 v0] r IH]; cbn [zapp zget].
  - destruct (k =? id); reflexivity.
  - destruct (k0 =? k) eqn:E; cbn [zget].
    + destruct (k0 =? id) eqn:E2.
      * replace (k =? id) with true by lia. reflexivity.
      * replace (k =? id) with false by lia. rewrite app_nil_r. reflexivity.
    + destruct (k0 =? id) eqn:E2; [|exact IH].
      replace (k =? id) with false by lia. rewrite app_nil_r. reflexivity.
Qed.

Lemma zget_fold_zapp id (vals : scaler -> list bytes) : forall scalers sv,
    zget id (fold_left (fun sv s => zapp (sc_id s) (vals s) sv) scalers sv) =
    zget id sv ++ flat_map (fun s => if sc_id s =? id then vals s else []) scalers.
Proof.
  induction scalers as [|s r IH]; intros sv; cbn [fold_left flat_map]; [rewrite app_nil_r; reflexivity|].
  rewrite IH, zget_zapp, <- app_assoc. reflexivity.
Qed.

(* ---- how the values of one object grow: by what the chunks hold under its path ------ *)

Definition vstep (o o' : dcobj) (p : bytes) (cs : list chunk) (total : Z) : Prop :=
  d_vals o' = d_vals o ++ chan_values p cs /\
  (forall id, zget id (d_svals o') = zget id (d_svals o) ++ chan_scaler_values p id cs) /\
  d_len o' = d_len o + total.

Lemma vstep_refl o p : vstep o o p [] 0.
Proof.
  unfold vstep. cbn [chan_values chan_scaler_values flat_map]. rewrite app_nil_r.
  split; [reflexivity|]. split; [intros id; rewrite app_nil_r; reflexivity|lia].
Qed.

Lemma vstep_trans a b c p cs1 cs2 t1 t2 :
  vstep a b p cs1 t1 -> vstep b c p cs2 t2 -> vstep a c p (cs1 ++ cs2) (t1 + t2).
Proof.
  intros (A1 & A2 & A3) (B1 & B2 & B3). unfold vstep.
  rewrite B1, A1, chan_values_app, <- app_assoc. split; [reflexivity|]. split; [|lia].
  intros id. rewrite B2, A2, chan_scaler_values_app, <- app_assoc. reflexivity.
Qed.

Section DaqValues.
  Variables (e : endian) (qobjs : list (bytes * dqidx)) (d : bytes).
  Let dobjs := map qdobj qobjs.
  Let dims := q_dims qobjs.
  Hypothesis Hnd : NoDup (map fst qobjs).
  Hypothesis Hkinds : Forall obj_kind_ok dobjs.
  Hypothesis Hoff : forall p q s, In (p, q) qobjs -> In s (qi_scalers q) -> 0 <= sc_off s.

  Lemma dobjs_nodup : NoDup (map so_path dobjs).
  Proof. unfold dobjs. rewrite map_so_path_qdobj. exact Hnd. Qed.

  Lemma daq_grown_vstep j p q x :
    In (p, q) qobjs ->
    vstep x (daq_grown e dims d j q x) p [direct_chunk e dobjs dims d j] (qi_n q).
  Proof.
    intros Hin.
    assert (Ho : In (qdobj (p, q)) dobjs) by (unfold dobjs; apply in_map; exact Hin).
    pose proof dobjs_nodup as Hndo.
    rewrite Forall_forall in Hkinds. destruct (Hkinds _ Ho) as (q' & Hq' & Hids & Hkind).
    change (so_daqmx (qdobj (p, q))) with (Some (dq_of q)) in Hq'. injection Hq' as <-.
    cbn [dq_of dq_scalers dq_kind] in Hids, Hkind.
    change (so_dtype (qdobj (p, q))) with (Some (qi_dt q)) in Hkind.
    set (val := fun kind s => direct_scaler_chunk e kind dims d j s).
    assert (Hvals : forall s, In s (qi_scalers q) ->
                              q_scaler_values e (qi_kind q) dims d j s = val (qi_kind q) s).
    { intros s Hs. apply q_scaler_values_direct. exact (Hoff p q s Hin Hs). }
    rewrite direct_chunk_gen. fold val.
    unfold vstep, chan_values, chan_scaler_values. cbn [flat_map]. rewrite app_nil_r.
    pose proof (gen_chunk_at val dobjs (qdobj (p, q)) Hndo Ho) as [Hgv Hgs].
    change (so_path (qdobj (p, q))) with p in Hgv, Hgs.
    unfold daq_grown. destruct Hkind as [Hraw|(s & dt & Hs & Hdt & Hne)].
    - (* DaqMxRawData *)
      injection Hraw as Hraw. rewrite Hraw, Z.eqb_refl. cbn [d_vals d_svals d_len].
      destruct (gen_entries_raw val (qdobj (p, q)) (dq_of q) eq_refl) as [Hv Hsv].
      { change (so_dtype (qdobj (p, q))) with (Some (qi_dt q)). rewrite Hraw. reflexivity. }
      change (so_path (qdobj (p, q))) with p in Hv, Hsv.
      split; [rewrite Hgv, Hv, app_nil_r; reflexivity|]. split; [|reflexivity].
      intros id. rewrite app_nil_r, Hgs, Hsv, zget_fold_zapp. f_equal.
      cbn [dq_of dq_scalers dq_kind]. apply flat_map_ext_in'. intros s Hs.
      rewrite (Hvals s Hs). reflexivity.
    - (* typed by its only scaler *)
      injection Hdt as Hdt. replace (qi_dt q =? T_DAQMX) with false by lia. cbn [d_vals d_svals d_len].
      destruct (gen_entries_typed val (qdobj (p, q)) (dq_of q) s dt eq_refl) as [Hv Hsv];
        [change (so_dtype (qdobj (p, q))) with (Some (qi_dt q)); rewrite Hdt; reflexivity|exact Hne|exact Hs|].
      change (so_path (qdobj (p, q))) with p in Hv, Hsv.
      split; [|split; [|reflexivity]].
      + rewrite Hgv, Hv. f_equal. cbn [dq_of dq_scalers dq_kind] in *. rewrite Hs. cbn [flat_map].
        rewrite app_nil_r. apply Hvals. rewrite Hs. left. reflexivity.
      + intros id. rewrite app_nil_r, Hgs, Hsv, app_nil_r. reflexivity.
  Qed.

  Lemma daq_absent_values j p :
    alookup p qobjs = None ->
    chunk_values p (direct_chunk e dobjs dims d j) = [] /\
    forall id, chunk_scaler_values p id (direct_chunk e dobjs dims d j) = [].
  Proof.
    intros Hnone. rewrite direct_chunk_gen. apply gen_chunk_absent.
    intros o Ho Hp. unfold dobjs in Ho. apply in_map_iff in Ho. destruct Ho as ([k q] & <- & Hin).
    change (so_path (qdobj (k, q))) with k in Hp. subst k.
    apply (alookup_none_not_in _ _ Hnone). apply (in_map fst) in Hin. exact Hin.
  Qed.

  (* all chunks *)
  Lemma fold_add_daq_chunk_lookup : forall js c p,
      alookup p (fold_left (add_daq_chunk e qobjs dims d) js c) =
      match alookup p qobjs with
      | Some q => option_map (fun x => fold_left (fun x j => daq_grown e dims d j q x) js x) (alookup p c)
      | None => alookup p c
      end.
  Proof.
    induction js as [|j js IH]; intros c p; cbn [fold_left].
    - destruct (alookup p qobjs); [|reflexivity]. destruct (alookup p c); reflexivity.
    - rewrite IH, (add_daq_chunk_lookup e dims d j qobjs c p Hnd).
      destruct (alookup p qobjs) as [q|]; [|reflexivity].
      destruct (alookup p c); reflexivity.
  Qed.

  Lemma fold_daq_grown_vstep p q : In (p, q) qobjs -> forall js x,
      vstep x (fold_left (fun x j => daq_grown e dims d j q x) js x) p
            (map (direct_chunk e dobjs dims d) js) (Z.of_nat (length js) * qi_n q).
  Proof.
    intros Hin. induction js as [|j js IH]; intros x; cbn [fold_left map length].
    - change (Z.of_nat 0 * qi_n q) with 0. apply vstep_refl.
    - replace (Z.of_nat (S (length js)) * qi_n q) with (qi_n q + Z.of_nat (length js) * qi_n q) by lia.
      change (direct_chunk e dobjs dims d j :: map (direct_chunk e dobjs dims d) js)
        with ([direct_chunk e dobjs dims d j] ++ map (direct_chunk e dobjs dims d) js).
      eapply vstep_trans; [apply (daq_grown_vstep j p q x Hin)|apply IH].
  Qed.

  Lemma daq_absent_all p js :
    alookup p qobjs = None ->
    chan_values p (map (direct_chunk e dobjs dims d) js) = [] /\
    forall id, chan_scaler_values p id (map (direct_chunk e dobjs dims d) js) = [].
  Proof.
    intros Hnone. split; [|intros id]; apply flat_map_all_nil; intros c Hc;
      apply in_map_iff in Hc; destruct Hc as (j & <- & _).
    - exact (proj1 (daq_absent_values j p Hnone)).
    - exact (proj2 (daq_absent_values j p Hnone) id).
  Qed.
End DaqValues.
