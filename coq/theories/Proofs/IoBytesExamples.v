(* C05 on bytes: concrete instances (le_file, rc_file, rc2_file of
   Proofs/LazyEagerExamples.v / ReadCorrect.v).

   le_file: INTERLEAVED segment of two chunks (a int16, b bool) | segment with b
   only | contiguous segment of two chunks (3 x b, 1 x a).  The abstract file is
   computed from the bytes by vm_compute, an interleaved history (index reads,
   windows, a slice, a file-level and a channel-level iterator both left
   half-consumed) is run on it, and the outputs are compared with the
   specification in terms of the eager data -- once by evaluation, once by the
   theorem. *)
From Coq Require Import List ZArith Bool Lia.
From Coq Require Import Init.Byte.
Import ListNotations.
From NpTdms Require Import Base.Bytes Base.Res Base.PySlice Model.Tokens Model.TokensWf
     Model.SegState Model.Layout Model.Reader Model.FileSyn Model.LazyBytes Model.IoBytes
     Proofs.SegStateProofs Proofs.LayoutProofs Proofs.FileSynProofs Proofs.ReadCorrect
     Proofs.LazyEagerIndex Proofs.LazyEagerView Proofs.LazyEagerTop Proofs.LazyEagerExamples
     Proofs.IoBytesSeg Proofs.IoBytesFile Proofs.IoBytesTop.
From NpTdms Require Model.IoPlan Proofs.IoPlanProofs Proofs.IoBytesIndex.
Local Open Scope Z_scope.

Section Examples.
Import String.
Local Open Scope string_scope.

(* ---- the regularity hypothesis holds --------------------------------------------------- *)

Example le_regular : io_regular le_st = true.
Proof. vm_compute. reflexivity. Qed.
Example rc_regular : io_regular rc_st = true.
Proof. vm_compute. reflexivity. Qed.
Example rc2_regular : io_regular rc2_st = true.
Proof. vm_compute. reflexivity. Qed.

(* ---- the abstract file of le_file, computed from its bytes ------------------------------ *)

Definition la (s : string) : Z := lab (hex s).

Definition le_io : IoPlan.file :=
  IoPlan.mkFile [0; 1]
    [ IoPlan.mkSeg 0 104 true true [IoPlan.mkObj 0 2 4; IoPlan.mkObj 1 2 2]
        [ [ [la "0102"; la "0304"]; [la "01"; la "00"] ];
          [ [la "0506"; la "0708"]; [la "01"; la "00"] ] ];
      IoPlan.mkSeg 116 184 true false [IoPlan.mkObj 1 3 3]
        [ [ [la "01"; la "01"; la "01"] ] ];
      IoPlan.mkSeg 187 255 true false [IoPlan.mkObj 1 3 3; IoPlan.mkObj 0 1 2]
        [ [ [la "00"; la "01"; la "00"]; [la "0a0b"] ];
          [ [la "01"; la "00"; la "01"]; [la "0c0d"] ] ] ].

Example le_iofile : iofile_of_bytes (ser_file le_file) = Ok le_io.
Proof. vm_compute. reflexivity. Qed.

Example le_io_wf : IoPlan.wf_file le_io = true.
Proof. vm_compute. reflexivity. Qed.

(* the same by the theorem *)
Example le_io_wf_thm :
  exists f, iofile_of_bytes (ser_file le_file) = Ok f /\ IoPlan.wf_file f = true /\
            IoPlan.f_chans f = [0; 1] /\ List.length (IoPlan.f_segs f) = 3%nat.
Proof.
  exact (iofile_wf le_file le_st le_h le_chunks le_wf le_run le_hier le_encodes le_canonical
                   le_typed_channels le_distinct le_regular).
Qed.

(* ---- an interleaved history -------------------------------------------------------------- *)

(* for chunk in f.data_chunks() and for chunk in a.data_chunks(), both advanced
   step by step between a[-1], b.read_data(3, 6), a[-1::-2], b[7], a[2], a.read_data(1);
   neither iterator is exhausted *)
Definition le_ops : list IoPlan.op :=
  [IoPlan.NewFileGen 0; IoPlan.NewChanGen 0 1; IoPlan.Next 0; IoPlan.Index 0 (-1); IoPlan.Next 1;
   IoPlan.Read 1 3 (Some 6); IoPlan.Slice 0 (Some (-1)) None (Some (-2)); IoPlan.Next 0;
   IoPlan.Index 1 7; IoPlan.Next 1; IoPlan.Index 0 2; IoPlan.Next 0; IoPlan.Next 1;
   IoPlan.Read 0 1 None].

Definition le_outs : list IoPlan.out :=
  [IoPlan.OUnit; IoPlan.OUnit;
   IoPlan.OFChunk [(0, (0, IoPlan.Vals [la "0102"; la "0304"; la "0506"; la "0708"]));
                   (1, (0, IoPlan.Vals [la "01"; la "00"; la "01"; la "00"]))];
   IoPlan.OVal (la "0c0d");
   IoPlan.OChunk 0 (IoPlan.Vals [la "0102"; la "0304"; la "0506"; la "0708"]);
   IoPlan.OVals [la "00"; la "01"; la "01"; la "01"; la "00"; la "01"];
   IoPlan.OVals [la "0c0d"; la "0708"; la "0304"];
   IoPlan.OFChunk [(0, (4, IoPlan.Vals [])); (1, (4, IoPlan.Vals [la "01"; la "01"; la "01"]))];
   IoPlan.OVal (la "00");
   IoPlan.OChunk 4 (IoPlan.Vals [la "0a0b"]);
   IoPlan.OVal (la "0506");
   IoPlan.OFChunk [(0, (4, IoPlan.Vals [la "0a0b"])); (1, (7, IoPlan.Vals [la "00"; la "01"; la "00"]))];
   IoPlan.OChunk 5 (IoPlan.Vals [la "0c0d"]);
   IoPlan.OVals [la "0304"; la "0506"; la "0708"; la "0a0b"; la "0c0d"]].

(* the state machine on the computed file *)
Example le_history_eval : snd (IoPlan.run le_io IoPlan.init le_ops) = le_outs.
Proof. vm_compute. reflexivity. Qed.

(* the state is not trivial: both channels cached, two live frames, both indexes built *)
Example le_history_state :
  let s := fst (IoPlan.run le_io IoPlan.init le_ops) in
  List.length (IoPlan.cache s) = 2%nat /\ List.length (IoPlan.gens s) = 2%nat /\
  List.length (IoPlan.idx s) = 2%nat.
Proof. vm_compute. repeat split; reflexivity. Qed.

(* the file-level chunk list, labelled *)
Definition le_L : list (list (Z * list Z)) :=
  [ [(0, [la "0102"; la "0304"; la "0506"; la "0708"]); (1, [la "01"; la "00"; la "01"; la "00"])];
    [(1, [la "01"; la "01"; la "01"])];
    [(1, [la "00"; la "01"; la "00"]); (0, [la "0a0b"])];
    [(1, [la "01"; la "00"; la "01"]); (0, [la "0c0d"])] ].

Example le_label_chunks :
  label_chunks (map ch_path (all_channels le_h)) (eager_file_chunks (rs_segments le_st) le_chunks) = Ok le_L.
Proof. vm_compute. reflexivity. Qed.

(* the specification in terms of the eager data, evaluated: the same outputs *)
Example le_history_spec_eval :
  map (IoBytesIndex.spec_out (eager_vals le_h le_chunks) (eager_cseq le_st le_h le_chunks)
                             (eager_fouts le_st le_h le_chunks))
      (IoPlan.annotate le_ops) = le_outs.
Proof. vm_compute. reflexivity. Qed.

(* the file-level outputs from the eager chunks: four chunks, running offsets per channel *)
Example le_fouts_eval :
  eager_fouts le_st le_h le_chunks
  = [IoPlan.OFChunk [(0, (0, IoPlan.Vals [la "0102"; la "0304"; la "0506"; la "0708"]));
                     (1, (0, IoPlan.Vals [la "01"; la "00"; la "01"; la "00"]))];
     IoPlan.OFChunk [(0, (4, IoPlan.Vals [])); (1, (4, IoPlan.Vals [la "01"; la "01"; la "01"]))];
     IoPlan.OFChunk [(0, (4, IoPlan.Vals [la "0a0b"])); (1, (7, IoPlan.Vals [la "00"; la "01"; la "00"]))];
     IoPlan.OFChunk [(0, (5, IoPlan.Vals [la "0c0d"])); (1, (10, IoPlan.Vals [la "01"; la "00"; la "01"]))]].
Proof. vm_compute. reflexivity. Qed.

(* ... and by the theorem *)
Example le_history_thm :
  snd (IoPlan.run le_io IoPlan.init le_ops)
  = map (IoBytesIndex.spec_out (eager_vals le_h le_chunks) (eager_cseq le_st le_h le_chunks)
                               (eager_fouts le_st le_h le_chunks))
        (IoPlan.annotate le_ops).
Proof.
  exact (history_independent_bytes le_file le_st le_h le_chunks le_wf le_run le_hier le_encodes le_canonical
                                   le_typed_channels le_distinct le_regular le_io le_iofile le_ops).
Qed.

(* single operations, by the theorems: a window of b on the bytes (lz_read_bytes) and
   on the state machine; a[-1]; a[-1::-2] *)
Example le_read_b_3_6 :
  exists vs, lz_read_bytes (ser_file le_file) rc_path_b 3 (Some 6) = Ok vs /\
             vs = window_of 3 (Some 6) (chan_values rc_path_b (List.concat le_chunks)) /\
             snd (IoPlan.step le_io IoPlan.init (IoPlan.Read 1 3 (Some 6))) = IoPlan.OVals (map lab vs).
Proof.
  rewrite <- (proj2 le_chan_b).
  apply (io_read_is_lazy_read le_file le_st le_h le_chunks le_wf le_run le_hier le_encodes le_canonical
                              le_typed_channels le_distinct le_regular le_io le_iofile _ 1 3 (Some 6)
                              (proj1 le_chan_b)).
  - vm_compute. reflexivity.
  - lia.
  - cbn. lia.
Qed.

Example le_index_a_last :
  snd (IoPlan.step le_io IoPlan.init (IoPlan.Index 0 (-1))) = IoPlan.OVal (la "0c0d") /\
  py_index (chan_values rc_path_a (List.concat le_chunks)) (-1) = Ok (hex "0c0d").
Proof. vm_compute. split; reflexivity. Qed.

Example le_slice_a_rev2 :
  snd (IoPlan.step le_io IoPlan.init (IoPlan.Slice 0 (Some (-1)) None (Some (-2))))
  = lab_slice (chan_values rc_path_a (List.concat le_chunks)) (Some (-1)) None (Some (-2)).
Proof.
  rewrite <- (proj2 le_chan_a).
  apply (io_slice_is_eager_slice le_file le_st le_h le_chunks le_wf le_run le_hier le_encodes le_canonical
                                 le_typed_channels le_distinct le_regular le_io le_iofile _ 0 _ _ _
                                 (proj1 le_chan_a)).
  vm_compute. reflexivity.
Qed.

(* the channel-level iterator of a run to completion: chunks [4 values | 1 | 1], then
   StopIteration; the interleaved segment is one chunk, the middle segment has none *)
Example le_chan_iterator_a :
  map (fun n => IoPlan.fresh_out le_io (IoPlan.ANext (IoPlan.KChan 0) n)) (seq 0 5)
  = [IoPlan.OChunk 0 (IoPlan.Vals [la "0102"; la "0304"; la "0506"; la "0708"]);
     IoPlan.OChunk 4 (IoPlan.Vals [la "0a0b"]); IoPlan.OChunk 5 (IoPlan.Vals [la "0c0d"]);
     IoPlan.OStop; IoPlan.OStop] /\
  eager_chan_chunks rc_path_a (rs_segments le_st) le_chunks
  = [[hex "0102"; hex "0304"; hex "0506"; hex "0708"]; [hex "0a0b"]; [hex "0c0d"]].
Proof. vm_compute. split; reflexivity. Qed.

(* ---- rc_file (string channel, metadata-less second segment) and rc2_file (a segment
        without kTocRawData: the file-level iterator yields an empty chunk for it) ------- *)

Example rc_iofile_wf :
  exists f, iofile_of_bytes (ser_file rc_file) = Ok f /\ IoPlan.wf_file f = true /\
            IoPlan.f_chans f = [0; 1] /\ List.length (IoPlan.f_segs f) = 2%nat.
Proof.
  exact (iofile_wf rc_file rc_st rc_h rc_chunks rc_wf rc_run rc_hier rc_encodes rc_canonical
                   rc_typed_channels rc_distinct rc_regular).
Qed.

Definition rc2_io : IoPlan.file :=
  match iofile_of_bytes (ser_file rc2_file) with Ok f => f | Err _ => IoPlan.mkFile [] [] end.

Example rc2_iofile : iofile_of_bytes (ser_file rc2_file) = Ok rc2_io.
Proof. vm_compute. reflexivity. Qed.

Example rc2_file_iterator :
  map (fun n => IoPlan.fresh_out rc2_io (IoPlan.ANext IoPlan.KFile n)) (seq 0 3)
  = [IoPlan.OFChunk [(0, (0, IoPlan.Vals [la "0102"; la "0304"; la "0506"]));
                     (1, (0, IoPlan.Vals [la "01"; la "00"; la "01"]))];
     IoPlan.OFChunk [(0, (3, IoPlan.Vals [])); (1, (3, IoPlan.Vals []))];
     IoPlan.OStop].
Proof. vm_compute. reflexivity. Qed.

(* ---- a path named twice in one object list has no abstract file (dup_file) ----------- *)

Example dup_no_iofile : iofile_of_bytes (ser_file dup_file) = Err EOther.
Proof. vm_compute. reflexivity. Qed.

End Examples.
