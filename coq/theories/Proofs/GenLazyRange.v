(* Proofs for Props/C04_gen7.v.
   Part 1: the witness that the kTocRawData clause of Props/C04_gen6.v translated_lazy_read_is_window_of_eager_partial is
   NECESSARY: a two-segment file whose first lead-in ToC lacks kTocRawData although the segment holds raw data
   (harness/c04.py rawflag_file()).  Every other hypothesis holds, the hand model (Model/LazyBytes.v lz_read_bytes) returns
   the window, the TRANSLATED segment loop with the TRANSLATED per-segment function does not.
   Part 2: the range part of gap (a) of Props/C04_gen6.v derived from the window arithmetic. *)
From Coq Require Import String Ascii.
From Coq Require Import ZArith List Bool Lia ZifyBool.
From Coq Require Import Init.Byte.
Import ListNotations.
From NpTdms Require Import Base.Bytes Base.Res Base.PySlice Model.Tokens Model.SegState Model.Layout Model.Reader Model.FileSyn
     Model.LazyRead Model.LazyBytes
     Gen.PyFuncsReader Gen.PyFuncsDecode Gen.PyFuncsLazySeg Gen.PyFuncsLazyIdx Gen.PyFuncsLazyLoop
     Proofs.SegStateProofs Proofs.LayoutProofs Proofs.FileSynProofs Proofs.ReadCorrect
     Proofs.LazyEagerIndex Proofs.LazyEagerView Proofs.LazyEagerTop Proofs.LazyEagerExamples
     Proofs.GenLazyIdxEquiv Proofs.GenLazyLoopEquiv Proofs.GenLazyFile.
Local Open Scope Z_scope.
Ltac Zify.zify_post_hook ::= Z.to_euclidean_division_equations.

(* ---- the witness file ------------------------------------------------------------------------------------------------------ *)

(* two segments, int32 channel /'g'/'a', one chunk of 10 values each (0..9, 10..19); ToC 6 = kTocMetaData | kTocNewObjList
   (kTocRawData, bit 3, cleared), ToC 14 = the same with kTocRawData *)
Definition rawflag_segs : list fseg :=
  [ mkFseg 6 4713 (Some [ mkEntry rc_path_a (IFull 20 3 1 10 None) [] ])
      (hex "00000000010000000200000003000000040000000500000006000000070000000800000009000000");
    mkFseg 14 4713 (Some [ mkEntry rc_path_a (IFull 20 3 1 10 None) [] ])
      (hex "0a0000000b0000000c0000000d0000000e0000000f00000010000000110000001200000013000000") ].

(* the bytes harness/c04.py rawflag_file() produces (the file the check replays against the implementation) *)
Definition rawflag_hex : bytes :=
  hex ("5444536d06000000691200005000000000000000280000000000000001000000080000002f2767272f276127140000000300000001000000"
    ++ "0a00000000000000000000000000000001000000020000000300000004000000050000000600000007000000080000000900"
    ++ "00005444536d0e000000691200005000000000000000280000000000000001000000080000002f2767272f27612714000000030000000100"
    ++ "00000a00000000000000000000000a0000000b0000000c0000000d0000000e0000000f00000010000000110000001200000013000000").

Lemma rawflag_bytes : ser_file rawflag_segs = rawflag_hex.
Proof. vm_compute. reflexivity. Qed.

Definition rawflag_st : rstate := match sm_run rawflag_segs false with Ok st => st | Err _ => rstate0 end.
Definition rawflag_h : hierarchy := match build_hierarchy (rs_om rawflag_st) with Ok h => h | Err _ => mkHier [] [] end.
Definition rawflag_st' : rstate :=
  match rd_metadata (ser_file rawflag_segs) false (Some (blen (ser_file rawflag_segs))) true with Ok s => s | Err _ => rstate0 end.

Definition rawflag_obj : sobj := mkSobj rc_path_a true 10 40 (Some 3) None.   (* int32 x 10 *)
Definition rawflag_vals0 : list bytes :=
  [hex "00000000"; hex "01000000"; hex "02000000"; hex "03000000"; hex "04000000"
   ; hex "05000000"; hex "06000000"; hex "07000000"; hex "08000000"; hex "09000000"].
Definition rawflag_vals1 : list bytes :=
  [hex "0a000000"; hex "0b000000"; hex "0c000000"; hex "0d000000"; hex "0e000000"
   ; hex "0f000000"; hex "10000000"; hex "11000000"; hex "12000000"; hex "13000000"].
Definition rawflag_chunks : list (list chunk) :=
  [ [ [(rc_path_a, CData rawflag_vals0)] ]; [ [(rc_path_a, CData rawflag_vals1)] ] ].

Lemma rawflag_wf : wf_file rawflag_segs.
Proof. unfold wf_file. vm_compute. reflexivity. Qed.

Lemma rawflag_run : sm_run rawflag_segs false = Ok rawflag_st.
Proof. vm_compute. reflexivity. Qed.

Lemma rawflag_hier : build_hierarchy (rs_om rawflag_st) = Ok rawflag_h.
Proof. vm_compute. reflexivity. Qed.

Lemma rawflag_meta : rd_metadata (ser_file rawflag_segs) false (Some (blen (ser_file rawflag_segs))) true = Ok rawflag_st'.
Proof. vm_compute. reflexivity. Qed.

Lemma rawflag_encodes : segs_encode (rs_segments rawflag_st) rawflag_segs rawflag_chunks.
Proof.
  assert (Hsegs : rs_segments rawflag_st = [nth 0 (rs_segments rawflag_st) seg0; nth 1 (rs_segments rawflag_st) seg0])
    by (vm_compute; reflexivity).
  rewrite Hsegs. clear Hsegs. unfold rawflag_segs, rawflag_chunks.
  constructor; [|constructor; [|constructor]].
  - eapply (rc_seg_contig _ _ [rawflag_obj] [[rawflag_vals0]]).
    + vm_compute. reflexivity.
    + vm_compute. reflexivity.
    + vm_compute. reflexivity.
    + vm_compute. reflexivity.
    + unfold rawflag_vals0. repeat constructor.
    + unfold rawflag_vals0. repeat constructor.
    + vm_compute. reflexivity.
    + vm_compute. reflexivity.
  - eapply (rc_seg_contig _ _ [rawflag_obj] [[rawflag_vals1]]).
    + vm_compute. reflexivity.
    + vm_compute. reflexivity.
    + vm_compute. reflexivity.
    + vm_compute. reflexivity.
    + unfold rawflag_vals1. repeat constructor.
    + unfold rawflag_vals1. repeat constructor.
    + vm_compute. reflexivity.
    + vm_compute. reflexivity.
Qed.

Lemma rawflag_canonical : om_paths_canonical (rs_om rawflag_st).
Proof. apply om_paths_canonical_b_sound. vm_compute. reflexivity. Qed.

Lemma rawflag_distinct : Forall (fun g => NoDup (map so_path (sg_objs g))) (rs_segments rawflag_st).
Proof. apply seg_paths_distinct_b_sound. vm_compute. reflexivity. Qed.

Lemma rawflag_chan : In (rc_chan rawflag_h 0) (all_channels rawflag_h) /\ ch_path (rc_chan rawflag_h 0) = rc_path_a.
Proof. split; [vm_compute; left; reflexivity|vm_compute; reflexivity]. Qed.

(* the first segment carries raw data (40 bytes, one chunk) and its ToC lacks kTocRawData; the second has the flag *)
Lemma rawflag_flags :
  map (fun s => (toc_has (fs_toc s) TOC_RAW, blen (fs_data s))) rawflag_segs = [(false, 40); (true, 40)] /\
  map (fun g => (toc_has (sg_toc g) TOC_RAW, sg_nchunks g)) (rs_segments rawflag_st') = [(false, 1); (true, 1)].
Proof. split; vm_compute; reflexivity. Qed.

(* ---- every hypothesis other than the kTocRawData clause holds ------------------------------------------------------------------ *)

Definition range_ok (s : segment) (c n : Z) : Prop := 0 <= c /\ 0 <= n /\ n + c <= sg_nchunks s.
Definition raw_range_ok (s : segment) (c n : Z) : Prop := toc_has (sg_toc s) TOC_RAW = true /\ range_ok s c n.

Definition rawflag_om : alist Z := [(rc_path_a, 20)].

Lemma rawflag_strings : forall k s ch, nth_error (rs_segments rawflag_st') k = Some s -> nth_error rawflag_chunks k = Some ch ->
                                      Forall (strings_valid (data_objs (sg_objs s))) ch.
Proof.
  intros k s ch Hk _. apply Forall_forall. intros c0 _. apply no_strings_valid.
  destruct k as [|[|k]]; vm_compute in Hk; try (destruct k; discriminate);
    injection Hk as <-; vm_compute; repeat constructor; discriminate.
Qed.

Lemma rawflag_range_calls offs len :
  In (offs, len) [(3, Some 5); (1, Some 10); (0, None)] ->
  loop_calls range_ok (rs_segments rawflag_st') [] rawflag_om rc_path_a offs len.
Proof.
  intros Hin. unfold loop_calls. intros first so m [H|[_ (tbl2 & Hb & Hl)]] Hm; [vm_compute in H; discriminate|].
  vm_compute in Hb. injection Hb as <-. vm_compute in Hl. injection Hl as <- <-.
  vm_compute in Hm. injection Hm as <-.
  intros i s c n skip Hi Hr.
  destruct Hin as [E|[E|[E|[]]]]; injection E as <- <-;
    (destruct i as [|[|i]]; vm_compute in Hi; try discriminate; try (destruct i; discriminate);
     injection Hi as <-; vm_compute in Hr; try discriminate;
     injection Hr as <- <- <-; vm_compute; repeat split; discriminate).
Qed.

(* the hypotheses of Props/C03_read.v lazy_is_window_of_eager (first line) and the further ones of Props/C04_gen6.v
   translated_lazy_read_is_window_of_eager_partial, its loop_calls hypothesis WITHOUT the kTocRawData clause *)
Lemma rawflag_domain :
  (wf_file rawflag_segs /\ sm_run rawflag_segs false = Ok rawflag_st /\ build_hierarchy (rs_om rawflag_st) = Ok rawflag_h /\
   segs_encode (rs_segments rawflag_st) rawflag_segs rawflag_chunks /\ om_paths_canonical (rs_om rawflag_st) /\
   Forall (fun g => NoDup (map so_path (sg_objs g))) (rs_segments rawflag_st) /\
   In (rc_chan rawflag_h 0) (all_channels rawflag_h) /\ ch_path (rc_chan rawflag_h 0) = rc_path_a) /\
  rd_metadata (ser_file rawflag_segs) false (Some (blen (ser_file rawflag_segs))) true = Ok rawflag_st' /\
  (forall k s ch, nth_error (rs_segments rawflag_st') k = Some s -> nth_error rawflag_chunks k = Some ch ->
                  Forall (strings_valid (data_objs (sg_objs s))) ch) /\
  (forall offs len, In (offs, len) [(3, Some 5); (1, Some 10); (0, None)] ->
                    loop_calls range_ok (rs_segments rawflag_st') [] rawflag_om rc_path_a offs len) /\
  zsum (seg_nums unit (seg_views (rs_segments rawflag_st') rc_path_a)) < 2 ^ 63 /\
  tbl_ok (rs_segments rawflag_st') rc_path_a [] /\
  alookup rc_path_a rawflag_om = Some (om_len (get_ometa rc_path_a (rs_om rawflag_st))) /\
  chan_values rc_path_a (concat rawflag_chunks) = (rawflag_vals0 ++ rawflag_vals1)%list.
Proof.
  split.
  { exact (conj rawflag_wf (conj rawflag_run (conj rawflag_hier (conj rawflag_encodes (conj rawflag_canonical
             (conj rawflag_distinct rawflag_chan)))))). }
  split; [exact rawflag_meta|]. split; [exact rawflag_strings|]. split; [exact rawflag_range_calls|].
  split; [vm_compute; reflexivity|]. split; [exact I|]. split; vm_compute; reflexivity.
Qed.

(* ---- the hand model returns the window (as Props/C03_read.v lazy_is_window_of_eager says) --------------------------------------- *)

Lemma rawflag_model_window :
  lz_read_bytes (ser_file rawflag_segs) rc_path_a 3 (Some 5) = Ok [hex "03000000"; hex "04000000"; hex "05000000"; hex "06000000"; hex "07000000"] /\
  lz_read_bytes (ser_file rawflag_segs) rc_path_a 1 (Some 10) = Ok (tl rawflag_vals0 ++ [hex "0a000000"])%list /\
  lz_read_bytes (ser_file rawflag_segs) rc_path_a 0 None = Ok (rawflag_vals0 ++ rawflag_vals1)%list.
Proof. repeat split; vm_compute; reflexivity. Qed.

(* the same through the theorem *)
Lemma rawflag_model_window_thm offs len :
  0 <= offs -> (match len with None => True | Some l => 0 <= l end) ->
  lz_read_bytes (ser_file rawflag_segs) rc_path_a offs len =
  Ok (match len with
      | None => zskipn offs (rawflag_vals0 ++ rawflag_vals1)
      | Some l => zfirstn l (zskipn offs (rawflag_vals0 ++ rawflag_vals1))
      end).
Proof.
  intros Ho Hl. destruct rawflag_domain as ((H1 & H2 & H3 & H4 & H5 & H6 & H7 & H8) & _ & _ & _ & _ & _ & _ & Hv).
  rewrite <- Hv, <- H8.
  exact (LazyEagerTop.lazy_is_window_of_eager rawflag_segs rawflag_st rawflag_h rawflag_chunks H1 H2 H3 H4 H5 H6 _ offs len H7 Ho Hl).
Qed.

(* ---- the TRANSLATED code does not -------------------------------------------------------------------------------------------- *)

(* TdmsReader.read_raw_data_for_channel (translated segment loop) with the translated TdmsSegment.read_raw_data_for_channel
   on the witness bytes, as composed in Proofs/GenLazyFile.v *)
Definition rawflag_lazy (offs : Z) (len : option Z) : res (list (list bytes) * alist (Z * list Z) * posfile) :=
  read_raw_data_for_channel_gen posfile bytes bytes_verify (bytes_chunks rc_path_a) (Some (rs_segments rawflag_st')) [] rawflag_om
                                (mkPf (ser_file rawflag_segs) 0) rc_path_a offs len.

(* TdmsChannel._read_channel_data: allocate the receiver, append the yielded chunks *)
Definition rawflag_lazy_read (offs : Z) (len : option Z) : res (list bytes) :=
  do '(outs, _, _) <- rawflag_lazy offs len;
  do n <- read_channel_data_alloc_gen (Some 3) false 20 offs len;
  match n with Some n => receive bytes (hex "00000000") LazyRead.RNumpy n outs | None => Err EOther end.

(* what it computes: the placeholder empty chunk of the flagless first segment takes the skip / trim of the first chunk *)
Lemma rawflag_translated_yields :
  mapr (fun r => fst (fst r)) (rawflag_lazy 3 (Some 5)) = Ok [[]; firstn 8 rawflag_vals0] /\
  mapr (fun r => fst (fst r)) (rawflag_lazy 1 (Some 10)) = Ok [[]; rawflag_vals0; [hex "0a000000"]] /\
  mapr (fun r => fst (fst r)) (rawflag_lazy 0 None) = Ok [[]; rawflag_vals0; rawflag_vals1].
Proof. repeat split; vm_compute; reflexivity. Qed.

Lemma rawflag_translated_reads :
  rawflag_lazy_read 3 (Some 5) = Err EValue /\                      (* /repo: ValueError *)
  rawflag_lazy_read 1 (Some 10) = Ok rawflag_vals0 /\               (* /repo: values 0..9 instead of 1..10 *)
  rawflag_lazy_read 0 None = Ok (rawflag_vals0 ++ rawflag_vals1)%list.  (* the full read is right *)
Proof. repeat split; vm_compute; reflexivity. Qed.

(* the translated EAGER read (TdmsFile.read) returns all 20 values *)
Lemma rawflag_eager_tokens :
  exists pre post, rd_all (ser_file rawflag_segs) = Ok ((pre ++ map TB (rawflag_vals0 ++ rawflag_vals1) ++ post)%list, true).
Proof.
  exists [TZ 4713; TZ 0; TZ 1; TB (hex "67"); TZ 0; TZ 1; TB (hex "61"); TB (hex "67"); TB rc_path_a; TZ 3; TZ 20; TZ 0; TZ 0; TZ 20],
         [TZ 0; TZ 0].
  vm_compute. reflexivity.
Qed.

(* the conclusion of Props/C04_gen6.v translated_lazy_read_is_window_of_eager_partial FAILS on the witness for
   read_data(offset=3, length=5), for every receiver *)
Theorem rawflag_refuted : forall (zero : bytes) rk,
  ~ (exists outs tbl' f2' dt n,
        rawflag_lazy 3 (Some 5) = Ok (outs, tbl', f2') /\
        read_channel_data_alloc_gen (Some dt) false (om_len (get_ometa rc_path_a (rs_om rawflag_st))) 3 (Some 5) = Ok (Some n) /\
        receive bytes zero rk n outs = Ok (zfirstn 5 (zskipn 3 (chan_values rc_path_a (concat rawflag_chunks))))).
Proof.
  intros zero rk (outs & tbl' & f2' & dt & n & Hg & Ha & Hr).
  assert (Ho : outs = [[]; firstn 8 rawflag_vals0]).
  { pose proof (proj1 rawflag_translated_yields) as Hy. rewrite Hg in Hy. cbn [mapr fst] in Hy. injection Hy as ->. reflexivity. }
  subst outs. vm_compute in Ha. injection Ha as <-.
  destruct rk; vm_compute in Hr; discriminate.
Qed.

(* hence the kTocRawData clause cannot be dropped from the loop_calls hypothesis of that theorem *)
Theorem window_needs_rawflag_clause :
  ~ (forall segs st st' chunkss path tbl om offs len (zero : bytes) rk f2,
      wf_file segs -> sm_run segs false = Ok st -> segs_encode (rs_segments st) segs chunkss ->
      Forall (fun g => NoDup (map so_path (sg_objs g))) (rs_segments st) ->
      rd_metadata (ser_file segs) false (Some (blen (ser_file segs))) true = Ok st' ->
      (forall k s ch, nth_error (rs_segments st') k = Some s -> nth_error chunkss k = Some ch ->
                      Forall (strings_valid (data_objs (sg_objs s))) ch) ->
      pf_data f2 = ser_file segs ->
      loop_calls range_ok (rs_segments st') tbl om path offs len ->
      zsum (seg_nums unit (seg_views (rs_segments st') path)) < 2 ^ 63 ->
      tbl_ok (rs_segments st') path tbl ->
      alookup path om = Some (om_len (get_ometa path (rs_om st))) ->
      0 <= offs -> (match len with None => True | Some l => 0 <= l end) ->
      exists outs tbl' f2' dt n,
        read_raw_data_for_channel_gen posfile bytes bytes_verify (bytes_chunks path) (Some (rs_segments st')) tbl om f2 path offs len
        = Ok (outs, tbl', f2') /\ pf_data f2' = ser_file segs /\ tbl_ok (rs_segments st') path tbl' /\
        read_channel_data_alloc_gen (Some dt) false (om_len (get_ometa path (rs_om st))) offs len = Ok (Some n) /\
        receive bytes zero rk n outs = Ok (match len with
                                           | None => zskipn offs (chan_values path (concat chunkss))
                                           | Some l => zfirstn l (zskipn offs (chan_values path (concat chunkss)))
                                           end)).
Proof.
  intros H.
  destruct rawflag_domain as ((H1 & H2 & _ & H4 & _ & H6 & _) & Hm & Hs & Hc & Hz & Ht & Ha & _).
  destruct (H rawflag_segs rawflag_st rawflag_st' rawflag_chunks rc_path_a [] rawflag_om 3 (Some 5) (hex "00000000") LazyRead.RNumpy
              (mkPf (ser_file rawflag_segs) 0) H1 H2 H4 H6 Hm Hs eq_refl (Hc 3 (Some 5) (or_introl eq_refl)) Hz Ht Ha
              ltac:(lia) ltac:(cbv beta iota; lia))
    as (outs & tbl' & f2' & dt & n & Hg & _ & _ & Hal & Hr).
  apply (rawflag_refuted (hex "00000000") LazyRead.RNumpy). exists outs, tbl', f2', dt, n. repeat split; assumption.
Qed.

(* ==== Part 2: the range part of gap (a) of Props/C04_gen6.v, from the window arithmetic ========================================== *)
From NpTdms Require Import Gen.PySlice_gen Proofs.GenReaderLazy Proofs.LazyReadLemmas Proofs.LazyIndexProofs Proofs.LazyReadProofs Proofs.LazyWindowProofs.

Section WinCtx.
  Variable V : Type.
  Notation pre := (LazyReadProofs.pre V).

  (* what the two binary searches of read_raw_data_for_channel establish (extracted from Proofs/LazyWindowProofs.v lz_gen_spec):
     either no segment is visited, or the window context of lz_loop_spec holds *)
  Lemma window_ctx : forall (segs : list (segv V)) offset length f offs,
    wf V segs = true -> 0 <= offset -> (match length with None => True | Some l => 0 <= l end) ->
    build_index V segs = (f, offs) ->
    let n := total_values V segs in
    let Lpy := match length with None => n - offset | Some l => Z.min l (n - offset) end in
    let s := f + searchsorted_right offs offset in
    let e := f + searchsorted_left offs (offset + Lpy) in
    py_slice segs s (e + 1) = [] \/ (0 <= s /\ win_ctx V segs f offs s e offset Lpy (offset + Lpy)).
  Proof.
    intros segs offset length f offs Hwf Hoff Hlen Hbi n Lpy.
    pose proof (build_index_ok V segs f offs Hwf Hbi) as Hix.
    set (end_index := offset + Lpy).
    set (m := zlen offs).
    pose proof (ix_f0 V _ _ _ Hix) as Hf0. pose proof (ix_fm V _ _ _ Hix) as Hfm. fold m in Hfm.
    pose proof (ix_sorted V _ _ _ Hix) as Hsorted.
    pose proof (ss_right_bounds offs offset) as Hb1. fold m in Hb1.
    pose proof (ss_left_bounds offs end_index) as Hb2. fold m in Hb2.
    pose proof (zlen_nonneg segs) as Hsegs0.
    assert (Hnth : forall k, 0 <= k -> k < m -> nth_error offs (Z.to_nat k) = Some (pre segs (f + k + 1))).
    { intros k Hk1 Hk2. apply (ix_nth V _ _ _ Hix); fold m; lia. }
    assert (Hlast : 0 < m -> pre segs (f + m) = n) by (intros _; apply (ix_pre_last V _ _ _ Hix)).
    set (ssr := searchsorted_right offs offset) in *.
    set (ssl := searchsorted_left offs end_index) in *.
    assert (Hr : forall k, 0 <= k -> k < m -> (pre segs (f + k + 1) <= offset <-> k < ssr)).
    { intros k Hk1 Hk2. apply (ss_right_spec offs offset k _ Hsorted Hk1 (Hnth k Hk1 Hk2)). }
    assert (Hl : forall k, 0 <= k -> k < m -> (pre segs (f + k + 1) < end_index <-> k < ssl)).
    { intros k Hk1 Hk2. apply (ss_left_spec offs end_index k _ Hsorted Hk1 (Hnth k Hk1 Hk2)). }
    cbv zeta.
    destruct (Z_le_gt_dec n offset) as [Hbeyond|Hinside].
    - left.
      rewrite (py_slice_nonneg segs (f + ssr) (f + ssl + 1)) by lia.
      destruct (Z.eq_dec m 0) as [Hm0|Hm0].
      + assert (f = zlen segs) by (apply (ix_none V _ _ _ Hix); fold m; lia).
        apply sl_beyond. lia.
      + apply sl_nil_ge.
        assert (ssr = m).
        { assert (m - 1 < ssr); [|lia]. apply Hr; try lia.
          replace (f + (m - 1) + 1) with (f + m) by lia. rewrite Hlast by lia. lia. }
        assert (ssl <= m - 1).
        { destruct (Z_le_gt_dec ssl (m - 1)); [assumption|]. exfalso.
          assert (pre segs (f + (m - 1) + 1) < end_index) by (apply Hl; lia).
          replace (f + (m - 1) + 1) with (f + m) in H0 by lia. rewrite Hlast in H0 by lia.
          unfold end_index, Lpy in H0. destruct length; lia. }
        lia.
    - assert (Hm : 0 < m).
      { destruct (Z.eq_dec m 0) as [Hm0|]; [|lia]. exfalso.
        pose proof (ix_pre_f V _ _ _ Hix) as H0. pose proof (ix_pre_last V _ _ _ Hix) as H1.
        fold m in H1. rewrite Hm0, Z.add_0_r in H1. fold n in H1. lia. }
      assert (HLpy : 0 <= Lpy) by (unfold Lpy; destruct length; lia).
      assert (Hendn : end_index <= n) by (unfold end_index, Lpy; destruct length; lia).
      assert (Hssr : ssr < m).
      { destruct (Z_le_gt_dec m ssr); [|lia]. exfalso.
        assert (pre segs (f + (m - 1) + 1) <= offset) by (apply Hr; lia).
        replace (f + (m - 1) + 1) with (f + m) in H by lia. rewrite Hlast in H by lia. lia. }
      assert (Hssl : ssl <= m - 1).
      { destruct (Z_le_gt_dec ssl (m - 1)); [assumption|]. exfalso.
        assert (pre segs (f + (m - 1) + 1) < end_index) by (apply Hl; lia).
        replace (f + (m - 1) + 1) with (f + m) in H by lia. rewrite Hlast in H by lia. lia. }
      set (s := f + ssr). set (e := f + ssl).
      assert (Hs1 : pre segs s <= offset).
      { destruct (Z.eq_dec ssr 0) as [Hz|Hz].
        - unfold s. rewrite Hz, Z.add_0_r. rewrite (ix_pre_f V _ _ _ Hix). lia.
        - replace s with (f + (ssr - 1) + 1) by (unfold s; lia). apply Hr; lia. }
      assert (Hs2 : offset < pre segs (s + 1)).
      { destruct (Z_lt_le_dec offset (pre segs (s + 1))); [assumption|]. exfalso.
        assert (ssr < ssr); [|lia]. apply Hr; try lia. exact l. }
      assert (He1 : end_index <= pre segs (e + 1)).
      { destruct (Z_le_gt_dec end_index (pre segs (e + 1))); [assumption|]. exfalso.
        assert (ssl < ssl); [|lia]. apply Hl; try lia. unfold e in g. lia. }
      assert (He2 : forall i, f <= i -> i < e -> pre segs (i + 1) < end_index).
      { intros i Hi1 Hi2. replace (i + 1) with (f + (i - f) + 1) by lia. apply Hl; unfold e in *; lia. }
      destruct (Z_le_gt_dec s e) as [Hse|Hes].
      + right. split; [unfold s; lia|].
        constructor; try assumption; try reflexivity; unfold s, e in *; fold m; lia.
      + left. rewrite (py_slice_nonneg segs s (e + 1)) by (unfold s, e; lia). apply sl_nil_ge. lia.
  Qed.
End WinCtx.

Section SegRange.
  Variable V : Type.
  Notation pre := (LazyReadProofs.pre V).
  Notation nv := (number_of_segment_values V).

  (* the chunk range computed for a visited segment is inside the segment *)
  Lemma seg_range_in_ctx (segs : list (segv V)) f offs s e offset L end_index :
    wf V segs = true -> 0 <= s -> win_ctx V segs f offs s e offset L end_index ->
    forall i sv co nc r, s <= i -> i <= e -> nth_error segs (Z.to_nat i) = Some sv -> sv_chunk sv <> 0 ->
      seg_chunk_range V true f offs s e offset end_index i sv = Ok (co, nc, r) ->
      0 <= co /\ 0 <= nc /\ co + nc <= sv_nchunks sv.
  Proof.
    intros Hwf Hs0 Hctx i sv co nc r Hsi Hie Hnth Hcs Hr.
    destruct Hctx as [Hix HL Hend Hfs Hse Hem Hs1 Hs2 He1 He2].
    pose proof (ix_f0 V _ _ _ Hix) as Hf0.
    assert (HE : pre segs (i + 1) = pre segs i + nv sv) by (apply (pre_succ_nth V segs i sv); [lia|exact Hnth]).
    assert (Hwfsv : wf_seg V sv = true) by (eapply wf_In; [exact Hwf|eapply nth_error_In; exact Hnth]).
    assert (Hgt : s < i -> offset < pre segs i).
    { intros Hlt. pose proof (pre_mono V segs (s + 1) i Hwf ltac:(lia) ltac:(lia)). lia. }
    assert (HSend : s < i -> pre segs i < end_index).
    { intros Hlt. replace i with ((i - 1) + 1) by lia. apply He2; lia. }
    pose proof (lookup_start V segs f offs i Hix ltac:(lia) ltac:(lia)) as Hlk1.
    assert (Hlk2 : (i =? e) = true -> py_index offs (i - f) = Ok (pre segs (i + 1))).
    { intros _. apply (lookup_end V); [exact Hix | lia | lia]. }
    rewrite (seg_chunk_range_pure V f offs s e offset end_index i sv _ _ Hlk1 Hlk2) in Hr. injection Hr as Hrp.
    destruct (seg_step_spec V sv (pre segs i) (pre segs (i + 1)) offset L end_index (i =? s) (i =? e)
                            co nc r (if i =? s then 0 else pre segs i - offset) Hwfsv Hcs HE HL Hend) as
        (objs & outs1 & vr' & _ & _ & _ & _ & Hrange & _); try exact Hrp; try reflexivity.
    { intros Hst. assert (Hiseq : i = s) by lia. rewrite Hiseq. lia. }
    { intros Hst. assert (s < i) by lia. split; [apply Hgt; lia|]. pose proof (HSend H). lia. }
    { intros Hen. assert (i = e) by lia. rewrite H. exact He1. }
    { intros Hen. apply He2; lia. }
    exact Hrange.
  Qed.
End SegRange.

(* ---- every chunk range the translated read_chunk_range_gen hands on is inside its segment -------------------------------------- *)

Lemma nth_error_py_slice {A} (l : list A) a b i x :
  0 <= a -> 0 <= b -> nth_error (py_slice l a b) i = Some x ->
  nth_error l (Z.to_nat (a + Z.of_nat i)) = Some x /\ a + Z.of_nat i < b.
Proof.
  intros Ha Hb H. rewrite py_slice_nonneg in H by lia.
  assert (Hlt : Z.of_nat i < zlen (sl a b l)).
  { unfold zlen. apply Nat2Z.inj_lt. apply nth_error_Some. congruence. }
  rewrite zlen_sl in Hlt by lia.
  assert (Hab : a + Z.of_nat i < b) by lia.
  split; [|exact Hab]. rewrite <- (nth_error_sl a b l (Z.of_nat i)) by lia. rewrite Nat2Z.id. exact H.
Qed.

Theorem loop_calls_range_ok (V : Type) path (data_of : segment -> seg_data V) segs tbl om offs len :
  forallb (seg_ok path) segs = true ->
  zsum (seg_nums unit (seg_views segs path)) < 2 ^ 63 ->
  tbl_ok segs path tbl ->
  alookup path om = Some (total_values V (views V path data_of segs)) ->
  wf V (views V path data_of segs) = true ->
  0 <= offs -> (match len with None => True | Some l => 0 <= l end) ->
  loop_calls range_ok segs tbl om path offs len.
Proof.
  intros Hok Hfit Htbl Hom Hwf Ho Hl. unfold loop_calls. intros first so m Hlook Hm i s c n skip Hi Hr.
  assert (Hbi : build_index V (views V path data_of segs) = (first, so)).
  { rewrite (build_index_views V path data_of segs).
    destruct Hlook as [Hlk|(Hnone & tbl2 & Hb & Hlk)].
    - unfold tbl_ok in Htbl. rewrite Hlk in Htbl. symmetry. exact Htbl.
    - rewrite (build_index_eq segs tbl path Hok Hfit) in Hb. injection Hb as <-.
      rewrite SegStateProofs.alookup_aset, SegStateProofs.bytes_eqb_refl in Hlk. injection Hlk as Hlk. exact Hlk. }
  rewrite Hom in Hm. injection Hm as <-.
  change (np_searchsorted true) with searchsorted_right in *. change (np_searchsorted false) with searchsorted_left in *.
  set (svs := views V path data_of segs) in *.
  set (L := match len with None => total_values V svs - offs | Some l => Z.min l (total_values V svs - offs) end) in *.
  set (A := first + searchsorted_right so offs) in *.
  set (B := first + searchsorted_left so (offs + L)) in *.
  pose proof (ix_f0 V _ _ _ (build_index_ok V svs first so Hwf Hbi)) as Hf0.
  pose proof (ss_right_bounds so offs) as Hb1. pose proof (ss_left_bounds so (offs + L)) as Hb2.
  destruct (window_ctx V svs offs len first so Hwf Ho Hl Hbi) as [Hempty|(HA0 & Hctx)]; fold svs L A B in Hempty || fold svs L A B in Hctx.
  - unfold svs, views in Hempty. rewrite py_slice_map in Hempty. apply map_eq_nil in Hempty. rewrite Hempty in Hi.
    destruct i; discriminate.
  - fold A in HA0.
    destruct (nth_error_py_slice segs A (B + 1) i s HA0 ltac:(unfold B; lia) Hi) as (Hnth & Hlt).
    rewrite read_chunk_range_eq in Hr.
    destruct (sv_chunk (seg_view s path) =? 0) eqn:E0; [discriminate|].
    destruct (seg_chunk_range unit true first so A B offs (offs + L) (A + Z.of_nat i) (seg_view s path)) as [[[c0 n0] sk0]|] eqn:Er;
      cbn [bind] in Hr; [|discriminate].
    injection Hr as <- <- <-.
    destruct (seg_range_in_ctx V svs first so A B offs L (offs + L) Hwf HA0 Hctx (A + Z.of_nat i) (view V path data_of s) c0 n0 sk0
                ltac:(lia) ltac:(lia)) as (H1 & H2 & H3).
    + unfold svs, views. rewrite nth_error_map, Hnth. reflexivity.
    + change (sv_chunk (view V path data_of s)) with (sv_chunk (seg_view s path)). lia.
    + exact Er.
    + unfold range_ok. change (sv_nchunks (view V path data_of s)) with (sg_nchunks s) in H3. lia.
Qed.

(* ---- the file-level theorem with only the kTocRawData clause left of gap (a) ------------------------------------------------------ *)

(* every segment in which the channel has a data object (a chunk of so_nvals <> 0 values: the segments for which the loop
   calls segment.read_raw_data_for_channel) has kTocRawData set in its lead-in *)
Definition raw_flag_set (path : bytes) (segs : list segment) : Prop :=
  Forall (fun s => sv_chunk (seg_view s path) <> 0 -> toc_has (sg_toc s) TOC_RAW = true) segs.

Lemma loop_calls_raw (P : segment -> Z -> Z -> Prop) segs tbl om path offs len :
  raw_flag_set path segs -> loop_calls P segs tbl om path offs len ->
  loop_calls (fun s c n => toc_has (sg_toc s) TOC_RAW = true /\ P s c n) segs tbl om path offs len.
Proof.
  intros Hraw HP. unfold loop_calls in *. intros first so m Hlook Hm i s c n skip Hi Hr.
  split; [|exact (HP first so m Hlook Hm i s c n skip Hi Hr)].
  unfold raw_flag_set in Hraw. rewrite Forall_forall in Hraw.
  apply (Hraw s (In_py_slice _ _ _ _ (nth_error_In _ _ Hi))).
  rewrite read_chunk_range_eq in Hr. destruct (sv_chunk (seg_view s path) =? 0) eqn:E; [discriminate|]. lia.
Qed.

Theorem translated_lazy_read_window_rawflag segs st st' chunkss path tbl om offs len (zero : bytes) rk f2 :
  wf_file segs -> sm_run segs false = Ok st -> segs_encode (rs_segments st) segs chunkss ->
  Forall (fun g => NoDup (map so_path (sg_objs g))) (rs_segments st) ->
  rd_metadata (ser_file segs) false (Some (blen (ser_file segs))) true = Ok st' ->
  (forall k s ch, nth_error (rs_segments st') k = Some s -> nth_error chunkss k = Some ch ->
                  Forall (strings_valid (data_objs (sg_objs s))) ch) ->
  pf_data f2 = ser_file segs ->
  raw_flag_set path (rs_segments st') ->
  zsum (seg_nums unit (seg_views (rs_segments st') path)) < 2 ^ 63 ->
  tbl_ok (rs_segments st') path tbl ->
  alookup path om = Some (om_len (get_ometa path (rs_om st))) ->
  0 <= offs -> (match len with None => True | Some l => 0 <= l end) ->
  exists outs tbl' f2' dt n,
    read_raw_data_for_channel_gen posfile bytes bytes_verify (bytes_chunks path) (Some (rs_segments st')) tbl om f2 path offs len
    = Ok (outs, tbl', f2') /\ pf_data f2' = ser_file segs /\ tbl_ok (rs_segments st') path tbl' /\
    read_channel_data_alloc_gen (Some dt) false (om_len (get_ometa path (rs_om st))) offs len = Ok (Some n) /\
    receive bytes zero rk n outs = Ok (match len with
                                       | None => zskipn offs (chan_values path (concat chunkss))
                                       | Some l => zfirstn l (zskipn offs (chan_values path (concat chunkss)))
                                       end).
Proof.
  intros Hwf Hrun Henc Hnd Hmeta Hstr Hf2 Hraw Hfit Htbl Hom Ho Hl.
  apply (translated_lazy_read_window segs st st' chunkss path tbl om offs len zero rk f2 Hwf Hrun Henc Hnd Hmeta Hstr Hf2);
    try assumption.
  pose proof (reader_seg_ok segs st st' chunkss path Hwf Hrun Henc Hnd Hmeta) as Hok.
  destruct (channel_view_ser segs st chunkss path Hwf Hrun Henc Hnd) as (svs & Hcv & Hwfv & Hfull & Htot).
  unfold channel_view in Hcv. rewrite Hmeta in Hcv. cbn [bind] in Hcv.
  destruct (mapM (segv_of (ser_file segs) path) (rs_segments st')) as [svs'|] eqn:Em; cbn [bind] in Hcv; [|discriminate].
  injection Hcv as ->.
  pose proof (mapM_views _ _ _ _ Em) as Hviews.
  apply (loop_calls_raw range_ok); [exact Hraw|].
  apply (loop_calls_range_ok bytes path (data_of_bytes (ser_file segs) path)); try assumption.
  - rewrite Hviews, Htot. exact Hom.
  - rewrite Hviews. exact Hwfv.
Qed.

(* the raw_flag_set hypothesis holds of the three-segment example of Props/C04_gen6.v and FAILS on the witness *)
Lemma raw_flag_set_examples :
  raw_flag_set rc_path_a (rs_segments ex_f_st) /\ ~ raw_flag_set rc_path_a (rs_segments rawflag_st').
Proof.
  split.
  - unfold raw_flag_set. apply Forall_forall. intros s Hin _. vm_compute in Hin.
    destruct Hin as [<-|[<-|[<-|[]]]]; vm_compute; reflexivity.
  - intros H. unfold raw_flag_set in H. rewrite Forall_forall in H.
    assert (Hin : In (nth 0 (rs_segments rawflag_st') seg0) (rs_segments rawflag_st')) by (vm_compute; left; reflexivity).
    specialize (H _ Hin ltac:(vm_compute; discriminate)). vm_compute in H. discriminate H.
Qed.
