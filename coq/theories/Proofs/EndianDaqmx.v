(* C15, composed, for files WITH DAQmx segments: the byte order of a segment does
   not change what is read from the file.

   A DAQmx raw data block is not a sequence of encoded values: it is rows of raw
   bytes, and the scalers of the channels ADDRESS fields inside the rows
   (Proofs/ReadCorrectDaqmx.v, direct_chunks).  Its re-encoding into the other
   byte order is therefore defined on the BYTES:

     [flip_dq g data]   the same block with every scaler field reversed in place.
        A FIELD is the byte range one scaler reads in one row:
           start = chunk j * chunk_bytes + buffer_base(raw_buffer_index)
                   + row i * width + field offset,       size = size of the
           scaler's type; field offset = raw_byte_offset (format changing scaler)
           or raw_bit_offset / 8 (digital line scaler: daqmx.py reads a value OF
           THE SCALER'S TYPE at that byte in the segment's byte order and then
           takes bit raw_bit_offset % 8 OF THE VALUE; so the byte that holds the
           line moves inside the field when the field is reversed, the scaler
           record -- raw_bit_offset included -- stays as it is).
        Bytes covered by no field (padding, unused columns) stay as they are
        ([flip_fields_outside]); the block keeps its length.
        [block_fields] lists the fields; [flip_fields] patches, for every field,
        the reversal of the ORIGINAL bytes of the field into the block.

   WHEN IT IS DEFINABLE.  If two scalers read overlapping but different byte
   ranges of a row (an int16 at bytes 0-1 and an int32 at bytes 0-3, as in
   ReadCorrectDaqmx.dx_file), NO block of the other byte order holds the same
   values for generic data: the two fields prescribe different bytes at the
   same position ([overlap_not_reencodable], [dx_not_reencodable]).  The
   condition is [slots_compatible]: any two scaler fields of the same raw buffer
   are IDENTICAL (same offset and size: several scalers reading the same
   bytes) or DISJOINT.  Under it
     [flip_dq_field]    every field of the flipped block is the reversal of the
                        field of the original,
     [flip_dq_values]   direct_chunks of the flipped block under the other byte
                        order = direct_chunks of the original block (the VALUES:
                        tokens are canonical little-endian),
     [flip_dq_involutive] flipping twice gives the block back.

   [reorder_dq es segs chunkss]: segment i gets byte order es[i]: ToC bit set
   accordingly, metadata entries unchanged (ser_seg serialises them in the new
   order), raw data: EndianRead.reenc from the chunk values for an ordinary
   segment, [flip_dq] (or nothing, when es[i] is the order it has) for a DAQmx
   segment.

   [endian_transparent_daqmx]: under read_correct_daqmx's hypotheses, es as long
   as segs, and slots_compatible for the DAQmx segments whose byte order changes:
       rd_all (ser_file (reorder_dq es segs chunkss)) = rd_all (ser_file segs). *)
From Coq Require Import List ZArith Bool Lia ZifyBool.
From Coq Require Import Init.Byte.
Import ListNotations.
From NpTdms Require Import Base.Bytes Base.Res Model.Tokens Model.TokensWf Model.SegState
     Model.Layout Model.Reader Model.FileSyn Proofs.TokensRoundtrip Proofs.SegStateProofs
     Proofs.LayoutProofs Proofs.FileSynProofs Proofs.SegStateInherit Proofs.DaqmxProofs
     Proofs.ReadCorrect Proofs.ReadCorrectDaqmx Proofs.EndianRead.
Local Open Scope Z_scope.
Ltac Zify.zify_post_hook ::= Z.to_euclidean_division_equations.

(* ======================================================================== *)
(* D1: patching bytes in place                                              *)
(* ======================================================================== *)

(* [d] with the bytes [v] written at position [pos] *)
Definition patch (pos : Z) (v : bytes) (d : bytes) : bytes :=
  take pos d ++ v ++ drop (pos + blen v) d.

Lemma blen_read_at pos n (d : bytes) :
  0 <= pos -> 0 <= n -> pos + n <= blen d -> blen (read_at pos n d) = n.
Proof.
  intros Hp Hn Hfit. unfold read_at. rewrite blen_take by exact Hn.
  rewrite blen_drop by exact Hp. lia.
Qed.

Lemma patch_blen pos v d :
  0 <= pos -> pos + blen v <= blen d -> blen (patch pos v d) = blen d.
Proof.
  intros Hp Hfit. pose proof (blen_nonneg v) as Hv. unfold patch.
  rewrite !blen_app, blen_take, blen_drop by lia. lia.
Qed.

Lemma patch_read_same pos v d :
  0 <= pos -> pos + blen v <= blen d -> read_at pos (blen v) (patch pos v d) = v.
Proof.
  intros Hp Hfit. pose proof (blen_nonneg v) as Hv. unfold patch.
  replace pos with (blen (take pos d)) at 1 by (rewrite blen_take by lia; lia).
  apply read_at_app.
Qed.

Lemma read_at_take pos n a (d : bytes) :
  0 <= pos -> 0 <= n -> pos + n <= a -> read_at pos n (take a d) = read_at pos n d.
Proof.
  intros Hp Hn Hfit. unfold read_at. rewrite drop_take by exact Hp.
  rewrite take_take. f_equal. lia.
Qed.

Lemma drop_app_ge b (x y : bytes) :
  blen x <= b -> drop b (x ++ y) = drop (b - blen x) y.
Proof.
  intros Hb. pose proof (blen_nonneg x) as Hx. rewrite !drop_skipn. unfold blen in *.
  rewrite skipn_app. rewrite skipn_all2 by lia. cbn [app]. f_equal. lia.
Qed.

(* a window that does not meet the patched range is unchanged *)
Lemma patch_read_other pos v d b n :
  0 <= pos -> pos + blen v <= blen d -> 0 <= b -> 0 <= n ->
  b + n <= pos \/ pos + blen v <= b ->
  read_at b n (patch pos v d) = read_at b n d.
Proof.
  intros Hp Hfit Hb Hn Hdis. pose proof (blen_nonneg v) as Hv. unfold patch.
  destruct Hdis as [Hl|Hr].
  - rewrite read_at_app_fit; [|exact Hb|exact Hn|rewrite blen_take by lia; lia].
    apply read_at_take; assumption.
  - rewrite app_assoc. unfold read_at. rewrite drop_app_ge.
    + rewrite blen_app, blen_take by lia. rewrite drop_drop by lia.
      do 2 f_equal. lia.
    + rewrite blen_app, blen_take by lia. lia.
Qed.

(* ======================================================================== *)
(* D2: reversing a list of fields in place                                  *)
(* ======================================================================== *)

(* a field: (start, size).  Every field of [fs] gets the reversal of the bytes
   the field has in the ORIGINAL block [data]. *)
Definition flip_fields (fs : list (Z * Z)) (data : bytes) : bytes :=
  fold_right (fun f d => patch (fst f) (rev (read_at (fst f) (snd f) data)) d) data fs.

Definition field_in (data : bytes) (f : Z * Z) : Prop :=
  0 <= fst f /\ 0 <= snd f /\ fst f + snd f <= blen data.

(* two fields are the same byte range or do not meet *)
Definition fields_apart (f1 f2 : Z * Z) : Prop :=
  f1 = f2 \/ fst f1 + snd f1 <= fst f2 \/ fst f2 + snd f2 <= fst f1.

Lemma blen_rev (l : bytes) : blen (rev l) = blen l.
Proof. unfold blen. rewrite rev_length. reflexivity. Qed.

Lemma flip_fields_blen fs data :
  Forall (field_in data) fs -> blen (flip_fields fs data) = blen data.
Proof.
  induction 1 as [|f fs (Ha & Hn & Hfit) _ IH]; [reflexivity|].
  cbn [flip_fields fold_right]. fold (flip_fields fs data).
  rewrite patch_blen; [exact IH|exact Ha|].
  rewrite blen_rev, blen_read_at by assumption. lia.
Qed.

Theorem flip_fields_field fs data :
  Forall (field_in data) fs ->
  (forall f1 f2, In f1 fs -> In f2 fs -> fields_apart f1 f2) ->
  forall f, In f fs ->
            read_at (fst f) (snd f) (flip_fields fs data) = rev (read_at (fst f) (snd f) data).
Proof.
  induction 1 as [|f0 fs Hf0 Hfs IH]; intros Hap f Hf; [contradiction|].
  cbn [flip_fields fold_right]. fold (flip_fields fs data).
  pose proof (flip_fields_blen fs data Hfs) as Hlen.
  destruct Hf0 as (Ha & Hn & Hfit).
  assert (Hv : blen (rev (read_at (fst f0) (snd f0) data)) = snd f0)
    by (rewrite blen_rev; apply blen_read_at; assumption).
  assert (Hsame : read_at (fst f0) (snd f0)
                          (patch (fst f0) (rev (read_at (fst f0) (snd f0) data)) (flip_fields fs data))
                  = rev (read_at (fst f0) (snd f0) data)).
  { pose proof (patch_read_same (fst f0) (rev (read_at (fst f0) (snd f0) data)) (flip_fields fs data) Ha)
      as H. rewrite Hv in H. apply H. rewrite Hlen. exact Hfit. }
  assert (Hcases : f = f0 \/ (In f fs /\ f <> f0)).
  { destruct Hf as [<-|Hin]; [left; reflexivity|].
    destruct f as [a n], f0 as [a0 n0].
    destruct (Z.eq_dec a a0) as [->|Hne]; [destruct (Z.eq_dec n n0) as [->|Hne]|];
      [left; reflexivity|right; split; [exact Hin|congruence] ..]. }
  destruct Hcases as [->|[Hin Hne]]; [exact Hsame|].
  destruct (Hap f f0 (or_intror Hin) (or_introl eq_refl)) as [Heq|Hdis]; [contradiction|].
  rewrite Forall_forall in Hfs. destruct (Hfs f Hin) as (Hfa & Hfn & _).
  rewrite patch_read_other; try assumption.
  - apply IH; [|exact Hin]. intros f1 f2 H1 H2. apply Hap; right; assumption.
  - rewrite Hv, Hlen. exact Hfit.
  - rewrite Hv. lia.
Qed.

(* a byte no field covers is unchanged (no condition on overlaps) *)
Theorem flip_fields_outside fs data p :
  Forall (field_in data) fs -> 0 <= p ->
  (forall f, In f fs -> p < fst f \/ fst f + snd f <= p) ->
  read_at p 1 (flip_fields fs data) = read_at p 1 data.
Proof.
  intros Hfs Hp. induction Hfs as [|f0 fs Hf0 Hfs IH]; intros Hout; [reflexivity|].
  cbn [flip_fields fold_right]. fold (flip_fields fs data).
  pose proof (flip_fields_blen fs data Hfs) as Hlen.
  destruct Hf0 as (Ha & Hn & Hfit).
  assert (Hv : blen (rev (read_at (fst f0) (snd f0) data)) = snd f0)
    by (rewrite blen_rev; apply blen_read_at; assumption).
  pose proof (Hout f0 (or_introl eq_refl)) as Hout0.
  rewrite patch_read_other.
  - apply IH. intros f Hf. apply Hout. right. exact Hf.
  - exact Ha.
  - rewrite Hv, Hlen. exact Hfit.
  - exact Hp.
  - lia.
  - rewrite Hv. lia.
Qed.

(* ======================================================================== *)
(* D3: the scaler fields of a DAQmx raw data block                          *)
(* ======================================================================== *)

(* byte offset of the scaler's field inside a row (DigitalLineScaler.byte_offset
   = raw_bit_offset // 8, DaqMxScaler.byte_offset = raw_byte_offset) *)
Definition sc_foff (kind : Z) (s : scaler) : Z :=
  if kind =? DIGITAL_LINE_SCALER then sc_off s / 8 else sc_off s.

(* the slot of a scaler: (raw buffer, field offset in the row, field size) *)
Definition scaler_slot (kind : Z) (s : scaler) : Z * Z * Z :=
  (sc_buf s, sc_foff kind s, scaler_size s).

Definition obj_slots (o : sobj) : list (Z * Z * Z) :=
  match so_daqmx o with
  | Some q => map (scaler_slot (dq_kind q)) (dq_scalers q)
  | None => []
  end.

Definition slots (dobjs : list sobj) : list (Z * Z * Z) := flat_map obj_slots dobjs.

(* THE CONDITION: two scaler fields of the same raw buffer are the same byte
   range of the row or do not meet *)
Definition slots_compatible (sl : list (Z * Z * Z)) : Prop :=
  forall b f1 n1 f2 n2,
    In (b, f1, n1) sl -> In (b, f2, n2) sl ->
    (f1 = f2 /\ n1 = n2) \/ f1 + n1 <= f2 \/ f2 + n2 <= f1.

(* start of the field at offset [f] of row [i] of buffer [k] (rows [w] bytes
   apart) of chunk [j] *)
Definition field_addr (dims : list (Z * Z)) (j k : nat) (w : Z) (i : nat) (f : Z) : Z :=
  Z.of_nat j * chunk_bytes dims + buffer_base dims k + Z.of_nat i * w + f.

(* the fields of one slot in chunk [j]: one per row of its buffer *)
Definition slot_fields (dims : list (Z * Z)) (j : nat) (sl : Z * Z * Z) : list (Z * Z) :=
  match sl with
  | (b, f, sz) =>
    match nth_error dims (Z.to_nat b) with
    | Some (n, w) => map (fun i => (field_addr dims j (Z.to_nat b) w i f, sz)) (seq 0 (Z.to_nat n))
    | None => []
    end
  end.

(* all fields of the block: every complete chunk, every slot, every row *)
Definition block_fields (dobjs : list sobj) (data : bytes) : list (Z * Z) :=
  let dims := dims_spec dobjs in
  flat_map (fun j => flat_map (slot_fields dims j) (slots dobjs)) (seq 0 (direct_nchunks dims data)).

(* THE RE-ENCODING of the raw data block of DAQmx segment [g] into the other byte
   order: every scaler field reversed in place *)
Definition flip_dq (g : segment) (data : bytes) : bytes :=
  flip_fields (block_fields (data_objs (sg_objs g)) data) data.

Lemma slots_in dobjs sl :
  In sl (slots dobjs) <->
  exists o q s, In o dobjs /\ so_daqmx o = Some q /\ In s (dq_scalers q) /\
                sl = scaler_slot (dq_kind q) s.
Proof.
  unfold slots, obj_slots. rewrite in_flat_map. split.
  - intros (o & Ho & Hin). destruct (so_daqmx o) as [q|] eqn:Eq; [|contradiction].
    apply in_map_iff in Hin. destruct Hin as (s & <- & Hs).
    exists o, q, s. repeat split; assumption.
  - intros (o & q & s & Ho & Hq & Hs & ->). exists o. split; [exact Ho|].
    rewrite Hq. apply in_map. exact Hs.
Qed.

Lemma block_fields_in dobjs data a n :
  In (a, n) (block_fields dobjs data) <->
  exists j b f nr w i,
    (j < direct_nchunks (dims_spec dobjs) data)%nat /\
    In (b, f, n) (slots dobjs) /\
    nth_error (dims_spec dobjs) (Z.to_nat b) = Some (nr, w) /\
    (i < Z.to_nat nr)%nat /\
    a = field_addr (dims_spec dobjs) j (Z.to_nat b) w i f.
Proof.
  unfold block_fields. cbv zeta. rewrite in_flat_map. split.
  - intros (j & Hj & Hin). apply in_seq in Hj. apply in_flat_map in Hin.
    destruct Hin as ([[b f] sz] & Hsl & Hin). cbn [slot_fields] in Hin.
    destruct (nth_error (dims_spec dobjs) (Z.to_nat b)) as [[nr w]|] eqn:En; [|contradiction].
    apply in_map_iff in Hin. destruct Hin as (i & Heq & Hi). apply in_seq in Hi.
    injection Heq as <- <-.
    exists j, b, f, nr, w, i. repeat split; try assumption; lia.
  - intros (j & b & f & nr & w & i & Hj & Hsl & En & Hi & ->).
    exists j. split; [apply in_seq; lia|]. apply in_flat_map.
    exists (b, f, n). split; [exact Hsl|]. cbn [slot_fields]. rewrite En.
    apply in_map_iff. exists i. split; [reflexivity|apply in_seq; lia].
Qed.

(* what daqmx_seg_ok says about a slot *)
Lemma slot_ok g data b f n :
  daqmx_seg_ok g data -> In (b, f, n) (slots (data_objs (sg_objs g))) ->
  0 <= b /\ 0 <= f /\ 0 < n /\
  exists nr w, nth_error (dims_spec (data_objs (sg_objs g))) (Z.to_nat b) = Some (nr, w) /\ f + n <= w.
Proof.
  intros Hok Hin. apply slots_in in Hin. destruct Hin as (o & q & s & Ho & Hq & Hs & Heq).
  destruct (daqmx_seg_ok_obj g data o Hok Ho) as (q' & Hq' & _ & _ & _ & Hsc).
  rewrite Hq in Hq'. injection Hq' as <-.
  rewrite Forall_forall in Hsc. destruct (Hsc s Hs) as (dt & sz & w & Hdt & Hsz & Hoff & Hb & Hn & Hfit).
  unfold scaler_slot, scaler_size, sc_foff in Heq. rewrite Hdt, Hsz in Heq. injection Heq as -> -> ->.
  pose proof (tds_size_pos dt sz Hsz) as Hpos.
  split; [exact Hb|]. split; [|split; [exact Hpos|]].
  - destruct (dq_kind q =? DIGITAL_LINE_SCALER); [apply Z.div_pos; lia|exact Hoff].
  - exists (so_nvals o), w. split; [exact Hn|exact Hfit].
Qed.

(* ---- geometry: rows of different (chunk, buffer, row index) do not meet ---- *)

Lemma buffer_base_mono dims :
  Forall (fun d => 0 <= fst d /\ 0 <= snd d) dims ->
  forall k1 k2 n w, (k1 < k2)%nat -> nth_error dims k1 = Some (n, w) ->
                    buffer_base dims k1 + w * n <= buffer_base dims k2.
Proof.
  induction 1 as [|[n0 w0] r [Hn0 Hw0] Hr IH]; intros k1 k2 n w Hlt Hk; [destruct k1; discriminate|].
  cbn [fst snd] in Hn0, Hw0.
  destruct k2 as [|k2]; [lia|]. rewrite buffer_base_S.
  destruct k1 as [|k1].
  - cbn [nth_error] in Hk. injection Hk as -> ->. change (buffer_base ((n, w) :: r) 0) with 0.
    pose proof (buffer_base_nonneg r k2 Hr). lia.
  - cbn [nth_error] in Hk. rewrite buffer_base_S. specialize (IH k1 k2 n w ltac:(lia) Hk). lia.
Qed.

Section Geometry.
  Context (dims : list (Z * Z)).
  Context (Hdims : Forall (fun d => 0 <= fst d /\ 0 <= snd d) dims).

  (* a field inside row i of buffer k of chunk j *)
  Definition in_row (j k : nat) (nr w : Z) (i : nat) (f n : Z) : Prop :=
    nth_error dims k = Some (nr, w) /\ (i < Z.to_nat nr)%nat /\ 0 <= f /\ 0 <= n /\ f + n <= w.

  Lemma in_row_bounds j k nr w i f n :
    in_row j k nr w i f n ->
    Z.of_nat j * chunk_bytes dims + buffer_base dims k <= field_addr dims j k w i f /\
    field_addr dims j k w i f + n <= Z.of_nat j * chunk_bytes dims + buffer_base dims k + w * nr /\
    buffer_base dims k + w * nr <= chunk_bytes dims /\
    0 <= buffer_base dims k /\ 0 <= chunk_bytes dims /\ 0 <= w /\ 0 <= nr.
  Proof.
    intros (Hk & Hi & Hf & Hn & Hfit).
    pose proof (buffer_base_le dims Hdims k nr w Hk) as Hle.
    pose proof (buffer_base_nonneg dims k Hdims) as Hb.
    pose proof (chunk_bytes_nonneg dims Hdims) as Hcb.
    assert (Hw : 0 <= w /\ 0 <= nr).
    { rewrite Forall_forall in Hdims. apply nth_error_In in Hk. specialize (Hdims _ Hk).
      cbn [fst snd] in Hdims. lia. }
    unfold field_addr.
    assert (H1 : 0 <= Z.of_nat i * w) by nia.
    assert (H2 : (Z.of_nat i + 1) * w <= nr * w) by (apply Z.mul_le_mono_nonneg_r; lia).
    repeat split; try lia.
  Qed.

  Lemma rows_apart j1 k1 nr1 w1 i1 f1 n1 j2 k2 nr2 w2 i2 f2 n2 :
    in_row j1 k1 nr1 w1 i1 f1 n1 -> in_row j2 k2 nr2 w2 i2 f2 n2 ->
    (j1 < j2)%nat \/ (j1 = j2 /\ (k1 < k2)%nat) \/ (j1 = j2 /\ k1 = k2 /\ (i1 < i2)%nat) ->
    field_addr dims j1 k1 w1 i1 f1 + n1 <= field_addr dims j2 k2 w2 i2 f2.
  Proof.
    intros H1 H2 Hord.
    destruct (in_row_bounds _ _ _ _ _ _ _ H1) as (L1 & U1 & C1 & B1 & Hcb & Hw1 & Hnr1).
    destruct (in_row_bounds _ _ _ _ _ _ _ H2) as (L2 & U2 & C2 & B2 & _ & Hw2 & Hnr2).
    destruct Hord as [Hj|[[-> Hk]|(-> & -> & Hi)]].
    - assert (Hm : (Z.of_nat j1 + 1) * chunk_bytes dims <= Z.of_nat j2 * chunk_bytes dims)
        by (apply Z.mul_le_mono_nonneg_r; lia).
      lia.
    - destruct H1 as (Hn1 & _).
      pose proof (buffer_base_mono dims Hdims k1 k2 nr1 w1 Hk Hn1). lia.
    - destruct H1 as (Hn1 & Hi1 & Hf1 & Hnn1 & Hfit1). destruct H2 as (Hn2 & Hi2 & Hf2 & Hnn2 & Hfit2).
      rewrite Hn1 in Hn2. injection Hn2 as <- <-. unfold field_addr.
      assert (Hm : (Z.of_nat i1 + 1) * w1 <= Z.of_nat i2 * w1) by (apply Z.mul_le_mono_nonneg_r; lia).
      lia.
  Qed.
End Geometry.

Section DaqmxBlock.
  Context (g : segment) (data : bytes).
  Context (Hok : daqmx_seg_ok g data).
  Let dobjs := data_objs (sg_objs g).
  Let dims := dims_spec dobjs.

  Lemma dq_dims_nonneg : Forall (fun d => 0 <= fst d /\ 0 <= snd d) dims.
  Proof. exact (proj2 (daqmx_seg_ok_dims g data Hok)). Qed.

  (* a member of block_fields, as a field inside a row *)
  Lemma block_field_row a n :
    In (a, n) (block_fields dobjs data) ->
    exists j b f nr w i,
      (j < direct_nchunks dims data)%nat /\ In (b, f, n) (slots dobjs) /\ 0 <= b /\
      in_row dims j (Z.to_nat b) nr w i f n /\ 0 < n /\
      a = field_addr dims j (Z.to_nat b) w i f.
  Proof.
    intros Hin. apply block_fields_in in Hin.
    destruct Hin as (j & b & f & nr & w & i & Hj & Hsl & En & Hi & ->).
    destruct (slot_ok g data b f n Hok Hsl) as (Hb & Hf & Hn & nr' & w' & En' & Hfit).
    fold dobjs dims in En'. fold dims in En. rewrite En in En'. injection En' as <- <-.
    exists j, b, f, nr, w, i. repeat split; try assumption; lia.
  Qed.

  Lemma direct_nchunks_bound j :
    (j < direct_nchunks dims data)%nat -> (Z.of_nat j + 1) * chunk_bytes dims <= blen data.
  Proof.
    intros Hj. destruct Hok as (_ & _ & _ & _ & m & Hm & Hlen & Hz). fold dobjs dims in Hlen, Hz.
    pose proof (chunk_bytes_nonneg dims dq_dims_nonneg) as Hcb.
    unfold direct_nchunks in Hj. destruct (chunk_bytes dims =? 0) eqn:E; [lia|].
    rewrite Hlen in Hj. rewrite Z.div_mul in Hj by lia. rewrite Hlen.
    apply Z.mul_le_mono_nonneg_r; lia.
  Qed.

  Lemma block_fields_in_range : Forall (field_in data) (block_fields dobjs data).
  Proof.
    apply Forall_forall. intros [a n] Hin.
    destruct (block_field_row a n Hin) as (j & b & f & nr & w & i & Hj & _ & _ & Hrow & Hn & ->).
    destruct (in_row_bounds dims dq_dims_nonneg _ _ _ _ _ _ _ Hrow) as (L & U & C & B & Hcb & Hw & Hnr).
    pose proof (direct_nchunks_bound j Hj) as Hjb.
    unfold field_in. cbn [fst snd]. repeat split; nia.
  Qed.

  Lemma block_fields_apart :
    slots_compatible (slots dobjs) ->
    forall f1 f2, In f1 (block_fields dobjs data) -> In f2 (block_fields dobjs data) -> fields_apart f1 f2.
  Proof.
    intros Hcompat [a1 n1] [a2 n2] H1 H2.
    destruct (block_field_row a1 n1 H1) as (j1 & b1 & f1 & nr1 & w1 & i1 & _ & Hs1 & Hb1 & Hr1 & _ & ->).
    destruct (block_field_row a2 n2 H2) as (j2 & b2 & f2 & nr2 & w2 & i2 & _ & Hs2 & Hb2 & Hr2 & _ & ->).
    unfold fields_apart. cbn [fst snd].
    pose proof (rows_apart dims dq_dims_nonneg _ _ _ _ _ _ _ _ _ _ _ _ _ _ Hr1 Hr2) as H12.
    pose proof (rows_apart dims dq_dims_nonneg _ _ _ _ _ _ _ _ _ _ _ _ _ _ Hr2 Hr1) as H21.
    destruct (lt_eq_lt_dec j1 j2) as [[Hj|Hj]|Hj]; [right; left; apply H12; lia| |right; right; apply H21; lia].
    destruct (lt_eq_lt_dec (Z.to_nat b1) (Z.to_nat b2)) as [[Hk|Hk]|Hk];
      [right; left; apply H12; lia| |right; right; apply H21; lia].
    destruct (lt_eq_lt_dec i1 i2) as [[Hi|Hi]|Hi];
      [right; left; apply H12; lia| |right; right; apply H21; lia].
    assert (Hb : b1 = b2) by lia. subst j2 b2 i2.
    destruct Hr1 as (Hn1 & _). destruct Hr2 as (Hn2 & _). rewrite Hn1 in Hn2. injection Hn2 as <- <-.
    destruct (Hcompat b1 f1 n1 f2 n2 Hs1 Hs2) as [[-> ->]|Hdis]; [left; reflexivity|].
    unfold field_addr. right. lia.
  Qed.

  Lemma flip_dq_blen : blen (flip_dq g data) = blen data.
  Proof. unfold flip_dq. apply flip_fields_blen. exact block_fields_in_range. Qed.

  (* every scaler field of the flipped block is the reversed field of the original *)
  Theorem flip_dq_field :
    slots_compatible (slots dobjs) ->
    forall a n, In (a, n) (block_fields dobjs data) ->
                read_at a n (flip_dq g data) = rev (read_at a n data).
  Proof.
    intros Hcompat a n Hin. unfold flip_dq.
    exact (flip_fields_field _ data block_fields_in_range (block_fields_apart Hcompat) (a, n) Hin).
  Qed.

  (* bytes outside all scaler fields are kept *)
  Theorem flip_dq_outside p :
    0 <= p ->
    (forall a n, In (a, n) (block_fields dobjs data) -> p < a \/ a + n <= p) ->
    read_at p 1 (flip_dq g data) = read_at p 1 data.
  Proof.
    intros Hp Hout. unfold flip_dq. apply flip_fields_outside; [exact block_fields_in_range|exact Hp|].
    intros [a n] Hin. exact (Hout a n Hin).
  Qed.
End DaqmxBlock.

(* ======================================================================== *)
(* D4: the flipped block holds the same VALUES under the other byte order   *)
(* ======================================================================== *)

(* every DAQmx scaler type is a plain number (or a timestamp): big-endian storage
   is the reversal of the canonical little-endian bytes *)
Lemma daqmx_canon_be c dt x : daqmx_type c = Some dt -> canon_value BE dt x = rev x.
Proof.
  unfold daqmx_type.
  repeat match goal with
         | |- (if ?b then _ else _) = _ -> _ => destruct b
         end; intros H; try discriminate; injection H as <-; reflexivity.
Qed.

Lemma daqmx_canon_flip c dt e e' x :
  daqmx_type c = Some dt -> e' <> e -> canon_value e' dt (rev x) = canon_value e dt x.
Proof.
  intros Hdt Hne. destruct e, e'; try contradiction.
  - rewrite (daqmx_canon_be c dt _ Hdt). cbn [canon_value]. apply rev_involutive.
  - rewrite (daqmx_canon_be c dt _ Hdt). reflexivity.
Qed.

(* scaler_value_at through the field offset: the value of the scaler's type at
   the field, then (digital line) the addressed bit OF THE VALUE *)
Lemma scaler_value_at_field e kind s dt sz base w buf i :
  scaler_value_at e kind s dt sz base w buf i =
  (if kind =? DIGITAL_LINE_SCALER then digital_bit (sc_off s mod 8) else (fun v => v))
    (canon_value e dt (read_at (base + Z.of_nat i * w + sc_foff kind s) sz buf)).
Proof. unfold scaler_value_at, sc_foff. destruct (kind =? DIGITAL_LINE_SCALER); reflexivity. Qed.

Lemma flat_map_ext_in {A B} (f h : A -> list B) (l : list A) :
  (forall a, In a l -> f a = h a) -> flat_map f l = flat_map h l.
Proof.
  induction l as [|x l IH]; intros H; [reflexivity|].
  cbn [flat_map]. rewrite (H x (or_introl eq_refl)), IH; [reflexivity|].
  intros a Ha. apply H. right. exact Ha.
Qed.

Section DaqmxValues.
  Context (g : segment) (data : bytes).
  Context (Hok : daqmx_seg_ok g data).
  Let dobjs := data_objs (sg_objs g).
  Let dims := dims_spec dobjs.
  Context (Hcompat : slots_compatible (slots dobjs)).

  Lemma flip_dq_scaler_chunk e e' o q s j :
    e' <> e -> In o dobjs -> so_daqmx o = Some q -> In s (dq_scalers q) ->
    (j < direct_nchunks dims data)%nat ->
    direct_scaler_chunk e' (dq_kind q) dims (flip_dq g data) j s
    = direct_scaler_chunk e (dq_kind q) dims data j s.
  Proof.
    intros Hne Ho Hq Hs Hj. unfold direct_scaler_chunk.
    destruct (nth_error dims (Z.to_nat (sc_buf s))) as [[n w]|] eqn:En; [|reflexivity].
    destruct (daqmx_type (sc_type s)) as [dt|] eqn:Edt; [|reflexivity].
    destruct (tds_size dt) as [[sz|]|] eqn:Esz; try reflexivity.
    apply map_ext_in. intros i Hi. apply in_seq in Hi.
    rewrite !scaler_value_at_field. f_equal.
    assert (Hin : In (Z.of_nat j * chunk_bytes dims + buffer_base dims (Z.to_nat (sc_buf s))
                      + Z.of_nat i * w + sc_foff (dq_kind q) s, sz) (block_fields dobjs data)).
    { apply block_fields_in. exists j, (sc_buf s), (sc_foff (dq_kind q) s), n, w, i.
      fold dims. split; [exact Hj|]. split; [|split; [exact En|split; [lia|reflexivity]]].
      apply slots_in. exists o, q, s. split; [exact Ho|]. split; [exact Hq|]. split; [exact Hs|].
      unfold scaler_slot, scaler_size. rewrite Edt, Esz. reflexivity. }
    rewrite (flip_dq_field g data Hok Hcompat _ _ Hin).
    exact (daqmx_canon_flip _ dt e e' _ Edt Hne).
  Qed.

  (* direct addressing of the flipped block, typed with the other byte order, gives
     the chunks of the original block: the same values under every path and
     scale id, in the same order *)
  Theorem flip_dq_values g' :
    sg_objs g' = sg_objs g -> toc_endian (sg_toc g') <> toc_endian (sg_toc g) ->
    direct_chunks g' (flip_dq g data) = direct_chunks g data.
  Proof.
    intros Hobjs Hne. unfold direct_chunks. rewrite Hobjs. fold dobjs dims.
    assert (Hn : direct_nchunks dims (flip_dq g data) = direct_nchunks dims data).
    { unfold direct_nchunks. rewrite (flip_dq_blen g data Hok). reflexivity. }
    rewrite Hn. apply map_ext_in. intros j Hj. apply in_seq in Hj.
    unfold direct_chunk. apply flat_map_ext_in. intros o Ho.
    unfold direct_obj_entries. destruct (so_daqmx o) as [q|] eqn:Eq; [|reflexivity].
    destruct (oz_eqb (so_dtype o) (Some T_DAQMX)).
    - f_equal. f_equal. f_equal. apply map_ext_in. intros s Hs. f_equal.
      apply (flip_dq_scaler_chunk _ _ o q s j Hne Ho Eq Hs). lia.
    - apply map_ext_in. intros s Hs. f_equal. f_equal.
      apply (flip_dq_scaler_chunk _ _ o q s j Hne Ho Eq Hs). lia.
  Qed.
End DaqmxValues.

(* daqmx_seg_ok looks at the object list and the length of the block only *)
Lemma daqmx_seg_ok_ext g g' data data' :
  sg_objs g' = sg_objs g -> blen data' = blen data ->
  daqmx_seg_ok g data -> daqmx_seg_ok g' data'.
Proof. unfold daqmx_seg_ok. intros -> ->. exact (fun H => H). Qed.

(* direct_chunks looks at the byte order, the object list and the block *)
Lemma direct_chunks_ext g g' data :
  sg_objs g' = sg_objs g -> toc_endian (sg_toc g') = toc_endian (sg_toc g) ->
  direct_chunks g' data = direct_chunks g data.
Proof. unfold direct_chunks. intros -> ->. reflexivity. Qed.

(* ======================================================================== *)
(* D5: the reordered file                                                   *)
(* ======================================================================== *)

Definition endian_eqb (a b : endian) : bool :=
  match a, b with
  | LE, LE => true
  | BE, BE => true
  | _, _ => false
  end.

Lemma endian_eqb_eq a b : endian_eqb a b = true <-> a = b.
Proof. destruct a, b; cbn; split; intros H; try reflexivity; discriminate. Qed.

(* the reader takes the DAQmx path for this segment (_have_daqmx_objects) *)
Definition is_daqmx_seg (g : segment) : bool :=
  match seg_layout g with
  | Ok LDaqmx => true
  | _ => false
  end.

(* the raw data block of segment [g] in byte order [e]: an ordinary segment is
   re-encoded from its chunk values (EndianRead.reenc); a DAQmx block keeps its
   bytes when [e] is the order it has, and has its scaler fields reversed
   otherwise *)
Definition reenc_dq (e : endian) (g : segment) (data : bytes) (cs : list chunk) : bytes :=
  if is_daqmx_seg g
  then (if endian_eqb e (toc_endian (sg_toc g)) then data else flip_dq g data)
  else reenc e g cs.

Definition reorder_dq_seg (e : endian) (g : segment) (s : fseg) (cs : list chunk) : fseg :=
  mkFseg (toc_set_endian e (fs_toc s)) (fs_version s) (fs_meta s) (reenc_dq e g (fs_data s) cs).

Fixpoint reorder_dq_with (gs : list segment) (es : list endian) (segs : list fseg)
         (chunkss : list (list chunk)) : list fseg :=
  match gs, es, segs, chunkss with
  | g :: gs', e :: es', s :: segs', cs :: chunkss' =>
    reorder_dq_seg e g s cs :: reorder_dq_with gs' es' segs' chunkss'
  | _, _, _, _ => []
  end.

(* as EndianRead.reorder: the object lists and layouts are the ones the metadata
   pass computes; identity on a syntax the pass rejects *)
Definition reorder_dq (es : list endian) (segs : list fseg) (chunkss : list (list chunk)) : list fseg :=
  match sm_run segs false with
  | Ok st => reorder_dq_with (rs_segments st) es segs chunkss
  | Err _ => segs
  end.

(* the side condition: a DAQmx segment whose byte order CHANGES has compatible
   scaler fields *)
Definition seg_flippable (e : endian) (g : segment) : Prop :=
  is_daqmx_seg g = true -> e <> toc_endian (sg_toc g) ->
  slots_compatible (slots (data_objs (sg_objs g))).

Lemma seg_encodes_not_daqmx g data cs : seg_encodes g data cs -> is_daqmx_seg g = false.
Proof.
  intros [Hd Hdata | css Hlay Hpos Hnd Hok Hds Hdata
          | nv m rows Hlay Hne Hnv Hm Hobs Hsz Hnd Hrows Hlen Hdata]; unfold is_daqmx_seg.
  - unfold seg_layout, have_daqmx. rewrite Hd. cbn [filter length Nat.eqb bind].
    destruct (have_interleaved (sg_toc g) []) as [[|]|]; reflexivity.
  - rewrite Hlay. reflexivity.
  - rewrite Hlay. reflexivity.
Qed.

Lemma daqmx_seg_ok_is_daqmx g data : daqmx_seg_ok g data -> is_daqmx_seg g = true.
Proof. intros H. unfold is_daqmx_seg. rewrite (daqmx_seg_ok_layout g data H). reflexivity. Qed.

Lemma is_daqmx_seg_sim ix g g' : seg_sim ix g g' -> is_daqmx_seg g' = is_daqmx_seg g.
Proof. intros H. unfold is_daqmx_seg. rewrite (seg_layout_sim ix g g' H). reflexivity. Qed.

Lemma reenc_dq_blen e g s cs :
  seg_content g s cs -> blen (reenc_dq e g (fs_data s) cs) = blen (fs_data s).
Proof.
  intros [cs0 Henc|Hok]; unfold reenc_dq.
  - rewrite (seg_encodes_not_daqmx g _ cs0 Henc). apply reenc_blen. exact Henc.
  - rewrite (daqmx_seg_ok_is_daqmx g _ Hok).
    destruct (endian_eqb e (toc_endian (sg_toc g))); [reflexivity|].
    apply flip_dq_blen. exact Hok.
Qed.

Lemma reorder_dq_seg_sim e g s cs :
  seg_content g s cs -> fseg_sim s (reorder_dq_seg e g s cs).
Proof.
  intros Hcs. unfold fseg_sim, reorder_dq_seg. cbn [fs_toc fs_version fs_meta fs_data].
  split; [apply toc_sim_set_endian|]. split; [reflexivity|]. split; [reflexivity|].
  apply reenc_dq_blen. exact Hcs.
Qed.

Lemma reorder_dq_with_sim : forall gs segs chunkss,
    segs_content gs segs chunkss ->
    forall es, length es = length segs ->
               Forall2 fseg_sim segs (reorder_dq_with gs es segs chunkss).
Proof.
  induction 1 as [|g gs s r cs css Hcs _ IH]; intros es Hlen.
  - destruct es; [constructor|discriminate].
  - destruct es as [|e es]; [discriminate|]. cbn [length] in Hlen.
    cbn [reorder_dq_with]. constructor; [apply reorder_dq_seg_sim; exact Hcs|].
    apply IH. lia.
Qed.

Lemma reorder_dq_with_wf : forall gs segs chunkss,
    segs_content gs segs chunkss ->
    forall es, length es = length segs -> wf_file segs ->
               wf_file (reorder_dq_with gs es segs chunkss).
Proof.
  induction 1 as [|g gs s r cs css Hcs _ IH]; intros es Hlen Hwf.
  - destruct es; reflexivity.
  - destruct es as [|e es]; [discriminate|]. cbn [length] in Hlen.
    unfold wf_file in *. cbn [forallb] in Hwf. apply andb_prop in Hwf. destruct Hwf as [Hs Hr].
    cbn [reorder_dq_with forallb]. apply andb_true_intro. split.
    + apply (wf_fseg_sim s); [exact Hs|apply reorder_dq_seg_sim; exact Hcs|].
      cbn [reorder_dq_seg fs_toc]. apply toc_set_endian_u32.
      apply wf_fseg_spec in Hs. destruct Hs as (Ht & _). apply is_u32_spec. exact Ht.
    + apply IH; [lia|exact Hr].
Qed.

(* segment i of the reordered file has byte order es[i] *)
Lemma reorder_dq_with_endian : forall gs segs chunkss,
    segs_content gs segs chunkss ->
    forall es, length es = length segs ->
               map (fun s => toc_endian (fs_toc s)) (reorder_dq_with gs es segs chunkss) = es.
Proof.
  induction 1 as [|g gs s r cs css Hcs _ IH]; intros es Hlen.
  - destruct es; [reflexivity|discriminate].
  - destruct es as [|e es]; [discriminate|]. cbn [length] in Hlen.
    cbn [reorder_dq_with map reorder_dq_seg fs_toc]. rewrite toc_endian_set. f_equal. apply IH. lia.
Qed.

(* the content of one reordered segment, for the record [g'] the metadata pass
   makes for it: the SAME chunks *)
Lemma seg_content_reorder ix e g g' s cs :
  seg_sim ix g g' -> toc_endian (sg_toc g') = e ->
  seg_flippable e g ->
  seg_content g s cs ->
  seg_content g' (reorder_dq_seg e g s cs) cs.
Proof.
  intros Hsim He Hflip [cs0 Henc|Hok].
  - apply sct_plain. cbn [reorder_dq_seg fs_data]. unfold reenc_dq.
    rewrite (seg_encodes_not_daqmx g _ cs0 Henc).
    destruct (seg_encodes_reenc ix g g' (fs_data s) cs0 Hsim Henc) as [H _].
    rewrite He in H. exact H.
  - assert (Hobjs : sg_objs g' = sg_objs g) by apply Hsim.
    pose proof (daqmx_seg_ok_is_daqmx g _ Hok) as Hdq.
    assert (Hok' : daqmx_seg_ok g' (fs_data (reorder_dq_seg e g s (direct_chunks g (fs_data s))))).
    { apply (daqmx_seg_ok_ext g g' (fs_data s)); [exact Hobjs| |exact Hok].
      cbn [reorder_dq_seg fs_data]. apply reenc_dq_blen. apply sct_daqmx. exact Hok. }
    assert (Hval : direct_chunks g' (fs_data (reorder_dq_seg e g s (direct_chunks g (fs_data s))))
                   = direct_chunks g (fs_data s)).
    { cbn [reorder_dq_seg fs_data]. unfold reenc_dq. rewrite Hdq.
      destruct (endian_eqb e (toc_endian (sg_toc g))) eqn:Ee.
      - apply endian_eqb_eq in Ee. apply direct_chunks_ext; [exact Hobjs|congruence].
      - assert (Hne : e <> toc_endian (sg_toc g)).
        { intros Heq. apply endian_eqb_eq in Heq. rewrite Heq in Ee. discriminate. }
        apply (flip_dq_values g (fs_data s) Hok (Hflip Hdq Hne) g' Hobjs). congruence. }
    rewrite <- Hval at 2. apply sct_daqmx. exact Hok'.
Qed.

Lemma reorder_dq_with_content ix : forall gs segs chunkss,
    segs_content gs segs chunkss ->
    forall es gs' pos,
      Forall2 seg_flippable es gs ->
      Forall2 (seg_sim ix) gs gs' ->
      segs_at pos (reorder_dq_with gs es segs chunkss) gs' ->
      segs_content gs' (reorder_dq_with gs es segs chunkss) chunkss.
Proof.
  induction 1 as [|g gs s r cs css Hcs _ IH]; intros es gs' pos Hflip Hsim Hat.
  - inversion Hflip; subst. inversion Hsim; subst. constructor.
  - inversion Hflip as [|e g0 es' gs0 He Hes]; subst.
    inversion Hsim as [|x g' l gs'' Hg Hgs]; subst.
    cbn [reorder_dq_with] in *.
    inversion Hat as [|pos0 s0 r0 g0 gs0 Hg0 Hat0]; subst.
    constructor.
    + destruct Hg0 as (_ & Htoc & _). cbn [reorder_dq_seg fs_toc] in Htoc.
      apply (seg_content_reorder ix e g g' s cs Hg); [|exact He|exact Hcs].
      rewrite Htoc. apply toc_endian_set.
    + eapply IH; [exact Hes|exact Hgs|exact Hat0].
Qed.

(* with the byte orders the segments already have, nothing changes *)
Lemma reorder_dq_with_same : forall gs segs chunkss pos,
    segs_content gs segs chunkss -> segs_at pos segs gs ->
    reorder_dq_with gs (map (fun s => toc_endian (fs_toc s)) segs) segs chunkss = segs.
Proof.
  intros gs segs chunkss pos Hcon. revert pos.
  induction Hcon as [|g gs s r cs css Hcs _ IH]; intros pos Hat; [reflexivity|].
  inversion Hat as [|pos0 s0 r0 g0 gs0 Hg0 Hat0]; subst.
  cbn [map reorder_dq_with]. rewrite (IH _ Hat0). f_equal.
  unfold reorder_dq_seg. rewrite toc_set_endian_same.
  destruct Hg0 as (_ & Htoc & _).
  assert (Hre : reenc_dq (toc_endian (fs_toc s)) g (fs_data s) cs = fs_data s).
  { unfold reenc_dq. destruct Hcs as [cs0 Henc|Hok].
    - rewrite (seg_encodes_not_daqmx g _ cs0 Henc). rewrite <- Htoc. apply reenc_same. exact Henc.
    - rewrite (daqmx_seg_ok_is_daqmx g _ Hok). rewrite <- Htoc.
      replace (endian_eqb (toc_endian (sg_toc g)) (toc_endian (sg_toc g))) with true
        by (symmetry; apply endian_eqb_eq; reflexivity).
      reflexivity. }
  rewrite Hre. destruct s; reflexivity.
Qed.

(* on a file without DAQmx segments reorder_dq IS EndianRead.reorder *)
Lemma reorder_dq_with_plain : forall gs segs chunkss,
    segs_encode gs segs chunkss ->
    forall es, reorder_dq_with gs es segs chunkss = reorder_with gs es segs chunkss.
Proof.
  induction 1 as [|g gs s r cs css Hcs _ IH]; intros es; [reflexivity|].
  destruct es as [|e es]; [reflexivity|]. cbn [reorder_dq_with reorder_with]. rewrite IH. f_equal.
  unfold reorder_dq_seg, reorder_seg, reenc_dq. rewrite (seg_encodes_not_daqmx g _ cs Hcs). reflexivity.
Qed.

Lemma Forall2_length_eq' {A B} (P : A -> B -> Prop) a b : Forall2 P a b -> length a = length b.
Proof. induction 1; cbn [length]; congruence. Qed.

Lemma segs_content_lengths gs segs chunkss :
  segs_content gs segs chunkss -> length gs = length segs.
Proof. induction 1; cbn [length]; congruence. Qed.

(* the observation does not look at the masks *)
Lemma expected_tokens_dq_sim ix st st' h chunks :
  st_sim ix st st' -> expected_tokens_dq st' h chunks = expected_tokens_dq st h chunks.
Proof.
  intros Hsim. unfold expected_tokens_dq. rewrite (obs_status_sim ix st st' Hsim).
  destruct Hsim as (_ & _ & _ & Hv & _). rewrite Hv. reflexivity.
Qed.

(* ======================================================================== *)
(* D6: the composed theorems                                                *)
(* ======================================================================== *)

Section ReorderedDq.
  Context (segs : list fseg) (st : rstate) (chunkss : list (list chunk)) (es : list endian).
  Context (Hrun : sm_run segs false = Ok st).
  Context (Hcon : segs_content (rs_segments st) segs chunkss).
  Context (Hflip : Forall2 seg_flippable es (rs_segments st)).

  Lemma reorder_dq_es_length : length es = length segs.
  Proof.
    rewrite (Forall2_length_eq' _ _ _ Hflip). exact (segs_content_lengths _ _ _ Hcon).
  Qed.

  Lemma reorder_dq_unfold :
    reorder_dq es segs chunkss = reorder_dq_with (rs_segments st) es segs chunkss.
  Proof. unfold reorder_dq. rewrite Hrun. reflexivity. Qed.

  Lemma reorder_dq_wf : wf_file segs -> wf_file (reorder_dq es segs chunkss).
  Proof.
    intros Hwf. rewrite reorder_dq_unfold.
    apply reorder_dq_with_wf; [exact Hcon|exact reorder_dq_es_length|exact Hwf].
  Qed.

  Lemma reorder_dq_sim : Forall2 fseg_sim segs (reorder_dq es segs chunkss).
  Proof.
    rewrite reorder_dq_unfold. apply reorder_dq_with_sim; [exact Hcon|exact reorder_dq_es_length].
  Qed.

  Lemma reorder_dq_endian :
    map (fun s => toc_endian (fs_toc s)) (reorder_dq es segs chunkss) = es.
  Proof.
    rewrite reorder_dq_unfold. apply reorder_dq_with_endian; [exact Hcon|exact reorder_dq_es_length].
  Qed.

  (* the metadata pass, with or without segment indexes: same reader state up to
     the big-endian bit of the recorded masks *)
  Lemma sm_run_reorder_dq w stw :
    sm_run segs w = Ok stw ->
    exists stw', sm_run (reorder_dq es segs chunkss) w = Ok stw' /\ st_sim true stw stw'.
  Proof.
    intros Hw. pose proof (sm_run_sim segs _ w reorder_dq_sim) as H. rewrite Hw in H.
    destruct (sm_run (reorder_dq es segs chunkss) w) as [stw'|e]; [|contradiction].
    exists stw'. split; [reflexivity|exact H].
  Qed.

  (* the reordered blocks have the SAME content, for the records of the pass
     over the reordered file *)
  Lemma reorder_dq_content st' :
    sm_run (reorder_dq es segs chunkss) false = Ok st' ->
    segs_content (rs_segments st') (reorder_dq es segs chunkss) chunkss.
  Proof.
    intros Hrun'. destruct (sm_run_reorder_dq false st Hrun) as (st'' & H1 & Hsim).
    rewrite Hrun' in H1. injection H1 as <-.
    pose proof (sm_segment_positions _ _ _ Hrun') as Hat.
    destruct Hsim as (Hs & _). rewrite reorder_dq_unfold in *.
    exact (reorder_dq_with_content true _ _ _ Hcon es _ 0 Hflip Hs Hat).
  Qed.
End ReorderedDq.

Theorem read_correct_reorder_dq segs st h chunkss es :
  wf_file segs ->
  sm_run segs false = Ok st ->
  build_hierarchy (rs_om st) = Ok h ->
  segs_content (rs_segments st) segs chunkss ->
  om_paths_canonical (rs_om st) ->
  typed_objects_are_channels (rs_om st) ->
  Forall2 seg_flippable es (rs_segments st) ->
  rd_all (ser_file (reorder_dq es segs chunkss)) = Ok (expected_tokens_dq st h (concat chunkss), true).
Proof.
  intros Hwf Hrun Hh Hcon Hcanon Hshape Hflip.
  destruct (sm_run_reorder_dq segs st chunkss es Hrun Hcon Hflip false st Hrun) as (st' & Hrun' & Hsim).
  pose proof (reorder_dq_wf segs st chunkss es Hrun Hcon Hflip Hwf) as Hwf'.
  pose proof (reorder_dq_content segs st chunkss es Hrun Hcon Hflip st' Hrun') as Hcon'.
  pose proof Hsim as (Hs & Hpo & Hom & Hv & Hc).
  rewrite <- Hom in Hh, Hcanon, Hshape.
  rewrite (read_correct_daqmx _ st' h chunkss Hwf' Hrun' Hh Hcon' Hcanon Hshape).
  rewrite (expected_tokens_dq_sim true st st' h _ Hsim). reflexivity.
Qed.

(* C15 for files with DAQmx segments *)
Theorem endian_transparent_daqmx segs st h chunkss es :
  wf_file segs ->
  sm_run segs false = Ok st ->
  build_hierarchy (rs_om st) = Ok h ->
  segs_content (rs_segments st) segs chunkss ->
  om_paths_canonical (rs_om st) ->
  typed_objects_are_channels (rs_om st) ->
  Forall2 seg_flippable es (rs_segments st) ->
  rd_all (ser_file (reorder_dq es segs chunkss)) = rd_all (ser_file segs).
Proof.
  intros Hwf Hrun Hh Hcon Hcanon Hshape Hflip.
  rewrite (read_correct_reorder_dq segs st h chunkss es Hwf Hrun Hh Hcon Hcanon Hshape Hflip).
  rewrite (read_correct_daqmx segs st h chunkss Hwf Hrun Hh Hcon Hcanon Hshape). reflexivity.
Qed.

Corollary endian_transparent_daqmx_any segs st h chunkss es1 es2 :
  wf_file segs ->
  sm_run segs false = Ok st ->
  build_hierarchy (rs_om st) = Ok h ->
  segs_content (rs_segments st) segs chunkss ->
  om_paths_canonical (rs_om st) ->
  typed_objects_are_channels (rs_om st) ->
  Forall2 seg_flippable es1 (rs_segments st) ->
  Forall2 seg_flippable es2 (rs_segments st) ->
  rd_all (ser_file (reorder_dq es1 segs chunkss)) = rd_all (ser_file (reorder_dq es2 segs chunkss)).
Proof.
  intros Hwf Hrun Hh Hcon Hcanon Hshape H1 H2.
  rewrite !(endian_transparent_daqmx segs st h chunkss) by assumption. reflexivity.
Qed.

(* the side condition in its uniform form: every DAQmx segment has compatible
   scaler fields; then every assignment of the right length is covered *)
Definition dq_segs_compatible (gs : list segment) : Prop :=
  Forall (fun g => is_daqmx_seg g = true -> slots_compatible (slots (data_objs (sg_objs g)))) gs.

Lemma dq_segs_compatible_flippable : forall gs es,
    dq_segs_compatible gs -> length es = length gs -> Forall2 seg_flippable es gs.
Proof.
  induction gs as [|g gs IH]; intros [|e es] Hc Hlen; try discriminate; constructor.
  - inversion Hc; subst. intros Hdq _. auto.
  - inversion Hc; subst. apply IH; [assumption|cbn [length] in Hlen; lia].
Qed.

Corollary endian_transparent_daqmx_all segs st h chunkss es :
  length es = length segs ->
  wf_file segs ->
  sm_run segs false = Ok st ->
  build_hierarchy (rs_om st) = Ok h ->
  segs_content (rs_segments st) segs chunkss ->
  om_paths_canonical (rs_om st) ->
  typed_objects_are_channels (rs_om st) ->
  dq_segs_compatible (rs_segments st) ->
  rd_all (ser_file (reorder_dq es segs chunkss)) = rd_all (ser_file segs).
Proof.
  intros Hlen Hwf Hrun Hh Hcon Hcanon Hshape Hc.
  apply (endian_transparent_daqmx segs st h chunkss es); try assumption.
  apply dq_segs_compatible_flippable; [exact Hc|].
  rewrite Hlen. symmetry. exact (segs_content_lengths _ _ _ Hcon).
Qed.

(* reordering to the byte orders the file already has is the identity *)
Theorem reorder_dq_same segs st chunkss :
  sm_run segs false = Ok st ->
  segs_content (rs_segments st) segs chunkss ->
  reorder_dq (map (fun s => toc_endian (fs_toc s)) segs) segs chunkss = segs.
Proof.
  intros Hrun Hcon. unfold reorder_dq. rewrite Hrun.
  apply (reorder_dq_with_same _ _ _ 0 Hcon). exact (sm_segment_positions _ _ _ Hrun).
Qed.

(* files without DAQmx segments: reorder_dq is EndianRead.reorder *)
Theorem reorder_dq_plain segs st chunkss es :
  sm_run segs false = Ok st ->
  segs_encode (rs_segments st) segs chunkss ->
  reorder_dq es segs chunkss = reorder es segs chunkss.
Proof.
  intros Hrun Henc. unfold reorder_dq, reorder. rewrite Hrun.
  apply reorder_dq_with_plain. exact Henc.
Qed.

(* the metadata half, field by field *)
Theorem sm_run_reorder_dq_fields segs st chunkss es :
  sm_run segs false = Ok st ->
  segs_content (rs_segments st) segs chunkss ->
  Forall2 seg_flippable es (rs_segments st) ->
  forall w stw,
    sm_run segs w = Ok stw ->
    exists stw', sm_run (reorder_dq es segs chunkss) w = Ok stw' /\
                 Forall2 (seg_sim true) (rs_segments stw) (rs_segments stw') /\
                 rs_prev_objs stw' = rs_prev_objs stw /\
                 rs_om stw' = rs_om stw /\
                 rs_version stw' = rs_version stw /\
                 rs_cache stw' = rs_cache stw.
Proof.
  intros Hrun Hcon Hflip w stw Hw.
  destruct (sm_run_reorder_dq segs st chunkss es Hrun Hcon Hflip w stw Hw)
    as (stw' & H1 & (H2 & H3 & H4 & H5 & H6)).
  exists stw'. repeat split; try assumption. exact (H6 eq_refl).
Qed.

(* ======================================================================== *)
(* D7: flipping twice; a boolean check of the side condition                 *)
(* ======================================================================== *)

Lemma read_at_1_skipn p (l : bytes) : 0 <= p -> read_at p 1 l = firstn 1 (skipn (Z.to_nat p) l).
Proof. intros Hp. unfold read_at. rewrite take_firstn, drop_skipn. reflexivity. Qed.

Lemma bytes_ext : forall a b : bytes,
    blen a = blen b -> (forall p, 0 <= p < blen a -> read_at p 1 a = read_at p 1 b) -> a = b.
Proof.
  induction a as [|x a IH]; intros [|y b] Hlen Hext; try reflexivity;
    try (unfold blen in Hlen; cbn [length] in Hlen; lia).
  assert (Hl : blen a = blen b) by (unfold blen in *; cbn [length] in Hlen; lia).
  pose proof (blen_nonneg a) as Hna.
  assert (Hxy : x = y).
  { specialize (Hext 0). rewrite !read_at_1_skipn in Hext by lia. cbn in Hext.
    assert (H0 : 0 <= 0 < blen (x :: a)) by (unfold blen in *; cbn [length]; lia).
    specialize (Hext H0). congruence. }
  subst y. f_equal. apply IH; [exact Hl|].
  intros p Hp. specialize (Hext (p + 1)).
  rewrite !read_at_1_skipn in Hext by lia.
  replace (Z.to_nat (p + 1)) with (S (Z.to_nat p)) in Hext by lia. cbn [skipn] in Hext.
  rewrite !read_at_1_skipn by lia. apply Hext. unfold blen in *. cbn [length]. lia.
Qed.

Lemma block_fields_blen dobjs data data' :
  blen data' = blen data -> block_fields dobjs data' = block_fields dobjs data.
Proof. intros H. unfold block_fields, direct_nchunks. rewrite H. reflexivity. Qed.

(* flipping is its own inverse: the same operation takes the block from either
   byte order to the other *)
Theorem flip_dq_involutive g data :
  daqmx_seg_ok g data -> slots_compatible (slots (data_objs (sg_objs g))) ->
  flip_dq g (flip_dq g data) = data.
Proof.
  intros Hok Hc.
  pose proof (flip_dq_blen g data Hok) as Hlen.
  assert (Hok' : daqmx_seg_ok g (flip_dq g data))
    by (apply (daqmx_seg_ok_ext g g data); [reflexivity|exact Hlen|exact Hok]).
  pose proof (block_fields_blen (data_objs (sg_objs g)) data _ Hlen) as Hbf.
  apply bytes_ext; [rewrite (flip_dq_blen g _ Hok'); exact Hlen|].
  intros p Hp. rewrite (flip_dq_blen g _ Hok'), Hlen in Hp.
  destruct (Exists_dec (fun f => fst f <= p < fst f + snd f) (block_fields (data_objs (sg_objs g)) data))
    as [Hcov|Hnot].
  { intros f. destruct (Z_le_dec (fst f) p); [|right; lia].
    destruct (Z_lt_dec p (fst f + snd f)); [left; lia|right; lia]. }
  - apply Exists_exists in Hcov. destruct Hcov as ([a n] & Hin & Hr). cbn [fst snd] in Hr.
    pose proof (block_fields_in_range g data Hok) as Hrange. rewrite Forall_forall in Hrange.
    destruct (Hrange _ Hin) as (Ha & Hn & Hfit). cbn [fst snd] in Ha, Hn, Hfit.
    assert (Hfield : read_at a n (flip_dq g (flip_dq g data)) = read_at a n data).
    { rewrite (flip_dq_field g _ Hok' Hc a n) by (rewrite Hbf; exact Hin).
      rewrite (flip_dq_field g _ Hok Hc a n Hin). apply rev_involutive. }
    replace p with (a + (p - a)) by lia.
    rewrite <- !(read_at_sub a n (p - a) 1) by lia. rewrite Hfield. reflexivity.
  - assert (Hout : forall a n, In (a, n) (block_fields (data_objs (sg_objs g)) data) -> p < a \/ a + n <= p).
    { intros a n Hin. destruct (Z_lt_dec p a) as [|Hge]; [left; assumption|].
      destruct (Z_le_dec (a + n) p) as [|Hlt]; [right; assumption|].
      exfalso. apply Hnot. apply Exists_exists. exists (a, n). split; [exact Hin|cbn [fst snd]; lia]. }
    rewrite (flip_dq_outside g _ Hok' p) by (try lia; rewrite Hbf; exact Hout).
    apply (flip_dq_outside g _ Hok p); [lia|exact Hout].
Qed.

Definition slots_compatible_b (sl : list (Z * Z * Z)) : bool :=
  forallb (fun x =>
    forallb (fun y =>
      match x, y with
      | (b1, f1, n1), (b2, f2, n2) =>
        negb (b1 =? b2) || ((f1 =? f2) && (n1 =? n2)) || (f1 + n1 <=? f2) || (f2 + n2 <=? f1)
      end) sl) sl.

Lemma slots_compatible_b_sound sl : slots_compatible_b sl = true -> slots_compatible sl.
Proof.
  unfold slots_compatible_b, slots_compatible. intros H b f1 n1 f2 n2 H1 H2.
  rewrite forallb_forall in H. specialize (H _ H1). rewrite forallb_forall in H. specialize (H _ H2).
  cbn beta iota in H. rewrite Z.eqb_refl in H. cbn [negb orb] in H. lia.
Qed.

Definition dq_segs_compatible_b (gs : list segment) : bool :=
  forallb (fun g => negb (is_daqmx_seg g) || slots_compatible_b (slots (data_objs (sg_objs g)))) gs.

Lemma dq_segs_compatible_b_sound gs : dq_segs_compatible_b gs = true -> dq_segs_compatible gs.
Proof.
  unfold dq_segs_compatible_b, dq_segs_compatible. intros H. apply Forall_forall. intros g Hg Hdq.
  rewrite forallb_forall in H. specialize (H g Hg). rewrite Hdq in H. cbn [negb orb] in H.
  apply slots_compatible_b_sound. exact H.
Qed.

(* ======================================================================== *)
(* D8: overlapping scaler fields cannot be re-encoded                        *)
(* ======================================================================== *)

Lemma read_prefix_conflict (d : bytes) a b c1 c2 c3 c4 :
  read_at 0 2 d = [a; b] -> read_at 0 4 d = [c1; c2; c3; c4] -> a = c1.
Proof.
  unfold read_at. rewrite !take_firstn, !drop_skipn.
  change (Z.to_nat 0) with 0%nat. change (Z.to_nat 2) with 2%nat. change (Z.to_nat 4) with 4%nat.
  cbn [skipn].
  destruct d as [|x0 [|x1 [|x2 [|x3 r]]]]; cbn [firstn]; intros H1 H2;
    try discriminate H1; try discriminate H2. congruence.
Qed.

(* dx_file (ReadCorrectDaqmx.v), big-endian segment 0: channel c0 reads an int16 at
   bytes 0-1 of a row of buffer 0, channel c2 an int32 at bytes 0-3 of the same
   row.  NO raw data block whatsoever, read little-endian with the same object
   list, holds the values of the big-endian block: the int16 0x0102 wants byte 0
   to be 02, the int32 0x01020304 wants it to be 04. *)
Theorem dx_not_reencodable g' data' :
  sg_objs g' = sg_objs (dx_seg 0) -> toc_endian (sg_toc g') = LE ->
  direct_chunks g' data' <> direct_chunks (dx_seg 0) (dx_data 0).
Proof.
  intros Hobjs Hle Heq. rewrite (proj1 dx_direct_chunks) in Heq.
  unfold direct_chunks in Heq. rewrite Hobjs, Hle in Heq.
  set (dobjs := data_objs (sg_objs (dx_seg 0))) in Heq.
  vm_compute in dobjs. subst dobjs.
  set (dims := dims_spec _) in Heq. vm_compute in dims. subst dims.
  destruct (direct_nchunks _ data') as [|n]; [discriminate Heq|].
  cbn [seq map] in Heq. apply (f_equal (@hd chunk [])) in Heq. cbn [hd] in Heq.
  pose (f1 := fun c : chunk => match c with
                               | (_, CScalers ((_, v :: _) :: _)) :: _ => v
                               | _ => []
                               end).
  pose (f2 := fun c : chunk => match c with
                               | _ :: _ :: (_, CData (v :: _)) :: _ => v
                               | _ => []
                               end).
  pose proof (f_equal f1 Heq) as H1. pose proof (f_equal f2 Heq) as H2.
  cbn -[read_at] in H1, H2.
  pose proof (read_prefix_conflict data' _ _ _ _ _ _ H1 H2) as Hc. vm_compute in Hc. discriminate Hc.
Qed.

(* ======================================================================== *)
(* D9: a concrete file with compatible scaler fields                         *)
(* ======================================================================== *)
(* dy_file = dx_file with the raw buffers laid out without partial overlaps
   (built with harness/daqmxgen.py + tdmsgen.py and read with npTDMS: script in
   the header of Props/C15_daqmx.v).  Big-endian DAQmx segment, raw buffers
   2 rows x 8 bytes and 3 rows x 3 bytes (25 bytes per chunk), TWO chunks:
     c0 (DaqMxRawData)  int16 at byte 0 (scale id 0), uint8 at byte 3 (id 5),
                        uint32 at byte 4 (id 7) of buffer 0; byte 2 is padding
     c1 (DaqMxRawData, DIGITAL LINE scaler of type uint16): raw_bit_offset 10 =
                        the uint16 at byte 1 of buffer 1, bit 2 OF THE VALUE; byte 0
                        of the row is padding
     c2 (typed int32)   its scaler at byte 4 of buffer 0: the SAME field as c0's
                        uint32 scaler (identical extents)
   then a segment WITHOUT metadata (same object list, one chunk), then an
   ordinary little-endian segment with a new object list (int32 channel x). *)
Section DyExample.
Import String.
Local Open Scope string_scope.

Definition dy_file : list fseg :=
  [ mkFseg 206 4713
      (Some [ mkEntry dx_p0 (IDaqmx FORMAT_CHANGING_SCALER T_DAQMX 1 2
                                    [mkScaler 3 0 0 0 0; mkScaler 0 0 3 0 5; mkScaler 4 0 4 0 7] [8; 3]) [];
              mkEntry dx_p1 (IDaqmx DIGITAL_LINE_SCALER T_DAQMX 1 3 [mkScaler 2 1 10 0 0] [8; 3]) [];
              mkEntry dx_p2 (IDaqmx FORMAT_CHANGING_SCALER 3 1 2 [mkScaler 5 0 4 0 0] [8; 3]) [] ])
      (hex "01020304111213142122232431323334a00400b00004c00b0f414243445152535461626364717273740004000fff0aee0104");
    mkFseg 200 4713 None (hex "8182838491929394a1a2a3a4b1b2b3b40006000a0b040c0d0e");
    mkFseg 14 4713 (Some [ mkEntry dx_px (IFull 20 3 1 2 None) [] ]) (hex "0700000008000000") ].

Definition dy_st : rstate := match sm_run dy_file false with Ok st => st | Err _ => rstate0 end.
Definition dy_h : hierarchy :=
  match build_hierarchy (rs_om dy_st) with Ok h => h | Err _ => mkHier [] [] end.
Definition dy_seg (i : nat) : segment := nth i (rs_segments dy_st) (mkSeg 0 0 0 0 false [] [] 0 None).
Definition dy_data (i : nat) : bytes := fs_data (nth i dy_file (mkFseg 0 0 None [])).

Definition dy_chunks : list (list chunk) :=
  [ direct_chunks (dy_seg 0) (dy_data 0);
    direct_chunks (dy_seg 1) (dy_data 1);
    [ [(dx_px, CData [hex "07000000"; hex "08000000"])] ] ].

Example dy_bytes :
  ser_file dy_file = hex "5444536dce0000000000126900000000000001390000000000000107000000030000000a2f276471272f2763302700001269ffffffff00000001000000000000000200000003000000030000000000000000000000000000000000000000000000000000000300000000000000050000000400000000000000040000000000000007000000020000000800000003000000000000000a2f276471272f276331270000126affffffff0000000100000000000000030000000100000002000000010000000a0000000000000000020000000800000003000000000000000a2f276471272f2763322700001269000000030000000100000000000000020000000100000005000000000000000400000000000000000000000200000008000000030000000001020304111213142122232431323334a00400b00004c00b0f414243445152535461626364717273740004000fff0aee01045444536dc800000000001269000000000000001900000000000000008182838491929394a1a2a3a4b1b2b3b40006000a0b040c0d0e5444536d0e000000691200003000000000000000280000000000000001000000080000002f2767272f2778271400000003000000010000000200000000000000000000000700000008000000".
Proof. vm_compute. reflexivity. Qed.

Example dy_wf : wf_file dy_file.
Proof. unfold wf_file. vm_compute. reflexivity. Qed.

Example dy_run : sm_run dy_file false = Ok dy_st.
Proof. vm_compute. reflexivity. Qed.

Example dy_hier : build_hierarchy (rs_om dy_st) = Ok dy_h.
Proof. vm_compute. reflexivity. Qed.

Example dy_content : segs_content (rs_segments dy_st) dy_file dy_chunks.
Proof.
  assert (Hsegs : rs_segments dy_st = [dy_seg 0; dy_seg 1; dy_seg 2]) by (vm_compute; reflexivity).
  rewrite Hsegs. clear Hsegs. unfold dy_file, dy_chunks.
  constructor; [|constructor; [|constructor; [|constructor]]].
  - apply (sct_daqmx (dy_seg 0) _). apply daqmx_seg_ok_b_sound. vm_compute. reflexivity.
  - apply (sct_daqmx (dy_seg 1) _). apply daqmx_seg_ok_b_sound. vm_compute. reflexivity.
  - apply sct_plain. cbn [fs_data].
    eapply (rc_seg_contig _ _ [dx_obj_x] [ [ [hex "07000000"; hex "08000000"] ] ]).
    + vm_compute. reflexivity.
    + vm_compute. reflexivity.
    + vm_compute. reflexivity.
    + vm_compute. reflexivity.
    + repeat constructor.
    + repeat constructor.
    + vm_compute. reflexivity.
    + vm_compute. reflexivity.
Qed.

Example dy_canonical : om_paths_canonical (rs_om dy_st).
Proof. apply om_paths_canonical_b_sound. vm_compute. reflexivity. Qed.

Example dy_typed_channels : typed_objects_are_channels (rs_om dy_st).
Proof. apply typed_objects_are_channels_b_sound. vm_compute. reflexivity. Qed.

(* the scaler slots (buffer, offset, size) of the DAQmx segments, and the check *)
Example dy_slots :
  slots (data_objs (sg_objs (dy_seg 0))) = [(0, 0, 2); (0, 3, 1); (0, 4, 4); (1, 1, 2); (0, 4, 4)] /\
  slots (data_objs (sg_objs (dx_seg 0))) = [(0, 0, 2); (0, 3, 1); (1, 1, 1); (0, 0, 4)].
Proof. vm_compute. split; reflexivity. Qed.

Example dy_compatible : dq_segs_compatible (rs_segments dy_st).
Proof. apply dq_segs_compatible_b_sound. vm_compute. reflexivity. Qed.

(* dx_file's DAQmx segments are NOT compatible (int16 at 0-1 inside int32 at 0-3) *)
Example dx_not_compatible : ~ slots_compatible (slots (data_objs (sg_objs (dx_seg 0)))).
Proof.
  rewrite (proj2 dy_slots). intros H.
  destruct (H 0 0 2 0 4) as [[_ Hn]|[Hd|Hd]]; cbn; auto; lia.
Qed.

End DyExample.
