(* C10, final composition: what TdmsWriter.defragment writes reads back as the
   source's content (statements: Props/C10_full.v).

   Proofs/DefragRead.v left three facts about the SOURCE's reader state open;
   they are proved here from the run of the metadata pass itself:
     (i)   every property dictionary of the hierarchy is well keyed
           ([keyed]: distinct keys, key = property name)
           - sm_run_om_inv (a generic invariant of the per-object property
             dictionaries over sm_loop), sm_run_keyed, build_hierarchy_groups,
             build_hierarchy_chan_props, hierarchy_props_keyed;
     (ii)  a channel without a data type has length 0
           - untyped_channel_len0 (its path cannot occur in any chunk);
     (iii) a group's g_name is its dictionary key - build_hierarchy_gname;
   plus: a recorded data type is never Void (sm_run_dtype_nonvoid), the file
   status of a file whose raw data blocks encode whole chunks is "complete"
   (source_status_complete).

   Then, in this order:
     - [norm_dtype] / [norm_hier] / [defrag_view]: the destination's observation
       computed from the source's hierarchy and chunks alone;
       [defrag_tokens_view]: it IS DefragRead.defrag_tokens of the content read
       from the source, for any re-typing [f] of property values that keeps
       names and shown values ([same_shown]), given [source_facts];
       [source_facts_ser]: the facts hold under read_correct's hypotheses;
     - [py_prop] / [retype_prop]: the round trip of a property value through
       Python (TdmsFile.properties -> _to_tdms_value), [retype_prop_lowers]
       (it is Model/Writer.v's lower_prop of the Python value, never an
       error), [retype_prop_shown];
     - [normalise_obs]: an executable normaliser on token lists, and
       [normalise_obs_rendered]: on any rendered hierarchy it acts as norm_hier;
     - "the writer accepts what the reader produced": [seg_encodes_vals] (every
       value a chunk holds has the size of its object's type),
       [sm_run_dtypes_recorded] (a typed segment object's type is the type
       recorded for its path), [source_values_typed], [chan_type_ok_source],
       [content_ok_ser]; the container limits [defrag_fits]; [defrag_accepted],
       [defrag_succeeds] (defragment does not raise);
     - the theorems: defrag_preserves_gen / _given / _id / _py. *)
From Coq Require Import List ZArith Bool Lia ZifyBool.
From Coq Require Import Init.Byte.
Import ListNotations.
From NpTdms Require Import Base.Bytes Base.Res Model.Tokens Model.TokensWf Model.ByteStr
  Model.StrictParse Model.Writer Model.Defrag Proofs.ByteStrProofs Proofs.WriterProofs Proofs.DefragProofs
  Gen.PyFuncsWriter Proofs.WriterIntProofs.
From NpTdms Require Import Model.SegState Model.Layout Model.Reader Model.FileSyn
  Proofs.SegStateProofs Proofs.SegStateInherit Proofs.LayoutProofs Proofs.FileSynProofs Proofs.ReadCorrect
  Proofs.WriteReadSpec Proofs.WriteReadBytes Proofs.WriteReadState Proofs.WriteReadHier
  Proofs.WriteReadData Proofs.WriteReadCalls Proofs.WriteRead Proofs.DefragRead.
Local Open Scope Z_scope.

(* ======================================================================== *)
(* (i) property dictionaries are well keyed                                   *)
(* ======================================================================== *)

Definition keyed (ps : alist prop) : Prop :=
  NoDup (map fst ps) /\ forall k p, In (k, p) ps -> k = p_name p.

Lemma keyed_nil : keyed [].
Proof. split; [constructor|intros k p []]. Qed.

Lemma keyed_aset p ps : keyed ps -> keyed (aset (p_name p) p ps).
Proof.
  intros [Hnd Hk]. split; [apply aset_keys_nodup; exact Hnd|].
  intros k q Hin. apply In_aset in Hin. destruct Hin as [[-> ->]|Hin]; [reflexivity|exact (Hk k q Hin)].
Qed.

Lemma keyed_fold ps : forall acc, keyed acc -> keyed (fold_left (fun acc p => aset (p_name p) p acc) ps acc).
Proof.
  induction ps as [|p ps IH]; intros acc H; [exact H|]. cbn [fold_left]. apply IH. apply keyed_aset. exact H.
Qed.

(* ---- a generic invariant of the per-object metadata over the metadata pass ---- *)

Lemma collect_props_origin : forall es acc k ps,
  In (k, ps) (collect_props es acc) -> In (k, ps) acc \/ exists x, In x es /\ e_props x = ps.
Proof.
  induction es as [|x es IH]; intros acc k ps H; cbn [collect_props] in H; [left; exact H|].
  apply IH in H. destruct H as [H|(y & Hy & Hps)].
  - destruct (e_props x) as [|q qs] eqn:Ep; [left; exact H|].
    apply In_aset in H. destruct H as [[_ ->]|H]; [|left; exact H].
    right. exists x. split; [left; reflexivity|exact Ep].
  - right. exists y. split; [right; exact Hy|exact Hps].
Qed.

Lemma update_ometa_props m o n f m' : update_ometa m o n f = Ok m' -> om_props m' = om_props m.
Proof.
  unfold update_ometa. cbv zeta.
  destruct (_ && _); [discriminate|].
  destruct (so_daqmx o) as [q|].
  - destruct (om_scalers m) as [st0|].
    + destruct (scaler_types_eqb st0 (scaler_types q)); [|discriminate]. intros H. injection H as <-. reflexivity.
    + intros H. injection H as <-. reflexivity.
  - intros H. injection H as <-. reflexivity.
Qed.

Section OmInv.
  (* P: a predicate on property dictionaries; Q: on the property lists a
     metadata block attaches to an object *)
  Variable P : alist prop -> Prop.
  Variable Q : list prop -> Prop.
  Hypothesis P_nil : P [].
  Hypothesis P_set : forall acc ps, P acc -> Q ps ->
                                    P (fold_left (fun acc p => aset (p_name p) p acc) ps acc).

  Definition om_all (om : alist ometa) : Prop := forall p m, In (p, m) om -> P (om_props m).

  Lemma get_ometa_all om k : om_all om -> P (om_props (get_ometa k om)).
  Proof.
    intros H. unfold get_ometa. destruct (alookup k om) as [m|] eqn:E; [|exact P_nil].
    apply (H k m). apply alookup_In. exact E.
  Qed.

  Lemma update_object_metadata_all : forall objs n f prev om prev' om',
    update_object_metadata objs n f prev om = Ok (prev', om') -> om_all om -> om_all om'.
  Proof.
    induction objs as [|o objs IH]; intros n f prev om prev' om' H Hom.
    - cbn [update_object_metadata] in H. injection H as _ <-. exact Hom.
    - cbn [update_object_metadata] in H.
      destruct (update_ometa (get_ometa (so_path o) om) o n f) as [m|e] eqn:Em; cbn [bind] in H; [|discriminate].
      apply (IH _ _ _ _ _ _ H). intros p m0 Hin. apply In_aset in Hin.
      destruct Hin as [[_ ->]|Hin]; [|exact (Hom p m0 Hin)].
      rewrite (update_ometa_props _ _ _ _ _ Em). apply get_ometa_all. exact Hom.
  Qed.

  Lemma update_object_properties_all : forall props om,
    (forall k ps, In (k, ps) props -> Q ps) -> om_all om -> om_all (update_object_properties props om).
  Proof.
    unfold update_object_properties.
    induction props as [|[k ps] props IH]; intros om HQ Hom; [exact Hom|].
    cbn [fold_left fst snd]. apply IH.
    - intros k0 ps0 Hin. apply (HQ k0 ps0). right. exact Hin.
    - intros p m Hin. apply In_aset in Hin. destruct Hin as [[_ ->]|Hin]; [|exact (Hom p m Hin)].
      cbn [set_props om_props]. apply P_set; [apply get_ometa_all; exact Hom|].
      apply (HQ k ps). left. reflexivity.
  Qed.

  Definition segs_props_ok (segs : list fseg) : Prop :=
    forall s es x, In s segs -> fs_meta s = Some es -> In x es -> Q (e_props x).

  Lemma read_segment_objects_props toc md prev ps objs props :
    (forall es x, md = Some es -> In x es -> Q (e_props x)) ->
    read_segment_objects toc md prev ps = Ok (objs, props) ->
    forall k l, In (k, l) props -> Q l.
  Proof.
    intros HQ H k l Hin. unfold read_segment_objects in H. destruct md as [es|].
    - cbv zeta in H. destruct (fold_entries _ prev _ es) as [ordered|e]; cbn [bind] in H; [|discriminate].
      injection H as _ <-. apply collect_props_origin in Hin. destruct Hin as [[]|(x & Hx & <-)].
      exact (HQ es x eq_refl Hx).
    - destruct ps as [l0|]; [|discriminate]. injection H as _ <-. destruct Hin.
  Qed.

  Lemma sm_loop_om_inv : forall segs w pos ps pi st stf,
    sm_loop segs w pos ps pi st = Ok stf ->
    segs_props_ok segs -> om_all (rs_om st) -> om_all (rs_om stf).
  Proof.
    induction segs as [|s r IH]; intros w pos ps pi st stf H HQ Hom.
    - rewrite sm_loop_nil in H. injection H as <-. exact Hom.
    - apply sm_loop_cons_inv in H.
      destruct H as (objs & props & idx & cache & nch & fin & po & om & Hro & Hcc & Hum & Hloop).
      apply (IH _ _ _ _ _ _ Hloop); cbn [rs_om].
      + intros s0 es x Hs0. apply (HQ s0 es x). right. exact Hs0.
      + apply update_object_properties_all.
        * apply (read_segment_objects_props _ _ _ _ _ _ (fun es x => HQ s es x (or_introl eq_refl)) Hro).
        * apply (update_object_metadata_all _ _ _ _ _ _ _ Hum). exact Hom.
  Qed.

  Theorem sm_run_om_inv segs w st :
    sm_run segs w = Ok st -> segs_props_ok segs -> om_all (rs_om st).
  Proof.
    unfold sm_run. intros H HQ. apply (sm_loop_om_inv _ _ _ _ _ _ _ H HQ). intros p m [].
  Qed.
End OmInv.

Theorem sm_run_keyed segs w st :
  sm_run segs w = Ok st -> om_all keyed (rs_om st).
Proof.
  intros H. apply (sm_run_om_inv keyed (fun _ => True) keyed_nil) with (segs := segs) (w := w).
  - intros acc ps Ha _. apply keyed_fold. exact Ha.
  - exact H.
  - intros s es x _ _ _. exact I.
Qed.

(* ---- from the per-object metadata to the hierarchy ---- *)

Lemma hier_scan_root : forall om root gprops gchans root' gprops' gchans',
  hier_scan om root gprops gchans = Ok (root', gprops', gchans') -> root' = root.
Proof.
  induction om as [|[pstr m] r IH]; intros root gprops gchans root' gprops' gchans' H.
  - cbn [hier_scan] in H. injection H as <- _ _. reflexivity.
  - rewrite hier_scan_cons in H.
    destruct (path_from_string pstr) as [e|[[g|] [c|]]]; try discriminate; exact (IH _ _ _ _ _ _ H).
Qed.

Lemma hier_scan_gprops (P : alist prop -> Prop) :
  forall om root gprops gchans root' gprops' gchans',
    hier_scan om root gprops gchans = Ok (root', gprops', gchans') ->
    (forall p m, In (p, m) om -> P (om_props m)) ->
    (forall k ps, In (k, ps) gprops -> P ps) ->
    forall k ps, In (k, ps) gprops' -> P ps.
Proof.
  induction om as [|[pstr m] r IH]; intros root gprops gchans root' gprops' gchans' H Hom Hacc.
  - cbn [hier_scan] in H. injection H as _ <- _. exact Hacc.
  - rewrite hier_scan_cons in H.
    assert (Hom' : forall p m0, In (p, m0) r -> P (om_props m0)) by (intros p m0 Hin; apply (Hom p m0); right; exact Hin).
    destruct (path_from_string pstr) as [e|[[g|] [c|]]]; try discriminate.
    + exact (IH _ _ _ _ _ _ H Hom' Hacc).
    + refine (IH _ _ _ _ _ _ H Hom' _). intros k ps Hin. apply In_aset in Hin.
      destruct Hin as [[_ ->]|Hin]; [apply (Hom pstr m); left; reflexivity|exact (Hacc k ps Hin)].
    + exact (IH _ _ _ _ _ _ H Hom' Hacc).
    + exact (IH _ _ _ _ _ _ H Hom' Hacc).
Qed.

Lemma groups_fold_inv (R : bytes * group -> Prop) : forall (rest : alist (list channel)) acc,
  Forall R acc ->
  (forall kv, In kv rest -> R (fst kv, mkGroup (fst kv) [] (chans_dict (snd kv)))) ->
  Forall R (fold_left (fun acc kv =>
                         match alookup (fst kv) acc with
                         | Some _ => acc
                         | None => acc ++ [(fst kv, mkGroup (fst kv) [] (chans_dict (snd kv)))]
                         end) rest acc).
Proof.
  induction rest as [|kv rest IH]; intros acc Hacc Hrest; [exact Hacc|].
  cbn [fold_left]. apply IH.
  - destruct (alookup (fst kv) acc); [exact Hacc|]. apply Forall_app. split; [exact Hacc|].
    constructor; [|constructor]. apply Hrest. left. reflexivity.
  - intros kv' Hin. apply Hrest. right. exact Hin.
Qed.

(* (iii) and the origin of root / group property dictionaries *)
Theorem build_hierarchy_groups (P : alist prop -> Prop) om h :
  P [] -> (forall p m, In (p, m) om -> P (om_props m)) ->
  build_hierarchy om = Ok h ->
  P (h_root h) /\
  Forall (fun kg => g_name (snd kg) = fst kg /\ P (g_props (snd kg))) (h_groups h).
Proof.
  intros Pnil Hom. unfold build_hierarchy. cbv zeta.
  destruct (hier_scan om _ [] []) as [[[root' gprops] gchans]|e] eqn:Hscan; cbn [bind]; [|discriminate].
  intros H. injection H as <-. cbn [h_root h_groups]. split.
  - rewrite (hier_scan_root _ _ _ _ _ _ _ Hscan).
    destruct (alookup [SB] om) as [m|] eqn:E; [|exact Pnil]. apply (Hom [SB] m). apply alookup_In. exact E.
  - apply groups_fold_inv.
    + apply Forall_map. apply Forall_forall. intros [k ps] Hin. cbn [fst snd g_name g_props]. split; [reflexivity|].
      refine (hier_scan_gprops P om _ [] [] root' gprops gchans Hscan Hom _ k ps Hin). intros k0 ps0 [].
    + intros kv _. cbn [fst snd g_name g_props]. split; [reflexivity|exact Pnil].
Qed.

Lemma build_hierarchy_chan_props (P : alist prop -> Prop) om h :
  (forall p m, In (p, m) om -> P (om_props m)) ->
  build_hierarchy om = Ok h ->
  forall ch, In ch (all_channels h) -> P (ch_props ch).
Proof.
  intros Hom Hh ch Hch. destruct (build_hierarchy_channels om h Hh ch Hch) as (pstr & m & Hin & _ & Heq).
  rewrite Heq. cbn [chan_of_om ch_props]. exact (Hom pstr m Hin).
Qed.

(* ======================================================================== *)
(* (ii) an untyped channel has length 0                                       *)
(* ======================================================================== *)

Lemma chan_values_not_mentioned p (chunks : list chunk) :
  (forall c kv, In c chunks -> In kv c -> fst kv <> p) -> chan_values p chunks = [].
Proof.
  intros H. unfold chan_values. induction chunks as [|c chunks IH]; [reflexivity|].
  cbn [flat_map]. rewrite IH by (intros c' kv Hc'; apply H; right; exact Hc'). rewrite app_nil_r.
  apply chunk_values_not_in. intros Hin. apply in_map_iff in Hin. destruct Hin as (kv & Hk & Hkv).
  exact (H c kv (or_introl eq_refl) Hkv Hk).
Qed.

(* no chunk holds data for the path of an untyped channel *)
Lemma untyped_channel_no_values h chunks ch :
  data_paths_are_channels h chunks -> channel_paths_distinct h ->
  In ch (all_channels h) -> ch_dtype ch = None -> chan_values (ch_path ch) chunks = [].
Proof.
  intros Hpaths Hdist Hch Hty. apply chan_values_not_mentioned. intros c kv Hc Hkv Hp.
  destruct (Hpaths c kv Hc Hkv) as (ch' & Hch' & Hp' & Hty').
  assert (E : ch' = ch).
  { unfold channel_paths_distinct in Hdist.
    assert (Hinj : forall (l : list channel), NoDup (map ch_path l) ->
                     forall a b, In a l -> In b l -> ch_path a = ch_path b -> a = b).
    { induction l as [|x l IH]; intros Hnd a b Ha Hb Hab; [destruct Ha|].
      cbn [map] in Hnd. inversion Hnd as [|y z Hnin Hnd']; subst.
      destruct Ha as [<-|Ha], Hb as [<-|Hb].
      - reflexivity.
      - exfalso. apply Hnin. rewrite Hab. apply in_map. exact Hb.
      - exfalso. apply Hnin. rewrite <- Hab. apply in_map. exact Ha.
      - exact (IH Hnd' a b Ha Hb Hab). }
    apply (Hinj _ Hdist); [exact Hch'|exact Hch|congruence]. }
  subst ch'. contradiction.
Qed.

Theorem untyped_channel_len0 segs w st h chunkss ch :
  sm_run segs w = Ok st ->
  build_hierarchy (rs_om st) = Ok h ->
  segs_encode (rs_segments st) segs chunkss ->
  om_paths_canonical (rs_om st) ->
  typed_objects_are_channels (rs_om st) ->
  In ch (all_channels h) -> ch_dtype ch = None -> ch_len ch = 0.
Proof.
  intros Hrun Hh Henc Hcanon Hshape Hch Hty.
  destruct (chan_from_om_canonical _ ch Hcanon (build_hierarchy_channels _ _ Hh ch Hch))
    as (m & Hin & _ & _ & Hlen).
  destruct (sm_run_trace segs w st Hrun) as (_ & _ & Hnd & _).
  pose proof (alookup_in_nodup _ m (rs_om st) Hnd Hin) as Hlk.
  pose proof (om_len_counts_values segs w st chunkss (ch_path ch) Hrun Henc) as Hc.
  unfold get_ometa in Hc. rewrite Hlk in Hc. rewrite Hlen, Hc.
  rewrite (untyped_channel_no_values h (concat chunkss) ch); [reflexivity| | |exact Hch|exact Hty].
  - exact (data_paths_are_channels_ser segs w st h chunkss Hrun Hh Henc Hcanon Hshape).
  - exact (channel_paths_distinct_ser _ h Hh Hcanon).
Qed.

(* every channel's length is the number of values the chunks hold for it *)
Theorem channel_len_counts segs w st h chunkss ch :
  sm_run segs w = Ok st ->
  build_hierarchy (rs_om st) = Ok h ->
  segs_encode (rs_segments st) segs chunkss ->
  om_paths_canonical (rs_om st) ->
  In ch (all_channels h) ->
  ch_len ch = Z.of_nat (length (chan_values (ch_path ch) (concat chunkss))).
Proof.
  intros Hrun Hh Henc Hcanon Hch.
  destruct (chan_from_om_canonical _ ch Hcanon (build_hierarchy_channels _ _ Hh ch Hch))
    as (m & Hin & _ & _ & Hlen).
  destruct (sm_run_trace segs w st Hrun) as (_ & _ & Hnd & _).
  pose proof (alookup_in_nodup _ m (rs_om st) Hnd Hin) as Hlk.
  pose proof (om_len_counts_values segs w st chunkss (ch_path ch) Hrun Henc) as Hc.
  unfold get_ometa in Hc. rewrite Hlk in Hc. rewrite Hlen. exact Hc.
Qed.

(* ======================================================================== *)
(* a recorded data type is never Void                                         *)
(* ======================================================================== *)

Definition nonvoid (o : sobj) : Prop := so_dtype o <> Some T_VOID.

Lemma new_object_nonvoid p i o : new_object p i = Ok o -> nonvoid o.
Proof.
  unfold new_object, nonvoid. intros H.
  destruct i as [| |lf dt dim n total|kind dt dim n scalers widths].
  - injection H as <-. discriminate.
  - injection H as <-. discriminate.
  - destruct (tds_size dt) as [sz|] eqn:Esz; [|discriminate].
    destruct (_ && _) eqn:Eand; [discriminate|].
    destruct (negb (dim =? 1)); [discriminate|].
    injection H as <-. cbn [so_dtype]. intros E. injection E as ->.
    vm_compute in Esz. injection Esz as <-. vm_compute in Eand. discriminate.
  - destruct (tds_size dt) as [sz|] eqn:Esz; [|discriminate].
    destruct (negb (dim =? 1)); [discriminate|].
    destruct (negb (forallb _ scalers)); [discriminate|].
    destruct (_ && _) eqn:Eand; [discriminate|].
    injection H as <-. cbn [so_dtype]. intros E. injection E as ->.
    change (T_VOID =? T_DAQMX) with false in Eand. cbn [negb andb] in Eand.
    destruct scalers as [|s [|s' r]]; try discriminate.
    unfold daqmx_type in Eand.
    repeat match type of Eand with
           | context [if ?c then _ else _] => destruct c; [vm_compute in Eand; discriminate|]
           end.
    discriminate.
Qed.

Lemma sm_loop_nonvoid : forall segs w pos ps pi st stf,
    sm_loop segs w pos ps pi st = Ok stf ->
    (forall p po, alookup p (rs_prev_objs st) = Some po -> nonvoid po) ->
    (forall l, ps = Some l -> Forall nonvoid l) ->
    (forall g, In g (rs_segments st) -> Forall nonvoid (sg_objs g)) ->
    forall g, In g (rs_segments stf) -> Forall nonvoid (sg_objs g).
Proof.
  induction segs as [|s r IH]; intros w pos ps pi st stf H Hprev Hps Hsegs.
  - rewrite sm_loop_nil in H. injection H as <-. exact Hsegs.
  - apply sm_loop_cons_inv in H.
    destruct H as (objs & props & idx & cache & nch & fin & po & om & Hro & Hcc & Hum & Hloop).
    assert (Hobjs : Forall nonvoid objs).
    { apply (read_segment_objects_inv nonvoid nonvoid _ _ _ _ _ _) with (6 := Hro).
      - intros o Ho. exact Ho.
      - intros o b Ho. destruct o. exact Ho.
      - intros p i o. apply new_object_nonvoid.
      - exact Hps.
      - exact Hprev. }
    apply (IH _ _ _ _ _ _ Hloop); cbn [rs_prev_objs rs_segments].
    + apply (update_object_metadata_values nonvoid _ _ _ _ _ _ _ Hum Hprev Hobjs).
    + intros l Hl. injection Hl as <-. exact Hobjs.
    + intros g Hg. apply in_app_or in Hg. destruct Hg as [Hg|[<-|[]]]; [exact (Hsegs g Hg)|exact Hobjs].
Qed.

Theorem sm_run_dtype_nonvoid segs w st :
  sm_run segs w = Ok st ->
  forall p m, In (p, m) (rs_om st) -> om_dtype m <> Some T_VOID.
Proof.
  intros Hrun p m Hin E.
  destruct (sm_run_trace segs w st Hrun) as (_ & _ & Hnd & _).
  pose proof (alookup_in_nodup p m (rs_om st) Hnd Hin) as Hlk.
  assert (Horigin : om_dtype_has_origin st).
  { unfold sm_run in Hrun. apply (sm_loop_om_dtype_origin _ _ _ _ _ _ _ Hrun). intros p0 m0 Hm0. discriminate. }
  destruct (Horigin p m Hlk) as (g & o & Hg & Ho & Hso); [rewrite E; discriminate|].
  assert (HF : Forall nonvoid (sg_objs g)).
  { unfold sm_run in Hrun. apply (sm_loop_nonvoid _ _ _ _ _ _ _ Hrun); cbn [rstate0 rs_prev_objs rs_segments].
    - intros p0 po Hp. discriminate.
    - intros l Hl. discriminate.
    - intros g0 [].
    - exact Hg. }
  rewrite Forall_forall in HF. apply (HF o Ho). rewrite Hso. exact E.
Qed.

(* ======================================================================== *)
(* the source's file status is "complete"                                     *)
(* ======================================================================== *)

Lemma seg_encodes_final_none g data chunks :
  seg_encodes g data chunks ->
  calculate_chunks (sg_toc g) (sg_incomplete g) (sg_objs g) (blen data) = Ok (sg_nchunks g, sg_final g) ->
  sg_final g = None.
Proof.
  intros Henc Hcc.
  destruct Henc as [Hd Hdata | css Hlay Hpos Hnd Hok Hds Hdata
                    | nv m rows Hlay Hne Hnv Hm Hobjs Hsz Hnd Hrows Hlen Hdata].
  - subst data. unfold calculate_chunks, chunk_size, have_daqmx in Hcc. rewrite Hd in Hcc.
    cbn in Hcc. injection Hcc as _ Hf. symmetry. exact Hf.
  - subst data.
    pose proof (seg_layout_contig_chunk_size g Hlay) as Hcs.
    rewrite (enc_chunks_blen _ _ css Hds) in Hcc.
    rewrite (calculate_chunks_exact _ _ _ _ _ Hcs Hpos) in Hcc by lia.
    injection Hcc as _ Hf. symmetry. exact Hf.
  - subst data.
    pose proof (seg_layout_interleaved_chunk_size g Hlay) as Hcs.
    pose proof (width_pos _ Hne Hsz) as Hw.
    pose proof (interleaved_chunk_bytes nv _ Hobjs) as Hcb.
    rewrite (enc_rows_blen _ _ rows Hrows), Hlen in Hcc.
    replace (nv * m * zsum (map size_or0 (data_objs (sg_objs g))))
      with (m * zsum (map so_dsize (data_objs (sg_objs g)))) in Hcc by nia.
    rewrite (calculate_chunks_exact _ _ _ _ _ Hcs) in Hcc by nia.
    injection Hcc as _ Hf. symmetry. exact Hf.
Qed.

Lemma segs_encode_final : forall gs segs chunkss pos,
  segs_at pos segs gs -> segs_encode gs segs chunkss -> Forall (fun g => sg_final g = None) gs.
Proof.
  induction gs as [|g gs IH]; intros segs chunkss pos Hat Henc; [constructor|].
  inversion Henc as [|g' gs' s r cs css Hcs Henc']; subst.
  inversion Hat as [|pos' s' r' g' gs' Hg Hat']; subst.
  constructor; [|exact (IH _ _ _ Hat' Henc')].
  destruct Hg as (_ & _ & _ & _ & _ & Hcc). exact (seg_encodes_final_none g _ cs Hcs Hcc).
Qed.

Theorem source_status_complete segs w st chunkss :
  sm_run segs w = Ok st -> segs_encode (rs_segments st) segs chunkss -> obs_status st = [TZ 0; TZ 0].
Proof.
  intros Hrun Henc. pose proof (sm_segment_positions segs w st Hrun) as Hat.
  apply obs_status_complete; [exact (segs_at_complete _ _ _ Hat)|exact (segs_encode_final _ _ _ _ Hat Henc)].
Qed.

(* ======================================================================== *)
(* the destination's observation, computed from the source's hierarchy        *)
(* ======================================================================== *)

(* what defragment does to a channel's data type: kept whenever the channel
   holds a value or the type has a NumPy dtype; an EMPTY channel of strings,
   of raw timestamps (or of any other type without a NumPy dtype) has an array
   whose type cannot be determined - it is written without raw data and reads
   back untyped *)
Definition norm_dtype (t : option Z) (n : Z) : option Z :=
  match t with
  | Some ty => if (n =? 0) && negb (has_nptype ty) then None else Some ty
  | None => None
  end.

Definition norm_chan (ch : channel) : channel :=
  mkChan (ch_group ch) (ch_name ch) (ch_path ch) (norm_dtype (ch_dtype ch) (ch_len ch))
         (ch_scalers ch) (ch_len ch) (ch_props ch).

Definition norm_group (g : group) : group :=
  mkGroup (g_name g) (g_props g) (map (fun kc => (fst kc, norm_chan (snd kc))) (g_chans g)).

Definition norm_hier (h : hierarchy) : hierarchy :=
  mkHier (h_root h) (map (fun kg => (fst kg, norm_group (snd kg))) (h_groups h)).

(* the observation of the destination: version [v]; the source's hierarchy
   with [norm_dtype] applied to every channel; every channel's values (none
   for an untyped channel); status complete *)
Definition defrag_view (v : Z) (h : hierarchy) (chunks : list chunk) : list tok :=
  TZ v :: obs_hierarchy (norm_hier h) (fun c => obs_cdata (expected_data chunks c)) ++ [TZ 0; TZ 0].

(* ---- re-typing of property values ---- *)

Definition map_props (f : prop -> prop) (c : dcontent) : dcontent :=
  mkDContent (map f (d_root_props c))
    (map (fun G => mkDGroup (dg_name G) (map f (dg_props G))
                     (map (fun ch => mkDChan (dc_name ch) (dc_type ch) (dc_vals ch) (map f (dc_props ch)))
                          (dg_chans G)))
         (d_groups c)).

Lemma map_props_id c : map_props (fun p => p) c = c.
Proof.
  destruct c as [rp gs]. unfold map_props. cbn [d_root_props d_groups]. rewrite map_id. f_equal.
  rewrite <- (map_id gs) at 2. apply map_ext. intros [g ps chs]. cbn [dg_name dg_props dg_chans].
  rewrite map_id. f_equal. rewrite <- (map_id chs) at 2. apply map_ext. intros [n t vs cps].
  cbn [dc_name dc_type dc_vals dc_props]. rewrite map_id. reflexivity.
Qed.

(* [f] keeps a property's name and what the reader shows of its value *)
Definition same_shown (f : prop -> prop) (p : prop) : Prop :=
  p_name (f p) = p_name p /\
  obs_prop_value (p_type (f p)) (p_val (f p)) = obs_prop_value (p_type p) (p_val p).

Definition props_ok (f : prop -> prop) (ps : alist prop) : Prop :=
  keyed ps /\ forall k p, In (k, p) ps -> same_shown f p.

Lemma merge_props_fresh : forall (l : list prop) acc,
  NoDup (map fst acc ++ map p_name l) ->
  merge_props l acc = acc ++ map (fun p => (p_name p, p)) l.
Proof.
  unfold merge_props. induction l as [|x l IH]; intros acc Hnd.
  - cbn [fold_left map]. rewrite app_nil_r. reflexivity.
  - cbn [fold_left map]. cbn [map] in Hnd.
    rewrite aset_fresh.
    2:{ apply NoDup_remove_2 in Hnd. intros Hin. apply Hnd. apply in_or_app. left. exact Hin. }
    rewrite IH.
    + rewrite <- app_assoc. reflexivity.
    + rewrite map_app. cbn [map fst]. rewrite <- app_assoc. exact Hnd.
Qed.

Lemma merge_props_of_dict f ps :
  props_ok f ps ->
  merge_props (map f (map snd ps)) [] = map (fun kv => (fst kv, f (snd kv))) ps.
Proof.
  intros [[Hnd Hk] Hf]. rewrite merge_props_fresh.
  - cbn [app]. rewrite !map_map. apply map_ext_in. intros [k p] Hin. cbn [fst snd].
    rewrite (proj1 (Hf k p Hin)), <- (Hk k p Hin). reflexivity.
  - cbn [map app]. rewrite !map_map.
    rewrite (map_ext_in _ fst); [exact Hnd|]. intros [k p] Hin. cbn [fst snd].
    rewrite (proj1 (Hf k p Hin)), <- (Hk k p Hin). reflexivity.
Qed.

Lemma obs_props_of_dict f ps :
  props_ok f ps -> obs_props (merge_props (map f (map snd ps)) []) = obs_props ps.
Proof.
  intros H. rewrite (merge_props_of_dict f ps H). destruct H as [_ Hf].
  unfold obs_props. rewrite map_length. f_equal.
  rewrite flat_map_map. apply flat_map_ext_in'. intros [k p] Hin. cbn [fst snd].
  rewrite (proj2 (Hf k p Hin)). reflexivity.
Qed.

(* ---- what the proof needs to know about the source ---- *)

Definition chan_facts (f : prop -> prop) (chunks : list chunk) (g : bytes) (kc : bytes * channel) : Prop :=
  let ch := snd kc in
  ch_name ch = fst kc /\ ch_group ch = g /\ ch_path ch = chan_path g (fst kc) /\
  props_ok f (ch_props ch) /\
  ch_len ch = Z.of_nat (length (chan_values (ch_path ch) chunks)) /\
  ch_dtype ch <> Some T_VOID /\
  (ch_dtype ch = None -> chan_values (ch_path ch) chunks = []).

Definition group_facts (f : prop -> prop) (chunks : list chunk) (kg : bytes * group) : Prop :=
  g_name (snd kg) = fst kg /\ props_ok f (g_props (snd kg)) /\
  Forall (chan_facts f chunks (fst kg)) (g_chans (snd kg)).

Definition source_facts (f : prop -> prop) (h : hierarchy) (chunks : list chunk) : Prop :=
  props_ok f (h_root h) /\ Forall (group_facts f chunks) (h_groups h).

Lemma has_nptype_nonvoid ty : has_nptype ty = true -> ty <> T_VOID.
Proof. intros H E. subst ty. vm_compute in H. discriminate. Qed.

Lemma defrag_chan_tokens f chunks g kc :
  chan_facts f chunks g kc ->
  let dch := mkDChan (dc_name (dchan_of_read chunks (snd kc))) (dc_type (dchan_of_read chunks (snd kc)))
                     (dc_vals (dchan_of_read chunks (snd kc)))
                     (map f (dc_props (dchan_of_read chunks (snd kc)))) in
  obs_channel_meta (hchan_of g dch) ++ obs_cdata (chan_data_of dch) =
  obs_channel_meta (norm_chan (snd kc)) ++ obs_cdata (expected_data chunks (norm_chan (snd kc))).
Proof.
  destruct kc as [n ch]. unfold chan_facts. cbn [fst snd]. intros (Hn & Hg & Hp & Hps & Hlen & Hnv & Hunt). cbv zeta.
  unfold dchan_of_read. cbn [dc_name dc_type dc_vals dc_props].
  set (vals := match ch_dtype ch with None => [] | Some _ => chan_values (ch_path ch) chunks end).
  assert (Hvlen : Z.of_nat (length vals) = ch_len ch).
  { unfold vals. destruct (ch_dtype ch) as [ty|] eqn:Et; [symmetry; exact Hlen|].
    rewrite Hlen, (Hunt eq_refl). reflexivity. }
  assert (Hdt : dtype_opt (mkDChan (ch_name ch) (ch_dtype ch) vals (map f (map snd (ch_props ch)))) =
                norm_dtype (ch_dtype ch) (ch_len ch)).
  { unfold dtype_opt, defrag_type, norm_dtype. cbn [dc_type dc_vals].
    destruct (ch_dtype ch) as [ty|] eqn:Et; [|reflexivity].
    assert (Hty : (ty =? T_VOID) = false) by (apply Z.eqb_neq; intros E; apply Hnv; rewrite E; reflexivity).
    destruct vals as [|x r] eqn:Ev.
    - cbn [length Z.of_nat] in Hvlen. rewrite <- Hvlen. cbn [Z.eqb andb].
      destruct (has_nptype ty) eqn:Enp; cbn [negb]; [rewrite Hty; reflexivity|reflexivity].
    - rewrite Hty. replace (ch_len ch =? 0) with false; [reflexivity|].
      symmetry. apply Z.eqb_neq. rewrite <- Hvlen. cbn [length]. lia. }
  unfold obs_channel_meta, chan_data_of, expected_data, hchan_of, norm_chan.
  cbn [ch_name ch_group ch_path ch_dtype ch_len ch_props dc_name dc_vals dc_props].
  rewrite Hdt, Hvlen, Hg, Hn, <- Hp, (obs_props_of_dict f _ Hps).
  f_equal. destruct (norm_dtype (ch_dtype ch) (ch_len ch)) as [t|] eqn:En; [|reflexivity].
  unfold vals. destruct (ch_dtype ch); [reflexivity|discriminate En].
Qed.

Theorem defrag_tokens_view f v h chunks :
  source_facts f h chunks ->
  defrag_tokens v (map_props f (content_of_read h chunks)) = defrag_view v h chunks.
Proof.
  intros [Hroot Hgroups]. unfold defrag_tokens, defrag_view, obs_hierarchy, map_props, content_of_read.
  cbn [d_root_props d_groups norm_hier h_root h_groups].
  rewrite (obs_props_of_dict f _ Hroot), !map_length. f_equal. f_equal. f_equal. f_equal.
  rewrite !flat_map_map. apply flat_map_ext_in'. intros kg Hkg.
  rewrite Forall_forall in Hgroups. destruct (Hgroups kg Hkg) as (Hgn & Hgp & Hchans).
  cbn [dg_name dg_props dg_chans fst snd norm_group g_name g_props g_chans].
  rewrite (obs_props_of_dict f _ Hgp), !map_length, Hgn. f_equal. f_equal. f_equal.
  rewrite !flat_map_map. apply flat_map_ext_in'. intros kc Hkc.
  rewrite Forall_forall in Hchans. cbn [snd].
  exact (defrag_chan_tokens f chunks (fst kg) kc (Hchans kc Hkc)).
Qed.

(* ======================================================================== *)
(* the facts hold for every file under read_correct's hypotheses              *)
(* ======================================================================== *)

Definition props_wf (ps : alist prop) : Prop :=
  keyed ps /\ forall k p, In (k, p) ps -> wf_prop p = true.

Lemma In_fold_aset ps : forall (acc : alist prop) k p,
  In (k, p) (fold_left (fun acc p => aset (p_name p) p acc) ps acc) -> In (k, p) acc \/ In p ps.
Proof.
  induction ps as [|q ps IH]; intros acc k p H; [left; exact H|].
  cbn [fold_left] in H. apply IH in H. destruct H as [H|H]; [|right; right; exact H].
  apply In_aset in H. destruct H as [[_ ->]|H]; [right; left; reflexivity|left; exact H].
Qed.

Theorem sm_run_props_wf segs w st :
  wf_file segs -> sm_run segs w = Ok st -> om_all props_wf (rs_om st).
Proof.
  intros Hwf H.
  apply (sm_run_om_inv props_wf (fun l => forallb wf_prop l = true)) with (segs := segs) (w := w).
  - split; [exact keyed_nil|intros k p []].
  - intros acc ps [Hk Hw] Hps. split; [apply keyed_fold; exact Hk|].
    intros k p Hin. apply In_fold_aset in Hin. destruct Hin as [Hin|Hin]; [exact (Hw k p Hin)|].
    rewrite forallb_forall in Hps. exact (Hps p Hin).
  - exact H.
  - intros s es x Hs Hes Hx. unfold wf_file in Hwf. rewrite forallb_forall in Hwf.
    pose proof (proj1 (wf_fseg_spec s) (Hwf s Hs)) as (_ & _ & _ & He). rewrite Hes in He.
    destruct He as [_ He]. unfold wf_metadata in He. apply andb_prop in He. destruct He as [_ He].
    rewrite forallb_forall in He. specialize (He x Hx). unfold wf_entry in He.
    rewrite !andb_true_iff in He. apply He.
Qed.

Theorem source_facts_ser f segs st h chunkss :
  wf_file segs ->
  sm_run segs false = Ok st ->
  build_hierarchy (rs_om st) = Ok h ->
  segs_encode (rs_segments st) segs chunkss ->
  om_paths_canonical (rs_om st) ->
  typed_objects_are_channels (rs_om st) ->
  (forall p, wf_prop p = true -> same_shown f p) ->
  source_facts f h (concat chunkss).
Proof.
  intros Hwf Hrun Hh Henc Hcanon Hshape Hf.
  pose proof (sm_run_props_wf segs false st Hwf Hrun) as Hom.
  assert (Hok : forall ps, props_wf ps -> props_ok f ps).
  { intros ps [Hk Hw]. split; [exact Hk|]. intros k p Hin. apply Hf. exact (Hw k p Hin). }
  assert (Hnil : props_wf []) by (split; [exact keyed_nil|intros k p []]).
  destruct (build_hierarchy_groups props_wf _ h Hnil Hom Hh) as [Hroot Hgroups].
  destruct (build_hierarchy_structure _ h Hh) as [_ Hstruct].
  pose proof (data_paths_are_channels_ser segs false st h chunkss Hrun Hh Henc Hcanon Hshape) as Hpaths.
  pose proof (channel_paths_distinct_ser _ h Hh Hcanon) as Hdist.
  split; [exact (Hok _ Hroot)|].
  apply Forall_forall. intros kg Hkg. rewrite Forall_forall in Hgroups, Hstruct.
  destruct (Hgroups kg Hkg) as [Hgn Hgp]. destruct (Hstruct kg Hkg) as [_ Hchans].
  split; [exact Hgn|]. split; [exact (Hok _ Hgp)|].
  apply Forall_forall. intros [n ch] Hkc. destruct (Hchans n ch Hkc) as (Hn & Hg & Hfrom).
  assert (Hch : In ch (all_channels h)).
  { unfold all_channels. apply in_flat_map. exists kg. split; [exact Hkg|].
    apply in_map_iff. exists (n, ch). split; [reflexivity|exact Hkc]. }
  unfold chan_facts. cbn [fst snd]. split; [exact Hn|]. split; [exact Hg|].
  destruct Hfrom as (pstr & m & Hin & Hparse & Heq). split; [|split; [|split; [|split]]].
  - rewrite Heq. cbn [chan_of_om ch_path]. rewrite Hg, Hn. apply pts_chan.
  - apply Hok. apply (build_hierarchy_chan_props props_wf _ h Hom Hh ch Hch).
  - exact (channel_len_counts segs false st h chunkss ch Hrun Hh Henc Hcanon Hch).
  - rewrite Heq. cbn [chan_of_om ch_dtype]. exact (sm_run_dtype_nonvoid segs false st Hrun pstr m Hin).
  - intros Hty. exact (untyped_channel_no_values h (concat chunkss) ch Hpaths Hdist Hch Hty).
Qed.

(* ======================================================================== *)
(* property values as Python objects: what defragment hands to the writer      *)
(* ======================================================================== *)

(* TdmsFile(...).properties holds Python values: int for the eight integer
   types, float for the four floating-point types (a single is widened),
   bool, str, TdmsTimestamp (raw_timestamps=True).  RootObject / GroupObject /
   ChannelObject pass them through _to_tdms_value: an int becomes Int32 /
   Int64 / Uint64 by magnitude (to_int_property_value, translated from the
   source in Gen/PyFuncsWriter.v), a float DoubleFloat, a bool Boolean, a str
   String, a TdmsTimestamp is written as it is.  [py_prop] is that Python
   value in the vocabulary of Model/Writer.v's front end ([pyprop]); the case
   split is the one of Reader.obs_prop_value. *)
Definition py_prop (p : prop) : pyprop :=
  let ty := p_type p in
  let v := p_val p in
  if (1 <=? ty) && (ty <=? 4) then PPInt (p_name p) (s_dec LE v)
  else if (5 <=? ty) && (ty <=? 8) then PPInt (p_name p) (u_dec LE v)
  else if (ty =? 9) || (ty =? 0x19) then
    PPTyped (mkProp (p_name p) 10 (le_enc 8 (f32_to_f64_bits (u_dec LE v))))
  else if (ty =? 10) || (ty =? 0x1A) then PPTyped (mkProp (p_name p) 10 v)
  else if ty =? T_BOOL then PPTyped (mkProp (p_name p) T_BOOL [if u_dec LE v =? 0 then x00 else x01])
  else PPTyped p.

(* the typed property the writer writes for it; the fall-back is never taken
   for a property read from a file ([retype_prop_lowers]) *)
Definition retype_prop (p : prop) : prop :=
  match lower_prop (py_prop p) with Ok q => q | Err _ => p end.

Lemma s_dec_range e l :
  (0 < length l)%nat ->
  - (256 ^ Z.of_nat (length l) / 2) <= s_dec e l < 256 ^ Z.of_nat (length l) / 2.
Proof.
  intros Hn. unfold s_dec, s_of_u.
  pose proof (u_dec_range e l) as Hu. pose proof (pow256_even _ Hn) as Hev.
  destruct (u_dec e l <? 256 ^ Z.of_nat (length l) / 2) eqn:E; lia.
Qed.

Lemma blen_length (l : bytes) n : blen l = Z.of_nat n -> length l = n.
Proof. unfold blen. lia. Qed.

Ltac obs_int := unfold obs_prop_value;
  cbn [Z.leb Z.compare Pos.compare Pos.compare_cont andb orb Z.eqb Pos.eqb].

Lemma int_prop_shown n v :
  - 2 ^ 63 <= v < 2 ^ 64 ->
  exists q, int_prop n v = Ok q /\ p_name q = n
            /\ wf_prop (mkProp n (p_type q) (p_val q)) = is_u32 (blen n)
            /\ obs_prop_value (p_type q) (p_val q) = [TZ 0; TZ v].
Proof.
  intros Hv. destruct (int_prop_roundtrip_lemma n v Hv) as (q & Hq & Hn & Hl).
  exists q. split; [exact Hq|]. split; [exact Hn|].
  destruct (fst (to_int_property_value v)); cbn [ctor_layout] in Hl; destruct Hl as (Ht & Hlen & Hun);
    rewrite Ht; unfold wf_prop, prop_val_ok, blen; cbn [p_name p_type p_val]; rewrite Hlen;
    unfold unpack_int in Hun;
    (split; [generalize (is_u32 (Z.of_nat (length n))); intros b; vm_compute; destruct b; reflexivity
            |obs_int; rewrite Hun; reflexivity]).
Qed.

Lemma wf_prop_inv p :
  wf_prop p = true ->
  is_u32 (blen (p_name p)) = true /\ readable_prop_type (p_type p) = true /\
  prop_val_ok (p_type p) (p_val p) = true.
Proof. unfold wf_prop. rewrite !andb_true_iff. tauto. Qed.

Lemma pow256_8 : 256 ^ Z.of_nat 8 = 18446744073709551616. Proof. reflexivity. Qed.
Lemma pow256_4 : 256 ^ Z.of_nat 4 = 4294967296. Proof. reflexivity. Qed.
Lemma pow256_2 : 256 ^ Z.of_nat 2 = 65536. Proof. reflexivity. Qed.
Lemma pow256_1 : 256 ^ Z.of_nat 1 = 256. Proof. reflexivity. Qed.


(* the integer a property of an integer type holds fits 64 bits *)
Lemma wf_int_value p :
  wf_prop p = true ->
  ((1 <=? p_type p) && (p_type p <=? 4) = true -> - 9223372036854775808 <= s_dec LE (p_val p) < 9223372036854775808) /\
  ((5 <=? p_type p) && (p_type p <=? 8) = true -> 0 <= u_dec LE (p_val p) < 18446744073709551616).
Proof.
  intros H. destruct (wf_prop_inv p H) as (_ & _ & Hv). unfold prop_val_ok in Hv.
  assert (Hsz : forall k : nat, length (p_val p) = k -> (k = 1 \/ k = 2 \/ k = 4 \/ k = 8)%nat ->
                 - 9223372036854775808 <= s_dec LE (p_val p) < 9223372036854775808 /\
                 0 <= u_dec LE (p_val p) < 18446744073709551616).
  { intros k Hk Hc. pose proof (s_dec_range LE (p_val p)) as Hs. pose proof (u_dec_range LE (p_val p)) as Hu.
    rewrite Hk in Hs, Hu. specialize (Hs ltac:(lia)).
    destruct Hc as [ -> | [ -> | [ -> | -> ] ] ];
      rewrite ?pow256_8, ?pow256_4, ?pow256_2, ?pow256_1 in Hs, Hu; lia. }
  split; intros Hr.
  - assert (Hc : p_type p = 1 \/ p_type p = 2 \/ p_type p = 3 \/ p_type p = 4) by lia.
    destruct Hc as [E|[E|[E|E]]]; rewrite E in Hv;
      [change (blen (p_val p) =? 1 = true) in Hv|change (blen (p_val p) =? 2 = true) in Hv
      |change (blen (p_val p) =? 4 = true) in Hv|change (blen (p_val p) =? 8 = true) in Hv];
      apply Z.eqb_eq in Hv; unfold blen in Hv.
    + apply (Hsz 1%nat); lia.
    + apply (Hsz 2%nat); lia.
    + apply (Hsz 4%nat); lia.
    + apply (Hsz 8%nat); lia.
  - assert (Hc : p_type p = 5 \/ p_type p = 6 \/ p_type p = 7 \/ p_type p = 8) by lia.
    destruct Hc as [E|[E|[E|E]]]; rewrite E in Hv;
      [change (blen (p_val p) =? 1 = true) in Hv|change (blen (p_val p) =? 2 = true) in Hv
      |change (blen (p_val p) =? 4 = true) in Hv|change (blen (p_val p) =? 8 = true) in Hv];
      apply Z.eqb_eq in Hv; unfold blen in Hv.
    + apply (Hsz 1%nat); lia.
    + apply (Hsz 2%nat); lia.
    + apply (Hsz 4%nat); lia.
    + apply (Hsz 8%nat); lia.
Qed.

(* the writer accepts the Python value of every property read from a file ... *)
Theorem retype_prop_lowers p :
  wf_prop p = true -> lower_prop (py_prop p) = Ok (retype_prop p).
Proof.
  intros H. unfold retype_prop. destruct (wf_int_value p H) as [Hs Hu]. unfold py_prop. cbv zeta.
  destruct ((1 <=? p_type p) && (p_type p <=? 4)) eqn:E1.
  { cbn [lower_prop].
    destruct (int_prop_shown (p_name p) (s_dec LE (p_val p))) as (q & Hq & _);
      [specialize (Hs eq_refl); change (2 ^ 63) with 9223372036854775808; change (2 ^ 64) with 18446744073709551616; lia|].
    rewrite Hq. reflexivity. }
  destruct ((5 <=? p_type p) && (p_type p <=? 8)) eqn:E2.
  { cbn [lower_prop].
    destruct (int_prop_shown (p_name p) (u_dec LE (p_val p))) as (q & Hq & _);
      [specialize (Hu eq_refl); change (2 ^ 63) with 9223372036854775808; change (2 ^ 64) with 18446744073709551616; lia|].
    rewrite Hq. reflexivity. }
  destruct ((p_type p =? 9) || (p_type p =? 25)); [reflexivity|].
  destruct ((p_type p =? 10) || (p_type p =? 26)); [reflexivity|].
  destruct (p_type p =? T_BOOL); reflexivity.
Qed.

Ltac big_pows := change (2 ^ 63) with 9223372036854775808; change (2 ^ 64) with 18446744073709551616.

(* ... the re-typed property has the same name, shows the same value, and is
   again well formed *)
Theorem retype_prop_shown p : wf_prop p = true -> same_shown retype_prop p /\ wf_prop (retype_prop p) = true.
Proof.
  intros H. destruct (wf_int_value p H) as [Hs Hu]. destruct (wf_prop_inv p H) as (Hname & Hread & Hval).
  unfold same_shown, retype_prop, py_prop. cbv zeta.
  destruct ((1 <=? p_type p) && (p_type p <=? 4)) eqn:E1.
  { cbn [lower_prop].
    destruct (int_prop_shown (p_name p) (s_dec LE (p_val p))) as (q & Hq & Hn & Hw & Ho);
      [specialize (Hs eq_refl); big_pows; lia|].
    rewrite Hq. split; [split; [exact Hn|]|].
    - rewrite Ho. unfold obs_prop_value. rewrite E1. reflexivity.
    - destruct q as [qn qt qv]. cbn [p_name p_type p_val] in *. subst qn. rewrite Hw. exact Hname. }
  destruct ((5 <=? p_type p) && (p_type p <=? 8)) eqn:E2.
  { cbn [lower_prop].
    destruct (int_prop_shown (p_name p) (u_dec LE (p_val p))) as (q & Hq & Hn & Hw & Ho);
      [specialize (Hu eq_refl); big_pows; lia|].
    rewrite Hq. split; [split; [exact Hn|]|].
    - rewrite Ho. unfold obs_prop_value. rewrite E1, E2. reflexivity.
    - destruct q as [qn qt qv]. cbn [p_name p_type p_val] in *. subst qn. rewrite Hw. exact Hname. }
  destruct ((p_type p =? 9) || (p_type p =? 25)) eqn:E3.
  { cbn [lower_prop p_name p_type p_val]. split; [split; [reflexivity|]|].
    - unfold obs_prop_value at 2. rewrite E1, E2, E3. reflexivity.
    - unfold wf_prop. cbn [p_name p_type p_val]. rewrite Hname. unfold prop_val_ok, blen.
      rewrite le_enc_length. reflexivity. }
  destruct ((p_type p =? 10) || (p_type p =? 26)) eqn:E4.
  { cbn [lower_prop p_name p_type p_val]. split; [split; [reflexivity|]|].
    - unfold obs_prop_value at 2. rewrite E1, E2, E3, E4. reflexivity.
    - unfold wf_prop. cbn [p_name p_type p_val]. rewrite Hname.
      unfold prop_val_ok in Hval |- *.
      assert (Hc : p_type p = 10 \/ p_type p = 26) by lia.
      destruct Hc as [E|E]; rewrite E in Hval; exact Hval. }
  destruct (p_type p =? T_BOOL) eqn:E5.
  { cbn [lower_prop p_name p_type p_val]. split; [split; [reflexivity|]|].
    - unfold obs_prop_value at 2. rewrite E1, E2, E3, E4, E5.
      destruct (u_dec LE (p_val p) =? 0); reflexivity.
    - unfold wf_prop. cbn [p_name p_type p_val]. rewrite Hname. reflexivity. }
  cbn [lower_prop]. split; [split; reflexivity|exact H].
Qed.

(* ======================================================================== *)
(* source and destination side by side                                        *)
(* ======================================================================== *)

Lemma names_distinct_map_props f c : names_distinct c -> names_distinct (map_props f c).
Proof.
  intros [Hg Hc]. unfold names_distinct, map_props. cbn [d_groups]. split.
  - rewrite map_map. cbn [dg_name]. exact Hg.
  - intros G HG. apply in_map_iff in HG. destruct HG as (G0 & <- & HG0). cbn [dg_chans].
    rewrite map_map. cbn [dc_name]. exact (Hc G0 HG0).
Qed.

(* the source's observation under read_correct's hypotheses: its status is "complete" *)
Lemma expected_tokens_complete segs w st h chunkss :
  sm_run segs w = Ok st -> segs_encode (rs_segments st) segs chunkss ->
  expected_tokens st h (concat chunkss) =
  TZ (match segs with s :: _ => fs_version s | [] => 0 end) ::
  obs_hierarchy h (fun c => obs_cdata (expected_data (concat chunkss) c)) ++ [TZ 0; TZ 0].
Proof.
  intros Hrun Henc. unfold expected_tokens.
  rewrite (source_status_complete segs w st chunkss Hrun Henc), (sm_run_version segs w st Hrun). reflexivity.
Qed.

Theorem defrag_preserves_lemma f segs st h chunkss v dest index :
  wf_file segs ->
  sm_run segs false = Ok st ->
  build_hierarchy (rs_om st) = Ok h ->
  segs_encode (rs_segments st) segs chunkss ->
  om_paths_canonical (rs_om st) ->
  typed_objects_are_channels (rs_om st) ->
  (forall p, wf_prop p = true -> same_shown f p) ->
  let c := map_props f (content_of_read h (concat chunkss)) in
  Writer.wf_file [(v, defrag_calls c)] = true ->
  sizes_below_marker [(v, defrag_calls c)] = true ->
  defrag v c = Ok (dest, index) ->
  rd_all (ser_file segs) = Ok (expected_tokens st h (concat chunkss), true) /\
  rd_all dest = Ok (defrag_view v h (concat chunkss), true).
Proof.
  intros Hwf Hrun Hh Henc Hcan Hty Hf c Hwfc Hsz Hd. split.
  - exact (read_correct segs st h chunkss Hwf Hrun Hh Henc Hcan Hty).
  - rewrite (defrag_read_tokens_lemma v c dest index Hwfc Hsz
               (names_distinct_map_props f _ (content_of_read_distinct _ h _ Hh)) Hd).
    unfold c. rewrite (defrag_tokens_view f v h (concat chunkss)); [reflexivity|].
    exact (source_facts_ser f segs st h chunkss Hwf Hrun Hh Henc Hcan Hty Hf).
Qed.

(* ======================================================================== *)
(* an executable normaliser on the observation (token list) itself            *)
(* ======================================================================== *)

(* The observation grammar (Model/Reader.v, the obs_ functions):
     obs    ::= TZ version, PROPS, TZ #groups, GROUP*, STATUS
     PROPS  ::= TZ n, (TB name, VALUE)^n
     VALUE  ::= TZ 0, TZ int | TZ 1, TB double | TZ 2, TZ bool | TZ 3, TB str
              | TZ 4, TZ seconds, TZ fractions | TZ 9
     GROUP  ::= TB name, PROPS, TZ #channels, CHANNEL*
     CHANNEL::= TB name, TB group, TB path, TZ dtype (-1: none), TZ length, PROPS, DATA
     DATA   ::= TZ 2 (no data) | TZ 0, TZ n, (TB value)^n | TZ 1, ... (DAQmx scalers)
   [normalise_obs v] re-reads a token list along this grammar and returns it
   with (1) the version replaced by v, (2) for every channel of length 0 whose
   data type has no NumPy dtype: dtype := none (-1) and DATA := no data,
   (3) the status replaced by "complete" [TZ 0; TZ 0]; everything else -
   names, order, every property token, lengths, every value token - is copied.
   None: the list does not follow the grammar (or holds DAQmx scaler data). *)

Definition split_pval (t : list tok) : option (list tok * list tok) :=
  match t with
  | TZ k :: r =>
    if k =? 4 then match r with a :: b :: r' => Some ([TZ k; a; b], r') | _ => None end
    else if k =? 9 then Some ([TZ k], r)
    else match r with a :: r' => Some ([TZ k; a], r') | _ => None end
  | _ => None
  end.

Fixpoint split_props (n : nat) (t : list tok) : option (list tok * list tok) :=
  match n with
  | O => Some ([], t)
  | S n' =>
    match t with
    | TB name :: r =>
      match split_pval r with
      | Some (pv, r1) =>
        match split_props n' r1 with
        | Some (ps, r2) => Some (TB name :: pv ++ ps, r2)
        | None => None
        end
      | None => None
      end
    | _ => None
    end
  end.

Definition split_pblock (t : list tok) : option (list tok * list tok) :=
  match t with
  | TZ n :: r =>
    match split_props (Z.to_nat n) r with
    | Some (ps, r') => Some (TZ n :: ps, r')
    | None => None
    end
  | _ => None
  end.

Definition norm_chan_toks (t : list tok) : option (list tok * list tok) :=
  match t with
  | TB name :: TB grp :: TB path :: TZ dt :: TZ len :: r =>
    match split_pblock r with
    | Some (ps, r1) =>
      match r1 with
      | TZ k :: r2 =>
        if k =? 2 then Some (TB name :: TB grp :: TB path :: TZ dt :: TZ len :: ps ++ [TZ 2], r2)
        else if k =? 0 then
          match r2 with
          | TZ nv :: r3 =>
            let vals := firstn (Z.to_nat nv) r3 in
            let r4 := skipn (Z.to_nat nv) r3 in
            if (len =? 0) && negb (has_nptype dt)
            then Some (TB name :: TB grp :: TB path :: TZ (-1) :: TZ len :: ps ++ [TZ 2], r4)
            else Some (TB name :: TB grp :: TB path :: TZ dt :: TZ len :: ps ++ TZ 0 :: TZ nv :: vals, r4)
          | _ => None
          end
        else None
      | _ => None
      end
    | None => None
    end
  | _ => None
  end.

Fixpoint norm_chans_toks (n : nat) (t : list tok) : option (list tok * list tok) :=
  match n with
  | O => Some ([], t)
  | S n' =>
    match norm_chan_toks t with
    | Some (c, r1) =>
      match norm_chans_toks n' r1 with
      | Some (cs, r2) => Some (c ++ cs, r2)
      | None => None
      end
    | None => None
    end
  end.

Definition norm_group_toks (t : list tok) : option (list tok * list tok) :=
  match t with
  | TB g :: r =>
    match split_pblock r with
    | Some (ps, TZ nc :: r2) =>
      match norm_chans_toks (Z.to_nat nc) r2 with
      | Some (cs, r3) => Some (TB g :: ps ++ TZ nc :: cs, r3)
      | None => None
      end
    | _ => None
    end
  | _ => None
  end.

Fixpoint norm_groups_toks (n : nat) (t : list tok) : option (list tok * list tok) :=
  match n with
  | O => Some ([], t)
  | S n' =>
    match norm_group_toks t with
    | Some (g, r1) =>
      match norm_groups_toks n' r1 with
      | Some (gs, r2) => Some (g ++ gs, r2)
      | None => None
      end
    | None => None
    end
  end.

Definition normalise_obs (v : Z) (t : list tok) : option (list tok) :=
  match t with
  | TZ _ :: r =>
    match split_pblock r with
    | Some (ps, TZ ng :: r2) =>
      match norm_groups_toks (Z.to_nat ng) r2 with
      | Some (gs, _) => Some (TZ v :: ps ++ TZ ng :: gs ++ [TZ 0; TZ 0])
      | None => None
      end
    | _ => None
    end
  | _ => None
  end.

(* ---- the normaliser on a rendered hierarchy ---- *)

Lemma split_pval_obs ty v rest :
  split_pval (obs_prop_value ty v ++ rest) = Some (obs_prop_value ty v, rest).
Proof.
  unfold obs_prop_value.
  destruct ((1 <=? ty) && (ty <=? 4)); [reflexivity|].
  destruct ((5 <=? ty) && (ty <=? 8)); [reflexivity|].
  destruct ((ty =? 9) || (ty =? 25)); [reflexivity|].
  destruct ((ty =? 10) || (ty =? 26)); [reflexivity|].
  destruct (ty =? T_BOOL); [reflexivity|].
  destruct (ty =? T_STRING); [reflexivity|].
  destruct (ty =? T_TIME); reflexivity.
Qed.

Definition props_toks (ps : alist prop) : list tok :=
  flat_map (fun kv => TB (fst kv) :: obs_prop_value (p_type (snd kv)) (p_val (snd kv))) ps.

Lemma split_props_obs : forall (ps : alist prop) rest,
  split_props (length ps) (props_toks ps ++ rest) = Some (props_toks ps, rest).
Proof.
  induction ps as [|[k p] ps IH]; intros rest; [reflexivity|].
  cbn [length split_props props_toks flat_map fst snd app]. rewrite <- !app_assoc.
  rewrite split_pval_obs. fold (props_toks ps). rewrite IH. reflexivity.
Qed.

Lemma split_pblock_obs ps rest : split_pblock (obs_props ps ++ rest) = Some (obs_props ps, rest).
Proof.
  unfold obs_props. fold (props_toks ps). cbn [app split_pblock]. rewrite Nat2Z.id, split_props_obs. reflexivity.
Qed.

Lemma firstn_map_TB (vs : list bytes) rest :
  firstn (length vs) (map TB vs ++ rest) = map TB vs /\ skipn (length vs) (map TB vs ++ rest) = rest.
Proof.
  rewrite <- (map_length TB vs). split.
  - rewrite firstn_app, Nat.sub_diag, firstn_all. cbn [firstn]. apply app_nil_r.
  - rewrite skipn_app, Nat.sub_diag, skipn_all. reflexivity.
Qed.

Lemma norm_chan_toks_obs chunks ch rest :
  norm_chan_toks ((obs_channel_meta ch ++ obs_cdata (expected_data chunks ch)) ++ rest) =
  Some (obs_channel_meta (norm_chan ch) ++ obs_cdata (expected_data chunks (norm_chan ch)), rest).
Proof.
  unfold obs_channel_meta. cbn [app norm_chan_toks]. rewrite <- !app_assoc.
  rewrite split_pblock_obs.
  unfold expected_data, norm_chan. cbn [ch_name ch_group ch_path ch_dtype ch_len ch_props].
  destruct (ch_dtype ch) as [ty|] eqn:Et.
  - cbn [obs_cdata obs_values app]. cbn [Z.eqb]. rewrite Nat2Z.id.
    destruct (firstn_map_TB (chan_values (ch_path ch) chunks) rest) as [H1 H2]. rewrite H1, H2.
    cbn [norm_dtype]. destruct ((ch_len ch =? 0) && negb (has_nptype ty)); cbn [obs_cdata obs_values app];
      rewrite <- ?app_assoc; reflexivity.
  - cbn [obs_cdata app norm_dtype]. cbn [Z.eqb Pos.eqb]. rewrite <- ?app_assoc. reflexivity.
Qed.

Lemma norm_chans_toks_obs chunks : forall (cs : alist channel) rest,
  norm_chans_toks (length cs)
    (flat_map (fun c => obs_channel_meta (snd c) ++ obs_cdata (expected_data chunks (snd c))) cs ++ rest) =
  Some (flat_map (fun c => obs_channel_meta (norm_chan (snd c)) ++
                           obs_cdata (expected_data chunks (norm_chan (snd c)))) cs, rest).
Proof.
  induction cs as [|[k ch] cs IH]; intros rest; [reflexivity|].
  cbn [length norm_chans_toks flat_map snd]. rewrite <- app_assoc.
  rewrite norm_chan_toks_obs, IH. reflexivity.
Qed.

Definition group_toks (data : channel -> list tok) (g : bytes * group) : list tok :=
  TB (g_name (snd g)) :: obs_props (g_props (snd g)) ++
  TZ (Z.of_nat (length (g_chans (snd g)))) ::
  flat_map (fun c => obs_channel_meta (snd c) ++ data (snd c)) (g_chans (snd g)).

Lemma norm_group_toks_obs chunks kg rest :
  norm_group_toks (group_toks (fun c => obs_cdata (expected_data chunks c)) kg ++ rest) =
  Some (group_toks (fun c => obs_cdata (expected_data chunks c)) (fst kg, norm_group (snd kg)), rest).
Proof.
  unfold group_toks. cbn [app norm_group_toks]. rewrite <- app_assoc. rewrite split_pblock_obs.
  cbn [app]. rewrite Nat2Z.id, norm_chans_toks_obs.
  cbn [snd norm_group g_name g_props g_chans]. rewrite map_length, flat_map_map. reflexivity.
Qed.

Lemma norm_groups_toks_obs chunks : forall (gs : alist group) rest,
  norm_groups_toks (length gs)
    (flat_map (group_toks (fun c => obs_cdata (expected_data chunks c))) gs ++ rest) =
  Some (flat_map (group_toks (fun c => obs_cdata (expected_data chunks c)))
                 (map (fun kg => (fst kg, norm_group (snd kg))) gs), rest).
Proof.
  induction gs as [|kg gs IH]; intros rest; [reflexivity|].
  cbn [length norm_groups_toks flat_map map]. rewrite <- app_assoc.
  rewrite norm_group_toks_obs, IH. reflexivity.
Qed.

(* normalising the rendering of ANY hierarchy with plain (non-DAQmx) data is
   the rendering of the normalised hierarchy *)
Theorem normalise_obs_rendered v ver h chunks status :
  normalise_obs v (TZ ver :: obs_hierarchy h (fun c => obs_cdata (expected_data chunks c)) ++ status) =
  Some (defrag_view v h chunks).
Proof.
  unfold defrag_view, obs_hierarchy. cbn [normalise_obs]. rewrite <- app_assoc. rewrite split_pblock_obs.
  cbn [app]. rewrite Nat2Z.id.
  change (flat_map (fun g => TB (g_name (snd g)) :: obs_props (g_props (snd g)) ++
                             TZ (Z.of_nat (length (g_chans (snd g)))) ::
                             flat_map (fun c => obs_channel_meta (snd c) ++ obs_cdata (expected_data chunks (snd c)))
                                      (g_chans (snd g))) (h_groups h))
    with (flat_map (group_toks (fun c => obs_cdata (expected_data chunks c))) (h_groups h)).
  rewrite norm_groups_toks_obs. cbn [norm_hier h_root h_groups]. rewrite map_length, <- app_assoc. reflexivity.
Qed.

(* ======================================================================== *)
(* the writer accepts what the reader produced                                *)
(* ======================================================================== *)

(* ---- (a) every value a chunk holds has the size of its object's type ---- *)

Definition val_fits (o : sobj) (v : bytes) : Prop :=
  match so_dtype o with
  | Some dt => match tds_size dt with Some (Some sz) => blen v = sz | _ => dt = T_STRING end
  | None => False
  end.

Lemma vals_ok_fits n o vs : vals_ok n o vs -> Forall (val_fits o) vs.
Proof.
  intros [_ H]. unfold val_fits. destruct (so_dtype o) as [dt|]; [|contradiction].
  destruct (tds_size dt) as [[sz|]|].
  - exact H.
  - destruct H as [-> _]. apply Forall_forall. intros v _. reflexivity.
  - destruct H as [-> _]. apply Forall_forall. intros v _. reflexivity.
Qed.

Lemma sized_fits o v : sized o = Some (blen v) -> val_fits o v.
Proof.
  unfold sized, val_fits. destruct (so_dtype o) as [dt|]; [|discriminate].
  destruct (tds_size dt) as [[sz|]|]; try discriminate. intros H. injection H as ->. reflexivity.
Qed.

Lemma cols_of_vals : forall dobjs rows kv,
  Forall (row_ok dobjs) rows -> In kv (cols_of dobjs rows) ->
  exists o vs, In o dobjs /\ so_path o = fst kv /\ snd kv = CData vs /\ Forall (val_fits o) vs.
Proof.
  induction dobjs as [|o dobjs IH]; intros rows kv Hrows Hin; [contradiction|].
  cbn [cols_of] in Hin. destruct Hin as [<-|Hin].
  - exists o, (map (hd []) rows). split; [left; reflexivity|]. split; [reflexivity|]. split; [reflexivity|].
    apply Forall_map. eapply Forall_impl; [|exact Hrows]. intros row Hrow. unfold row_ok in Hrow.
    inversion Hrow as [|o' v objs' row' Hv Hrest]; subst. cbn [hd]. exact (sized_fits o v Hv).
  - destruct (IH (map (@tl bytes) rows) kv) as (o' & vs & Ho' & Hp & Hd & Hf).
    + apply Forall_map. eapply Forall_impl; [|exact Hrows]. intros row Hrow. unfold row_ok in Hrow.
      inversion Hrow as [|o' v objs' row' Hv Hrest]; subst. cbn [tl]. exact Hrest.
    + exact Hin.
    + exists o', vs. split; [right; exact Ho'|]. repeat split; assumption.
Qed.

Lemma seg_encodes_vals g data chunks :
  seg_encodes g data chunks ->
  forall c kv, In c chunks -> In kv c ->
               exists o vs, In o (sg_objs g) /\ so_path o = fst kv /\ snd kv = CData vs /\ Forall (val_fits o) vs.
Proof.
  assert (Hsub : forall o, In o (data_objs (sg_objs g)) -> In o (sg_objs g)).
  { intros o Ho. unfold data_objs in Ho. apply filter_In in Ho. tauto. }
  intros Henc c kv Hc Hkv.
  destruct Henc as [Hd Hdata | css Hlay Hpos Hnd Hok Hds Hdata
                    | nv m rows Hlay Hne Hnv Hm Hobjs Hsz Hnd Hrows Hlen Hdata].
  - contradiction.
  - apply in_map_iff in Hc. destruct Hc as (vss & <- & Hvss).
    rewrite Forall_forall in Hok. pose proof (Hok vss Hvss) as Hf2.
    unfold chunk_of in Hkv. apply in_map_iff in Hkv. destruct Hkv as ([o vs] & <- & Hin). cbn [fst snd].
    apply Forall2_combine in Hf2. destruct Hf2 as [Hall _]. rewrite Forall_forall in Hall.
    specialize (Hall (o, vs) Hin). cbn [fst snd] in Hall.
    exists o, vs. split; [exact (Hsub o (in_combine_l _ _ _ _ Hin))|].
    split; [reflexivity|]. split; [reflexivity|]. exact (vals_ok_fits _ _ _ Hall).
  - destruct Hc as [<-|[]]. destruct (cols_of_vals _ _ _ Hrows Hkv) as (o & vs & Ho & Hp & Hd & Hf).
    exists o, vs. split; [exact (Hsub o Ho)|]. repeat split; assumption.
Qed.

Lemma chan_values_in p (chunks : list chunk) v :
  In v (chan_values p chunks) ->
  exists c kv vs, In c chunks /\ In kv c /\ fst kv = p /\ snd kv = CData vs /\ In v vs.
Proof.
  unfold chan_values, chunk_values. intros H. apply in_flat_map in H. destruct H as (c & Hc & H).
  apply in_flat_map in H. destruct H as (kv & Hkv & H). unfold entry_values in H.
  destruct (bytes_eqb p (fst kv)) eqn:E; [|destruct H]. apply bytes_eqb_eq in E.
  destruct (snd kv) as [vs|sc] eqn:Es; [|destruct H].
  exists c, kv, vs. repeat split; try assumption. symmetry. exact E.
Qed.

(* ---- (b) a typed segment object's type is the type recorded for its path ---- *)

Lemma uom_dtype_keep : forall objs n f prev om prev' om',
  update_object_metadata objs n f prev om = Ok (prev', om') ->
  forall p, om_dtype (get_ometa p om) <> None -> om_dtype (get_ometa p om') = om_dtype (get_ometa p om).
Proof.
  induction objs as [|o objs IH]; intros n f prev om prev' om' H p Hty.
  - cbn [update_object_metadata] in H. injection H as _ <-. reflexivity.
  - cbn [update_object_metadata] in H.
    destruct (update_ometa (get_ometa (so_path o) om) o n f) as [m|e] eqn:Em; cbn [bind] in H; [|discriminate].
    destruct (update_ometa_dtype _ _ _ _ _ Em) as [_ Hd2].
    assert (E1 : om_dtype (get_ometa p (aset (so_path o) m om)) = om_dtype (get_ometa p om)).
    { rewrite get_ometa_aset. destruct (bytes_eqb p (so_path o)) eqn:E; [|reflexivity].
      apply bytes_eqb_eq in E. subst p. apply Hd2. exact Hty. }
    rewrite (IH _ _ _ _ _ _ H p); [exact E1|]. rewrite E1. exact Hty.
Qed.

Lemma uom_dtype_set : forall objs n f prev om prev' om',
  update_object_metadata objs n f prev om = Ok (prev', om') ->
  forall o, In o objs -> so_dtype o <> None -> om_dtype (get_ometa (so_path o) om') = so_dtype o.
Proof.
  induction objs as [|o0 objs IH]; intros n f prev om prev' om' H o Ho Hty; [destruct Ho|].
  cbn [update_object_metadata] in H.
  destruct (update_ometa (get_ometa (so_path o0) om) o0 n f) as [m|e] eqn:Em; cbn [bind] in H; [|discriminate].
  destruct Ho as [<-|Ho]; [|exact (IH _ _ _ _ _ _ H o Ho Hty)].
  destruct (update_ometa_dtype _ _ _ _ _ Em) as [Hd1 _].
  rewrite (uom_dtype_keep _ _ _ _ _ _ _ H (so_path o0)); rewrite get_ometa_aset, bytes_eqb_refl.
  - exact Hd1.
  - rewrite Hd1. exact Hty.
Qed.

Lemma uop_dtype props : forall om p,
  om_dtype (get_ometa p (update_object_properties props om)) = om_dtype (get_ometa p om).
Proof.
  unfold update_object_properties.
  induction props as [|[k ps] props IH]; intros om p; [reflexivity|].
  cbn [fold_left fst snd]. rewrite IH, get_ometa_aset.
  destruct (bytes_eqb p k) eqn:E; [|reflexivity].
  apply bytes_eqb_eq in E. subst k. reflexivity.
Qed.

Definition dtypes_recorded (st : rstate) : Prop :=
  forall g o, In g (rs_segments st) -> In o (sg_objs g) -> so_dtype o <> None ->
              om_dtype (get_ometa (so_path o) (rs_om st)) = so_dtype o.

Lemma sm_loop_dtypes_recorded : forall segs w pos ps pi st stf,
  sm_loop segs w pos ps pi st = Ok stf -> dtypes_recorded st -> dtypes_recorded stf.
Proof.
  induction segs as [|s r IH]; intros w pos ps pi st stf H Hinv.
  - rewrite sm_loop_nil in H. injection H as <-. exact Hinv.
  - apply sm_loop_cons_inv in H.
    destruct H as (objs & props & idx & cache & nch & fin & po & om & Hro & Hcc & Hum & Hloop).
    apply (IH _ _ _ _ _ _ Hloop). intros g o Hg Ho Hty. cbn [rs_segments rs_om] in *.
    rewrite uop_dtype. apply in_app_or in Hg. destruct Hg as [Hg|[<-|[]]].
    + pose proof (Hinv g o Hg Ho Hty) as Hold.
      rewrite (uom_dtype_keep _ _ _ _ _ _ _ Hum (so_path o)); [exact Hold|]. rewrite Hold. exact Hty.
    + cbn [sg_objs] in Ho. exact (uom_dtype_set _ _ _ _ _ _ _ Hum o Ho Hty).
Qed.

Theorem sm_run_dtypes_recorded segs w st : sm_run segs w = Ok st -> dtypes_recorded st.
Proof.
  unfold sm_run. intros H. apply (sm_loop_dtypes_recorded _ _ _ _ _ _ _ H). intros g o [].
Qed.

(* ---- (c) the type table: a fixed-size type is one the writer can size ---- *)

Lemma tds_size_cases ty sz :
  tds_size ty = Some (Some sz) ->
  In ty [1; 2; 3; 4; 5; 6; 7; 8; 9; 10; 0x19; 0x1A; 0x21; 0x44; 0x08000c; 0x10000d].
Proof.
  unfold tds_size. intros H.
  repeat match type of H with
         | (if ?c then _ else _) = _ =>
           let E := fresh "E" in destruct c eqn:E;
             [apply Z.eqb_eq in E; subst ty; cbn [In]; try discriminate H; tauto|clear E]
         end.
  discriminate H.
Qed.

Lemma tds_size_sized ty sz : tds_size ty = Some (Some sz) -> sized_type ty = Some sz.
Proof.
  intros H. pose proof (tds_size_cases ty sz H) as Hc. cbn [In] in Hc.
  repeat (destruct Hc as [<-|Hc]; [vm_compute in H; injection H as <-; vm_compute; reflexivity|]). destruct Hc.
Qed.

Lemma has_nptype_sized ty : has_nptype ty = true -> exists k, sized_type ty = Some k.
Proof.
  intros H. unfold has_nptype, is_struct_type, T_C64, T_C128 in H.
  assert (Hc : In ty [1; 2; 3; 4; 5; 6; 7; 8; 9; 10; 0x19; 0x1A; 0x21; 0x08000c; 0x10000d]) by (cbn [In]; lia).
  cbn [In] in Hc.
  repeat (destruct Hc as [<-|Hc]; [eexists; vm_compute; reflexivity|]). destruct Hc.
Qed.

(* ---- (d) the type defragment writes a channel with fits its values ---- *)

Theorem source_values_typed segs st h chunkss ch ty :
  sm_run segs false = Ok st ->
  build_hierarchy (rs_om st) = Ok h ->
  segs_encode (rs_segments st) segs chunkss ->
  om_paths_canonical (rs_om st) ->
  In ch (all_channels h) -> ch_dtype ch = Some ty ->
  forall v, In v (chan_values (ch_path ch) (concat chunkss)) ->
            match tds_size ty with Some (Some sz) => blen v = sz | _ => ty = T_STRING end.
Proof.
  intros Hrun Hh Henc Hcanon Hch Hty v Hv.
  destruct (chan_values_in _ _ _ Hv) as (c & kv & vs & Hc & Hkv & Hp & Hd & Hin).
  destruct (segs_encode_chunk_origin _ _ _ Henc c Hc) as (g & s & cs & Hg & Hcs & Hccs).
  destruct (seg_encodes_vals g _ cs Hcs c kv Hccs Hkv) as (o & vs' & Ho & Hpo & Hd' & Hfits).
  rewrite Hd in Hd'. injection Hd' as <-.
  rewrite Forall_forall in Hfits. pose proof (Hfits v Hin) as Hf.
  assert (Hoty : so_dtype o <> None) by (unfold val_fits in Hf; destruct (so_dtype o); [discriminate|contradiction]).
  pose proof (sm_run_dtypes_recorded segs false st Hrun g o Hg Ho Hoty) as Hrec.
  destruct (chan_from_om_canonical _ ch Hcanon (build_hierarchy_channels _ _ Hh ch Hch))
    as (m & Hinm & _ & Hdt & _).
  destruct (sm_run_trace segs false st Hrun) as (_ & _ & Hnd & _).
  pose proof (alookup_in_nodup _ m (rs_om st) Hnd Hinm) as Hlk.
  rewrite Hpo, Hp in Hrec. unfold get_ometa in Hrec. rewrite Hlk, <- Hdt, Hty in Hrec.
  unfold val_fits in Hf. rewrite <- Hrec in Hf. exact Hf.
Qed.

Lemma chan_type_ok_source ty (vals : list bytes) :
  ty <> T_VOID ->
  (forall v, In v vals -> match tds_size ty with Some (Some sz) => blen v = sz | _ => ty = T_STRING end) ->
  chan_type_ok (defrag_type (Some ty) vals) vals = true.
Proof.
  intros Hnv Hall. unfold chan_type_ok, defrag_type.
  destruct vals as [|v0 vals].
  - destruct (has_nptype ty) eqn:Enp; [|reflexivity].
    replace (ty =? T_VOID) with false by (symmetry; apply Z.eqb_neq; exact Hnv).
    destruct (ty =? T_STRING); [reflexivity|].
    destruct (has_nptype_sized ty Enp) as [k ->]. reflexivity.
  - replace (ty =? T_VOID) with false by (symmetry; apply Z.eqb_neq; exact Hnv).
    destruct (ty =? T_STRING) eqn:Es; [reflexivity|].
    pose proof (Hall v0 (or_introl eq_refl)) as H0.
    destruct (tds_size ty) as [[sz|]|] eqn:Esz; try (subst ty; discriminate Es).
    rewrite (tds_size_sized ty sz Esz). apply forallb_forall. intros v Hv.
    apply Z.eqb_eq. exact (Hall v Hv).
Qed.

(* ---- (e) what remains: the container limits ---- *)

(* Everything about an object that is a matter of SIZE: the path and the
   group path fit a length-prefixed string, the number of properties fits 32
   bits, the number of values 64 bits, a string channel's data stays below
   4 GiB (its offsets are 32 bit).  None of these follows from the source
   being well formed: defragment MERGES what the source spreads over many
   segments (a channel's values from all segments go into one segment; an
   object's properties from all segments into one list), and re-typed
   properties can be longer (an int8 becomes an Int32, a single a double). *)
Definition fits_obj (o : wobj) : bool :=
  is_u32 (blen (obj_path o)) && len_u32 (obj_props o) &&
  match o with
  | WChan g _ dt vals _ =>
    is_u32 (blen (group_path g)) && is_u64 (Z.of_nat (length vals)) &&
    (if dt =? T_STRING then is_u32 (string_total vals) else true)
  | _ => true
  end.

Definition type_ok_obj (o : wobj) : bool :=
  match o with WChan _ _ dt vals _ => chan_type_ok dt vals | _ => true end.

Lemma wf_obj_split o :
  Writer.wf_obj o = fits_obj o && forallb wf_prop (obj_props o) && type_ok_obj o.
Proof.
  destruct o as [ps|g ps|g c dt vals ps]; unfold Writer.wf_obj, wf_chan_part, fits_obj, type_ok_obj;
    cbn [obj_props].
  - generalize (is_u32 (blen (obj_path (WRoot ps)))) (len_u32 ps) (forallb wf_prop ps).
    intros [] [] []; reflexivity.
  - generalize (is_u32 (blen (obj_path (WGroup g ps)))) (len_u32 ps) (forallb wf_prop ps).
    intros [] [] []; reflexivity.
  - generalize (if dt =? T_STRING then is_u32 (string_total vals) else true)
               (is_u32 (blen (obj_path (WChan g c dt vals ps)))) (len_u32 ps) (forallb wf_prop ps)
               (chan_type_ok dt vals) (is_u32 (blen (group_path g))) (is_u64 (Z.of_nat (length vals))).
    intros [] [] [] [] [] [] []; reflexivity.
Qed.

(* the objects' sizes, the segment count / offsets of every destination
   segment, and no segment of exactly 2^64-1 bytes *)
Definition defrag_fits (v : Z) (c : dcontent) : bool :=
  forallb (forallb fits_obj) (defrag_calls c) &&
  match syntax_of_file [(v, defrag_calls c)] with
  | Ok segs => forallb seg_sizes_ok segs && forallb next_below_marker segs
  | Err _ => true
  end.

(* what IS derived from the source: property values have the size and a type
   the writer writes, every value has the size of the channel's type *)
Definition content_ok (c : dcontent) : Prop :=
  forallb wf_prop (d_root_props c) = true /\
  forall G, In G (d_groups c) ->
    forallb wf_prop (dg_props G) = true /\
    forall ch, In ch (dg_chans G) ->
      forallb wf_prop (dc_props ch) = true /\
      chan_type_ok (defrag_type (dc_type ch) (dc_vals ch)) (dc_vals ch) = true.

Theorem defrag_accepted v c :
  content_ok c -> defrag_fits v c = true ->
  Writer.wf_file [(v, defrag_calls c)] = true /\ sizes_below_marker [(v, defrag_calls c)] = true.
Proof.
  intros [Hroot Hgroups] Hfits. unfold defrag_fits in Hfits. apply andb_prop in Hfits. destruct Hfits as [Hobj Hsz].
  assert (Hwfo : forallb (forallb Writer.wf_obj) (defrag_calls c) = true).
  { apply forallb_forall. intros objs Hobjs. apply forallb_forall. intros o Ho.
    rewrite forallb_forall in Hobj. pose proof (Hobj objs Hobjs) as Hf. rewrite forallb_forall in Hf.
    rewrite wf_obj_split, (Hf o Ho). cbn [andb].
    unfold defrag_calls in Hobjs. destruct Hobjs as [<-|Hobjs].
    - destruct Ho as [<-|[]]. cbn [obj_props type_ok_obj]. rewrite Hroot. reflexivity.
    - apply in_flat_map in Hobjs. destruct Hobjs as (G & HG & Hobjs). destruct (Hgroups G HG) as [Hgp Hch].
      unfold defrag_group_calls in Hobjs. destruct Hobjs as [<-|Hobjs].
      + destruct Ho as [<-|[]]. cbn [obj_props type_ok_obj]. rewrite Hgp. reflexivity.
      + apply in_map_iff in Hobjs. destruct Hobjs as (ch & <- & Hin). destruct Ho as [<-|[]].
        destruct (Hch ch Hin) as [Hcp Hct]. unfold defrag_chan. cbn [obj_props type_ok_obj].
        rewrite Hcp, Hct. reflexivity. }
  unfold Writer.wf_file, sizes_below_marker. cbn [forallb snd]. rewrite Hwfo. cbn [andb].
  destruct (syntax_of_file [(v, defrag_calls c)]) as [segs|e]; [|split; reflexivity].
  apply andb_prop in Hsz. exact Hsz.
Qed.

Theorem content_ok_ser f segs st h chunkss :
  wf_file segs ->
  sm_run segs false = Ok st ->
  build_hierarchy (rs_om st) = Ok h ->
  segs_encode (rs_segments st) segs chunkss ->
  om_paths_canonical (rs_om st) ->
  (forall p, wf_prop p = true -> wf_prop (f p) = true) ->
  content_ok (map_props f (content_of_read h (concat chunkss))).
Proof.
  intros Hwf Hrun Hh Henc Hcanon Hf.
  pose proof (sm_run_props_wf segs false st Hwf Hrun) as Hom.
  assert (Hnil : props_wf []) by (split; [exact keyed_nil|intros k p []]).
  assert (Hps : forall ps, props_wf ps -> forallb wf_prop (map f (map snd ps)) = true).
  { intros ps [_ Hw]. apply forallb_forall. intros q Hq. apply in_map_iff in Hq. destruct Hq as (p & <- & Hp).
    apply in_map_iff in Hp. destruct Hp as ([k p'] & <- & Hin). cbn [snd]. apply Hf. exact (Hw k p' Hin). }
  destruct (build_hierarchy_groups props_wf _ h Hnil Hom Hh) as [Hroot Hgroups].
  unfold content_ok, map_props, content_of_read. cbn [d_root_props d_groups]. split; [exact (Hps _ Hroot)|].
  intros G HG. apply in_map_iff in HG. destruct HG as (G0 & <- & HG0).
  apply in_map_iff in HG0. destruct HG0 as (kg & <- & Hkg). cbn [dg_name dg_props dg_chans].
  rewrite Forall_forall in Hgroups. destruct (Hgroups kg Hkg) as [_ Hgp]. split; [exact (Hps _ Hgp)|].
  intros dch Hdch. apply in_map_iff in Hdch. destruct Hdch as (d0 & <- & Hd0).
  apply in_map_iff in Hd0. destruct Hd0 as (kc & <- & Hkc). cbn [dc_name dc_type dc_vals dc_props].
  assert (Hch : In (snd kc) (all_channels h)).
  { unfold all_channels. apply in_flat_map. exists kg. split; [exact Hkg|]. apply in_map. exact Hkc. }
  split.
  - unfold dchan_of_read. cbn [dc_props]. apply Hps.
    exact (build_hierarchy_chan_props props_wf _ h Hom Hh (snd kc) Hch).
  - unfold dchan_of_read. cbn [dc_type dc_vals]. destruct (ch_dtype (snd kc)) as [ty|] eqn:Et; [|reflexivity].
    apply chan_type_ok_source.
    + destruct (build_hierarchy_channels _ _ Hh (snd kc) Hch) as (pstr & m & Hin & _ & Heq).
      intros E. apply (sm_run_dtype_nonvoid segs false st Hrun pstr m Hin).
      rewrite <- E, <- Et, Heq. reflexivity.
    + exact (source_values_typed segs st h chunkss (snd kc) ty Hrun Hh Henc Hcanon Hch Et).
Qed.

(* ---- (f) defragment does not raise ---- *)

Lemma wr_calls_total v : forall calls st segs,
  syntax_of_calls_from v st calls = Ok segs -> exists d i, wr_calls true v st calls = Ok (d, i).
Proof.
  induction calls as [|objs calls IH]; intros st segs H.
  - exists [], []. reflexivity.
  - cbn [syntax_of_calls_from] in H. cbn [wr_calls]. unfold wr_segment_gen.
    destruct (wr_objects st objs) as [[sorted st']|e]; cbn [bind] in H |- *; [|discriminate].
    unfold syntax_of_objs in H. unfold wr_segment_bytes.
    destruct (mapM (wr_entry true) sorted) as [es|e]; cbn [bind] in H |- *; [|discriminate].
    destruct (data_size sorted) as [dsize|e]; cbn [bind] in H |- *; [|discriminate].
    destruct (syntax_of_calls_from v st' calls) as [ss|e] eqn:Es; cbn [bind] in H; [|discriminate].
    destruct (IH st' ss Es) as (d2 & i2 & ->). cbn [bind]. eexists. eexists. reflexivity.
Qed.

Theorem defrag_succeeds v c :
  valid_version v = true -> content_ok c -> defrag_fits v c = true ->
  exists dest index, defrag v c = Ok (dest, index).
Proof.
  intros Hv Hok Hfits. destruct (defrag_accepted v c Hok Hfits) as [Hwf _].
  unfold Writer.wf_file in Hwf. apply andb_prop in Hwf. destruct Hwf as [Hobjs _].
  cbn [forallb snd] in Hobjs. rewrite andb_true_r in Hobjs.
  destruct (defrag_syntax v c Hobjs) as (segs & Hs & _).
  unfold defrag, wr_session, wr_session_gen. rewrite Hv.
  exact (wr_calls_total v _ _ _ Hs).
Qed.

(* ======================================================================== *)
(* the theorem                                                                *)
(* ======================================================================== *)

(* [f]: how property values are re-typed on their way through Python
   ([retype_prop]) - or not at all (identity: Model/Defrag.v's content as it
   is).  Everything the statement needs of f: a well-formed property stays
   well formed, keeps its name and shows the same value. *)
Definition retyping (f : prop -> prop) : Prop :=
  forall p, wf_prop p = true -> same_shown f p /\ wf_prop (f p) = true.

Lemma retyping_id : retyping (fun p => p).
Proof. intros p H. split; [split; reflexivity|exact H]. Qed.

Lemma retyping_py : retyping retype_prop.
Proof. intros p H. exact (retype_prop_shown p H). Qed.

Theorem defrag_preserves_gen f segs st h chunkss v :
  wf_file segs ->
  sm_run segs false = Ok st ->
  build_hierarchy (rs_om st) = Ok h ->
  segs_encode (rs_segments st) segs chunkss ->
  om_paths_canonical (rs_om st) ->
  typed_objects_are_channels (rs_om st) ->
  retyping f ->
  let c := map_props f (content_of_read h (concat chunkss)) in
  valid_version v = true ->
  defrag_fits v c = true ->
  exists dest index,
    defrag v c = Ok (dest, index) /\
    rd_all (ser_file segs) = Ok (expected_tokens st h (concat chunkss), true) /\
    rd_all dest = Ok (defrag_view v h (concat chunkss), true) /\
    normalise_obs v (expected_tokens st h (concat chunkss)) = Some (defrag_view v h (concat chunkss)).
Proof.
  intros Hwf Hrun Hh Henc Hcan Hty Hf c Hv Hfits.
  assert (Hok : content_ok c).
  { apply (content_ok_ser f segs st h chunkss Hwf Hrun Hh Henc Hcan). intros p Hp. exact (proj2 (Hf p Hp)). }
  destruct (defrag_succeeds v c Hv Hok Hfits) as (dest & index & Hd).
  destruct (defrag_accepted v c Hok Hfits) as [Hwfc Hsz].
  exists dest, index. split; [exact Hd|].
  destruct (defrag_preserves_lemma f segs st h chunkss v dest index Hwf Hrun Hh Henc Hcan Hty
              (fun p Hp => proj1 (Hf p Hp)) Hwfc Hsz Hd) as [Hs Hdst].
  split; [exact Hs|]. split; [exact Hdst|].
  unfold expected_tokens. apply normalise_obs_rendered.
Qed.

(* ---- reading [norm_dtype] ---- *)

Lemma norm_dtype_nonempty t n : n <> 0 -> norm_dtype t n = t.
Proof.
  intros Hn. unfold norm_dtype. destruct t as [ty|]; [|reflexivity].
  replace (n =? 0) with false by (symmetry; apply Z.eqb_neq; exact Hn). reflexivity.
Qed.

Lemma norm_dtype_numpy ty n : has_nptype ty = true -> norm_dtype (Some ty) n = Some ty.
Proof. intros H. unfold norm_dtype. rewrite H, andb_false_r. reflexivity. Qed.

Lemma norm_dtype_empty_other ty : has_nptype ty = false -> norm_dtype (Some ty) 0 = None.
Proof. intros H. unfold norm_dtype. rewrite H. reflexivity. Qed.

(* a hierarchy without an empty channel of a type that has no NumPy dtype is
   its own normal form: the two observations then differ in the version only *)
Definition no_blanked (h : hierarchy) : Prop :=
  forall ch, In ch (all_channels h) -> norm_dtype (ch_dtype ch) (ch_len ch) = ch_dtype ch.

Lemma norm_hier_id h : no_blanked h -> norm_hier h = h.
Proof.
  intros H. destruct h as [root groups]. unfold norm_hier. cbn [h_root h_groups]. f_equal.
  rewrite <- (map_id groups) at 2. apply map_ext_in. intros [k g] Hkg. cbn [fst snd]. f_equal.
  destruct g as [gn gp chans]. unfold norm_group. cbn [g_name g_props g_chans]. f_equal.
  rewrite <- (map_id chans) at 2. apply map_ext_in. intros [n ch] Hch. cbn [fst snd]. f_equal.
  assert (Hin : In ch (all_channels (mkHier root groups))).
  { unfold all_channels. cbn [h_groups]. apply in_flat_map. exists (k, mkGroup gn gp chans).
    split; [exact Hkg|]. cbn [snd g_chans]. apply in_map_iff. exists (n, ch). split; [reflexivity|exact Hch]. }
  destruct ch as [cg cn cp dt sc len ps]. unfold norm_chan. cbn [ch_group ch_name ch_path ch_dtype ch_scalers ch_len ch_props].
  pose proof (H _ Hin) as E. cbn [ch_dtype ch_len] in E. rewrite E. reflexivity.
Qed.

(* ---- the relation between the two observations ---- *)

(* [same_content v src dst]: dst is src re-read along the observation grammar
   with the version set to v, every channel of length 0 whose data type has no
   NumPy dtype made untyped / data-less, and the status set to complete;
   every other token - group and channel names and their order, paths, every
   property (name, kind of value, value), lengths, data types, every value's
   bytes in order - is identical. *)
Definition same_content (v : Z) (src dst : list tok) : Prop := normalise_obs v src = Some dst.

Theorem defrag_preserves_given f segs st h chunkss v dest index :
  wf_file segs ->
  sm_run segs false = Ok st ->
  build_hierarchy (rs_om st) = Ok h ->
  segs_encode (rs_segments st) segs chunkss ->
  om_paths_canonical (rs_om st) ->
  typed_objects_are_channels (rs_om st) ->
  retyping f ->
  let c := map_props f (content_of_read h (concat chunkss)) in
  defrag_fits v c = true ->
  defrag v c = Ok (dest, index) ->
  exists toks', rd_all dest = Ok (toks', true) /\
                same_content v (expected_tokens st h (concat chunkss)) toks' /\
                toks' = defrag_view v h (concat chunkss).
Proof.
  intros Hwf Hrun Hh Henc Hcan Hty Hf c Hfits Hd.
  assert (Hok : content_ok c).
  { apply (content_ok_ser f segs st h chunkss Hwf Hrun Hh Henc Hcan). intros p Hp. exact (proj2 (Hf p Hp)). }
  destruct (defrag_accepted v c Hok Hfits) as [Hwfc Hsz].
  destruct (defrag_preserves_lemma f segs st h chunkss v dest index Hwf Hrun Hh Henc Hcan Hty
              (fun p Hp => proj1 (Hf p Hp)) Hwfc Hsz Hd) as [_ Hdst].
  exists (defrag_view v h (concat chunkss)). split; [exact Hdst|]. split; [|reflexivity].
  unfold same_content, expected_tokens. apply normalise_obs_rendered.
Qed.

(* ---- the statements of Props/C10_full.v ---- *)

Theorem hierarchy_props_keyed segs w st h :
  sm_run segs w = Ok st -> build_hierarchy (rs_om st) = Ok h ->
  keyed (h_root h) /\
  Forall (fun kg => keyed (g_props (snd kg))) (h_groups h) /\
  forall ch, In ch (all_channels h) -> keyed (ch_props ch).
Proof.
  intros Hrun Hh. pose proof (sm_run_keyed segs w st Hrun) as Hom.
  destruct (build_hierarchy_groups keyed _ h keyed_nil Hom Hh) as [Hroot Hgroups].
  split; [exact Hroot|]. split.
  - eapply Forall_impl; [|exact Hgroups]. intros kg [_ H]. exact H.
  - exact (build_hierarchy_chan_props keyed _ h Hom Hh).
Qed.

Theorem build_hierarchy_gname om h :
  build_hierarchy om = Ok h -> Forall (fun kg => g_name (snd kg) = fst kg) (h_groups h).
Proof.
  intros Hh. destruct (build_hierarchy_groups (fun _ => True) om h I (fun _ _ _ => I) Hh) as [_ H].
  eapply Forall_impl; [|exact H]. intros kg [Hn _]. exact Hn.
Qed.

Theorem defrag_accepts_lemma f segs st h chunkss v :
  wf_file segs ->
  sm_run segs false = Ok st ->
  build_hierarchy (rs_om st) = Ok h ->
  segs_encode (rs_segments st) segs chunkss ->
  om_paths_canonical (rs_om st) ->
  retyping f ->
  let c := map_props f (content_of_read h (concat chunkss)) in
  defrag_fits v c = true ->
  Writer.wf_file [(v, defrag_calls c)] = true /\ sizes_below_marker [(v, defrag_calls c)] = true.
Proof.
  intros Hwf Hrun Hh Henc Hcan Hf c Hfits. apply defrag_accepted; [|exact Hfits].
  apply (content_ok_ser f segs st h chunkss Hwf Hrun Hh Henc Hcan). intros p Hp. exact (proj2 (Hf p Hp)).
Qed.

Theorem defrag_total_lemma f segs st h chunkss v :
  wf_file segs ->
  sm_run segs false = Ok st ->
  build_hierarchy (rs_om st) = Ok h ->
  segs_encode (rs_segments st) segs chunkss ->
  om_paths_canonical (rs_om st) ->
  retyping f ->
  let c := map_props f (content_of_read h (concat chunkss)) in
  valid_version v = true ->
  defrag_fits v c = true ->
  exists dest index, defrag v c = Ok (dest, index).
Proof.
  intros Hwf Hrun Hh Henc Hcan Hf c Hv Hfits. apply defrag_succeeds; [exact Hv| |exact Hfits].
  apply (content_ok_ser f segs st h chunkss Hwf Hrun Hh Henc Hcan). intros p Hp. exact (proj2 (Hf p Hp)).
Qed.

Theorem defrag_preserves_id segs st h chunkss v dest index :
  wf_file segs ->
  sm_run segs false = Ok st ->
  build_hierarchy (rs_om st) = Ok h ->
  segs_encode (rs_segments st) segs chunkss ->
  om_paths_canonical (rs_om st) ->
  typed_objects_are_channels (rs_om st) ->
  defrag_fits v (content_of_read h (concat chunkss)) = true ->
  defrag v (content_of_read h (concat chunkss)) = Ok (dest, index) ->
  exists toks',
    rd_all dest = Ok (toks', true) /\
    same_content v (expected_tokens st h (concat chunkss)) toks' /\
    toks' = defrag_view v h (concat chunkss).
Proof.
  intros Hwf Hrun Hh Henc Hcan Hty Hfits Hd.
  rewrite <- (map_props_id (content_of_read h (concat chunkss))) in Hfits, Hd.
  exact (defrag_preserves_given (fun p => p) segs st h chunkss v dest index
                                Hwf Hrun Hh Henc Hcan Hty retyping_id Hfits Hd).
Qed.

Theorem defrag_preserves_py segs st h chunkss v dest index :
  wf_file segs ->
  sm_run segs false = Ok st ->
  build_hierarchy (rs_om st) = Ok h ->
  segs_encode (rs_segments st) segs chunkss ->
  om_paths_canonical (rs_om st) ->
  typed_objects_are_channels (rs_om st) ->
  let c := map_props retype_prop (content_of_read h (concat chunkss)) in
  defrag_fits v c = true ->
  defrag v c = Ok (dest, index) ->
  exists toks',
    rd_all dest = Ok (toks', true) /\
    same_content v (expected_tokens st h (concat chunkss)) toks' /\
    toks' = defrag_view v h (concat chunkss).
Proof.
  intros Hwf Hrun Hh Henc Hcan Hty c Hfits Hd.
  exact (defrag_preserves_given retype_prop segs st h chunkss v dest index
                                Hwf Hrun Hh Henc Hcan Hty retyping_py Hfits Hd).
Qed.

(* correspondence check evaluated by harness/c10.py (retype_tie): a property
   (name, TDMS type, canonical value bytes) carried by a source file and the
   property the real TdmsWriter.defragment wrote for it *)
Definition check_retype (c : prop * (bytes * Z * bytes)) : bool :=
  let q := retype_prop (fst c) in
  let '(n, t, v) := snd c in
  bytes_eqb (p_name q) n && (p_type q =? t) && bytes_eqb (p_val q) v.

(* what (i) is for: the dictionary built from a well-keyed dictionary's values is that dictionary *)
Lemma merge_props_keyed ps : keyed ps -> merge_props (map snd ps) [] = ps.
Proof.
  intros Hk.
  assert (Hok : props_ok (fun p => p) ps) by (split; [exact Hk|intros k p _; split; reflexivity]).
  pose proof (merge_props_of_dict (fun p => p) ps Hok) as H. rewrite map_id in H. rewrite H.
  rewrite <- (map_id ps) at 2. apply map_ext. intros [k p]. reflexivity.
Qed.
