(* The translated integer decision functions of nptdms/writer.py
   (Gen/PyFuncsWriter.v): to_int_property_value picks the narrowest of
   Int32 / Int64 / Uint64 that holds the value; the _infer_dtype chain picks a
   dtype that holds the whole list exactly when the list avoids the chain's
   holes, and then every element round-trips through its bytes. *)

From Coq Require Import List ZArith Bool Lia ZifyBool.
From Coq Require Import Init.Byte.
Import ListNotations.
From NpTdms Require Import Base.Bytes Base.Res Model.Tokens Model.Writer Gen.PyFuncsWriter.
Local Open Scope Z_scope.

(* value range of the three property classes / the eight dtypes *)
Definition ctor_range (c : tdms_ctor) : Z * Z :=
  match c with
  | C_Int32 => (- 2 ^ 31, 2 ^ 31)
  | C_Int64 => (- 2 ^ 63, 2 ^ 63)
  | C_Uint64 => (0, 2 ^ 64)
  end.

Definition in_range (r : Z * Z) (v : Z) : Prop := fst r <= v < snd r.

Definition dtype_range (d : np_dtype_name) : Z * Z :=
  match d with
  | D_int8 => (- 2 ^ 7, 2 ^ 7)
  | D_int16 => (- 2 ^ 15, 2 ^ 15)
  | D_int32 => (- 2 ^ 31, 2 ^ 31)
  | D_int64 => (- 2 ^ 63, 2 ^ 63)
  | D_uint8 => (0, 2 ^ 8)
  | D_uint16 => (0, 2 ^ 16)
  | D_uint32 => (0, 2 ^ 32)
  | D_uint64 => (0, 2 ^ 64)
  end.

Lemma int_prop_type_fits_lemma : forall v, - 2 ^ 63 <= v < 2 ^ 64 ->
  let '(t, w) := to_int_property_value v in
  w = v /\ in_range (ctor_range t) v /\
  t = (if (- 2 ^ 31 <=? v) && (v <? 2 ^ 31) then C_Int32
       else if v <? 2 ^ 63 then C_Int64 else C_Uint64).
Proof.
  intros v Hv. unfold to_int_property_value.
  destruct (v >=? 2 ^ 63) eqn:E1.
  - unfold in_range, ctor_range, fst, snd. repeat split; try lia.
    replace ((- 2 ^ 31 <=? v) && (v <? 2 ^ 31)) with false by lia.
    replace (v <? 2 ^ 63) with false by lia. reflexivity.
  - destruct ((v >=? 2 ^ 31) || (v <? - 2 ^ 31)) eqn:E2.
    + unfold in_range, ctor_range, fst, snd. repeat split; try lia.
      replace ((- 2 ^ 31 <=? v) && (v <? 2 ^ 31)) with false by lia.
      replace (v <? 2 ^ 63) with true by lia. reflexivity.
    + unfold in_range, ctor_range, fst, snd. repeat split; try lia.
      replace ((- 2 ^ 31 <=? v) && (v <? 2 ^ 31)) with true by lia. reflexivity.
Qed.

(* outside [-2^63, 2^64) the chosen class cannot hold the value: struct.error,
   the writer does not accept the property *)
Lemma int_prop_rejected : forall n v, v < - 2 ^ 63 \/ 2 ^ 64 <= v -> int_prop n v = Err EStruct.
Proof.
  intros n v Hv. unfold int_prop, to_int_property_value.
  destruct (v >=? 2 ^ 63) eqn:E1.
  - cbn [ctor_layout]. unfold pack_int.
    replace ((0 <=? v) && (v <? 256 ^ Z.of_nat 8)) with false; [reflexivity|].
    change (256 ^ Z.of_nat 8) with (2 ^ 64). lia.
  - destruct ((v >=? 2 ^ 31) || (v <? - 2 ^ 31)) eqn:E2; [|lia].
    cbn [ctor_layout]. unfold pack_int.
    change (256 ^ Z.of_nat 8 / 2) with (2 ^ 63).
    replace ((- 2 ^ 63 <=? v) && (v <? 2 ^ 63)) with false by lia. reflexivity.
Qed.

(* decoding the bytes of a packed integer gives the integer back *)
Definition unpack_int (signed : bool) (b : bytes) : Z :=
  if signed then s_dec LE b else u_dec LE b.

Lemma pack_int_roundtrip width signed v b :
  (0 < width)%nat -> pack_int width signed v = Ok b ->
  unpack_int signed b = v /\ length b = width.
Proof.
  intros Hw. unfold pack_int, unpack_int. destruct signed.
  - destruct ((- (256 ^ Z.of_nat width / 2) <=? v) && (v <? 256 ^ Z.of_nat width / 2)) eqn:E;
      [|discriminate].
    intros H. injection H as <-. split.
    + apply s_dec_enc; [exact Hw|lia].
    + exact (u_enc_length LE _ _).
  - destruct ((0 <=? v) && (v <? 256 ^ Z.of_nat width)) eqn:E; [|discriminate].
    intros H. injection H as <-. split.
    + apply u_dec_enc. lia.
    + exact (u_enc_length LE _ _).
Qed.

Lemma int_prop_roundtrip_lemma : forall n v, - 2 ^ 63 <= v < 2 ^ 64 ->
  exists p, int_prop n v = Ok p /\ p_name p = n /\
    let '(ty, width, signed) := ctor_layout (fst (to_int_property_value v)) in
    p_type p = ty /\ length (p_val p) = width /\ unpack_int signed (p_val p) = v.
Proof.
  intros n v Hv. unfold int_prop, to_int_property_value.
  destruct (v >=? 2 ^ 63) eqn:E1; [|destruct ((v >=? 2 ^ 31) || (v <? - 2 ^ 31)) eqn:E2];
    cbn [ctor_layout fst].
  - destruct (pack_int 8 false v) as [b|e] eqn:Ep.
    + destruct (pack_int_roundtrip 8 false v b ltac:(lia) Ep) as [H1 H2].
      eexists. split; [reflexivity|]. cbn [p_name p_type p_val]. repeat split; assumption.
    + exfalso. unfold pack_int in Ep. change (256 ^ Z.of_nat 8) with (2 ^ 64) in Ep.
      replace ((0 <=? v) && (v <? 2 ^ 64)) with true in Ep by lia. discriminate.
  - destruct (pack_int 8 true v) as [b|e] eqn:Ep.
    + destruct (pack_int_roundtrip 8 true v b ltac:(lia) Ep) as [H1 H2].
      eexists. split; [reflexivity|]. cbn [p_name p_type p_val]. repeat split; assumption.
    + exfalso. unfold pack_int in Ep. change (256 ^ Z.of_nat 8 / 2) with (2 ^ 63) in Ep.
      replace ((- 2 ^ 63 <=? v) && (v <? 2 ^ 63)) with true in Ep by lia. discriminate.
  - destruct (pack_int 4 true v) as [b|e] eqn:Ep.
    + destruct (pack_int_roundtrip 4 true v b ltac:(lia) Ep) as [H1 H2].
      eexists. split; [reflexivity|]. cbn [p_name p_type p_val]. repeat split; assumption.
    + exfalso. unfold pack_int in Ep. change (256 ^ Z.of_nat 4 / 2) with (2 ^ 31) in Ep.
      replace ((- 2 ^ 31 <=? v) && (v <? 2 ^ 31)) with true in Ep by lia. discriminate.
Qed.

(* ---- _infer_dtype ---------------------------------------------------------------------------- *)

(* the chosen dtype holds both extremes exactly when (max, min) avoids the
   holes of the chain: a maximum that needs the unsigned type of a width
   together with a negative minimum that still fits the signed type of that
   width (for 64 bits: any negative minimum) *)
Definition chain_hole (mx mn : Z) : bool :=
  ((2 ^ 7 <=? mx) && (mx <? 2 ^ 8) && (- 2 ^ 7 <=? mn) && (mn <? 0)) ||
  ((2 ^ 15 <=? mx) && (mx <? 2 ^ 16) && (- 2 ^ 15 <=? mn) && (mn <? 0)) ||
  ((2 ^ 31 <=? mx) && (mx <? 2 ^ 32) && (- 2 ^ 31 <=? mn) && (mn <? 0)) ||
  ((2 ^ 63 <=? mx) && (mn <? 0)).

Lemma infer_dtype_accepts_iff_lemma : forall mx mn,
  mn <= mx -> - 2 ^ 63 <= mn -> mx < 2 ^ 64 ->
  let r := dtype_range (infer_dtype_chain mx mn) in
  (in_range r mx /\ in_range r mn) <-> chain_hole mx mn = false.
Proof.
  intros mx mn H1 H2 H3. cbv zeta. unfold infer_dtype_chain, chain_hole.
  repeat match goal with
         | |- context [if ?c then _ else _] => destruct c eqn:?
         end; unfold in_range, dtype_range, fst, snd; lia.
Qed.

Lemma fold_max_mono r : forall z, z <= fold_left Z.max r z.
Proof.
  induction r as [|a r IH]; intros z; cbn [fold_left]; [lia|].
  specialize (IH (Z.max z a)). lia.
Qed.

Lemma fold_max_in r : forall z x, In x r -> x <= fold_left Z.max r z.
Proof.
  induction r as [|a r IH]; intros z x Hx; [destruct Hx|].
  cbn [fold_left]. destruct Hx as [Hx|Hx].
  - subst a. pose proof (fold_max_mono r (Z.max z x)). lia.
  - apply IH. exact Hx.
Qed.

Lemma fold_min_mono r : forall z, fold_left Z.min r z <= z.
Proof.
  induction r as [|a r IH]; intros z; cbn [fold_left]; [lia|].
  specialize (IH (Z.min z a)). lia.
Qed.

Lemma fold_min_in r : forall z x, In x r -> fold_left Z.min r z <= x.
Proof.
  induction r as [|a r IH]; intros z x Hx; [destruct Hx|].
  cbn [fold_left]. destruct Hx as [Hx|Hx].
  - subst a. pose proof (fold_min_mono r (Z.min z x)). lia.
  - apply IH. exact Hx.
Qed.

Lemma list_max_ge z r : forall x, In x (z :: r) -> x <= list_max z r.
Proof.
  intros x Hx. unfold list_max. destruct Hx as [Hx|Hx].
  - subst x. apply fold_max_mono.
  - apply fold_max_in. exact Hx.
Qed.

Lemma list_min_le z r : forall x, In x (z :: r) -> list_min z r <= x.
Proof.
  intros x Hx. unfold list_min. destruct Hx as [Hx|Hx].
  - subst x. apply fold_min_mono.
  - apply fold_min_in. exact Hx.
Qed.

Lemma layout_range d :
  let '(ty, width, signed) := dtype_layout d in
  (0 < width)%nat /\
  dtype_range d = (if signed then (- (256 ^ Z.of_nat width / 2), 256 ^ Z.of_nat width / 2)
                   else (0, 256 ^ Z.of_nat width)).
Proof. destruct d; cbn [dtype_layout]; split; try lia; reflexivity. Qed.

Lemma mapM_pack_spec width signed : forall zs vals,
  (0 < width)%nat ->
  mapM (fun z => match pack_int width signed z with Ok b => Ok b | Err _ => Err EOther end) zs
  = Ok vals ->
  Forall2 (fun z b => unpack_int signed b = z /\ length b = width) zs vals.
Proof.
  induction zs as [|z r IH]; intros vals Hw H.
  - cbn in H. injection H as <-. constructor.
  - cbn [mapM] in H. destruct (pack_int width signed z) as [b|e] eqn:Ep; cbn [bind] in H;
      [|discriminate].
    destruct (mapM _ r) as [bs|e] eqn:Er; cbn [bind] in H; [|discriminate].
    injection H as <-. constructor.
    + apply (pack_int_roundtrip width signed z b Hw Ep).
    + apply IH; [exact Hw|reflexivity].
Qed.

(* If NumPy accepts the list at the inferred dtype (np_int_array succeeds),
   every element is written as bytes of the dtype's width that decode back to
   the element: the round trip of the values is exact. *)
Lemma infer_dtype_fits_lemma : forall z r ty vals,
  int_list_data (z :: r) = Ok (ty, vals) ->
  let d := infer_dtype_chain (list_max z r) (list_min z r) in
  let '(ty', width, signed) := dtype_layout d in
  ty = ty' /\
  Forall2 (fun x b => unpack_int signed b = x /\ length b = width) (z :: r) vals.
Proof.
  intros z r ty vals H. cbv zeta. unfold int_list_data, np_int_array in H.
  pose proof (layout_range (infer_dtype_chain (list_max z r) (list_min z r))) as Hl.
  destruct (dtype_layout (infer_dtype_chain (list_max z r) (list_min z r))) as [[ty' width] signed].
  destruct Hl as [Hw _].
  destruct (mapM _ (z :: r)) as [bs|e] eqn:Em; cbn [bind] in H; [|discriminate].
  injection H as <- <-. split; [reflexivity|].
  apply mapM_pack_spec; assumption.
Qed.

(* ... and NumPy accepts exactly the lists whose extremes avoid the holes *)
Lemma pack_in_range width signed v :
  (exists b, pack_int width signed v = Ok b) <->
  in_range (if signed then (- (256 ^ Z.of_nat width / 2), 256 ^ Z.of_nat width / 2)
            else (0, 256 ^ Z.of_nat width)) v.
Proof.
  unfold pack_int, in_range. destruct signed; cbn [fst snd].
  - destruct ((- (256 ^ Z.of_nat width / 2) <=? v) && (v <? 256 ^ Z.of_nat width / 2)) eqn:E;
      split; intros H; try lia; try (eexists; reflexivity). destruct H as [b H]. discriminate.
  - destruct ((0 <=? v) && (v <? 256 ^ Z.of_nat width)) eqn:E;
      split; intros H; try lia; try (eexists; reflexivity). destruct H as [b H]. discriminate.
Qed.

Lemma mapM_pack_ok width signed zs :
  (forall x, In x zs -> exists b, pack_int width signed x = Ok b) ->
  exists vals,
    mapM (fun z => match pack_int width signed z with Ok b => Ok b | Err _ => Err EOther end) zs
    = Ok vals.
Proof.
  induction zs as [|z r IH]; intros H; [exists []; reflexivity|].
  destruct (H z (or_introl eq_refl)) as [b Hb].
  destruct (IH (fun x Hx => H x (or_intror Hx))) as [bs Hbs].
  exists (b :: bs). cbn [mapM]. rewrite Hb. cbn [bind]. rewrite Hbs. reflexivity.
Qed.

Lemma infer_dtype_accepts_lemma : forall z r,
  - 2 ^ 63 <= list_min z r -> list_max z r < 2 ^ 64 ->
  (exists ty vals, int_list_data (z :: r) = Ok (ty, vals)) <->
  chain_hole (list_max z r) (list_min z r) = false.
Proof.
  intros z r Hmn Hmx.
  assert (Hle : list_min z r <= list_max z r).
  { pose proof (list_max_ge z r z (or_introl eq_refl)).
    pose proof (list_min_le z r z (or_introl eq_refl)). lia. }
  pose proof (infer_dtype_accepts_iff_lemma _ _ Hle Hmn Hmx) as Hiff. cbv zeta in Hiff.
  rewrite <- Hiff. clear Hiff.
  unfold int_list_data, np_int_array.
  set (d := infer_dtype_chain (list_max z r) (list_min z r)).
  pose proof (layout_range d) as Hl.
  destruct (dtype_layout d) as [[ty' width] signed]. destruct Hl as [Hw Hr]. rewrite Hr.
  split.
  - intros [ty [vals H]].
    destruct (mapM _ (z :: r)) as [bs|e] eqn:Em; cbn [bind] in H; [|discriminate].
    pose proof (mapM_pack_spec width signed (z :: r) bs Hw Em) as HF.
    assert (Hall : forall x, In x (z :: r) -> exists b, pack_int width signed x = Ok b).
    { clear - Em. revert bs Em. induction (z :: r) as [|y l IH]; intros bs Em x Hx; [destruct Hx|].
      cbn [mapM] in Em. destruct (pack_int width signed y) as [b|e] eqn:Ep; cbn [bind] in Em;
        [|discriminate].
      destruct (mapM _ l) as [bs'|e] eqn:El; cbn [bind] in Em; [|discriminate].
      destruct Hx as [<-|Hx]; [eauto|]. eapply IH; [reflexivity|exact Hx]. }
    (* the extremes are elements *)
    assert (Hmax_in : In (list_max z r) (z :: r)).
    { clear. unfold list_max. revert z. induction r as [|y r IH]; intros z; cbn [fold_left].
      - left. reflexivity.
      - destruct (IH (Z.max z y)) as [H|H].
        + destruct (Z.max_spec z y) as [[_ E]|[_ E]]; rewrite E in *; [right; left|left]; exact H.
        + right. right. exact H. }
    assert (Hmin_in : In (list_min z r) (z :: r)).
    { clear. unfold list_min. revert z. induction r as [|y r IH]; intros z; cbn [fold_left].
      - left. reflexivity.
      - destruct (IH (Z.min z y)) as [H|H].
        + destruct (Z.min_spec z y) as [[_ E]|[_ E]]; rewrite E in *; [left|right; left]; exact H.
        + right. right. exact H. }
    split; apply pack_in_range; apply Hall; assumption.
  - intros [Hmaxr Hminr].
    destruct (mapM_pack_ok width signed (z :: r)) as [vals Hv].
    + intros x Hx. apply pack_in_range.
      pose proof (list_max_ge z r x Hx). pose proof (list_min_le z r x Hx).
      unfold in_range in *. destruct signed; cbn [fst snd] in *; lia.
    + exists ty', vals. rewrite Hv. reflexivity.
Qed.
