(* C04 / C19 top-level statements about the lazy read model: windows, the I/O
   plan, integer indexing with the one-chunk cache, and the eager path. *)
From Coq Require Import ZArith List Bool Lia ZifyBool.
From NpTdms Require Import Base.Res Base.PySlice Gen.PySlice_gen Model.LazyRead
     Proofs.LazyReadLemmas Proofs.LazyIndexProofs Proofs.LazyReadProofs Proofs.LazyWindowProofs
     Proofs.SliceProofs.
Import ListNotations.
Open Scope Z_scope.

Section Top.
  Variable V : Type.
  Variable zero : V.
  Notation segv := (segv V).
  Notation nv := (number_of_segment_values V).
  Notation pre := (pre V).

  Definition len_ok (length : option Z) : Prop :=
    match length with None => True | Some l => 0 <= l end.

  Lemma zlen_window : forall segs offset length, wf V segs = true -> 0 <= offset -> len_ok length ->
    zlen (window V segs offset length) =
    Z.max 0 (match length with
             | None => total_values V segs - offset
             | Some l => Z.min l (total_values V segs - offset)
             end).
  Proof.
    intros segs offset length Hwf Hoff Hlen. unfold window.
    pose proof (zlen_full V segs Hwf) as Hn.
    destruct length as [l|]; cbn in Hlen.
    - rewrite zlen_zfirstn by lia. rewrite zlen_zskipn by lia. lia.
    - rewrite zlen_zskipn by lia. lia.
  Qed.

  (* C04 (i): read_data(offset, length) on the repaired reader *)
  Theorem window_correct : forall rk segs offset length,
    wf V segs = true -> 0 <= offset -> len_ok length ->
    lz_read V zero rk segs offset length = Ok (window V segs offset length).
  Proof.
    intros rk segs offset length Hwf Hoff Hlen.
    unfold lz_read, read_channel_data.
    replace (offset <? 0) with false by lia.
    assert (Hl : match length with Some l => l <? 0 | None => false end = false).
    { destruct length; cbn in Hlen; [lia|reflexivity]. }
    rewrite Hl.
    destruct (lz_gen_spec V segs offset length Hwf Hoff Hlen) as (outs & log & Hgen & Hcat & _).
    rewrite Hgen. cbn [bind].
    destruct rk.
    - rewrite <- Hcat. rewrite <- (recv_numpy_exact V zero outs). f_equal. f_equal. f_equal.
      rewrite Hcat. symmetry. apply zlen_window; assumption.
    - rewrite Hcat. reflexivity.
  Qed.

  (* negative arguments are rejected *)
  Lemma lz_read_negative : forall rk segs offset length,
    offset < 0 \/ (exists l, length = Some l /\ l < 0) ->
    lz_read V zero rk segs offset length = Err EValue.
  Proof.
    intros rk segs offset length H. unfold lz_read, read_channel_data.
    destruct (offset <? 0) eqn:E; [reflexivity|].
    destruct H as [H|[l [-> H]]]; [lia|]. replace (l <? 0) with true by lia. reflexivity.
  Qed.

  (* C19: the chunks fetched are exactly the chunks that meet the window *)
  Theorem plan_exact : forall segs offset length,
    wf V segs = true -> 0 <= offset -> len_ok length ->
    exists plan,
      lz_plan V segs offset length = Ok plan /\
      (forall j c, In (j, c) plan <->
         exists sv, 0 <= j /\ nth_error segs (Z.to_nat j) = Some sv /\
                    hit V segs offset (win_end (total_values V segs) offset length) j sv c).
  Proof.
    intros segs offset length Hwf Hoff Hlen. unfold lz_plan.
    replace (offset <? 0) with false by lia.
    assert (Hl : match length with Some l => l <? 0 | None => false end = false).
    { destruct length; cbn in Hlen; [lia|reflexivity]. }
    rewrite Hl.
    destruct (lz_gen_spec V segs offset length Hwf Hoff Hlen) as (outs & log & Hgen & _ & Hlog).
    rewrite Hgen. cbn [bind]. exists log. split; [reflexivity|exact Hlog].
  Qed.

  (* ---- integer indexing -------------------------------------------------- *)

  Lemma py_index_spec : forall {A} (l : list A) i,
    let i' := if i <? 0 then i + zlen l else i in
    (0 <= i' < zlen l -> exists x, py_index l i = Ok x /\ nth_error l (Z.to_nat i') = Some x) /\
    (~ (0 <= i' < zlen l) -> py_index l i = Err EIndex).
  Proof.
    intros A l i i'. unfold py_index. fold i'. split; intros H.
    - replace ((0 <=? i') && (i' <? zlen l)) with true by lia.
      destruct (nth_error l (Z.to_nat i')) eqn:E; [eauto|].
      apply nth_error_None in E. unfold zlen in H. lia.
    - replace ((0 <=? i') && (i' <? zlen l)) with false by lia. reflexivity.
  Qed.

  Lemma nth_error_sl' : forall {A} (l : list A) a b k x, 0 <= a -> 0 <= k -> a + k < b ->
    nth_error l (Z.to_nat (a + k)) = Some x -> nth_error (sl a b l) (Z.to_nat k) = Some x.
  Proof. intros A l a b k x Ha Hk Hb H. rewrite nth_error_sl by lia. exact H. Qed.

  Lemma pre_nonneg : forall segs k, wf V segs = true -> 0 <= k -> 0 <= pre segs k.
  Proof.
    intros segs k Hwf Hk. pose proof (pre_mono V segs 0 k Hwf ltac:(lia) Hk) as H.
    unfold LazyReadProofs.pre in H at 1. rewrite psum_0 in H by lia. exact H.
  Qed.

  (* read_channel_chunk_for_index returns the chunk that holds the index *)
  Lemma read_chunk_for_index_spec : forall segs index,
    wf V segs = true -> 0 <= index < total_values V segs ->
    exists chunk j c sv,
      read_chunk_for_index V segs index = Ok (chunk, chunk_start V (pre segs j) sv c, (j, c)) /\
      0 <= j /\ nth_error segs (Z.to_nat j) = Some sv /\ sv_chunk sv <> 0 /\ 0 <= c < sv_nchunks sv /\
      chunk_start V (pre segs j) sv c <= index < chunk_end V (pre segs j) sv c /\
      chunk_end V (pre segs j) sv c = chunk_start V (pre segs j) sv c + zlen chunk /\
      chunk = sl (chunk_start V (pre segs j) sv c) (chunk_end V (pre segs j) sv c) (full V segs).
  Proof.
    intros segs index Hwf Hidx. unfold read_chunk_for_index.
    destruct (build_index V segs) as [f offs] eqn:Hbi.
    pose proof (build_index_ok V segs f offs Hwf Hbi) as Hix.
    set (n := total_values V segs) in *. set (m := zlen offs).
    pose proof (ix_f0 V _ _ _ Hix) as Hf0. pose proof (ix_fm V _ _ _ Hix) as Hfm. fold m in Hfm.
    pose proof (ix_sorted V _ _ _ Hix) as Hsorted.
    pose proof (ss_right_bounds offs index) as Hb1. fold m in Hb1.
    assert (Hnth : forall k, 0 <= k -> k < m -> nth_error offs (Z.to_nat k) = Some (pre segs (f + k + 1))).
    { intros k Hk1 Hk2. apply (ix_nth V _ _ _ Hix); fold m; lia. }
    assert (Hm : 0 < m).
    { destruct (Z.eq_dec m 0) as [Hm0|]; [|pose proof (zlen_nonneg offs); fold m in H; lia]. exfalso.
      pose proof (ix_pre_f V _ _ _ Hix) as H0. pose proof (ix_pre_last V _ _ _ Hix) as H1.
      fold m in H1. rewrite Hm0, Z.add_0_r in H1. fold n in H1. lia. }
    assert (Hlast : pre segs (f + m) = n) by (apply (ix_pre_last V _ _ _ Hix)).
    set (ssr := searchsorted_right offs index) in *.
    assert (Hr : forall k, 0 <= k -> k < m -> (pre segs (f + k + 1) <= index <-> k < ssr)).
    { intros k Hk1 Hk2. apply (ss_right_spec offs index k _ Hsorted Hk1 (Hnth k Hk1 Hk2)). }
    assert (Hssr : ssr < m).
    { destruct (Z_le_gt_dec m ssr); [|lia]. exfalso.
      assert (pre segs (f + (m - 1) + 1) <= index) by (apply Hr; lia).
      replace (f + (m - 1) + 1) with (f + m) in H by lia. lia. }
    set (j := f + ssr).
    assert (Hs1 : pre segs j <= index).
    { destruct (Z.eq_dec ssr 0) as [Hz|Hz].
      - unfold j. rewrite Hz, Z.add_0_r. rewrite (ix_pre_f V _ _ _ Hix). lia.
      - replace j with (f + (ssr - 1) + 1) by (unfold j; lia). apply Hr; lia. }
    assert (Hs2 : index < pre segs (j + 1)).
    { destruct (Z_lt_le_dec index (pre segs (j + 1))); [assumption|]. exfalso.
      assert (ssr < ssr); [|lia]. apply Hr; try lia. exact l. }
    (* the segment *)
    assert (Hjlen : j < zlen segs) by (unfold j; lia).
    destruct (proj1 (py_index_spec segs j)) as (sv & Hpi & Hnthj).
    { replace (j <? 0) with false by (unfold j; lia). unfold j in *; lia. }
    replace (j <? 0) with false in Hnthj by (unfold j; lia).
    rewrite Hpi. cbn [bind].
    assert (Hj0 : 0 <= j) by (unfold j; lia).
    pose proof (pre_succ_nth V segs j sv Hj0 Hnthj) as Hsucc.
    assert (Hwfsv : wf_seg V sv = true) by (eapply wf_In; [exact Hwf | eapply nth_error_In; exact Hnthj]).
    destruct (wf_seg_facts V sv Hwfsv) as (Hcs & HN & Hlen & Hfl & Hfin & Hok).
    assert (Hcs0 : sv_chunk sv <> 0).
    { intros Hz. unfold number_of_segment_values in Hsucc. rewrite Hz in Hsucc. cbn in Hsucc. lia. }
    rewrite (lookup_start V segs f offs j Hix ltac:(unfold j; lia) ltac:(unfold j; fold m; lia)).
    cbn [bind]. replace (sv_chunk sv =? 0) with false by lia.
    set (cs := sv_chunk sv) in *. set (N := sv_nchunks sv) in *.
    set (o := index - pre segs j).
    pose proof (Z.div_mod o cs ltac:(lia)) as Hdm. pose proof (Z.mod_pos_bound o cs ltac:(lia)) as Hmb.
    set (c := o / cs) in *.
    pose proof (nv_shape V sv Hwfsv) as Hshape. unfold shape_values in Hshape. fold cs N in Hshape.
    assert (HN1 : N <> 0) by (intros Hz; rewrite Hz in Hshape; cbn in Hshape; lia).
    replace (N =? 0) with false in Hshape by lia.
    assert (Hc0 : 0 <= c) by (unfold o in *; nia).
    assert (HcN : c < N) by (unfold o in *; nia).
    assert (Hpl : forall k, 0 <= k -> k <= N -> plen V (sv_vals sv) k = Z.min (k * cs) (nv sv)).
    { intros k Hk1 Hk2. apply wf_seg_plen; assumption. }
    (* the fetch *)
    assert (Hmap : mapM (chunk_at V sv) (zrange c (1 + c)) = Ok (sl c (c + 1) (sv_vals sv))).
    { replace (1 + c) with (c + 1) by lia. apply mapM_chunk_at'; fold N; lia. }
    assert (Hone : exists ch, sl c (c + 1) (sv_vals sv) = [ch]).
    { assert (Hl : zlen (sl c (c + 1) (sv_vals sv)) = 1) by (rewrite zlen_sl by lia; lia).
      destruct (sl c (c + 1) (sv_vals sv)) as [|x [|y t]].
      - rewrite zlen_nil in Hl. lia.
      - eauto.
      - rewrite !zlen_cons in Hl. pose proof (zlen_nonneg t). lia. }
    destruct Hone as [ch Hch].
    assert (Hfetch : exists chunk, seg_fetch V sv c 1 = Ok [chunk] /\ chunk = ch).
    { unfold seg_fetch. destruct (sv_interleaved sv).
      - replace (sv_chunk sv * (1 + c - c) <? 0) with false by (fold cs; lia).
        rewrite Hmap. cbn [bind]. rewrite Hch. cbn [concat]. rewrite app_nil_r. eauto.
      - rewrite Hmap, Hch. eauto. }
    destruct Hfetch as (chunk & Hfetch & ->). rewrite Hfetch. cbn [bind].
    assert (Hchcat : ch = concat (sl c (c + 1) (sv_vals sv))) by (rewrite Hch; cbn [concat]; rewrite app_nil_r; reflexivity).
    assert (Hchlen : zlen ch = Z.min ((c + 1) * cs) (nv sv) - c * cs).
    { rewrite Hchcat. rewrite zlen_concat_sl by lia. rewrite !Hpl by lia. unfold o in *. nia. }
    exists ch, j, c, sv.
    replace (j <? 0) with false by lia.
    unfold chunk_start, chunk_end. fold cs. split; [reflexivity|].
    split; [exact Hj0|]. split; [exact Hnthj|]. split; [exact Hcs0|]. split; [lia|].
    split; [unfold o in *; nia|]. split; [lia|].
    (* the chunk as a window of the full data *)
    destruct (nth_error_split3 V segs j sv Hj0 Hnthj) as (l1 & l2 & Hsegs & Hl1).
    assert (Hwf1 : wf V l1 = true) by (rewrite Hsegs in Hwf; apply wf_app in Hwf; apply Hwf).
    assert (Hpre1 : zlen (full V l1) = pre segs j).
    { rewrite zlen_full by exact Hwf1. rewrite Hsegs, <- Hl1. symmetry. apply pre_app. }
    rewrite Hchcat. rewrite concat_sl by lia. rewrite !Hpl by lia. fold (seg_vals V sv).
    rewrite Hsegs at 3. rewrite full_app, full_cons.
    rewrite <- Hpre1. symmetry.
    rewrite sl_middle; rewrite ?Hpre1; [ | unfold o in *; nia | ].
    - f_equal; unfold o in *; nia.
    - destruct (wf_seg_total V sv Hwfsv) as [Hsl _]. rewrite Hsl. lia.
  Qed.

  (* the cache holds a window of the channel's data *)
  Definition cache_inv (segs : list segv) (st : cache V) : Prop :=
    match st with
    | None => True
    | Some (ch, (b0, b1)) => 0 <= b0 /\ b1 = b0 + zlen ch /\ ch = sl b0 b1 (full V segs)
    end.

  (* C04 (iii): channel[i] returns what indexing the full array returns
     (negative indices wrap once, IndexError outside [-n, n)), whatever the
     cache holds; a miss fetches exactly the one chunk that holds the index *)
  Theorem index_correct : forall segs st i,
    wf V segs = true -> cache_inv segs st ->
    match py_index (full V segs) i with
    | Ok x => exists st' log, read_at_index V segs st i = Ok (x, st', log) /\ cache_inv segs st' /\
                              (log = [] \/
                               exists j c sv, log = [(j, c)] /\ 0 <= j /\
                                 nth_error segs (Z.to_nat j) = Some sv /\
                                 sv_chunk sv <> 0 /\ 0 <= c < sv_nchunks sv /\
                                 let i' := if i <? 0 then i + total_values V segs else i in
                                 chunk_start V (pre segs j) sv c <= i' < chunk_end V (pre segs j) sv c)
    | Err _ => read_at_index V segs st i = Err EIndex
    end.
  Proof.
    intros segs st i Hwf Hinv.
    pose proof (zlen_full V segs Hwf) as Hn. set (n := total_values V segs) in *.
    unfold read_at_index, read_at_index_check. fold n.
    destruct (py_index_spec (full V segs) i) as [Hin Hout]. rewrite Hn in Hin, Hout.
    cbv zeta in Hin, Hout. cbv zeta.
    set (i' := if i <? 0 then n + i else i).
    assert (Hi' : (if i <? 0 then i + n else i) = i') by (unfold i'; destruct (i <? 0); lia).
    rewrite Hi' in *.
    destruct (Z_le_gt_dec 0 i') as [H0|H0]; [destruct (Z_lt_le_dec i' n) as [H1|H1]|].
    - (* in range *)
      destruct (Hin ltac:(lia)) as (x & Hpx & Hnx). rewrite Hpx.
      replace ((i' <? 0) || (i' >=? n)) with false by lia. cbn [bind].
      set (hitc := match st with
                   | Some (cached_chunk, (b0, b1)) =>
                     if (b0 <=? i') && (i' <? b1) then Some (cached_chunk, b0) else None
                   | None => None
                   end).
      destruct hitc as [[cached b0]|] eqn:Ehit.
      + (* cache hit *)
        assert (Hst : exists b1, st = Some (cached, (b0, b1)) /\ b0 <= i' < b1).
        { unfold hitc in Ehit. destruct st as [[cc [a0 a1]]|]; [|discriminate].
          destruct ((a0 <=? i') && (i' <? a1)) eqn:E; [|discriminate].
          injection Ehit as -> ->. exists a1. split; [reflexivity|lia]. }
        destruct Hst as (b1 & Hst & Hb). subst st.
        cbn [cache_inv] in Hinv. destruct Hinv as (Hb0 & Hb1 & Hcached).
        destruct (proj1 (py_index_spec cached (i' - b0))) as (y & Hpy & Hny).
        { replace (i' - b0 <? 0) with false by lia. lia. }
        replace (i' - b0 <? 0) with false in Hny by lia.
        rewrite Hpy. cbn [bind].
        assert (y = x).
        { rewrite Hcached in Hny. rewrite nth_error_sl in Hny by lia.
          replace (b0 + (i' - b0)) with i' in Hny by lia. congruence. }
        subst y. eexists _, _. split; [reflexivity|]. split; [cbn [cache_inv]; auto|]. left. reflexivity.
      + (* miss: fetch the chunk that holds the index *)
        destruct (read_chunk_for_index_spec segs i' Hwf ltac:(fold n; lia))
          as (chunk & j & c & sv & Hrc & Hj0 & Hnthj & Hcs & Hc & Hrange & Hend & Hchunk).
        rewrite Hrc. cbn [bind].
        set (co := chunk_start V (pre segs j) sv c) in *.
        assert (Hco0 : 0 <= co).
        { unfold co, chunk_start. pose proof (pre_nonneg segs j Hwf Hj0).
          assert (Hwfsv : wf_seg V sv = true) by (eapply wf_In; [exact Hwf | eapply nth_error_In; exact Hnthj]).
          destruct (wf_seg_facts V sv Hwfsv) as (Hcs' & _). nia. }
        destruct (proj1 (py_index_spec chunk (i' - co))) as (y & Hpy & Hny).
        { replace (i' - co <? 0) with false by lia. lia. }
        replace (i' - co <? 0) with false in Hny by lia.
        rewrite Hpy. cbn [bind].
        assert (y = x).
        { rewrite Hchunk in Hny. rewrite nth_error_sl in Hny by lia.
          replace (co + (i' - co)) with i' in Hny by lia. congruence. }
        subst y. eexists _, _. split; [reflexivity|]. split.
        * cbn [cache_inv]. split; [exact Hco0|]. split; [reflexivity|].
          rewrite <- Hend. exact Hchunk.
        * right. exists j, c, sv. split; [reflexivity|]. split; [exact Hj0|]. split; [exact Hnthj|].
          split; [exact Hcs|]. split; [exact Hc|]. exact Hrange.
    - (* too large *)
      rewrite Hout by lia. replace ((i' <? 0) || (i' >=? n)) with true by lia. reflexivity.
    - (* too small *)
      rewrite Hout by lia. replace ((i' <? 0) || (i' >=? n)) with true by lia. reflexivity.
  Qed.

  (* C19: indexing again inside the cached chunk's bounds issues no read *)
  Theorem cache_hit_reads_nothing : forall segs cached b0 b1 i r,
    let i' := if i <? 0 then total_values V segs + i else i in
    b0 <= i' < b1 ->
    read_at_index V segs (Some (cached, (b0, b1))) i = Ok r ->
    snd r = [] /\ snd (fst r) = Some (cached, (b0, b1)).
  Proof.
    intros segs cached b0 b1 i r i' Hb H. unfold read_at_index, read_at_index_check in H.
    fold i' in H. cbv zeta in H.
    destruct ((i' <? 0) || (i' >=? total_values V segs)); [discriminate|]. cbn [bind] in H.
    replace ((b0 <=? i') && (i' <? b1)) with true in H by lia.
    destruct (py_index cached (i' - b0)); [|discriminate]. cbn [bind] in H.
    injection H as <-. split; reflexivity.
  Qed.

  (* after any successful channel[i], the cache is exactly the bounds of the
     chunk read, so a second index inside those bounds reads nothing *)
  Corollary reindex_reads_nothing : forall segs st i x st' log i2 r,
    read_at_index V segs st i = Ok (x, st', log) ->
    (exists cached b0 b1, st' = Some (cached, (b0, b1)) /\
       let i2' := if i2 <? 0 then total_values V segs + i2 else i2 in b0 <= i2' < b1) ->
    read_at_index V segs st' i2 = Ok r -> snd r = [].
  Proof.
    intros segs st i x st' log i2 r _ (cached & b0 & b1 & -> & Hb) H.
    apply (cache_hit_reads_nothing segs cached b0 b1 i2 r Hb H).
  Qed.

  (* ---- the eager path (slice_raw_data) ---------------------------------- *)

  Theorem eager_window_correct : forall (data : list V) offset length,
    0 <= offset -> len_ok length ->
    eager_read V data offset length =
      match length with None => zskipn offset data | Some l => zfirstn l (zskipn offset data) end.
  Proof.
    intros data offset length Hoff Hlen. unfold eager_read. destruct length as [l|]; cbn in Hlen.
    - rewrite py_slice_nonneg by lia. unfold sl. f_equal. lia.
    - destruct (offset =? 0) eqn:E.
      + assert (offset = 0) by lia. subst. rewrite zskipn_nonpos by lia. reflexivity.
      + apply py_slice_from_nonneg. lia.
  Qed.

  (* ---- slices: the translated _read_slice executed by the lazy reader ---- *)

  Lemma lz_read_is_ideal : forall rk segs a b, wf V segs = true ->
    lz_read V zero rk segs a (Some b) = read_ideal (full V segs) a b.
  Proof.
    intros rk segs a b Hwf. unfold read_ideal.
    destruct (a <? 0) eqn:Ea.
    - apply lz_read_negative. left. lia.
    - destruct (b <? 0) eqn:Eb.
      + apply lz_read_negative. right. exists b. split; [reflexivity|lia].
      + rewrite window_correct by (try assumption; cbn; lia). reflexivity.
  Qed.

  Theorem slice_plan_correct : forall rk segs start stop step, wf V segs = true ->
    run_slice (fun a b => lz_read V zero rk segs a (Some b)) (total_values V segs) start stop step
    = py_slice3 (full V segs) start stop step.
  Proof.
    intros rk segs start stop step Hwf.
    rewrite <- (slice_plan_correct_ideal (full V segs) start stop step).
    rewrite (zlen_full V segs Hwf). unfold run_slice.
    destruct (read_slice_gen (total_values V segs) start stop step) as [p|e]; [|reflexivity].
    cbn [bind]. apply interp_plan_ext. intros a b. apply lz_read_is_ideal. exact Hwf.
  Qed.

End Top.
