(* Proofs/HornerCompose.v -- the rounding bounds of Proofs/HornerTables.v composed with the
   float model's piece selection (Proofs/ThermoCoverage.v) and with the statements over R
   (Proofs/ThermoAll.v): what Model/ThermoF.v computes in binary64 against the exact real
   reference function, forward and inverse, for every finite binary64 input in range. *)
From Coq Require Import Reals ZArith List Lra Bool.
From Coq Require Import PrimFloat FloatOps.
From Flocq Require Import Core BinarySingleNaN.
From Interval Require Import Tactic.
Import ListNotations.
From NpTdms Require Import Gen.ThermoTables.
From NpTdms Require Import Gen.ThermoNist.
From NpTdms Require Import Model.ThermoF.
From NpTdms Require Import Model.ThermoR.
From NpTdms Require Import Proofs.ThermoCoverage.
From NpTdms Require Import Proofs.ThermoReal.
From NpTdms Require Import Proofs.ThermoAll.
From NpTdms Require Import Proofs.HornerRound.
From NpTdms Require Import Proofs.HornerTables.
From NpTdms Require Import Proofs.HornerTablesFwd.
From NpTdms Require Import Proofs.HornerTablesInv.
Open Scope R_scope.

(* ---- finiteness from the boolean table check ------------------------------------------------ *)

Lemma forallb_Ffin : forall cs, forallb Coq.Floats.PrimFloat.is_finite cs = true -> Forall Ffin cs.
Proof.
  induction cs as [|c r IH]; intros H; [constructor|].
  cbn [forallb] in H. apply andb_prop in H. destruct H as [H1 H2].
  constructor; [apply Ffin_prim; exact H1|apply IH; exact H2].
Qed.

Definition opt_Ffin (o : option float) : Prop := match o with None => True | Some a => Ffin a end.

Lemma opt_finb_Ffin : forall o, opt_finb o = true -> opt_Ffin o.
Proof. intros [a|] H; [apply Ffin_prim; exact H|exact I]. Qed.

Lemma Ffin_not_nan : forall x, Ffin x -> Coq.Floats.PrimFloat.is_nan x = false.
Proof.
  intros x H. rewrite FP.is_nan_equiv. unfold Ffin in H.
  destruct (FP.Prim2B x); try reflexivity; discriminate H.
Qed.

(* ---- one piece: from piece_ok to a statement about the float evaluation ---------------------- *)

(* the float piece pF, evaluated on a finite x that the real piece q selects inside [lo, hi],
   is finite and within snd Xe of the exact real polynomial of q *)
Definition piece_rounding (lo hi : R) (pF : pieceF) (q : pieceR) (Xe : R * R) : Prop :=
  match pF with
  | (_, _, c :: cs) =>
      forall x, Ffin x -> selR q (FR x) -> lo <= FR x <= hi ->
        Ffin (horner c cs x) /\ Rabs (FR (horner c cs x) - polyR q (FR x)) <= snd Xe
  | (_, _, []) => False
  end.

Definition piece_tied (lo hi : R) (pF : pieceF) (q : pieceR) (Xe : R * R) : Prop :=
  piece_FR pF = Some q /\ pieceF_finb pF = true /\ piece_rounding lo hi pF q Xe.

Lemma pieces_rounding_gen : forall lo hi rawF rawR Xes,
  forallb pieceF_finb rawF = true -> map piece_FR rawF = map Some rawR ->
  all2 (piece_ok lo hi) rawR Xes -> all3 (piece_tied lo hi) rawF rawR Xes.
Proof.
  intros lo hi. induction rawF as [|pF rF IH]; intros rawR Xes Hfin Hmap Hok.
  - destruct rawR; [|discriminate Hmap]. destruct Xes; [exact I|destruct Hok].
  - destruct rawR as [|q rR]; [discriminate Hmap|]. destruct Xes as [|Xe rX]; [destruct Hok|].
    cbn [map] in Hmap. injection Hmap as Hq Hrest.
    cbn [forallb] in Hfin. apply andb_prop in Hfin. destruct Hfin as [Hf1 Hf2].
    destruct Hok as [[Hrange [B HB]] Hok'].
    cbn [all3]. split; [|apply IH; assumption].
    split; [exact Hq|]. split; [exact Hf1|].
    destruct pF as [[s e] cs0]. destruct cs0 as [|c cs]; [discriminate Hq|].
    cbn [piece_FR] in Hq. injection Hq as Hq. subst q.
    cbn [pieceF_finb] in Hf1. apply andb_prop in Hf1. destruct Hf1 as [_ Hcs].
    cbn [forallb] in Hcs. apply andb_prop in Hcs. destruct Hcs as [Hc Hcs].
    cbn [piece_rounding]. intros x Hx Hsel Hr.
    cbv [pr_c0 pr_cs fst snd] in HB.
    unfold polyR. cbv [pr_c0 pr_cs fst snd].
    apply (horner_rounding c cs x (fst Xe) B (snd Xe) Hx (Ffin_prim _ Hc) (forallb_Ffin _ Hcs)).
    + apply Hrange; assumption.
    + exact HB.
Qed.

(* ---- IEEE comparisons of the float model select the same piece over R ------------------------ *)

Lemma within_range_selR : forall s e cs p q x,
  mk_polynomial (s, e, cs) = Ok p -> opt_finb s = true -> opt_finb e = true -> Ffin x ->
  piece_FR (s, e, cs) = Some q ->
  within_range (applicable_range p) x = true ->
  selR q (FR x) /\ coefficients p = cs.
Proof.
  intros s e cs p q x Hmk Hs He Hx Hq Hw.
  apply opt_finb_Ffin in Hs. apply opt_finb_Ffin in He.
  destruct cs as [|c cs']; [discriminate Hq|]. cbn [piece_FR] in Hq. injection Hq as Hq. subst q.
  unfold mk_polynomial in Hmk. cbv [selR pr_start pr_end fst snd].
  destruct s as [s|], e as [e|]; cbn [mk_range bind option_map opt_Ffin] in *.
  - destruct (e <=? s)%float; [discriminate Hmk|]. injection Hmk as <-.
    cbn [applicable_range coefficients within_range] in *. split; [|reflexivity].
    unfold wrF_both in Hw. apply andb_prop in Hw. destruct Hw as [H1 H2].
    unfold wrR_both. split; [apply leb_FR; assumption|apply ltb_FR; assumption].
  - injection Hmk as <-. cbn [applicable_range coefficients within_range] in *. split; [|reflexivity].
    unfold wrF_start_only in Hw. unfold wrR_start_only. apply leb_FR; assumption.
  - injection Hmk as <-. cbn [applicable_range coefficients within_range] in *. split; [|reflexivity].
    unfold wrF_end_only in Hw. unfold wrR_end_only. apply ltb_FR; assumption.
  - discriminate Hmk.
Qed.

Lemma mk_polynomials_In : forall raw ps p,
  mk_polynomials raw = Ok ps -> In p ps -> exists pF, In pF raw /\ mk_polynomial pF = Ok p.
Proof.
  induction raw as [|pF r IH]; intros ps p H Hin; cbn [mk_polynomials] in H.
  - injection H as <-. destruct Hin.
  - destruct (mk_polynomial pF) as [p0|] eqn:E0; [|discriminate H]. cbn [bind] in H.
    destruct (mk_polynomials r) as [ps0|] eqn:E1; [|discriminate H]. cbn [bind] in H.
    injection H as <-. destruct Hin as [<-|Hin].
    + exists pF. split; [left; reflexivity|exact E0].
    + destruct (IH ps0 p eq_refl Hin) as [pF' [H1 H2]]. exists pF'. split; [right; exact H1|exact H2].
Qed.

Lemma type_tc_parts : forall T tc, type_tc T = Ok tc ->
  mk_polynomials (code_fwdF T) = Ok (forward_polynomials tc) /\
  mk_polynomials (code_invF T) = Ok (inverse_polynomials tc) /\
  exponential_term tc = code_expF T.
Proof.
  intros T tc H. unfold type_tc, mk_thermocouple in H.
  destruct (mk_polynomials (code_fwdF T)) as [f|]; [|discriminate H]. cbn [bind] in H.
  destruct (mk_polynomials (code_invF T)) as [i|]; [|discriminate H]. cbn [bind] in H.
  destruct (negb (verify_contiguous None f)); [discriminate H|].
  destruct (negb (verify_contiguous None i)); [discriminate H|].
  injection H as <-. repeat split.
Qed.

(* ---- a whole table ----------------------------------------------------------------------------- *)

Lemma table_rounding : forall lo hi eps rawF rawR Xes ps,
  mk_polynomials rawF = Ok ps -> forallb pieceF_finb rawF = true ->
  map piece_FR rawF = map Some rawR ->
  all2 (piece_ok lo hi) rawR Xes -> Forall (fun Xe => snd Xe <= eps) Xes ->
  forall p c cs x, In p ps -> coefficients p = c :: cs ->
    within_range (applicable_range p) x = true -> Ffin x -> lo <= FR x <= hi ->
    exists q, In q rawR /\ selR q (FR x) /\ Ffin (horner c cs x) /\
              Rabs (FR (horner c cs x) - polyR q (FR x)) <= eps.
Proof.
  intros lo hi eps rawF rawR Xes ps Hmk Hfin Hmap Hok Heps p c cs x Hp Hc Hw Hx Hr.
  destruct (mk_polynomials_In rawF ps p Hmk Hp) as [pF [HpF Hmkp]].
  pose proof (pieces_rounding_gen lo hi rawF rawR Xes Hfin Hmap Hok) as Hall.
  destruct (all3_In1 _ _ _ _ pF Hall HpF) as [q [Xe [Hq [HXe [Htie [Hfb Hround]]]]]].
  destruct pF as [[s e] cs0].
  pose proof Hfb as Hfb'. cbn [pieceF_finb] in Hfb'. apply andb_prop in Hfb'. destruct Hfb' as [Hse _].
  apply andb_prop in Hse. destruct Hse as [Hs He].
  destruct (within_range_selR s e cs0 p q x Hmkp Hs He Hx Htie Hw) as [Hsel Hcs].
  rewrite Hc in Hcs. subst cs0. cbn [piece_rounding] in Hround.
  destruct (Hround x Hx Hsel Hr) as [Hf Hb].
  exists q. split; [exact Hq|]. split; [exact Hsel|]. split; [exact Hf|].
  rewrite Forall_forall in Heps. specialize (Heps Xe HXe). cbv beta in Heps. lra.
Qed.

(* ---- the sixteen tables ------------------------------------------------------------------------ *)

Theorem forward_rounding_all : forall T, exists tc, type_tc T = Ok tc /\
  forall x, Ffin x -> fst (fwd_range T) <= FR x <= snd (fwd_range T) ->
  exists v q, celsius_to_mv_poly tc x = Ok v /\ Ffin v /\ In q (code_fwdR T) /\ selR q (FR x) /\
              Rabs (FR v - polyR q (FR x)) <= eps_fwd T.
Proof.
  intros T. destruct (conversions_select_one_polynomial T) as [tc [Htc Hsel]].
  exists tc. split; [exact Htc|]. intros x Hx Hr.
  destruct (Hsel x (Ffin_not_nan x Hx)) as [[p [c [cs [Hp [Hw [Hc Hv]]]]]] _].
  destruct (type_tc_parts T tc Htc) as [Hf _].
  destruct (table_rounding _ _ (eps_fwd T) _ _ _ _ Hf (proj1 (tables_finite T)) (fwd_tables_FR T)
              (fwd_pieces_ok T) (eps_fwd_max T) p c cs x Hp Hc Hw Hx Hr) as [q [Hq [Hs [Hfin Hb]]]].
  exists (horner c cs x), q. repeat split; assumption.
Qed.

Theorem inverse_rounding_all : forall T, exists tc, type_tc T = Ok tc /\
  forall x, Ffin x -> fst (inv_range T) <= FR x <= snd (inv_range T) ->
  exists v q, mv_to_celsius tc x = Ok v /\ Ffin v /\ In q (code_invR T) /\ selR q (FR x) /\
              Rabs (FR v - polyR q (FR x)) <= eps_inv T.
Proof.
  intros T. destruct (conversions_select_one_polynomial T) as [tc [Htc Hsel]].
  exists tc. split; [exact Htc|]. intros x Hx Hr.
  destruct (Hsel x (Ffin_not_nan x Hx)) as [_ [p [c [cs [Hp [Hw [Hc Hv]]]]]]].
  destruct (type_tc_parts T tc Htc) as [_ [Hi _]].
  destruct (table_rounding _ _ (eps_inv T) _ _ _ _ Hi (proj2 (tables_finite T)) (inv_tables_FR T)
              (inv_pieces_ok T) (eps_inv_max T) p c cs x Hp Hc Hw Hx Hr) as [q [Hq [Hs [Hfin Hb]]]].
  exists (horner c cs x), q. repeat split; assumption.
Qed.

(* ---- against the reference function (fwd_value of Model/ThermoR.v) ---------------------------- *)

(* over R at most one forward piece selects a given t *)
Lemma fwd_sel_unique : forall T p q t,
  In p (code_fwdR T) -> In q (code_fwdR T) -> selR p t -> selR q t -> p = q.
Proof.
  intros T p q t Hp Hq Hsp Hsq.
  destruct T;
    cbv [code_fwdR type_b_fwdR type_e_fwdR type_j_fwdR type_k_fwdR type_n_fwdR type_r_fwdR
         type_s_fwdR type_t_fwdR In] in Hp, Hq;
    repeat (destruct Hp as [Hp|Hp]; [symmetry in Hp|]); try contradiction;
    repeat (destruct Hq as [Hq|Hq]; [symmetry in Hq|]); try contradiction;
    subst p q; try reflexivity; exfalso;
    cbv - [Rle Rlt Q2R Rdiv Rmult Ropp IZR Rinv Rplus Rminus] in Hsp, Hsq; lra.
Qed.

Lemma exp_tables_agree : forall T, code_expF T = None -> code_expR T = None.
Proof. intros T; destruct T; cbv; intros H; try reflexivity; discriminate H. Qed.

(* types without exponential term (all but K): the value celsius_to_mv returns, against
   whatever the reference relation gives at FR x *)
Theorem forward_reference_all : forall T, code_expF T = None -> exists tc, type_tc T = Ok tc /\
  forall x, Ffin x -> fst (fwd_range T) <= FR x <= snd (fwd_range T) ->
  exists v, celsius_to_mv tc x = Ok (Exact v) /\ Ffin v /\
    (exists r, fwd_value (code_expR T) (code_fwdR T) (FR x) r) /\
    forall r, fwd_value (code_expR T) (code_fwdR T) (FR x) r -> Rabs (FR v - r) <= eps_fwd T.
Proof.
  intros T Hexp. destruct (forward_rounding_all T) as [tc [Htc H]].
  exists tc. split; [exact Htc|]. intros x Hx Hr.
  destruct (H x Hx Hr) as [v [q [Hv [Hfin [Hq [Hsel Hb]]]]]].
  destruct (type_tc_parts T tc Htc) as [_ [_ He]].
  pose proof (exp_tables_agree T Hexp) as HexpR.
  exists v. split.
  { unfold celsius_to_mv. rewrite Hv. cbn [bind]. rewrite He, Hexp. reflexivity. }
  split; [exact Hfin|]. split.
  { exists (polyR q (FR x)). exists q. split; [exact Hq|]. split; [exact Hsel|].
    apply PV_none. exact HexpR. }
  intros r [p [Hp [Hsp Hpv]]].
  assert (p = q) by (apply (fwd_sel_unique T p q (FR x)); assumption). subst p.
  destruct Hpv as [_|a Ha _|a Ha _]; [exact Hb| |]; rewrite HexpR in Ha; discriminate Ha.
Qed.

(* comparisons of a finite float with 0 *)
Lemma leb0_true : forall x, Ffin x -> 0 <= FR x -> (0 <=? x)%float = true.
Proof.
  intros x Hx H. rewrite FP.leb_equiv. rewrite (Bleb_correct _ _ _ _ Ffin_zero Hx).
  fold (FR 0%float). fold (FR x). rewrite FR_zero. apply Rle_bool_true. exact H.
Qed.
Lemma leb0_false : forall x, Ffin x -> FR x < 0 -> (0 <=? x)%float = false.
Proof.
  intros x Hx H. rewrite FP.leb_equiv. rewrite (Bleb_correct _ _ _ _ Ffin_zero Hx).
  fold (FR 0%float). fold (FR x). rewrite FR_zero. apply Rle_bool_false. exact H.
Qed.

(* v + 0 is v *)
Lemma add_zero_exact : forall v, Ffin v -> Ffin (v + 0)%float /\ FR (v + 0)%float = FR v.
Proof.
  intros v Hv. destruct (add_ok v 0%float Hv Ffin_zero) as [H1 H2].
  - rewrite FR_zero, Rplus_0_r, rnd_FR. apply FR_lt_ovf.
  - split; [exact H1|]. rewrite H2, FR_zero, Rplus_0_r. apply rnd_FR.
Qed.

(* type K.  Below 0 degC the code adds 0.0 to the polynomial value; from 0 degC on it adds
   a_0*exp(a_1*(t - a_2)^2), for which there is no binary64 model (PrimFloat has no exp): the
   float model returns the polynomial value v and the unevaluated term (PlusExp), and the bound
   is for  v + (exact real exponential term)  against the reference value. *)
Theorem forward_reference_K : exists tc aF aR, type_tc TK = Ok tc /\
  code_expF TK = Some aF /\ code_expR TK = Some aR /\
  forall x, Ffin x -> fst (fwd_range TK) <= FR x <= snd (fwd_range TK) ->
  (exists r, fwd_value (code_expR TK) (code_fwdR TK) (FR x) r) /\
  (FR x < 0 -> exists v, celsius_to_mv tc x = Ok (Exact v) /\ Ffin v /\
     forall r, fwd_value (code_expR TK) (code_fwdR TK) (FR x) r -> Rabs (FR v - r) <= eps_fwd TK) /\
  (0 <= FR x -> exists v, celsius_to_mv tc x = Ok (PlusExp v aF x) /\ Ffin v /\
     forall r, fwd_value (code_expR TK) (code_fwdR TK) (FR x) r ->
       Rabs (FR v + exp_fun aR (FR x) - r) <= eps_fwd TK).
Proof.
  destruct (forward_rounding_all TK) as [tc [Htc H]].
  destruct (type_tc_parts TK tc Htc) as [_ [_ He]].
  destruct (code_expF TK) as [aF|] eqn:EF; [|discriminate EF].
  destruct (code_expR TK) as [aR|] eqn:ER; [|discriminate ER].
  exists tc, aF, aR. split; [exact Htc|]. split; [reflexivity|]. split; [reflexivity|].
  intros x Hx Hr.
  destruct (H x Hx Hr) as [v [q [Hv [Hfin [Hq [Hsel Hb]]]]]].
  assert (Hcond : forall t, exp_condR t <-> 0 <= t).
  { intros t. unfold exp_condR. cbv [Q2R QArith_base.Qnum QArith_base.Qden]. split; intros H0; lra. }
  split.
  { destruct (Rle_dec 0 (FR x)) as [H0|H0].
    - exists (polyR q (FR x) + exp_fun aR (FR x)), q. split; [exact Hq|]. split; [exact Hsel|].
      apply PV_on; [reflexivity|]. apply Hcond. exact H0.
    - exists (polyR q (FR x) + 0), q. split; [exact Hq|]. split; [exact Hsel|].
      apply (PV_off _ _ _ aR); [reflexivity|]. intros Hc. apply Hcond in Hc. lra. }
  split.
  - intros Hneg. destruct (add_zero_exact v Hfin) as [Hf0 Hv0].
    exists (v + 0)%float. split.
    { unfold celsius_to_mv. rewrite Hv. cbn [bind]. rewrite He.
      unfold exp_condF. change (0x0.0p+0)%float with 0%float. rewrite (leb0_false x Hx Hneg). reflexivity. }
    split; [exact Hf0|]. intros r [p [Hp [Hsp Hpv]]].
    assert (p = q) by (apply (fwd_sel_unique TK p q (FR x)); assumption). subst p.
    rewrite Hv0. destruct Hpv as [Ha|a Ha Hc|a Ha Hc].
    + discriminate Ha.
    + apply Hcond in Hc. lra.
    + rewrite Rplus_0_r. exact Hb.
  - intros Hpos. exists v. split.
    { unfold celsius_to_mv. rewrite Hv. cbn [bind]. rewrite He.
      unfold exp_condF. change (0x0.0p+0)%float with 0%float. rewrite (leb0_true x Hx Hpos). reflexivity. }
    split; [exact Hfin|]. intros r [p [Hp [Hsp Hpv]]].
    assert (p = q) by (apply (fwd_sel_unique TK p q (FR x)); assumption). subst p.
    destruct Hpv as [Ha|a Ha Hc|a Ha Hc].
    + discriminate Ha.
    + injection Ha as <-.
      replace (FR v + exp_fun aR (FR x) - (polyR q (FR x) + exp_fun aR (FR x)))
        with (FR v - polyR q (FR x)) by ring. exact Hb.
    + exfalso. apply Hc. apply Hcond. exact Hpos.
Qed.

(* ---- the range as the vendored NIST table gives it, tested with IEEE comparisons --------------- *)

(* first t_min and last t_max of the NIST forward table of the type *)
Definition nist_loF (T : tctype) : float :=
  match nist_fwd T with (a, _, _) :: _ => a | [] => nan end.
Definition nist_hiF (T : tctype) : float :=
  last (map (fun p : float * float * list float => snd (fst p)) (nist_fwd T)) nan.

Ltac fr_val l :=
  rewrite (FR_SF l);
  let v := eval vm_compute in (Prim2SF l) in change (Prim2SF l) with v;
  cbv [SF2R F2R SpecFloat.cond_Zopp Fnum Fexp bpow radix2 radix_val Z.opp].

Lemma nist_range_FR : forall T,
  Ffin (nist_loF T) /\ Ffin (nist_hiF T) /\
  fst (fwd_range T) <= FR (nist_loF T) /\ FR (nist_hiF T) <= snd (fwd_range T).
Proof.
  intros T; destruct T;
  match goal with |- Ffin ?a /\ Ffin ?b /\ _ =>
    let va := eval vm_compute in a in let vb := eval vm_compute in b in
    change a with va; change b with vb;
    split; [apply Ffin_prim; vm_compute; reflexivity|];
    split; [apply Ffin_prim; vm_compute; reflexivity|];
    cbv [fwd_range fst snd]; split; [fr_val va|fr_val vb]; lra
  end.
Qed.

Lemma float_range_R : forall T x,
  (nist_loF T <=? x)%float = true -> (x <=? nist_hiF T)%float = true ->
  Ffin x /\ fst (fwd_range T) <= FR x <= snd (fwd_range T).
Proof.
  intros T x H1 H2. destruct (nist_range_FR T) as [Ha [Hb [Hlo Hhi]]].
  assert (Hx : Ffin x) by (apply (between_Ffin _ _ x Ha Hb); assumption).
  split; [exact Hx|].
  pose proof (leb_FR _ _ Ha Hx H1). pose proof (leb_FR _ _ Hx Hb H2). lra.
Qed.

(* ---- float inverse of an exactly forward-converted voltage -------------------------------------- *)

Lemma combine_In_l {A B : Type} : forall (l : list A) (l' : list B) a,
  length l = length l' -> In a l -> exists b, In (a, b) (combine l l').
Proof.
  induction l as [|a0 r IH]; intros l' a Hlen Hin; [destruct Hin|].
  destruct l' as [|b0 r']; [discriminate Hlen|]. cbn [combine].
  destruct Hin as [<-|Hin].
  - exists b0. left. reflexivity.
  - injection Hlen as Hlen. destruct (IH r' a Hlen Hin) as [b Hb]. exists b. right. exact Hb.
Qed.

Lemma fwd_value_formula : forall T t v,
  fwd_value (code_expR T) (code_fwdR T) t v ->
  exists pm, In pm (fwd_pm T) /\ selR (fst pm) t /\ v = piece_formula (code_expR T) pm t.
Proof.
  intros T t v [p [Hp [Hsel Hpv]]].
  assert (Hlen : length (code_fwdR T) = length (code_fwd_expon T)) by (destruct T; reflexivity).
  destruct (combine_In_l _ _ p Hlen Hp) as [b Hb]. fold (fwd_pm T) in Hb.
  exists (p, b). split; [exact Hb|]. split; [exact Hsel|].
  pose proof (formulas_valid_all T) as Hfv. rewrite Forall_forall in Hfv.
  exact (Hfv (p, b) Hb t v Hsel Hpv).
Qed.

Ltac range_for t :=
  match goal with
  | Hs : ?S <= t /\ t < ?E, Hr : ?lo <= t <= ?hi |- _ =>
      assert (S <= t <= E) by lra; clear Hs Hr
  | Hs : t < ?E, Hr : ?lo <= t <= ?hi |- _ => assert (lo <= t <= E) by lra; clear Hs Hr
  | Hs : ?S <= t, Hr : ?lo <= t <= ?hi |- _ => assert (S <= t <= hi) by lra; clear Hs Hr
  end.

(* every forward value over the NIST temperature range lies in the voltage span inv_range *)
Lemma fwd_in_inv_range : forall T t v,
  fst (fwd_range T) <= t <= snd (fwd_range T) ->
  fwd_value (code_expR T) (code_fwdR T) t v ->
  fst (inv_range T) <= v <= snd (inv_range T).
Proof.
  intros T t v Hr Hf. destruct (fwd_value_formula T t v Hf) as [pm [Hpm [Hsel ->]]]. clear Hf.
  destruct T;
    cbv [fwd_pm combine In code_fwdR code_fwd_expon
         type_b_fwdR type_e_fwdR type_j_fwdR type_k_fwdR type_n_fwdR type_r_fwdR type_s_fwdR type_t_fwdR
         type_b_fwd_expon type_e_fwd_expon type_j_fwd_expon type_k_fwd_expon type_n_fwd_expon
         type_r_fwd_expon type_s_fwd_expon type_t_fwd_expon] in Hpm;
    repeat (destruct Hpm as [Hpm|Hpm]; [symmetry in Hpm|]); try contradiction; subst pm;
    cbv - [Rle Rlt Q2R Rdiv Rmult Ropp IZR Rinv Rplus Rminus exp] in Hsel, Hr |- *;
    range_for t;
    split; interval with (i_bisect t, i_taylor t, i_prec 60, i_depth 40).
Qed.

Lemma inv_spec_in_fwd_range : forall T tl th lo hi, In (tl, th, lo, hi) (inv_spec T) ->
  fst (fwd_range T) <= tl /\ th <= snd (fwd_range T).
Proof.
  intros T tl th lo hi H.
  destruct T;
    cbv [inv_spec inv_spec_b inv_spec_e inv_spec_j inv_spec_k inv_spec_n inv_spec_r inv_spec_s
         inv_spec_t In] in H;
    repeat (destruct H as [H|H]; [injection H as <- <- <- <-|]); try contradiction;
    cbv [fwd_range fst snd]; split; lra.
Qed.

Theorem inverse_of_forward_all : forall T tl th lo hi, In (tl, th, lo, hi) (inv_spec T) ->
  exists tc, type_tc T = Ok tc /\
  forall t v x, tl <= t <= th -> fwd_value (code_expR T) (code_fwdR T) t v ->
    Ffin x -> FR x = v ->
    exists t', mv_to_celsius tc x = Ok t' /\ Ffin t' /\
      lo - eps_inv T <= FR t' - t <= hi + eps_inv T.
Proof.
  intros T tl th lo hi Hspec. destruct (inverse_rounding_all T) as [tc [Htc H]].
  exists tc. split; [exact Htc|]. intros t v x Ht Hf Hx Hxv.
  destruct (inv_spec_in_fwd_range T tl th lo hi Hspec) as [Hl Hh].
  assert (Hrange : fst (inv_range T) <= FR x <= snd (inv_range T)).
  { rewrite Hxv. apply (fwd_in_inv_range T t v); [lra|exact Hf]. }
  destruct (H x Hx Hrange) as [t' [q [Ht' [Hfin [Hq [Hsel Hb]]]]]].
  exists t'. split; [exact Ht'|]. split; [exact Hfin|].
  assert (Hacc : lo <= polyR q (FR x) - t <= hi).
  { apply (inverse_accurate_all T tl th lo hi Hspec t v (polyR q (FR x)) Ht Hf).
    exists q. split; [exact Hq|]. split; [rewrite <- Hxv; exact Hsel|rewrite Hxv; reflexivity]. }
  apply Rabs_le_inv in Hb. lra.
Qed.

(* ---- the forms stated in Props/C18_round.v ------------------------------------------------------- *)

Lemma all3_impl {A B C : Type} (P Q : A -> B -> C -> Prop) :
  (forall a b c, P a b c -> Q a b c) ->
  forall l1 l2 l3, all3 P l1 l2 l3 -> all3 Q l1 l2 l3.
Proof.
  intros HPQ. induction l1 as [|a r1 IH]; intros [|b r2] [|c r3] H; try exact H.
  destruct H as [H1 H2]. split; [apply HPQ; exact H1|apply IH; exact H2].
Qed.

Lemma forward_pieces_rounding_all : forall T,
  all3 (piece_rounding (fst (fwd_range T)) (snd (fwd_range T))) (code_fwdF T) (code_fwdR T) (fwd_Xe T).
Proof.
  intros T. apply (all3_impl (piece_tied (fst (fwd_range T)) (snd (fwd_range T)))).
  - intros a b c [_ [_ H]]. exact H.
  - apply pieces_rounding_gen;
      [exact (proj1 (tables_finite T))|exact (fwd_tables_FR T)|exact (fwd_pieces_ok T)].
Qed.

Lemma inverse_pieces_rounding_all : forall T,
  all3 (piece_rounding (fst (inv_range T)) (snd (inv_range T))) (code_invF T) (code_invR T) (inv_Xe T).
Proof.
  intros T. apply (all3_impl (piece_tied (fst (inv_range T)) (snd (inv_range T)))).
  - intros a b c [_ [_ H]]. exact H.
  - apply pieces_rounding_gen;
      [exact (proj2 (tables_finite T))|exact (inv_tables_FR T)|exact (inv_pieces_ok T)].
Qed.

Theorem forward_rounding_float_range_all : forall T, exists tc, type_tc T = Ok tc /\
  forall x, (nist_loF T <=? x)%float = true -> (x <=? nist_hiF T)%float = true ->
  exists v q, celsius_to_mv_poly tc x = Ok v /\ Ffin v /\ In q (code_fwdR T) /\ selR q (FR x) /\
              Rabs (FR v - polyR q (FR x)) <= eps_fwd T.
Proof.
  intros T. destruct (forward_rounding_all T) as [tc [Htc H]].
  exists tc. split; [exact Htc|]. intros x H1 H2.
  destruct (float_range_R T x H1 H2) as [Hx Hr]. exact (H x Hx Hr).
Qed.
